package main

import (
	_ "verifharness/internal/c35"
	"verifharness/internal/hx"
)

func main() { hx.Main() }
