package main

import (
	_ "verifharness/internal/c21"
	"verifharness/internal/hx"
)

func main() { hx.Main() }
