package main

import (
	_ "verifharness/internal/c28"
	"verifharness/internal/hx"
)

func main() { hx.Main() }
