package main

import (
	_ "verifharness/internal/c39"
	"verifharness/internal/hx"
)

func main() { hx.Main() }
