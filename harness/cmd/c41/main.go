package main

import (
	_ "verifharness/internal/c41"
	"verifharness/internal/hx"
)

func main() { hx.Main() }
