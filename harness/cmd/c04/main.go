package main

import (
	_ "verifharness/internal/c04"
	"verifharness/internal/hx"
)

func main() { hx.Main() }
