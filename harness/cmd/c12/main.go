package main

import (
	_ "verifharness/internal/c12"
	"verifharness/internal/hx"
)

func main() { hx.Main() }
