package main

import (
	_ "verifharness/internal/c20"
	"verifharness/internal/hx"
)

func main() { hx.Main() }
