package main

import (
	_ "verifharness/internal/c19"
	"verifharness/internal/hx"
)

func main() { hx.Main() }
