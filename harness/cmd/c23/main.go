package main

import (
	_ "verifharness/internal/c23"
	"verifharness/internal/hx"
)

func main() { hx.Main() }
