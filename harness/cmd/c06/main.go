package main

import (
	_ "verifharness/internal/c06"
	"verifharness/internal/hx"
)

func main() { hx.Main() }
