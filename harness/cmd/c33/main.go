package main

import (
	_ "verifharness/internal/c33"
	"verifharness/internal/hx"
)

func main() { hx.Main() }
