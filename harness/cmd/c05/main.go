package main

import (
	_ "verifharness/internal/c05"
	"verifharness/internal/hx"
)

func main() { hx.Main() }
