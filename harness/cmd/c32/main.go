package main

import (
	_ "verifharness/internal/c32"
	"verifharness/internal/hx"
)

func main() { hx.Main() }
