package main

import (
	"flag"
	"fmt"
	"os"

	"verifharness/internal/c08"
	"verifharness/internal/hx"
)

func main() {
	if len(os.Args) > 1 && os.Args[1] == "gentypes" {
		fs := flag.NewFlagSet("gentypes", flag.ExitOnError)
		out := fs.String("out", "", "output dir")
		repo := fs.String("repo", "", "source tree to cross-check")
		fs.Parse(os.Args[2:])
		if err := c08.GenTypes(*out, *repo); err != nil {
			fmt.Fprintln(os.Stderr, err)
			os.Exit(1)
		}
		return
	}
	hx.Main()
}
