package main

import (
	_ "verifharness/internal/c15"
	"verifharness/internal/hx"
)

func main() { hx.Main() }
