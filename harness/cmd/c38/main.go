package main

import (
	_ "verifharness/internal/c38"
	"verifharness/internal/hx"
)

func main() { hx.Main() }
