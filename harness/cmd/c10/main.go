package main

import (
	_ "verifharness/internal/c10"
	"verifharness/internal/hx"
)

func main() { hx.Main() }
