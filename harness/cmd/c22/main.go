package main

import (
	_ "verifharness/internal/c22"
	"verifharness/internal/hx"
)

func main() { hx.Main() }
