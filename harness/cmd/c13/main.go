package main

import (
	_ "verifharness/internal/c13"
	"verifharness/internal/hx"
)

func main() { hx.Main() }
