package main

import (
	_ "verifharness/internal/c07"
	"verifharness/internal/hx"
)

func main() { hx.Main() }
