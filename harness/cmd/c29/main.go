package main

import (
	_ "verifharness/internal/c29"
	"verifharness/internal/hx"
)

func main() { hx.Main() }
