package main

import (
	_ "verifharness/internal/c34"
	"verifharness/internal/hx"
)

func main() { hx.Main() }
