package main

import (
	_ "verifharness/internal/c11"
	"verifharness/internal/hx"
)

func main() { hx.Main() }
