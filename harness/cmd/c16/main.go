package main

import (
	_ "verifharness/internal/c16"
	"verifharness/internal/hx"
)

func main() { hx.Main() }
