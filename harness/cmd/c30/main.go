package main

import (
	_ "verifharness/internal/c30"
	"verifharness/internal/hx"
)

func main() { hx.Main() }
