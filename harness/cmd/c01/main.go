package main

import (
	_ "verifharness/internal/c01"
	"verifharness/internal/hx"
)

func main() { hx.Main() }
