package main

import (
	_ "verifharness/internal/c17"
	"verifharness/internal/hx"
)

func main() { hx.Main() }
