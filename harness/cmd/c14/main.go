package main

import (
	_ "verifharness/internal/c14"
	"verifharness/internal/hx"
)

func main() { hx.Main() }
