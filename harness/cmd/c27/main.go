package main

import (
	_ "verifharness/internal/c27"
	"verifharness/internal/hx"
)

func main() { hx.Main() }
