package main

import (
	_ "verifharness/internal/c42"
	"verifharness/internal/hx"
)

func main() { hx.Main() }
