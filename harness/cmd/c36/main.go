package main

import (
	_ "verifharness/internal/c36"
	"verifharness/internal/hx"
)

func main() { hx.Main() }
