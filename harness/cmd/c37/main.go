package main

import (
	_ "verifharness/internal/c37"
	"verifharness/internal/hx"
)

func main() { hx.Main() }
