package main

import (
	_ "verifharness/internal/c02"
	"verifharness/internal/hx"
)

func main() { hx.Main() }
