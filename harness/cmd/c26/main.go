package main

import (
	_ "verifharness/internal/c26"
	"verifharness/internal/hx"
)

func main() { hx.Main() }
