package main

import (
	_ "verifharness/internal/c25"
	"verifharness/internal/hx"
)

func main() { hx.Main() }
