package main

import (
	_ "verifharness/internal/c18"
	"verifharness/internal/hx"
)

func main() { hx.Main() }
