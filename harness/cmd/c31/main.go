package main

import (
	_ "verifharness/internal/c31"
	"verifharness/internal/hx"
)

func main() { hx.Main() }
