package main

import (
	_ "verifharness/internal/c03"
	"verifharness/internal/hx"
)

func main() { hx.Main() }
