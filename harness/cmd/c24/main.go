package main

import (
	_ "verifharness/internal/c24"
	"verifharness/internal/hx"
)

func main() { hx.Main() }
