package main

import (
	_ "verifharness/internal/c09"
	"verifharness/internal/hx"
)

func main() { hx.Main() }
