package main

import (
	_ "verifharness/internal/c43"
	"verifharness/internal/hx"
)

func main() { hx.Main() }
