package main

import (
	_ "verifharness/internal/c40"
	"verifharness/internal/hx"
)

func main() { hx.Main() }
