package main

import (
	_ "verifharness/internal/c42"
)
