module verifharness

go 1.26.0

require (
	github.com/glebarez/go-sqlite v1.22.0
	github.com/sarchlab/akita/v5 v5.0.0
	golang.org/x/tools v0.39.0
)

require (
	github.com/dustin/go-humanize v1.0.1 // indirect
	github.com/google/pprof v0.0.0-20250820193118-f64d9cf942d6 // indirect
	github.com/google/uuid v1.5.0 // indirect
	github.com/mattn/go-isatty v0.0.20 // indirect
	github.com/mattn/go-sqlite3 v1.14.24 // indirect
	github.com/remyoudompheng/bigfft v0.0.0-20230129092748-24d4a6f8daec // indirect
	github.com/rs/xid v1.6.0 // indirect
	github.com/shirou/gopsutil v3.21.11+incompatible // indirect
	github.com/syifan/goseth v0.1.2 // indirect
	github.com/tebeka/atexit v0.3.0 // indirect
	github.com/tklauser/go-sysconf v0.3.15 // indirect
	github.com/tklauser/numcpus v0.10.0 // indirect
	golang.org/x/mod v0.30.0 // indirect
	golang.org/x/sync v0.18.0 // indirect
	golang.org/x/sys v0.38.0 // indirect
	modernc.org/libc v1.37.6 // indirect
	modernc.org/mathutil v1.6.0 // indirect
	modernc.org/memory v1.7.2 // indirect
	modernc.org/sqlite v1.28.0 // indirect
)

replace github.com/sarchlab/akita/v5 => /repo
