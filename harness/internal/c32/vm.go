package c32

// A translation stack of real components: driver -> TLB0 -> [TLB1] -> MMU (page
// table), every component traced (recording tracer + buffer tracing), driven with
// translation requests and control verbs, Reset in the middle of traffic.

import (
	"fmt"

	"github.com/sarchlab/akita/v5/mem"
	"github.com/sarchlab/akita/v5/mem/memcontrolprotocol"
	"github.com/sarchlab/akita/v5/mem/memprotocol"
	"github.com/sarchlab/akita/v5/mem/vm"
	"github.com/sarchlab/akita/v5/mem/vm/addresstranslator"
	"github.com/sarchlab/akita/v5/mem/vm/gmmu"
	"github.com/sarchlab/akita/v5/mem/vm/mmu"
	"github.com/sarchlab/akita/v5/mem/vm/mmuCache"
	"github.com/sarchlab/akita/v5/mem/vm/tlb"
	"github.com/sarchlab/akita/v5/mem/vm/vmprotocol"
	"github.com/sarchlab/akita/v5/messaging"
	"github.com/sarchlab/akita/v5/modeling"
	"github.com/sarchlab/akita/v5/timing"
	"github.com/sarchlab/akita/v5/tracing"

	"verifharness/internal/hx"
	"verifharness/internal/memasm"
	"verifharness/internal/memdrv"
)

type tlbCfg struct {
	Sets, Ways, MSHR, Latency, Width int
}

// VMOp is one driver step: K "x" = translate page index P, K "c" = control verb.
type VMOp struct {
	K      string `json:"k"`
	P      uint64 `json:"p,omitempty"`
	Cmd    string `json:"c,omitempty"`
	Target string `json:"t,omitempty"`
	Delay  int    `json:"dl,omitempty"`
}

type vmInput struct {
	TLBs       []tlbCfg `json:"tlbs"`
	MMULatency int      `json:"mmu_latency"`
	Inflight   int      `json:"inflight"`
	PortBuf    int      `json:"port_buf"`
	Buf        bool     `json:"buf"`
	AT         bool     `json:"at,omitempty"`        // an address translator on top: the driver issues memory accesses
	MMUCache   bool     `json:"mmu_cache,omitempty"` // an MMU cache between the TLBs and the (G)MMU
	GMMU       bool     `json:"gmmu,omitempty"`      // a GMMU (pages of device 2 are resolved remotely by the driver) instead of the MMU
	Script     []VMOp   `json:"script"`
}

// vmModules lists the control targets of a stack, top-down.
func vmModules(in *vmInput) []string {
	var all []string
	if in.AT {
		all = append(all, "AT")
	}
	for i := range in.TLBs {
		all = append(all, fmt.Sprintf("TLB%d", i))
	}
	if in.MMUCache {
		all = append(all, "MMUCache")
	}
	if in.GMMU {
		all = append(all, "GMMU")
	} else {
		all = append(all, "MMU")
	}
	return all
}

func runVM(in *vmInput) (hx.Case, error) {
	var log []rev
	r0, i0, o0 := tracing.VerifRegistrySizes()
	done := false
	ctrlSent, ctrlAcked := 0, 0
	panicked, msg := hx.Try(func() {
		eng := timing.NewSerialEngine()
		sim := &memdrv.Sim{Engine: eng, Reg: modeling.NewStandaloneRegistrar(eng)}
		buf := max(1, in.PortBuf)
		const k = 12
		pt := vm.NewPageTable(k)
		for p := uint64(0); p < 64; p++ {
			dev := uint64(1)
			if in.GMMU && p%3 == 2 {
				dev = 2 // owned by another device: the GMMU asks its LowModule (the driver)
			}
			pt.Insert(vm.Page{PID: 1, VAddr: p << k, PAddr: (p + 100) << k, PageSize: 1 << k, Valid: true, DeviceID: dev})
		}
		var comps []memdrv.PortOwner
		ctrl := map[string]messaging.Port{}
		var links [][2]messaging.Port
		var lower messaging.Port
		var gm *gmmu.Comp
		if in.GMMU {
			gs := gmmu.DefaultSpec()
			gs.DeviceID, gs.Log2PageSize = 1, k
			gs.Latency, gs.MaxRequestsInFlight = max(1, in.MMULatency), max(1, in.Inflight)
			gs.LowModule = "Drv.Remote"
			gm = gmmu.MakeBuilder().WithRegistrar(sim.Reg).WithSpec(gs).WithResources(gmmu.Resources{PageTable: pt}).Build("GMMU")
			sim.AddPorts(gm, buf, "Top", "Bottom", "Control")
			comps = append(comps, gm)
			ctrl["GMMU"] = gm.GetPortByName("Control")
			lower = gm.GetPortByName("Top")
		} else {
			ms := mmu.DefaultSpec()
			ms.Log2PageSize = k
			ms.Latency = max(1, in.MMULatency)
			ms.MaxRequestsInFlight = max(1, in.Inflight)
			m := mmu.MakeBuilder().WithRegistrar(sim.Reg).WithSpec(ms).WithResources(mmu.Resources{PageTable: pt}).Build("MMU")
			sim.AddPorts(m, buf, "Top", "Control")
			comps = append(comps, m)
			ctrl["MMU"] = m.GetPortByName("Control")
			lower = m.GetPortByName("Top")
		}
		if in.MMUCache {
			cs := mmuCache.DefaultSpec()
			cs.Log2PageSize, cs.PageSize, cs.NumLevels, cs.NumBlocks, cs.LatencyPerLevel = k, 1<<k, 4, 2, 2
			up := messaging.RemotePort("Drv.Xl")
			if n := len(in.TLBs); n > 0 {
				up = messaging.RemotePort(fmt.Sprintf("TLB%d.Bottom", n-1))
			} else if in.AT {
				up = "AT.Translation"
			}
			mc := mmuCache.MakeBuilder().WithRegistrar(sim.Reg).WithSpec(cs).
				WithResources(mmuCache.Resources{LowModulePort: lower.AsRemote(), UpModulePort: up}).Build("MMUCache")
			sim.AddPorts(mc, buf, "Top", "Bottom", "Control")
			links = append(links, [2]messaging.Port{mc.GetPortByName("Bottom"), lower})
			lower = mc.GetPortByName("Top")
			comps = append(comps, mc)
			ctrl["MMUCache"] = mc.GetPortByName("Control")
		}
		for i := len(in.TLBs) - 1; i >= 0; i-- {
			c := in.TLBs[i]
			sp := tlb.DefaultSpec()
			sp.NumSets, sp.NumWays, sp.Log2PageSize = max(1, c.Sets), max(1, c.Ways), k
			sp.MSHRSize, sp.Latency, sp.NumReqPerCycle = max(1, c.MSHR), max(2, c.Latency), max(1, c.Width)
			t := tlb.MakeBuilder().WithRegistrar(sim.Reg).WithSpec(sp).
				WithResources(tlb.Resources{TranslationProviderMapper: &mem.SinglePortMapper{Port: lower.AsRemote()}}).
				Build(fmt.Sprintf("TLB%d", i))
			sim.AddPorts(t, buf, "Top", "Bottom", "Control")
			links = append(links, [2]messaging.Port{t.GetPortByName("Bottom"), lower})
			lower = t.GetPortByName("Top")
			comps = append(comps, t)
			ctrl[t.Name()] = t.GetPortByName("Control")
		}
		var at *addresstranslator.Comp
		if in.AT {
			as := addresstranslator.DefaultSpec()
			as.Log2PageSize, as.DeviceID, as.NumReqPerCycle = k, 1, 2
			at = addresstranslator.MakeBuilder().WithRegistrar(sim.Reg).WithSpec(as).
				WithResources(addresstranslator.Resources{
					MemProviderMapper:         &mem.SinglePortMapper{Port: "Drv.Mem"},
					TranslationProviderMapper: &mem.SinglePortMapper{Port: lower.AsRemote()}}).Build("AT")
			sim.AddPorts(at, buf, "Top", "Bottom", "Translation", "Control")
			links = append(links, [2]messaging.Port{at.GetPortByName("Translation"), lower})
			comps = append(comps, at)
			ctrl["AT"] = at.GetPortByName("Control")
		}
		d := sim.NewDriver("Drv", 1*timing.GHz, 4, "Xl", "Top", "Mem", "Remote", "Ctrl")
		for _, l := range links {
			sim.Connect(l[0], l[1])
		}
		if at != nil {
			sim.Connect(d.GetPortByName("Top"), at.GetPortByName("Top"))
			sim.Connect(d.GetPortByName("Mem"), at.GetPortByName("Bottom"))
		} else {
			sim.Connect(d.GetPortByName("Xl"), lower)
		}
		if gm != nil {
			sim.Connect(d.GetPortByName("Remote"), gm.GetPortByName("Bottom"))
		}
		cps := []messaging.Port{d.GetPortByName("Ctrl")}
		for _, n := range vmModules(in) {
			cps = append(cps, ctrl[n])
		}
		sim.Connect(cps...)
		for _, c := range comps {
			tracing.CollectTrace(c.(tracing.NamedHookable), &recorder{comp: c.Name(), log: &log})
			if in.Buf {
				for _, p := range c.Ports() {
					tracing.CollectIncomingBufferTrace(p)
					tracing.CollectOutgoingBufferTrace(p)
				}
			}
		}
		type due struct {
			at   uint64
			port string
			msg  messaging.Msg
		}
		var queue []due
		cursor, delay, delayOf, seen, nd := 0, 0, -1, 0, 0
		stallUntil := uint64(0)
		d.Hold = map[string]bool{}
		d.TickFn = func(dd *memdrv.Driver) bool {
			// an "s" step makes the driver leave the answers to its requests on the
			// port for a window (Top-port back-pressure on the top module)
			stalled := dd.Cycle() <= stallUntil && stallUntil > 0
			dd.Hold["Xl"], dd.Hold["Top"] = stalled, stalled
			progress := dd.Drain() || stalled
			// the driver is the memory below the translator and the remote owner of
			// the pages of device 2: answer what arrives, a few cycles later
			for ; seen < len(dd.Log); seen++ {
				switch m := dd.Log[seen].Msg.(type) {
				case memprotocol.ReadReq:
					rsp := memprotocol.DataReadyRsp{Data: make([]byte, m.AccessByteSize)}
					rsp.ID, rsp.Src, rsp.Dst, rsp.RspTo = memdrv.NewID(), dd.GetPortByName("Mem").AsRemote(), m.Src, m.ID
					rsp.TrafficClass = "memprotocol.DataReadyRsp"
					queue = append(queue, due{dd.Cycle() + uint64(1+nd%5), "Mem", rsp})
					nd++
				case memprotocol.WriteReq:
					rsp := memprotocol.WriteDoneRsp{}
					rsp.ID, rsp.Src, rsp.Dst, rsp.RspTo = memdrv.NewID(), dd.GetPortByName("Mem").AsRemote(), m.Src, m.ID
					rsp.TrafficClass = "memprotocol.WriteDoneRsp"
					queue = append(queue, due{dd.Cycle() + uint64(1+nd%5), "Mem", rsp})
					nd++
				case vmprotocol.TranslationReq:
					if pg, ok := pt.Find(m.PID, m.VAddr); ok {
						rsp := vmprotocol.TranslationRsp{Page: pg}
						rsp.ID, rsp.Src, rsp.Dst, rsp.RspTo = memdrv.NewID(), dd.GetPortByName("Remote").AsRemote(), m.Src, m.ID
						rsp.TrafficClass = "vmprotocol.TranslationRsp"
						queue = append(queue, due{dd.Cycle() + uint64(1+nd%7), "Remote", rsp})
						nd++
					}
				case memcontrolprotocol.Rsp:
					ctrlAcked++
				}
			}
			kept := queue[:0]
			blocked := map[string]bool{}
			for _, q := range queue {
				p := dd.GetPortByName(q.port)
				if q.at <= dd.Cycle() && !blocked[q.port] && p.CanSend() {
					p.Send(q.msg)
					progress = true
					continue
				}
				if q.at <= dd.Cycle() {
					blocked[q.port] = true
				}
				kept = append(kept, q)
			}
			queue = kept
			if len(queue) > 0 {
				progress = true
			}
			for cursor < len(in.Script) {
				op := in.Script[cursor]
				if op.K == "s" {
					stallUntil = dd.Cycle() + uint64(op.Delay)
					cursor++
					progress = true
					continue
				}
				if op.Delay > 0 {
					if delayOf != cursor {
						delayOf, delay = cursor, op.Delay
					}
					if delay > 0 {
						delay--
						return true
					}
				}
				if op.K == "c" {
					cp := dd.GetPortByName("Ctrl")
					if !cp.CanSend() {
						return progress
					}
					req := memcontrolprotocol.Req{Command: memasm.CmdOf(op.Cmd)}
					req.ID, req.Src, req.Dst = memdrv.NewID(), cp.AsRemote(), ctrl[op.Target].AsRemote()
					req.TrafficClass = "memcontrolprotocol.Req"
					cp.Send(req)
					ctrlSent++
				} else if at != nil {
					tp := dd.GetPortByName("Top")
					if !tp.CanSend() {
						return progress
					}
					meta := messaging.MsgMeta{ID: memdrv.NewID(), Src: tp.AsRemote(), Dst: at.GetPortByName("Top").AsRemote()}
					if op.P%2 == 1 {
						meta.TrafficClass = "memprotocol.WriteReq"
						tp.Send(memprotocol.WriteReq{MsgMeta: meta, Address: op.P<<k + 8, Data: []byte{1, 2, 3, 4}, PID: 1})
					} else {
						meta.TrafficClass = "memprotocol.ReadReq"
						tp.Send(memprotocol.ReadReq{MsgMeta: meta, Address: op.P<<k + 8, AccessByteSize: 4, PID: 1})
					}
				} else {
					xp := dd.GetPortByName("Xl")
					if !xp.CanSend() {
						return progress
					}
					// page-aligned, as the address translator sends them: the TLB keys its
					// MSHR by the requested address and matches responses by the page's
					req := vmprotocol.TranslationReq{VAddr: op.P << k, PID: 1, DeviceID: 1}
					req.ID, req.Src, req.Dst = memdrv.NewID(), xp.AsRemote(), lower.AsRemote()
					req.TrafficClass = "vmprotocol.TranslationReq"
					xp.Send(req)
				}
				cursor++
				progress = true
			}
			done = true
			return progress
		}
		d.TickLater()
		if err := eng.Run(); err != nil {
			panic(err)
		}
	})
	if panicked {
		return hx.Case{}, fmt.Errorf("vm stack panicked: %s", msg)
	}
	c, o, quiescent, err := finish(log, [3]int{r0, i0, o0}, done, ctrlSent, ctrlAcked)
	if err != nil {
		return hx.Case{}, err
	}
	mid, stall, seen, total := false, false, 0, 0
	for _, op := range in.Script {
		if op.K == "x" {
			total++
		}
	}
	for _, op := range in.Script {
		if op.K == "x" {
			seen++
		} else if op.K == "c" && op.Cmd == "reset" && seen > 0 && seen < total {
			mid = true
		}
		if op.K == "s" {
			stall = true
		}
	}
	c.Tags = []string{"case:vm", fmt.Sprintf("tlbs:%d", len(in.TLBs))}
	for _, f := range []struct {
		on   bool
		name string
	}{{in.AT, "vm:at"}, {in.MMUCache, "vm:mmucache"}, {in.GMMU, "vm:gmmu"}, {!in.GMMU, "vm:mmu"}} {
		if f.on {
			c.Tags = append(c.Tags, f.name)
		}
	}
	if in.Buf {
		c.Tags = append(c.Tags, "buffer-tracing")
	}
	if mid {
		c.Tags = append(c.Tags, "reset:mid-traffic")
	}
	if stall {
		c.Tags = append(c.Tags, "rsp-stall")
	}
	if !quiescent {
		c.Tags = append(c.Tags, "script-incomplete")
	}
	c.Nontrivial = mid && o.Tasks >= 20 && quiescent
	c.Known = vmKnown(in)
	return c, nil
}

// vmKnown names the known finding a violation in this stack is attributed to.
func vmKnown(in *vmInput) string {
	if !in.Buf {
		// the TLB, the MMU ... add admission milestones to the incoming-buffer task
		return "no_buffer_tracing_dangling_milestone"
	}
	return ""
}

// finish turns a recorded run into a case: registry deltas, the Go-side verdict
// and the Coq term. quiescent: the whole history was issued and every control
// verb - the closing Enable+Reset rounds included - was carried out and acknowledged.
func finish(log []rev, regs0 [3]int, done bool, ctrlSent, ctrlAcked int) (hx.Case, obs, bool, error) {
	var o obs
	r1, i1, o1 := tracing.VerifRegistrySizes()
	o.Regs = [3]int{r1 - regs0[0], i1 - regs0[1], o1 - regs0[2]}
	o.Events = len(log)
	o.Done = done
	o.Kinds = map[string]int{}
	for _, e := range log {
		if e.K == "s" {
			o.Tasks++
			o.Kinds[e.Kind]++
		}
	}
	for _, dlt := range o.Regs {
		if dlt < 0 {
			return hx.Case{}, o, false, fmt.Errorf("registry shrank during the case: %v", o.Regs)
		}
	}
	quiescent := done && ctrlAcked == ctrlSent
	first, open := localWF(log, quiescent)
	o.FirstBad = first
	if len(open) > 12 {
		open = open[:12]
	}
	o.Open = open
	if first != "" {
		n := len(log)
		if n > 30 {
			o.TraceTail = log[n-30:]
		} else {
			o.TraceTail = log
		}
	}
	c := hx.Case{Obs: o}
	goVerdict := first == "" && (!quiescent || o.Regs == [3]int{})
	c.Coq = hx.App("AsmCase", hx.B(quiescent), traceTerm(log),
		hx.T(hx.N(uint64(o.Regs[0])), hx.N(uint64(o.Regs[1])), hx.N(uint64(o.Regs[2]))), hx.B(goVerdict))
	return c, o, quiescent, nil
}

// traceTerm prints a recorded event list as a Coq list of trace events,
// numbering kinds and locations, and renumbering the task IDs 1, 2, 3 ... in the
// order of their first appearance (0 stays 0). The acceptor only ever compares IDs
// for equality, so an injective renaming does not change its verdict; the 19-digit
// tracing-local IDs made coqc spend most of the tier reading numerals.
func traceTerm(log []rev) string {
	kinds := map[string]uint64{"req_in": 1, "req_out": 2, "pipeline": 3, "incoming_buffer": 4, "outgoing_buffer": 5}
	locs := map[string]uint64{}
	ids := map[uint64]uint64{0: 0}
	id := func(x uint64) uint64 {
		v, ok := ids[x]
		if !ok {
			v = uint64(len(ids))
			ids[x] = v
		}
		return v
	}
	evs := make([]string, 0, len(log))
	for _, e := range log {
		switch e.K {
		case "s":
			k, ok := kinds[e.Kind]
			if !ok {
				k = uint64(len(kinds) + 1)
				kinds[e.Kind] = k
			}
			l, ok := locs[e.Loc]
			if !ok {
				l = uint64(len(locs) + 1)
				locs[e.Loc] = l
			}
			evs = append(evs, hx.App("TStart", hx.N(id(e.ID)), hx.N(id(e.Parent)), hx.N(k), hx.N(l), hx.N(e.T)))
		case "e":
			evs = append(evs, hx.App("TEnd", hx.N(id(e.ID)), hx.N(e.T)))
		case "g":
			evs = append(evs, hx.App("TTag", hx.N(id(e.Task)), hx.N(e.T)))
		case "m":
			evs = append(evs, hx.App("TMile", hx.N(id(e.Task)), hx.N(e.T)))
		}
	}
	return hx.L(evs)
}

func genVM(r *hx.Rand, tier string) input {
	in := vmInput{MMULatency: 1 + r.Intn(8), Inflight: 1 + r.Intn(8), PortBuf: 1 + r.Intn(4), Buf: !r.Chance(1, 8)}
	for i := 1 + r.Intn(2); i > 0; i-- {
		in.TLBs = append(in.TLBs, tlbCfg{Sets: 1 << r.Intn(3), Ways: 1 << r.Intn(3), MSHR: 1 + r.Intn(4),
			Latency: 2 + r.Intn(3), Width: 1 + r.Intn(3)})
	}
	if variant := r.Intn(4); variant > 0 {
		in.AT = r.Bool()
		in.MMUCache = r.Bool()
		in.GMMU = r.Bool()
		if r.Chance(1, 4) {
			in.TLBs = nil // the translator / driver talks to the MMU cache or (G)MMU directly
		}
	}
	all := vmModules(&in)
	traffic := func(n int) {
		for i := 0; i < n; i++ {
			op := VMOp{K: "x", P: uint64(r.Intn(24))}
			if r.Chance(1, 5) {
				op.Delay = 1 + r.Intn(10)
			}
			in.Script = append(in.Script, op)
		}
	}
	c := func(cmd, t string, d int) { in.Script = append(in.Script, VMOp{K: "c", Cmd: cmd, Target: t, Delay: d}) }
	phases := 2 + r.Intn(2)
	for ph := 0; ph < phases; ph++ {
		traffic(4 + r.Intn(12))
		if ph == phases-1 {
			break
		}
		if r.Chance(1, 3) { // the requester leaves the answers on its port for a while
			in.Script = append(in.Script, VMOp{K: "s", Delay: 8 + r.Intn(40)})
			traffic(r.Intn(6))
		}
		switch r.Pick(4, 2, 2, 2) {
		case 0: // reset the top k modules in the middle of traffic
			for i, k := 0, 1+r.Intn(len(all)); i < k; i++ {
				c("reset", all[i], r.Intn(3))
			}
		case 1: // pause, invalidate, enable
			j := r.Intn(len(all))
			t := all[j]
			c("pause", t, r.Intn(3))
			c("invalidate", t, r.Intn(3))
			c("enable", t, r.Intn(6))
			// a flushed lower module forgets requests the modules above it still
			// wait for; resetting those lets the rest of the history be issued
			for i := 0; i < j; i++ {
				c("reset", all[i], r.Intn(3))
			}
		case 2: // drain, enable
			t := all[r.Intn(len(all))]
			c("drain", t, 0)
			c("enable", t, r.Intn(8))
		default: // pause, reset
			t := all[0]
			c("pause", t, 0)
			c("reset", t, r.Intn(4))
		}
	}
	for round := 0; round < 2; round++ {
		for i := range all {
			t := all[i]
			if round == 1 {
				t = all[len(all)-1-i]
			}
			d := 0
			if i == 0 {
				d = 40
			}
			c("enable", t, d)
			c("reset", t, 0)
		}
	}
	return input{Kind: "vm", VM: &in}
}
