package c32

// A memory module driven directly, with one- or two-slot buffers on EVERY port,
// the Control port included (the memasm assemblies give Control ports four slots):
// control verbs issued back to back then find the acknowledgement of the previous
// verb still in the outgoing buffer, and requests wait at the head of the Top port.

import (
	"fmt"

	"github.com/sarchlab/akita/v5/mem"
	"github.com/sarchlab/akita/v5/mem/idealmemcontroller"
	"github.com/sarchlab/akita/v5/mem/memcontrolprotocol"
	"github.com/sarchlab/akita/v5/mem/memprotocol"
	"github.com/sarchlab/akita/v5/mem/simplebankedmemory"
	"github.com/sarchlab/akita/v5/modeling"
	"github.com/sarchlab/akita/v5/timing"
	"github.com/sarchlab/akita/v5/tracing"

	"verifharness/internal/hx"
	"verifharness/internal/memasm"
	"verifharness/internal/memdrv"
)

// LMOp: K "r"/"w" = read / write 4 bytes at line A, K "c" = control verb,
// K "s" = the driver stops retrieving data responses for the next Delay ticks
// (Top-port back-pressure: the module's Top outgoing buffer fills) while it goes on
// with the script.
type LMOp struct {
	K     string `json:"k"`
	A     uint64 `json:"a,omitempty"`
	Cmd   string `json:"c,omitempty"`
	Delay int    `json:"dl,omitempty"`
}

type lmInput struct {
	Kind     string `json:"mem"` // "banked" | "ideal"
	PortBuf  int    `json:"port_buf"`
	Banks    int    `json:"banks"`
	Depth    int    `json:"depth"`
	StageLat int    `json:"stage_lat"`
	Latency  int    `json:"latency"`
	Width    int    `json:"width"`
	AckEvery int    `json:"ack_every"` // the driver retrieves control acknowledgements only every k-th tick
	Script   []LMOp `json:"script"`
}

func runLM(in *lmInput) (hx.Case, error) {
	var log []rev
	r0, i0, o0 := tracing.VerifRegistrySizes()
	done := false
	ctrlSent, ctrlAcked := 0, 0
	panicked, msg := hx.Try(func() {
		eng := timing.NewSerialEngine()
		sim := &memdrv.Sim{Engine: eng, Reg: modeling.NewStandaloneRegistrar(eng)}
		buf := max(1, in.PortBuf)
		var m memdrv.PortOwner
		if in.Kind == "ideal" {
			s := idealmemcontroller.DefaultSpec()
			s.Latency, s.Width = max(0, in.Latency), max(1, in.Width)
			m = idealmemcontroller.MakeBuilder().WithRegistrar(sim.Reg).WithSpec(s).
				WithResources(idealmemcontroller.Resources{Storage: mem.NewStorage(1 * mem.MB)}).Build("M0")
		} else {
			s := simplebankedmemory.DefaultSpec()
			s.NumBanks, s.BankPipelineWidth, s.BankPipelineDepth = max(1, in.Banks), 1, max(0, in.Depth)
			s.StageLatency, s.PostPipelineBufSize, s.BankSelectorLog2InterleaveSize = max(1, in.StageLat), 1, 6
			m = simplebankedmemory.MakeBuilder().WithRegistrar(sim.Reg).WithSpec(s).
				WithResources(simplebankedmemory.Resources{Storage: mem.NewStorage(1 * mem.MB)}).Build("M0")
		}
		sim.AddPorts(m, buf, "Top", "Control")
		d := sim.NewDriver("Drv", 1*timing.GHz, buf, "Mem", "Ctrl")
		sim.Connect(d.GetPortByName("Mem"), m.GetPortByName("Top"))
		sim.Connect(d.GetPortByName("Ctrl"), m.GetPortByName("Control"))
		tracing.CollectTrace(m.(tracing.NamedHookable), &recorder{comp: m.Name(), log: &log})
		for _, p := range m.Ports() {
			tracing.CollectIncomingBufferTrace(p)
			tracing.CollectOutgoingBufferTrace(p)
		}
		cursor, delay, delayOf, ticks, stallUntil := 0, 0, -1, 0, 0
		d.TickFn = func(dd *memdrv.Driver) bool {
			// data responses are taken at once; control acknowledgements lazily, so
			// that the module's Control outgoing buffer stays full for a while
			ticks++
			progress := false
			for _, n := range []string{"Mem", "Ctrl"} {
				if n == "Mem" && ticks <= stallUntil {
					progress = true // keep ticking until the stall is over
					continue
				}
				if n == "Ctrl" && in.AckEvery > 1 && ticks%in.AckEvery != 0 {
					if dd.GetPortByName(n).PeekIncoming() != nil {
						progress = true // keep ticking until the ack is due
					}
					continue
				}
				for {
					msg := dd.GetPortByName(n).RetrieveIncoming()
					if msg == nil {
						break
					}
					dd.Log = append(dd.Log, memdrv.Recv{Time: eng.CurrentTime(), Port: n, Msg: msg})
					progress = true
				}
			}
			for cursor < len(in.Script) {
				op := in.Script[cursor]
				if op.K == "s" {
					stallUntil = ticks + op.Delay
					cursor++
					progress = true
					continue
				}
				if op.Delay > 0 {
					if delayOf != cursor {
						delayOf, delay = cursor, op.Delay
					}
					if delay > 0 {
						delay--
						return true
					}
				}
				if op.K == "c" {
					cp := dd.GetPortByName("Ctrl")
					if !cp.CanSend() {
						return progress
					}
					req := memcontrolprotocol.Req{Command: memasm.CmdOf(op.Cmd)}
					req.ID, req.Src, req.Dst = memdrv.NewID(), cp.AsRemote(), m.GetPortByName("Control").AsRemote()
					req.TrafficClass = "memcontrolprotocol.Req"
					cp.Send(req)
					ctrlSent++
				} else {
					mp := dd.GetPortByName("Mem")
					if !mp.CanSend() {
						return progress
					}
					if op.K == "r" {
						req := memprotocol.ReadReq{Address: op.A * 64, AccessByteSize: 4}
						req.ID, req.Src, req.Dst = memdrv.NewID(), mp.AsRemote(), m.GetPortByName("Top").AsRemote()
						req.TrafficClass, req.TrafficBytes = "memprotocol.ReadReq", 12
						mp.Send(req)
					} else {
						req := memprotocol.WriteReq{Address: op.A * 64, Data: []byte{1, 2, 3, 4}}
						req.ID, req.Src, req.Dst = memdrv.NewID(), mp.AsRemote(), m.GetPortByName("Top").AsRemote()
						req.TrafficClass, req.TrafficBytes = "memprotocol.WriteReq", 16
						mp.Send(req)
					}
				}
				cursor++
				progress = true
			}
			done = true
			return progress
		}
		d.TickLater()
		if err := eng.Run(); err != nil {
			panic(err)
		}
		for _, rv := range d.Log {
			if _, ok := rv.Msg.(memcontrolprotocol.Rsp); ok {
				ctrlAcked++
			}
		}
	})
	if panicked {
		return hx.Case{}, fmt.Errorf("memory module panicked: %s", msg)
	}
	c, o, quiescent, err := finish(log, [3]int{r0, i0, o0}, done, ctrlSent, ctrlAcked)
	if err != nil {
		return hx.Case{}, err
	}
	mid, stall, seen, total := false, false, 0, 0
	for _, op := range in.Script {
		if op.K == "r" || op.K == "w" {
			total++
		}
	}
	for _, op := range in.Script {
		if op.K == "r" || op.K == "w" {
			seen++
		} else if op.K == "c" && op.Cmd == "reset" && seen > 0 && seen < total {
			mid = true
		}
		if op.K == "s" {
			stall = true
		}
	}
	c.Tags = []string{"case:lm", "mem:" + in.Kind, fmt.Sprintf("ctrl-buf:%d", max(1, in.PortBuf))}
	if mid {
		c.Tags = append(c.Tags, "reset:mid-traffic")
	}
	if stall {
		c.Tags = append(c.Tags, "rsp-stall")
	}
	if !quiescent {
		c.Tags = append(c.Tags, "script-incomplete")
	}
	c.Nontrivial = mid && o.Tasks >= 10 && quiescent
	return c, nil
}

func genLM(r *hx.Rand, tier string) input {
	in := lmInput{Kind: []string{"banked", "banked", "ideal"}[r.Intn(3)], PortBuf: 1 + r.Intn(2), Banks: 1 + r.Intn(2),
		Depth: r.Intn(3), StageLat: 1 + r.Intn(4), Latency: r.Intn(8), Width: 1 + r.Intn(2),
		AckEvery: []int{1, 1, 3, 6, 12}[r.Intn(5)]}
	traffic := func(n int) {
		for i := 0; i < n; i++ {
			op := LMOp{K: []string{"r", "w"}[r.Intn(2)], A: uint64(r.Intn(16))}
			if r.Chance(1, 6) {
				op.Delay = 1 + r.Intn(6)
			}
			in.Script = append(in.Script, op)
		}
	}
	c := func(cmd string, d int) { in.Script = append(in.Script, LMOp{K: "c", Cmd: cmd, Delay: d}) }
	phases := 2 + r.Intn(2)
	for ph := 0; ph < phases; ph++ {
		traffic(3 + r.Intn(10))
		if ph == phases-1 {
			break
		}
		// control verbs back to back (no delay): the ack of one may still be queued
		// when the next is handled
		switch r.Pick(3, 3, 2, 2, 4, 5) {
		case 5: // the requester stops taking responses; a Reset (or other verbs) falls into the stall
			n := 6 + r.Intn(20)
			in.Script = append(in.Script, LMOp{K: "s", Delay: n})
			if r.Bool() {
				traffic(1 + r.Intn(4))
			}
			switch r.Intn(4) {
			case 0:
				c("pause", r.Intn(n))
				c("reset", r.Intn(3))
				c("enable", 0)
			case 1:
				c("drain", r.Intn(n))
				c("reset", r.Intn(n))
				c("enable", 0)
			default:
				c("reset", r.Intn(n))
			}
		case 4: // several verbs, then a reset, all at once
			for k := 2 + r.Intn(3); k > 0; k-- {
				c([]string{"enable", "pause", "enable"}[r.Intn(3)], 0)
			}
			c("reset", 0)
			c("enable", 0)
		case 0:
			c("enable", 0)
			c("reset", 0)
		case 1:
			c("pause", 0)
			c("reset", 0)
			c("enable", r.Intn(3))
		case 2:
			c("reset", r.Intn(3))
		default:
			c("pause", 0)
			c("enable", 0)
			c("drain", 0)
			c("enable", r.Intn(4))
		}
	}
	c("enable", 30)
	c("reset", 0)
	c("enable", 0)
	c("reset", 0)
	return input{Kind: "lm", LM: &in}
}
