package c32

import (
	"fmt"
	"regexp"
	"sort"
	"strings"

	"verifharness/internal/hx"
)

func hxNewRand(s uint64) *hx.Rand { return hx.NewRand(s) }

var reComp = regexp.MustCompile(`Comp:(\w+)`)
var reWhy = regexp.MustCompile(`#\d+ ([^:(]+)(\(([^)]*)\))?:`)
var reWhat = regexp.MustCompile(`What:(\S+)`)
var reNames = regexp.MustCompile(`\b(L\d|M\d|ROB)\b`)

func summarize(o obs, names map[string]string, buf bool) string {
	ren := func(s string) string {
		return reNames.ReplaceAllStringFunc(s, func(x string) string { return names[x] })
	}
	b := fmt.Sprintf("buf=%v done=%v regs=%v ", buf, o.Done, o.Regs[0] > 0 || o.Regs[1] > 0 || o.Regs[2] > 0)
	if o.FirstBad == "" {
		return b + "OK"
	}
	if strings.HasPrefix(o.FirstBad, "open") {
		set := map[string]bool{}
		for _, t := range o.Open {
			f := strings.SplitN(t, " ", 2)
			k := strings.SplitN(f[1], ":", 2)[0]
			at := f[1][strings.Index(f[1], "@")+1:]
			set[k+"@"+ren(strings.SplitN(at, ".", 2)[0])] = true
		}
		var ks []string
		for k := range set {
			ks = append(ks, k)
		}
		sort.Strings(ks)
		return b + "OPEN " + strings.Join(ks, ",")
	}
	m := reWhy.FindStringSubmatch(o.FirstBad)
	c := reComp.FindStringSubmatch(o.FirstBad)
	w := reWhat.FindStringSubmatch(o.FirstBad)
	what := m[3]
	if what == "" && w != nil {
		what = w[1]
	}
	if i := strings.Index(what, "@"); i >= 0 {
		what = what[:i]
	}
	return b + strings.TrimSpace(m[1]) + " [" + ren(what) + "] at " + names[c[1]]
}
