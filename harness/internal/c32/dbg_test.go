package c32

import (
	"bufio"
	"encoding/json"
	"fmt"
	"os"
	"strconv"
	"testing"

	"github.com/sarchlab/akita/v5/tracing"
	"verifharness/internal/memasm"
)

func TestDbg(t *testing.T) {
	idx, _ := strconv.Atoi(os.Getenv("IDX"))
	f, _ := os.Open("/verif/build/run/C32/cases.jsonl")
	sc := bufio.NewScanner(f)
	sc.Buffer(make([]byte, 1<<26), 1<<26)
	var raw json.RawMessage
	for sc.Scan() {
		var rec struct {
			Index int             `json:"index"`
			Input json.RawMessage `json:"input"`
		}
		json.Unmarshal(sc.Bytes(), &rec)
		if rec.Index == idx {
			raw = append(json.RawMessage{}, rec.Input...)
		}
	}
	var in input
	json.Unmarshal(raw, &in)
	b, _ := json.Marshal(in.Asm.Cfg.Caches)
	fmt.Println("caches", string(b), "rob", in.Asm.Cfg.ROB != nil, "buf", in.Asm.Buf)
	b, _ = json.Marshal(in.Asm.Cfg.Mem)
	fmt.Println("mem", string(b))
	for i, op := range in.Asm.Cfg.Script {
		if op.Kind == "C" {
			fmt.Printf("script[%d] C %s %s dl=%d\n", i, op.Cmd, op.Target, op.Delay)
		}
	}
	var log []rev
	a := memasm.Build(in.Asm.Cfg)
	for _, c := range tracedComponents(a) {
		tracing.CollectTrace(c.(tracing.NamedHookable), &recorder{comp: c.Name(), log: &log})
		if in.Asm.Buf {
			for _, p := range ports(c) {
				tracing.CollectIncomingBufferTrace(p)
				tracing.CollectOutgoingBufferTrace(p)
			}
		}
	}
	evs := a.Run()
	for _, e := range evs {
		if e.Kind == "csend" || e.Kind == "crecv" {
			fmt.Printf("agent %s t=%d %s %s ok=%v err=%s\n", e.Kind, e.Time, e.Op, e.Target+e.Src, e.Ok, e.Err)
		}
	}
	first, open := localWF(log, true)
	fmt.Println("FIRST", first, "OPEN", open, "done", a.ScriptDone(), "pending", a.Pending())
	want := os.Getenv("TASK")
	for i, e := range log {
		if want != "" && (strconv.FormatUint(e.ID, 10) == want || strconv.FormatUint(e.Task, 10) == want || strconv.FormatUint(e.Parent, 10) == want) {
			fmt.Printf("#%d %+v\n", i, e)
		}
	}
}

func TestSurvey(t *testing.T) {
	n, _ := strconv.Atoi(os.Getenv("N"))
	seed, _ := strconv.Atoi(os.Getenv("SEED"))
	r := hxNewRand(uint64(seed))
	cats := map[string]int{}
	ex := map[string]int{}
	os.MkdirAll("/tmp/a-trace/dbg", 0o755)
	for i := 0; i < n; i++ {
		in := genAsm(r.Fork(), "quick", os.Getenv("CLASS"))
		if os.Getenv("BUF") == "1" {
			in.Asm.Buf = true
		}
		raw, _ := json.Marshal(in)
		c, err := runAsm(in.Asm)
		key := ""
		if err != nil {
			key = "ERR " + err.Error()
			if len(key) > 150 {
				key = key[:150]
			}
		} else {
			o := c.Obs.(obs)
			names := map[string]string{"ROB": "rob"}
			for j, cc := range in.Asm.Cfg.Caches {
				names[fmt.Sprintf("L%d", j)] = cc.Kind
			}
			for j := 0; j < 4; j++ {
				names[fmt.Sprintf("M%d", j)] = in.Asm.Cfg.Mem.Kind
			}
			key = summarize(o, names, in.Asm.Buf)
		}
		cats[key]++
		if _, ok := ex[key]; !ok {
			ex[key] = i
			os.WriteFile(fmt.Sprintf("/tmp/a-trace/dbg/case%d.json", i), []byte(`{"case":`+string(raw)+`}`), 0o644)
		}
	}
	for k, v := range cats {
		fmt.Printf("%4d  ex=%d  %s\n", v, ex[k], k)
	}
}

func TestFile(t *testing.T) {
	b, _ := os.ReadFile(os.Getenv("FILE"))
	var rec struct {
		Case input `json:"case"`
	}
	json.Unmarshal(b, &rec)
	in := rec.Case
	bb, _ := json.Marshal(in.Asm.Cfg.Caches)
	fmt.Println("caches", string(bb), "rob", in.Asm.Cfg.ROB, "buf", in.Asm.Buf)
	bb, _ = json.Marshal(in.Asm.Cfg.Mem)
	fmt.Println("mem", string(bb))
	for i, op := range in.Asm.Cfg.Script {
		if op.Kind == "C" {
			fmt.Printf("script[%d] C %s %s dl=%d\n", i, op.Cmd, op.Target, op.Delay)
		}
	}
	var log []rev
	a := memasm.Build(in.Asm.Cfg)
	for _, c := range tracedComponents(a) {
		tracing.CollectTrace(c.(tracing.NamedHookable), &recorder{comp: c.Name(), log: &log})
		if in.Asm.Buf {
			for _, p := range ports(c) {
				tracing.CollectIncomingBufferTrace(p)
				tracing.CollectOutgoingBufferTrace(p)
			}
		}
	}
	evs := a.Run()
	for _, e := range evs {
		if e.Kind == "csend" || e.Kind == "crecv" {
			fmt.Printf("agent %s t=%d %s %s ok=%v err=%s\n", e.Kind, e.Time, e.Op, e.Target+e.Src, e.Ok, e.Err)
		}
	}
	first, open := localWF(log, true)
	fmt.Println("FIRST", first, "OPEN", open, "done", a.ScriptDone(), "pending", a.Pending(), "cursor", a.Agent.State.Cursor, "of", len(in.Asm.Cfg.Script))
	want := os.Getenv("TASK")
	for i, e := range log {
		if want != "" && (strconv.FormatUint(e.ID, 10) == want || strconv.FormatUint(e.Task, 10) == want || strconv.FormatUint(e.Parent, 10) == want) {
			fmt.Printf("#%d %+v\n", i, e)
		}
	}
}
