package c32

import (
	"encoding/json"
	"fmt"

	"verifharness/internal/hx"
	"verifharness/internal/memasm"
)

// ------------------------------------------------------------ assembly scripts

func dataOps(r *hx.Rand, n int, line uint64, base uint64, pool int) []memasm.Op {
	var ops []memasm.Op
	for i := 0; i < n; i++ {
		la := base + uint64(r.Intn(pool))*line
		var size uint64
		switch r.Pick(3, 3, 2) {
		case 0:
			size = line
		case 1:
			size = uint64(1) << uint(r.Intn(4))
		default:
			size = 4
		}
		if size > line {
			size = line
		}
		off := r.U64n(line-size+1) / size * size
		op := memasm.Op{Addr: la + off}
		if r.Chance(1, 6) {
			op.Delay = 1 + r.Intn(12)
		}
		if r.Bool() {
			op.Kind = "R"
			op.Size = size
		} else {
			op.Kind = "W"
			op.Data = r.Bytes(int(size))
		}
		ops = append(ops, op)
	}
	return ops
}

func ctl(cmd, target string, delay int) memasm.Op {
	return memasm.Op{Kind: "C", Cmd: cmd, Target: target, Delay: delay}
}

// modules lists the control targets top-down.
func modules(cfg memasm.Config) (all []string, caches []string) {
	if cfg.ROB != nil {
		all = append(all, "ROB")
	}
	for i := range cfg.Caches {
		n := fmt.Sprintf("L%d", i)
		all = append(all, n)
		caches = append(caches, n)
	}
	n := cfg.Mem.NumModules
	if n < 1 {
		n = 1
	}
	for i := 0; i < n; i++ {
		all = append(all, fmt.Sprintf("M%d", i))
	}
	return
}

// genAsm draws an assembly. class "leaf" = requester -> ideal / banked memory
// modules only; "any" = the whole composition grammar.
func genAsm(r *hx.Rand, tier string, class string) input {
	o := memasm.GenOpts{AllowROB: class != "leaf", NOps: 1}
	pick := r.Pick(2, 3, 3)
	if class == "leaf" {
		pick = 0
	}
	switch pick {
	case 0:
		o.MaxCaches = 0
		o.MinCaches = 0
		o.TopKind = ""
		o.MemKinds = []string{"ideal", "banked", "dram"}
		if class == "leaf" {
			o.MemKinds = []string{"ideal", "banked"}
		}
		// RandomConfig treats all-zero cache options as "default 2": force no cache below
	case 1:
		o.MinCaches, o.MaxCaches = 1, 1
	default:
		o.MinCaches, o.MaxCaches = 1, 2
	}
	cfg := memasm.RandomConfig(r, o)
	if o.MaxCaches == 0 {
		cfg.Caches = nil
		if cfg.ROB != nil {
			cfg.Mem.NumModules = 1
		}
	}
	if class == "leaf" {
		cfg.ROB = nil
	}
	if cfg.Mem.Kind == "dram" && r.Chance(1, 2) {
		cfg.Mem.Kind = "ideal" // keep DRAM (slow to simulate) a minority
		cfg.Mem.Latency = 1 + r.Intn(10)
		cfg.Mem.Width = 1 + r.Intn(3)
	}
	// back-pressure variant: one-slot port buffers, a slow single-bank memory below,
	// a deep ROB window and a bursty agent, so that Send gates (CanSend == false)
	// are exercised and requests wait at the head of incoming buffers
	pressure := class != "leaf" && r.Chance(1, 3)
	if pressure {
		for i := range cfg.Caches {
			cfg.Caches[i].PortBuf = 1
		}
		cfg.Mem = memasm.MemCfg{Kind: "banked", NumModules: 1, Interleave: 4096, PortBuf: 1, NumBanks: 1, PipeWidth: 1,
			PipeDepth: 1 + r.Intn(2), StageLatency: 2 + r.Intn(4), PostBuf: 1, Log2Interleave: 6}
		if cfg.ROB != nil || r.Bool() {
			cfg.ROB = &memasm.ROBCfg{BufferSize: 8, NumReqPerCycle: 4}
		}
		cfg.Agent.IssueWidth = 2
		cfg.Agent.PortBuf = 16
	}
	line := uint64(64)
	pool := 6
	if len(cfg.Caches) > 0 {
		line = uint64(1) << cfg.Caches[0].Log2Block
		pool = cfg.Caches[0].Sets*cfg.Caches[0].Ways*2 + 2
	}
	if pressure {
		pool = 64 // many distinct lines: the agent does not serialise the burst on byte overlaps
	}
	all, caches := modules(cfg)
	phases := 2 + r.Intn(2)
	per := 6 + r.Intn(10)
	if tier == "thorough" && r.Chance(1, 3) {
		per = 20 + r.Intn(40)
	}
	var script []memasm.Op
	dropped := false // some request may have been dropped by a reset
	seg := 0
	// every stretch of traffic uses its own pool of lines: a request dropped by a
	// reset stays "pending" at the agent for ever and would block any later
	// request that touches the same bytes
	traffic := func(n int) []memasm.Op {
		seg++
		ops := dataOps(r, n, line, uint64(seg)<<22, pool)
		if pressure {
			for i := range ops {
				ops[i].Delay = 0
			}
		}
		return ops
	}
	if pressure {
		per += 24
	}
	for ph := 0; ph < phases; ph++ {
		script = append(script, traffic(per/2+1)...)
		if ph == phases-1 {
			break
		}
		// a control history in the middle of the traffic
		var hist []memasm.Op
		kind := r.Pick(4, 3, 3, 2, 2, 2)
		if dropped && kind == 2 {
			kind = 0 // Drain/Flush wait for in-flight work, which a reset below may have dropped
		}
		switch kind {
		case 0: // reset the top k modules in the middle of traffic (a reset of a lower
			// module alone strands the requests of the modules above it for ever:
			// by design, not a quiescent history)
			k := 1 + r.Intn(len(all))
			for i := 0; i < k; i++ {
				hist = append(hist, ctl("reset", all[i], r.Intn(3)))
			}
			dropped = true
		case 1: // reset everything, top-down
			for _, m := range all {
				hist = append(hist, ctl("reset", m, 0))
			}
			dropped = true
		case 2: // legal maintenance of a cache (or a universal drain/enable of any module)
			if len(caches) > 0 {
				c := caches[r.Intn(len(caches))]
				hist = append(hist, ctl([]string{"pause", "drain"}[r.Intn(2)], c, r.Intn(3)))
				for k := r.Intn(3); k > 0; k-- {
					hist = append(hist, ctl([]string{"flush", "invalidate"}[r.Intn(2)], c, r.Intn(3)))
				}
				hist = append(hist, ctl("enable", c, r.Intn(6)))
			} else {
				m := all[r.Intn(len(all))]
				hist = append(hist, ctl("drain", m, 0), ctl("enable", m, r.Intn(6)))
			}
		case 3: // pause, then reset (lands enabled), top-down
			k := 1 + r.Intn(len(all))
			for i := 0; i < k; i++ {
				hist = append(hist, ctl("pause", all[i], 0))
			}
			for i := 0; i < k; i++ {
				hist = append(hist, ctl("reset", all[i], r.Intn(3)))
			}
			dropped = true
		case 4: // illegal / unsupported verbs
			m := all[r.Intn(len(all))]
			hist = append(hist, ctl([]string{"flush", "invalidate", "bogus"}[r.Intn(3)], m, 0))
		default: // pause a module under in-flight traffic, enable it some ticks later
			m := all[r.Intn(len(all))]
			hist = append(hist, ctl("pause", m, 0), ctl("enable", m, 2+r.Intn(14)))
		}
		script = append(script, hist...)
		script = append(script, traffic(per/2+1)...)
	}
	// the end of the history: every module enabled and reset, first top-down, then
	// bottom-up. After the bottom-up round nothing below a module is reset again,
	// so a request that still trickles in from the agent's port buffers after the
	// module's last reset completes normally.
	for round := 0; round < 2; round++ {
		for i := range all {
			m := all[i]
			if round == 1 {
				m = all[len(all)-1-i]
			}
			d := 0
			if i == 0 {
				d = 40
			}
			script = append(script, ctl("enable", m, d), ctl("reset", m, 0))
		}
	}
	closing := len(script) - 4*len(all)
	cfg.Agent.MaxInflight = 0
	buf := !r.Chance(1, 8)
	// Top-port back-pressure (drawn last, so the rest of the case is what it was
	// without it): before one of the control histories in the middle of the traffic
	// the agent stops retrieving data responses for a window, so the verbs (and the
	// resets) of that history find the top module blocked on a full Top port.
	if r.Chance(2, 5) {
		var starts []int
		for i := 1; i < closing; i++ {
			if script[i].Kind == "C" && script[i-1].Kind != "C" {
				starts = append(starts, i)
			}
		}
		if len(starts) > 0 {
			at := starts[r.Intn(len(starts))]
			// the stall begins a few requests before the history, so that their
			// responses pile up
			at = max(1, at-r.Intn(6))
			stall := memasm.Op{Kind: "S", Size: uint64(12 + r.Intn(60))}
			script = append(script[:at], append([]memasm.Op{stall}, script[at:]...)...)
		}
	}
	cfg.Script = script
	return input{Kind: "asm", Asm: &asmInput{Cfg: cfg, Buf: buf}}
}

// ------------------------------------------------------------ API scripts

type apiGen struct {
	r      *hx.Rand
	ops    []ApiOp
	t      uint64
	nextM  int
	nextID int
	inq    map[[2]int][]int // (d,p) -> message indices in the incoming buffer
	outq   map[[2]int][]int
	reqIn  [][2]int // live (d, m)
	reqOut [][2]int
	tasks  [][2]int // live explicit tasks (d, id)
	mw     map[int]int
}

func (g *apiGen) tick() {
	switch g.r.Pick(2, 3, 1) {
	case 1:
		g.t += 1 + g.r.U64n(10)
	case 2:
		g.t += g.r.U64n(1 << 20)
	}
}

func (g *apiGen) add(op ApiOp) {
	g.tick()
	op.T = g.t
	g.ops = append(g.ops, op)
}

func (g *apiGen) newMsg() (int, int) {
	g.nextM++
	w := 1 + g.r.Intn(3)
	g.mw[g.nextM] = w
	return g.nextM, w
}

func del2(l [][2]int, i int) [][2]int { return append(l[:i:i], l[i+1:]...) }

func (g *apiGen) step(ndom int) {
	r := g.r
	d := r.Intn(ndom)
	p := r.Intn(2)
	switch r.Pick(4, 4, 2, 3, 3, 2, 2, 3, 2, 2, 2, 2, 1, 2, 2) {
	case 0: // a message arrives at a port
		m, w := g.newMsg()
		rsp := 0
		if r.Chance(1, 3) && m > 1 {
			rsp = 1 + r.Intn(m-1)
		}
		if len(g.inq[[2]int{d, p}]) < 60 {
			g.inq[[2]int{d, p}] = append(g.inq[[2]int{d, p}], m)
			g.add(ApiOp{K: "deliver", D: d, P: p, M: m, W: w, RspTo: rsp})
		}
	case 1: // the component retrieves the head and (usually) opens its req_in
		q := g.inq[[2]int{d, p}]
		if len(q) > 0 {
			m := q[0]
			g.inq[[2]int{d, p}] = q[1:]
			g.add(ApiOp{K: "retin", D: d, P: p})
			if r.Chance(3, 4) {
				g.add(ApiOp{K: "recv", D: d, M: m, W: g.mw[m]})
				g.reqIn = append(g.reqIn, [2]int{d, m})
			}
		}
	case 2: // a request received without a port
		m, w := g.newMsg()
		g.add(ApiOp{K: "recv", D: d, M: m, W: w})
		g.reqIn = append(g.reqIn, [2]int{d, m})
	case 3: // complete a live req_in
		if len(g.reqIn) > 0 {
			i := r.Intn(len(g.reqIn))
			k := g.reqIn[i]
			g.add(ApiOp{K: "comp", D: k[0], M: k[1], W: g.mw[k[1]]})
			g.reqIn = del2(g.reqIn, i)
		}
	case 4: // reset helper on a live req_in
		if len(g.reqIn) > 0 {
			i := r.Intn(len(g.reqIn))
			k := g.reqIn[i]
			g.add(ApiOp{K: "rreq", D: k[0], M: k[1]})
			g.reqIn = del2(g.reqIn, i)
		}
	case 5: // reset helper on a key that holds no task (no-op)
		m := 1 + r.Intn(g.nextM+1)
		live := false
		for _, k := range g.reqIn {
			if k == [2]int{d, m} {
				live = true
			}
		}
		if !live {
			g.add(ApiOp{K: "rreq", D: d, M: m})
		}
	case 6: // tag on a live req_in
		if len(g.reqIn) > 0 {
			k := g.reqIn[r.Intn(len(g.reqIn))]
			g.add(ApiOp{K: "mtag", D: k[0], M: k[1], W: g.mw[k[1]]})
		}
	case 7: // initiate a request (req_out), maybe send it through a port
		m, w := g.newMsg()
		parent := 0
		if len(g.tasks) > 0 {
			parent = g.tasks[r.Intn(len(g.tasks))][1]
		}
		g.add(ApiOp{K: "init", D: d, M: m, W: w, Parent: parent})
		g.reqOut = append(g.reqOut, [2]int{d, m})
		if r.Bool() && len(g.outq[[2]int{d, p}]) < 60 {
			g.outq[[2]int{d, p}] = append(g.outq[[2]int{d, p}], m)
			g.add(ApiOp{K: "send", D: d, P: p, M: m, W: w})
		}
	case 8: // the connection drains an outgoing buffer
		q := g.outq[[2]int{d, p}]
		if len(q) > 0 {
			g.outq[[2]int{d, p}] = q[1:]
			g.add(ApiOp{K: "retout", D: d, P: p})
		}
	case 9: // finalize or reset a live req_out
		if len(g.reqOut) > 0 {
			i := r.Intn(len(g.reqOut))
			k := g.reqOut[i]
			if r.Bool() {
				g.add(ApiOp{K: "fin", D: k[0], M: k[1], W: g.mw[k[1]]})
			} else {
				g.add(ApiOp{K: "rmsg", D: k[0], M: k[1]})
			}
			g.reqOut = del2(g.reqOut, i)
		}
	case 10: // a subtask: pipeline kind, or the domain's own kind
		g.nextID++
		kind := 3
		if r.Bool() {
			kind = 6 + d
		}
		parent := 0
		if len(g.tasks) > 0 {
			parent = g.tasks[r.Intn(len(g.tasks))][1]
		}
		g.add(ApiOp{K: "start", D: d, ID: g.nextID, Parent: parent, Kind: kind, W: 1 + r.Intn(4)})
		g.tasks = append(g.tasks, [2]int{d, g.nextID})
	case 11: // tag / milestone on a live subtask
		if len(g.tasks) > 0 {
			k := g.tasks[r.Intn(len(g.tasks))]
			g.add(ApiOp{K: []string{"tag", "mile"}[r.Intn(2)], D: k[0], ID: k[1]})
		}
	case 12: // EndTaskOnReset of a task that was never started (blanket end)
		g.nextID++
		g.add(ApiOp{K: "rtask", D: d, ID: g.nextID})
	default: // end or reset a live subtask
		if len(g.tasks) > 0 {
			i := r.Intn(len(g.tasks))
			k := g.tasks[i]
			g.add(ApiOp{K: []string{"end", "rtask"}[r.Intn(2)], D: k[0], ID: k[1]})
			g.tasks = del2(g.tasks, i)
		}
	}
}

func genAPI(r *hx.Rand, tier string) input {
	g := &apiGen{r: r, inq: map[[2]int][]int{}, outq: map[[2]int][]int{}, mw: map[int]int{}}
	ndom := 1 + r.Intn(3)
	n := 10 + r.Intn(60)
	if tier == "thorough" && r.Chance(1, 4) {
		n = 100 + r.Intn(300)
	}
	for i := 0; i < n; i++ {
		g.step(ndom)
	}
	closed := !r.Chance(1, 5)
	if closed {
		// a reset (or an orderly end) of everything still open
		for d := 0; d < ndom; d++ {
			for p := 0; p < 2; p++ {
				for range g.inq[[2]int{d, p}] {
					g.add(ApiOp{K: "retin", D: d, P: p})
				}
				for range g.outq[[2]int{d, p}] {
					g.add(ApiOp{K: "retout", D: d, P: p})
				}
			}
		}
		for _, k := range g.reqIn {
			if r.Bool() {
				g.add(ApiOp{K: "rreq", D: k[0], M: k[1]})
			} else {
				g.add(ApiOp{K: "comp", D: k[0], M: k[1], W: g.mw[k[1]]})
			}
		}
		for _, k := range g.reqOut {
			g.add(ApiOp{K: []string{"fin", "rmsg"}[r.Intn(2)], D: k[0], M: k[1], W: g.mw[k[1]]})
		}
		for _, k := range g.tasks {
			g.add(ApiOp{K: []string{"end", "rtask"}[r.Intn(2)], D: k[0], ID: k[1]})
		}
	}
	return input{Kind: "api", API: &apiInput{Ops: g.ops, Closed: closed}}
}

// ------------------------------------------------------------ gen / shrink

func gen(r *hx.Rand, tier string) []json.RawMessage {
	nasm, nleaf, napi, nvm, nlm := 20, 6, 80, 12, 25
	if tier == "thorough" {
		nasm, nleaf, napi, nvm, nlm = 250, 100, 1000, 150, 300
	}
	var out []json.RawMessage
	for i := 0; i < napi; i++ {
		out = append(out, hx.J(genAPI(r.Fork(), tier)))
	}
	for i := 0; i < nlm; i++ {
		out = append(out, hx.J(genLM(r.Fork(), tier)))
	}
	for i := 0; i < nvm; i++ {
		out = append(out, hx.J(genVM(r.Fork(), tier)))
	}
	for i := 0; i < nleaf; i++ {
		out = append(out, hx.J(drawAsm(r.Fork(), tier, "leaf")))
	}
	for i := 0; i < nasm; i++ {
		out = append(out, hx.J(drawAsm(r.Fork(), tier, "any")))
	}
	return out
}

// quickMaxEvents bounds the trace length of the generated assemblies of the quick
// tier: the acceptor's cost grows quadratically with the trace, and one 8000-event
// history costs more than the rest of the tier together. The thorough tier keeps
// whatever is drawn.
const quickMaxEvents = 3000

// drawAsm draws an assembly case; in the quick tier a case whose recorded trace is
// longer than quickMaxEvents is drawn again (at most three more times; the shortest
// is kept).
func drawAsm(r *hx.Rand, tier, class string) input {
	best, bestN := input{}, -1
	for try := 0; try < 4; try++ {
		rr := r // the first draw reads r itself, the later ones forks of what is left
		if try > 0 {
			rr = r.Fork()
		}
		in := genAsm(rr, tier, class)
		if tier != "quick" {
			return in
		}
		n := quickMaxEvents + 1
		if c, err := runAsm(in.Asm); err == nil {
			if o, ok := c.Obs.(obs); ok {
				n = o.Events
			}
		}
		if n <= quickMaxEvents {
			return in
		}
		if bestN < 0 || n < bestN {
			best, bestN = in, n
		}
	}
	return best
}

// chunks proposes the index ranges [lo,hi) of up to eight contiguous chunks of the
// first n script steps (the closing rounds after n are always kept).
func chunks(n int) [][2]int {
	var out [][2]int
	if n <= 0 {
		return out
	}
	k := min(8, n)
	for c := 0; c < k; c++ {
		lo, hi := c*n/k, (c+1)*n/k
		if hi > lo {
			out = append(out, [2]int{lo, hi})
		}
	}
	return out
}

func shrink(raw json.RawMessage) []json.RawMessage {
	var in input
	if hx.UJ(raw, &in) != nil {
		return nil
	}
	var out []json.RawMessage
	switch in.Kind {
	case "asm":
		s := in.Asm.Cfg.Script
		all, _ := modules(in.Asm.Cfg)
		for _, ch := range chunks(len(s) - 4*len(all)) {
			c := *in.Asm
			c.Cfg.Script = append(append([]memasm.Op{}, s[:ch[0]]...), s[ch[1]:]...)
			out = append(out, hx.J(input{Kind: "asm", Asm: &c}))
		}
	case "vm":
		sc := in.VM.Script
		for _, ch := range chunks(len(sc) - 4*len(vmModules(in.VM))) {
			c := *in.VM
			c.Script = append(append([]VMOp{}, sc[:ch[0]]...), sc[ch[1]:]...)
			out = append(out, hx.J(input{Kind: "vm", VM: &c}))
		}
	case "lm":
		sc := in.LM.Script
		for _, ch := range chunks(len(sc) - 4) {
			c := *in.LM
			c.Script = append(append([]LMOp{}, sc[:ch[0]]...), sc[ch[1]:]...)
			out = append(out, hx.J(input{Kind: "lm", LM: &c}))
		}
	case "api":
		// prefixes stay disciplined (dropping an inner call would not)
		ops := in.API.Ops
		for _, ch := range chunks(len(ops)) {
			if ch[0] == 0 {
				continue
			}
			c := apiInput{Ops: append([]ApiOp{}, ops[:ch[0]]...), Closed: false}
			out = append(out, hx.J(input{Kind: "api", API: &c}))
		}
	}
	return out
}
