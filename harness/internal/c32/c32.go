// Package c32 checks that traces of REAL library components are well-formed task
// trees, and ties the Coq model of the tracing API's helper layer to the code.
//
// Assembly cases ("asm"): a memasm assembly (requester agent -> [ROB] -> caches ->
// ideal / banked / DRAM memory, every component real) gets a recording tracer on
// every component and incoming/outgoing buffer tracing on every port; the agent
// script mixes traffic with control verbs (Pause/Drain/Enable/Invalidate/Flush
// and Reset in the middle of traffic) and ends with a reset of every module; the
// engine runs to quiescence and the recorded event list is evaluated by the Coq
// acceptor trace_wf.
//
// API cases ("api"): a script of helper calls (TraceReqInitiate/Receive/Complete/
// Finalize, EndReqInOnReset, EndTaskOnReset, StartTask/EndTask/AddTaskTag/
// AddMilestone, and real port Deliver/Retrieve/Send with buffer tracing) runs
// against the real tracing package; the emitted events and the registry sizes
// are compared exactly with the Coq model api_run.
package c32

import (
	"encoding/json"
	"fmt"
	"sort"
	"strconv"
	"strings"

	"github.com/sarchlab/akita/v5/hooking"
	"github.com/sarchlab/akita/v5/messaging"
	"github.com/sarchlab/akita/v5/timing"
	"github.com/sarchlab/akita/v5/tracing"

	"verifharness/internal/hx"
	"verifharness/internal/memasm"
)

// ------------------------------------------------------------ recorder

type rev struct {
	K      string `json:"k"` // s e g m
	ID     uint64 `json:"id"`
	Parent uint64 `json:"parent,omitempty"`
	Kind   string `json:"kind,omitempty"`
	What   string `json:"what,omitempty"`
	Loc    string `json:"loc,omitempty"`
	Task   uint64 `json:"task,omitempty"`
	T      uint64 `json:"t"`
	Comp   string `json:"comp,omitempty"`
}

type recorder struct {
	tracing.NopTracer
	comp string
	log  *[]rev
}

func (r *recorder) StartTask(s tracing.TaskStart) {
	*r.log = append(*r.log, rev{K: "s", ID: s.ID, Parent: s.ParentID, Kind: s.Kind, What: s.What,
		Loc: s.Location, T: uint64(s.Time), Comp: r.comp})
}
func (r *recorder) EndTask(e tracing.TaskEnd) {
	*r.log = append(*r.log, rev{K: "e", ID: e.ID, T: uint64(e.Time), Comp: r.comp})
}
func (r *recorder) AddTaskTag(g tracing.TaskTag) {
	*r.log = append(*r.log, rev{K: "g", ID: g.ID, Task: g.TaskID, What: g.What, T: uint64(g.Time), Comp: r.comp})
}
func (r *recorder) AddMilestone(m tracing.Milestone) {
	*r.log = append(*r.log, rev{K: "m", ID: m.ID, Task: m.TaskID, Kind: string(m.Kind), What: m.What,
		T: uint64(m.Time), Comp: r.comp})
}

// ------------------------------------------------------------ inputs

// CtrlOp is a control verb inserted into the agent script before data op At.
type CtrlOp struct {
	At     int    `json:"at"`
	Cmd    string `json:"cmd"`
	Target string `json:"target"`
	Delay  int    `json:"delay,omitempty"`
}

type asmInput struct {
	Cfg memasm.Config `json:"cfg"` // Cfg.Script is the final script (data + control ops)
	Buf bool          `json:"buf"` // attach incoming/outgoing buffer tracing to every port
}

// ApiOp is one helper call. D = domain, P = port of the domain, M = message index,
// ID = explicit task id index, W = what/message-type number.
type ApiOp struct {
	K      string `json:"k"`
	D      int    `json:"d"`
	P      int    `json:"p,omitempty"`
	M      int    `json:"m,omitempty"`
	RspTo  int    `json:"rsp,omitempty"` // message index + 1 this message responds to (0: a request)
	ID     int    `json:"id,omitempty"`
	Parent int    `json:"parent,omitempty"`
	Kind   int    `json:"kind,omitempty"`
	W      int    `json:"w,omitempty"`
	T      uint64 `json:"t"`
}

type apiInput struct {
	Ops    []ApiOp `json:"ops"`
	Closed bool    `json:"closed"` // the script ends every task it starts
}

type input struct {
	Kind string    `json:"kind"` // "asm" | "api" | "vm"
	Asm  *asmInput `json:"asm,omitempty"`
	API  *apiInput `json:"api,omitempty"`
	VM   *vmInput  `json:"vm,omitempty"`
	LM   *lmInput  `json:"lm,omitempty"`
}

type obs struct {
	Events    int            `json:"events"`
	Tasks     int            `json:"tasks"`
	Kinds     map[string]int `json:"kinds,omitempty"`
	Open      []string       `json:"open,omitempty"`
	Regs      [3]int         `json:"regs"`
	Pending   int            `json:"pending,omitempty"`
	Done      bool           `json:"script_done,omitempty"`
	Panic     string         `json:"panic,omitempty"`
	FirstBad  string         `json:"first_bad,omitempty"`
	TraceTail []rev          `json:"trace_tail,omitempty"`
}

// ------------------------------------------------------------ assembly case

func ports(c messaging.Component) []messaging.Port {
	var out []messaging.Port
	for _, n := range []string{"Top", "Bottom", "Control"} {
		func() {
			defer func() { _ = recover() }()
			if p := c.GetPortByName(n); p != nil {
				out = append(out, p)
			}
		}()
	}
	return out
}

func tracedComponents(a *memasm.Assembly) []messaging.Component {
	var cs []messaging.Component
	if a.ROB != nil {
		cs = append(cs, a.ROB)
	}
	for i := range a.WB {
		if a.WB[i] != nil {
			cs = append(cs, a.WB[i])
		}
		if a.WT[i] != nil {
			cs = append(cs, a.WT[i])
		}
	}
	for _, c := range a.Ideal {
		cs = append(cs, c)
	}
	for _, c := range a.Banked {
		cs = append(cs, c)
	}
	for _, c := range a.DRAM {
		cs = append(cs, c)
	}
	return cs
}

// localWF is a Go mirror of the Coq acceptor, used only to describe the first
// offending event in the evidence (the verdict is Coq's).
func localWF(log []rev, quiescent bool) (string, []string) {
	type ti struct {
		start   uint64
		ended   bool
		kind    string
		lastTag uint64
	}
	tasks := map[uint64]*ti{}
	locs := map[string]string{}
	early := map[uint64]bool{}
	for i, e := range log {
		bad := func(why string) (string, []string) {
			return fmt.Sprintf("#%d %s: %+v", i, why, e), nil
		}
		switch e.K {
		case "s":
			if tasks[e.ID] != nil {
				return bad("started twice")
			}
			if early[e.ID] {
				return bad("end came before start")
			}
			if k, ok := locs[e.Loc]; ok && k != e.Kind {
				return bad("location " + e.Loc + " already hosts kind " + k)
			}
			locs[e.Loc] = e.Kind
			tasks[e.ID] = &ti{start: e.T, kind: e.Kind + ":" + e.What + "@" + e.Loc}
		case "e":
			t := tasks[e.ID]
			if t == nil {
				early[e.ID] = true
				continue
			}
			if t.ended {
				return bad("ended twice (" + t.kind + ")")
			}
			if e.T < t.start {
				return bad("ends before its start")
			}
			if e.T < t.lastTag {
				return bad("ends before one of its tags/milestones")
			}
			t.ended = true
		case "g", "m":
			t := tasks[e.Task]
			if t == nil {
				return bad("refers to a task that was never started")
			}
			if t.ended {
				return bad("after its task ended (" + t.kind + ")")
			}
			if e.T < t.start {
				return bad("before its task started")
			}
			t.lastTag = max(t.lastTag, e.T)
		}
	}
	var open []string
	for id, t := range tasks {
		if !t.ended {
			open = append(open, fmt.Sprintf("%d %s", id, t.kind))
		}
	}
	sort.Strings(open)
	if quiescent && len(open) > 0 {
		return "open tasks at quiescence", open
	}
	return "", open
}

func runAsm(in *asmInput) (hx.Case, error) {
	var log []rev
	r0, i0, o0 := tracing.VerifRegistrySizes()
	var a *memasm.Assembly
	var o obs
	panicked, msg := hx.Try(func() {
		a = memasm.Build(in.Cfg)
		for _, c := range tracedComponents(a) {
			tracing.CollectTrace(c.(tracing.NamedHookable), &recorder{comp: c.Name(), log: &log})
			if in.Buf {
				for _, p := range ports(c) {
					tracing.CollectIncomingBufferTrace(p)
					tracing.CollectOutgoingBufferTrace(p)
				}
			}
		}
		a.Run()
	})
	if panicked {
		// a component panicked: report as a separate outcome (not a trace verdict)
		o.Panic = msg
		return hx.Case{}, fmt.Errorf("assembly panicked: %s", msg)
	}
	r1, i1, o1 := tracing.VerifRegistrySizes()
	o.Regs = [3]int{r1 - r0, i1 - i0, o1 - o0}
	o.Events = len(log)
	o.Pending = a.Pending()
	o.Done = a.ScriptDone()
	o.Kinds = map[string]int{}
	for _, e := range log {
		if e.K == "s" {
			o.Tasks++
			o.Kinds[e.Kind]++
		}
	}
	first, open := localWF(log, true)
	o.FirstBad = first
	if len(open) > 12 {
		open = open[:12]
	}
	o.Open = open
	if first != "" {
		n := len(log)
		if n > 30 {
			o.TraceTail = log[n-30:]
		} else {
			o.TraceTail = log
		}
	}

	term := traceTerm(log) // kinds, locations numbered; task IDs renumbered densely
	for _, d := range o.Regs {
		if d < 0 {
			return hx.Case{}, fmt.Errorf("registry shrank during the case: %v", o.Regs)
		}
	}
	c := hx.Case{Obs: o}
	// registry entries that survive quiescence are leaked keys
	// The closing Enable+Reset rounds make the history quiescent. If the agent
	// could not issue its whole script (a module below stopped accepting traffic)
	// they never ran: only the open-trace clauses apply then.
	nsend, nrecv := 0, 0
	for _, e := range a.Agent.Log {
		switch e.Kind {
		case "csend":
			nsend++
		case "crecv":
			nrecv++
		}
	}
	// ... and every control verb must have been carried out and acknowledged
	quiescent := o.Done && nsend == nrecv
	if !quiescent {
		first, _ = localWF(log, false)
		o.FirstBad = first
		c.Obs = o
	}
	goVerdict := first == "" && (!quiescent || o.Regs == [3]int{})
	c.Coq = hx.App("AsmCase", hx.B(quiescent), term,
		hx.T(hx.N(uint64(o.Regs[0])), hx.N(uint64(o.Regs[1])), hx.N(uint64(o.Regs[2]))), hx.B(goVerdict))
	c.Tags, c.Nontrivial = asmShape(in, o)
	c.Known = knownClass(in)
	return c, nil
}

// knownClass names, from the composition alone, the known finding (see
// known_findings/C32.json) that a violation in this assembly is attributed to:
// DRAM modules leave req_in tasks open after a Reset, a writeback cache can still
// charge a milestone to a request whose req_in a Reset already tore down, and a
// component traced without buffer tracing on its ports adds admission milestones
// to a buffer task nobody starts. Every other assembly (ideal / banked memory,
// the three write-through cache kinds, the ROB, with buffer tracing) is in no
// class: any violation is reported.
func knownClass(in *asmInput) string {
	if in.Cfg.Mem.Kind == "dram" {
		return "dram_reset_open_req_in"
	}
	for _, c := range in.Cfg.Caches {
		if c.Kind == "writeback" {
			return "writeback_reset_late_milestone"
		}
	}
	if !in.Buf && (in.Cfg.Mem.Kind == "banked" || len(in.Cfg.Caches) > 0 || in.Cfg.ROB != nil) {
		return "no_buffer_tracing_dangling_milestone"
	}
	return ""
}

func asmShape(in *asmInput, o obs) ([]string, bool) {
	tags := []string{"case:asm"}
	resets, ctrl, stall := 0, 0, false
	for _, op := range in.Cfg.Script {
		if op.Kind == "S" {
			stall = true
		}
		if op.Kind == "C" {
			ctrl++
			if op.Cmd == "reset" {
				resets++
			}
		}
	}
	tags = append(tags, fmt.Sprintf("caches:%d", len(in.Cfg.Caches)), "mem:"+in.Cfg.Mem.Kind)
	for _, c := range in.Cfg.Caches {
		tags = append(tags, "cache:"+c.Kind)
	}
	if in.Cfg.ROB != nil {
		tags = append(tags, "rob")
	}
	if in.Buf {
		tags = append(tags, "buffer-tracing")
	}
	if o.Pending > 0 {
		tags = append(tags, "requests-dropped-by-reset")
	}
	if !o.Done {
		tags = append(tags, "script-incomplete")
	}
	if stall {
		tags = append(tags, "rsp-stall")
	}
	midReset := false
	seenData := 0
	total := 0
	for _, op := range in.Cfg.Script {
		if op.Kind == "R" || op.Kind == "W" {
			total++
		}
	}
	for _, op := range in.Cfg.Script {
		if op.Kind == "R" || op.Kind == "W" {
			seenData++
		} else if op.Kind == "C" && op.Cmd == "reset" && seenData > 0 && seenData < total {
			midReset = true
		}
	}
	if midReset {
		tags = append(tags, "reset:mid-traffic")
	}
	if ctrl > resets {
		tags = append(tags, "control:other-verbs")
	}
	return tags, midReset && o.Tasks >= 20 && o.Done
}

// ------------------------------------------------------------ API case

type fakeComp struct {
	*hooking.HookableBase
	*messaging.PortOwnerBase
	name string
	now  *timing.VTimeInPicoSec
}

func (c *fakeComp) Name() string                       { return c.name }
func (c *fakeComp) CurrentTime() timing.VTimeInPicoSec { return *c.now }
func (c *fakeComp) NotifyRecv(messaging.Port)          {}
func (c *fakeComp) NotifyPortFree(messaging.Port)      {}

type noopConn struct{ *hooking.HookableBase }

func (c *noopConn) Name() string                   { return "NoopConn" }
func (c *noopConn) PlugIn(p messaging.Port)        { p.SetConnection(c) }
func (c *noopConn) Unplug(messaging.Port)          {}
func (c *noopConn) NotifyAvailable(messaging.Port) {}
func (c *noopConn) NotifySend()                    {}

// three message types so that msgTypeName varies
type MsgA struct{ messaging.MsgMeta }
type MsgB struct{ messaging.MsgMeta }
type MsgC struct{ messaging.MsgMeta }

func mkMsg(w int, meta messaging.MsgMeta) messaging.Msg {
	switch w % 3 {
	case 1:
		return MsgA{meta}
	case 2:
		return MsgB{meta}
	}
	return MsgC{meta}
}

func whatCode(s string) (uint64, error) {
	switch s {
	case "MsgA":
		return 1, nil
	case "MsgB":
		return 2, nil
	case "MsgC":
		return 3, nil
	}
	if strings.HasPrefix(s, "W") {
		n, err := strconv.ParseUint(s[1:], 10, 64)
		return 10 + n, err
	}
	return 0, fmt.Errorf("unknown what %q", s)
}

func msgWhat(w int) uint64 {
	switch w % 3 {
	case 1:
		return 1
	case 2:
		return 2
	}
	return 3
}

func kindStr(k int) string {
	switch k {
	case 1:
		return "req_in"
	case 2:
		return "req_out"
	case 3:
		return "pipeline"
	case 4:
		return "incoming_buffer"
	case 5:
		return "outgoing_buffer"
	}
	return "k" + strconv.Itoa(k)
}

func kindCode(s string) (uint64, error) {
	for k := 1; k <= 5; k++ {
		if kindStr(k) == s {
			return uint64(k), nil
		}
	}
	if strings.HasPrefix(s, "k") {
		return strconv.ParseUint(s[1:], 10, 64)
	}
	return 0, fmt.Errorf("unknown kind %q", s)
}

const portsPerDomain = 8

// parseLoc turns a location string into the structured location of the model.
func parseLoc(s string) (string, error) {
	num := func(x, prefix string) (uint64, bool) {
		if !strings.HasPrefix(x, prefix) {
			return 0, false
		}
		n, err := strconv.ParseUint(x[len(prefix):], 10, 64)
		return n, err == nil
	}
	parts := strings.Split(s, ".")
	if len(parts) == 1 {
		if d, ok := num(parts[0], "Dom"); ok {
			return hx.App("LComp", hx.N(d)), nil
		}
		if w, ok := num(parts[0], "W"); ok {
			return hx.App("LWhat", hx.N(10+w)), nil
		}
	}
	if len(parts) == 2 {
		if d, ok := num(parts[0], "Dom"); ok {
			switch parts[1] {
			case "req_in":
				return hx.App("LReqIn", hx.N(d)), nil
			case "req_out":
				return hx.App("LReqOut", hx.N(d)), nil
			}
		}
	}
	if len(parts) == 3 {
		d, ok1 := num(parts[0], "Dom")
		p, ok2 := num(parts[1], "P")
		if ok1 && ok2 {
			switch parts[2] {
			case "incoming":
				return hx.App("LPortIn", hx.N(d*portsPerDomain+p)), nil
			case "outgoing":
				return hx.App("LPortOut", hx.N(d*portsPerDomain+p)), nil
			}
		}
	}
	return "", fmt.Errorf("unexpected location %q", s)
}

func runAPI(in *apiInput) (hx.Case, error) {
	var log []rev
	now := timing.VTimeInPicoSec(0)
	conn := &noopConn{hooking.NewHookableBase()}
	doms := map[int]*fakeComp{}
	prts := map[[2]int]messaging.Port{}
	dom := func(d int) *fakeComp {
		if c, ok := doms[d]; ok {
			return c
		}
		c := &fakeComp{HookableBase: hooking.NewHookableBase(), PortOwnerBase: messaging.NewPortOwnerBase(),
			name: "Dom" + strconv.Itoa(d), now: &now}
		tracing.CollectTrace(c, &recorder{comp: c.name, log: &log})
		doms[d] = c
		return c
	}
	port := func(d, p int) messaging.Port {
		if q, ok := prts[[2]int{d, p}]; ok {
			return q
		}
		c := dom(d)
		q := messaging.NewPort(c, 64, 64, fmt.Sprintf("%s.P%d", c.name, p))
		conn.PlugIn(q)
		tracing.CollectIncomingBufferTrace(q)
		tracing.CollectOutgoingBufferTrace(q)
		prts[[2]int{d, p}] = q
		return q
	}
	// message and explicit task IDs come from the same generator as the IDs the
	// API generates, as in a real simulation
	maxM, maxID := 0, 0
	for _, op := range in.Ops {
		maxM = max(maxM, op.M, op.RspTo)
		maxID = max(maxID, op.ID, op.Parent)
		dom(op.D)
	}
	gen := timing.GetIDGenerator()
	mid := make([]uint64, maxM+2)
	for i := range mid {
		mid[i] = gen.Generate()
	}
	tid := make([]uint64, maxID+2)
	for i := range tid {
		tid[i] = gen.Generate()
	}
	// The IDs the tracing package generates itself (registry task IDs, tag and
	// milestone IDs) come from one tracing-local counter; learn its next value by
	// drawing one ID through the exported API on a throw-away traced domain.
	probe := &fakeComp{HookableBase: hooking.NewHookableBase(), PortOwnerBase: messaging.NewPortOwnerBase(),
		name: "Probe", now: &now}
	tracing.CollectTrace(probe, &recorder{comp: "Probe", log: new([]rev)})
	probeMsg := gen.Generate()
	base := tracing.MsgIDAtReceiver(MsgA{messaging.MsgMeta{ID: probeMsg}}, probe) + 1
	tracing.ForgetMsgIDAtReceiver(probeMsg, probe)
	r0, i0, o0 := tracing.VerifRegistrySizes()

	meta := func(op ApiOp, src, dst string) messaging.MsgMeta {
		m := messaging.MsgMeta{ID: mid[op.M], Src: messaging.RemotePort(src), Dst: messaging.RemotePort(dst)}
		if op.RspTo > 0 {
			m.RspTo = mid[op.RspTo-1]
		}
		return m
	}
	calls := make([]string, 0, len(in.Ops))
	optN := func(m messaging.Msg) string {
		if m == nil {
			return hx.None()
		}
		return hx.Some(hx.N(m.Meta().ID))
	}
	var perr error
	panicked, pmsg := hx.Try(func() {
		for _, op := range in.Ops {
			now = timing.VTimeInPicoSec(op.T)
			c := dom(op.D)
			d, t := hx.N(uint64(op.D)), hx.N(op.T)
			gp := hx.N(uint64(op.D*portsPerDomain + op.P))
			parentOf := func(m messaging.MsgMeta) uint64 {
				if m.RspTo != 0 {
					return m.RspTo
				}
				return m.ID
			}
			switch op.K {
			case "init":
				tracing.TraceReqInitiate(c, mkMsg(op.W, meta(op, "x", "y")), tid[op.Parent])
				calls = append(calls, hx.App("CInitiate", d, hx.N(mid[op.M]), hx.N(tid[op.Parent]), hx.N(msgWhat(op.W)), t))
			case "recv":
				tracing.TraceReqReceive(c, mkMsg(op.W, meta(op, "x", "y")))
				calls = append(calls, hx.App("CReceive", d, hx.N(mid[op.M]), hx.N(msgWhat(op.W)), t))
			case "comp":
				tracing.TraceReqComplete(c, mkMsg(op.W, meta(op, "x", "y")))
				calls = append(calls, hx.App("CComplete", d, hx.N(mid[op.M]), t))
			case "fin":
				tracing.TraceReqFinalize(c, mkMsg(op.W, meta(op, "x", "y")))
				calls = append(calls, hx.App("CFinalize", d, hx.N(mid[op.M]), t))
			case "rreq":
				tracing.EndReqInOnReset(c, mid[op.M])
				calls = append(calls, hx.App("CResetReqIn", d, hx.N(mid[op.M]), t))
			case "rtask":
				tracing.EndTaskOnReset(c, tid[op.ID])
				calls = append(calls, hx.App("CResetTask", d, hx.N(tid[op.ID]), t))
			case "rmsg": // EndTaskOnReset of a req_out (task id = message id)
				tracing.EndTaskOnReset(c, mid[op.M])
				calls = append(calls, hx.App("CResetTask", d, hx.N(mid[op.M]), t))
			case "start":
				tracing.StartTask(c, tracing.TaskStart{ID: tid[op.ID], ParentID: tid[op.Parent], Kind: kindStr(op.Kind),
					What: "W" + strconv.Itoa(op.W)})
				calls = append(calls, hx.App("CStart", d, hx.N(tid[op.ID]), hx.N(tid[op.Parent]), hx.N(uint64(op.Kind)),
					hx.N(uint64(10+op.W)), t))
			case "end":
				tracing.EndTask(c, tracing.TaskEnd{ID: tid[op.ID]})
				calls = append(calls, hx.App("CEnd", d, hx.N(tid[op.ID]), t))
			case "tag":
				tracing.AddTaskTag(c, tracing.TaskTag{TaskID: tid[op.ID], What: "t"})
				calls = append(calls, hx.App("CTag", d, hx.N(tid[op.ID]), t))
			case "mile":
				tracing.AddMilestone(c, tracing.Milestone{TaskID: tid[op.ID], Kind: tracing.MilestoneKindQueue, What: "m"})
				calls = append(calls, hx.App("CMile", d, hx.N(tid[op.ID]), t))
			case "mtag": // tag on the req_in task of message M at this domain
				id := tracing.MsgIDAtReceiver(mkMsg(op.W, meta(op, "x", "y")), c)
				tracing.AddTaskTag(c, tracing.TaskTag{TaskID: id, What: "t"})
				calls = append(calls, hx.App("CTag", d, hx.N(id), t))
			case "deliver":
				p := port(op.D, op.P)
				m := meta(op, "Remote", p.Name())
				p.Deliver(mkMsg(op.W, m))
				calls = append(calls, hx.App("CDeliver", d, gp, hx.N(m.ID), hx.N(parentOf(m)), hx.N(msgWhat(op.W)), t))
			case "retin":
				p := port(op.D, op.P)
				got := p.RetrieveIncoming()
				if got == nil {
					continue // nothing to retrieve: no hook fires
				}
				calls = append(calls, hx.App("CRetrieveIn", d, gp, hx.N(got.Meta().ID), t, optN(p.PeekIncoming())))
			case "send":
				p := port(op.D, op.P)
				m := meta(op, p.Name(), "Remote")
				p.Send(mkMsg(op.W, m))
				calls = append(calls, hx.App("CSend", d, gp, hx.N(m.ID), hx.N(parentOf(m)), hx.N(msgWhat(op.W)), t))
			case "retout":
				p := port(op.D, op.P)
				got := p.RetrieveOutgoing()
				if got == nil {
					continue
				}
				calls = append(calls, hx.App("CRetrieveOut", d, gp, hx.N(got.Meta().ID), t, optN(p.PeekOutgoing())))
			default:
				perr = fmt.Errorf("bad api op %q", op.K)
				return
			}
		}
	})
	if panicked {
		return hx.Case{}, fmt.Errorf("api script panicked: %s", pmsg)
	}
	if perr != nil {
		return hx.Case{}, perr
	}
	r1, i1, o1 := tracing.VerifRegistrySizes()
	o := obs{Events: len(log), Regs: [3]int{r1 - r0, i1 - i0, o1 - o0}}
	first, open := localWF(log, in.Closed)
	o.FirstBad, o.Open = first, open
	// leave the global registries as we found them
	for d, c := range doms {
		_ = d
		for _, id := range mid {
			tracing.ForgetMsgIDAtReceiver(id, c)
			tracing.ForgetMsgIDAtIncomingBuffer(id, c)
			tracing.ForgetMsgIDAtOutgoingBuffer(id, c)
		}
	}

	xs := make([]string, 0, len(log))
	for _, e := range log {
		switch e.K {
		case "s":
			k, err := kindCode(e.Kind)
			if err != nil {
				return hx.Case{}, err
			}
			w, err := whatCode(e.What)
			if err != nil {
				return hx.Case{}, err
			}
			l, err := parseLoc(e.Loc)
			if err != nil {
				return hx.Case{}, err
			}
			xs = append(xs, hx.App("XStart", hx.N(e.ID), hx.N(e.Parent), hx.N(k), l, hx.N(w), hx.N(e.T)))
			o.Tasks++
		case "e":
			xs = append(xs, hx.App("XEnd", hx.N(e.ID), hx.N(e.T)))
		case "g":
			xs = append(xs, hx.App("XTag", hx.N(e.ID), hx.N(e.Task), hx.N(e.T)))
		case "m":
			xs = append(xs, hx.App("XMile", hx.N(e.ID), hx.N(e.Task), hx.N(e.T)))
		}
	}
	c := hx.Case{Obs: o}
	c.Coq = hx.App("ApiCase", hx.N(base), hx.L(calls), hx.L(xs),
		hx.T(hx.N(uint64(o.Regs[0])), hx.N(uint64(o.Regs[1])), hx.N(uint64(o.Regs[2]))), hx.B(in.Closed))
	c.Tags = []string{"case:api"}
	resets := 0
	for _, op := range in.Ops {
		if op.K == "rreq" || op.K == "rtask" || op.K == "rmsg" {
			resets++
		}
	}
	if resets > 0 {
		c.Tags = append(c.Tags, "api:with-resets")
	}
	if in.Closed {
		c.Tags = append(c.Tags, "api:closed")
	} else {
		c.Tags = append(c.Tags, "api:open")
	}
	c.Nontrivial = in.Closed && resets > 0 && o.Tasks >= 5
	return c, nil
}

func run(raw json.RawMessage) (hx.Case, error) {
	var in input
	if err := hx.UJ(raw, &in); err != nil {
		return hx.Case{}, err
	}
	switch in.Kind {
	case "asm":
		return runAsm(in.Asm)
	case "api":
		return runAPI(in.API)
	case "vm":
		return runVM(in.VM)
	case "lm":
		return runLM(in.LM)
	}
	return hx.Case{}, fmt.Errorf("bad case kind %q", in.Kind)
}

func init() {
	hx.Register(&hx.Prop{
		ID:      "C32",
		Imports: "From Akita Require Import Lib.Base C32.Model C32.Exec.",
		Rule: "asm: random memasm assemblies of real components (agent -> [ROB] -> 0..2 caches of the four kinds -> ideal/banked/DRAM, " +
			"random geometries; a share of leaf-only assemblies) with a recording tracer on every component and (7/8 of cases) buffer " +
			"tracing on every port; the script is 2-3 stretches of traffic over disjoint line pools separated by control histories (legal " +
			"Pause/Drain -> Invalidate/Flush -> Enable sequences, illegal/unsupported verbs, Pause->Reset, and Reset of the top k modules " +
			"in the middle of traffic) and ends with Enable+Reset of every module top-down, then bottom-up; run to quiescence. " +
			"vm: a translation stack driver -> [address translator] -> 0..2 TLBs -> [MMU cache] -> MMU or GMMU (page table; a third of " +
			"the pages owned by a remote device the driver answers for) of real components, traced the same way, driven with " +
			"page-aligned translation requests (reads/writes when the address translator is on top; the driver is then the memory below " +
			"it) and control verbs on any module (Pause/Invalidate/Enable followed by Reset of the modules above, Drain/Enable, Reset of " +
			"the top k modules mid-traffic) and the same closing rounds. A history counts as quiescent only if the whole script was issued and every control verb " +
			"was acknowledged. " +
			"lm: one banked / ideal memory module driven directly with one- or two-slot buffers on every port (Control included) and " +
			"control verbs issued back to back. " +
			"api: random interleavings of request / buffer / subtask lifecycles over 1-3 domains and real ports, each closed by the normal " +
			"helper or by the reset helper, plus scripts left open. Non-trivial: asm with a Reset in the middle of traffic, >= 20 tasks and " +
			"the script completed; api closed with resets and >= 5 tasks. Distinct = distinct input hash. In every sampled kind (asm about 2/5 " +
			"of the cases, vm 1/3 of the mid-traffic histories, lm as one of the history shapes) the requester may stop retrieving data " +
			"responses for a window (Top-port back-pressure on the top module) into which the verbs and resets of a control history fall. " +
			"Quick tier: an assembly whose " +
			"trace exceeds 3000 events is drawn again (up to 3 times). Sampled traces reach Coq with task IDs renumbered 1,2,3.. in order " +
			"of first appearance (the acceptor compares IDs only for equality).",
		Gen: gen, Run: run, Shrink: shrink,
	})
}
