// Package c33 checks that observers (hooks, tracers, buffer tracing) do not
// change a simulation's outcome apart from generated IDs.
package c33

import (
	"encoding/json"
	"fmt"

	"github.com/sarchlab/akita/v5/hooking"
	"github.com/sarchlab/akita/v5/timing"
	"github.com/sarchlab/akita/v5/tracing"

	"verifharness/internal/asm"
	"verifharness/internal/c06"
	"verifharness/internal/c29"
	"verifharness/internal/hx"
)

type scriptIn struct {
	Kind   string          `json:"kind"` // "script"
	Script c06.ScriptInput `json:"script"`
	KB     uint64          `json:"kb"`
	KA     uint64          `json:"ka"`
}

type libIn struct {
	Kind string      `json:"kind"` // "lib"
	Cfg  *asm.Config `json:"cfg"`
}

// idEater consumes IDs from the shared generator around every event, like a
// tracer that opens tasks at the engine hook positions.
type idEater struct{ kb, ka uint64 }

func (h *idEater) Func(ctx hooking.HookCtx) {
	n := uint64(0)
	if ctx.Pos == timing.HookPosBeforeEvent {
		n = h.kb
	} else if ctx.Pos == timing.HookPosAfterEvent {
		n = h.ka
	}
	for i := uint64(0); i < n; i++ {
		timing.GetIDGenerator().Generate()
	}
}

func runScriptOnce(in *c06.ScriptInput, kb, ka uint64, hook bool) ([]c06.Rec, c06.Final) {
	s := c06.BuildScriptSim(in)
	defer s.Close()
	if hook {
		s.Engine().AcceptHook(&idEater{kb, ka})
	}
	s.ScheduleInits(in)
	s.Engine().Run()
	return s.Trace(), s.FinalState()
}

// countHook only counts invocations.
type countHook struct{ n int }

func (h *countHook) Func(hooking.HookCtx) { h.n++ }

// statTracers attaches the four aggregate tracers to every component.
func statTracers(s *asm.Sim) {
	all := func(tracing.TaskStart) bool { return true }
	tt := tracing.NewTotalTimeTracer(all)
	at := tracing.NewAverageTimeTracer(all)
	bt := tracing.NewBusyTimeTracer(all)
	tc := tracing.NewTagCountTracer(all)
	comps := append([]tracing.NamedHookable{}, s.Driver)
	if s.Driver2 != nil {
		comps = append(comps, s.Driver2)
	}
	for _, c := range s.Comps {
		if nh, ok := c.(tracing.NamedHookable); ok {
			comps = append(comps, nh)
		}
	}
	for _, c := range comps {
		tracing.CollectTrace(c, tt)
		tracing.CollectTrace(c, at)
		tracing.CollectTrace(c, bt)
		tracing.CollectTrace(c, tc)
	}
}

type obsCfg struct {
	name  string
	opt   asm.Options
	stat  bool
	eater bool
	// bufhook: a counting hook on every Hookable inside every component State (state buffers, pipelines)
	bufhook bool
}

var obsCfgs = []obsCfg{
	{name: "bare(no simulation, no hooks at all)", opt: asm.Options{Bare: true}},
	{name: "simulation(default hooks, tracing off)"},
	{name: "engine-hook", opt: asm.Options{EventTrace: true}},
	{name: "id-eating-hook", eater: true},
	{name: "stat-tracers", stat: true},
	{name: "vis-tracing(db tracer + buffer tracing)", opt: asm.Options{VisTracing: true}},
	{name: "state-buffer hooks", bufhook: true},
	{name: "all", opt: asm.Options{VisTracing: true, EventTrace: true}, stat: true, eater: true, bufhook: true},
}

// fingerprint: every response (op, kind, data, time) in order, the end time,
// the number of handled events and the final storage payload(s).
func runLibOnce(cfg *asm.Config, oc obsCfg) ([]uint64, map[string]any) {
	s := asm.Build(cfg, oc.opt)
	defer s.Close()
	if oc.stat {
		statTracers(s)
	}
	if oc.eater {
		s.Engine.AcceptHook(&idEater{2, 1})
	}
	hooked := 0
	if oc.bufhook {
		hooked = s.HookStateBuffers(&countHook{})
	}
	s.Start()
	s.Engine.Run()
	var fp []uint64
	for _, r := range s.Logs() {
		w := uint64(0)
		if r.Write {
			w = 1
		}
		fp = append(fp, uint64(int64(r.Op)+2000), w, uint64(r.Data), r.Time)
	}
	fp = append(fp, uint64(s.Engine.CurrentTime()))
	fp = append(fp, s.MemImage(cfg)...)
	info := map[string]any{"responses": len(s.Logs()), "end": uint64(s.Engine.CurrentTime()),
		"done": s.Done(), "state_buffers_hooked": hooked}
	return fp, info
}

type netIn struct {
	Kind string    `json:"kind"` // "net"
	Net  c29.Input `json:"net"`
}

type netObs struct {
	name                         string
	compHook, stat, portHook, ev bool
}

var netObsCfgs = []netObs{
	{name: "bare"},
	{name: "hook on every switch/endpoint component", compHook: true},
	{name: "stat tracers on every switch/endpoint", stat: true},
	{name: "hook on every network port", portHook: true},
	{name: "engine hook", ev: true},
	{name: "all", compHook: true, stat: true, portHook: true, ev: true},
}

// runNetOnce runs a real network (switches, endpoints, scripted devices) under one observer
// configuration; the fingerprint holds no generated ID.
func runNetOnce(in c29.Input, oc netObs) ([]uint64, map[string]any) {
	n := c29.BuildNet(in)
	hooks := 0
	var named []tracing.NamedHookable
	for _, c := range n.Comps {
		if nh, ok := c.(tracing.NamedHookable); ok {
			named = append(named, nh)
		}
	}
	if oc.compHook {
		for _, c := range named {
			c.AcceptHook(&countHook{})
			hooks++
		}
	}
	if oc.stat {
		all := func(tracing.TaskStart) bool { return true }
		tt, at := tracing.NewTotalTimeTracer(all), tracing.NewAverageTimeTracer(all)
		bt, tc := tracing.NewBusyTimeTracer(all), tracing.NewTagCountTracer(all)
		for _, c := range named {
			tracing.CollectTrace(c, tt)
			tracing.CollectTrace(c, at)
			tracing.CollectTrace(c, bt)
			tracing.CollectTrace(c, tc)
		}
	}
	if oc.portHook {
		for _, p := range n.Ports {
			p.AcceptHook(&countHook{})
			hooks++
		}
	}
	if oc.ev {
		n.Engine.AcceptHook(&idEater{2, 1})
	}
	n.Run()
	return n.Fingerprint(), map[string]any{"deliveries": n.Deliveries(), "end": uint64(n.Engine.CurrentTime()),
		"components": len(named), "hooks": hooks}
}

type kindOnly struct {
	Kind string `json:"kind"`
}

func run(raw json.RawMessage) (hx.Case, error) {
	var k kindOnly
	if err := hx.UJ(raw, &k); err != nil {
		return hx.Case{}, err
	}
	switch k.Kind {
	case "script":
		var in scriptIn
		if err := hx.UJ(raw, &in); err != nil {
			return hx.Case{}, err
		}
		off, foff := runScriptOnce(&in.Script, 0, 0, false)
		on, fon := runScriptOnce(&in.Script, in.KB, in.KA, true)
		sc, is := c06.ScriptPartsCoq(&in.Script)
		fuel := len(off) + len(on) + 8
		c := hx.Case{Obs: map[string]any{"off": off, "on": on, "fin_off": foff, "fin_on": fon}}
		c.Coq = hx.App("ObsScript", hx.Nat(in.Script.NH), sc, is, hx.N(in.KB), hx.N(in.KA), hx.Nat(fuel),
			c06.RecsCoq(off), c06.RecsCoq(on), c06.FinalCoq(foff), c06.FinalCoq(fon))
		c.Nontrivial = len(off) >= 3 && (in.KB+in.KA) > 0
		c.Tags = []string{"script", fmt.Sprintf("ids-per-event:%d", in.KB+in.KA)}
		return c, nil
	case "lib":
		var in libIn
		if err := hx.UJ(raw, &in); err != nil {
			return hx.Case{}, err
		}
		var fps []string
		infos := map[string]any{}
		for _, oc := range obsCfgs {
			var fp []uint64
			var info map[string]any
			if p, msg := hx.Try(func() { fp, info = runLibOnce(in.Cfg, oc) }); p {
				// a panic of the implementation under this observer configuration is an outcome
				fp = []uint64{999999999, asm.H62(msg)}
				info = map[string]any{"panic": msg}
			}
			fps = append(fps, hx.LN(fp))
			infos[oc.name] = info
		}
		c := hx.Case{Obs: infos, Coq: hx.App("ObsLib", hx.L(fps))}
		c.Nontrivial = true
		c.Tags = []string{"lib:" + in.Cfg.Kind}
		return c, nil
	case "net":
		var in netIn
		if err := hx.UJ(raw, &in); err != nil {
			return hx.Case{}, err
		}
		var fps []string
		infos := map[string]any{}
		deliveries := 0
		for _, oc := range netObsCfgs {
			var fp []uint64
			var info map[string]any
			if p, msg := hx.Try(func() { fp, info = runNetOnce(in.Net, oc) }); p {
				fp = []uint64{999999999, asm.H62(msg)}
				info = map[string]any{"panic": msg}
			} else if d, ok := info["deliveries"].(int); ok {
				deliveries = d
			}
			fps = append(fps, hx.LN(fp))
			infos[oc.name] = info
		}
		c := hx.Case{Obs: infos, Coq: hx.App("ObsLib", hx.L(fps))}
		c.Nontrivial = deliveries >= 2
		c.Tags = []string{"net:" + in.Net.Topo}
		return c, nil
	}
	return hx.Case{}, fmt.Errorf("unknown kind %q", k.Kind)
}

func gen(r *hx.Rand, tier string) []json.RawMessage {
	nScripts, nLib, nops := 60, 12, 12
	if tier == "thorough" {
		nScripts, nLib, nops = 600, 90, 20
	}
	var out []json.RawMessage
	for i := 0; i < nScripts; i++ {
		in := c06.GenScript(r)
		kb, ka := uint64(r.Intn(4)), uint64(r.Intn(3))
		if i%10 == 0 {
			kb, ka = 0, 0 // hook present but consuming nothing
		}
		out = append(out, hx.J(scriptIn{Kind: "script", Script: *in, KB: kb, KA: ka}))
	}
	for i, kt := range asm.ResetTargets { // directed: reset in the middle of traffic
		if tier != "thorough" && i%2 == int(r.U64()%2) {
			continue
		}
		out = append(out, hx.J(libIn{Kind: "lib", Cfg: asm.ResetConfig(r, kt[0], kt[1], nops)}))
	}
	for _, k := range []string{"wb", "wtwb", "wbdram"} { // directed: filtered flush of several dirty lines
		out = append(out, hx.J(libIn{Kind: "lib", Cfg: asm.FlushConfig(r, k, r.Range(4, 8))}))
	}
	for rep := 0; rep < 3; rep++ { // directed: contended connection (several draws per kind)
		for _, k := range []string{"ideal", "wb", "banked", "wt"} {
			out = append(out, hx.J(libIn{Kind: "lib", Cfg: asm.ContendedConfig(r, k, nops+4*rep)}))
		}
	}
	for i := 0; i < nLib; i++ {
		out = append(out, hx.J(libIn{Kind: "lib", Cfg: asm.GenConfig(r, asm.Kinds[i%len(asm.Kinds)], nops)}))
	}
	// real networks (switches + endpoints): directed contention for one output port, then every family
	for _, ch := range []int{1, 2} {
		out = append(out, hx.J(netIn{Kind: "net", Net: c29.ContendedNet(r, 2+ch, ch)}))
	}
	nNet := 10
	if tier == "thorough" {
		nNet = 100
	}
	for i := 0; i < nNet; i++ {
		out = append(out, hx.J(netIn{Kind: "net", Net: c29.GenNet(r, i)}))
	}
	return out
}

func init() {
	hx.Register(&hx.Prop{
		ID:      "C33",
		Imports: "From Akita Require Import Lib.Base Lib.AbsSim C06.Model C06.Exec C33.Model C33.Exec.",
		Rule: "scripted simulations run on the real SerialEngine without any hook and with an engine hook consuming kb/ka generated IDs " +
			"before/after every event (full traces with IDs compared with the model); library assemblies (ideal, wt, wb, wt+wb, banked, " +
			"virtual-memory stack) run under 8 observer configurations (bare standalone registrar with no hook anywhere, default simulation with tracing off, engine hook, ID-eating hook, four aggregate tracers on every " +
			"component, DB tracer + port buffer tracing, a hook on every state buffer/pipeline inside component State, all); a third of the assemblies have a second driver competing for the same connection, a third a control history (pause/drain/flush/reset/enable) in the middle of traffic and their fingerprints (responses with data and times in order, end time, " +
			"final backing-memory image at every touched line) compared; real networks (one-switch contention for an output port, generic graphs, PCIe trees, NVLink hybrids, 2D/3D meshes with scripted devices) run bare, with a hook on every switch/endpoint component, with the four aggregate tracers on them, with a hook on every network port, with an engine hook, and with all of these, and their fingerprints (every hand-over and arrival at a device port with its time and metadata, end time) compared. Non-trivial: script with >= 3 events and an observer consuming >= 1 ID per event; every library case.",
		Gen: gen, Run: run, Shrink: shrink,
	})
}

func shrink(raw json.RawMessage) []json.RawMessage {
	var k kindOnly
	if hx.UJ(raw, &k) != nil || k.Kind != "lib" {
		return nil
	}
	var in libIn
	if hx.UJ(raw, &in) != nil {
		return nil
	}
	var out []json.RawMessage
	for _, c := range asm.ShrinkConfigs(in.Cfg) {
		out = append(out, hx.J(libIn{Kind: "lib", Cfg: c}))
	}
	return out
}
