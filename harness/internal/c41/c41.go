// Package c41 ties the Coq model of timing/idgenerator.go and
// timing/idgenerator_checkpoint.go to the implementation: exact replay of API
// scripts on a fresh generator (IDs, checkpoint text, restore-then-continue), and
// a concurrent stress whose summary is evaluated by the property predicate.
package c41

import (
	"bytes"
	"encoding/json"
	"fmt"
	"io"
	"runtime"
	"sort"
	"sync"

	"github.com/sarchlab/akita/v5/timing"

	"verifharness/internal/hx"
)

type opIn struct {
	Op   string `json:"op"` // gen save loadsaved loaddto garbage set get
	I    int    `json:"i,omitempty"`
	Kind string `json:"kind,omitempty"`
	N    uint64 `json:"n,omitempty"`
}

type concIn struct {
	G int `json:"g"`
	N int `json:"n"`
	// FirstUse > 0: instead of fetching the generator once up front, run FirstUse
	// rounds of { ResetIDGenerator; G goroutines released from a barrier each call
	// timing.GetIDGenerator().Generate() N times } — the concurrent FIRST use of the
	// (lazily instantiated, default sequential) generator. The reported run is the
	// first round that produced a duplicate / zero / wrong range, else the last.
	FirstUse int `json:"first_use,omitempty"`
}

type input struct {
	Par  bool    `json:"par,omitempty"`
	Ops  []opIn  `json:"ops,omitempty"`
	Conc *concIn `json:"conc,omitempty"`
}

type checkpointer interface {
	SaveCheckpoint(w io.Writer) error
	LoadCheckpoint(r io.Reader) error
}

type outRec struct {
	Kind string `json:"kind"` // id saved ok err val panic
	N    uint64 `json:"n,omitempty"`
	Text string `json:"text,omitempty"`
}

type obsSeq struct {
	Outs []outRec `json:"outs"`
	NIDs []uint64 `json:"nids"`
}

type obsConc struct {
	Count    uint64 `json:"count"`
	Min      uint64 `json:"min"`
	Max      uint64 `json:"max"`
	Distinct bool   `json:"distinct"`
	Nonzero  bool   `json:"nonzero"`
	FirstDup uint64 `json:"first_dup,omitempty"`
}

func freshGen(par bool) timing.IDGenerator {
	timing.ResetIDGenerator()
	if par {
		timing.UseParallelIDGenerator()
	} else {
		timing.UseSequentialIDGenerator()
	}
	return timing.GetIDGenerator()
}

var garbage = []string{"", "nonsense", "[1,2]", `{"kind":"sequential","next_id":"7"}`, `{"kind":"sequential","next_id":-3}`,
	`{"kind":"sequential","next_id":18446744073709551616}`, `{"kind":"sequential","next_id":1.5}`, `{"kind":5}`}

func runSeq(in input) obsSeq {
	g := freshGen(in.Par)
	ck := g.(checkpointer)
	var o obsSeq
	var saved [][]byte
	load := func(b []byte) {
		if err := ck.LoadCheckpoint(bytes.NewReader(b)); err != nil {
			o.Outs = append(o.Outs, outRec{Kind: "err"})
		} else {
			o.Outs = append(o.Outs, outRec{Kind: "ok"})
		}
	}
	for _, op := range in.Ops {
		switch op.Op {
		case "gen":
			o.Outs = append(o.Outs, outRec{Kind: "id", N: g.Generate()})
		case "save":
			var buf bytes.Buffer
			if err := ck.SaveCheckpoint(&buf); err != nil {
				o.Outs = append(o.Outs, outRec{Kind: "err"})
				break
			}
			saved = append(saved, buf.Bytes())
			o.Outs = append(o.Outs, outRec{Kind: "saved", Text: buf.String()})
			var dto struct {
				NextID uint64 `json:"next_id"`
			}
			if json.Unmarshal(buf.Bytes(), &dto) != nil {
				dto.NextID = ^uint64(0) - 12345 // unreadable: make it visible
			}
			o.NIDs = append(o.NIDs, dto.NextID)
		case "loadsaved":
			if op.I >= 0 && op.I < len(saved) {
				load(saved[op.I])
			} else {
				load(nil)
			}
		case "loaddto":
			kb, _ := json.Marshal(op.Kind)
			load([]byte(fmt.Sprintf(`{"kind":%s,"next_id":%d}`, kb, op.N)))
		case "garbage":
			load([]byte(garbage[op.I%len(garbage)]))
		case "set":
			if p, _ := hx.Try(func() { timing.SetIDGeneratorNextID(op.N) }); p {
				o.Outs = append(o.Outs, outRec{Kind: "panic"})
			} else {
				o.Outs = append(o.Outs, outRec{Kind: "ok"})
			}
		case "get":
			var v uint64
			if p, _ := hx.Try(func() { v = timing.GetIDGeneratorNextID() }); p {
				o.Outs = append(o.Outs, outRec{Kind: "panic"})
			} else {
				o.Outs = append(o.Outs, outRec{Kind: "val", N: v})
			}
		}
	}
	return o
}

func runConc(in input) obsConc {
	old := runtime.GOMAXPROCS(16)
	defer runtime.GOMAXPROCS(old)
	if in.Conc.FirstUse > 0 {
		var o obsConc
		for r := 0; r < in.Conc.FirstUse; r++ {
			o = runConcRound(in, nil)
			if !o.Distinct || !o.Nonzero || o.Min != 1 || o.Max != o.Count {
				return o
			}
		}
		return o
	}
	return runConcRound(in, freshGen(in.Par))
}

// runConcRound: g == nil means every call goes through timing.GetIDGenerator()
// after a reset (concurrent first use).
func runConcRound(in input, g timing.IDGenerator) obsConc {
	if g == nil {
		timing.ResetIDGenerator()
	}
	G, N := in.Conc.G, in.Conc.N
	res := make([][]uint64, G)
	var start, done sync.WaitGroup
	start.Add(1)
	for i := 0; i < G; i++ {
		res[i] = make([]uint64, N)
		done.Add(1)
		go func(out []uint64) {
			defer done.Done()
			start.Wait()
			for k := range out {
				if g == nil {
					out[k] = timing.GetIDGenerator().Generate()
				} else {
					out[k] = g.Generate()
				}
			}
		}(res[i])
	}
	start.Done()
	done.Wait()
	all := make([]uint64, 0, G*N)
	for _, r := range res {
		all = append(all, r...)
	}
	sort.Slice(all, func(i, j int) bool { return all[i] < all[j] })
	o := obsConc{Count: uint64(len(all)), Distinct: true, Nonzero: true}
	for i, v := range all {
		if v == 0 {
			o.Nonzero = false
		}
		if i > 0 && all[i-1] == v && o.Distinct {
			o.Distinct = false
			o.FirstDup = v
		}
	}
	if len(all) > 0 {
		o.Min, o.Max = all[0], all[len(all)-1]
	}
	return o
}

func coqKind(par bool) string {
	if par {
		return "Par"
	}
	return "Seq"
}

func run(raw json.RawMessage) (hx.Case, error) {
	var in input
	if err := hx.UJ(raw, &in); err != nil {
		return hx.Case{}, err
	}
	if in.Conc != nil {
		o := runConc(in)
		c := hx.Case{Obs: o}
		c.Coq = hx.App("CConc", coqKind(in.Par), hx.N(uint64(in.Conc.G)), hx.N(uint64(in.Conc.N)),
			hx.N(o.Count), hx.N(o.Min), hx.N(o.Max), hx.B(o.Distinct), hx.B(o.Nonzero))
		c.Tags = []string{"concurrent-stress", fmt.Sprintf("goroutines:%d", in.Conc.G), "generator:" + coqKind(in.Par)}
		if in.Conc.FirstUse > 0 {
			c.Tags = append(c.Tags, "concurrent-first-use")
		}
		c.Nontrivial = in.Conc.G >= 2 && (in.Conc.N >= 1000 || in.Conc.FirstUse > 0)
		return c, nil
	}
	o := runSeq(in)
	c := hx.Case{Obs: o}
	var ops, outs []string
	gens, saves, loads, failed, wrap := 0, 0, 0, 0, false
	k := 0
	for _, op := range in.Ops {
		var t string
		switch op.Op {
		case "gen":
			t = "Gen"
			gens++
		case "save":
			t = "Save"
		case "loadsaved":
			i := op.I
			if i < 0 {
				i = 1 << 20
			}
			t = hx.App("LoadSaved", hx.Nat(i))
		case "loaddto":
			t = hx.App("LoadDTO", hx.Str(op.Kind), hx.N(op.N))
		case "garbage":
			t = "LoadGarbage"
		case "set":
			t = hx.App("SetNext", hx.N(op.N))
		case "get":
			t = "GetNext"
		default:
			continue
		}
		ops = append(ops, t)
		r := o.Outs[k]
		k++
		switch r.Kind {
		case "id":
			outs = append(outs, hx.App("OId", hx.N(r.N)))
			if r.N == 0 {
				wrap = true
			}
		case "saved":
			outs = append(outs, hx.App("OSaved", hx.Str(r.Text)))
			saves++
		case "ok":
			outs = append(outs, "OOk")
			if op.Op != "set" {
				loads++
			}
		case "err":
			outs = append(outs, "OErr")
			failed++
		case "val":
			outs = append(outs, hx.App("OVal", hx.N(r.N)))
		default:
			outs = append(outs, "OPanic")
		}
	}
	c.Coq = hx.App("CSeq", coqKind(in.Par), hx.L(ops), hx.L(outs), hx.LN(o.NIDs))
	tag := func(b bool, s string) {
		if b {
			c.Tags = append(c.Tags, s)
		}
	}
	tag(true, "generator:"+coqKind(in.Par))
	tag(saves > 0 && loads > 0, "save+restore")
	tag(failed > 0, "rejected-load")
	tag(wrap, "counter-wrap")
	// non-trivial: a sequential script that generates, checkpoints, restores and generates again
	c.Nontrivial = !in.Par && gens >= 4 && saves > 0 && loads > 0
	return c, nil
}

func genScript(r *hx.Rand) input {
	in := input{Par: r.Chance(1, 8)}
	n := r.Range(3, 40)
	nsaved := 0
	for len(in.Ops) < n {
		switch r.Pick(10, 4, 4, 2, 1, 1, 2) {
		case 0:
			for k := r.Range(1, 6); k > 0; k-- {
				in.Ops = append(in.Ops, opIn{Op: "gen"})
			}
		case 1:
			in.Ops = append(in.Ops, opIn{Op: "save"})
			nsaved++
		case 2:
			i := r.Intn(nsaved + 1)
			in.Ops = append(in.Ops, opIn{Op: "loadsaved", I: i})
		case 3:
			kind := []string{"sequential", "sequential", "parallel", "", "Sequential", "seq\"uential"}[r.Intn(6)]
			nid := []uint64{0, 1, r.U64n(1000), r.U64(), ^uint64(0) - uint64(r.Intn(3))}[r.Pick(2, 2, 4, 2, 1)]
			in.Ops = append(in.Ops, opIn{Op: "loaddto", Kind: kind, N: nid})
		case 4:
			in.Ops = append(in.Ops, opIn{Op: "garbage", I: r.Intn(len(garbage))})
		case 5:
			in.Ops = append(in.Ops, opIn{Op: "set", N: []uint64{0, r.U64n(100), r.U64(), ^uint64(0)}[r.Pick(2, 4, 2, 1)]})
		default:
			in.Ops = append(in.Ops, opIn{Op: "get"})
		}
	}
	return in
}

func directed() []input {
	gens := func(n int) []opIn {
		var o []opIn
		for i := 0; i < n; i++ {
			o = append(o, opIn{Op: "gen"})
		}
		return o
	}
	cat := func(xs ...[]opIn) []opIn {
		var o []opIn
		for _, x := range xs {
			o = append(o, x...)
		}
		return o
	}
	one := func(o opIn) []opIn { return []opIn{o} }
	return []input{
		{Ops: gens(50)},
		{Ops: cat(one(opIn{Op: "save"}), gens(3), one(opIn{Op: "save"}), gens(4), one(opIn{Op: "loadsaved", I: 1}), gens(4),
			one(opIn{Op: "loadsaved", I: 0}), gens(2), one(opIn{Op: "get"}))},
		{Ops: cat(gens(2), one(opIn{Op: "loaddto", Kind: "parallel", N: 99}), gens(1), one(opIn{Op: "garbage", I: 3}), gens(1),
			one(opIn{Op: "loaddto", Kind: "sequential", N: 99}), gens(2))},
		// the 2^64-th call wraps to 0 (outside the property's range; recorded by the model)
		{Ops: cat(one(opIn{Op: "set", N: ^uint64(0) - 1}), gens(3), one(opIn{Op: "save"}), one(opIn{Op: "get"}))},
		{Ops: cat(one(opIn{Op: "loaddto", Kind: "sequential", N: ^uint64(0)}), one(opIn{Op: "save"}), gens(2))},
		{Par: true, Ops: cat(gens(5), one(opIn{Op: "save"}), one(opIn{Op: "loadsaved", I: 0}),
			one(opIn{Op: "loaddto", Kind: "sequential", N: 3}), one(opIn{Op: "get"}), one(opIn{Op: "set", N: 4}), gens(2))},
	}
}

func gen(r *hx.Rand, tier string) []json.RawMessage {
	n := 330
	stress := []concIn{{G: 2, N: 200000}, {G: 4, N: 100000}, {G: 8, N: 50000}, {G: 16, N: 40000}, {G: 16, N: 40000}, {G: 32, N: 10000}, {G: 64, N: 4000}, {G: 3, N: 1}, {G: 1, N: 1000}}
	if tier == "thorough" {
		n = 6000
		for i := 0; i < 40; i++ {
			stress = append(stress, concIn{G: []int{2, 3, 5, 8, 16, 24, 48, 128}[r.Intn(8)], N: 20000 + r.Intn(200000)})
		}
	}
	var out []json.RawMessage
	for _, in := range directed() {
		out = append(out, hx.J(in))
	}
	for i, s := range stress {
		s := s
		out = append(out, hx.J(input{Par: i%2 == 0, Conc: &s}))
	}
	// concurrent first use of the lazily created default generator
	rounds := 1500
	if tier == "thorough" {
		rounds = 20000
	}
	for _, g := range []int{2, 8, 16} {
		out = append(out, hx.J(input{Conc: &concIn{G: g, N: 3, FirstUse: rounds}}))
	}
	for len(out) < n {
		out = append(out, hx.J(genScript(r)))
	}
	return out
}

func shrink(raw json.RawMessage) []json.RawMessage {
	var in input
	if hx.UJ(raw, &in) != nil || in.Conc != nil {
		return nil
	}
	var out []json.RawMessage
	for i := range in.Ops {
		c := input{Par: in.Par}
		c.Ops = append(append([]opIn{}, in.Ops[:i]...), in.Ops[i+1:]...)
		out = append(out, hx.J(c))
	}
	return out
}

func init() {
	hx.Register(&hx.Prop{
		ID:      "C41",
		Imports: "From Akita Require Import Lib.Base C41.Model C41.Exec.",
		Rule: "directed API scripts (50 IDs; save/generate/restore/continue twice; rejected loads between generates; counter set to " +
			"2^64-2 and 2^64-1; parallel generator rejecting checkpoints) plus random scripts of 3-40 calls on a fresh generator " +
			"(7/8 sequential): Generate bursts, SaveCheckpoint, LoadCheckpoint of an earlier text / of a DTO with kind in " +
			"{sequential, parallel, '', Sequential, quoted} and next_id in {0,1,<1000,random,>=2^64-3} / of malformed JSON, " +
			"Set/GetIDGeneratorNextID; plus concurrent stress runs with GOMAXPROCS=16: 2-64 (thorough: up to 128) goroutines x up " +
			"to 200000 Generate calls on both generator kinds, all IDs collected and compared. Non-trivial: a sequential script " +
			"with >= 4 IDs, a checkpoint and a successful restore; a stress with >= 2 goroutines x >= 1000 calls. Distinct = distinct input hash.",
		Gen: gen, Run: run, Shrink: shrink,
	})
}
