// Package c36 ties the Coq model of tracing.DBTracer to the implementation: a
// real DBTracer writes through a real datarecording recorder into a SQLite file;
// after the history the four tables are read back (before the recorder is
// closed, so only what the tracer itself flushed is visible) and compared with
// the model row by row.
package c36

import (
	"database/sql"
	"encoding/json"
	"fmt"
	"math"
	"os"
	"path/filepath"
	"strconv"
	"strings"

	_ "github.com/glebarez/go-sqlite"
	"github.com/sarchlab/akita/v5/datarecording"
	"github.com/sarchlab/akita/v5/timing"
	"github.com/sarchlab/akita/v5/tracing"

	"verifharness/internal/hx"
)

// Op is one call. K: "s" StartTask, "e" EndTask, "g" AddTaskTag, "m" AddMilestone,
// "on" StartTracing, "off" StopTracing, "term" Terminate.
type Op struct {
	K      string `json:"k"`
	ID     uint64 `json:"id,omitempty"`     // task / tag / milestone ID
	Task   uint64 `json:"task,omitempty"`   // owning task (tag, milestone)
	Parent uint64 `json:"parent,omitempty"` // start
	Kind   uint64 `json:"kind,omitempty"`   // numbered strings; 0 = ""
	What   uint64 `json:"what,omitempty"`
	Loc    uint64 `json:"loc,omitempty"`
	T      uint64 `json:"t"`
}

type input struct {
	Ops []Op `json:"ops"`
}

type obs struct {
	Panics                []bool
	Tracing               bool
	Trace, Mile, Tag, Seg [][]uint64
}

type clock struct{ now timing.VTimeInPicoSec }

func (c *clock) CurrentTime() timing.VTimeInPicoSec { return c.now }

func str(k uint64) string {
	if k == 0 {
		return ""
	}
	return "s" + strconv.FormatUint(k, 10)
}

func unstr(s string) (uint64, error) {
	if s == "" {
		return 0, nil
	}
	if !strings.HasPrefix(s, "s") {
		return 0, fmt.Errorf("unexpected string %q in the database", s)
	}
	return strconv.ParseUint(s[1:], 10, 64)
}

// readTable reads the rows of one table in insertion order. kinds: 'i' integer,
// 'f' float holding an integer, 's' numbered string.
func readTable(db *sql.DB, query, kinds string) ([][]uint64, error) {
	rows, err := db.Query(query)
	if err != nil {
		return nil, err
	}
	defer rows.Close()
	out := [][]uint64{}
	for rows.Next() {
		vals := make([]any, len(kinds))
		for i, k := range kinds {
			switch k {
			case 'i':
				vals[i] = new(int64)
			case 'f':
				vals[i] = new(float64)
			default:
				vals[i] = new(sql.NullString)
			}
		}
		if err := rows.Scan(vals...); err != nil {
			return nil, err
		}
		r := make([]uint64, len(kinds))
		for i, k := range kinds {
			switch k {
			case 'i':
				r[i] = uint64(*vals[i].(*int64))
			case 'f':
				f := *vals[i].(*float64)
				if f < 0 || f != math.Trunc(f) || f >= 1<<63 {
					return nil, fmt.Errorf("non-integral time %v", f)
				}
				r[i] = uint64(f)
			default:
				ns := vals[i].(*sql.NullString)
				if !ns.Valid {
					return nil, fmt.Errorf("NULL string column (dangling location id)")
				}
				v, err := unstr(ns.String)
				if err != nil {
					return nil, err
				}
				r[i] = v
			}
		}
		out = append(out, r)
	}
	return out, rows.Err()
}

func run(raw json.RawMessage) (hx.Case, error) {
	var in input
	if err := hx.UJ(raw, &in); err != nil {
		return hx.Case{}, err
	}
	// a memory-backed directory when there is one: the file is a real SQLite
	// database either way, but every case creates, syncs and deletes one
	tmpRoot := ""
	if st, e := os.Stat("/dev/shm"); e == nil && st.IsDir() {
		tmpRoot = "/dev/shm"
	}
	dir, err := os.MkdirTemp(tmpRoot, "verif-c36-")
	if err != nil {
		return hx.Case{}, err
	}
	defer os.RemoveAll(dir)
	base := filepath.Join(dir, "trace")
	file := base + ".sqlite3"

	// Terminate reports a double call on stdout (with two backtraces); keep the
	// harness output clean.
	devnull, _ := os.OpenFile(os.DevNull, os.O_WRONLY, 0)
	saved := os.Stdout
	if devnull != nil {
		os.Stdout = devnull
	}
	restore := func() {
		os.Stdout = saved
		if devnull != nil {
			devnull.Close()
		}
	}

	rec := datarecording.NewDataRecorder(base)
	clk := &clock{}
	tr := tracing.NewDBTracer(clk, rec)

	var o obs
	for _, op := range in.Ops {
		op := op
		clk.now = timing.VTimeInPicoSec(op.T)
		p, _ := hx.Try(func() {
			switch op.K {
			case "s":
				tr.StartTask(tracing.TaskStart{ID: op.ID, ParentID: op.Parent, Kind: str(op.Kind),
					What: str(op.What), Location: str(op.Loc), Time: timing.VTimeInPicoSec(op.T)})
			case "e":
				tr.EndTask(tracing.TaskEnd{ID: op.ID, Time: timing.VTimeInPicoSec(op.T)})
			case "g":
				tr.AddTaskTag(tracing.TaskTag{ID: op.ID, TaskID: op.Task, What: str(op.What),
					Time: timing.VTimeInPicoSec(op.T)})
			case "m":
				tr.AddMilestone(tracing.Milestone{ID: op.ID, TaskID: op.Task, Time: timing.VTimeInPicoSec(op.T),
					Kind: tracing.MilestoneKind(str(op.Kind)), What: str(op.What)})
			case "on":
				tr.StartTracing()
			case "off":
				tr.StopTracing()
			case "term":
				tr.Terminate()
			default:
				panic("bad op kind " + op.K)
			}
		})
		o.Panics = append(o.Panics, p)
	}
	o.Tracing = tr.IsTracing()
	restore()

	db, err := sql.Open("sqlite", file)
	if err != nil {
		return hx.Case{}, err
	}
	o.Trace, err = readTable(db, `SELECT t.ID, t.ParentID, t.Kind, t.What, loc.Locale, t.StartTime, t.EndTime
		FROM trace t LEFT JOIN location loc ON t.Location = loc.ID ORDER BY t.rowid`, "iisssff")
	if err == nil {
		o.Mile, err = readTable(db, `SELECT ID, TaskID, Time, Kind, What FROM milestone ORDER BY rowid`, "iifss")
	}
	if err == nil {
		o.Tag, err = readTable(db, `SELECT ID, TaskID, Time, What FROM tag ORDER BY rowid`, "iifs")
	}
	if err == nil {
		o.Seg, err = readTable(db, "SELECT StartTime, EndTime FROM `daisen$segments` ORDER BY rowid", "ff")
	}
	db.Close()
	rec.Close()
	if err != nil {
		return hx.Case{}, fmt.Errorf("read back: %w", err)
	}

	c := hx.Case{Obs: o}
	ops := make([]string, len(in.Ops))
	for i, op := range in.Ops {
		switch op.K {
		case "s":
			ops[i] = hx.App("OStart", hx.N(op.ID), hx.N(op.Parent), hx.N(op.Kind), hx.N(op.What), hx.N(op.Loc), hx.N(op.T))
		case "e":
			ops[i] = hx.App("OEnd", hx.N(op.ID), hx.N(op.T))
		case "g":
			ops[i] = hx.App("OTag", hx.N(op.ID), hx.N(op.Task), hx.N(op.What), hx.N(op.T))
		case "m":
			ops[i] = hx.App("OMile", hx.N(op.ID), hx.N(op.Task), hx.N(op.T), hx.N(op.Kind), hx.N(op.What))
		case "on":
			ops[i] = hx.App("OStartTracing", hx.N(op.T))
		case "off":
			ops[i] = hx.App("OStopTracing", hx.N(op.T))
		case "term":
			ops[i] = hx.App("OTerminate", hx.N(op.T))
		}
	}
	bs := make([]string, len(o.Panics))
	for i, b := range o.Panics {
		bs[i] = hx.B(b)
	}
	rows := func(t [][]uint64) string {
		s := make([]string, len(t))
		for i, r := range t {
			s[i] = hx.LN(r)
		}
		return hx.L(s)
	}
	c.Coq = hx.App("mk_case", hx.L(ops), hx.L(bs), hx.B(o.Tracing), rows(o.Trace), rows(o.Mile), rows(o.Tag), rows(o.Seg))
	sh := classify(in)
	c.Tags = sh.tags
	c.Nontrivial = sh.wf && sh.tasks >= 3 && sh.straddle && sh.unrecorded && len(o.Trace) >= 1
	return c, nil
}

// ------------------------------------------------------------ input shape

type shape struct {
	wf         bool
	tasks      int
	straddle   bool // a task started while tracing was off and was running when it was switched on
	unrecorded bool // a completed task that never overlapped a window
	tags       []string
}

func classify(in input) shape {
	sh := shape{wf: true}
	running := map[uint64]bool{} // a task with this ID is running
	everEnded := map[uint64]bool{}
	marked := map[uint64]bool{}
	tracing, term := false, false
	var last uint64
	nonAlt, sameInstant := false, false
	earlyNote, repeatedEnd, unknownEnd, reuse := false, false, false, false
	mileTimes := map[uint64]map[uint64]bool{}
	windows := 0
	for _, op := range in.Ops {
		if op.T < last || term {
			sh.wf = false
		}
		last = op.T
		switch op.K {
		case "s":
			if running[op.ID] || op.ID == 0 || op.Kind == 0 || op.What == 0 || op.Loc == 0 {
				sh.wf = false
			}
			if everEnded[op.ID] {
				reuse = true
			}
			running[op.ID] = true
			marked[op.ID] = tracing
		case "e":
			if running[op.ID] {
				sh.tasks++
				if !marked[op.ID] {
					sh.unrecorded = true
				}
				everEnded[op.ID] = true
			} else if everEnded[op.ID] {
				repeatedEnd = true
			} else {
				unknownEnd = true
			}
			running[op.ID] = false
		case "g":
			if !running[op.Task] {
				earlyNote = true
			}
		case "m":
			if !running[op.Task] {
				earlyNote = true
			}
			if mileTimes[op.Task] == nil {
				mileTimes[op.Task] = map[uint64]bool{}
			}
			if mileTimes[op.Task][op.T] {
				sameInstant = true
			}
			mileTimes[op.Task][op.T] = true
		case "on":
			if tracing {
				nonAlt = true
			} else {
				windows++
				for id, r := range running {
					if r {
						if !marked[id] {
							sh.straddle = true
						}
						marked[id] = true
					}
				}
			}
			tracing = true
		case "off":
			if !tracing {
				nonAlt = true
			}
			tracing = false
		case "term":
			term = true
			tracing = false
		}
	}
	add := func(b bool, s string) {
		if b {
			sh.tags = append(sh.tags, s)
		}
	}
	add(sh.wf, "history:well-formed")
	add(!sh.wf, "history:ill-formed")
	add(nonAlt, "control:non-alternating")
	add(!nonAlt, "control:alternating")
	add(term, "control:terminated")
	add(!term, "control:not-terminated")
	add(sameInstant, "milestone:same-instant")
	add(earlyNote, "note:task-not-running")
	add(repeatedEnd, "end:repeated")
	add(unknownEnd, "end:unknown-id")
	add(reuse, "id:reused")
	add(sh.straddle, "task:straddles-start")
	add(sh.unrecorded, "task:outside-windows")
	add(windows >= 2, "windows:2+")
	add(windows == 0, "windows:0")
	return sh
}

// ------------------------------------------------------------ generators

func gen(r *hx.Rand, tier string) []json.RawMessage {
	n := 300
	if tier == "thorough" {
		n = 4000
	}
	var out []json.RawMessage
	add := func(ops []Op) { out = append(out, hx.J(input{ops})) }

	// directed: the two pre-fix failures, and a flow from the unit tests
	add([]Op{{K: "off", T: 100}, {K: "term", T: 100}})
	add([]Op{{K: "on", T: 200}, {K: "on", T: 300}, {K: "off", T: 400}, {K: "term", T: 400}})
	add([]Op{{K: "on", T: 0}, {K: "s", ID: 1, Parent: 0, Kind: 1, What: 2, Loc: 3, T: 10},
		{K: "g", ID: 50, Task: 1, What: 4, T: 12}, {K: "m", ID: 60, Task: 1, Kind: 5, What: 6, T: 12},
		{K: "m", ID: 61, Task: 1, Kind: 7, What: 8, T: 12}, {K: "e", ID: 1, T: 20}, {K: "off", T: 20}, {K: "term", T: 20}})
	add(nil)
	st := func(id, t uint64) Op { return Op{K: "s", ID: id, Kind: 1, What: 2, Loc: 3, T: t} }
	// a task first mentioned by a tag / milestone, inside and outside a window
	add([]Op{{K: "on", T: 1}, {K: "g", ID: 50, Task: 7, What: 4, T: 2}, {K: "m", ID: 51, Task: 7, Kind: 5, What: 6, T: 2},
		st(7, 3), {K: "g", ID: 52, Task: 7, What: 4, T: 4}, {K: "e", ID: 7, T: 5}, {K: "off", T: 6}, {K: "term", T: 7}})
	add([]Op{{K: "g", ID: 50, Task: 7, What: 4, T: 1}, {K: "on", T: 2}, {K: "off", T: 3}, st(7, 4), {K: "e", ID: 7, T: 5},
		{K: "term", T: 6}})
	add([]Op{{K: "g", ID: 50, Task: 9, What: 4, T: 1}, {K: "on", T: 2}, {K: "e", ID: 9, T: 3}, st(9, 4), {K: "e", ID: 9, T: 5},
		{K: "term", T: 6}})
	// a repeated end and a reused ID around a window the task never overlapped
	add([]Op{st(7, 10), {K: "e", ID: 7, T: 20}, {K: "on", T: 100}, {K: "e", ID: 7, T: 150}, {K: "off", T: 200}, {K: "term", T: 300}})
	add([]Op{st(9, 10), {K: "e", ID: 9, T: 20}, {K: "on", T: 100}, {K: "off", T: 200}, st(9, 300), {K: "e", ID: 9, T: 310},
		{K: "term", T: 400}})
	add([]Op{{K: "on", T: 1}, st(9, 10), {K: "e", ID: 9, T: 20}, {K: "e", ID: 9, T: 21}, st(9, 30), {K: "e", ID: 9, T: 40},
		{K: "off", T: 50}, {K: "term", T: 60}})

	for len(out) < n {
		add(genHistory(r))
	}
	return out
}

func genHistory(r *hx.Rand) []Op {
	ntask := 1 + r.Intn(8)
	if r.Chance(1, 8) {
		ntask = 8 + r.Intn(16)
	}
	illFormed := r.Chance(1, 8)
	var ops []Op
	var now uint64
	if r.Chance(1, 4) {
		now = r.U64n(1 << 52)
	}
	tick := func() {
		switch r.Pick(3, 4, 1) {
		case 0: // same instant
		case 1:
			now += 1 + r.U64n(20)
		default:
			now += r.U64n(1 << 30)
		}
		if now >= 1<<53 {
			now = 1<<53 - 1
		}
	}
	nextID := uint64(1)
	if r.Chance(1, 5) {
		nextID = 1<<62 + r.U64n(1<<61)
	}
	fresh := func() uint64 { nextID += 1 + r.U64n(3); return nextID }
	var live []uint64
	var ended []uint64     // IDs whose task ended (repeated ends, reuse)
	var mentioned []uint64 // IDs only mentioned by a tag / milestone so far
	started := 0
	pOn := 1 + r.Intn(4)  // weight of StartTracing
	pOff := 1 + r.Intn(4) // weight of StopTracing
	odd := r.Intn(4)      // weight of the unusual (but legal) orders below; 0 = none
	steps := ntask*4 + r.Intn(10)
	startTask := func(id uint64) {
		live = append(live, id)
		started++
		ops = append(ops, Op{K: "s", ID: id, Parent: r.U64n(5), Kind: 1 + r.U64n(4), What: 1 + r.U64n(6),
			Loc: 1 + r.U64n(5), T: now})
	}
	note := func(task uint64) {
		if r.Bool() {
			ops = append(ops, Op{K: "g", ID: fresh(), Task: task, What: 1 + r.U64n(4), T: now})
		} else {
			ops = append(ops, Op{K: "m", ID: fresh(), Task: task, Kind: 1 + r.U64n(3), What: 1 + r.U64n(3), T: now})
		}
	}
	pickDel := func(l *[]uint64) uint64 {
		j := r.Intn(len(*l))
		v := (*l)[j]
		*l = append((*l)[:j], (*l)[j+1:]...)
		return v
	}
	for i := 0; i < steps || len(live) > 0 && r.Chance(9, 10); i++ {
		tick()
		wStart := 6
		if started >= ntask {
			wStart = 0
		}
		wLive := 0
		if len(live) > 0 {
			wLive = 1
		}
		wEnded := 0
		if len(ended) > 0 {
			wEnded = 1
		}
		wMent := 0
		if len(mentioned) > 0 {
			wMent = 1
		}
		switch r.Pick(wStart, 5*wLive, 3*wLive, 5*wLive, pOn, pOff,
			odd, odd*wEnded, odd*wEnded, odd*wMent*2, odd*wEnded, 1*odd) {
		case 0:
			startTask(fresh())
		case 1:
			j := r.Intn(len(live))
			ops = append(ops, Op{K: "e", ID: live[j], T: now})
			ended = append(ended, live[j])
			live = append(live[:j], live[j+1:]...)
		case 2:
			ops = append(ops, Op{K: "g", ID: fresh(), Task: live[r.Intn(len(live))], What: 1 + r.U64n(4), T: now})
		case 3:
			ops = append(ops, Op{K: "m", ID: fresh(), Task: live[r.Intn(len(live))], Kind: 1 + r.U64n(3),
				What: 1 + r.U64n(3), T: now})
		case 4:
			ops = append(ops, Op{K: "on", T: now})
		case 5:
			ops = append(ops, Op{K: "off", T: now})
		case 6: // a tag / milestone that mentions a task before its StartTask
			id := fresh()
			mentioned = append(mentioned, id)
			for k := 1 + r.Intn(3); k > 0; k-- {
				note(id)
			}
		case 7: // a repeated end of a task that already ended (e.g. a reset path's blanket end)
			ops = append(ops, Op{K: "e", ID: ended[r.Intn(len(ended))], T: now})
		case 8: // the ID of an ended task is used again by a new task
			startTask(pickDel(&ended))
		case 9: // the mentioned task starts (or its mention is closed by a stray end)
			id := pickDel(&mentioned)
			if r.Chance(1, 5) {
				ops = append(ops, Op{K: "e", ID: id, T: now})
				if r.Bool() {
					mentioned = append(mentioned, id)
					note(id)
				}
			} else {
				startTask(id)
			}
		case 10: // a tag / milestone for a task that already ended (waits for a reuse of the ID)
			note(ended[r.Intn(len(ended))])
		default: // an end of an ID no task ever had
			ops = append(ops, Op{K: "e", ID: 1<<40 + r.U64n(4), T: now})
		}
		if i > 400 {
			break
		}
	}
	if illFormed {
		ops = corrupt(r, ops, &now)
	}
	if !r.Chance(1, 8) {
		tick()
		ops = append(ops, Op{K: "term", T: now})
	}
	if illFormed && r.Chance(1, 2) {
		// calls after Terminate (start / tag / milestone panic on the nil map)
		for k := 1 + r.Intn(4); k > 0; k-- {
			tick()
			switch r.Intn(7) {
			case 0:
				ops = append(ops, Op{K: "s", ID: fresh(), Kind: 1, What: 1, Loc: 1, T: now})
			case 1:
				ops = append(ops, Op{K: "e", ID: 1 + r.U64n(nextID), T: now})
			case 2:
				ops = append(ops, Op{K: "g", ID: fresh(), Task: 1 + r.U64n(5), What: 1, T: now})
			case 3:
				ops = append(ops, Op{K: "m", ID: fresh(), Task: 1 + r.U64n(5), Kind: 1, What: 1, T: now})
			case 4:
				ops = append(ops, Op{K: "on", T: now})
			case 5:
				ops = append(ops, Op{K: "off", T: now})
			default:
				ops = append(ops, Op{K: "term", T: now})
			}
		}
	}
	return ops
}

// corrupt inserts ill-formed calls: a duplicate start, an end / tag / milestone of
// a task that is not running, an invalid start, a clock step backwards.
func corrupt(r *hx.Rand, ops []Op, now *uint64) []Op {
	if len(ops) == 0 {
		return []Op{{K: "e", ID: 9, T: 1}, {K: "g", ID: 5, Task: 9, What: 1, T: 1}, {K: "on", T: 2}, {K: "e", ID: 9, T: 3}}
	}
	for k := 1 + r.Intn(3); k > 0; k-- {
		i := r.Intn(len(ops))
		t := ops[i].T
		var ins Op
		switch r.Pick(2, 2, 2, 2, 2, 1) {
		case 0: // duplicate an earlier start
			ins = ops[r.Intn(i+1)]
			if ins.K != "s" {
				ins = Op{K: "s", ID: 77, Kind: 1, What: 1, Loc: 1}
			}
			ins.T = t
		case 1:
			ins = Op{K: "e", ID: 7000 + r.U64n(3), T: t}
		case 2: // tag for a task that was never started: creates a phantom entry
			ins = Op{K: "g", ID: 9000 + uint64(k), Task: 7000 + r.U64n(3), What: 2, T: t}
		case 3:
			ins = Op{K: "m", ID: 9100 + uint64(k), Task: 7000 + r.U64n(3), Kind: 1, What: 2, T: t}
		case 4: // invalid start: one required field empty
			ins = Op{K: "s", ID: 7100, Kind: 1, What: 1, Loc: 1, T: t}
			switch r.Intn(4) {
			case 0:
				ins.ID = 0
			case 1:
				ins.Kind = 0
			case 2:
				ins.What = 0
			default:
				ins.Loc = 0
			}
		default:
			ins = ops[i]
			if ins.T > 0 {
				ins.T -= 1 + r.U64n(min(ins.T, 10))
			}
		}
		ops = append(ops[:i+1], append([]Op{ins}, ops[i+1:]...)...)
	}
	return ops
}

func shrink(raw json.RawMessage) []json.RawMessage {
	var in input
	if hx.UJ(raw, &in) != nil {
		return nil
	}
	var out []json.RawMessage
	seen := map[uint64]bool{}
	for _, op := range in.Ops {
		if op.K == "s" && !seen[op.ID] {
			seen[op.ID] = true
			var ops []Op
			for _, q := range in.Ops {
				if (q.K == "s" || q.K == "e") && q.ID == op.ID || (q.K == "g" || q.K == "m") && q.Task == op.ID {
					continue
				}
				ops = append(ops, q)
			}
			out = append(out, hx.J(input{ops}))
		}
	}
	for i := range in.Ops {
		ops := append(append([]Op{}, in.Ops[:i]...), in.Ops[i+1:]...)
		out = append(out, hx.J(input{ops}))
	}
	return out
}

func init() {
	hx.Register(&hx.Prop{
		ID:      "C36",
		Imports: "From Akita Require Import Lib.Base C36.Model C36.Exec.",
		Rule: "random histories of 1..24 tasks (unique IDs, some above 2^62) with tags and milestones on running tasks (several per instant), " +
			"same-instant and large clock steps (times < 2^53), interleaved with StartTracing/StopTracing calls in ANY order (random on/off " +
			"weights, so repeated starts and stops without start are common), usually ending with Terminate; in 3/4 of the histories also " +
			"the unusual legal orders: tags/milestones that mention a task before its StartTask (then the start, or a stray end), repeated " +
			"ends of ended tasks, ends of unknown IDs, notes on ended tasks, and IDs reused by a new task after the end; ~12% ill-formed " +
			"histories (a start while the ID is running, invalid starts, clock going back, calls after Terminate, double Terminate) " +
			"exercise only the tie. Non-trivial: well-formed, >= 3 completed tasks, one task running when tracing is switched on, one " +
			"completed task outside every window, and at least one recorded row. Distinct = distinct input hash.",
		Gen: gen, Run: run, Shrink: shrink,
	})
}
