package hx

// Main is the command line of every per-property harness binary
// (cmd/cXX/main.go imports its property package and calls Main()):
//
//	harness gen    <ID> -seed S -tier quick|thorough -out DIR [-shards K] [-corpus DIR]
//	harness replay <ID> -file F -out DIR
//	harness shrink <ID> -file F -out DIR      (writes all shrink candidates as cases)
//	harness list

import (
	"encoding/json"
	"flag"
	"fmt"
	"os"
	"path/filepath"
	"sort"
)

func fatal(f string, a ...any) {
	fmt.Fprintf(os.Stderr, f+"\n", a...)
	os.Exit(2)
}

func runAll(p *Prop, inputs []json.RawMessage) []Case {
	cases := make([]Case, 0, len(inputs))
	for _, in := range inputs {
		c, err := p.Run(in)
		if err != nil {
			fatal("run %s: %v on %s", p.ID, err, string(in))
		}
		c.Input = in
		cases = append(cases, c)
	}
	return cases
}

func readReplayInput(file string) json.RawMessage {
	b, err := os.ReadFile(file)
	if err != nil {
		fatal("read %s: %v", file, err)
	}
	var rec map[string]json.RawMessage
	if err := json.Unmarshal(b, &rec); err != nil {
		fatal("parse %s: %v", file, err)
	}
	if c, ok := rec["case"]; ok && string(c) != "null" {
		return c
	}
	if c, ok := rec["input"]; ok {
		return c
	}
	fatal("%s has no case/input", file)
	return nil
}

// Main runs the CLI.
func Main() {
	if len(os.Args) < 2 {
		fatal("usage: harness gen|replay|shrink|list ...")
	}
	cmd := os.Args[1]
	if cmd == "list" {
		for _, id := range IDs() {
			fmt.Println(id)
		}
		return
	}
	if len(os.Args) < 3 {
		fatal("missing property id")
	}
	id := os.Args[2]
	p := Lookup(id)
	if p == nil {
		fatal("unknown property %s", id)
	}
	fs := flag.NewFlagSet(cmd, flag.ExitOnError)
	seed := fs.Uint64("seed", 1, "seed")
	tier := fs.String("tier", "quick", "tier")
	out := fs.String("out", "", "output dir")
	shards := fs.Int("shards", 1, "shards")
	corpus := fs.String("corpus", "", "corpus dir")
	file := fs.String("file", "", "replay file")
	fs.Parse(os.Args[3:])
	if *out == "" {
		fatal("-out required")
	}

	switch cmd {
	case "gen":
		var inputs []json.RawMessage
		if *corpus != "" {
			files, _ := filepath.Glob(filepath.Join(*corpus, "*.json"))
			sort.Strings(files)
			for _, f := range files {
				inputs = append(inputs, readReplayInput(f))
			}
		}
		inputs = append(inputs, p.Gen(NewRand(*seed), *tier)...)
		cases := runAll(p, inputs)
		if err := WriteCases(p, cases, *out, *shards); err != nil {
			fatal("write: %v", err)
		}
		meta := map[string]any{"rule": p.Rule, "count": len(cases)}
		b, _ := json.Marshal(meta)
		os.WriteFile(filepath.Join(*out, "meta.json"), b, 0o644)
	case "replay":
		in := readReplayInput(*file)
		cases := runAll(p, []json.RawMessage{in})
		if err := WriteCases(p, cases, *out, 1); err != nil {
			fatal("write: %v", err)
		}
	case "shrink":
		in := readReplayInput(*file)
		var cands []json.RawMessage
		if p.Shrink != nil {
			cands = p.Shrink(in)
		}
		cases := runAll(p, cands)
		if err := WriteCases(p, cases, *out, 1); err != nil {
			fatal("write: %v", err)
		}
	default:
		fatal("unknown command %s", cmd)
	}
}
