package hx

// Rand is a splitmix64 generator: every random choice of a run derives from
// one seed, so disagreements replay exactly and independently of the Go version.
type Rand struct{ s uint64 }

// NewRand seeds a generator.
func NewRand(seed uint64) *Rand { return &Rand{s: seed*0x9E3779B97F4A7C15 + 0x1234567} }

// U64 returns the next 64 random bits.
func (r *Rand) U64() uint64 {
	r.s += 0x9E3779B97F4A7C15
	z := r.s
	z = (z ^ (z >> 30)) * 0xBF58476D1CE4E5B9
	z = (z ^ (z >> 27)) * 0x94D049BB133111EB
	return z ^ (z >> 31)
}

// Intn returns a value in [0,n).
func (r *Rand) Intn(n int) int {
	if n <= 0 {
		return 0
	}
	return int(r.U64() % uint64(n))
}

// Range returns a value in [lo,hi].
func (r *Rand) Range(lo, hi int) int { return lo + r.Intn(hi-lo+1) }

// U64n returns a value in [0,n).
func (r *Rand) U64n(n uint64) uint64 {
	if n == 0 {
		return 0
	}
	return r.U64() % n
}

// Bool returns a fair coin.
func (r *Rand) Bool() bool { return r.U64()&1 == 1 }

// Chance returns true with probability num/den.
func (r *Rand) Chance(num, den int) bool { return r.Intn(den) < num }

// Pick returns a random element index for weights.
func (r *Rand) Pick(weights ...int) int {
	t := 0
	for _, w := range weights {
		t += w
	}
	x := r.Intn(t)
	for i, w := range weights {
		if x < w {
			return i
		}
		x -= w
	}
	return len(weights) - 1
}

// Bytes returns n random bytes.
func (r *Rand) Bytes(n int) []byte {
	b := make([]byte, n)
	for i := range b {
		b[i] = byte(r.U64())
	}
	return b
}

// Fork derives an independent generator.
func (r *Rand) Fork() *Rand { return NewRand(r.U64()) }
