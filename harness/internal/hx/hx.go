// Package hx is the shared skeleton of the correspondence harness: a registry
// of per-property generators/runners, one reproducible PRNG, helpers that print
// Coq terms, and the writer of the case files evaluated by coqc.
package hx

import (
	"bufio"
	"crypto/sha256"
	"encoding/hex"
	"encoding/json"
	"fmt"
	"os"
	"path/filepath"
	"sort"
	"strings"
)

// Case is one executed case: the generator-independent input, the projected
// observables of the implementation, and the same data as a Coq term of type
// `case` (defined in the property's Exec.v).
type Case struct {
	Input      json.RawMessage `json:"input"`
	Obs        any             `json:"observed"`
	Coq        string          `json:"coq"`
	Nontrivial bool            `json:"nontrivial"`
	Tags       []string        `json:"tags,omitempty"`
	// Known names the classifier (see known_findings.json) that this INPUT
	// matches, if any. It is computed from the input shape alone.
	Known string `json:"known,omitempty"`
}

// Prop describes the harness side of one property.
type Prop struct {
	ID      string
	Rule    string // how cases are generated and what makes one non-trivial
	Imports string // Coq import line; default: From Akita Require Import Lib.Base <ID>.Exec.
	// Gen returns inputs (JSON). All random choices come from r.
	Gen func(r *Rand, tier string) []json.RawMessage
	// Run executes the implementation on one input.
	Run func(in json.RawMessage) (Case, error)
	// Shrink proposes strictly smaller variants of a failing input (optional).
	Shrink func(in json.RawMessage) []json.RawMessage
}

var registry = map[string]*Prop{}

// Register adds a property to the registry.
func Register(p *Prop) { registry[p.ID] = p }

// Lookup finds a property.
func Lookup(id string) *Prop { return registry[id] }

// IDs lists registered properties.
func IDs() []string {
	out := []string{}
	for k := range registry {
		out = append(out, k)
	}
	sort.Strings(out)
	return out
}

// J marshals v, panicking on failure (inputs are plain data).
func J(v any) json.RawMessage {
	b, err := json.Marshal(v)
	if err != nil {
		panic(err)
	}
	return b
}

// UJ unmarshals strictly.
func UJ(b json.RawMessage, v any) error {
	return json.Unmarshal(b, v)
}

// Try runs f and reports whether it panicked.
func Try(f func()) (panicked bool, msg string) {
	defer func() {
		if r := recover(); r != nil {
			panicked = true
			msg = fmt.Sprint(r)
		}
	}()
	f()
	return
}

// Hash is a short canonical hash of an input.
func Hash(b []byte) string {
	h := sha256.Sum256(b)
	return hex.EncodeToString(h[:8])
}

// WriteCases writes cases.jsonl and sharded cases_<k>.v into dir.
func WriteCases(p *Prop, cases []Case, dir string, shards int) error {
	if err := os.MkdirAll(dir, 0o755); err != nil {
		return err
	}
	old, _ := filepath.Glob(filepath.Join(dir, "cases_*.v*"))
	for _, o := range old {
		os.Remove(o)
	}
	jf, err := os.Create(filepath.Join(dir, "cases.jsonl"))
	if err != nil {
		return err
	}
	jw := bufio.NewWriter(jf)
	for i, c := range cases {
		rec := map[string]any{"index": i, "input": c.Input, "observed": c.Obs,
			"nontrivial": c.Nontrivial, "tags": c.Tags, "known": c.Known,
			"hash": Hash(c.Input)}
		b, err := json.Marshal(rec)
		if err != nil {
			return err
		}
		jw.Write(b)
		jw.WriteByte('\n')
	}
	jw.Flush()
	jf.Close()

	if shards < 1 {
		shards = 1
	}
	if shards > len(cases) {
		shards = len(cases)
	}
	if shards < 1 {
		shards = 1
	}
	imports := p.Imports
	if imports == "" {
		imports = fmt.Sprintf("From Akita Require Import Lib.Base %s.Exec.", p.ID)
	}
	for k := 0; k < shards; k++ {
		f, err := os.Create(filepath.Join(dir, fmt.Sprintf("cases_%d.v", k)))
		if err != nil {
			return err
		}
		w := bufio.NewWriter(f)
		fmt.Fprintln(w, imports)
		fmt.Fprintln(w, "Local Open Scope N_scope.")
		fmt.Fprintln(w, "Definition cases : list (N * case) := [")
		first := true
		for i := k; i < len(cases); i += shards {
			if !first {
				fmt.Fprintln(w, ";")
			}
			first = false
			fmt.Fprintf(w, "(%d, %s)", i, cases[i].Coq)
		}
		fmt.Fprintln(w, "].")
		fmt.Fprintln(w, "Definition mism := Eval vm_compute in bad_cases check_case cases.")
		fmt.Fprintln(w, "Definition pviol := Eval vm_compute in bad_cases holds_on cases.")
		fmt.Fprintln(w, "Set Printing Width 1000000. Set Printing Depth 1000000.")
		fmt.Fprintln(w, "Print mism. Print pviol.")
		w.Flush()
		f.Close()
	}
	return nil
}

// ---------------------------------------------------------------- Coq terms

// N prints a natural number for scope N (the case files open N_scope).
func N(x uint64) string { return fmt.Sprintf("%d", x) }

// Z prints an integer in Z scope.
func Z(x int64) string {
	if x < 0 {
		return fmt.Sprintf("(%d)%%Z", x)
	}
	return fmt.Sprintf("%d%%Z", x)
}

// Nat prints a small nat.
func Nat(x int) string { return fmt.Sprintf("%d%%nat", x) }

// B prints a bool.
func B(b bool) string {
	if b {
		return "true"
	}
	return "false"
}

// L prints a list of already-printed terms.
func L(xs []string) string { return "[" + strings.Join(xs, "; ") + "]" }

// LN prints a list of N.
func LN(xs []uint64) string {
	s := make([]string, len(xs))
	for i, x := range xs {
		s[i] = N(x)
	}
	return L(s)
}

// Bytes prints a byte slice as list N.
func Bytes(bs []byte) string {
	s := make([]string, len(bs))
	for i, x := range bs {
		s[i] = fmt.Sprintf("%d", x)
	}
	return L(s)
}

// T prints a tuple.
func T(xs ...string) string { return "(" + strings.Join(xs, ", ") + ")" }

// Some / None.
func Some(x string) string { return "(Some " + x + ")" }

// None prints None.
func None() string { return "None" }

// App prints a constructor application.
func App(c string, args ...string) string {
	if len(args) == 0 {
		return c
	}
	return "(" + c + " " + strings.Join(args, " ") + ")"
}

// Str prints a Go string as a list of byte values (list N).
func Str(s string) string { return Bytes([]byte(s)) }
