package jm

import (
	"fmt"
	"math"
	"reflect"

	"github.com/sarchlab/akita/v5/mem/vm/lruset"

	"verifharness/internal/hx"
)

var lrusetT = reflect.TypeOf(lruset.Set{})

// reachedSet is an lruset.Set produced by a real history: NewSet, then random Visit /
// Evict / UpdateKey / Remove calls. Evicted ways are re-visited only sometimes, so the set
// may be captured between an Evict and the matching Visit (visit list shorter than the way
// count, possibly empty).
func reachedSet(r *hx.Rand) lruset.Set {
	n := 1 + r.Intn(4)
	s := lruset.NewSet(n)
	keys := make([]string, n)
	for ops := r.Intn(10); ops > 0; ops-- {
		switch r.Pick(3, 4, 3, 1) {
		case 0:
			s.Visit(r.Intn(n))
		case 1:
			if w, ok := s.Evict(); ok {
				k := lruset.KeyString(uint64(r.Intn(3)), uint64(r.Intn(8))<<12)
				s.UpdateKey(w, keys[w], k)
				keys[w] = k
				if r.Chance(1, 2) {
					s.Visit(w)
				}
			}
		case 2:
			w := r.Intn(n)
			k := fmt.Sprintf("k%d", r.Intn(5))
			s.UpdateKey(w, keys[w], k)
			keys[w] = k
		default:
			s.Remove(keys[r.Intn(n)])
		}
	}
	return s
}

// Opts steers the random value generator.
type Opts struct {
	InvalidUTF8 bool // allow strings that are not valid UTF-8
	NilKeyMaps  bool // allow a nil key map inside lruset.Set (UnmarshalJSON turns it into an empty one)
	MaxLen      int  // maximum slice / map / string length (default 3)
}

func (o Opts) maxLen() int {
	if o.MaxLen <= 0 {
		return 3
	}
	return o.MaxLen
}

var sampleStrings = []string{"", "a", "GPU[0].L1", "é", "日本", " ", "<&>", "\"\\\n\t", "\x00\x1f", "😀", "Z"}

func randString(r *hx.Rand, o Opts) string {
	switch r.Pick(5, 3, 1) {
	case 0:
		return sampleStrings[r.Intn(len(sampleStrings))]
	case 1:
		n := r.Intn(o.maxLen() + 3)
		b := make([]rune, n)
		for i := range b {
			switch r.Pick(6, 2, 1, 1) {
			case 0:
				b[i] = rune(32 + r.Intn(95))
			case 1:
				b[i] = rune(0x80 + r.Intn(0x700))
			case 2:
				b[i] = rune(0x800 + r.Intn(0xD000-0x800))
			default:
				b[i] = rune(0x10000 + r.Intn(0x10000))
			}
		}
		return string(b)
	default:
		if o.InvalidUTF8 {
			return string(r.Bytes(1 + r.Intn(5)))
		}
		return "x"
	}
}

func randInt(r *hx.Rand, bits int) int64 {
	lo, hi := int64(-1)<<(bits-1), int64(1)<<(bits-1)-1
	switch r.Pick(3, 1, 1, 3, 2) {
	case 0:
		return 0
	case 1:
		return lo
	case 2:
		return hi
	case 3:
		return int64(r.Intn(200)) - 100
	default:
		return int64(r.U64()) >> (64 - bits)
	}
}

func randUint(r *hx.Rand, bits int) uint64 {
	hi := ^uint64(0) >> (64 - bits)
	switch r.Pick(3, 2, 3, 2) {
	case 0:
		return 0
	case 1:
		return hi
	case 2:
		return uint64(r.Intn(300)) & hi
	default:
		return r.U64() >> (64 - bits)
	}
}

func randFloat(r *hx.Rand, is32 bool) float64 {
	var f float64
	switch r.Pick(3, 3, 2, 2) {
	case 0:
		f = 0
	case 1:
		f = float64(r.Intn(2000)-1000) / 8
	case 2:
		f = math.Float64frombits(r.U64())
	default:
		f = float64(r.Intn(1<<30)) * 1e15
	}
	if math.IsNaN(f) || math.IsInf(f, 0) || (f == 0 && math.Signbit(f)) {
		f = 1.5
	}
	if is32 {
		f = float64(float32(f))
		if math.IsInf(f, 0) || (f == 0 && math.Signbit(f)) {
			f = 2.5 // float32 overflow / underflow to -0: outside the well-formed values
		}
	}
	return f
}

func bitsOf(k reflect.Kind) int {
	switch k {
	case reflect.Int8, reflect.Uint8:
		return 8
	case reflect.Int16, reflect.Uint16:
		return 16
	case reflect.Int32, reflect.Uint32:
		return 32
	}
	return 64
}

// Fill sets the addressable value v to a random value of its type.
func Fill(r *hx.Rand, v reflect.Value, o Opts) { fill(r, v, o, 0) }

func fill(r *hx.Rand, v reflect.Value, o Opts, depth int) {
	t := v.Type()
	if t == lrusetT && r.Chance(3, 4) {
		v.Set(reflect.ValueOf(reachedSet(r)))
		return
	}
	if t.Kind() == reflect.Struct {
		if c := knownCustom(t); c != nil && t.Implements(marshalerT) {
			for _, df := range c.fields {
				f := fieldByName(v, df.priv)
				fill(r, f, o, depth+1)
				if f.Kind() == reflect.Map && f.IsNil() && !o.NilKeyMaps {
					f.Set(reflect.MakeMap(f.Type()))
				}
			}
			return
		}
	}
	n := o.maxLen()
	if depth > 3 {
		n = 1
	}
	switch t.Kind() {
	case reflect.Bool:
		v.SetBool(r.Bool())
	case reflect.Int, reflect.Int8, reflect.Int16, reflect.Int32, reflect.Int64:
		v.SetInt(randInt(r, bitsOf(t.Kind())))
	case reflect.Uint, reflect.Uint8, reflect.Uint16, reflect.Uint32, reflect.Uint64:
		v.SetUint(randUint(r, bitsOf(t.Kind())))
	case reflect.Float32:
		v.SetFloat(randFloat(r, true))
	case reflect.Float64:
		v.SetFloat(randFloat(r, false))
	case reflect.String:
		v.SetString(randString(r, o))
	case reflect.Slice:
		switch r.Pick(2, 2, 5) {
		case 0: // nil
			v.Set(reflect.Zero(t))
		case 1: // empty, non-nil
			v.Set(reflect.MakeSlice(t, 0, 0))
		default:
			k := 1 + r.Intn(n)
			s := reflect.MakeSlice(t, k, k)
			for i := 0; i < k; i++ {
				fill(r, s.Index(i), o, depth+1)
			}
			v.Set(s)
		}
	case reflect.Array:
		for i := 0; i < v.Len(); i++ {
			fill(r, v.Index(i), o, depth+1)
		}
	case reflect.Map:
		switch r.Pick(2, 2, 5) {
		case 0:
			v.Set(reflect.Zero(t))
		case 1:
			v.Set(reflect.MakeMap(t))
		default:
			m := reflect.MakeMap(t)
			k := 1 + r.Intn(n)
			for i := 0; i < k; i++ {
				key := reflect.New(t.Key()).Elem()
				fill(r, key, Opts{MaxLen: o.MaxLen}, depth+1)
				val := reflect.New(t.Elem()).Elem()
				fill(r, val, o, depth+1)
				m.SetMapIndex(key, val)
			}
			v.Set(m)
		}
	case reflect.Struct:
		for i := 0; i < t.NumField(); i++ {
			if ParseField(t.Field(i)).Skip {
				continue
			}
			fill(r, field(v, i), o, depth+1)
		}
	}
	// pointers, interfaces, channels, functions stay nil
}

// Rand returns an addressable random value of type t.
func Rand(r *hx.Rand, t reflect.Type, o Opts) reflect.Value {
	v := reflect.New(t).Elem()
	Fill(r, v, o)
	return v
}
