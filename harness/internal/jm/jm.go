// Package jm is the Go side of coq/theories/Lib/Json.v: it turns reflect.Types into
// `ty` descriptors, reflect.Values into `value` terms and JSON documents into `json`
// terms, and generates random values of arbitrary types. Everything is derived by
// reflection from the real types; nothing is copied by hand except the DTO shapes of
// the three custom marshalers (queueing.Buffer, queueing.Pipeline, lruset.Set).
package jm

import (
	"bytes"
	"encoding"
	"encoding/json"
	"fmt"
	"io"
	"reflect"
	"sort"
	"strings"
	"unicode"
	"unsafe"

	"verifharness/internal/hx"
)

var (
	marshalerT       = reflect.TypeOf((*json.Marshaler)(nil)).Elem()
	unmarshalerT     = reflect.TypeOf((*json.Unmarshaler)(nil)).Elem()
	textMarshalerT   = reflect.TypeOf((*encoding.TextMarshaler)(nil)).Elem()
	textUnmarshalerT = reflect.TypeOf((*encoding.TextUnmarshaler)(nil)).Elem()
)

const akita = "github.com/sarchlab/akita/v5/"

// dtoField maps a private field of a custom-marshaler struct to its DTO field.
type dtoField struct{ priv, goName, jsonName string }

type custom struct {
	fields  []dtoField
	fixmaps []int
}

// knownCustom returns the hand model of a custom marshaler (its DTO), if t is one of
// the three library containers.
func knownCustom(t reflect.Type) *custom {
	if t.Kind() != reflect.Struct {
		return nil
	}
	name := t.Name()
	switch {
	case t.PkgPath() == akita+"queueing" && strings.HasPrefix(name, "Buffer["):
		return &custom{fields: []dtoField{{"name", "Name", "name"}, {"cap", "Cap", "cap"},
			{"elements", "Elements", "elements"}}}
	case t.PkgPath() == akita+"queueing" && strings.HasPrefix(name, "Pipeline["):
		return &custom{fields: []dtoField{{"width", "Width", "width"},
			{"numStages", "NumStages", "num_stages"}, {"stages", "Stages", "stages"}}}
	case t.PkgPath() == akita+"mem/vm/lruset" && name == "Set":
		return &custom{fields: []dtoField{{"wayCount", "WayCount", "way_count"},
			{"visitList", "VisitList", "visit_list"}, {"visitCount", "VisitCount", "visit_count"},
			{"lastVisits", "LastVisits", "last_visits"}, {"keyMap", "KeyMap", "key_map"}},
			fixmaps: []int{4}}
	}
	return nil
}

// jsonMethods reports which JSON customisation a type carries.
func jsonMethods(t reflect.Type) (valMarshal, anyMarshal, anyUnmarshal bool) {
	pt := reflect.PointerTo(t)
	valMarshal = t.Implements(marshalerT)
	anyMarshal = valMarshal || pt.Implements(marshalerT) ||
		t.Implements(textMarshalerT) || pt.Implements(textMarshalerT)
	anyUnmarshal = pt.Implements(unmarshalerT) || pt.Implements(textUnmarshalerT)
	return
}

func ikind(k reflect.Kind) string {
	switch k {
	case reflect.Int8:
		return "I8"
	case reflect.Int16:
		return "I16"
	case reflect.Int32:
		return "I32"
	case reflect.Int, reflect.Int64:
		return "I64"
	case reflect.Uint8:
		return "U8"
	case reflect.Uint16:
		return "U16"
	case reflect.Uint32:
		return "U32"
	case reflect.Uint, reflect.Uint64:
		return "U64"
	}
	return ""
}

func isValidTag(s string) bool {
	if s == "" {
		return false
	}
	for _, c := range s {
		switch {
		case strings.ContainsRune("!#$%&()*+-./:;<=>?@[]^_{|}~ ", c):
		case !unicode.IsLetter(c) && !unicode.IsDigit(c):
			return false
		}
	}
	return true
}

// FieldInfo is the parsed json tag of a struct field.
type FieldInfo struct {
	Skip, OmitEmpty, Quoted, OmitZero bool
	TagName                           string
}

// ParseField parses the json tag the way encoding/json does.
func ParseField(sf reflect.StructField) FieldInfo {
	tag := sf.Tag.Get("json")
	if tag == "-" {
		return FieldInfo{Skip: true}
	}
	name, opts, _ := strings.Cut(tag, ",")
	fi := FieldInfo{}
	if isValidTag(name) {
		fi.TagName = name
	}
	for _, o := range strings.Split(opts, ",") {
		switch o {
		case "omitempty":
			fi.OmitEmpty = true
		case "omitzero":
			fi.OmitZero = true
		case "string":
			ft := sf.Type
			if ft.Kind() == reflect.Pointer {
				ft = ft.Elem()
			}
			switch ft.Kind() {
			case reflect.Bool, reflect.Int, reflect.Int8, reflect.Int16, reflect.Int32, reflect.Int64,
				reflect.Uint, reflect.Uint8, reflect.Uint16, reflect.Uint32, reflect.Uint64, reflect.Uintptr,
				reflect.Float32, reflect.Float64, reflect.String:
				fi.Quoted = true
			}
		}
	}
	return fi
}

// BS prints a byte string: as a Coq string literal when it is printable ASCII.
func BS(s string) string {
	for i := 0; i < len(s); i++ {
		if s[i] < 0x20 || s[i] > 0x7e || s[i] == '"' {
			return hx.Str(s)
		}
	}
	return `(bs "` + s + `")`
}

func optBytes(s string) string {
	if s == "" {
		return "None"
	}
	return hx.Some(BS(s))
}

func nats(xs []int) string {
	s := make([]string, len(xs))
	for i, x := range xs {
		s[i] = hx.Nat(x)
	}
	return hx.L(s)
}

func finfoTerm(goName string, exported, embedded bool, fi FieldInfo) string {
	return hx.App("mkF", BS(goName), hx.B(exported), hx.B(embedded), optBytes(fi.TagName),
		hx.B(fi.Skip), hx.B(fi.OmitEmpty), hx.B(fi.Quoted), hx.B(fi.OmitZero))
}

// TypeTerm prints the Coq `ty` descriptor of t.
func TypeTerm(t reflect.Type) string { return typeTerm(t, map[reflect.Type]bool{}) }

func typeTerm(t reflect.Type, busy map[reflect.Type]bool) string {
	if busy[t] {
		return "(TOther KOther)" // recursive type: not describable as a finite tree
	}
	valM, anyM, anyU := jsonMethods(t)
	if t.Kind() == reflect.Struct && valM {
		busy[t] = true
		defer delete(busy, t)
		if c := knownCustom(t); c != nil {
			var fs []string
			for _, df := range c.fields {
				sf, ok := t.FieldByName(df.priv)
				if !ok {
					return "(TOther KOther)"
				}
				fs = append(fs, hx.T(finfoTerm(df.goName, true, false, FieldInfo{TagName: df.jsonName}),
					typeTerm(sf.Type, busy)))
			}
			return hx.App("TCustom", hx.App("mkC", hx.B(anyU), "true", nats(c.fixmaps)),
				hx.App("TStruct", hx.L(fs)))
		}
		return hx.App("TCustom", hx.App("mkC", hx.B(anyU), "false", "[]"), plainTerm(t, busy))
	}
	if anyM || anyU {
		return hx.App("TOpaque", plainTerm(t, busy))
	}
	return plainTerm(t, busy)
}

func plainTerm(t reflect.Type, busy map[reflect.Type]bool) string {
	switch t.Kind() {
	case reflect.Bool:
		return "TBool"
	case reflect.Int, reflect.Int8, reflect.Int16, reflect.Int32, reflect.Int64,
		reflect.Uint, reflect.Uint8, reflect.Uint16, reflect.Uint32, reflect.Uint64:
		return hx.App("TInt", ikind(t.Kind()))
	case reflect.Float32:
		return "(TFloat true)"
	case reflect.Float64:
		return "(TFloat false)"
	case reflect.String:
		return "TString"
	case reflect.Slice:
		return hx.App("TSlice", typeTerm(t.Elem(), busy))
	case reflect.Array:
		return hx.App("TArray", hx.N(uint64(t.Len())), typeTerm(t.Elem(), busy))
	case reflect.Map:
		key := "MKBad"
		kt := t.Key()
		_, km, ku := jsonMethods(kt)
		switch {
		case km || ku:
		case kt.Kind() == reflect.String:
			key = "MKStr"
		case ikind(kt.Kind()) != "":
			key = hx.App("MKInt", ikind(kt.Kind()))
		}
		return hx.App("TMap", key, typeTerm(t.Elem(), busy))
	case reflect.Struct:
		busy[t] = true
		defer delete(busy, t)
		var fs []string
		for i := 0; i < t.NumField(); i++ {
			sf := t.Field(i)
			fs = append(fs, hx.T(finfoTerm(sf.Name, sf.PkgPath == "", sf.Anonymous, ParseField(sf)),
				typeTerm(sf.Type, busy)))
		}
		return hx.App("TStruct", hx.L(fs))
	case reflect.Pointer:
		return "(TOther KPtr)"
	case reflect.Interface:
		return "(TOther KIface)"
	case reflect.Chan:
		return "(TOther KChan)"
	case reflect.Func:
		return "(TOther KFunc)"
	}
	return "(TOther KOther)"
}

// field returns an addressable, readable and settable view of field i of the
// addressable struct v, even when the field is unexported.
func field(v reflect.Value, i int) reflect.Value {
	f := v.Field(i)
	return reflect.NewAt(f.Type(), unsafe.Pointer(f.UnsafeAddr())).Elem()
}

// Field is the exported form of field.
func Field(v reflect.Value, i int) reflect.Value { return field(v, i) }

func fieldByName(v reflect.Value, name string) reflect.Value {
	sf, _ := v.Type().FieldByName(name)
	return field(v, sf.Index[0])
}

// Addressable returns an addressable copy of v.
func Addressable(v reflect.Value) reflect.Value {
	p := reflect.New(v.Type())
	p.Elem().Set(v)
	return p.Elem()
}

// FloatToken is the canonical JSON text of a float, printed by the real encoder.
func FloatToken(v reflect.Value) string {
	var b []byte
	var err error
	if v.Kind() == reflect.Float32 {
		b, err = json.Marshal(float32(v.Float()))
	} else {
		b, err = json.Marshal(v.Float())
	}
	if err != nil {
		return ""
	}
	return string(b)
}

// ValueTerm prints the Coq `value` of v (which must be addressable if it contains
// structs with unexported fields; use Addressable).
func ValueTerm(v reflect.Value) string { return valueTerm(v, map[reflect.Type]bool{}) }

func valueTerm(v reflect.Value, busy map[reflect.Type]bool) string {
	t := v.Type()
	if busy[t] {
		return "VOther"
	}
	valM, anyM, anyU := jsonMethods(t)
	if t.Kind() == reflect.Struct && valM {
		if c := knownCustom(t); c != nil {
			if !v.CanAddr() {
				v = Addressable(v)
			}
			var fs []string
			for _, df := range c.fields {
				fs = append(fs, valueTerm(fieldByName(v, df.priv), busy))
			}
			return hx.App("VCustom", hx.App("VStruct", hx.L(fs)))
		}
		return hx.App("VCustom", plainValue(v, busy))
	}
	if anyM || anyU {
		return "VOther"
	}
	return plainValue(v, busy)
}

func keyText(k reflect.Value) string {
	switch k.Kind() {
	case reflect.String:
		return k.String()
	case reflect.Int, reflect.Int8, reflect.Int16, reflect.Int32, reflect.Int64:
		return fmt.Sprintf("%d", k.Int())
	case reflect.Uint, reflect.Uint8, reflect.Uint16, reflect.Uint32, reflect.Uint64:
		return fmt.Sprintf("%d", k.Uint())
	}
	return ""
}

func zterm(s string) string {
	if strings.HasPrefix(s, "-") {
		return "(" + s + ")%Z"
	}
	return s + "%Z"
}

func plainValue(v reflect.Value, busy map[reflect.Type]bool) string {
	t := v.Type()
	switch t.Kind() {
	case reflect.Bool:
		return hx.App("VBool", hx.B(v.Bool()))
	case reflect.Int, reflect.Int8, reflect.Int16, reflect.Int32, reflect.Int64:
		return hx.App("VInt", hx.Z(v.Int()))
	case reflect.Uint, reflect.Uint8, reflect.Uint16, reflect.Uint32, reflect.Uint64:
		return hx.App("VInt", zterm(fmt.Sprintf("%d", v.Uint())))
	case reflect.Float32, reflect.Float64:
		return hx.App("VFloat", hx.Str(FloatToken(v)))
	case reflect.String:
		return hx.App("VStr", hx.Str(v.String()))
	case reflect.Slice:
		if v.IsNil() {
			return "(VSlice None)"
		}
		xs := make([]string, v.Len())
		for i := range xs {
			xs[i] = valueTerm(v.Index(i), busy)
		}
		return hx.App("VSlice", hx.Some(hx.L(xs)))
	case reflect.Array:
		xs := make([]string, v.Len())
		for i := range xs {
			xs[i] = valueTerm(v.Index(i), busy)
		}
		return hx.App("VArr", hx.L(xs))
	case reflect.Map:
		if v.IsNil() {
			return "(VMap None)"
		}
		type kv struct {
			text string
			term string
		}
		var kvs []kv
		it := v.MapRange()
		for it.Next() {
			k := it.Key()
			var kt string
			switch {
			case k.Kind() == reflect.String:
				kt = hx.App("KS", hx.Str(k.String()))
			case keyText(k) != "":
				kt = hx.App("KI", zterm(keyText(k)))
			default: // a key kind encoding/json cannot use: only a placeholder
				kt = hx.App("KS", hx.Str(fmt.Sprint(k.Interface())))
			}
			kvs = append(kvs, kv{keyText(k), hx.T(kt, valueTerm(Addressable(it.Value()), busy))})
		}
		sort.Slice(kvs, func(i, j int) bool { return kvs[i].text < kvs[j].text })
		xs := make([]string, len(kvs))
		for i := range kvs {
			xs[i] = kvs[i].term
		}
		return hx.App("VMap", hx.Some(hx.L(xs)))
	case reflect.Struct:
		if !v.CanAddr() {
			v = Addressable(v)
		}
		busy[t] = true
		defer delete(busy, t)
		xs := make([]string, t.NumField())
		for i := range xs {
			if ParseField(t.Field(i)).Skip {
				xs[i] = "VSkip"
				continue
			}
			xs[i] = valueTerm(field(v, i), busy)
		}
		return hx.App("VStruct", hx.L(xs))
	}
	return "VOther"
}

// JSONTerm parses a JSON document generically (member order and number text kept) and
// prints it as a Coq `json` term.
func JSONTerm(doc []byte) (string, error) {
	d := json.NewDecoder(bytes.NewReader(doc))
	d.UseNumber()
	s, err := jsonValue(d)
	if err != nil {
		return "", err
	}
	if _, err := d.Token(); err != io.EOF {
		return "", fmt.Errorf("trailing data")
	}
	return s, nil
}

func jsonValue(d *json.Decoder) (string, error) {
	tok, err := d.Token()
	if err != nil {
		return "", err
	}
	switch x := tok.(type) {
	case nil:
		return "JNull", nil
	case bool:
		return hx.App("JBool", hx.B(x)), nil
	case json.Number:
		return hx.App("JNum", hx.Str(string(x))), nil
	case string:
		return hx.App("JStr", hx.Str(x)), nil
	case json.Delim:
		switch x {
		case '[':
			var xs []string
			for d.More() {
				s, err := jsonValue(d)
				if err != nil {
					return "", err
				}
				xs = append(xs, s)
			}
			if _, err := d.Token(); err != nil {
				return "", err
			}
			return hx.App("JArr", hx.L(xs)), nil
		case '{':
			var xs []string
			for d.More() {
				k, err := d.Token()
				if err != nil {
					return "", err
				}
				ks, ok := k.(string)
				if !ok {
					return "", fmt.Errorf("non-string key")
				}
				s, err := jsonValue(d)
				if err != nil {
					return "", err
				}
				xs = append(xs, hx.T(hx.Str(ks), s))
			}
			if _, err := d.Token(); err != nil {
				return "", err
			}
			return hx.App("JObj", hx.L(xs)), nil
		}
	}
	return "", fmt.Errorf("unexpected token %v", tok)
}

// OptTerm prints `Some t` / `None`.
func OptTerm(ok bool, t string) string {
	if !ok {
		return "None"
	}
	return hx.Some(t)
}
