// Package c17 ties the Coq model of the write-back flusher (block selection,
// finalisation) to the implementation on directory snapshots (through the
// verif hook) and runs the end-to-end differential: random workload, then
// Drain + Flush through the real control protocol, then the backing Storage
// is read directly and compared (in Coq) with the reference memory.
package c17

import (
	"encoding/json"
	"fmt"
	"sort"

	"github.com/sarchlab/akita/v5/mem/cache"
	"github.com/sarchlab/akita/v5/mem/cache/writeback"

	"verifharness/internal/c16"
	"verifharness/internal/hx"
	"verifharness/internal/memasm"
)

type input struct {
	Kind string `json:"kind"` // sel | e2e
	// sel
	Dir   *cache.DirectoryState `json:"dir,omitempty"`
	BS    uint64                `json:"bs,omitempty"`
	Addrs []uint64              `json:"addrs,omitempty"`
	PID   uint32                `json:"pid,omitempty"`
	// e2e
	Cfg *memasm.Config `json:"cfg,omitempty"`
	// seq: flush requests processed one after the other on one flusher
	Steps []seqStep `json:"steps,omitempty"`
}

type seqStep struct {
	Redirty [][2]int `json:"redirty,omitempty"`
	Addrs   []uint64 `json:"addrs,omitempty"`
	PID     uint32   `json:"pid,omitempty"`
}

type obs struct {
	Panicked bool   `json:"panicked,omitempty"`
	Msg      string `json:"msg,omitempty"`
	Selected int    `json:"selected"`
	Fin      bool   `json:"finalized,omitempty"`
	CtrlOK   bool   `json:"ctrl_ok,omitempty"`
	Checks   int    `json:"checks,omitempty"`
	Flushes  int    `json:"flushes,omitempty"`
	Pending  int    `json:"pending,omitempty"`
}

func log2(x uint64) uint64 {
	n := uint64(0)
	for (uint64(1) << n) < x {
		n++
	}
	return n
}

func runSel(in input) (hx.Case, error) {
	cc := memasm.CacheCfg{Kind: "writeback", Log2Block: log2(in.BS), Ways: 2, Sets: 2, Banks: 1, MSHR: 2, ReqPerCycle: 1,
		BankLatency: 1, DirLatency: 1, PortBuf: 4}
	a := memasm.Build(memasm.Config{Caches: []memasm.CacheCfg{cc}, Mem: memasm.MemCfg{Kind: "ideal", NumModules: 1, Latency: 1}})
	o := obs{}
	var sel []writeback.VerifBlockRef
	var after cache.DirectoryState
	d := memasm.CopyDir(*in.Dir)
	o.Panicked, o.Msg = hx.Try(func() {
		sel, o.Fin, after = writeback.VerifFlushKernel(a.WB[0], d, in.Addrs, in.PID)
	})
	o.Selected = len(sel)
	selT := hx.None()
	afterT := "[]"
	if !o.Panicked {
		xs := make([]string, len(sel))
		for i, r := range sel {
			xs[i] = hx.T(hx.Z(int64(r.SetID)), hx.Z(int64(r.WayID)))
		}
		selT = hx.Some(hx.L(xs))
		afterT = memasm.CoqDir(after, true)
	}
	c := hx.Case{Obs: o}
	c.Coq = hx.App("KSel", hx.N(in.BS), hx.LN(in.Addrs), hx.N(uint64(in.PID)), memasm.CoqDir(*in.Dir, true), selT, hx.B(o.Fin), afterT)
	switch {
	case len(in.Addrs) == 0 && in.PID == 0:
		c.Tags = append(c.Tags, "filter:empty")
	case len(in.Addrs) > 0 && in.PID != 0:
		c.Tags = append(c.Tags, "filter:addr+pid")
	case len(in.Addrs) > 0:
		c.Tags = append(c.Tags, "filter:addr")
	default:
		c.Tags = append(c.Tags, "filter:pid")
	}
	if o.Panicked {
		c.Tags = append(c.Tags, "sel:panic-busy-block")
	}
	c.Nontrivial = !o.Panicked && len(sel) > 0
	return c, nil
}

func coqFlush(s0, s1 memasm.DirSnapshot, addrs []uint64, pid uint32) string {
	return hx.App("Fl", hx.N(uint64(s0.NumSets)), hx.N(uint64(s0.Ways)), hx.N(uint64(s0.BlockSize)),
		hx.LN(addrs), hx.N(uint64(pid)), memasm.CoqDir(s0.Dir, true), memasm.CoqDir(s1.Dir, true))
}

func filterTag(addrs []uint64, pid uint32) string {
	switch {
	case len(addrs) == 0 && pid == 0:
		return "filter:empty"
	case len(addrs) > 0 && pid != 0:
		return "filter:addr+pid"
	case len(addrs) > 0:
		return "filter:addr"
	}
	return "filter:pid"
}

// runE2E executes the script phase by phase: everything up to a flush op is
// run to quiescence (the directory of the target is then snapshotted), then
// the flush itself; after a flush of the LOWEST write-back level the written
// lines are read directly from the backing Storage.
func runE2E(in input) (hx.Case, error) {
	cfg := *in.Cfg
	script := cfg.Script
	cfg.Script = nil
	a := memasm.Build(cfg)
	lowestWB := -1
	for i, cc := range cfg.Caches {
		if cc.Kind == "writeback" {
			lowestWB = i
		}
	}
	o := obs{CtrlOK: true}
	var fls []string
	var tags []string
	nsel, nchecks := 0, 0
	writtenLines := func() ([]uint64, map[uint64]uint32) {
		acked := map[uint64]bool{}
		for _, e := range a.Agent.Log {
			if e.Kind == "recv" && e.Op == "A" {
				acked[e.RspTo] = true
			}
		}
		lines := map[uint64]uint32{}
		for _, e := range a.Agent.Log {
			if e.Kind == "send" && e.Op == "W" && acked[e.ID] {
				lines[e.Addr/64*64] = e.PID
			}
		}
		var keys []uint64
		for k := range lines {
			keys = append(keys, k)
		}
		sort.Slice(keys, func(i, j int) bool { return keys[i] < keys[j] })
		return keys, lines
	}
	dataEvents := func() int {
		n := 0
		for _, e := range a.Agent.Log {
			if e.Kind == "send" || e.Kind == "recv" {
				n++
			}
		}
		return n
	}
	o.Panicked, o.Msg = hx.Try(func() {
		var buf []memasm.Op
		for _, op := range script {
			if !(op.Kind == "C" && op.Cmd == "flush") {
				buf = append(buf, op)
				continue
			}
			a.AppendScript(buf...)
			buf = nil
			a.Run()
			var lvl int
			fmt.Sscanf(op.Target, "L%d", &lvl)
			before := a.Dirs()[lvl]
			a.AppendScript(op)
			a.Run()
			after := a.Dirs()[lvl]
			for _, set := range before.Dir.Sets {
				for _, b := range set.Blocks {
					if b.IsValid && b.IsDirty {
						nsel++
					}
				}
			}
			var checks []string
			if lvl == lowestWB {
				keys, lines := writtenLines()
				for _, k := range keys {
					checks = append(checks, hx.T(hx.N(k), hx.N(uint64(lines[k])), hx.Bytes(a.BackingRead(k, 64))))
				}
			}
			nchecks += len(checks)
			fls = append(fls, hx.T(coqFlush(before, after, op.Addrs, op.FPID), hx.Nat(dataEvents()), hx.L(checks)))
			tags = append(tags, filterTag(op.Addrs, op.FPID))
		}
		a.AppendScript(buf...)
		a.Run()
	})
	if o.Panicked {
		return hx.Case{}, fmt.Errorf("e2e run panicked: %s", o.Msg)
	}
	nc := 0
	for _, e := range a.Agent.Log {
		if e.Kind == "csend" {
			nc++
		}
		if e.Kind == "crecv" {
			nc--
			if !e.Ok {
				o.CtrlOK = false
			}
		}
	}
	if nc != 0 || a.Pending() != 0 {
		o.CtrlOK = false
	}
	o.Pending = a.Pending()
	o.Flushes = len(fls)
	o.Checks = nchecks
	o.Selected = nsel
	c := hx.Case{Obs: o}
	c.Coq = hx.App("E2E", c16.CoqTrace(a.Agent.Log), hx.L(fls), hx.B(o.CtrlOK))
	for _, cc := range cfg.Caches {
		c.Tags = append(c.Tags, "e2e:"+cc.Kind)
	}
	c.Tags = append(c.Tags, "e2e:mem-"+cfg.Mem.Kind, fmt.Sprintf("e2e:flushes-%d", len(fls)))
	c.Tags = append(c.Tags, tags...)
	// non-trivial: some dirty line existed at a flush and some written line is checked
	c.Nontrivial = nsel > 0 && nchecks > 0
	return c, nil
}

func runSeq(in input) (hx.Case, error) {
	cc := memasm.CacheCfg{Kind: "writeback", Log2Block: log2(in.BS), Ways: 2, Sets: 2, Banks: 1, MSHR: 2, ReqPerCycle: 1,
		BankLatency: 1, DirLatency: 1, PortBuf: 4}
	a := memasm.Build(memasm.Config{Caches: []memasm.CacheCfg{cc}, Mem: memasm.MemCfg{Kind: "ideal", NumModules: 1, Latency: 1}})
	steps := make([]writeback.VerifFlushStep, len(in.Steps))
	stepT := make([]string, len(in.Steps))
	for i, st := range in.Steps {
		steps[i] = writeback.VerifFlushStep{Addrs: st.Addrs, PID: st.PID}
		rd := make([]string, len(st.Redirty))
		for k, r := range st.Redirty {
			steps[i].Redirty = append(steps[i].Redirty, writeback.VerifBlockRef{SetID: r[0], WayID: r[1]})
			rd[k] = hx.T(hx.Z(int64(r[0])), hx.Z(int64(r[1])))
		}
		stepT[i] = hx.T(hx.L(rd), hx.LN(st.Addrs), hx.N(uint64(st.PID)))
	}
	var res []writeback.VerifFlushResult
	o := obs{}
	o.Panicked, o.Msg = hx.Try(func() { res = writeback.VerifFlushSequence(a.WB[0], memasm.CopyDir(*in.Dir), steps) })
	if o.Panicked {
		return hx.Case{}, fmt.Errorf("flush sequence panicked: %s", o.Msg)
	}
	obsT := make([]string, len(res))
	for i, r := range res {
		xs := make([]string, len(r.Selected))
		for k, x := range r.Selected {
			xs[k] = hx.T(hx.Z(int64(x.SetID)), hx.Z(int64(x.WayID)))
		}
		o.Selected += len(r.Selected)
		obsT[i] = hx.T(hx.L(xs), hx.B(r.Finalized), memasm.CoqDir(r.After, true))
	}
	c := hx.Case{Obs: o}
	c.Coq = hx.App("KSeq", hx.N(in.BS), memasm.CoqDir(*in.Dir, true), hx.L(stepT), hx.L(obsT))
	c.Tags = []string{fmt.Sprintf("seq:flushes-%d", len(in.Steps))}
	for _, st := range in.Steps {
		c.Tags = append(c.Tags, filterTag(st.Addrs, st.PID))
	}
	c.Nontrivial = o.Selected > 0 && len(in.Steps) >= 2
	return c, nil
}

func run(raw json.RawMessage) (hx.Case, error) {
	var in input
	if err := hx.UJ(raw, &in); err != nil {
		return hx.Case{}, err
	}
	switch in.Kind {
	case "sel":
		return runSel(in)
	case "e2e":
		return runE2E(in)
	case "seq":
		return runSeq(in)
	}
	return hx.Case{}, fmt.Errorf("unknown kind %q", in.Kind)
}

func gen(r *hx.Rand, tier string) []json.RawMessage {
	nsel, ne2e, nops := 150, 70, 60
	if tier == "thorough" {
		nsel, ne2e, nops = 1500, 500, 100
	}
	var out []json.RawMessage
	add := func(in input) { out = append(out, hx.J(in)) }
	for i := 0; i < nsel; i++ {
		ns, ways := 1+r.Intn(4), 1+r.Intn(4)
		bs := []int{16, 32, 64}[r.Intn(3)]
		d := memasm.RandomDir(r, ns, ways, bs, false)
		busyOK := r.Chance(1, 8)
		var tags []uint64
		for si := range d.Sets {
			for wi := range d.Sets[si].Blocks {
				b := &d.Sets[si].Blocks[wi]
				if !busyOK {
					b.IsLocked, b.ReadCount = false, 0
				}
				if r.Chance(2, 3) {
					b.IsDirty = b.IsValid || r.Chance(1, 4)
				}
				tags = append(tags, b.Tag)
			}
		}
		in := input{Kind: "sel", Dir: &d, BS: uint64(bs)}
		switch i % 4 {
		case 1, 3:
			for k := 0; k < 1+r.Intn(3); k++ {
				a := tags[r.Intn(len(tags))]
				if r.Bool() {
					a += r.U64n(uint64(bs)) // unaligned: aligned down by the flusher
				}
				if r.Chance(1, 6) {
					a = r.U64n(4096)
				}
				in.Addrs = append(in.Addrs, a)
			}
		}
		if i%4 >= 2 {
			in.PID = uint32(1 + r.Intn(2))
		}
		add(in)
	}
	for i := 0; i < ne2e; i++ {
		var cfg memasm.Config
		o := memasm.GenOpts{NOps: nops/2 + r.Intn(nops), PIDs: i % 3, MemKinds: []string{"ideal", "ideal", "banked", "dram"}}
		filtered := i%2 == 0
		if filtered {
			o.MinCaches, o.MaxCaches, o.TopKind = 1, 1, "writeback"
		} else {
			o.MinCaches, o.MaxCaches = 2, 2
			if r.Bool() {
				o.TopKind = "writeback"
			}
		}
		cfg = memasm.RandomConfig(r, o)
		hasWB := false
		for _, cc := range cfg.Caches {
			hasWB = hasWB || cc.Kind == "writeback"
		}
		if !hasWB {
			cfg.Caches[1].Kind = "writeback"
			cfg.Caches[1] = memasm.RandomCache(r, "writeback", cfg.Caches[1].Log2Block)
		}
		// rounds: a slice of the workload, then Drain + Flush of every write-back level top-down,
		// then Enable; later rounds re-dirty lines flushed earlier (same line pool). Filters are
		// random in the single-level configurations; the last round always flushes everything.
		var lines []uint64
		for _, op := range cfg.Script {
			lines = append(lines, op.Addr)
		}
		data := cfg.Script
		rounds := 1 + r.Intn(4)
		if i%5 == 0 {
			rounds = 1
		}
		var script []memasm.Op
		quiet := i%3 != 2
		per := len(data)/rounds + 1
		for rd := 0; rd < rounds; rd++ {
			lo, hi := rd*per, (rd+1)*per
			if hi > len(data) {
				hi = len(data)
			}
			if lo < hi {
				script = append(script, data[lo:hi]...)
			}
			var drained []string
			for li, cc := range cfg.Caches {
				if cc.Kind != "writeback" {
					continue
				}
				tgt := fmt.Sprintf("L%d", li)
				fl := memasm.Op{Kind: "C", Cmd: "flush", Target: tgt, Barrier: true}
				if filtered && rd < rounds-1 {
					switch r.Intn(4) {
					case 1, 3:
						for k := 0; k < 1+r.Intn(4); k++ {
							fl.Addrs = append(fl.Addrs, lines[r.Intn(len(lines))])
						}
					}
					if r.Intn(4) >= 2 && o.PIDs > 0 {
						fl.FPID = uint32(1 + r.Intn(o.PIDs))
					}
				}
				// quiet: Drain/Flush/Enable at barriers; otherwise all three are issued among live
				// traffic (requests stuck above the draining cache are answered after Enable)
				fl.Barrier = quiet
				script = append(script, memasm.Op{Kind: "C", Cmd: "drain", Target: tgt, Barrier: quiet}, fl)
				drained = append(drained, tgt)
			}
			for _, tgt := range drained {
				script = append(script, memasm.Op{Kind: "C", Cmd: "enable", Target: tgt, Barrier: quiet})
			}
		}
		cfg.Script = script
		add(input{Kind: "e2e", Cfg: &cfg})
	}
	// sequences of flush requests on one flusher (state carried between requests)
	nseq := nsel / 3
	for i := 0; i < nseq; i++ {
		ns, ways := 1+r.Intn(3), 1+r.Intn(4)
		bs := []int{16, 32, 64}[r.Intn(3)]
		d := memasm.RandomDir(r, ns, ways, bs, false)
		var tags []uint64
		for si := range d.Sets {
			for wi := range d.Sets[si].Blocks {
				b := &d.Sets[si].Blocks[wi]
				b.IsLocked, b.ReadCount = false, 0
				b.IsDirty = b.IsValid && r.Chance(2, 3)
				tags = append(tags, b.Tag)
			}
		}
		in := input{Kind: "seq", Dir: &d, BS: uint64(bs)}
		for k := 0; k < 2+r.Intn(3); k++ {
			var st seqStep
			if k > 0 {
				for q := 0; q < 1+r.Intn(3); q++ {
					st.Redirty = append(st.Redirty, [2]int{r.Intn(ns), r.Intn(ways)})
				}
			}
			switch r.Intn(4) {
			case 1, 3:
				for q := 0; q < 1+r.Intn(3); q++ {
					st.Addrs = append(st.Addrs, tags[r.Intn(len(tags))]+r.U64n(uint64(bs)))
				}
			}
			if r.Intn(4) >= 2 {
				st.PID = uint32(1 + r.Intn(2))
			}
			in.Steps = append(in.Steps, st)
		}
		add(in)
	}
	return out
}

func shrink(raw json.RawMessage) []json.RawMessage {
	var in input
	if hx.UJ(raw, &in) != nil || in.Kind != "e2e" {
		return nil
	}
	var out []json.RawMessage
	var dataIdx []int
	for i, op := range in.Cfg.Script {
		if op.Kind != "C" {
			dataIdx = append(dataIdx, i)
		}
	}
	n := len(dataIdx)
	for _, chunk := range []int{n / 2, n / 4, n / 8, 2, 1} {
		if chunk < 1 {
			continue
		}
		for i := 0; i+chunk <= n; i += chunk {
			drop := map[int]bool{}
			for _, k := range dataIdx[i : i+chunk] {
				drop[k] = true
			}
			c2 := *in.Cfg
			c2.Script = nil
			for k, op := range in.Cfg.Script {
				if !drop[k] {
					c2.Script = append(c2.Script, op)
				}
			}
			in2 := in
			in2.Cfg = &c2
			out = append(out, hx.J(in2))
			if len(out) > 80 {
				return out
			}
		}
	}
	return out
}

func init() {
	hx.Register(&hx.Prop{
		ID:      "C17",
		Imports: "From Akita Require Import Lib.Base C19.Model C16.Model C17.Model C17.Exec.",
		Rule: "sel: the real flusher.prepareBlockToFlushList + finalizeFlushing (verif hook) on random directory snapshots (1-4 sets x 1-4 ways; 1/8 keep " +
			"locked / read blocks -> panic outcome) with the four filter shapes (empty / address list incl. unaligned and foreign addresses / PID / both). " +
			"e2e: random workload (30-120 ops, masks, PIDs) on a real hierarchy with a write-back cache (alone over ideal/banked/DRAM with a random filter, " +
			"or two levels with empty filters), then Drain + Flush of every write-back level top-down through the Control ports; directory snapshots " +
			"before/after each flush; every written 64-byte line read directly from the backing Storage after each flush of the lowest write-back level. " +
			"1-4 ROUNDS per run (workload slice -> Drain+Flush -> Enable -> ...): later rounds re-dirty lines flushed earlier, earlier rounds use random filters, the last flushes everything. " +
			"seq: 2-4 flush requests with re-dirtying in between processed by ONE flusher through its own intake (verif hook), so state carried between requests is tied. " +
			"Non-trivial: a block was selected / a dirty line existed at a flush and a written line was checked. Distinct = distinct input hash.",
		Gen: gen, Run: run, Shrink: shrink,
	})
}
