// Package engsim drives the real timing.SerialEngine with the handler script
// language of coq/theories/C01/Model.v and records everything observable:
// the handled trace (through the engine hooks or from inside the handlers),
// the Schedule calls that returned, the clock and the queued events
// (SaveCheckpoint) after every Run/RunUntil call.  Shared by C01 and C02.
package engsim

import (
	"bytes"
	"encoding/json"
	"fmt"
	"io"
	"log"
	"strings"

	"github.com/sarchlab/akita/v5/hooking"
	"github.com/sarchlab/akita/v5/timing"

	"verifharness/internal/hx"
)

// Spawn is one entry of a handler's table.
type Spawn struct {
	Dt  int64  `json:"dt"`
	Tgt uint64 `json:"tgt"`
	Sec bool   `json:"sec"`
}

// Init is one initial Schedule call.
type Init struct {
	T   uint64 `json:"t"`
	H   uint64 `json:"h"`
	Sec bool   `json:"sec"`
	Bud uint64 `json:"bud"`
}

// Script is a handler program with its initial schedule.
type Script struct {
	Prog  [][][]Spawn `json:"prog"` // handler -> alternative -> spawns
	Cap   uint64      `json:"cap"`  // global allowance of spawned events
	Init  []Init      `json:"init"`
	Hooks bool        `json:"hooks"` // record through Before/AfterEvent hooks (the hasHooks path)
	T0    uint64      `json:"t0"`    // SetCurrentTime(T0) after the initial Schedule calls (0: none)
}

// Ent is an event as observed.
type Ent struct {
	T   uint64 `json:"t"`
	H   uint64 `json:"h"`
	Sec bool   `json:"sec"`
	Bud uint64 `json:"bud"`
	UID uint64 `json:"uid"`
}

// Step is one handled event.
type Step struct {
	Ev    Ent    `json:"ev"`
	Now   uint64 `json:"now"`
	Sched []Ent  `json:"sched"`
	OK    bool   `json:"ok"`
	Hk    uint64 `json:"hk"` // calls seen for this event, as digits: 1 BeforeEvent, 2 handler, 3 AfterEvent
}

// Seg is the observation of one Run / RunUntil call.
type Seg struct {
	Out   int    `json:"out"` // 0 returned, 2 panicked
	Steps []Step `json:"steps"`
	Clock uint64 `json:"clock"`
	PendP []Ent  `json:"pp"`
	PendS []Ent  `json:"ps"`
}

type ev struct {
	timing.EventBase
	Bud uint64 `json:"bud"`
}

func hname(h uint64) string { return fmt.Sprintf("h%d", h) }

func toEnt(e ev) Ent {
	var h uint64
	fmt.Sscanf(strings.TrimPrefix(e.HandlerID_, "h"), "%d", &h)
	return Ent{T: uint64(e.Time_), H: h, Sec: e.Secondary, Bud: e.Bud, UID: e.ID}
}

func mkEv(t, h uint64, sec bool, bud, uid uint64) ev {
	return ev{EventBase: timing.EventBase{ID: uid, Time_: timing.VTimeInPicoSec(t),
		HandlerID_: hname(h), Secondary: sec}, Bud: bud}
}

// World is one engine with its scripted handlers.
type World struct {
	Eng   *timing.SerialEngine
	s     Script
	next  uint64
	cap   uint64
	steps []Step
}

type handler struct {
	w  *World
	id uint64
}

func (h *handler) Handle(e timing.Event) error {
	w := h.w
	x := e.(ev)
	var idx int
	if w.s.Hooks {
		idx = len(w.steps) - 1 // opened by the BeforeEvent hook
	} else {
		w.steps = append(w.steps, Step{Ev: toEnt(x), Now: uint64(w.Eng.CurrentTime()), Sched: []Ent{}})
		idx = len(w.steps) - 1
	}
	w.steps[idx].Hk = w.steps[idx].Hk*10 + 2
	if x.Bud != 0 && h.id < uint64(len(w.s.Prog)) {
		alts := w.s.Prog[h.id]
		if len(alts) > 0 {
			alt := alts[x.Bud%uint64(len(alts))]
			now := uint64(w.Eng.CurrentTime())
			for _, sp := range alt {
				if w.cap == 0 {
					break
				}
				t := int64(now) + sp.Dt
				if t < 0 {
					t = 0
				}
				ne := mkEv(uint64(t), sp.Tgt, sp.Sec, x.Bud-1, w.next)
				w.next++
				w.cap--
				w.Eng.Schedule(ne) // may panic (past time)
				w.steps[idx].Sched = append(w.steps[idx].Sched, toEnt(ne))
			}
		}
	}
	if !w.s.Hooks {
		w.steps[idx].OK = true
	}
	return nil
}

type hook struct{ w *World }

func (k *hook) Func(ctx hooking.HookCtx) {
	w := k.w
	x, ok := ctx.Item.(ev)
	if !ok {
		return
	}
	switch ctx.Pos {
	case timing.HookPosBeforeEvent:
		w.steps = append(w.steps, Step{Ev: toEnt(x), Now: uint64(w.Eng.CurrentTime()), Sched: []Ent{}, Hk: 1})
	case timing.HookPosAfterEvent:
		i := len(w.steps) - 1
		if i >= 0 && w.steps[i].Ev.UID == x.ID {
			w.steps[i].OK = true
			w.steps[i].Hk = w.steps[i].Hk*10 + 3
		}
	}
}

// NumHandlers is the number of handlers a script registers: every handler
// mentioned by the table, the initial schedule or a spawn target.
func NumHandlers(s Script) uint64 {
	n := uint64(len(s.Prog))
	for _, i := range s.Init {
		if i.H+1 > n {
			n = i.H + 1
		}
	}
	for _, a := range s.Prog {
		for _, b := range a {
			for _, sp := range b {
				if sp.Tgt+1 > n {
					n = sp.Tgt + 1
				}
			}
		}
	}
	return n
}

// NewWorld builds the engine, registers the handlers and performs the initial
// Schedule calls (uids 0,1,...).
func NewWorld(s Script) *World {
	log.SetOutput(io.Discard) // log.Panic prints before panicking
	w := &World{Eng: timing.NewSerialEngine(), s: s, cap: s.Cap}
	n := NumHandlers(s)
	for h := uint64(0); h < n; h++ {
		w.Eng.RegisterHandler(hname(h), &handler{w: w, id: h})
	}
	if s.Hooks {
		w.Eng.AcceptHook(&hook{w: w})
	}
	for _, i := range s.Init {
		w.Eng.Schedule(mkEv(i.T, i.H, i.Sec, i.Bud, w.next))
		w.next++
	}
	if s.T0 != 0 {
		w.Eng.SetCurrentTime(timing.VTimeInPicoSec(s.T0))
	}
	return w
}

type ckpt struct {
	Time      uint64 `json:"time"`
	Primary   []struct{ Payload ev `json:"payload"` } `json:"primary"`
	Secondary []struct{ Payload ev `json:"payload"` } `json:"secondary"`
}

// Pending reads the queues through SaveCheckpoint (pop order).
func (w *World) Pending() (p, s []Ent, clock uint64) {
	var buf bytes.Buffer
	if err := w.Eng.SaveCheckpoint(&buf); err != nil {
		panic(err)
	}
	var c ckpt
	if err := json.Unmarshal(buf.Bytes(), &c); err != nil {
		panic(err)
	}
	p, s = []Ent{}, []Ent{}
	for _, x := range c.Primary {
		p = append(p, toEnt(x.Payload))
	}
	for _, x := range c.Secondary {
		s = append(s, toEnt(x.Payload))
	}
	return p, s, c.Time
}

// Call runs f (a Run or RunUntil call) and observes it.
func (w *World) Call(f func()) Seg {
	w.steps = []Step{}
	panicked, _ := hx.Try(f)
	seg := Seg{Steps: w.steps, Clock: uint64(w.Eng.CurrentTime())}
	if panicked {
		seg.Out = 2
	}
	var ct uint64
	seg.PendP, seg.PendS, ct = w.Pending()
	if ct != seg.Clock {
		panic("checkpoint time differs from CurrentTime")
	}
	return seg
}

// RunSegments performs RunUntil(b) for every boundary, then Run; it stops after
// the first call that panics.
func RunSegments(s Script, bounds []uint64) []Seg {
	w := NewWorld(s)
	var out []Seg
	for _, b := range bounds {
		b := b
		seg := w.Call(func() { _ = w.Eng.RunUntil(timing.VTimeInPicoSec(b)) })
		out = append(out, seg)
		if seg.Out != 0 {
			return out
		}
	}
	out = append(out, w.Call(func() { _ = w.Eng.Run() }))
	return out
}

// ---------------------------------------------------------------- Coq printing

// CoqEnt prints an event.
func CoqEnt(e Ent) string {
	return hx.App("V", hx.N(e.T), hx.N(e.H), hx.B(e.Sec), hx.N(e.Bud), hx.N(e.UID))
}

// CoqEnts prints a list of events.
func CoqEnts(es []Ent) string {
	s := make([]string, len(es))
	for i, e := range es {
		s[i] = CoqEnt(e)
	}
	return hx.L(s)
}

// CoqSteps prints a trace.
func CoqSteps(st []Step) string {
	s := make([]string, len(st))
	for i, x := range st {
		s[i] = hx.App("St", CoqEnt(x.Ev), hx.N(x.Now), CoqEnts(x.Sched), hx.B(x.OK), hx.N(x.Hk))
	}
	return hx.L(s)
}

// CoqProg prints the handler table.
func CoqProg(p [][][]Spawn) string {
	hs := make([]string, len(p))
	for i, alts := range p {
		as := make([]string, len(alts))
		for j, alt := range alts {
			ss := make([]string, len(alt))
			for k, sp := range alt {
				ss[k] = hx.App("Sp", hx.Z(sp.Dt), hx.N(sp.Tgt), hx.B(sp.Sec))
			}
			as[j] = hx.L(ss)
		}
		hs[i] = hx.L(as)
	}
	return hx.L(hs)
}

// CoqInit prints the initial schedule.
func CoqInit(in []Init) string {
	s := make([]string, len(in))
	for i, x := range in {
		s[i] = hx.T(hx.N(x.T), hx.N(x.H), hx.B(x.Sec), hx.N(x.Bud))
	}
	return hx.L(s)
}

// CoqSeg prints one observed call.
func CoqSeg(g Seg) string {
	return hx.App("Sg", hx.N(uint64(g.Out)), CoqSteps(g.Steps), hx.N(g.Clock), CoqEnts(g.PendP), CoqEnts(g.PendS))
}
