package engsim

import "verifharness/internal/hx"

// GenScript draws a random handler program.  kind selects the shape:
//
//	0 mixed, 1 equal-time bursts (heap ties), 2 same-instant primary/secondary chains,
//	3 long chains, 4 includes a past-time Schedule (malformed)
func GenScript(r *hx.Rand, kind int, big bool) Script {
	nh := r.Range(1, 6)
	s := Script{Hooks: r.Bool()}
	dts := func() int64 {
		switch r.Pick(5, 3, 2) {
		case 0:
			return 0
		case 1:
			return int64(r.Range(1, 3))
		default:
			return int64(r.Range(4, 40))
		}
	}
	for h := 0; h < nh; h++ {
		na := r.Range(1, 3)
		alts := make([][]Spawn, na)
		for a := range alts {
			ns := r.Pick(2, 4, 3, 1) // 0..3 spawns
			if kind == 3 {
				ns = r.Pick(0, 6, 1)
			}
			alt := make([]Spawn, ns)
			for k := range alt {
				alt[k] = Spawn{Dt: dts(), Tgt: uint64(r.Intn(nh)), Sec: r.Bool()}
				if kind == 2 {
					alt[k].Dt = 0
					if r.Chance(1, 5) {
						alt[k].Dt = 1
					}
				}
			}
			alts[a] = alt
		}
		s.Prog = append(s.Prog, alts)
	}
	if kind == 4 {
		h := r.Intn(nh)
		a := r.Intn(len(s.Prog[h]))
		bad := Spawn{Dt: -int64(r.Range(1, 5)), Tgt: uint64(r.Intn(nh)), Sec: r.Bool()}
		alt := s.Prog[h][a]
		pos := r.Intn(len(alt) + 1)
		alt = append(alt[:pos:pos], append([]Spawn{bad}, alt[pos:]...)...)
		s.Prog[h][a] = alt
	}
	ni := r.Range(1, 12)
	maxBud := 6
	s.Cap = uint64(r.Range(0, 60))
	ntimes := r.Range(1, 6)
	switch kind {
	case 1:
		ni = r.Range(20, 80)
		if big {
			ni = r.Range(150, 400)
		}
		ntimes = r.Range(1, 4)
		maxBud = 2
		s.Cap = uint64(r.Range(0, ni))
	case 2:
		maxBud = 10
		s.Cap = uint64(r.Range(5, 80))
	case 3:
		ni = r.Range(1, 4)
		maxBud = 60
		s.Cap = uint64(r.Range(20, 120))
		if big {
			s.Cap = uint64(r.Range(200, 400))
			maxBud = 300
		}
	default:
		if big {
			ni = r.Range(20, 60)
			s.Cap = uint64(r.Range(100, 350))
			maxBud = 9
		}
	}
	base := uint64(r.Intn(4))
	gap := uint64(r.Range(1, 4))
	for i := 0; i < ni; i++ {
		t := base + gap*uint64(r.Intn(ntimes))
		s.Init = append(s.Init, Init{T: t, H: uint64(r.Intn(nh)), Sec: r.Bool(), Bud: uint64(r.Intn(maxBud + 1))})
	}
	// SetCurrentTime after the initial schedule: mostly absent; sometimes at/below the earliest
	// event (harmless), rarely after some queued event (dispatchNext must panic)
	switch r.Pick(20, 2, 1) {
	case 1:
		s.T0 = base
	case 2:
		s.T0 = base + 1 + uint64(r.Intn(int(gap)*ntimes+2))
	}
	return s
}

// Stats summarises a trace for tags / the non-triviality rule.
type Stats struct {
	Handled, SameInstantSpawn, SecSpawnsPrimSame, EqualTimePairs, Panics int
	MixedClassInstant                                                   bool
}

// Analyse computes Stats over the steps of all segments.
func Analyse(segs []Seg) Stats {
	var st Stats
	type tc struct {
		p, s int
	}
	at := map[uint64]*tc{}
	for _, g := range segs {
		if g.Out == 2 {
			st.Panics++
		}
		for _, x := range g.Steps {
			st.Handled++
			c := at[x.Ev.T]
			if c == nil {
				c = &tc{}
				at[x.Ev.T] = c
			}
			if x.Ev.Sec {
				c.s++
			} else {
				c.p++
			}
			for _, y := range x.Sched {
				if y.T == x.Ev.T {
					st.SameInstantSpawn++
					if x.Ev.Sec && !y.Sec {
						st.SecSpawnsPrimSame++
					}
				}
			}
		}
	}
	for _, c := range at {
		if c.p+c.s > 1 {
			st.EqualTimePairs += c.p + c.s - 1
		}
		if c.p > 0 && c.s > 0 {
			st.MixedClassInstant = true
		}
	}
	return st
}

// Tags renders Stats as histogram tags.
func (st Stats) Tags(hooks bool) []string {
	var t []string
	switch {
	case st.Handled < 10:
		t = append(t, "handled:<10")
	case st.Handled < 100:
		t = append(t, "handled:10-99")
	default:
		t = append(t, "handled:100+")
	}
	if st.SameInstantSpawn > 0 {
		t = append(t, "same-instant-spawn")
	}
	if st.SecSpawnsPrimSame > 0 {
		t = append(t, "secondary-spawns-primary-same-instant")
	}
	if st.MixedClassInstant {
		t = append(t, "instant-with-both-classes")
	}
	if st.EqualTimePairs >= 20 {
		t = append(t, "equal-time-burst>=20")
	}
	if st.Panics > 0 {
		t = append(t, "malformed:panics(past-time Schedule / clock set after a queued event)")
	}
	if hooks {
		t = append(t, "trace-via:hooks")
	} else {
		t = append(t, "trace-via:handlers")
	}
	return t
}

// ShrinkScript proposes smaller scripts.
func ShrinkScript(s Script) []Script {
	var out []Script
	cp := func() Script {
		c := s
		c.Init = append([]Init(nil), s.Init...)
		c.Prog = make([][][]Spawn, len(s.Prog))
		for i, a := range s.Prog {
			c.Prog[i] = make([][]Spawn, len(a))
			for j, b := range a {
				c.Prog[i][j] = append([]Spawn(nil), b...)
			}
		}
		return c
	}
	if n := len(s.Init); n > 1 {
		c := cp()
		c.Init = c.Init[:n/2]
		out = append(out, c)
		c = cp()
		c.Init = c.Init[n/2:]
		out = append(out, c)
	}
	for i := range s.Init {
		if len(s.Init) > 1 {
			c := cp()
			c.Init = append(c.Init[:i:i], c.Init[i+1:]...)
			out = append(out, c)
		}
	}
	if s.Cap > 0 {
		c := cp()
		c.Cap = s.Cap / 2
		out = append(out, c)
		c = cp()
		c.Cap = s.Cap - 1
		out = append(out, c)
	}
	for i := range s.Init {
		if s.Init[i].Bud > 0 {
			c := cp()
			c.Init[i].Bud--
			out = append(out, c)
		}
	}
	for h := range s.Prog {
		for a := range s.Prog[h] {
			for k := range s.Prog[h][a] {
				c := cp()
				c.Prog[h][a] = append(c.Prog[h][a][:k:k], c.Prog[h][a][k+1:]...)
				out = append(out, c)
			}
		}
	}
	if s.Hooks {
		c := cp()
		c.Hooks = false
		out = append(out, c)
	}
	if s.T0 > 0 {
		c := cp()
		c.T0 = 0
		out = append(out, c)
		c = cp()
		c.T0 = s.T0 - 1
		out = append(out, c)
	}
	// keep a shrink round cheap: the halving candidates come first, single removals are sampled
	if len(out) > 90 {
		keep := out[:10:10]
		step := (len(out) - 10 + 79) / 80
		for i := 10; i < len(out); i += step {
			keep = append(keep, out[i])
		}
		out = keep
	}
	return out
}
