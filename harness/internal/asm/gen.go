package asm

// Rander is the subset of hx.Rand used here (avoids an import cycle).
type Rander interface {
	Intn(n int) int
	Range(lo, hi int) int
	Chance(num, den int) bool
	U64() uint64
}

// Kinds lists the assembly kinds.
var Kinds = []string{"ideal", "wt", "wb", "wtwb", "banked", "vm", "dram", "wbdram"}

// GenConfig draws a random small configuration and workload of the given kind.
// Addresses come from a small set of lines so that caches evict and hit.
func GenConfig(r Rander, kind string, nops int) *Config {
	c := &Config{Kind: kind}
	c.Window = r.Range(1, 6)
	c.PortBuf = r.Range(1, 4)
	c.MemLat = r.Range(1, 12)
	c.MemWidth = r.Range(1, 3)
	c.Policy = []string{"write-through", "write-around", "write-evict"}[r.Intn(3)]
	c.L1Ways = []int{1, 2, 4}[r.Intn(3)]
	c.L1Bytes = uint64(c.L1Ways) * 64 * uint64([]int{1, 2, 4}[r.Intn(3)])
	c.L2Ways = []int{1, 2, 4}[r.Intn(3)]
	c.L2Bytes = uint64(c.L2Ways) * 64 * uint64([]int{2, 4, 8}[r.Intn(3)])
	c.Banks = []int{1, 2, 4}[r.Intn(3)]
	c.TLBSets = []int{1, 2}[r.Intn(2)]
	c.TLBWays = []int{1, 2, 4}[r.Intn(3)]
	c.DriverMHz = []uint64{1000, 500, 300, 700}[r.Intn(4)]
	c.Preset = []string{"DDR4", "DDR5", "HBM2", "HBM3", "GDDR6"}[r.Intn(5)]
	nlines := r.Range(2, 24)
	stride := uint64(64)
	if kind == "vm" && r.Chance(1, 2) {
		stride = 1024 + 64 // spread over pages
	}
	for i := 0; i < nops; i++ {
		line := uint64(r.Intn(nlines))
		c.Ops = append(c.Ops, Op{Write: r.Chance(1, 2), Addr: line*stride + uint64(r.Intn(16))*4, Val: uint32(r.U64())})
	}
	// a second driver on the same top connection in a third of the cases
	if r.Chance(1, 3) {
		for i := 0; i < nops/2+1; i++ {
			line := uint64(r.Intn(nlines)) + uint64(nlines) // disjoint lines
			c.Ops2 = append(c.Ops2, Op{Write: r.Chance(1, 2), Addr: line*stride + uint64(r.Intn(16))*4, Val: uint32(r.U64())})
		}
	}
	// a control history (legal orders) against one component in a third of the cases
	if r.Chance(1, 3) {
		target := map[string][]string{
			"ideal": {"MemCtrl"}, "banked": {"Mem"}, "wt": {"L1", "MemCtrl"}, "wb": {"L2", "MemCtrl"},
			"wtwb": {"L1", "L2", "MemCtrl"}, "vm": {"L1", "L2", "TLB", "L2TLB", "MMU", "AT"},
			"dram": {"DRAM"}, "wbdram": {"L2", "DRAM"},
		}[kind]
		t := target[r.Intn(len(target))]
		at := r.Range(1, nops-1)
		const (
			pause, drain, enable, reset, invalidate, flush = 0, 1, 2, 3, 4, 5
		)
		var seq []int
		switch r.Intn(6) {
		case 0:
			seq = []int{pause, enable}
		case 1:
			seq = []int{drain, flush, enable}
		case 2:
			seq = []int{drain, enable}
		case 3:
			seq = []int{reset}
		case 4:
			seq = []int{pause, reset}
		default:
			seq = []int{flush, drain, flush, enable} // first flush is illegal while enabled
		}
		// half of the flush/invalidate commands carry an address filter naming several written lines
		var filter []uint64
		if r.Chance(1, 2) {
			seen := map[uint64]bool{}
			for _, op := range c.Ops {
				if op.Write && !seen[op.Addr/64] && len(filter) < 6 {
					seen[op.Addr/64] = true
					filter = append(filter, op.Addr/64*64)
				}
			}
		}
		hold := r.Intn(3) * r.Range(5, 40) // a third of the histories hold each state for a while
		for i, cmd := range seq {
			k := Ctrl{After: at, Target: t, Cmd: cmd}
			if i > 0 {
				k.Wait = hold
			}
			if cmd == flush || cmd == invalidate {
				k.Addrs = filter
			}
			c.Ctrl = append(c.Ctrl, k)
		}
	}
	c.Normalize()
	return c
}

// ShrinkConfigs proposes strictly smaller variants of a configuration: halves
// and single-op removals of the workload, a smaller window, default geometry.
func ShrinkConfigs(c *Config) []*Config {
	var out []*Config
	n := len(c.Ops)
	cp := func(ops []Op) *Config {
		d := *c
		d.Ops = append([]Op(nil), ops...)
		return &d
	}
	if n > 1 {
		out = append(out, cp(c.Ops[:n/2]), cp(c.Ops[n/2:]))
		if n <= 12 {
			for i := 0; i < n; i++ {
				ops := append(append([]Op(nil), c.Ops[:i]...), c.Ops[i+1:]...)
				out = append(out, cp(ops))
			}
		}
	}
	if len(c.Ops2) > 0 {
		d := *c
		d.Ops2 = nil
		out = append(out, &d)
	}
	if len(c.Ctrl) > 0 {
		d := *c
		d.Ctrl = nil
		out = append(out, &d)
	}
	if c.Window > 1 {
		d := *c
		d.Window = 1
		out = append(out, &d)
	}
	if c.DriverMHz != 1000 {
		d := *c
		d.DriverMHz = 1000
		out = append(out, &d)
	}
	return out
}

// ContendedConfig is a directed configuration: two drivers competing for one slow
// memory over one connection, outgoing buffers deeper than the window drains, so
// sends go into non-empty buffers while the connection sleeps behind a full
// destination, and both senders are regularly asleep behind it.
func ContendedConfig(r Rander, kind string, nops int) *Config {
	c := GenConfig(r, kind, nops)
	c.PortBuf = r.Range(2, 3)
	c.Window = 8
	c.MemWidth = 1
	c.MemLat = r.Range(3, 9)
	c.DriverMHz = 1000
	// the destination runs 2-5x slower than the senders: its incoming buffer is
	// full most of the time, the connection sleeps between its retrievals, and the
	// senders keep pushing into non-empty outgoing buffers
	c.MemMHz = []uint64{500, 333, 250, 200}[r.Intn(4)]
	c.Ctrl = nil
	c.Ops, c.Ops2 = nil, nil
	for i := 0; i < nops; i++ {
		c.Ops = append(c.Ops, Op{Write: r.Chance(1, 2), Addr: uint64(64*(i%13)) + uint64(r.Intn(16))*4, Val: uint32(r.U64())})
		c.Ops2 = append(c.Ops2, Op{Write: r.Chance(1, 2), Addr: uint64(64*(40+i%11)) + uint64(r.Intn(16))*4, Val: uint32(r.U64())})
	}
	return c
}

// ResetTargets lists (kind, component) pairs for directed mid-traffic resets.
var ResetTargets = [][2]string{{"vm", "TLB"}, {"vm", "L2TLB"}, {"vm", "MMU"}, {"wt", "L1"}, {"wb", "L2"},
	{"wtwb", "L1"}, {"wtwb", "L2"}, {"banked", "Mem"}, {"ideal", "MemCtrl"}, {"dram", "DRAM"}}

// ResetConfig is a directed configuration: a wide window of requests to many
// distinct lines/pages is in flight when component `target` is Reset (after an
// optional Pause), so that several requests are staged in its internal buffers.
func ResetConfig(r Rander, kind, target string, nops int) *Config {
	c := GenConfig(r, kind, nops)
	c.Window = 6
	c.PortBuf = 4
	c.Ops2 = nil
	c.Ops = nil
	stride := uint64(64)
	if kind == "vm" {
		stride = 4096 + 64 // a new page (TLB miss) per request
	}
	for i := 0; i < nops; i++ {
		c.Ops = append(c.Ops, Op{Write: r.Chance(1, 3), Addr: uint64(i%11)*stride + uint64(r.Intn(8))*4, Val: uint32(r.U64())})
	}
	at := r.Range(0, 2)
	c.Ctrl = []Ctrl{{After: at, Target: target, Cmd: 3}}
	if r.Chance(1, 2) {
		c.Ctrl = []Ctrl{{After: at, Target: target, Cmd: 0}, {After: at, Target: target, Cmd: 3, Wait: r.Range(3, 20)}}
	}
	return c
}

// FlushConfig is a directed configuration for write-back hierarchies: dirty
// several distinct lines, then Drain, Flush with an address filter naming all of
// them, Enable, then read them back.
func FlushConfig(r Rander, kind string, nlines int) *Config {
	c := GenConfig(r, kind, 2)
	c.Ops, c.Ops2 = nil, nil
	c.L2Ways = 4
	c.L2Bytes = 4 * 64 * 8
	var filter []uint64
	for i := 0; i < nlines; i++ {
		a := uint64(i) * 64
		c.Ops = append(c.Ops, Op{Write: true, Addr: a + uint64(r.Intn(16))*4, Val: uint32(r.U64())})
		filter = append(filter, a)
	}
	for i := 0; i < nlines; i++ {
		c.Ops = append(c.Ops, Op{Write: false, Addr: uint64(i)*64 + uint64(r.Intn(16))*4})
	}
	first := 0 // pause
	if r.Chance(1, 2) {
		first = 1 // drain
	}
	c.Ctrl = []Ctrl{{After: nlines, Target: "L2", Cmd: first}, {After: nlines, Target: "L2", Cmd: 5, Addrs: filter},
		{After: nlines, Target: "L2", Cmd: 2}}
	return c
}
