// Package asm builds small, fully registered simulations out of REAL akita
// library components from a JSON configuration, with a deterministic,
// fully-checkpointable driver. It is shared by the differential checks of
// C03 (determinism), C06 (checkpoint invisibility) and C33 (observers).
//
//	Config.Kind: "ideal"  Driver -> idealmemcontroller
//	             "wt"     Driver -> writethroughcache(policy) -> idealmemcontroller
//	             "wb"     Driver -> writeback -> idealmemcontroller
//	             "wtwb"   Driver -> writethroughcache -> writeback -> idealmemcontroller
//	             "banked" Driver -> simplebankedmemory
//	             "dram"   Driver -> dram (preset); "wbdram" Driver -> writeback -> dram
//	             "vm"     Driver -> addresstranslator -> L1(wt) -> L2(wb) -> ideal, AT -> TLB -> L2TLB -> MMU (page table)
package asm

import (
	"archive/tar"
	"bytes"
	"compress/gzip"
	"crypto/sha256"
	"encoding/binary"
	"fmt"
	"io"
	"os"
	"path/filepath"
	"reflect"
	"sort"

	"github.com/sarchlab/akita/v5/hooking"
	"github.com/sarchlab/akita/v5/mem"
	"github.com/sarchlab/akita/v5/mem/cache/writeback"
	"github.com/sarchlab/akita/v5/mem/cache/writethroughcache"
	"github.com/sarchlab/akita/v5/mem/dram"
	"github.com/sarchlab/akita/v5/mem/idealmemcontroller"
	"github.com/sarchlab/akita/v5/mem/memcontrolprotocol"
	"github.com/sarchlab/akita/v5/mem/memprotocol"
	"github.com/sarchlab/akita/v5/mem/simplebankedmemory"
	"github.com/sarchlab/akita/v5/mem/vm"
	"github.com/sarchlab/akita/v5/mem/vm/addresstranslator"
	"github.com/sarchlab/akita/v5/mem/vm/mmu"
	"github.com/sarchlab/akita/v5/mem/vm/tlb"
	"github.com/sarchlab/akita/v5/messaging"
	"github.com/sarchlab/akita/v5/modeling"
	"github.com/sarchlab/akita/v5/noc/directconnection"
	"github.com/sarchlab/akita/v5/simulation"
	"github.com/sarchlab/akita/v5/timing"
)

// TmpBase returns a RAM-backed directory when available: every simulation opens
// a SQLite data recorder and fsyncs it, which is slow on disk.
func TmpBase() string {
	if st, err := os.Stat("/dev/shm"); err == nil && st.IsDir() {
		return "/dev/shm"
	}
	return ""
}

// Op is one driver operation.
type Op struct {
	Write bool   `json:"w"`
	Addr  uint64 `json:"a"`
	Val   uint32 `json:"v"` // written value (4 bytes, little endian)
}

// Config describes an assembly and its workload.
type Config struct {
	Kind      string `json:"kind"`
	Ops       []Op   `json:"ops"`
	Window    int    `json:"window"`     // max requests in flight at the driver
	PortBuf   int    `json:"port_buf"`   // buffer size of every port
	MemLat    int    `json:"mem_lat"`    // ideal memory latency
	MemWidth  int    `json:"mem_width"`  // ideal memory width
	Policy    string `json:"policy"`     // write-through cache policy
	L1Ways    int    `json:"l1_ways"`    // write-through cache ways
	L1Bytes   uint64 `json:"l1_bytes"`   // write-through cache size
	L2Ways    int    `json:"l2_ways"`    // write-back cache ways
	L2Bytes   uint64 `json:"l2_bytes"`   // write-back cache size
	Banks     int    `json:"banks"`      // simple banked memory banks
	TLBSets   int    `json:"tlb_sets"`   // L1 TLB
	TLBWays   int    `json:"tlb_ways"`   //
	DriverMHz uint64 `json:"driver_mhz"` // driver frequency in MHz (others run at 1 GHz)
	Preset    string `json:"preset"`     // DRAM preset: DDR4, DDR5, HBM2, HBM3, GDDR6 (kind "dram" / "wbdram")
	MemMHz    uint64 `json:"mem_mhz"`    // clock of the component the drivers talk to (0 = 1000): a slow destination builds back-pressure
	Ops2      []Op   `json:"ops2"`       // workload of an optional second driver on the same top connection
	Ctrl      []Ctrl `json:"ctrl"`       // control-protocol history issued by the first driver
}

// Normalize fills defaults.
func (c *Config) Normalize() {
	if c.Window <= 0 {
		c.Window = 4
	}
	if c.PortBuf <= 0 {
		c.PortBuf = 4
	}
	if c.MemLat <= 0 {
		c.MemLat = 10
	}
	if c.MemWidth <= 0 {
		c.MemWidth = 2
	}
	if c.Policy == "" {
		c.Policy = "write-through"
	}
	if c.L1Ways <= 0 {
		c.L1Ways = 2
	}
	if c.L1Bytes == 0 {
		c.L1Bytes = 512
	}
	if c.L2Ways <= 0 {
		c.L2Ways = 2
	}
	if c.L2Bytes == 0 {
		c.L2Bytes = 1024
	}
	if c.Banks <= 0 {
		c.Banks = 2
	}
	if c.TLBSets <= 0 {
		c.TLBSets = 2
	}
	if c.TLBWays <= 0 {
		c.TLBWays = 2
	}
	if c.DriverMHz == 0 {
		c.DriverMHz = 1000
	}
}

// ---------------------------------------------------------------- driver

// Ctrl is one control-protocol command issued by the first driver: it is sent to
// component Target's "Control" port once After operations have been answered and
// the previous command was acknowledged.
type Ctrl struct {
	After  int      `json:"after"`
	Target string   `json:"target"`          // component name: MemCtrl, L1, L2, Mem, DRAM, TLB, L2TLB, MMU, AT
	Cmd    int      `json:"cmd"`             // memcontrolprotocol.Command
	Addrs  []uint64 `json:"addrs,omitempty"` // Invalidate / Flush address filter (empty = everything)
	Wait   int      `json:"wait,omitempty"`  // driver cycles to wait after the previous command's acknowledgement
}

// DriverSpec is the immutable driver configuration (the whole op list).
type DriverSpec struct {
	Freq       timing.Freq `json:"freq"`
	OpWrite    []bool      `json:"op_write"` // Spec types may not nest structs: parallel slices
	OpAddr     []uint64    `json:"op_addr"`
	OpVal      []uint32    `json:"op_val"`
	Window     int         `json:"window"`
	CtrlAfter  []int       `json:"ctrl_after"`
	CtrlTarget []string    `json:"ctrl_target"`
	CtrlCmd    []int       `json:"ctrl_cmd"`
	CtrlWait   []int       `json:"ctrl_wait"`
	CtrlAddrN  []int       `json:"ctrl_addr_n"` // number of filter addresses of each command ...
	CtrlAddrs  []uint64    `json:"ctrl_addrs"`  // ... taken consecutively from this flat list
}

// NumOps is the number of operations.
func (s DriverSpec) NumOps() int { return len(s.OpAddr) }

// Resp is one response as the driver saw it (Op = -1-k for the k-th control response).
type Resp struct {
	Op    int    `json:"op"`
	Write bool   `json:"w"`
	Data  uint32 `json:"d"`
	Time  uint64 `json:"t"`
}

// DriverState is the fully serialized mutable state. Todo is PRE-POPULATED by
// setup with every op index and entries are deleted as ops are answered, so a
// restore that merged instead of replacing State would resurrect finished work.
type DriverState struct {
	Todo        map[int]bool   `json:"todo"`
	Pending     map[uint64]int `json:"pending"` // request ID -> op index
	Answered    int            `json:"answered"`
	CtrlNext    int            `json:"ctrl_next"`
	CtrlPending uint64         `json:"ctrl_pending"` // ID of the unacknowledged control request, 0 = none
	CtrlWait    int            `json:"ctrl_wait"`    // cycles left before the next control command may be sent
	Log         []Resp         `json:"log"`
}

// Driver issues the smallest unanswered, not-in-flight op of Spec.Ops with at
// most Window requests in flight and never two in-flight requests to the same
// 64-byte line.
type Driver struct {
	*modeling.Component[DriverSpec, DriverState, modeling.None]
	low     messaging.Port
	eng     timing.Engine
	ctrlDst map[string]messaging.RemotePort
	PID     vm.PID
}

type driverMW struct{ d *Driver }

func (m *driverMW) Tick() bool {
	p := m.recv()
	p = m.recvCtrl() || p
	p = m.sendCtrl() || p
	return m.send() || p
}

func (m *driverMW) recv() bool {
	d := m.d
	msg := d.GetPortByName("Mem").RetrieveIncoming()
	if msg == nil {
		return false
	}
	st := &d.State
	now := uint64(d.eng.CurrentTime())
	switch rsp := msg.(type) {
	case memprotocol.WriteDoneRsp:
		if idx, ok := st.Pending[rsp.RspTo]; ok {
			delete(st.Pending, rsp.RspTo)
			delete(st.Todo, idx)
			st.Answered++
			st.Log = append(st.Log, Resp{idx, true, 0, now})
		}
	case memprotocol.DataReadyRsp:
		if idx, ok := st.Pending[rsp.RspTo]; ok {
			delete(st.Pending, rsp.RspTo)
			delete(st.Todo, idx)
			st.Answered++
			var v uint32
			if len(rsp.Data) >= 4 {
				v = binary.LittleEndian.Uint32(rsp.Data)
			}
			st.Log = append(st.Log, Resp{idx, false, v, now})
		}
	}
	return true
}

func (m *driverMW) recvCtrl() bool {
	d := m.d
	if len(d.Spec().CtrlCmd) == 0 {
		return false
	}
	msg := d.GetPortByName("Ctrl").RetrieveIncoming()
	if msg == nil {
		return false
	}
	st := &d.State
	if rsp, ok := msg.(memcontrolprotocol.Rsp); ok && rsp.RspTo == st.CtrlPending {
		st.CtrlPending = 0
		if st.CtrlNext < len(d.Spec().CtrlWait) {
			st.CtrlWait = d.Spec().CtrlWait[st.CtrlNext]
		}
		ok := uint32(0)
		if rsp.Success {
			ok = 1
		}
		st.Log = append(st.Log, Resp{-st.CtrlNext, false, ok, uint64(d.eng.CurrentTime())})
		if rsp.Success && rsp.Command == memcontrolprotocol.CmdReset {
			// a reset drops the requests in flight below: forget them, they stay in Todo
			st.Pending = map[uint64]int{}
		}
	}
	return true
}

func (m *driverMW) sendCtrl() bool {
	d := m.d
	st := &d.State
	spec := d.Spec()
	if st.CtrlPending != 0 || st.CtrlNext >= len(spec.CtrlCmd) || st.Answered < spec.CtrlAfter[st.CtrlNext] {
		return false
	}
	if st.CtrlWait > 0 { // keep ticking while the hold time runs down
		st.CtrlWait--
		return true
	}
	port := d.GetPortByName("Ctrl")
	if !port.CanSend() {
		return false
	}
	dst, ok := d.ctrlDst[spec.CtrlTarget[st.CtrlNext]]
	if !ok {
		st.CtrlNext++
		return true
	}
	req := memcontrolprotocol.Req{Command: memcontrolprotocol.Command(spec.CtrlCmd[st.CtrlNext])}
	off := 0
	for i := 0; i < st.CtrlNext; i++ {
		off += spec.CtrlAddrN[i]
	}
	if n := spec.CtrlAddrN[st.CtrlNext]; n > 0 {
		req.Addresses = append([]uint64(nil), spec.CtrlAddrs[off:off+n]...)
	}
	req.ID = timing.GetIDGenerator().Generate()
	req.Src = port.AsRemote()
	req.Dst = dst
	req.TrafficBytes = 8
	req.TrafficClass = "memcontrolprotocol.Req"
	port.Send(req)
	st.CtrlPending = req.ID
	st.CtrlNext++
	return true
}

func (m *driverMW) send() bool {
	d := m.d
	st := &d.State
	spec := d.Spec()
	if len(st.Pending) >= spec.Window {
		return false
	}
	inflight := map[int]bool{}
	lines := map[uint64]bool{}
	for _, idx := range st.Pending { // order-independent: builds two sets
		inflight[idx] = true
		lines[spec.OpAddr[idx]/64] = true
	}
	next := -1
	for i := 0; i < spec.NumOps(); i++ {
		if st.Todo[i] && !inflight[i] {
			next = i
			break
		}
	}
	if next < 0 || lines[spec.OpAddr[next]/64] {
		return false
	}
	port := d.GetPortByName("Mem")
	if !port.CanSend() {
		return false
	}
	op := Op{spec.OpWrite[next], spec.OpAddr[next], spec.OpVal[next]}
	id := timing.GetIDGenerator().Generate()
	if op.Write {
		req := memprotocol.WriteReq{}
		req.ID = id
		req.Src = port.AsRemote()
		req.Dst = d.low.AsRemote()
		req.Address = op.Addr
		req.PID = d.PID
		req.Data = make([]byte, 4)
		binary.LittleEndian.PutUint32(req.Data, op.Val)
		req.TrafficBytes = 16
		req.TrafficClass = "memprotocol.WriteReq"
		port.Send(req)
	} else {
		req := memprotocol.ReadReq{}
		req.ID = id
		req.Src = port.AsRemote()
		req.Dst = d.low.AsRemote()
		req.Address = op.Addr
		req.AccessByteSize = 4
		req.PID = d.PID
		req.TrafficBytes = 12
		req.TrafficClass = "memprotocol.ReadReq"
		port.Send(req)
	}
	st.Pending[id] = next
	return true
}

// Done reports whether every op was answered and every control command acknowledged.
func (d *Driver) Done() bool {
	return len(d.State.Todo) == 0 && len(d.State.Pending) == 0 &&
		d.State.CtrlNext == len(d.Spec().CtrlCmd) && d.State.CtrlPending == 0
}

func buildDriver(reg modeling.Registrar, c *Config, name string, ops []Op, ctrl []Ctrl, low messaging.Port) *Driver {
	spec := DriverSpec{Freq: timing.Freq(c.DriverMHz) * timing.MHz, Window: c.Window}
	for _, op := range ops {
		spec.OpWrite = append(spec.OpWrite, op.Write)
		spec.OpAddr = append(spec.OpAddr, op.Addr)
		spec.OpVal = append(spec.OpVal, op.Val)
	}
	for _, k := range ctrl {
		spec.CtrlAfter = append(spec.CtrlAfter, k.After)
		spec.CtrlTarget = append(spec.CtrlTarget, k.Target)
		spec.CtrlCmd = append(spec.CtrlCmd, k.Cmd)
		spec.CtrlWait = append(spec.CtrlWait, k.Wait)
		spec.CtrlAddrN = append(spec.CtrlAddrN, len(k.Addrs))
		spec.CtrlAddrs = append(spec.CtrlAddrs, k.Addrs...)
	}
	mc := modeling.NewBuilder[DriverSpec, DriverState, modeling.None]().
		WithEngine(reg.GetEngine()).WithFreq(spec.Freq).WithSpec(spec).Build(name)
	mc.State = DriverState{Todo: map[int]bool{}, Pending: map[uint64]int{}, Log: []Resp{}}
	for i := range ops {
		mc.State.Todo[i] = true
	}
	mc.DeclarePort("Mem")
	mc.DeclarePort("Ctrl")
	d := &Driver{Component: mc, low: low, eng: reg.GetEngine(), PID: 1, ctrlDst: map[string]messaging.RemotePort{}}
	mc.AddMiddleware(&driverMW{d: d})
	reg.RegisterComponent(d)
	for _, pn := range []string{"Mem", "Ctrl"} {
		p := modeling.MakePortBuilder().WithRegistrar(reg).WithComponent(d).
			WithSpec(modeling.PortSpec{BufSize: c.PortBuf}).Build(pn)
		d.AssignPort(pn, p)
	}
	return d
}

// ---------------------------------------------------------------- assembly

// Sim is a built assembly.
type Sim struct {
	Reg     modeling.Registrar
	Sim     *simulation.Simulation // nil when built Bare
	Engine  *timing.SerialEngine
	Driver  *Driver
	Driver2 *Driver // nil unless Config.Ops2 is set
	Storage *mem.Storage
	Dir     string
	Trace   *EventTrace
	Comps   []messaging.Component
}

func assignPorts(s modeling.Registrar, buf int, comp messaging.Component, names ...string) {
	for _, name := range names {
		p := modeling.MakePortBuilder().WithRegistrar(s).WithComponent(comp).
			WithSpec(modeling.PortSpec{BufSize: buf}).Build(name)
		comp.AssignPort(name, p)
	}
}

func connect(s modeling.Registrar, name string, p1, p2 messaging.Port) {
	conn := directconnection.MakeBuilder().WithRegistrar(s).Build(name)
	conn.PlugIn(p1)
	conn.PlugIn(p2)
}

// Options selects the observers attached to the simulation (C33).
type Options struct {
	EventTrace bool // engine Before/After hook recording the handled-event trace
	VisTracing bool // simulation built WithVisTracingOnStart (DB tracer on every component + buffer tracing)
	Monitoring bool
	// Bare builds the components with a standalone registrar and a fresh engine:
	// no simulation.Simulation, hence no DB tracer hook on components and no
	// buffer-tracing hooks on ports — the truly unobserved baseline.
	Bare bool
}

// Build assembles the simulation. The ID generator is reset first so every
// build starts from the same counter.
func Build(c *Config, opt Options) *Sim {
	c.Normalize()
	timing.ResetIDGenerator()
	dir, err := os.MkdirTemp(TmpBase(), "asm-")
	if err != nil {
		panic(err)
	}
	out := &Sim{Dir: dir}
	if opt.Bare {
		out.Engine = timing.NewSerialEngine()
		out.Reg = modeling.NewStandaloneRegistrar(out.Engine)
	} else {
		b := simulation.MakeBuilder().WithOutputFileName(filepath.Join(dir, "out")).WithoutSourceRecording()
		if !opt.Monitoring {
			b = b.WithoutMonitoring()
		}
		if opt.VisTracing {
			b = b.WithVisTracingOnStart()
		}
		out.Sim = b.Build()
		out.Reg = out.Sim
		out.Engine = out.Sim.GetEngine().(*timing.SerialEngine)
	}
	s := out.Reg

	var top messaging.Port
	switch c.Kind {
	case "ideal":
		m := out.buildIdeal(c)
		top = m.GetPortByName("Top")
	case "banked":
		spec := simplebankedmemory.DefaultSpec()
		spec.NumBanks = c.Banks
		spec.Capacity = 1 * mem.MB
		if c.MemMHz != 0 {
			spec.Freq = timing.Freq(c.MemMHz) * timing.MHz
		}
		m := simplebankedmemory.MakeBuilder().WithRegistrar(s).WithSpec(spec).Build("Mem")
		assignPorts(s, c.PortBuf, m, "Top", "Control")
		out.Storage = m.Resources().Storage
		out.Comps = append(out.Comps, m)
		top = m.GetPortByName("Top")
	case "dram", "wbdram":
		var spec dram.Spec
		switch c.Preset {
		case "DDR5":
			spec = dram.DDR5Spec
		case "HBM2":
			spec = dram.HBM2Spec
		case "HBM3":
			spec = dram.HBM3Spec
		case "GDDR6":
			spec = dram.GDDR6Spec
		default:
			spec = dram.DDR4Spec
		}
		m := dram.MakeBuilder().WithRegistrar(s).WithSpec(spec).Build("DRAM")
		assignPorts(s, c.PortBuf, m, "Top", "Control")
		out.Storage = m.Resources().Storage
		out.Comps = append(out.Comps, m)
		top = m.GetPortByName("Top")
		if c.Kind == "wbdram" {
			l2 := out.buildWB(c, m.GetPortByName("Top"))
			connect(s, "ConnL2Mem", l2.GetPortByName("Bottom"), m.GetPortByName("Top"))
			top = l2.GetPortByName("Top")
		}
	case "wt":
		m := out.buildIdeal(c)
		l1 := out.buildWT(c, m.GetPortByName("Top"))
		connect(s, "ConnL1Mem", l1.GetPortByName("Bottom"), m.GetPortByName("Top"))
		top = l1.GetPortByName("Top")
	case "wb":
		m := out.buildIdeal(c)
		l2 := out.buildWB(c, m.GetPortByName("Top"))
		connect(s, "ConnL2Mem", l2.GetPortByName("Bottom"), m.GetPortByName("Top"))
		top = l2.GetPortByName("Top")
	case "wtwb", "vm":
		m := out.buildIdeal(c)
		l2 := out.buildWB(c, m.GetPortByName("Top"))
		l1 := out.buildWT(c, l2.GetPortByName("Top"))
		connect(s, "ConnL2Mem", l2.GetPortByName("Bottom"), m.GetPortByName("Top"))
		connect(s, "ConnL1L2", l1.GetPortByName("Bottom"), l2.GetPortByName("Top"))
		top = l1.GetPortByName("Top")
		if c.Kind == "vm" {
			top = out.buildVM(c, l1.GetPortByName("Top"))
		}
	default:
		panic("asm: unknown kind " + c.Kind)
	}
	out.Driver = buildDriver(s, c, "Driver", c.Ops, c.Ctrl, top)
	dconn := directconnection.MakeBuilder().WithRegistrar(s).Build("ConnDriver")
	dconn.PlugIn(out.Driver.GetPortByName("Mem"))
	dconn.PlugIn(top)
	if len(c.Ops2) > 0 {
		out.Driver2 = buildDriver(s, c, "Driver2", c.Ops2, nil, top)
		out.Driver2.PID = out.Driver.PID
		dconn.PlugIn(out.Driver2.GetPortByName("Mem"))
	}
	// one control connection from the first driver to every component's Control port
	cconn := directconnection.MakeBuilder().WithRegistrar(s).Build("ConnCtrl")
	cconn.PlugIn(out.Driver.GetPortByName("Ctrl"))
	for _, comp := range out.Comps {
		po, ok := comp.(interface {
			GetPortByName(string) messaging.Port
			Name() string
		})
		if !ok {
			continue
		}
		var cp messaging.Port
		if p, _ := tryPort(po, "Control"); p != nil {
			cp = p
		}
		if cp == nil {
			continue
		}
		cconn.PlugIn(cp)
		out.Driver.ctrlDst[po.Name()] = cp.AsRemote()
	}
	if opt.EventTrace {
		out.Trace = &EventTrace{}
		out.Engine.AcceptHook(out.Trace)
	}
	return out
}

func (o *Sim) buildIdeal(c *Config) *idealmemcontroller.Comp {
	spec := idealmemcontroller.DefaultSpec()
	spec.Capacity = 1 * mem.MB
	if c.Kind == "vm" {
		spec.Capacity = 64 * mem.MB
	}
	spec.Width = c.MemWidth
	spec.Latency = c.MemLat
	if c.MemMHz != 0 && (c.Kind == "ideal") {
		spec.Freq = timing.Freq(c.MemMHz) * timing.MHz
	}
	m := idealmemcontroller.MakeBuilder().WithRegistrar(o.Reg).WithSpec(spec).Build("MemCtrl")
	assignPorts(o.Reg, c.PortBuf, m, "Top", "Control")
	o.Storage = m.Resources().Storage
	o.Comps = append(o.Comps, m)
	return m
}

func (o *Sim) buildWT(c *Config, low messaging.Port) messaging.Component {
	spec := writethroughcache.DefaultSpec()
	spec.WritePolicyType = c.Policy
	spec.WayAssociativity = c.L1Ways
	spec.TotalByteSize = c.L1Bytes
	spec.AddressMapperType = "single"
	spec.BankLatency = 3
	if c.MemMHz != 0 && (c.Kind == "wt" || c.Kind == "wtwb") {
		spec.Freq = timing.Freq(c.MemMHz) * timing.MHz
	}
	l1 := writethroughcache.MakeBuilder().WithRegistrar(o.Reg).WithSpec(spec).
		WithResources(writethroughcache.Resources{RemotePorts: []messaging.RemotePort{low.AsRemote()}}).Build("L1")
	assignPorts(o.Reg, c.PortBuf, l1, "Top", "Bottom", "Control")
	o.Comps = append(o.Comps, l1)
	return l1
}

func (o *Sim) buildWB(c *Config, low messaging.Port) messaging.Component {
	spec := writeback.DefaultSpec()
	spec.WayAssociativity = c.L2Ways
	spec.TotalByteSize = c.L2Bytes
	spec.AddressMapperType = "single"
	spec.BankLatency = 3
	spec.NumReqPerCycle = 2
	if c.MemMHz != 0 && (c.Kind == "wb" || c.Kind == "wbdram") {
		spec.Freq = timing.Freq(c.MemMHz) * timing.MHz
		spec.NumReqPerCycle = 1
	}
	l2 := writeback.MakeBuilder().WithRegistrar(o.Reg).WithSpec(spec).
		WithResources(writeback.Resources{RemotePorts: []messaging.RemotePort{low.AsRemote()}}).Build("L2")
	assignPorts(o.Reg, c.PortBuf, l2, "Top", "Bottom", "Control")
	o.Comps = append(o.Comps, l2)
	return l2
}

// VMBase is the physical base of the identity-offset page table of the "vm" kind.
const VMBase = uint64(0x100000)

func (o *Sim) buildVM(c *Config, l1top messaging.Port) messaging.Port {
	s := o.Reg
	pt := vm.MakePageTableBuilder().WithSimulation(s).WithLog2PageSize(12).Build("PageTable")
	var maxAddr uint64
	for _, op := range c.Ops {
		if op.Addr > maxAddr {
			maxAddr = op.Addr
		}
	}
	for i := uint64(0); i <= maxAddr/4096+1; i++ {
		pt.Insert(vm.Page{PID: 1, VAddr: i * 4096, PAddr: VMBase + i*4096, PageSize: 4096, Valid: true})
	}
	mspec := mmu.DefaultSpec()
	mspec.Log2PageSize = 12
	mspec.MaxRequestsInFlight = 8
	mspec.Latency = 5
	io := mmu.MakeBuilder().WithRegistrar(s).WithSpec(mspec).WithResources(mmu.Resources{PageTable: pt}).Build("MMU")
	assignPorts(s, c.PortBuf, io, "Top", "Control")

	l2spec := tlb.DefaultSpec()
	l2spec.NumWays, l2spec.NumSets, l2spec.Log2PageSize, l2spec.NumReqPerCycle = 4, 4, 12, 2
	l2tlb := tlb.MakeBuilder().WithRegistrar(s).WithSpec(l2spec).WithResources(tlb.Resources{
		TranslationProviderMapper: &mem.SinglePortMapper{Port: io.GetPortByName("Top").AsRemote()}}).Build("L2TLB")
	assignPorts(s, c.PortBuf, l2tlb, "Top", "Bottom", "Control")

	l1spec := tlb.DefaultSpec()
	l1spec.NumWays, l1spec.NumSets, l1spec.Log2PageSize, l1spec.NumReqPerCycle = c.TLBWays, c.TLBSets, 12, 2
	l1tlb := tlb.MakeBuilder().WithRegistrar(s).WithSpec(l1spec).WithResources(tlb.Resources{
		TranslationProviderMapper: &mem.SinglePortMapper{Port: l2tlb.GetPortByName("Top").AsRemote()}}).Build("TLB")
	assignPorts(s, c.PortBuf, l1tlb, "Top", "Bottom", "Control")

	aspec := addresstranslator.DefaultSpec()
	aspec.Log2PageSize = 12
	aspec.NumReqPerCycle = 2
	at := addresstranslator.MakeBuilder().WithRegistrar(s).WithSpec(aspec).WithResources(addresstranslator.Resources{
		MemProviderMapper:         &mem.SinglePortMapper{Port: l1top.AsRemote()},
		TranslationProviderMapper: &mem.SinglePortMapper{Port: l1tlb.GetPortByName("Top").AsRemote()},
	}).Build("AT")
	assignPorts(s, c.PortBuf, at, "Top", "Bottom", "Translation", "Control")
	connect(s, "ConnATTLB", at.GetPortByName("Translation"), l1tlb.GetPortByName("Top"))
	connect(s, "ConnTLBL2", l1tlb.GetPortByName("Bottom"), l2tlb.GetPortByName("Top"))
	connect(s, "ConnL2TLBMMU", l2tlb.GetPortByName("Bottom"), io.GetPortByName("Top"))
	connect(s, "ConnATL1", at.GetPortByName("Bottom"), l1top)
	o.Comps = append(o.Comps, io, l2tlb, l1tlb, at)
	return at.GetPortByName("Top")
}

func tryPort(po interface {
	GetPortByName(string) messaging.Port
}, name string) (p messaging.Port, err any) {
	defer func() { err = recover() }()
	return po.GetPortByName(name), nil
}

// Start schedules the drivers' first ticks.
func (o *Sim) Start() {
	o.Driver.TickLater()
	if o.Driver2 != nil {
		o.Driver2.TickLater()
	}
}

// Done reports whether every driver finished.
func (o *Sim) Done() bool { return o.Driver.Done() && (o.Driver2 == nil || o.Driver2.Done()) }

// Logs returns the response logs of all drivers, concatenated.
func (o *Sim) Logs() []Resp {
	out := append([]Resp(nil), o.Driver.State.Log...)
	if o.Driver2 != nil {
		out = append(out, Resp{Op: -1000})
		out = append(out, o.Driver2.State.Log...)
	}
	return out
}

// HookStateBuffers attaches h to every hooking.Hookable found (by reflection)
// inside the State of every component: the queueing buffers and pipelines that
// components keep in their state. Returns how many were hooked.
func (o *Sim) HookStateBuffers(h hooking.Hook) int {
	n := 0
	var walk func(v reflect.Value, depth int)
	walk = func(v reflect.Value, depth int) {
		if depth > 6 {
			return
		}
		if v.CanAddr() {
			if hk, ok := v.Addr().Interface().(hooking.Hookable); ok && v.Kind() == reflect.Struct {
				hk.AcceptHook(h)
				n++
				return
			}
		}
		switch v.Kind() {
		case reflect.Struct:
			for i := 0; i < v.NumField(); i++ {
				if v.Type().Field(i).IsExported() {
					walk(v.Field(i), depth+1)
				}
			}
		case reflect.Slice, reflect.Array:
			for i := 0; i < v.Len(); i++ {
				walk(v.Index(i), depth+1)
			}
		}
	}
	for _, c := range o.Comps {
		cv := reflect.ValueOf(c)
		for cv.Kind() == reflect.Ptr {
			cv = cv.Elem()
		}
		if cv.Kind() != reflect.Struct {
			continue
		}
		if f := cv.FieldByName("State"); f.IsValid() {
			walk(f, 0)
		}
	}
	return n
}

// Close terminates the simulation and removes its files.
func (o *Sim) Close() {
	if o.Sim != nil {
		o.Sim.Terminate()
	}
	os.RemoveAll(o.Dir)
}

// ---------------------------------------------------------------- observation

// EventTrace records one 62-bit hash per handled event:
// (time, handler id, Go type, secondary flag, event ID when it embeds EventBase).
type EventTrace struct {
	Hashes []uint64
	WithID bool // include generated event IDs in the hash (C03/C06: yes; C33: no)
	NoID   []uint64
}

func eventID(e timing.Event) uint64 {
	v := reflect.ValueOf(e)
	for v.Kind() == reflect.Ptr {
		v = v.Elem()
	}
	if v.Kind() == reflect.Struct {
		if f := v.FieldByName("ID"); f.IsValid() && f.Kind() == reflect.Uint64 {
			return f.Uint()
		}
		if f := v.FieldByName("EventBase"); f.IsValid() && f.Kind() == reflect.Struct {
			if g := f.FieldByName("ID"); g.IsValid() && g.Kind() == reflect.Uint64 {
				return g.Uint()
			}
		}
	}
	return 0
}

// H62 hashes a string to 62 bits.
func H62(s string) uint64 {
	h := sha256.Sum256([]byte(s))
	return binary.LittleEndian.Uint64(h[:8]) >> 2
}

// Func implements hooking.Hook.
func (t *EventTrace) Func(ctx hooking.HookCtx) {
	if ctx.Pos != timing.HookPosBeforeEvent {
		return
	}
	e := ctx.Item.(timing.Event)
	base := fmt.Sprintf("%d|%s|%T|%v", e.Time(), e.HandlerID(), e, e.IsSecondary())
	t.NoID = append(t.NoID, H62(base))
	t.Hashes = append(t.Hashes, H62(fmt.Sprintf("%s|%d", base, eventID(e))))
}

// Payloads saves a checkpoint of the current state and returns, per entity name,
// the payload bytes (the archive is a gzip'd tar).
func (o *Sim) Payloads() (map[string][]byte, error) {
	if o.Sim == nil {
		return nil, fmt.Errorf("asm: bare assembly has no checkpoint")
	}
	path := filepath.Join(o.Dir, fmt.Sprintf("final-%d.tar.gz", len(o.Dir)))
	if err := o.Sim.SaveCheckpoint(path, "asm"); err != nil {
		return nil, err
	}
	defer os.Remove(path)
	return ReadArchive(path)
}

// ReadArchive parses a checkpoint archive into name -> bytes.
func ReadArchive(path string) (map[string][]byte, error) {
	raw, err := os.ReadFile(path)
	if err != nil {
		return nil, err
	}
	gz, err := gzip.NewReader(bytes.NewReader(raw))
	if err != nil {
		return nil, err
	}
	tr := tar.NewReader(gz)
	out := map[string][]byte{}
	for {
		h, err := tr.Next()
		if err == io.EOF {
			break
		}
		if err != nil {
			return nil, err
		}
		b, err := io.ReadAll(tr)
		if err != nil {
			return nil, err
		}
		out[h.Name] = b
	}
	return out, nil
}

// PayloadHashes returns sorted "name=hash" fingerprints and the 62-bit hashes in name order.
func PayloadHashes(p map[string][]byte) ([]string, []uint64) {
	names := make([]string, 0, len(p))
	for n := range p {
		names = append(names, n)
	}
	sort.Strings(names)
	var fp []string
	var hs []uint64
	for _, n := range names {
		h := H62(n + "\x00" + string(p[n]))
		fp = append(fp, fmt.Sprintf("%s=%x", n, h))
		hs = append(hs, h)
	}
	return fp, hs
}

// MemImage reads the backing storage at every 64-byte line touched by the
// workload (physical addresses; the "vm" kind maps page i to VMBase + i*4096)
// and returns one 62-bit hash per line, in address order.
func (o *Sim) MemImage(c *Config) []uint64 {
	lines := map[uint64]bool{}
	for _, op := range c.Ops {
		a := op.Addr
		if c.Kind == "vm" {
			a += VMBase
		}
		lines[a/64*64] = true
	}
	addrs := make([]uint64, 0, len(lines))
	for a := range lines {
		addrs = append(addrs, a)
	}
	sort.Slice(addrs, func(i, j int) bool { return addrs[i] < addrs[j] })
	var out []uint64
	for _, a := range addrs {
		b, err := o.Storage.Read(a, 64)
		if err != nil {
			out = append(out, 0)
			continue
		}
		out = append(out, H62(fmt.Sprintf("%d|%x", a, b)))
	}
	return out
}
