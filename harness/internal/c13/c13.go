// Package c13 ties the Coq model of modeling/eventdriven.go (pendingWakeup
// guard, ScheduleWakeAt/ScheduleWakeNow, notifications, Handle) to the
// implementation: real EventDrivenComponents with scripted processors run in a
// real timing.SerialEngine together with scripted environment events; the run
// is projected onto every component (processor invocations are recorded by the
// processors themselves) and replayed by the model.
package c13

import (
	"encoding/json"
	"fmt"

	"github.com/sarchlab/akita/v5/hooking"
	"github.com/sarchlab/akita/v5/messaging"
	"github.com/sarchlab/akita/v5/modeling"
	"github.com/sarchlab/akita/v5/noc/directconnection"
	"github.com/sarchlab/akita/v5/timing"

	"verifharness/internal/hx"
)

// req is one request on component Tgt.
// K: 0 ScheduleWakeAt(V)  1 ScheduleWakeNow  2 NotifyRecv  3 NotifyPortFree
//
//	4 ScheduleWakeAt(now+V)  5 ScheduleWakeAt(now-V) (saturating at 0)
//
// With a network (input.Net): 6 component Src sends a message from its port to
// component Tgt's port (if CanSend), 7 component Src retrieves one incoming
// message.  Inside a processor script Src is the component itself.
// 8: poke the zero-latency peer V: environment entry Env[V] (marked Peer, not
// scheduled at start) is scheduled at the CURRENT instant, so its requests are
// made in the same instant, after the handler that poked it has returned.
type req struct {
	Tgt int    `json:"tgt"`
	K   int    `json:"k"`
	V   uint64 `json:"v,omitempty"`
	Src int    `json:"src,omitempty"`
}

// netIn adds real ports and one real noc/directconnection (a ticking component
// of frequency F) between the event-driven components: NotifyRecv and
// NotifyPortFree then come from real deliveries and retrievals.
type netIn struct {
	F      uint64 `json:"f"`
	InCap  int    `json:"in_cap"`
	OutCap int    `json:"out_cap"`
}

type compIn struct {
	Runs [][]req `json:"runs"` // requests issued by the k-th processor invocation
}

type envIn struct {
	T    uint64 `json:"t"`
	Sec  bool   `json:"sec,omitempty"`
	Peer bool   `json:"peer,omitempty"` // scheduled only when poked (req K=8), at the instant of the poke
	Reqs []req  `json:"reqs"`
}

type input struct {
	Comps []compIn `json:"comps"`
	Env   []envIn  `json:"env"`
	Net   *netIn   `json:"net,omitempty"`
}

type evRec struct {
	Kind string `json:"kind"` // adv | req | run
	K    int    `json:"k,omitempty"`
	Arg  uint64 `json:"arg,omitempty"`
	T    uint64 `json:"t"`
	Obs  string `json:"obs,omitempty"`
	ST   uint64 `json:"st,omitempty"`
	In   bool   `json:"in_run,omitempty"` // made from inside this component's own processor run (statistics only)
}

type spec struct {
	Index int `json:"index"`
}

type state struct {
	Runs int `json:"runs"`
}

type edc = modeling.EventDrivenComponent[spec, state, modeling.None]

type compRT struct {
	name  string
	in    compIn
	c     *edc
	hist  []*evRec
	cur   *evRec
	w     *world
	idx   int
	port  messaging.Port
	inRun bool
}

type world struct {
	eng   *timing.SerialEngine
	comps []*compRT
	in    input
}

type sched struct {
	w *world
	c *compRT
}

func (s *sched) CurrentTime() timing.VTimeInPicoSec { return s.w.eng.CurrentTime() }

func (s *sched) RegisterHandler(name string, h timing.Handler) { s.w.eng.RegisterHandler(name, h) }

func (s *sched) Schedule(e timing.Event) {
	c := s.c
	if c.cur == nil || c.cur.Obs != "drop" {
		r := &evRec{Kind: "req", K: 1, T: uint64(s.w.eng.CurrentTime()), Obs: "drop", In: c.inRun}
		c.hist = append(c.hist, r)
		c.cur = r
	}
	c.cur.Obs = "sched"
	c.cur.ST = uint64(e.Time())
	s.w.eng.Schedule(e)
}

type processor struct{ rt *compRT }

func (p *processor) Process(c *edc, now timing.VTimeInPicoSec) bool {
	// the observable of the property: a processor invocation and its time (not
	// the dispatch of a timer event, which need not reach the processor)
	p.rt.hist = append(p.rt.hist, &evRec{Kind: "run", T: uint64(now)})
	k := c.State.Runs
	c.State.Runs++
	p.rt.inRun = true
	defer func() { p.rt.inRun = false }()
	if k < len(p.rt.in.Runs) {
		for _, q := range p.rt.in.Runs[k] {
			q.Src = p.rt.idx
			p.rt.w.do(q)
		}
	}
	return true
}

type netMsg struct{ messaging.MsgMeta }

// owner is what the real ports see as their component: it records the
// notification in the component's history and passes it on.
type owner struct {
	*edc
	c *compRT
}

func (o *owner) notify(k int, f func()) {
	c := o.c
	r := &evRec{Kind: "req", K: k, T: uint64(c.w.eng.CurrentTime()), Obs: "drop", In: c.inRun}
	c.hist = append(c.hist, r)
	saved := c.cur
	c.cur = r
	f()
	c.cur = saved
}

func (o *owner) NotifyRecv(p messaging.Port)     { o.notify(2, func() { o.edc.NotifyRecv(p) }) }
func (o *owner) NotifyPortFree(p messaging.Port) { o.notify(3, func() { o.edc.NotifyPortFree(p) }) }

func (w *world) buildNet() {
	n := w.in.Net
	conn := directconnection.MakeBuilder().WithRegistrar(modeling.NewStandaloneRegistrar(w.eng)).
		WithSpec(directconnection.Spec{Freq: timing.Freq(n.F)}).Build("Conn")
	for _, k := range w.comps {
		k.port = messaging.NewPort(&owner{edc: k.c, c: k}, n.InCap, n.OutCap, k.name+".Port")
		conn.PlugIn(k.port)
	}
}

func (w *world) do(q req) {
	if q.K == 8 {
		if q.V < uint64(len(w.in.Env)) && w.in.Env[q.V].Peer {
			ev := envEvent{EventBase: timing.MakeEventBase(w.eng.CurrentTime(), "env"), idx: int(q.V)}
			ev.Secondary = w.in.Env[q.V].Sec
			w.eng.Schedule(ev)
		}
		return
	}
	if q.K >= 6 {
		if w.in.Net == nil || q.Src < 0 || q.Src >= len(w.comps) {
			return
		}
		src := w.comps[q.Src]
		if q.K == 7 {
			src.port.RetrieveIncoming()
			return
		}
		if q.Tgt < 0 || q.Tgt >= len(w.comps) || q.Tgt == q.Src || !src.port.CanSend() {
			return
		}
		src.port.Send(netMsg{messaging.MsgMeta{ID: timing.GetIDGenerator().Generate(),
			Src: src.port.AsRemote(), Dst: w.comps[q.Tgt].port.AsRemote()}})
		return
	}
	if q.Tgt < 0 || q.Tgt >= len(w.comps) {
		return
	}
	c := w.comps[q.Tgt]
	now := uint64(w.eng.CurrentTime())
	r := &evRec{Kind: "req", T: now, Obs: "drop", In: c.inRun}
	switch q.K {
	case 0:
		r.K, r.Arg = 0, q.V
	case 4:
		r.K, r.Arg = 0, now+q.V
		if r.Arg < now {
			r.Arg = ^uint64(0)
		}
	case 5:
		r.K = 0
		if q.V <= now {
			r.Arg = now - q.V
		}
	case 1, 2, 3:
		r.K = q.K
	default:
		return
	}
	c.hist = append(c.hist, r)
	saved := c.cur
	c.cur = r
	switch r.K {
	case 0:
		c.c.ScheduleWakeAt(timing.VTimeInPicoSec(r.Arg))
	case 1:
		c.c.ScheduleWakeNow()
	case 2:
		c.c.NotifyRecv(nil)
	default:
		c.c.NotifyPortFree(nil)
	}
	c.cur = saved
}

type envEvent struct {
	timing.EventBase
	idx int
}

type envHandler struct{ w *world }

func (h *envHandler) Handle(e timing.Event) error {
	for _, q := range h.w.in.Env[e.(envEvent).idx].Reqs {
		h.w.do(q)
	}
	return nil
}

type hook struct{ w *world }

func (h *hook) Func(ctx hooking.HookCtx) {
	e, ok := ctx.Item.(timing.Event)
	if !ok || ctx.Pos != timing.HookPosBeforeEvent {
		return
	}
	t := uint64(e.Time())
	_, isTimer := e.(modeling.TimerFiredEvent)
	for _, c := range h.w.comps {
		if isTimer && e.HandlerID() == c.name {
			continue // its own timer: the run is recorded by the processor itself
		}
		if n := len(c.hist); n > 0 && c.hist[n-1].Kind == "adv" && c.hist[n-1].T == t {
			continue
		}
		c.hist = append(c.hist, &evRec{Kind: "adv", T: t})
	}
}

type obsOut struct {
	Completed bool       `json:"completed"`
	Panic     string     `json:"panic,omitempty"`
	Hist      [][]*evRec `json:"hist"`
}

func execute(in input) obsOut {
	w := &world{eng: timing.NewSerialEngine(), in: in}
	w.eng.RegisterHandler("env", &envHandler{w})
	for i, ci := range in.Comps {
		rt := &compRT{name: fmt.Sprintf("ED%d", i), in: ci, w: w, idx: i}
		rt.c = modeling.NewEventDrivenBuilder[spec, state, modeling.None]().
			WithEngine(&sched{w: w, c: rt}).
			WithSpec(spec{Index: i}).
			WithProcessor(&processor{rt}).
			Build(rt.name)
		w.comps = append(w.comps, rt)
	}
	if in.Net != nil {
		w.buildNet()
	}
	w.eng.AcceptHook(&hook{w})
	for i, e := range in.Env {
		if e.Peer {
			continue
		}
		ev := envEvent{EventBase: timing.MakeEventBase(timing.VTimeInPicoSec(e.T), "env"), idx: i}
		ev.Secondary = e.Sec
		w.eng.Schedule(ev)
	}
	panicked, msg := hx.Try(func() { _ = w.eng.Run() })
	out := obsOut{Completed: !panicked, Panic: msg}
	for _, c := range w.comps {
		if panicked && c.cur != nil {
			c.cur.Obs = "panic"
			c.cur.ST = 0
		}
		out.Hist = append(out.Hist, c.hist)
	}
	return out
}

func coqObs(r *evRec) string {
	switch r.Obs {
	case "sched":
		return hx.App("OSched", hx.N(r.ST))
	case "panic":
		return "OPanic"
	}
	return "ODrop"
}

func coqEv(r *evRec) string {
	switch r.Kind {
	case "adv":
		return hx.App("EAdv", hx.N(r.T))
	case "run":
		return hx.App("ERun", hx.N(r.T))
	}
	q := []string{"", "WakeNow", "NotifyRecv", "NotifyPortFree"}[r.K&3]
	if r.K == 0 {
		q = hx.App("WakeAt", hx.N(r.Arg))
	}
	return hx.App("EReq", q, hx.N(r.T), coqObs(r))
}

func run(raw json.RawMessage) (hx.Case, error) {
	var in input
	if err := hx.UJ(raw, &in); err != nil {
		return hx.Case{}, err
	}
	o := execute(in)
	c := hx.Case{Obs: o}
	var comps []string
	drops, earlier, later, equal, notif, runs, spurious := 0, 0, 0, 0, 0, 0, 0
	afterRun, afterRunLater := 0, 0
	for _, h := range o.Hist {
		evs := make([]string, len(h))
		pending := map[uint64]int{}
		var lastSched, lastRun uint64
		has, ran := false, false
		for j, r := range h {
			evs[j] = coqEv(r)
			switch r.Kind {
			case "run":
				runs++
				pending[r.T]--
				has = false
				lastRun, ran = r.T, true
				for _, n := range pending {
					if n > 0 {
						spurious++ // an older, superseded timer is still queued
						break
					}
				}
			case "req":
				if r.K != 0 {
					notif++
				}
				if r.Obs == "drop" {
					drops++
				}
				if r.Obs == "sched" && !r.In && ran && r.T == lastRun && r.ST == r.T {
					afterRun++ // asked for "now" after the run of this instant had returned
					for st, n := range pending {
						if n > 0 && st > r.T {
							afterRunLater++
							break
						}
					}
				}
				if r.Obs == "sched" {
					if has && r.ST < lastSched {
						earlier++
					}
					pending[r.ST]++
					lastSched, has = r.ST, true
				} else if has && r.K == 0 {
					if r.Arg > lastSched {
						later++
					} else if r.Arg == lastSched {
						equal++
					}
				}
			}
		}
		comps = append(comps, hx.App("mk_comp", hx.L(evs)))
	}
	c.Coq = hx.App("mk_case", hx.L(comps), hx.B(o.Completed))
	tag := func(b bool, s string) {
		if b {
			c.Tags = append(c.Tags, s)
		}
	}
	tag(earlier > 0, "request:earlier-than-pending")
	tag(later > 0, "request:later-than-pending(dropped)")
	tag(equal > 0, "request:equal-to-pending(dropped)")
	tag(notif > 0, "notification")
	tag(afterRun > 0, "wake-for-now-after-the-run-of-the-same-instant")
	tag(afterRunLater > 0, "wake-for-now-after-the-run-of-the-same-instant(later-wake-up-pending)")
	tag(spurious > 0, "superseded-timer-still-queued")
	tag(!o.Completed, "run-aborted(request-in-the-past)")
	tag(len(in.Comps) > 1, "multi-component")
	tag(in.Net != nil, "real-ports+directconnection")
	tag(runs == 0, "no-run")
	// non-trivial: a request earlier than the pending wake-up superseded it, the
	// guard dropped a request, and the processor ran at least three times
	c.Nontrivial = earlier > 0 && drops > 0 && runs >= 3
	return c, nil
}

func genScript(r *hx.Rand, big bool) input {
	var in input
	nc := r.Range(1, 3)
	scale := []uint64{10, 1000, 1_000_000, 1 << 40}[r.Pick(4, 3, 1, 1)]
	net := r.Chance(2, 5)
	if net {
		nc = r.Range(2, 3)
		in.Net = &netIn{F: []uint64{1_000_000_000, 1_000_000_000, 700_000_000, 100_000_000_000}[r.Intn(4)],
			InCap: r.Range(1, 2), OutCap: r.Range(1, 3)}
	}
	// zero-latency peers (Env[0..npeer-1]): poked by a processor or an environment
	// event, they make their requests in the same instant, after the poking handler
	npeer := 0
	if r.Chance(2, 5) {
		npeer = r.Range(1, 2)
	}
	for i := 0; i < npeer; i++ {
		e := envIn{Peer: true, Sec: r.Chance(1, 3)}
		for j, n := 0, r.Range(1, 2); j < n; j++ {
			q := req{Tgt: r.Intn(nc), Src: r.Intn(nc)}
			switch r.Pick(2, 3, 3, 2, 1) {
			case 0:
				q.K = 1
			case 1:
				q.K = 2
			case 2:
				q.K = 3
			case 3:
				q.K, q.V = 4, 0
			default:
				q.K, q.V = 4, []uint64{1, scale, r.U64n(3 * scale)}[r.Intn(3)]
			}
			if net && r.Chance(1, 3) {
				q.K = 6 + r.Pick(3, 2)
			}
			e.Reqs = append(e.Reqs, q)
		}
		in.Env = append(in.Env, e)
	}
	mkReq := func(self int, base uint64) req {
		q := req{Tgt: r.Intn(nc), Src: r.Intn(nc)}
		if npeer > 0 && r.Chance(1, 6) {
			q.K, q.V = 8, uint64(r.Intn(npeer))
			return q
		}
		if net && r.Chance(1, 2) {
			q.K = 6 + r.Pick(3, 2)
			return q
		}
		if r.Chance(1, 2) && self >= 0 {
			q.Tgt = self
		}
		wAbs := 4
		if self >= 0 {
			wAbs = 0 // the processor does not know the absolute time in the script
		}
		switch r.Pick(wAbs, 5, 2, 2, 2) {
		case 0:
			q.K, q.V = 0, base+[]uint64{0, 1, r.U64n(4 * scale), r.U64n(4 * scale), scale}[r.Intn(5)]
		case 1:
			q.K, q.V = 4, []uint64{0, 1, scale, r.U64n(3 * scale), r.U64n(3 * scale), 2 * scale}[r.Intn(6)]
		case 2:
			q.K = 1
		case 3:
			q.K = 2
		default:
			q.K = 3
		}
		return q
	}
	for i := 0; i < nc; i++ {
		var ci compIn
		nr := r.Range(0, 10)
		if big {
			nr = r.Range(6, 30)
		}
		for k := 0; k < nr; k++ {
			var qs []req
			for r.Chance(3, 5) {
				qs = append(qs, mkReq(i, 0))
			}
			ci.Runs = append(ci.Runs, qs)
		}
		in.Comps = append(in.Comps, ci)
	}
	ne := r.Range(1, 10)
	if big {
		ne = r.Range(6, 30)
	}
	for k := 0; k < ne; k++ {
		e := envIn{T: r.U64n(10 * scale), Sec: r.Chance(1, 4)}
		if r.Chance(1, 3) {
			e.T = scale * uint64(r.Intn(10))
		}
		n := r.Range(1, 5)
		for j := 0; j < n; j++ {
			e.Reqs = append(e.Reqs, mkReq(-1, e.T))
			if r.Chance(1, 4) { // repeated request
				e.Reqs = append(e.Reqs, e.Reqs[len(e.Reqs)-1])
			}
		}
		in.Env = append(in.Env, e)
	}
	// rare: a request in the past (the engine panics)
	if r.Chance(1, 25) {
		in.Env = append(in.Env, envIn{T: 5 * scale, Reqs: []req{{Tgt: 0, K: 5, V: 1 + r.U64n(scale)}}})
	}
	return in
}

// sameInstant: wake requests that reach a component at instant T AFTER its
// processor has already run at T (they must make it run again at T).
func sameInstant() []input {
	var out []input
	// the processor's run at 100 pokes a zero-latency peer (primary or secondary),
	// which then raises the request at 100; with and without a later wake-up pending
	for _, sec := range []bool{false, true} {
		for _, later := range []uint64{0, 400} {
			for _, q := range []req{{Tgt: 0, K: 2}, {Tgt: 0, K: 3}, {Tgt: 0, K: 1}, {Tgt: 0, K: 4, V: 0}} {
				run0 := []req{{K: 8, V: 0}}
				if later != 0 {
					run0 = append(run0, req{Tgt: 0, K: 4, V: later})
				}
				out = append(out, input{
					Comps: []compIn{{Runs: [][]req{run0, nil, nil}}},
					Env:   []envIn{{Peer: true, Sec: sec, Reqs: []req{q}}, {T: 100, Reqs: []req{{Tgt: 0, K: 0, V: 100}}}},
				})
			}
		}
	}
	// a peer COMPONENT handled later in the same instant: ED0's run at 50 wakes ED1 for
	// "now"; ED1's run at 50 notifies ED0 (which has, or has not, a later wake-up pending)
	for _, later := range []uint64{0, 70} {
		run0 := []req{{Tgt: 1, K: 1}}
		if later != 0 {
			run0 = append(run0, req{Tgt: 0, K: 4, V: later})
		}
		out = append(out, input{
			Comps: []compIn{{Runs: [][]req{run0, nil, nil}}, {Runs: [][]req{{{Tgt: 0, K: 2}}, {{Tgt: 0, K: 3}}}}},
			Env:   []envIn{{T: 50, Reqs: []req{{Tgt: 0, K: 0, V: 50}}}},
		})
	}
	// real ports, real 1 GHz connection: ED1's timer at 1000 (primary) runs before the
	// connection's tick at 1000 (secondary), whose real Deliver raises NotifyRecv at 1000;
	// ED0 sends from its run at 1000 with a full outgoing buffer: the tick's retrieval
	// raises NotifyPortFree at 1000 after ED0's run
	for _, later := range []uint64{0, 5000} {
		run1 := []req{{K: 7}}
		run0 := []req{{Tgt: 1, K: 6}}
		if later != 0 {
			run1 = append(run1, req{Tgt: 1, K: 4, V: later})
			run0 = append(run0, req{Tgt: 0, K: 4, V: later})
		}
		out = append(out, input{Net: &netIn{F: 1_000_000_000, InCap: 2, OutCap: 1},
			Comps: []compIn{{Runs: [][]req{run0, {{Tgt: 1, K: 6}}, nil}}, {Runs: [][]req{run1, {{K: 7}}, {{K: 7}}, {{K: 7}}}}},
			Env:   []envIn{{T: 1, Reqs: []req{{Tgt: 1, K: 6, Src: 0}, {Tgt: 1, K: 0, V: 1000}, {Tgt: 0, K: 0, V: 1000}}}}})
	}
	return out
}

func directed() []input {
	one := func(env ...envIn) input { return input{Comps: []compIn{{}}, Env: env} }
	wa := func(v uint64) req { return req{Tgt: 0, K: 0, V: v} }
	top := ^uint64(0)
	return append(sameInstant(), []input{
		// later, equal, earlier, repeated requests
		one(envIn{T: 0, Reqs: []req{wa(100), wa(200), wa(100), wa(50), wa(50), wa(70), wa(10), wa(0)}}),
		// earlier request supersedes; the old timer still fires; a request made between the two runs
		one(envIn{T: 0, Reqs: []req{wa(100), wa(50)}}, envIn{T: 60, Reqs: []req{wa(300)}}, envIn{T: 120, Reqs: []req{wa(200), wa(400)}}),
		// notification with a later wake-up pending, with a same-instant wake-up pending, twice
		one(envIn{T: 5, Reqs: []req{wa(9), {Tgt: 0, K: 2, V: 0}, {Tgt: 0, K: 3, V: 0}, {Tgt: 0, K: 1, V: 0}}}, envIn{T: 9, Reqs: []req{{Tgt: 0, K: 2, V: 0}}}, envIn{T: 9, Sec: true, Reqs: []req{{Tgt: 0, K: 3, V: 0}}}),
		// the processor re-arms itself: now, now+1, and from inside the run a notification
		{Comps: []compIn{{Runs: [][]req{{{Tgt: 0, K: 4, V: 0}}, {{Tgt: 0, K: 4, V: 1}, {Tgt: 0, K: 2, V: 0}}, {{Tgt: 0, K: 4, V: 7}, {Tgt: 0, K: 4, V: 3}}, nil, {{Tgt: 0, K: 1, V: 0}}}}}, Env: []envIn{{T: 3, Reqs: []req{wa(3)}}}},
		// MaxUint64 is the "nothing pending" value: a wake-up at MaxUint64 is queued but never deduplicated
		one(envIn{T: 1, Reqs: []req{wa(top), wa(top), wa(top - 1), wa(top)}}),
		// request in the past: engine panic, guard already overwritten
		one(envIn{T: 10, Reqs: []req{wa(20), wa(5)}}),
		one(envIn{T: 10, Reqs: []req{{Tgt: 0, K: 5, V: 1}}}),
		// real ports and a real 1 GHz direct connection: request / reply with retrievals, capacity-1 buffers
		{Net: &netIn{F: 1_000_000_000, InCap: 1, OutCap: 1},
			Comps: []compIn{
				{Runs: [][]req{{{Tgt: 1, K: 6}}, {{K: 7}, {Tgt: 1, K: 6}}, {{K: 7}}, {{K: 7}, {Tgt: 1, K: 6}}, {{K: 7}}}},
				{Runs: [][]req{{{K: 7}, {Tgt: 0, K: 6}}, {{K: 7}, {Tgt: 0, K: 6}, {Tgt: 1, K: 4, V: 1500}}, {{K: 7}}, {{K: 7}, {Tgt: 0, K: 6}}}}},
			Env: []envIn{{T: 1, Reqs: []req{{Tgt: 1, K: 6, Src: 0}, {Tgt: 0, K: 1}}}, {T: 7000, Reqs: []req{{Tgt: 0, K: 6, Src: 1}, {Tgt: 1, K: 6, Src: 0}}}}},
		// two components notifying each other from their processors
		{Comps: []compIn{{Runs: [][]req{{{Tgt: 1, K: 2, V: 0}}, {{Tgt: 1, K: 0, V: 40}, {Tgt: 1, K: 0, V: 30}}, nil}}, {Runs: [][]req{{{Tgt: 0, K: 3, V: 0}, {Tgt: 0, K: 4, V: 5}}, {{Tgt: 0, K: 2, V: 0}}, nil, nil}}},
			Env: []envIn{{T: 2, Reqs: []req{{Tgt: 0, K: 2, V: 0}}}, {T: 30, Sec: true, Reqs: []req{{Tgt: 1, K: 1, V: 0}, {Tgt: 0, K: 0, V: 30}}}}},
	}...)
}

func gen(r *hx.Rand, tier string) []json.RawMessage {
	n, nbig := 400, 26
	if tier == "thorough" {
		n, nbig = 4000, 300
	}
	var out []json.RawMessage
	for _, in := range directed() {
		out = append(out, hx.J(in))
	}
	for i := 0; i < nbig; i++ {
		out = append(out, hx.J(genScript(r, true)))
	}
	for len(out) < n {
		out = append(out, hx.J(genScript(r, false)))
	}
	return out
}

func shrink(raw json.RawMessage) []json.RawMessage {
	var in input
	if hx.UJ(raw, &in) != nil {
		return nil
	}
	var out []json.RawMessage
	clone := func() input {
		var c input
		_ = json.Unmarshal(hx.J(in), &c)
		return c
	}
	for i := range in.Env {
		c := clone()
		c.Env = append(c.Env[:i], c.Env[i+1:]...)
		out = append(out, hx.J(c))
		for j := range in.Env[i].Reqs {
			c := clone()
			c.Env[i].Reqs = append(c.Env[i].Reqs[:j], c.Env[i].Reqs[j+1:]...)
			out = append(out, hx.J(c))
		}
	}
	for i := range in.Comps {
		for k := range in.Comps[i].Runs {
			if len(in.Comps[i].Runs[k]) > 0 {
				c := clone()
				c.Comps[i].Runs[k] = c.Comps[i].Runs[k][1:]
				out = append(out, hx.J(c))
			}
		}
	}
	return out
}

func init() {
	hx.Register(&hx.Prop{
		ID:      "C13",
		Imports: "From Akita Require Import Lib.Base C13.Model C13.Exec.",
		Rule: "directed histories (later/equal/earlier/repeated ScheduleWakeAt, superseded timer still firing, notifications with a " +
			"later or same-instant wake-up pending, self re-arming processor, wake-up at MaxUint64, request in the past, two components " +
			"notifying each other; wake requests of every kind reaching a component at instant T after its run at T: from a poked " +
			"zero-latency primary/secondary peer, from a peer component handled later in the instant, from a real connection tick's " +
			"Deliver / outgoing retrieval ordered after the component's timer, each with and without a later wake-up pending) plus random scripts: 1-3 EventDrivenComponents whose k-th processor run issues 0+ requests " +
			"(absolute time, now+d with d in {0,1,scale,random}, WakeNow, NotifyRecv, NotifyPortFree) on itself or others, and 1-30 " +
			"primary/secondary environment events issuing 1-5 requests; 2/5 of the scripts add real messaging ports (capacity 1-3) " +
			"and a real noc/directconnection (0.7/1/100 GHz) so that NotifyRecv/NotifyPortFree come from real sends, deliveries and " +
			"retrievals; 2/5 of the scripts have 1-2 zero-latency peers that processors and environment events poke (1/6 of the " +
			"requests) and that raise their requests in the same instant after the poking handler; environment events issue 1-5 requests (1/4 repeated), time scale 10/10^3/10^6/2^40 ps; 1/25 scripts " +
			"end with a request in the past. Non-trivial: an earlier request superseded a pending wake-up, the guard dropped a " +
			"request and the processor ran >= 3 times. Distinct = distinct input hash.",
		Gen: gen, Run: run, Shrink: shrink,
	})
}
