// Package c12 ties the Coq model of modeling/ticker.go (TickScheduler guard,
// TickNow/TickLater, TickingComponent notifications and Handle) to the
// implementation: real TickingComponents with scripted Tick() functions run in a
// real timing.SerialEngine together with scripted environment events; the run is
// projected onto every component and replayed by the model.
package c12

import (
	"encoding/json"
	"fmt"
	"sort"

	"github.com/sarchlab/akita/v5/naming"

	"github.com/sarchlab/akita/v5/hooking"
	"github.com/sarchlab/akita/v5/messaging"
	"github.com/sarchlab/akita/v5/modeling"
	"github.com/sarchlab/akita/v5/noc/directconnection"
	"github.com/sarchlab/akita/v5/timing"

	"verifharness/internal/hx"
)

// ----------------------------------------------------------------- input

// act is one call made on component Tgt: K = 0 TickNow, 1 TickLater,
// 2 NotifyRecv, 3 NotifyPortFree.  With a network (input.Net): K = 4 component
// Src sends a message from its port to component Tgt's port (if CanSend),
// K = 5 component Src retrieves one incoming message from its port.  Inside a
// Tick() script Src is the ticking component itself.
type act struct {
	Tgt int `json:"tgt"`
	K   int `json:"k"`
	Src int `json:"src,omitempty"`
}

// netIn adds real ports and one real noc/directconnection between the
// components; the connection is a TickingComponent of its own (frequency F,
// secondary ticks) and is projected and replayed like the others.
type netIn struct {
	F      uint64 `json:"f"`
	InCap  int    `json:"in_cap"`
	OutCap int    `json:"out_cap"`
}

type compIn struct {
	F    uint64  `json:"f"`
	Sec  bool    `json:"sec,omitempty"`
	Prog []bool  `json:"prog"` // progress bit returned by the k-th Tick(); false afterwards
	Acts [][]act `json:"acts"` // calls made from inside the k-th Tick()
}

type envIn struct {
	T    uint64 `json:"t"`
	Sec  bool   `json:"sec,omitempty"`
	Acts []act  `json:"acts"`
}

type input struct {
	Comps []compIn `json:"comps"`
	Env   []envIn  `json:"env"`
	Net   *netIn   `json:"net,omitempty"`
}

// ----------------------------------------------------------------- run

type evRec struct {
	Kind string `json:"kind"` // adv | call | pop | ret
	K    int    `json:"k,omitempty"`
	T    uint64 `json:"t"`
	B    bool   `json:"b,omitempty"`
	Obs  string `json:"obs,omitempty"` // drop | sched | panic
	ST   uint64 `json:"st,omitempty"`
}

type compRT struct {
	idx   int
	name  string
	in    compIn
	tc    *modeling.TickingComponent
	hist  []*evRec
	cur   *evRec
	nTick int
	w     *world
	port  messaging.Port
}

type world struct {
	eng   *timing.SerialEngine
	comps []*compRT
	in    input
	conn  *directconnection.Comp
}

// sched wraps the engine for one component so that the harness sees exactly
// what the TickScheduler hands to engine.Schedule.
type sched struct {
	w *world
	c *compRT
}

func (s *sched) CurrentTime() timing.VTimeInPicoSec { return s.w.eng.CurrentTime() }

func (s *sched) RegisterHandler(name string, h timing.Handler) {
	s.w.eng.RegisterHandler(name, h)
}

func (s *sched) AcceptHook(h hooking.Hook) { s.w.eng.AcceptHook(h) }
func (s *sched) NumHooks() int             { return s.w.eng.NumHooks() }
func (s *sched) Hooks() []hooking.Hook     { return s.w.eng.Hooks() }
func (s *sched) Run() error                { return s.w.eng.Run() }
func (s *sched) Pause()                    { s.w.eng.Pause() }
func (s *sched) Continue()                 { s.w.eng.Continue() }

func (s *sched) Schedule(e timing.Event) {
	c := s.c
	if c.cur == nil || c.cur.Obs != "drop" {
		// a Schedule outside a recorded call: make it visible as its own entry
		r := &evRec{Kind: "call", K: 0, T: uint64(s.w.eng.CurrentTime()), Obs: "drop"}
		c.hist = append(c.hist, r)
		c.cur = r
	}
	c.cur.Obs = "sched"
	c.cur.ST = uint64(e.Time())
	s.w.eng.Schedule(e)
}

func (c *compRT) Tick() bool {
	k := c.nTick
	c.nTick++
	if k < len(c.in.Acts) {
		for _, a := range c.in.Acts[k] {
			a.Src = c.idx
			c.w.do(a)
		}
	}
	b := k < len(c.in.Prog) && c.in.Prog[k]
	r := &evRec{Kind: "ret", B: b, Obs: "drop"}
	c.hist = append(c.hist, r)
	c.cur = r
	return b
}

// call records one TickNow/TickLater/NotifyRecv/NotifyPortFree on c and runs it.
func (c *compRT) call(k int, f func()) {
	r := &evRec{Kind: "call", K: k, T: uint64(c.w.eng.CurrentTime()), Obs: "drop"}
	c.hist = append(c.hist, r)
	saved := c.cur
	c.cur = r
	f()
	c.cur = saved
}

type netMsg struct{ messaging.MsgMeta }

func (w *world) do(a act) {
	if a.K >= 4 {
		if w.in.Net == nil || a.Src < 0 || a.Src >= len(w.in.Comps) {
			return
		}
		src := w.comps[a.Src]
		if a.K == 5 {
			src.port.RetrieveIncoming()
			return
		}
		if a.Tgt < 0 || a.Tgt >= len(w.in.Comps) || a.Tgt == a.Src || !src.port.CanSend() {
			return
		}
		src.port.Send(netMsg{messaging.MsgMeta{ID: timing.GetIDGenerator().Generate(),
			Src: src.port.AsRemote(), Dst: w.comps[a.Tgt].port.AsRemote()}})
		return
	}
	if a.Tgt < 0 || a.Tgt >= len(w.comps) {
		return
	}
	c := w.comps[a.Tgt]
	switch a.K & 3 {
	case 0:
		c.call(0, c.tc.TickNow)
	case 1:
		c.call(1, c.tc.TickLater)
	case 2:
		c.call(2, func() { c.tc.NotifyRecv(nil) })
	default:
		c.call(3, func() { c.tc.NotifyPortFree(nil) })
	}
}

// owner is what the real ports see as their component: it records the
// notification in the component's history and passes it on to the real
// TickingComponent.
type owner struct {
	*modeling.TickingComponent
	c *compRT
}

func (o *owner) NotifyRecv(p messaging.Port) {
	o.c.call(2, func() { o.TickingComponent.NotifyRecv(p) })
}

func (o *owner) NotifyPortFree(p messaging.Port) {
	o.c.call(3, func() { o.TickingComponent.NotifyPortFree(p) })
}

// connRec is what the real ports see as their connection: it records the
// TickNow that NotifySend / NotifyAvailable perform on the real connection.
type connRec struct {
	hooking.HookableBase
	c     *compRT
	conn  *directconnection.Comp
	proxy map[messaging.Port]messaging.Port
}

func (r *connRec) Name() string            { return r.conn.Name() }
func (r *connRec) PlugIn(p messaging.Port) { r.conn.PlugIn(p) }
func (r *connRec) Unplug(p messaging.Port) { r.conn.Unplug(p) }
func (r *connRec) NotifySend()             { r.c.call(0, r.conn.NotifySend) }
func (r *connRec) NotifyAvailable(p messaging.Port) {
	r.c.call(0, func() { r.conn.NotifyAvailable(r.proxy[p]) })
}

// proxyPort is the port object handed to the real connection: identical to the
// real port except that plugging in connects the real port to the recorder.
type proxyPort struct {
	messaging.Port
	rec *connRec
}

func (p *proxyPort) SetConnection(_ messaging.Connection) { p.Port.SetConnection(p.rec) }

// tickRec wraps the connection's Tick() so that its progress bit is recorded.
type tickRec struct {
	inner modeling.Ticker
	c     *compRT
}

func (t *tickRec) Tick() bool {
	b := t.inner.Tick()
	r := &evRec{Kind: "ret", B: b, Obs: "drop"}
	t.c.hist = append(t.c.hist, r)
	t.c.cur = r
	return b
}

type registrar struct{ s *sched }

func (r registrar) GetEngine() timing.Engine          { return r.s }
func (r registrar) RegisterComponent(_ naming.Named)  {}
func (r registrar) RegisterConnection(_ naming.Named) {}
func (r registrar) RegisterResource(_ naming.Named)   {}
func (r registrar) RegisterPort(_ naming.Named)       {}

func (w *world) buildNet() {
	n := w.in.Net
	c := &compRT{idx: len(w.comps), name: "Conn", w: w, in: compIn{F: n.F, Sec: true}}
	s := &sched{w: w, c: c}
	conn := directconnection.MakeBuilder().WithRegistrar(registrar{s}).
		WithSpec(directconnection.Spec{Freq: timing.Freq(n.F)}).Build(c.name)
	// same replacement the builder itself performs, with a recording ticker
	conn.Component.TickingComponent = modeling.NewSecondaryTickingComponent(
		c.name, s, timing.Freq(n.F), &tickRec{inner: conn.Component, c: c})
	c.tc = conn.Component.TickingComponent
	rec := &connRec{c: c, conn: conn, proxy: map[messaging.Port]messaging.Port{}}
	for _, k := range w.comps {
		k.port = messaging.NewPort(&owner{TickingComponent: k.tc, c: k}, n.InCap, n.OutCap, k.name+".Port")
		px := &proxyPort{Port: k.port, rec: rec}
		rec.proxy[k.port] = px
		conn.PlugIn(px)
	}
	w.conn = conn
	w.comps = append(w.comps, c)
}

type envEvent struct {
	timing.EventBase
	idx int
}

type envHandler struct{ w *world }

func (h *envHandler) Handle(e timing.Event) error {
	ev := e.(envEvent)
	for _, a := range h.w.in.Env[ev.idx].Acts {
		h.w.do(a)
	}
	return nil
}

type hook struct{ w *world }

func (h *hook) Func(ctx hooking.HookCtx) {
	e, ok := ctx.Item.(timing.Event)
	if !ok {
		return
	}
	if ctx.Pos == timing.HookPosAfterEvent {
		for _, c := range h.w.comps {
			c.cur = nil
		}
		return
	}
	if ctx.Pos != timing.HookPosBeforeEvent {
		return
	}
	t := uint64(e.Time())
	_, isTick := e.(modeling.TickEvent)
	for _, c := range h.w.comps {
		if isTick && e.HandlerID() == c.name {
			c.hist = append(c.hist, &evRec{Kind: "pop", T: t})
			continue
		}
		if n := len(c.hist); n > 0 && c.hist[n-1].Kind == "adv" && c.hist[n-1].T == t {
			continue
		}
		c.hist = append(c.hist, &evRec{Kind: "adv", T: t})
	}
}

type obsOut struct {
	Completed bool       `json:"completed"`
	Panic     string     `json:"panic,omitempty"`
	Hist      [][]*evRec `json:"hist"`
}

func execute(in input) obsOut {
	w := &world{eng: timing.NewSerialEngine(), in: in}
	w.eng.RegisterHandler("env", &envHandler{w})
	for i, ci := range in.Comps {
		c := &compRT{idx: i, name: fmt.Sprintf("Comp%d", i), in: ci, w: w}
		s := &sched{w: w, c: c}
		if ci.Sec {
			c.tc = modeling.NewSecondaryTickingComponent(c.name, s, timing.Freq(ci.F), c)
		} else {
			c.tc = modeling.NewTickingComponent(c.name, s, timing.Freq(ci.F), c)
		}
		w.comps = append(w.comps, c)
	}
	if in.Net != nil {
		w.buildNet()
	}
	w.eng.AcceptHook(&hook{w})
	for i, e := range in.Env {
		ev := envEvent{EventBase: timing.MakeEventBase(timing.VTimeInPicoSec(e.T), "env"), idx: i}
		ev.Secondary = e.Sec
		w.eng.Schedule(ev)
	}
	panicked, msg := hx.Try(func() { _ = w.eng.Run() })
	out := obsOut{Completed: !panicked, Panic: msg}
	for _, c := range w.comps {
		if panicked && c.cur != nil {
			c.cur.Obs = "panic"
			c.cur.ST = 0
		}
		out.Hist = append(out.Hist, c.hist)
	}
	return out
}

// ----------------------------------------------------------------- Coq

var kname = []string{"KTickNow", "KTickLater", "KNotifyRecv", "KNotifyPortFree"}

func coqObs(r *evRec) string {
	switch r.Obs {
	case "sched":
		return hx.App("OSched", hx.N(r.ST))
	case "panic":
		return "OPanic"
	}
	return "ODrop"
}

func coqEv(r *evRec) string {
	switch r.Kind {
	case "adv":
		return hx.App("EAdv", hx.N(r.T))
	case "pop":
		return hx.App("EPop", hx.N(r.T))
	case "call":
		return hx.App("ECall", kname[r.K], hx.N(r.T), coqObs(r))
	}
	return hx.App("ERet", hx.B(r.B), coqObs(r))
}

const ps = uint64(1_000_000_000_000)

func run(raw json.RawMessage) (hx.Case, error) {
	var in input
	if err := hx.UJ(raw, &in); err != nil {
		return hx.Case{}, err
	}
	o := execute(in)
	c := hx.Case{Obs: o}
	var comps []string
	drops, progress, c09, pops := 0, 0, 0, 0
	for i, h := range o.Hist {
		evs := make([]string, len(h))
		lastPop := map[uint64]bool{}
		for j, r := range h {
			evs[j] = coqEv(r)
			switch {
			case r.Kind == "pop":
				lastPop[r.T] = true
				pops++
			case r.Kind == "call" && r.K == 0 && lastPop[r.T]:
				// TickNow in the instant whose tick already ran (next edge scheduled since fix f717b29c)
				c09++
				if r.Obs == "drop" {
					drops++
				}
			case r.Kind == "call" && r.Obs == "drop":
				drops++
			case r.Kind == "ret" && r.B:
				progress++
			}
		}
		f := uint64(0)
		if i < len(in.Comps) {
			f = in.Comps[i].F
		} else {
			f = in.Net.F
		}
		comps = append(comps, hx.App("mk_comp", hx.N(f), hx.L(evs)))
	}
	c.Coq = hx.App("mk_case", hx.L(comps), hx.B(o.Completed))

	// tags
	periods := map[uint64]bool{}
	sec, self := false, false
	for i, ci := range in.Comps {
		if ci.F >= 1 && ci.F <= ps {
			periods[ps/ci.F] = true
		}
		sec = sec || ci.Sec
		for _, as := range ci.Acts {
			for _, a := range as {
				if a.Tgt == i {
					self = true
				}
			}
		}
	}
	var pl []uint64
	for p := range periods {
		pl = append(pl, p)
	}
	sort.Slice(pl, func(i, j int) bool { return pl[i] < pl[j] })
	nondiv := false
	for i := range pl {
		for j := i + 1; j < len(pl); j++ {
			if pl[j]%pl[i] != 0 {
				nondiv = true
			}
		}
	}
	tag := func(b bool, s string) {
		if b {
			c.Tags = append(c.Tags, s)
		}
	}
	tag(nondiv, "periods:non-dividing")
	tag(len(pl) > 1 && !nondiv, "periods:dividing")
	tag(len(pl) <= 1, "periods:single")
	tag(in.Net != nil, "real-ports+directconnection")
	tag(sec, "secondary-component")
	tag(self, "self-call-in-tick")
	tag(drops > 0, "guard-dropped-request")
	tag(c09 > 0, "ticknow-after-handled-same-instant")
	tag(progress > 0, "progress-retick")
	tag(!o.Completed, "run-aborted(overflow)")
	tag(pops == 0, "no-tick")
	// non-trivial: the dedup guard dropped at least one request, a tick made
	// progress, and at least three ticks were dispatched
	c.Nontrivial = drops > 0 && progress > 0 && pops >= 3
	return c, nil
}

// ----------------------------------------------------------------- generator

var freqPool = []uint64{
	1_000_000_000, 1_500_000_000, 2_000_000_000, 700_000_000, 3, 1, 7_000_000,
	ps, ps - 1, 600_000_000_000, 400_000_000_000, 333_000_000_000, 250_000_000_000,
	1_000_000, 999_999_937, 1_234_567_891, 30_000_000_000,
}

func genScript(r *hx.Rand, big bool) input {
	var in input
	nc := r.Range(1, 4)
	net := r.Chance(2, 5)
	if net {
		nc = r.Range(2, 4)
		in.Net = &netIn{F: []uint64{1_000_000_000, 1_000_000_000, 2_000_000_000, 700_000_000, 1_500_000_000, 3}[r.Intn(6)],
			InCap: r.Range(1, 2), OutCap: r.Range(1, 3)}
	}
	pickK := func() int {
		if net && r.Chance(3, 5) {
			return r.Pick(0, 0, 0, 0, 3, 2) // send / retrieve through the real ports
		}
		return r.Pick(2, 3, 3, 2)
	}
	var per []uint64
	for i := 0; i < nc; i++ {
		var f uint64
		switch r.Pick(6, 2, 1) {
		case 0:
			f = freqPool[r.Intn(len(freqPool))]
		case 1:
			f = 1 + r.U64n(ps)
		default:
			f = 1_000_000_000 * uint64(1+r.Intn(5))
		}
		per = append(per, ps/f)
		ci := compIn{F: f, Sec: r.Chance(1, 4)}
		nt := r.Range(0, 14)
		if big {
			nt = r.Range(5, 40)
		}
		for k := 0; k < nt; k++ {
			ci.Prog = append(ci.Prog, r.Chance(3, 5))
			var as []act
			for r.Chance(2, 5) {
				as = append(as, act{Tgt: r.Intn(nc), K: pickK()})
			}
			ci.Acts = append(ci.Acts, as)
		}
		in.Comps = append(in.Comps, ci)
	}
	// time scale: a few periods of a randomly chosen component
	ne := r.Range(1, 14)
	if big {
		ne = r.Range(8, 40)
	}
	base := per[r.Intn(nc)]
	for k := 0; k < ne; k++ {
		p := per[r.Intn(nc)]
		if r.Chance(1, 2) {
			p = base
		}
		var t uint64
		switch r.Pick(4, 2, 2, 3, 1) {
		case 0:
			t = uint64(r.Intn(12)) * p // on an edge
		case 1:
			t = uint64(r.Intn(12))*p + 1
		case 2:
			t = uint64(1+r.Intn(12))*p - 1
		case 3:
			t = r.U64n(12*p + 1)
		default:
			t = uint64(r.Intn(6)) * base
		}
		e := envIn{T: t, Sec: r.Chance(1, 4)}
		na := r.Range(1, 4)
		for j := 0; j < na; j++ {
			a := act{Tgt: r.Intn(nc), K: pickK(), Src: r.Intn(nc)}
			e.Acts = append(e.Acts, a)
			if r.Chance(1, 3) { // duplicate same-instant request
				e.Acts = append(e.Acts, act{Tgt: a.Tgt, K: pickK(), Src: a.Src})
			}
		}
		in.Env = append(in.Env, e)
	}
	return in
}

func directed() []input {
	var out []input
	tl := func(k int) []act { return []act{{Tgt: 0, K: k}} }
	for _, f := range []uint64{1_000_000_000, 1_500_000_000, 3, ps, 1, 7_000_000} {
		p := ps / f
		// duplicate same-instant requests before / at / after the tick
		out = append(out, input{Comps: []compIn{{F: f, Prog: []bool{true, true, false}, Acts: [][]act{{{Tgt: 0, K: 1}}, {{Tgt: 0, K: 0}}, nil}}},
			Env: []envIn{{T: 0, Acts: []act{{Tgt: 0, K: 0}, {Tgt: 0, K: 0}, {Tgt: 0, K: 1}, {Tgt: 0, K: 2}}},
				{T: p, Acts: []act{{Tgt: 0, K: 3}, {Tgt: 0, K: 3}, {Tgt: 0, K: 0}}},
				{T: p, Sec: true, Acts: []act{{Tgt: 0, K: 0}, {Tgt: 0, K: 1}}},
				{T: 2*p + 1, Acts: tl(0)}, {T: 2*p + 1, Acts: tl(1)}, {T: 3*p - 1, Acts: tl(2)}}})
		// TickNow after the tick at the same instant was handled: the next clock edge is scheduled (fix f717b29c; it was dropped before, F-C09-1)
		out = append(out, input{Comps: []compIn{{F: f, Prog: []bool{false}}},
			Env: []envIn{{T: 5 * p, Acts: tl(0)}, {T: 5 * p, Sec: true, Acts: tl(0)}}})
		// TickLater then TickNow at an edge: TickNow is absorbed by the later tick
		out = append(out, input{Comps: []compIn{{F: f, Prog: []bool{true, false}}},
			Env: []envIn{{T: 4 * p, Acts: []act{{Tgt: 0, K: 1}, {Tgt: 0, K: 0}}}, {T: 4*p + p/2, Acts: tl(0)}}})
		// two components, one secondary, cross notifications from inside Tick()
		out = append(out, input{Comps: []compIn{
			{F: f, Prog: []bool{true, true, true, false}, Acts: [][]act{{{Tgt: 1, K: 2}}, {{Tgt: 1, K: 3}, {Tgt: 1, K: 2}}, {{Tgt: 0, K: 1}}, nil}},
			{F: 1_500_000_000, Sec: true, Prog: []bool{true, false, true}, Acts: [][]act{{{Tgt: 0, K: 2}}, {{Tgt: 0, K: 0}}, nil}}},
			Env: []envIn{{T: 1, Acts: []act{{Tgt: 0, K: 2}, {Tgt: 1, K: 2}}}, {T: 3 * p, Acts: []act{{Tgt: 1, K: 0}, {Tgt: 0, K: 3}}}}})
	}
	// real ports + a real direct connection (1 GHz, secondary) between a 1.5 GHz and a 700 MHz component:
	// request/reply ping-pong with retrievals, capacity-1 buffers (port-free notifications)
	for _, cf := range []uint64{1_000_000_000, 3, 2_000_000_000} {
		snd := func(to int) act { return act{Tgt: to, K: 4} }
		rcv := act{K: 5}
		out = append(out, input{Net: &netIn{F: cf, InCap: 1, OutCap: 1},
			Comps: []compIn{
				{F: 1_500_000_000, Prog: []bool{true, true, true, false, true, false},
					Acts: [][]act{{snd(1)}, {snd(1)}, {rcv, snd(1)}, {rcv}, {rcv, snd(1)}, {rcv}}},
				{F: 700_000_000, Sec: true, Prog: []bool{true, false, true, true, false},
					Acts: [][]act{{rcv, snd(0)}, {rcv}, {rcv, snd(0)}, {rcv, snd(0)}, {rcv}}}},
			Env: []envIn{{T: 1, Acts: []act{{Tgt: 1, K: 4, Src: 0}, {Tgt: 1, K: 4, Src: 0}}},
				{T: 5000, Acts: []act{{Tgt: 0, K: 4, Src: 1}, {K: 5, Src: 0}, {K: 5, Src: 1}}},
				{T: 5000, Sec: true, Acts: []act{{Tgt: 1, K: 4, Src: 0}}}}})
	}
	// near 2^64: the next edge is not representable
	top := ^uint64(0)
	out = append(out,
		input{Comps: []compIn{{F: 1, Prog: []bool{true}}}, Env: []envIn{{T: top - 500_000_000_000, Acts: tl(2)}}},
		input{Comps: []compIn{{F: 1, Prog: []bool{true}}}, Env: []envIn{{T: top - 500_000_000_000, Acts: tl(0)}}},
		// first request after the last representable edge: the wrapped tick time is in the past, engine.Schedule panics
		input{Comps: []compIn{{F: 1, Prog: []bool{true}}}, Env: []envIn{{T: (top/ps)*ps + 5, Acts: tl(2)}}},
		input{Comps: []compIn{{F: 1, Prog: []bool{true}}}, Env: []envIn{{T: (top/ps)*ps + 5, Acts: tl(0)}}},
		input{Comps: []compIn{{F: 3, Prog: []bool{true}}, {F: 1_000_000_000, Prog: []bool{true, true}}},
			Env: []envIn{{T: 7, Acts: []act{{Tgt: 1, K: 2}}}, {T: top - 1000, Acts: []act{{Tgt: 1, K: 1}, {Tgt: 0, K: 3}}}}},
		input{Comps: []compIn{{F: 1, Prog: []bool{true, true}}}, Env: []envIn{{T: (top/ps)*ps - 5, Acts: tl(0)}}},
		input{Comps: []compIn{{F: 1, Prog: []bool{false}}}, Env: []envIn{{T: (top/ps)*ps - 5, Acts: tl(0)}, {T: (top / ps) * ps, Sec: true, Acts: []act{{Tgt: 0, K: 1}, {Tgt: 0, K: 0}}}}},
		input{Comps: []compIn{{F: 1_000_000_000, Prog: []bool{true, true, true}}}, Env: []envIn{{T: top - 2500, Acts: tl(1)}}},
		input{Comps: []compIn{{F: ps, Prog: []bool{true, true, true}}}, Env: []envIn{{T: top - 2, Acts: tl(1)}}},
	)
	return out
}

func gen(r *hx.Rand, tier string) []json.RawMessage {
	n, nbig := 340, 24
	if tier == "thorough" {
		n, nbig = 4000, 400
	}
	var out []json.RawMessage
	for _, in := range directed() {
		out = append(out, hx.J(in))
	}
	for i := 0; i < nbig; i++ {
		out = append(out, hx.J(genScript(r, true)))
	}
	for len(out) < n {
		out = append(out, hx.J(genScript(r, false)))
	}
	return out
}

func shrink(raw json.RawMessage) []json.RawMessage {
	var in input
	if hx.UJ(raw, &in) != nil {
		return nil
	}
	var out []json.RawMessage
	clone := func() input {
		var c input
		_ = json.Unmarshal(hx.J(in), &c)
		return c
	}
	for i := range in.Env {
		c := clone()
		c.Env = append(c.Env[:i], c.Env[i+1:]...)
		out = append(out, hx.J(c))
	}
	for i := range in.Env {
		for j := range in.Env[i].Acts {
			c := clone()
			c.Env[i].Acts = append(c.Env[i].Acts[:j], c.Env[i].Acts[j+1:]...)
			out = append(out, hx.J(c))
		}
	}
	for i := range in.Comps {
		if n := len(in.Comps[i].Prog); n > 0 {
			c := clone()
			c.Comps[i].Prog = c.Comps[i].Prog[:n-1]
			if len(c.Comps[i].Acts) >= n {
				c.Comps[i].Acts = c.Comps[i].Acts[:n-1]
			}
			out = append(out, hx.J(c))
		}
		for k := range in.Comps[i].Acts {
			if len(in.Comps[i].Acts[k]) > 0 {
				c := clone()
				c.Comps[i].Acts[k] = nil
				out = append(out, hx.J(c))
			}
		}
	}
	return out
}

func init() {
	hx.Register(&hx.Prop{
		ID:      "C12",
		Imports: "From Akita Require Import Lib.Base C12.Model C12.Exec.",
		Rule: "directed scripts (duplicate same-instant TickNow/TickLater/notify before, at and after the tick; TickNow after the " +
			"handled tick; cross notifications between a primary and a secondary component; next edge beyond 2^64) for 1 Hz, 3 Hz, " +
			"7 MHz, 1 GHz, 1.5 GHz, 1 THz; plus random scripts: 1-4 TickingComponents (frequency from a pool incl. non-dividing " +
			"periods 666/1428/3/2/1 ps, uniform in [1,10^12], or k GHz; 1/4 secondary), Tick() scripts with progress bits (p=3/5) and " +
			"calls on any component incl. itself; 2/5 of the scripts add real messaging ports (capacity 1-3) and a real " +
			"noc/directconnection (1/2/0.7/1.5 GHz or 3 Hz, secondary ticks) so that NotifyRecv/NotifyPortFree/TickNow come from " +
			"real sends, deliveries and retrievals and the connection is itself a replayed ticking component; 1-40 environment events (primary/secondary) on edges, edge+-1 or uniform times, " +
			"each issuing 1-4 calls with a duplicate same-instant request with p=1/3. Non-trivial: the guard dropped a request, " +
			"a tick made progress and >= 3 ticks were dispatched. Distinct = distinct input hash.",
		Gen: gen, Run: run, Shrink: shrink,
	})
}
