// Package c16 ties the Coq byte kernels of C16 to the real controllers and
// caches (exact, through tiny assemblies) and checks trace inclusion of the
// requester-view acceptor on random memory hierarchies.
package c16

import (
	"encoding/json"
	"fmt"

	"github.com/sarchlab/akita/v5/mem/cache"
	"github.com/sarchlab/akita/v5/mem/vm"

	"verifharness/internal/hx"
	"verifharness/internal/memasm"
)

type input struct {
	Kind  string         `json:"kind"` // ctl | line | trace | ideal
	Cfg   *memasm.Config `json:"cfg,omitempty"`
	Ideal *idealInput    `json:"ideal,omitempty"`
	Init  []byte         `json:"init,omitempty"`
	Base  uint64         `json:"base,omitempty"`
}

type obs struct {
	Panicked bool   `json:"panicked,omitempty"`
	Msg      string `json:"msg,omitempty"`
	Final    []byte `json:"final,omitempty"`
	Present  bool   `json:"present,omitempty"`
	Events   int    `json:"events,omitempty"`
	Pending  int    `json:"pending,omitempty"`
	Done     bool   `json:"script_done,omitempty"`
}

func coqMask(m []bool) string {
	if m == nil {
		return hx.None()
	}
	s := make([]string, len(m))
	for i, b := range m {
		s[i] = hx.B(b)
	}
	return hx.Some(hx.L(s))
}

// CoqTrace prints the agent's data events as a term of type list C16.Model.ev.
func CoqTrace(evs []memasm.Event) string {
	var out []string
	for _, e := range evs {
		switch e.Kind {
		case "send":
			out = append(out, hx.App("Send", hx.App("Rq", hx.N(e.ID), hx.B(e.Op == "W"), hx.N(e.Addr), hx.N(e.Size),
				hx.Bytes(e.Data), coqMask(e.Mask), hx.Str(e.Src))))
		case "recv":
			out = append(out, hx.App("Recv", hx.B(e.Op == "D"), hx.N(e.RspTo), hx.Str(e.Dst), hx.Bytes(e.Data)))
		}
	}
	return hx.L(out)
}

func writesOf(cfg *memasm.Config, rel uint64) string {
	var ws []string
	for _, op := range cfg.Script {
		if op.Kind == "W" {
			ws = append(ws, hx.T(hx.N(op.Addr-rel), hx.Bytes(op.Data), coqMask(op.Mask)))
		}
	}
	return hx.L(ws)
}

func run(raw json.RawMessage) (hx.Case, error) {
	var in input
	if err := hx.UJ(raw, &in); err != nil {
		return hx.Case{}, err
	}
	if in.Kind == "ideal" {
		return runIdeal(*in.Ideal)
	}
	var c hx.Case
	o := obs{}
	a := memasm.Build(*in.Cfg)
	switch in.Kind {
	case "ctl":
		if err := a.Stores[a.ModuleOf(in.Base)].Write(in.Base, in.Init); err != nil {
			return c, err
		}
		o.Panicked, o.Msg = hx.Try(func() { a.Run() })
		final := hx.None()
		if !o.Panicked {
			o.Final = a.BackingRead(in.Base, uint64(len(in.Init)))
			final = hx.Some(hx.Bytes(o.Final))
		}
		o.Pending = a.Pending()
		c.Coq = hx.App("KCtl", hx.Bytes(in.Init), hx.N(in.Base), writesOf(in.Cfg, 0), final)
		c.Tags = []string{"ctl:" + in.Cfg.Mem.Kind}
		masked := false
		for _, op := range in.Cfg.Script {
			if op.Mask != nil {
				masked = true
			}
		}
		if o.Panicked {
			c.Tags = append(c.Tags, "ctl:panic")
		}
		c.Nontrivial = masked && !o.Panicked
	case "line":
		if err := a.Stores[a.ModuleOf(in.Base)].Write(in.Base, in.Init); err != nil {
			return c, err
		}
		o.Panicked, o.Msg = hx.Try(func() { a.Run() })
		if o.Panicked {
			return c, fmt.Errorf("line kernel run panicked: %s", o.Msg)
		}
		o.Pending = a.Pending()
		d := a.Dirs()[0]
		var pid uint32
		if len(in.Cfg.Script) > 0 {
			pid = in.Cfg.Script[0].PID
		}
		set, way, found := cache.DirectoryLookup(&d.Dir, d.NumSets, d.BlockSize, vm.PID(pid), in.Base)
		kind := in.Cfg.Caches[0].Kind
		c.Tags = []string{"line:" + kind}
		if !found || o.Pending != 0 {
			c.Coq = hx.App("KLine", hx.Bytes(in.Init), hx.L(nil), hx.Bytes(in.Init), hx.None())
			c.Tags = append(c.Tags, "line:absent")
			break
		}
		b := d.Dir.Sets[set].Blocks[way]
		data, err := a.CacheStores[0].Read(b.CacheAddress, uint64(d.BlockSize))
		if err != nil {
			return c, err
		}
		o.Final, o.Present = data, true
		dm := hx.None()
		if kind == "writeback" && b.DirtyMask != nil {
			dm = coqMask(b.DirtyMask)
		}
		c.Coq = hx.App("KLine", hx.Bytes(in.Init), writesOf(in.Cfg, in.Base), hx.Bytes(data), dm)
		c.Nontrivial = true
	case "trace":
		o.Panicked, o.Msg = hx.Try(func() { a.Run() })
		o.Pending, o.Done, o.Events = a.Pending(), a.ScriptDone(), len(a.Agent.Log)
		tr := CoqTrace(a.Agent.Log)
		if o.Panicked { // a panic leaves requests unanswered: the acceptor rejects
			c.Tags = append(c.Tags, "trace:panic")
		}
		c.Coq = hx.App("Trace", tr)
		comp := ""
		if in.Cfg.ROB != nil {
			comp = "rob>"
			c.Tags = append(c.Tags, "comp:rob")
		}
		for _, cc := range in.Cfg.Caches {
			comp += cc.Kind + ">"
			c.Tags = append(c.Tags, "comp:"+cc.Kind)
		}
		c.Tags = append(c.Tags, "comp:"+in.Cfg.Mem.Kind, fmt.Sprintf("levels:%d", len(in.Cfg.Caches)))
		if in.Cfg.Mem.NumModules > 1 {
			c.Tags = append(c.Tags, "comp:interleaved")
		}
		// non-trivial: at least one cache or a ROB, and >= 20 requests answered
		c.Nontrivial = (len(in.Cfg.Caches) > 0 || in.Cfg.ROB != nil) && o.Events >= 40
	default:
		return c, fmt.Errorf("unknown kind %q", in.Kind)
	}
	c.Obs = o
	return c, nil
}

func randMask(r *hx.Rand, n int) []bool {
	switch r.Pick(3, 4, 1, 1) {
	case 0:
		return nil
	case 1:
		m := make([]bool, n)
		for i := range m {
			m[i] = r.Bool()
		}
		return m
	case 2:
		m := make([]bool, n)
		for i := range m {
			m[i] = true
		}
		return m
	default:
		return make([]bool, n)
	}
}

func nz(r *hx.Rand, n int) []byte {
	b := r.Bytes(n)
	for i := range b {
		if b[i] == 0 {
			b[i] = 0xA5
		}
	}
	return b
}

// kernelWrites draws 1..4 writes inside [base, base+line).
func kernelWrites(r *hx.Rand, base, line uint64, seq bool, shortMask bool) []memasm.Op {
	var ops []memasm.Op
	n := 1 + r.Intn(4)
	for i := 0; i < n; i++ {
		size := 1 + r.U64n(line)
		if r.Chance(1, 4) {
			size = line
		}
		off := r.U64n(line - size + 1)
		op := memasm.Op{Kind: "W", Addr: base + off, Data: nz(r, int(size)), Mask: randMask(r, int(size)), Barrier: seq}
		if shortMask && i == n-1 && size > 1 {
			op.Mask = make([]bool, size-1)
			for k := range op.Mask {
				op.Mask[k] = r.Bool()
			}
		}
		ops = append(ops, op)
	}
	return ops
}

func gen(r *hx.Rand, tier string) []json.RawMessage {
	nctl, nline, ntrace, nops := 60, 60, 110, 50
	if tier == "thorough" {
		nctl, nline, ntrace, nops = 500, 500, 800, 70
	}
	var out []json.RawMessage
	add := func(in input) { out = append(out, hx.J(in)) }
	// ---- controller kernels
	for i := 0; i < nctl; i++ {
		kind := []string{"ideal", "banked", "dram"}[i%3]
		m := memasm.RandomMem(r, kind, 64)
		cfg := memasm.Config{Mem: m, Agent: memasm.AgentCfg{MaxInflight: 1, IssueWidth: 1, PortBuf: 4}}
		base := []uint64{0, 64, 0x1000, 0xfff00000, 0x12340}[r.Intn(5)] / 64 * 64
		short := r.Chance(1, 15)
		cfg.Script = kernelWrites(r, base, 64, true, short)
		add(input{Kind: "ctl", Cfg: &cfg, Init: r.Bytes(64), Base: base})
	}
	// ---- cache line kernels
	for i := 0; i < nline; i++ {
		kind := []string{"writeback", "write-through", "write-around", "writeback"}[i%4]
		lb := uint64(4 + r.Intn(3))
		line := uint64(1) << lb
		cc := memasm.RandomCache(r, kind, lb)
		m := memasm.RandomMem(r, "ideal", 64)
		m.NumModules = 1
		cfg := memasm.Config{Caches: []memasm.CacheCfg{cc}, Mem: m,
			Agent: memasm.AgentCfg{MaxInflight: 1 + r.Intn(4), IssueWidth: 1, PortBuf: 4}}
		base := []uint64{0, 64, 0x1000, 0xfff00000}[r.Intn(4)] / line * line
		seq := r.Bool()
		var ops []memasm.Op
		if kind == "write-around" || r.Bool() {
			ops = append(ops, memasm.Op{Kind: "R", Addr: base + r.U64n(line), Size: 1, Barrier: true})
			if kind == "write-around" {
				seq = true
				ops = append(ops, memasm.Op{Kind: "R", Addr: base, Size: 1, Barrier: true})
			}
		}
		ops = append(ops, kernelWrites(r, base, line, seq, false)...)
		cfg.Script = ops
		add(input{Kind: "line", Cfg: &cfg, Init: r.Bytes(int(line)), Base: base})
	}
	// ---- L1: ideal controller tick by tick
	nideal := 40
	if tier == "thorough" {
		nideal = 500
	}
	for i := 0; i < nideal; i++ {
		ii := genIdeal(r)
		add(input{Kind: "ideal", Ideal: &ii})
	}
	// ---- traces of whole hierarchies
	kinds := []string{"writeback", "write-around", "write-evict", "write-through"}
	mems := []string{"ideal", "banked", "dram"}
	for i := 0; i < ntrace; i++ {
		o := memasm.GenOpts{AllowROB: true, NOps: nops/2 + r.Intn(nops), PIDs: (i / 3) % 3, MaxCaches: 3}
		switch i % 4 {
		case 0: // every (top kind, memory kind) pair is visited
			o.TopKind = kinds[(i/4)%4]
			o.MemKinds = []string{mems[(i/16)%3]}
		case 1:
			o.MinCaches = 2
		}
		cfg := memasm.RandomConfig(r, o)
		add(input{Kind: "trace", Cfg: &cfg})
	}
	return out
}

func shrink(raw json.RawMessage) []json.RawMessage {
	var in input
	if hx.UJ(raw, &in) != nil || in.Kind != "trace" {
		return nil
	}
	var out []json.RawMessage
	n := len(in.Cfg.Script)
	for _, chunk := range []int{n / 2, n / 4, n / 8, 2, 1} {
		if chunk < 1 {
			continue
		}
		for i := 0; i+chunk <= n; i += chunk {
			c2 := *in.Cfg
			c2.Script = append(append([]memasm.Op{}, in.Cfg.Script[:i]...), in.Cfg.Script[i+chunk:]...)
			in2 := in
			in2.Cfg = &c2
			out = append(out, hx.J(in2))
			if len(out) > 80 {
				return out
			}
		}
	}
	return out
}

func init() {
	hx.Register(&hx.Prop{
		ID:      "C16",
		Imports: "From Akita Require Import Lib.Base C16.Model C16.Ideal C16.Exec.",
		Rule: "ctl: 1-4 sequential (masked) writes into one pre-filled 64-byte line of a real ideal / banked / DRAM-preset controller, final storage " +
			"bytes read directly (1/15 with a too-short mask -> panic outcome). line: the same through one real write-back / write-through / write-around cache " +
			"(optionally pre-read, sequential or concurrent), observing the line in the cache's data array and the block's dirty mask. trace: random assemblies " +
			"[ROB]? -> 0..3 caches of the four kinds (random geometry, small enough to evict) -> 1..3 interleaved ideal/banked/DRAM modules; random script of " +
			"reads and full-line / partial / masked writes, PIDs, delays, barriers, 1..16 requests in flight (byte-disjoint at issue); every (top kind, memory kind) " +
			"pair is visited. ideal: the real ideal controller built stand-alone and driven tick by tick (deliveries, Tick(), partial retrieval: back-pressure) " +
			"with latency 0/1/2/5, width 1-3, outgoing capacity 1-3. Non-trivial: masked ctl write without panic / line present / trace through >=1 cache or ROB with >= 20 answered requests. Distinct = distinct input hash.",
		Gen: gen, Run: run, Shrink: shrink,
	})
}
