package c16

import (
	"fmt"

	"github.com/sarchlab/akita/v5/hooking"
	"github.com/sarchlab/akita/v5/mem"
	"github.com/sarchlab/akita/v5/mem/idealmemcontroller"
	"github.com/sarchlab/akita/v5/mem/memprotocol"
	"github.com/sarchlab/akita/v5/messaging"
	"github.com/sarchlab/akita/v5/modeling"
	"github.com/sarchlab/akita/v5/timing"

	"verifharness/internal/hx"
)

// ---- L1: the real ideal memory controller driven tick by tick

type idealReq struct {
	ID    uint64 `json:"id"`
	Write bool   `json:"w,omitempty"`
	Addr  uint64 `json:"a"`
	Size  uint64 `json:"n,omitempty"`
	Data  []byte `json:"d,omitempty"`
	Mask  []bool `json:"m,omitempty"`
}

type idealSlot struct {
	Deliver []idealReq `json:"deliver,omitempty"`
	Drain   int        `json:"drain"`
}

type idealInput struct {
	Width   int         `json:"width"`
	Latency int         `json:"latency"`
	BufIn   int         `json:"buf_in"`
	Cap     int         `json:"cap"`
	Base    uint64      `json:"base"`
	Len     int         `json:"len"`
	Sched   []idealSlot `json:"sched"`
}

type noConn struct {
	hooking.HookableBase
}

func (c *noConn) Name() string                   { return "NoConn" }
func (c *noConn) PlugIn(p messaging.Port)        { p.SetConnection(c) }
func (c *noConn) Unplug(messaging.Port)          {}
func (c *noConn) NotifyAvailable(messaging.Port) {}
func (c *noConn) NotifySend()                    {}

const idealSrc = "Req.Mem"

func coqReq(r idealReq) string {
	size := r.Size
	if r.Write {
		size = uint64(len(r.Data))
	}
	return hx.App("Rq", hx.N(r.ID), hx.B(r.Write), hx.N(r.Addr), hx.N(size), hx.Bytes(r.Data), coqMask(r.Mask), hx.Str(idealSrc))
}

func runIdeal(in idealInput) (hx.Case, error) {
	eng := timing.NewSerialEngine()
	reg := modeling.NewStandaloneRegistrar(eng)
	st := mem.NewStorage(4 * mem.GB)
	spec := idealmemcontroller.DefaultSpec()
	spec.Latency, spec.Width = in.Latency, in.Width
	c := idealmemcontroller.MakeBuilder().WithRegistrar(reg).WithSpec(spec).
		WithResources(idealmemcontroller.Resources{Storage: st}).Build("M")
	top := messaging.NewPort(c, in.BufIn, in.Cap, "M.Top")
	ctl := messaging.NewPort(c, 2, 2, "M.Control")
	c.AssignPort("Top", top)
	c.AssignPort("Control", ctl)
	conn := &noConn{}
	conn.PlugIn(top)
	conn.PlugIn(ctl)

	var slots, gots []string
	o := obs{}
	nresp := 0
	o.Panicked, o.Msg = hx.Try(func() {
		for _, sl := range in.Sched {
			var del []string
			for _, r := range sl.Deliver {
				if !top.CanDeliver() {
					continue // not delivered: the environment holds it back (dropped from the record)
				}
				var m messaging.Msg
				if r.Write {
					w := memprotocol.WriteReq{Address: r.Addr, Data: append([]byte{}, r.Data...)}
					if r.Mask != nil {
						w.DirtyMask = append([]bool{}, r.Mask...)
					}
					w.ID, w.Src, w.Dst = r.ID, idealSrc, top.AsRemote()
					m = w
				} else {
					rd := memprotocol.ReadReq{Address: r.Addr, AccessByteSize: r.Size}
					rd.ID, rd.Src, rd.Dst = r.ID, idealSrc, top.AsRemote()
					m = rd
				}
				top.Deliver(m)
				del = append(del, coqReq(r))
			}
			c.Tick()
			var got []string
			for k := 0; k < sl.Drain; k++ {
				m := top.RetrieveOutgoing()
				if m == nil {
					break
				}
				meta := m.Meta()
				switch r := m.(type) {
				case memprotocol.DataReadyRsp:
					got = append(got, hx.App("Recv", "true", hx.N(meta.RspTo), hx.Str(string(meta.Dst)), hx.Bytes(r.Data)))
				case memprotocol.WriteDoneRsp:
					got = append(got, hx.App("Recv", "false", hx.N(meta.RspTo), hx.Str(string(meta.Dst)), hx.Bytes(nil)))
				default:
					panic(fmt.Sprintf("unexpected %T", m))
				}
				nresp++
			}
			slots = append(slots, hx.App("Slot", hx.L(del), hx.Nat(sl.Drain)))
			gots = append(gots, hx.L(got))
		}
	})
	gotT := hx.None()
	final := []byte{}
	if !o.Panicked {
		gotT = hx.Some(hx.L(gots))
		final, _ = st.Read(in.Base, uint64(in.Len))
	} else {
		// the schedule record must still be complete for the model: rebuild it from the input
		slots = slots[:0]
		for _, sl := range in.Sched {
			var del []string
			for _, r := range sl.Deliver {
				del = append(del, coqReq(r))
			}
			slots = append(slots, hx.App("Slot", hx.L(del), hx.Nat(sl.Drain)))
		}
	}
	o.Final, o.Events = final, nresp
	cs := hx.Case{Obs: o}
	cs.Coq = hx.App("KIdeal", hx.Nat(in.Width), hx.N(uint64(in.Latency)), hx.Nat(in.Cap), hx.N(in.Base), hx.Nat(in.Len),
		hx.L(slots), gotT, hx.Bytes(final))
	cs.Tags = []string{"ideal-l1", fmt.Sprintf("ideal-l1:latency-%d", in.Latency)}
	if in.Cap == 1 {
		cs.Tags = append(cs.Tags, "ideal-l1:backpressure")
	}
	// non-trivial: at least 6 responses, some retrieved later than produced
	cs.Nontrivial = nresp >= 6
	return cs, nil
}

// genIdeal draws a tick schedule: byte-disjoint requests in flight (by the
// requester's view: until the response is retrieved), random drains, then a
// tail of draining ticks so that everything is answered.
func genIdeal(r *hx.Rand) idealInput {
	in := idealInput{Width: 1 + r.Intn(3), Latency: []int{0, 1, 2, 5}[r.Intn(4)], BufIn: 1 + r.Intn(4), Cap: 1 + r.Intn(3),
		Base: []uint64{0, 4096, 0xfff00000}[r.Intn(3)], Len: 64}
	nticks := 10 + r.Intn(20)
	id := uint64(1)
	// the model does not know about BufIn: deliver at most what certainly fits
	// (the harness also re-checks CanDeliver); in-flight bytes are tracked pessimistically
	// (never released) within a window, and the window is reset after a full drain.
	used := make([]bool, in.Len)
	outstanding := 0
	for t := 0; t < nticks; t++ {
		var sl idealSlot
		n := r.Intn(3)
		for k := 0; k < n && k < in.BufIn; k++ {
			size := 1 + r.Intn(8)
			off := r.Intn(in.Len - size + 1)
			free := true
			for i := off; i < off+size; i++ {
				free = free && !used[i]
			}
			if !free {
				continue
			}
			for i := off; i < off+size; i++ {
				used[i] = true
			}
			q := idealReq{ID: id, Addr: in.Base + uint64(off)}
			id++
			if r.Bool() {
				q.Write = true
				q.Data = nz(r, size)
				q.Mask = randMask(r, size)
			} else {
				q.Size = uint64(size)
			}
			sl.Deliver = append(sl.Deliver, q)
			outstanding++
		}
		sl.Drain = r.Intn(3)
		in.Sched = append(in.Sched, sl)
		if r.Chance(1, 5) || outstanding > 6 { // quiesce: drain everything, then the bytes are free again
			for q := 0; q < in.Latency+outstanding+in.BufIn+3; q++ {
				in.Sched = append(in.Sched, idealSlot{Drain: 4})
			}
			used = make([]bool, in.Len)
			outstanding = 0
		}
	}
	for q := 0; q < in.Latency+outstanding+in.BufIn+4; q++ {
		in.Sched = append(in.Sched, idealSlot{Drain: 4})
	}
	return in
}
