// Package c10 ties the Coq model of noc/directconnection (Lib/Conn.v, C10/Model.v)
// to a real DirectConnection with real ports. Two drivers produce the action log
// that Coq replays: "engine" (scripted sender/receiver components, real serial
// engine, the log is the order in which things really happened) and "direct"
// (an arbitrary sequence of Send / RetrieveIncoming / conn.Tick calls).
package c10

import (
	"encoding/json"
	"fmt"
	"sort"

	"github.com/sarchlab/akita/v5/hooking"
	"github.com/sarchlab/akita/v5/messaging"
	"github.com/sarchlab/akita/v5/modeling"
	"github.com/sarchlab/akita/v5/noc/directconnection"
	"github.com/sarchlab/akita/v5/timing"

	"verifharness/internal/hx"
	"verifharness/internal/px"
)

type actIn struct {
	K string    `json:"k"` // send | ret | tick | snap
	I int       `json:"i,omitempty"`
	M *px.MsgIn `json:"m,omitempty"`
}

type sendPlan struct {
	Cycle int      `json:"cycle"`
	M     px.MsgIn `json:"m"`
}

type agentIn struct {
	Sends     []sendPlan `json:"sends,omitempty"`
	Drain     []int      `json:"drain,omitempty"` // messages retrieved at cycle t
	DrainTail int        `json:"drain_tail,omitempty"`
}

type input struct {
	Mode    string     `json:"mode"`
	Caps    [][2]int64 `json:"caps"`
	Acts    []actIn    `json:"acts,omitempty"`
	Agents  []agentIn  `json:"agents,omitempty"`
	Horizon int        `json:"horizon,omitempty"`
}

type snapT struct {
	NI, NO int
	HI, HO *uint64
}

type obsT struct {
	K     string     `json:"k"`
	I     int        `json:"i,omitempty"`
	M     *px.MsgIn  `json:"m,omitempty"`
	OK    *bool      `json:"ok,omitempty"`
	Deliv [][2]any   `json:"deliv,omitempty"`
	Snap  []snapT    `json:"snap,omitempty"`
	Next  int        `json:"next,omitempty"`
	act   string
	coq   string
}

// ---------------------------------------------------------------- world

type world struct {
	engine *timing.SerialEngine
	conn   *directconnection.Comp
	ports  []messaging.Port
	agents []*agent
	log    []obsT
	deliv  []string // Coq terms of deliveries since the last tick record
	delivJ [][2]any
	broken bool
}

type agent struct {
	*modeling.TickingComponent
	w       *world
	idx     int
	plan    agentIn
	nextSnd int
	horizon int
}

type recvHook struct {
	w   *world
	idx int
}

func (h *recvHook) Func(ctx hooking.HookCtx) {
	if ctx.Pos != messaging.HookPosPortMsgRecvd {
		return
	}
	m, ok := ctx.Item.(messaging.Msg)
	if !ok {
		h.w.broken = true
		return
	}
	b, ok := px.Back(m)
	if !ok {
		h.w.broken = true
		return
	}
	h.w.deliv = append(h.w.deliv, hx.T(hx.Nat(h.idx), px.CoqMsg(b)))
	h.w.delivJ = append(h.w.delivJ, [2]any{h.idx, b})
}

func idp(m messaging.Msg) *uint64 {
	if m == nil {
		return nil
	}
	v := m.Meta().ID
	return &v
}

func coqON(p *uint64) string {
	if p == nil {
		return hx.None()
	}
	return hx.Some(hx.N(*p))
}

func (w *world) snapshot() ([]snapT, string, int) {
	var s []snapT
	var terms []string
	for _, p := range w.ports {
		x := snapT{p.NumIncoming(), p.NumOutgoing(), idp(p.PeekIncoming()), idp(p.PeekOutgoing())}
		s = append(s, x)
		terms = append(terms, hx.T(hx.Z(int64(x.NI)), hx.Z(int64(x.NO)), coqON(x.HI), coqON(x.HO)))
	}
	return s, hx.L(terms), w.conn.State.NextPortID
}

func (w *world) doSend(i int, m px.MsgIn) {
	act := hx.App("ASend", hx.Nat(i), px.CoqMsg(m))
	p := w.ports[i]
	if !p.CanSend() {
		f := false
		w.log = append(w.log, obsT{K: "send", I: i, M: &m, OK: &f, act: act, coq: "(OSent false)"})
		return
	}
	if pan, _ := hx.Try(func() { p.Send(px.Make(m)) }); pan {
		w.log = append(w.log, obsT{K: "send-panic", I: i, M: &m, act: act, coq: "OPanic"})
		w.broken = true
		return
	}
	t := true
	w.log = append(w.log, obsT{K: "send", I: i, M: &m, OK: &t, act: act, coq: "(OSent true)"})
}

func (w *world) doRet(i int) {
	act := hx.App("ARetrieve", hx.Nat(i))
	m := w.ports[i].RetrieveIncoming()
	if m == nil {
		w.log = append(w.log, obsT{K: "ret", I: i, act: act, coq: "(OGot None)"})
		return
	}
	b, ok := px.Back(m)
	if !ok {
		w.log = append(w.log, obsT{K: "ret-altered", I: i, act: act, coq: "OPanic"})
		return
	}
	w.log = append(w.log, obsT{K: "ret", I: i, M: &b, act: act, coq: hx.App("OGot", hx.Some(px.CoqMsg(b)))})
}

func (w *world) recordTick() {
	s, st, next := w.snapshot()
	w.log = append(w.log, obsT{K: "tick", Deliv: w.delivJ, Snap: s, Next: next, act: "ATick",
		coq: hx.App("OTick", hx.L(w.deliv), st, hx.Nat(next))})
	w.deliv, w.delivJ = nil, nil
}

func (w *world) recordSnap() {
	s, st, next := w.snapshot()
	w.log = append(w.log, obsT{K: "snap", Snap: s, Next: next, act: "ASnap", coq: hx.App("OSnap", st, hx.Nat(next))})
}

// Tick follows the script while it lasts (one tick per cycle up to the horizon) and
// afterwards behaves like an ordinary component: it runs when notified, retries
// blocked sends, drains DrainTail messages per tick and reports progress when it
// sent or retrieved something - so a receiver with DrainTail > 0 drains its input
// completely and the run ends only when nothing more can happen.
func (a *agent) Tick() bool {
	cycle := int(a.w.engine.CurrentTime() / 1000)
	did := false
	for a.nextSnd < len(a.plan.Sends) && a.plan.Sends[a.nextSnd].Cycle <= cycle {
		before := len(a.w.log)
		a.w.doSend(a.idx, a.plan.Sends[a.nextSnd].M)
		if r := a.w.log[before]; r.OK == nil || !*r.OK {
			break // blocked: retry when the port frees up / next cycle
		}
		a.nextSnd++
		did = true
	}
	d := a.plan.DrainTail
	if cycle < len(a.plan.Drain) {
		d = a.plan.Drain[cycle]
	}
	for k := 0; k < d; k++ {
		before := len(a.w.log)
		a.w.doRet(a.idx)
		if a.w.log[before].M != nil {
			did = true
		}
	}
	return did || cycle < a.horizon
}

type engHook struct{ w *world }

func (h *engHook) Func(ctx hooking.HookCtx) {
	evt, ok := ctx.Item.(timing.Event)
	if !ok || evt.HandlerID() != "Conn" {
		return
	}
	if ctx.Pos == timing.HookPosAfterEvent {
		h.w.recordTick()
	}
}

func build(in input) *world {
	w := &world{engine: timing.NewSerialEngine()}
	reg := modeling.NewStandaloneRegistrar(w.engine)
	w.conn = directconnection.MakeBuilder().WithRegistrar(reg).Build("Conn")
	for k, c := range in.Caps {
		a := &agent{w: w, idx: k, horizon: in.Horizon}
		if k < len(in.Agents) {
			a.plan = in.Agents[k]
		}
		a.TickingComponent = modeling.NewTickingComponent(fmt.Sprintf("Agent%d", k), w.engine, 1*timing.GHz, a)
		p := messaging.NewPort(a, int(c[0]), int(c[1]), px.PortName(k+1))
		p.AcceptHook(&recvHook{w: w, idx: k})
		w.conn.PlugIn(p)
		w.ports = append(w.ports, p)
		w.agents = append(w.agents, a)
	}
	return w
}

func run(raw json.RawMessage) (hx.Case, error) {
	var in input
	if err := hx.UJ(raw, &in); err != nil {
		return hx.Case{}, err
	}
	w := build(in)
	tags := map[string]bool{"mode:" + in.Mode: true, fmt.Sprintf("ports:%d", len(in.Caps)): true}
	switch in.Mode {
	case "engine":
		w.engine.AcceptHook(&engHook{w: w})
		for _, a := range w.agents {
			a.TickNow()
		}
		if pan, msg := hx.Try(func() { w.engine.Run() }); pan {
			w.log = append(w.log, obsT{K: "run-panic:" + msg, act: "ATick", coq: "OPanic"})
			w.broken = true
		}
		if !w.broken {
			w.recordSnap()
		}
	default:
		for _, a := range in.Acts {
			if w.broken {
				break
			}
			switch a.K {
			case "send":
				if a.I < len(w.ports) && a.M != nil {
					w.doSend(a.I, *a.M)
				}
			case "ret":
				if a.I < len(w.ports) {
					w.doRet(a.I)
				}
			case "tick":
				if pan, _ := hx.Try(func() { w.conn.Tick() }); pan {
					w.log = append(w.log, obsT{K: "tick-panic", act: "ATick", coq: "OPanic"})
					w.broken = true
					tags["tick:panic"] = true
				} else {
					w.recordTick()
				}
			case "snap":
				w.recordSnap()
			}
		}
		if !w.broken {
			w.recordSnap()
		}
	}
	var caps, terms []string
	for _, c := range in.Caps {
		caps = append(caps, hx.T(hx.Z(c[0]), hx.Z(c[1])))
	}
	deliveries, blockedTicks, refused := 0, 0, 0
	srcs := map[int]bool{}
	for _, o := range w.log {
		terms = append(terms, hx.T(o.act, o.coq))
		switch o.K {
		case "tick":
			deliveries += len(o.Deliv)
			for _, d := range o.Deliv {
				srcs[d[1].(px.MsgIn).Src] = true
			}
			for _, s := range o.Snap {
				if s.NO > 0 {
					blockedTicks++
					break
				}
			}
		case "send":
			if o.OK != nil && !*o.OK {
				refused++
			}
		}
	}
	if blockedTicks > 0 {
		tags["backpressure:head-blocked-after-tick"] = true
	}
	if refused > 0 {
		tags["backpressure:send-refused"] = true
	}
	if deliveries == 0 {
		tags["deliveries:0"] = true
	} else if deliveries < 10 {
		tags["deliveries:1-9"] = true
	} else {
		tags["deliveries:10+"] = true
	}
	c := hx.Case{Obs: w.log}
	quiescent := in.Mode == "engine" && !w.broken
	if quiescent {
		tags["quiescent-scan"] = true
	}
	asym := false
	for _, cp := range in.Caps {
		if cp[0] != cp[1] {
			asym = true
		}
	}
	if asym {
		tags["ports:asymmetric-capacities"] = true
	}
	c.Coq = hx.App("mk_case", hx.L(caps), hx.B(quiescent), hx.L(terms))
	for t := range tags {
		c.Tags = append(c.Tags, t)
	}
	sort.Strings(c.Tags)
	c.Nontrivial = deliveries >= 5 && blockedTicks > 0 && len(srcs) >= 2
	return c, nil
}

// ---------------------------------------------------------------- generators

func genCaps(r *hx.Rand, n int) [][2]int64 {
	caps := make([][2]int64, n)
	for i := range caps {
		caps[i] = [2]int64{int64(r.Range(1, 4)), int64(r.Range(1, 4))}
		if r.Chance(1, 15) {
			caps[i][r.Intn(2)] = 0
		}
	}
	return caps
}

func genDirect(r *hx.Rand, tier string) input {
	n := r.Range(2, 8)
	in := input{Mode: "direct", Caps: genCaps(r, n)}
	ln := r.Range(10, 80)
	if tier == "thorough" && r.Chance(1, 8) {
		ln = r.Range(100, 400)
	}
	id := uint64(0)
	hot := r.Intn(n) // a destination many senders target
	stalled := map[int]bool{}
	for i := 0; i < n; i++ {
		if r.Chance(1, 3) {
			stalled[i] = true
		}
	}
	for len(in.Acts) < ln {
		switch r.Pick(10, 5, 4, 1) {
		case 0:
			src := r.Intn(n)
			dst := hot
			if r.Chance(1, 2) || dst == src {
				dst = r.Intn(n)
				if dst == src {
					dst = (dst + 1) % n
				}
			}
			id++
			in.Acts = append(in.Acts, actIn{K: "send", I: src, M: &px.MsgIn{ID: id, Src: src + 1, Dst: dst + 1, Data: r.U64n(1 << 20)}})
		case 1:
			i := r.Intn(n)
			if stalled[i] && !r.Chance(1, 10) {
				continue
			}
			in.Acts = append(in.Acts, actIn{K: "ret", I: i})
		case 2:
			in.Acts = append(in.Acts, actIn{K: "tick"})
		default:
			if r.Chance(1, 4) {
				for i := range stalled { // stalled receivers wake up, others fall asleep
					delete(stalled, i)
				}
				stalled[r.Intn(n)] = true
			}
			in.Acts = append(in.Acts, actIn{K: "snap"})
		}
	}
	return in
}

func genEngine(r *hx.Rand, tier string) input {
	n := r.Range(2, 8)
	horizon := r.Range(6, 30)
	if tier == "thorough" && r.Chance(1, 8) {
		horizon = r.Range(40, 120)
	}
	in := input{Mode: "engine", Caps: genCaps(r, n), Horizon: horizon}
	id := uint64(0)
	hot := r.Intn(n)
	for k := 0; k < n; k++ {
		var a agentIn
		// sender: bursts (refilling as soon as the port frees up) or a trickle
		nmsg := r.Intn(12)
		cyc := r.Intn(3)
		for j := 0; j < nmsg; j++ {
			dst := hot
			if r.Chance(1, 2) || dst == k {
				dst = r.Intn(n)
				if dst == k {
					dst = (dst + 1) % n
				}
			}
			id++
			a.Sends = append(a.Sends, sendPlan{Cycle: cyc, M: px.MsgIn{ID: id, Src: k + 1, Dst: dst + 1, Data: r.U64n(1 << 20)}})
			if r.Chance(1, 3) {
				cyc += r.Intn(4)
			}
		}
		// receiver: drains with stalls
		switch r.Pick(3, 3, 2, 1) {
		case 0: // prompt
			a.DrainTail = 2
			for t := 0; t < horizon; t++ {
				a.Drain = append(a.Drain, 1+r.Intn(2))
			}
		case 1: // long stall then drain
			st := r.Intn(horizon)
			for t := 0; t < horizon; t++ {
				if t < st {
					a.Drain = append(a.Drain, 0)
				} else {
					a.Drain = append(a.Drain, 1)
				}
			}
			a.DrainTail = 1
		case 2: // intermittent
			for t := 0; t < horizon; t++ {
				if r.Chance(1, 3) {
					a.Drain = append(a.Drain, r.Intn(3))
				} else {
					a.Drain = append(a.Drain, 0)
				}
			}
		default: // never drains
		}
		in.Agents = append(in.Agents, a)
	}
	return in
}

func gen(r *hx.Rand, tier string) []json.RawMessage {
	n := 350
	if tier == "thorough" {
		n = 4000
	}
	var out []json.RawMessage
	// directed: two ports, one message; head-of-line blocking on a stalled receiver with a refilling sender;
	// every port sending to one hot destination (round-robin fairness); an unplugged destination
	mk := func(id uint64, s, d int) *px.MsgIn { return &px.MsgIn{ID: id, Src: s + 1, Dst: d + 1, Data: id * 7} }
	out = append(out, hx.J(input{Mode: "direct", Caps: [][2]int64{{1, 1}, {1, 1}}, Acts: []actIn{
		{K: "send", I: 0, M: mk(1, 0, 1)}, {K: "tick"}, {K: "ret", I: 1}, {K: "tick"}}}))
	{
		acts := []actIn{}
		id := uint64(0)
		for round := 0; round < 6; round++ {
			for k := 0; k < 2; k++ {
				id++
				acts = append(acts, actIn{K: "send", I: 0, M: mk(id, 0, 1+k%2)})
			}
			acts = append(acts, actIn{K: "tick"})
			if round >= 3 {
				acts = append(acts, actIn{K: "ret", I: 1}, actIn{K: "ret", I: 2})
			}
		}
		out = append(out, hx.J(input{Mode: "direct", Caps: [][2]int64{{2, 4}, {1, 2}, {2, 2}}, Acts: acts}))
	}
	{
		acts := []actIn{}
		id := uint64(0)
		for round := 0; round < 8; round++ {
			for s := 1; s < 5; s++ {
				id++
				acts = append(acts, actIn{K: "send", I: s, M: mk(id, s, 0)})
			}
			acts = append(acts, actIn{K: "tick"}, actIn{K: "ret", I: 0})
		}
		out = append(out, hx.J(input{Mode: "direct", Caps: [][2]int64{{1, 1}, {1, 2}, {1, 2}, {1, 2}, {1, 2}}, Acts: acts}))
	}
	out = append(out, hx.J(input{Mode: "direct", Caps: [][2]int64{{1, 2}, {1, 1}}, Acts: []actIn{
		{K: "send", I: 0, M: mk(1, 0, 1)}, {K: "send", I: 0, M: mk(2, 0, 5)}, {K: "tick"}, {K: "ret", I: 1}, {K: "tick"}}}))
	// engine-driven, run to quiescence: one sender bursts at one receiver that stalls and then resumes, for
	// every combination of (incoming, outgoing) capacities 1..3 on the receiver and two shapes of sender port
	for ri := int64(1); ri <= 3; ri++ {
		for ro := int64(1); ro <= 3; ro++ {
			for _, sc := range [][2]int64{{1, 3}, {3, 1}} {
				var a0, a1 agentIn
				for k := 0; k < 7; k++ {
					a0.Sends = append(a0.Sends, sendPlan{Cycle: 0, M: *mk(uint64(k+1), 0, 1)})
				}
				a0.DrainTail = 1
				a1.Drain = []int{0, 0, 0, 0, 0, 0, 0, 0}
				a1.DrainTail = 1
				out = append(out, hx.J(input{Mode: "engine", Caps: [][2]int64{sc, {ri, ro}}, Agents: []agentIn{a0, a1}, Horizon: 3}))
			}
		}
	}
	for len(out) < n {
		if r.Chance(1, 2) {
			out = append(out, hx.J(genDirect(r, tier)))
		} else {
			out = append(out, hx.J(genEngine(r, tier)))
		}
	}
	return out
}

func shrink(raw json.RawMessage) []json.RawMessage {
	var in input
	if hx.UJ(raw, &in) != nil {
		return nil
	}
	var out []json.RawMessage
	if in.Mode == "direct" {
		n := len(in.Acts)
		for sz := n / 2; sz >= 1; sz /= 2 {
			for lo := 0; lo+sz <= n; lo += sz {
				c := in
				c.Acts = append(append([]actIn{}, in.Acts[:lo]...), in.Acts[lo+sz:]...)
				out = append(out, hx.J(c))
			}
		}
		return out
	}
	for k := range in.Agents {
		if len(in.Agents[k].Sends) > 0 {
			c := in
			c.Agents = append([]agentIn{}, in.Agents...)
			a := c.Agents[k]
			a.Sends = a.Sends[:len(a.Sends)/2]
			c.Agents[k] = a
			out = append(out, hx.J(c))
		}
	}
	if in.Horizon > 2 {
		c := in
		c.Horizon = in.Horizon / 2
		out = append(out, hx.J(c))
	}
	return out
}

func init() {
	hx.Register(&hx.Prop{
		ID:      "C10",
		Imports: "From Akita Require Import Lib.Base Lib.Fifo Lib.Port Lib.Conn C10.Model C10.Exec.",
		Rule: "a real DirectConnection with 2-8 real ports (capacities 1-4, occasionally 0) driven (a) 'engine': by scripted " +
			"sender/receiver ticking components through the real serial engine (bursty/refilling senders, a hot destination, " +
			"receivers that are prompt, stall for a long time then drain, drain intermittently, or never drain) - the action log " +
			"is the order in which sends, retrievals and connection ticks really happened (engine AfterEvent hook), deliveries " +
			"are recorded by port hooks; (b) 'direct': by arbitrary sequences of Send / RetrieveIncoming / conn.Tick() calls " +
			"(ticks with nothing to do, many sends between ticks, stalled receivers); directed scripts: head-of-line blocking, " +
			"all ports to one destination, unplugged destination (tick panics), and engine runs of a bursting sender against a " +
			"receiver that stalls and then resumes for every (incoming, outgoing) capacity pair 1..3 x 1..3. Engine runs go on " +
			"until the event queue is exhausted (after the scripted horizon the agents act like ordinary components: tick when " +
			"notified, retry blocked sends, drain, report progress) and are then scanned: no outgoing head whose destination " +
			"has room may be left. Non-trivial: >= 5 deliveries from >= 2 sources " +
			"and at least one tick that left a message blocked in an outgoing buffer. Distinct = distinct input hash.",
		Gen: gen, Run: run, Shrink: shrink,
	})
}
