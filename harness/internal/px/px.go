// Package px holds what the port / connection harnesses (C09, C10, C11) share:
// the test message type, the numbering of port names used by the Coq models
// (Lib/Port.v: name "P<k>" is k, the empty name is 0) and Coq printers.
package px

import (
	"fmt"

	"github.com/sarchlab/akita/v5/messaging"

	"verifharness/internal/hx"
)

// Msg is the message value sent through ports (messages are value types).
type Msg struct {
	messaging.MsgMeta
	Data uint64
}

// MsgIn is the JSON form of a message in harness inputs.
type MsgIn struct {
	ID   uint64 `json:"id"`
	Src  int    `json:"src"`
	Dst  int    `json:"dst"`
	Data uint64 `json:"data"`
}

// PortName maps a port number to its name ("" for 0).
func PortName(k int) string {
	if k == 0 {
		return ""
	}
	return fmt.Sprintf("P%d", k)
}

// PortNum is the inverse of PortName (-1 if the name is not of that form).
func PortNum(name string) int {
	if name == "" {
		return 0
	}
	var k int
	if _, err := fmt.Sscanf(name, "P%d", &k); err != nil || PortName(k) != name {
		return -1
	}
	return k
}

// Make builds the message value for an input message.
func Make(m MsgIn) Msg {
	return Msg{
		MsgMeta: messaging.MsgMeta{
			ID:           m.ID,
			Src:          messaging.RemotePort(PortName(m.Src)),
			Dst:          messaging.RemotePort(PortName(m.Dst)),
			TrafficClass: "px.Msg",
			TrafficBytes: int(m.Data % 97),
			RspTo:        m.Data ^ 0x5555,
		},
		Data: m.Data,
	}
}

// Intact reports whether a message observed after transport is, field by field,
// the value Make would have built from its own (id, src, dst, data).
func Intact(m messaging.Msg) bool {
	v, ok := m.(Msg)
	if !ok {
		return false
	}
	s, d := PortNum(string(v.Src)), PortNum(string(v.Dst))
	if s < 0 || d < 0 {
		return false
	}
	return v == Make(MsgIn{ID: v.ID, Src: s, Dst: d, Data: v.Data})
}

// Back projects an observed message to the input form; ok=false if it is not
// an intact px.Msg.
func Back(m messaging.Msg) (MsgIn, bool) {
	if !Intact(m) {
		return MsgIn{}, false
	}
	v := m.(Msg)
	return MsgIn{ID: v.ID, Src: PortNum(string(v.Src)), Dst: PortNum(string(v.Dst)), Data: v.Data}, true
}

// CoqMsg prints a message as a Lib/Port.v [msg].
func CoqMsg(m MsgIn) string {
	return hx.App("mk_msg", hx.N(m.ID), hx.N(uint64(m.Src)), hx.N(uint64(m.Dst)), hx.N(m.Data))
}

// CoqOMsg prints an optional message (nil = None).
func CoqOMsg(m *MsgIn) string {
	if m == nil {
		return hx.None()
	}
	return hx.Some(CoqMsg(*m))
}
