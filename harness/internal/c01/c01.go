// Package c01 ties the Coq model of the serial engine (Lib/Engine.v + C01/Model.v)
// to timing.SerialEngine: scripted handler programs, full handled trace compared exactly.
package c01

import (
	"encoding/json"

	"verifharness/internal/engsim"
	"verifharness/internal/hx"
)

type input struct {
	S engsim.Script `json:"script"`
}

func run(raw json.RawMessage) (hx.Case, error) {
	var in input
	if err := hx.UJ(raw, &in); err != nil {
		return hx.Case{}, err
	}
	segs := engsim.RunSegments(in.S, nil)
	g := segs[0]
	c := hx.Case{Obs: g}
	c.Coq = hx.App("mk_case", engsim.CoqProg(in.S.Prog), hx.N(in.S.Cap), engsim.CoqInit(in.S.Init),
		hx.N(in.S.T0), hx.B(in.S.Hooks), hx.N(uint64(g.Out)), engsim.CoqSteps(g.Steps), hx.N(g.Clock), engsim.CoqEnts(g.PendP), engsim.CoqEnts(g.PendS))
	st := engsim.Analyse(segs)
	c.Tags = st.Tags(in.S.Hooks)
	if in.S.T0 > 0 {
		c.Tags = append(c.Tags, "set-current-time")
	}
	c.Nontrivial = st.SameInstantSpawn > 0 && st.EqualTimePairs > 0 && st.Panics == 0
	return c, nil
}

func directed() []engsim.Script {
	sp := func(dt int64, tgt uint64, sec bool) engsim.Spawn { return engsim.Spawn{Dt: dt, Tgt: tgt, Sec: sec} }
	return []engsim.Script{
		// secondary at t spawns a primary at t while another secondary at t is pending
		{Prog: [][][]engsim.Spawn{{{sp(0, 0, false)}}}, Cap: 5,
			Init: []engsim.Init{{T: 3, H: 0, Sec: true, Bud: 2}, {T: 3, H: 0, Sec: true, Bud: 0}, {T: 3, H: 0, Sec: false, Bud: 0}}},
		// primary spawns primary and secondary at the same instant, and a later one
		{Prog: [][][]engsim.Spawn{{{sp(0, 1, true), sp(0, 1, false), sp(2, 0, false)}}, {{sp(0, 0, true)}}}, Cap: 30, Hooks: true,
			Init: []engsim.Init{{T: 0, H: 0, Sec: false, Bud: 3}, {T: 2, H: 1, Sec: true, Bud: 2}, {T: 2, H: 0, Sec: false, Bud: 1}}},
		// empty engine
		{Prog: [][][]engsim.Spawn{{{}}}, Cap: 0, Init: nil},
		// clock set after the first queued event: dispatchNext panics, the event is dropped
		{Prog: [][][]engsim.Spawn{{{sp(1, 0, false)}}}, Cap: 3, T0: 6,
			Init: []engsim.Init{{T: 5, H: 0, Sec: false, Bud: 2}, {T: 7, H: 0, Sec: true, Bud: 0}}},
		// clock set exactly at the first queued event: fine
		{Prog: [][][]engsim.Spawn{{{sp(0, 0, true)}}}, Cap: 3, T0: 5, Hooks: true,
			Init: []engsim.Init{{T: 5, H: 0, Sec: false, Bud: 2}, {T: 7, H: 0, Sec: true, Bud: 0}}},
		// past-time Schedule after one successful Schedule
		{Prog: [][][]engsim.Spawn{{{sp(1, 0, false), sp(-1, 0, false), sp(0, 0, true)}}}, Cap: 9,
			Init: []engsim.Init{{T: 5, H: 0, Sec: false, Bud: 2}, {T: 7, H: 0, Sec: true, Bud: 0}}},
	}
}

func gen(r *hx.Rand, tier string) []json.RawMessage {
	n, nbig := 450, 12
	if tier == "thorough" {
		n, nbig = 9000, 400
	}
	var out []json.RawMessage
	for _, s := range directed() {
		out = append(out, hx.J(input{s}))
	}
	// equal-time bursts of every size around powers of two (heap shapes), all primary / mixed
	for _, k := range []int{1, 2, 3, 4, 5, 7, 8, 9, 15, 16, 17, 31, 33, 64} {
		s := engsim.Script{Prog: [][][]engsim.Spawn{{{}}}, Cap: 0, Hooks: k%2 == 0}
		for i := 0; i < k; i++ {
			s.Init = append(s.Init, engsim.Init{T: uint64(2 - i%3), H: 0, Sec: i%5 == 4, Bud: 0})
		}
		out = append(out, hx.J(input{s}))
	}
	for i := 0; i < nbig; i++ {
		out = append(out, hx.J(input{engsim.GenScript(r, []int{1, 3, 0}[i%3], true)}))
	}
	for len(out) < n {
		kind := r.Pick(4, 3, 4, 2, 1)
		out = append(out, hx.J(input{engsim.GenScript(r, kind, false)}))
	}
	return out
}

func shrink(raw json.RawMessage) []json.RawMessage {
	var in input
	if hx.UJ(raw, &in) != nil {
		return nil
	}
	var out []json.RawMessage
	for _, s := range engsim.ShrinkScript(in.S) {
		out = append(out, hx.J(input{s}))
	}
	return out
}

func init() {
	hx.Register(&hx.Prop{
		ID: "C01",
		Rule: "handler scripts (1-6 handlers, 1-3 alternatives each, 0-3 spawns per alternative, dt=0 with probability 1/2, " +
			"secondary with probability 1/2, budgets strictly decreasing, global spawn allowance) run on the real timing.SerialEngine; " +
			"kinds: mixed, equal-time bursts (20-400 initial events on 1-4 distinct times), same-instant primary/secondary chains, " +
			"long chains (up to 400 events), a malformed share (a past-time Schedule, or SetCurrentTime after a queued event: both panic); directed corner scripts and " +
			"bursts of 1..64 equal-time events; trace recorded through Before/AfterEvent hooks in half of the cases, from inside " +
			"the handlers otherwise. Non-trivial: the run has a same-instant spawn and at least two handled events with equal time, no panic. " +
			"Distinct = distinct input hash.",
		Gen: gen, Run: run, Shrink: shrink,
	})
}
