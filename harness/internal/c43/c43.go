// Package c43 ties the Coq model of modeling/validate.go (and, through the values, the
// model of encoding/json in Lib/Json.v) to the implementation: types generated with
// reflect.StructOf plus hand-written ones go through the real ValidateSpec/ValidateState
// and random values of them through the real json.Marshal/json.Unmarshal.
package c43

import (
	"context"
	"encoding/json"
	"errors"
	"fmt"
	"os"
	"os/exec"
	"reflect"
	"runtime/debug"
	"strings"
	"time"

	"github.com/sarchlab/akita/v5/mem/vm/lruset"
	"github.com/sarchlab/akita/v5/modeling"
	"github.com/sarchlab/akita/v5/queueing"

	"verifharness/internal/hx"
	"verifharness/internal/jm"
	"verifharness/internal/libtypes"
)

// TD is a generated type description (the case input).
type TD struct {
	K    string `json:"k"`              // kind name, "struct", "slice", "array", "map", "hand", "lib"
	N    int    `json:"n,omitempty"`    // array length
	Key  string `json:"key,omitempty"`  // map key kind
	E    *TD    `json:"e,omitempty"`    // element type
	F    []FD   `json:"f,omitempty"`    // struct fields
	Hand string `json:"hand,omitempty"` // name of a hand-written or library type
}

// FD is one generated struct field.
type FD struct {
	Name string `json:"name"`
	Tag  string `json:"tag,omitempty"` // content of the json:"..." tag; "" = no tag
	Emb  bool   `json:"emb,omitempty"`
	T    TD     `json:"t"`
}

type input struct {
	State bool   `json:"state"`
	T     TD     `json:"t"`
	Seed  uint64 `json:"seed"`
	NVal  int    `json:"nval"`
}

// ---- hand-written types: what reflect.StructOf cannot build

type EmbA struct {
	X int
	Y string `json:"y"`
}

type EmbB struct {
	X int
	Z []int `json:"z"`
}

type embU struct {
	P int
	q int
}

// HandEmbU embeds an unexported struct type with one exported and one unexported field.
type HandEmbU struct {
	embU
	R int
}

// HandTwoEmb embeds two structs that both promote X: the name annihilates.
type HandTwoEmb struct {
	EmbA
	EmbB
}

// HandPair has a value MarshalJSON and a pointer UnmarshalJSON (trusted by the validator).
type HandPair struct{ vals []int }

func (h HandPair) MarshalJSON() ([]byte, error)  { return json.Marshal(h.vals) }
func (h *HandPair) UnmarshalJSON(b []byte) error { return json.Unmarshal(b, &h.vals) }

// HandMarshalOnly customizes only the marshal half.
type HandMarshalOnly struct{ vals []int }

func (h HandMarshalOnly) MarshalJSON() ([]byte, error) { return json.Marshal(h.vals) }

// HandPtrMarshal has pointer receivers on both halves: the validator sees a plain struct.
type HandPtrMarshal struct {
	A    int
	vals []int
}

func (h *HandPtrMarshal) MarshalJSON() ([]byte, error) { return json.Marshal(h.vals) }
func (h *HandPtrMarshal) UnmarshalJSON(b []byte) error { return json.Unmarshal(b, &h.vals) }

// HandPtrHidden keeps its state in unexported fields and declares BOTH JSON methods on
// the pointer receiver: a State is marshalled by value, so as a struct field, a map value
// or the State itself it is encoded by the default encoder ({}), not by MarshalJSON.
type HandPtrHidden struct{ ids []int }

type ptrHiddenDTO struct {
	IDs []int `json:"ids"`
}

func (h *HandPtrHidden) MarshalJSON() ([]byte, error) { return json.Marshal(ptrHiddenDTO{h.ids}) }
func (h *HandPtrHidden) UnmarshalJSON(b []byte) error {
	var d ptrHiddenDTO
	if err := json.Unmarshal(b, &d); err != nil {
		return err
	}
	h.ids = d.IDs
	return nil
}

// HandNone has no fields at all (like modeling.None): embedded, it shows no key.
type HandNone struct{}

// HandEmbNone hides its state behind an embedded key-less struct.
type HandEmbNone struct {
	HandNone
	order []int
}

// HandDash hides its state behind an exported field the encoder skips.
type HandDash struct {
	entries map[string]int
	Dirty   bool `json:"-"`
}

type hiddenT struct {
	vals []int
	idx  map[string]int
}

type item struct {
	A uint64 `json:"a"`
	B string `json:"b"`
}

// HandContainers holds the three library containers with custom JSON.
type HandContainers struct {
	Buf  queueing.Buffer[item]   `json:"buf"`
	Pipe queueing.Pipeline[item] `json:"pipe"`
	LRU  lruset.Set              `json:"lru"`
	N    int                     `json:"n"`
}

// Recursive types: reachable from themselves through a slice, a map, an array of slices,
// or mutually.  The validator's walk must terminate on them (it rejects them).
type HandRecSlice struct {
	V    int
	Kids []HandRecSlice
}

type HandRecMap struct {
	V    int
	Kids map[string]HandRecMap
}

type HandRecA struct {
	N  int
	Bs []HandRecB
}

type HandRecB struct {
	S  string
	As [2][]HandRecA
}

// isRecursive reports whether a struct type is reachable from itself inside t.
func isRecursive(t reflect.Type, busy map[reflect.Type]bool) bool {
	switch t.Kind() {
	case reflect.Slice, reflect.Array, reflect.Map, reflect.Pointer:
		return isRecursive(t.Elem(), busy)
	case reflect.Struct:
		if busy[t] {
			return true
		}
		busy[t] = true
		defer delete(busy, t)
		for i := 0; i < t.NumField(); i++ {
			if isRecursive(t.Field(i).Type, busy) {
				return true
			}
		}
	}
	return false
}

var hand = map[string]reflect.Type{
	"HandRecSlice":    reflect.TypeOf(HandRecSlice{}),
	"HandRecMap":      reflect.TypeOf(HandRecMap{}),
	"HandRecA":        reflect.TypeOf(HandRecA{}),
	"EmbA":            reflect.TypeOf(EmbA{}),
	"EmbB":            reflect.TypeOf(EmbB{}),
	"HandEmbU":        reflect.TypeOf(HandEmbU{}),
	"HandTwoEmb":      reflect.TypeOf(HandTwoEmb{}),
	"HandPair":        reflect.TypeOf(HandPair{}),
	"HandMarshalOnly": reflect.TypeOf(HandMarshalOnly{}),
	"HandPtrMarshal":  reflect.TypeOf(HandPtrMarshal{}),
	"hiddenT":         reflect.TypeOf(hiddenT{}),
	"HandContainers":  reflect.TypeOf(HandContainers{}),
	"Buffer":          reflect.TypeOf(queueing.Buffer[item]{}),
	"Pipeline":        reflect.TypeOf(queueing.Pipeline[item]{}),
	"Set":             reflect.TypeOf(lruset.Set{}),
	"PtrStruct":       reflect.TypeOf(&EmbA{}),
	"HandPtrHidden":   reflect.TypeOf(HandPtrHidden{}),
	"HandNone":        reflect.TypeOf(HandNone{}),
	"HandEmbNone":     reflect.TypeOf(HandEmbNone{}),
	"HandDash":        reflect.TypeOf(HandDash{}),
}

var handNames = []string{"EmbA", "EmbB", "HandEmbU", "HandTwoEmb", "HandPair", "HandMarshalOnly",
	"HandPtrMarshal", "hiddenT", "HandContainers", "Buffer", "Pipeline", "Set", "PtrStruct",
	"HandPtrHidden", "HandNone", "HandEmbNone", "HandDash", "HandRecSlice", "HandRecMap", "HandRecA"}

var scalar = map[string]reflect.Type{
	"bool": reflect.TypeOf(false), "int": reflect.TypeOf(int(0)), "int8": reflect.TypeOf(int8(0)),
	"int16": reflect.TypeOf(int16(0)), "int32": reflect.TypeOf(int32(0)), "int64": reflect.TypeOf(int64(0)),
	"uint": reflect.TypeOf(uint(0)), "uint8": reflect.TypeOf(uint8(0)), "uint16": reflect.TypeOf(uint16(0)),
	"uint32": reflect.TypeOf(uint32(0)), "uint64": reflect.TypeOf(uint64(0)),
	"float32": reflect.TypeOf(float32(0)), "float64": reflect.TypeOf(float64(0)), "string": reflect.TypeOf(""),
	"uintptr": reflect.TypeOf(uintptr(0)), "complex128": reflect.TypeOf(complex128(0)),
	"ptr": reflect.TypeOf((*int)(nil)), "iface": reflect.TypeOf((*any)(nil)).Elem(),
	"chan": reflect.TypeOf((chan int)(nil)), "func": reflect.TypeOf((func())(nil)),
}

var goodScalars = []string{"bool", "int", "int8", "int16", "int32", "int64", "uint", "uint8", "uint16",
	"uint32", "uint64", "float32", "float64", "string"}
var badScalars = []string{"uintptr", "complex128", "ptr", "iface", "chan", "func"}
var keyKinds = []string{"string", "int", "uint64", "int32", "uint32", "int64", "uint", "int8", "uint16", "bool", "float64"}

func isUpper(s string) bool { return s != "" && s[0] >= 'A' && s[0] <= 'Z' }

// build turns a description into a reflect.Type (panics of reflect are returned as errors).
func build(td TD) (t reflect.Type, err error) {
	defer func() {
		if r := recover(); r != nil {
			err = fmt.Errorf("reflect: %v", r)
		}
	}()
	switch td.K {
	case "slice":
		e, err := build(*td.E)
		if err != nil {
			return nil, err
		}
		return reflect.SliceOf(e), nil
	case "array":
		e, err := build(*td.E)
		if err != nil {
			return nil, err
		}
		return reflect.ArrayOf(td.N, e), nil
	case "map":
		e, err := build(*td.E)
		if err != nil {
			return nil, err
		}
		return reflect.MapOf(scalar[td.Key], e), nil
	case "struct":
		var fs []reflect.StructField
		for _, f := range td.F {
			ft, err := build(f.T)
			if err != nil {
				return nil, err
			}
			sf := reflect.StructField{Name: f.Name, Type: ft, Anonymous: f.Emb}
			if f.Tag != "" {
				sf.Tag = reflect.StructTag(`json:"` + f.Tag + `"`)
			}
			if !isUpper(f.Name) {
				sf.PkgPath = "verifharness/internal/c43"
			}
			fs = append(fs, sf)
		}
		return reflect.StructOf(fs), nil
	case "hand":
		if t, ok := hand[td.Hand]; ok {
			return t, nil
		}
		return nil, fmt.Errorf("unknown hand type %q", td.Hand)
	case "lib":
		if e := libtypes.Lookup(td.Hand); e != nil {
			return e.Type, nil
		}
		return nil, fmt.Errorf("unknown library type %q", td.Hand)
	}
	if t, ok := scalar[td.K]; ok {
		return t, nil
	}
	return nil, fmt.Errorf("unknown kind %q", td.K)
}

// predictable reports whether values of t are round-tripped: everything except the shapes
// the real validator accepts but the codec model does not cover (pointer-receiver or unknown
// custom marshalers, the ,string / omitzero options). Kinds the validator must reject
// (channels, functions, complex numbers, unusable map keys) ARE round-tripped, so that a
// validator that starts accepting them yields a concrete failing value.
func predictable(t reflect.Type, busy map[reflect.Type]bool) bool {
	if busy[t] || isRecursive(t, map[reflect.Type]bool{}) {
		return false
	}
	term := jm.TypeTerm(t)
	for _, bad := range []string{"TOpaque", "false [])"} {
		if strings.Contains(term, bad) {
			return false
		}
	}
	return quotedFree(t, map[reflect.Type]bool{})
}

// quotedFree: no field uses the ,string / omitzero options.
func quotedFree(t reflect.Type, busy map[reflect.Type]bool) bool {
	if busy[t] {
		return true
	}
	switch t.Kind() {
	case reflect.Slice, reflect.Array, reflect.Map, reflect.Pointer:
		return quotedFree(t.Elem(), busy)
	case reflect.Struct:
		busy[t] = true
		defer delete(busy, t)
		for i := 0; i < t.NumField(); i++ {
			fi := jm.ParseField(t.Field(i))
			if fi.Skip {
				continue
			}
			if fi.Quoted || !quotedFree(t.Field(i).Type, busy) {
				return false
			}
		}
	}
	return true
}

// ---- shape classifiers (from the type alone)

type shape struct{ mixed, dup, omit bool }

func jsonName(sf reflect.StructField, fi jm.FieldInfo) string {
	if fi.TagName != "" {
		return fi.TagName
	}
	return sf.Name
}

func flatNames(t reflect.Type, out *[]string, busy map[reflect.Type]bool) {
	if busy[t] {
		return
	}
	busy[t] = true
	defer delete(busy, t)
	for i := 0; i < t.NumField(); i++ {
		sf := t.Field(i)
		fi := jm.ParseField(sf)
		if fi.Skip {
			continue
		}
		if sf.Anonymous && fi.TagName == "" && sf.Type.Kind() == reflect.Struct && !sf.Type.Implements(reflect.TypeOf((*json.Marshaler)(nil)).Elem()) {
			flatNames(sf.Type, out, busy)
			continue
		}
		if sf.PkgPath == "" {
			*out = append(*out, jsonName(sf, fi))
		}
	}
}

func shapes(t reflect.Type, s *shape, busy map[reflect.Type]bool) {
	if busy[t] {
		return
	}
	switch t.Kind() {
	case reflect.Slice, reflect.Array, reflect.Map:
		shapes(t.Elem(), s, busy)
	case reflect.Struct:
		if t.Implements(reflect.TypeOf((*json.Marshaler)(nil)).Elem()) {
			return
		}
		busy[t] = true
		defer delete(busy, t)
		var names []string
		flatNames(t, &names, map[reflect.Type]bool{})
		seen := map[string]bool{}
		for _, n := range names {
			if seen[n] {
				s.dup = true
			}
			seen[n] = true
		}
		// "mixed": the struct shows at least one member to the encoder AND keeps unexported
		// state. A struct that shows nothing (hidden state only) is not a listed finding: the
		// validator must reject it.
		visible, unexp := len(names) > 0, false
		for i := 0; i < t.NumField(); i++ {
			sf := t.Field(i)
			fi := jm.ParseField(sf)
			if fi.Skip {
				if sf.PkgPath != "" {
					unexp = true
				}
				continue
			}
			if sf.PkgPath != "" && !(sf.Anonymous && sf.Type.Kind() == reflect.Struct) {
				unexp = true
			}
			if fi.OmitEmpty && (sf.Type.Kind() == reflect.Slice || sf.Type.Kind() == reflect.Map) {
				s.omit = true
			}
			shapes(sf.Type, s, busy)
		}
		if visible && unexp {
			s.mixed = true
		}
	}
}

func classify(t reflect.Type) string {
	var s shape
	shapes(t, &s, map[reflect.Type]bool{})
	switch {
	case s.mixed:
		return "mixed_exported_unexported"
	case s.dup:
		return "duplicate_json_name"
	case s.omit:
		return "omitempty_slice_or_map"
	}
	return ""
}

// ---- running one case

type valObs struct {
	Marshal string `json:"marshal"`
	Err     string `json:"err,omitempty"`
	Same    bool   `json:"same"`
}

type obs struct {
	BuildErr string   `json:"build_err,omitempty"`
	Accept   bool     `json:"accept"`
	Verdict  string   `json:"verdict,omitempty"`
	Panic    string   `json:"panic,omitempty"`
	Vals     []valObs `json:"vals,omitempty"`
}

func validate(t reflect.Type, state bool) error {
	zero := reflect.New(t).Elem().Interface()
	if state {
		return modeling.ValidateState(zero)
	}
	return modeling.ValidateSpec(zero)
}

// childDeadline bounds the validator's walk over one (small, hand-written) type.
const childDeadline = 20 * time.Second

//	<self> c43validate <input.json>  -> "accept" | "reject: <error>" on stdout
func init() {
	if len(os.Args) > 2 && os.Args[1] == "c43validate" {
		// a walk that never returns grows one frame and one longer path string per level:
		// a small stack bound turns it into a prompt "stack overflow" instead of gigabytes
		debug.SetMaxStack(1 << 20)
		var in input
		raw, err := os.ReadFile(os.Args[2])
		if err == nil {
			err = json.Unmarshal(raw, &in)
		}
		if err != nil {
			fmt.Println("error: " + err.Error())
			os.Exit(2)
		}
		t, err := build(in.T)
		if err != nil {
			fmt.Println("error: " + err.Error())
			os.Exit(2)
		}
		if err := validate(t, in.State); err != nil {
			fmt.Println("reject: " + err.Error())
		} else {
			fmt.Println("accept")
		}
		os.Exit(0)
	}
}

func validateInChild(raw json.RawMessage) (verr error, failed bool, msg string) {
	f, err := os.CreateTemp("", "c43in-*.json")
	if err != nil {
		return nil, true, "temp file: " + err.Error()
	}
	defer os.Remove(f.Name())
	f.Write(raw)
	f.Close()
	ctx, cancel := context.WithTimeout(context.Background(), childDeadline)
	defer cancel()
	cmd := exec.CommandContext(ctx, os.Args[0], "c43validate", f.Name())
	outb, err := cmd.Output()
	out := strings.TrimSpace(string(outb))
	switch {
	case ctx.Err() != nil:
		return nil, true, fmt.Sprintf("validator did not return within %s (walk over a recursive type)", childDeadline)
	case err != nil:
		var ee *exec.ExitError
		if errors.As(err, &ee) && strings.Contains(string(ee.Stderr), "stack overflow") {
			return nil, true, "validator overflowed a 1 MiB stack (walk over a recursive type does not terminate)"
		}
		return nil, true, "validator process failed: " + err.Error() + " " + out
	case out == "accept":
		return nil, false, ""
	case strings.HasPrefix(out, "reject: "):
		return errors.New(strings.TrimPrefix(out, "reject: ")), false, ""
	}
	return nil, true, "validator process: unexpected output " + out
}

func run(raw json.RawMessage) (hx.Case, error) {
	var in input
	if err := hx.UJ(raw, &in); err != nil {
		return hx.Case{}, err
	}
	t, err := build(in.T)
	if err != nil {
		// not a constructible Go type: an empty, trivially consistent case
		return hx.Case{Obs: obs{BuildErr: err.Error()}, Tags: []string{"type:unbuildable"},
			Coq: hx.App("mk_case", hx.B(in.State), "TBool", "false", "false", "[]")}, nil
	}
	var o obs
	var verr error
	var panicked bool
	var msg string
	if isRecursive(t, map[reflect.Type]bool{}) {
		// a walk that does not terminate cannot be caught in-process: fresh process, deadline
		verr, panicked, msg = validateInChild(raw)
	} else {
		panicked, msg = hx.Try(func() { verr = validate(t, in.State) })
	}
	o.Accept = !panicked && verr == nil
	if verr != nil {
		o.Verdict = verr.Error()
	}
	if panicked {
		o.Panic = msg
	}
	var vals []string
	if predictable(t, map[reflect.Type]bool{}) {
		r := hx.NewRand(in.Seed)
		for i := 0; i < in.NVal; i++ {
			v := jm.Rand(r, t, jm.Opts{NilKeyMaps: true})
			before := jm.ValueTerm(v)
			var vo valObs
			dec := "None"
			b, err := json.Marshal(v.Interface())
			if err != nil {
				vo.Err = "marshal: " + err.Error()
			} else {
				vo.Marshal = string(b)
				w := reflect.New(t)
				if err := json.Unmarshal(b, w.Interface()); err != nil {
					vo.Err = "unmarshal: " + err.Error()
				} else {
					after := jm.ValueTerm(w.Elem())
					dec = hx.Some(after)
					vo.Same = after == before
				}
			}
			o.Vals = append(o.Vals, vo)
			vals = append(vals, hx.T(before, dec))
		}
	}
	c := hx.Case{Obs: o}
	c.Coq = hx.App("mk_case", hx.B(in.State), jm.TypeTerm(t), hx.B(o.Accept), hx.B(panicked), hx.L(vals))
	c.Known = classify(t)
	if in.State {
		c.Tags = append(c.Tags, "validator:state")
	} else {
		c.Tags = append(c.Tags, "validator:spec")
	}
	if o.Accept {
		c.Tags = append(c.Tags, "verdict:accept")
	} else {
		c.Tags = append(c.Tags, "verdict:reject")
	}
	if c.Known != "" {
		c.Tags = append(c.Tags, "shape:"+c.Known)
	}
	if len(vals) > 0 {
		c.Tags = append(c.Tags, "values:round-tripped")
	}
	c.Tags = append(c.Tags, "top:"+in.T.K)
	// non-trivial: a struct type with at least two fields or a nested composite
	c.Nontrivial = t.Kind() == reflect.Struct && (t.NumField() >= 2 || strings.Count(jm.TypeTerm(t), "TStruct") >= 2)
	return c, nil
}
