package c43

import (
	"encoding/json"

	"verifharness/internal/hx"
	"verifharness/internal/libtypes"
)

var tagPool = []string{"", "", "", "a", "b", "x", "A", "X", "a,omitempty", ",omitempty", "x,omitempty",
	"-", "-,", "a,string", ",omitzero", "y", "z"}

func genScalar(r *hx.Rand, bad bool) TD {
	if bad {
		return TD{K: badScalars[r.Intn(len(badScalars))]}
	}
	return TD{K: goodScalars[r.Intn(len(goodScalars))]}
}

// genType draws a type description. pBad (out of 100) is the chance that a leaf is a kind
// the validator must reject; hidden (out of 100) the chance of an unexported field.
func genType(r *hx.Rand, depth, pBad, pHidden int) TD {
	w := []int{8, 3, 1, 3, 4, 2}
	if depth >= 3 {
		w = []int{1, 0, 0, 0, 0, 0}
	}
	switch r.Pick(w...) {
	case 0:
		return genScalar(r, r.Chance(pBad, 100))
	case 1:
		e := genType(r, depth+1, pBad, pHidden)
		return TD{K: "slice", E: &e}
	case 2:
		e := genType(r, depth+1, pBad, pHidden)
		return TD{K: "array", N: r.Intn(3), E: &e}
	case 3:
		e := genType(r, depth+1, pBad, pHidden)
		key := keyKinds[r.Intn(7)]
		if r.Chance(pBad+5, 100) {
			key = keyKinds[r.Intn(len(keyKinds))]
		}
		return TD{K: "map", Key: key, E: &e}
	case 4:
		return genStruct(r, depth+1, pBad, pHidden)
	default:
		return TD{K: "hand", Hand: handNames[r.Intn(len(handNames))]}
	}
}

func genStruct(r *hx.Rand, depth, pBad, pHidden int) TD {
	n := 1 + r.Intn(4)
	if r.Chance(1, 15) {
		n = 0
	}
	up := []string{"A", "B", "C", "D", "E", "X", "Y"}
	lo := []string{"a", "b", "c", "hidden", "x"}
	used := map[string]bool{}
	td := TD{K: "struct"}
	allHidden := r.Chance(pHidden, 300)
	for i := 0; i < n; i++ {
		var f FD
		hidden := allHidden || r.Chance(pHidden, 100)
		if !hidden && r.Chance(1, 6) {
			// embedded struct (a hand-written named one, or a generated anonymous one)
			if r.Bool() {
				name := []string{"EmbA", "EmbB"}[r.Intn(2)]
				f = FD{Name: name, Emb: true, T: TD{K: "hand", Hand: name}}
			} else {
				f = FD{Name: "Inner", Emb: true, T: genStruct(r, depth+1, pBad, pHidden)}
			}
			if r.Chance(1, 5) {
				f.Tag = tagPool[r.Intn(len(tagPool))]
			}
		} else {
			pool := up
			if hidden {
				pool = lo
			}
			f = FD{Name: pool[r.Intn(len(pool))], T: genType(r, depth, pBad, pHidden)}
			if r.Chance(1, 2) {
				f.Tag = tagPool[r.Intn(len(tagPool))]
			}
		}
		if used[f.Name] {
			continue
		}
		used[f.Name] = true
		td.F = append(td.F, f)
	}
	return td
}

func sc(k string) TD { return TD{K: k} }
func sl(e TD) TD     { return TD{K: "slice", E: &e} }
func st(fs ...FD) TD { return TD{K: "struct", F: fs} }
func fd(name, tag string, t TD) FD {
	return FD{Name: name, Tag: tag, T: t}
}

// directed: the shapes named in the property and in validate_test.go
func directed() []input {
	var out []input
	add := func(t TD) {
		out = append(out, input{State: true, T: t, NVal: 3}, input{State: false, T: t, NVal: 2})
	}
	// plain
	add(st(fd("Count", "count", sc("int")), fd("Names", "names", sl(sc("string")))))
	// the confirmed gaps
	add(st(fd("A", "", sc("int")), fd("b", "", sc("int"))))                             // mixed exported / unexported
	add(st(fd("A", "n", sc("int")), fd("B", "n", sc("int"))))                           // two fields, one JSON name
	add(st(fd("A", "", sc("int")), fd("B", "A", sc("string"))))                         // tag collides with a Go name
	add(st(fd("A", "a,omitempty", sl(sc("uint8"))), fd("B", "", sc("int"))))            // omitempty slice
	add(st(fd("M", "m,omitempty", TD{K: "map", Key: "string", E: &TD{K: "int"}})))      // omitempty map
	add(st(fd("A", "a,omitempty", sc("int")), fd("S", ",omitempty", sc("string"))))    // omitempty scalars: harmless
	add(st(fd("a", "", sc("int")), fd("B", "b,omitempty", sc("int"))))                  // unexported + all-omitempty => {} => rejected
	// hidden only
	add(st(fd("a", "", sl(sc("int"))), fd("b", "", TD{K: "map", Key: "string", E: &TD{K: "int"}})))
	add(TD{K: "hand", Hand: "hiddenT"})
	add(st(fd("Count", "count", sc("int")), fd("Lookup", "lookup", TD{K: "hand", Hand: "hiddenT"})))
	// custom JSON (value / pointer receivers, halves), hidden state: at the top, as a field, as
	// a slice element, as a map value, inside an array
	for _, h := range handNames {
		add(TD{K: "hand", Hand: h})
		add(st(fd("N", "n", sc("int")), fd("H", "h", TD{K: "hand", Hand: h})))
		add(st(fd("L", "l", sl(TD{K: "hand", Hand: h}))))
		add(st(fd("N", "n", sc("int")), fd("M", "m", TD{K: "map", Key: "string", E: &TD{K: "hand", Hand: h}})))
		add(st(fd("Arr", "", TD{K: "array", N: 2, E: &TD{K: "hand", Hand: h}})))
	}
	// state invisible to the encoder although not every field is unexported
	add(st(fd("entries", "", TD{K: "map", Key: "string", E: &TD{K: "int"}}), fd("Dirty", "-", sc("bool"))))
	add(st(FD{Name: "Inner", Emb: true, T: st()}, fd("order", "", sl(sc("int")))))
	add(st(FD{Name: "Inner", Emb: true, T: st(fd("x", "", sc("int")))}, fd("order", "", sl(sc("int")))))
	add(st(fd("Count", "count", sc("int")),
		fd("T", "t", st(fd("entries", "", sl(sc("int"))), fd("Dirty", "-", sc("bool"))))))
	add(st(FD{Name: "HandNone", Emb: true, T: TD{K: "hand", Hand: "HandNone"}}, fd("a", "", sc("int")), fd("B", "b,omitempty", sc("int"))))
	// disallowed kinds, directly / nested / under json:"-"
	for _, k := range badScalars {
		add(st(fd("A", "", sc(k))))
		add(st(fd("A", "", sl(sc(k)))))
		add(st(fd("A", "", sc("int")), fd("P", "-", sc(k))))
		add(st(fd("In", "", st(fd("Deep", "", TD{K: "map", Key: "string", E: &TD{K: k}})))))
	}
	for _, k := range keyKinds {
		add(st(fd("M", "", TD{K: "map", Key: k, E: &TD{K: "int"}})))
	}
	// embedded promotion and conflicts
	add(st(FD{Name: "EmbA", Emb: true, T: TD{K: "hand", Hand: "EmbA"}}, fd("X", "", sc("string"))))
	add(st(FD{Name: "EmbA", Emb: true, T: TD{K: "hand", Hand: "EmbA"}}, FD{Name: "EmbB", Emb: true, T: TD{K: "hand", Hand: "EmbB"}}))
	add(st(FD{Name: "EmbA", Emb: true, T: TD{K: "hand", Hand: "EmbA"}}, fd("Q", "y", sc("int"))))
	add(st(FD{Name: "EmbA", Emb: true, Tag: "emb", T: TD{K: "hand", Hand: "EmbA"}}, fd("X", "", sc("int"))))
	// not structs at the top
	add(sc("int"))
	add(sl(sc("int")))
	add(TD{K: "map", Key: "string", E: &TD{K: "int"}})
	add(st())
	// arrays, []byte, int-keyed maps
	add(st(fd("B", "", sl(sc("uint8"))), fd("Arr", "", TD{K: "array", N: 2, E: &TD{K: "uint8"}}),
		fd("M", "", TD{K: "map", Key: "int32", E: &TD{K: "string"}}), fd("Z", ",omitempty", TD{K: "array", N: 0, E: &TD{K: "int"}})))
	return out
}

func gen(r *hx.Rand, tier string) []json.RawMessage {
	n := 600
	if tier == "thorough" {
		n = 6000
	}
	var out []json.RawMessage
	for _, in := range directed() {
		in.Seed = r.U64()
		out = append(out, hx.J(in))
	}
	// every library Spec / State type through the validator it is built with
	for _, e := range libtypes.All() {
		if e.Kind == "spec" || e.Kind == "state" {
			out = append(out, hx.J(input{State: e.Kind == "state", T: TD{K: "lib", Hand: e.Name}, Seed: r.U64(), NVal: 1}))
		}
	}
	for len(out) < n {
		var in input
		in.State = r.Chance(3, 4)
		in.NVal = 2
		in.Seed = r.U64()
		switch r.Pick(5, 3, 2) {
		case 0: // mostly valid: plain exported structs
			in.T = genStruct(r, 0, 0, 0)
		case 1: // the gaps: unexported fields, colliding names
			in.T = genStruct(r, 0, 2, 25)
		default: // malformed stream: disallowed kinds
			in.T = genStruct(r, 0, 20, 10)
		}
		if r.Chance(1, 25) {
			in.T = genType(r, 1, 10, 10)
		}
		out = append(out, hx.J(in))
	}
	return out
}

func shrink(raw json.RawMessage) []json.RawMessage {
	var in input
	if hx.UJ(raw, &in) != nil {
		return nil
	}
	var out []json.RawMessage
	if in.T.K == "struct" {
		for i := range in.T.F {
			c := in
			c.T.F = append(append([]FD{}, in.T.F[:i]...), in.T.F[i+1:]...)
			out = append(out, hx.J(c))
		}
		for i, f := range in.T.F {
			if f.T.K == "struct" || f.T.K == "slice" || f.T.K == "array" || f.T.K == "map" {
				c := in
				c.T.F = append([]FD{}, in.T.F...)
				if f.T.E != nil {
					c.T.F[i].T = *f.T.E
				} else {
					c.T.F[i].T = TD{K: "int"}
				}
				out = append(out, hx.J(c))
			}
			if f.Tag != "" {
				c := in
				c.T.F = append([]FD{}, in.T.F...)
				c.T.F[i].Tag = ""
				out = append(out, hx.J(c))
			}
		}
	}
	if in.NVal > 1 {
		c := in
		c.NVal = 1
		out = append(out, hx.J(c))
	}
	return out
}

func init() {
	hx.Register(&hx.Prop{
		ID: "C43", Imports: "From Akita Require Import Lib.Base Lib.Json C43.Exec.",
		Rule: "directed: the shapes of the statement and of validate_test.go (plain, mixed exported/unexported, colliding JSON names, " +
			"omitempty, hidden-only, custom marshaler pairs/halves, every disallowed kind directly/nested/under json:\"-\", every map key kind, " +
			"embedded promotion and conflicts, non-struct top level), every library Spec/State type, then random struct types built with " +
			"reflect.StructOf (+ hand-written ones for custom marshalers and embedded unexported structs): 50% plain exported, 30% with " +
			"unexported fields / colliding tags, 20% with disallowed kinds; 75% ValidateState / 25% ValidateSpec; 2-3 random values per type " +
			"(nil/empty/non-empty slices and maps, extreme integers, multi-byte strings) through the real json.Marshal/Unmarshal. " +
			"Non-trivial: a struct with >= 2 fields or a nested struct. Distinct = distinct input hash.",
		Gen: gen, Run: run, Shrink: shrink,
	})
}
