// Package c38 ties the Coq model of the outbound-LLM address guard
// (daisen2/internal/httpapi/chat.go) to the implementation through the
// verif-tagged shim of package daisen2.
package c38

import (
	"context"
	"encoding/json"
	"fmt"
	"net"
	"net/http"
	"net/http/httptest"
	"net/url"
	"os"
	"strings"
	"sync/atomic"
	"time"

	"github.com/sarchlab/akita/v5/daisen2"

	"verifharness/internal/hx"
)

type input struct {
	Kind    string      `json:"kind"` // classify | guard | dial | redirect | e2e
	IP      []int       `json:"ip,omitempty"`
	Allow   string      `json:"allow"` // value of DAISEN_ALLOW_PRIVATE_LLM_URL
	URL     string      `json:"url,omitempty"`
	Addr    string      `json:"addr,omitempty"`
	Proxies [][2]string `json:"proxies,omitempty"` // env name, value
	Chain   []string    `json:"chain,omitempty"`   // Location headers of successive 302 answers
	Spell   string      `json:"spell,omitempty"`   // e2e: URL with %PORT% replaced by the local server's port
	Phase   int         `json:"phase,omitempty"`   // resolver stub: 0 = check-time answers, 1 = dial-time answers
}

var proxyVars = []string{"HTTPS_PROXY", "https_proxy", "HTTP_PROXY", "http_proxy", "ALL_PROXY", "all_proxy"}

func clearProxyEnv() {
	for _, k := range proxyVars {
		os.Unsetenv(k)
	}
	os.Unsetenv("NO_PROXY")
	os.Unsetenv("no_proxy")
}

func init() {
	// http.ProxyFromEnvironment caches the environment on first use: make that
	// first use happen with no proxy configured.
	clearProxyEnv()
	rq, _ := http.NewRequest("GET", "http://192.0.2.1/", nil)
	_, _ = http.ProxyFromEnvironment(rq)
	startDNS()
}

// ---------------------------------------------------------------- printing

func ipTerm(ip net.IP) string { return hx.Bytes([]byte(ip)) }

func ansTerm(ips []net.IP, err error) string {
	if err != nil {
		return hx.None()
	}
	s := make([]string, len(ips))
	for i, ip := range ips {
		s[i] = ipTerm(ip)
	}
	return hx.Some(hx.L(s))
}

func purlTerm(u *url.URL) string {
	return hx.App("mk_purl", hx.Str(u.Scheme), hx.Str(u.Hostname()))
}

func optPurl(u *url.URL, err error) string {
	if err != nil || u == nil {
		return hx.None()
	}
	return hx.Some(purlTerm(u))
}

func lookup(host string) ([]net.IP, error) {
	ctx, cancel := context.WithTimeout(context.Background(), 2*time.Second)
	defer cancel()
	return net.DefaultResolver.LookupIP(ctx, "ip", host)
}

func gresOf(err error) string {
	if err == nil {
		return "GAllow"
	}
	m := err.Error()
	switch {
	case strings.HasPrefix(m, "invalid base URL"):
		return "GParseErr"
	case strings.HasPrefix(m, "unsupported base URL scheme"):
		return "GSchemeErr"
	case strings.HasPrefix(m, "cannot resolve base URL host"):
		return "GResolveErr"
	case strings.Contains(m, "resolves to a private/loopback address"):
		return "GInternal"
	}
	return "GUnknown(" + m + ")"
}

// ---------------------------------------------------------------- runners

func runClassify(in input, c *hx.Case) {
	b := make([]byte, len(in.IP))
	for i, x := range in.IP {
		b[i] = byte(x)
	}
	obs := daisen2.VerifIsInternalIP(net.IP(b))
	c.Obs = map[string]any{"internal": obs}
	c.Coq = hx.App("CClassify", hx.Bytes(b), hx.B(obs))
	c.Tags = append(c.Tags, fmt.Sprintf("classify:len%d", len(b)))
	if obs {
		c.Tags = append(c.Tags, "classify:internal")
	}
	c.Nontrivial = obs || len(b) == 16
}

func runGuard(in input, c *hx.Case) {
	allow := daisen2.VerifAllowPrivateLLMHosts()
	u, perr := url.Parse(in.URL)
	ans := hx.None()
	nips := 0
	if perr == nil {
		ips, lerr := net.LookupIP(u.Hostname())
		ans = ansTerm(ips, lerr)
		nips = len(ips)
	}
	setPhase(in.Phase) // the stub answers the guard's look-up like it answered the harness's
	obs := gresOf(daisen2.VerifGuardLLMURL(in.URL))
	c.Obs = map[string]any{"allow": allow, "guard": obs, "resolved": nips}
	c.Coq = hx.App("CGuard", hx.B(allow), optPurl(u, perr), ans, obs)
	c.Tags = append(c.Tags, "guard:"+obs)
	c.Nontrivial = !allow && perr == nil && nips > 0
}

func proxyPairs() []string {
	var out []string
	for _, k := range proxyVars {
		v := strings.TrimSpace(os.Getenv(k))
		if v == "" {
			continue
		}
		if !strings.Contains(v, "://") {
			v = "http://" + v
		}
		pu, err := url.Parse(v)
		if err != nil {
			continue
		}
		out = append(out, hx.T(hx.Str(pu.Host), hx.Str(pu.Hostname())))
	}
	return out
}

func runDial(in input, c *hx.Case) {
	for _, kv := range in.Proxies {
		os.Setenv(kv[0], kv[1])
	}
	defer clearProxyEnv()
	allow := daisen2.VerifAllowPrivateLLMHosts()
	isProxy := daisen2.VerifDialTargetIsProxy(in.Addr)
	host, port, serr := net.SplitHostPort(in.Addr)
	ahost := host
	split := hx.None()
	var ips []net.IP
	var lerr error = fmt.Errorf("not resolved")
	if serr != nil {
		ahost = in.Addr
	} else {
		split = hx.Some(hx.T(hx.Str(host), hx.Str(port)))
		ips, lerr = lookup(host)
	}
	setPhase(in.Phase) // the stub answers the dialer's look-up like it answered the harness's
	ctx, cancel := dialContext(host, 150*time.Millisecond, 120*time.Millisecond)
	conn, err := daisen2.VerifGuardedDialContext(ctx, "tcp", in.Addr)
	cancel()
	if conn != nil {
		conn.Close()
	}
	obs := "OAttempt"
	if err != nil {
		const pre = "refusing to connect to internal address "
		m := err.Error()
		switch e := err.(type) {
		case *net.AddrError:
			_ = e
			obs = "OSplitErr"
		case *net.DNSError:
			obs = "OResolveErr"
		default:
			if strings.HasPrefix(m, pre) {
				rest := strings.TrimPrefix(m, pre)
				ipstr := rest
				if i := strings.Index(rest, " for host"); i >= 0 {
					ipstr = rest[:i]
				}
				idx := -1
				for i, ip := range ips {
					if ip.String() == ipstr {
						idx = i
						break
					}
				}
				if idx < 0 {
					obs = "(ORefused 999999)"
				} else {
					obs = fmt.Sprintf("(ORefused %d)", idx)
				}
			}
		}
	}
	c.Obs = map[string]any{"allow": allow, "is_proxy": isProxy, "dial": obs, "err": fmt.Sprint(err)}
	c.Coq = hx.App("CDial", hx.B(allow), hx.L(proxyPairs()), hx.Str(in.Addr), hx.Str(ahost),
		split, ansTerm(ips, lerr), hx.B(isProxy), obs)
	c.Tags = append(c.Tags, "dial:"+strings.Fields(strings.Trim(obs, "()"))[0])
	if isProxy {
		c.Tags = append(c.Tags, "dial:proxy-target")
	}
	c.Nontrivial = !allow && lerr == nil
}

type scripted struct {
	chain []string
	sent  int
}

func (s *scripted) RoundTrip(req *http.Request) (*http.Response, error) {
	i := s.sent
	s.sent++
	h := http.Header{}
	code := 200
	if i < len(s.chain) {
		code = 302
		h["Location"] = []string{s.chain[i]}
	}
	return &http.Response{StatusCode: code, Status: http.StatusText(code), Header: h, Body: http.NoBody,
		Proto: "HTTP/1.1", ProtoMajor: 1, ProtoMinor: 1, Request: req}, nil
}

func runRedirect(in input, c *hx.Case) error {
	allow := daisen2.VerifAllowPrivateLLMHosts()
	first, err := url.Parse(in.URL)
	if err != nil {
		return err
	}
	// the Location targets as net/http resolves them (relative to the previous request URL)
	prev := first
	var hops []string
	for _, loc := range in.Chain {
		nu, perr := prev.Parse(loc)
		if perr != nil {
			hops = append(hops, hx.T(hx.None(), hx.None()))
			continue
		}
		ips, lerr := net.LookupIP(nu.Hostname())
		hops = append(hops, hx.T(hx.Some(purlTerm(nu)), ansTerm(ips, lerr)))
		prev = nu
	}
	cl := *daisen2.VerifGuardedLLMClient() // same CheckRedirect, scripted transport
	st := &scripted{chain: in.Chain}
	cl.Transport = st
	req, _ := http.NewRequest("GET", in.URL, nil)
	resp, derr := cl.Do(req)
	if resp != nil {
		resp.Body.Close()
	}
	c.Obs = map[string]any{"allow": allow, "sent": st.sent, "err": fmt.Sprint(derr)}
	c.Coq = hx.App("CRedirect", hx.B(allow), purlTerm(first), hx.L(hops), hx.N(uint64(st.sent)))
	c.Tags = append(c.Tags, fmt.Sprintf("redirect:sent%d/%d", st.sent, len(in.Chain)+1))
	c.Nontrivial = !allow && len(in.Chain) > 0
	return nil
}

var (
	srv  *httptest.Server
	hits int64
)

func server() *httptest.Server {
	if srv == nil {
		srv = httptest.NewServer(http.HandlerFunc(func(w http.ResponseWriter, _ *http.Request) {
			atomic.AddInt64(&hits, 1)
			_, _ = w.Write([]byte("ok"))
		}))
	}
	return srv
}

func runE2E(in input, c *hx.Case) {
	allow := daisen2.VerifAllowPrivateLLMHosts()
	s := server()
	_, port, _ := net.SplitHostPort(strings.TrimPrefix(s.URL, "http://"))
	raw := strings.ReplaceAll(in.Spell, "%PORT%", port)
	u, perr := url.Parse(raw)
	ans0, ans1, ans2 := hx.None(), hx.None(), hx.None()
	if perr == nil {
		setPhase(0)
		ips, lerr := net.LookupIP(u.Hostname())
		ans0 = ansTerm(ips, lerr)
		setPhase(1)
		ips, lerr = net.LookupIP(u.Hostname())
		ans1 = ansTerm(ips, lerr)
		ips, lerr = net.LookupIP(u.Hostname()) // what one more resolution at dial time would return
		ans2 = ansTerm(ips, lerr)
	}
	before := atomic.LoadInt64(&hits)
	// what the handlers do: guard the configured URL (check-time answers), then use the
	// guarded client (whose dialer resolves again: dial-time answers)
	setPhase(0)
	gerr := daisen2.VerifGuardLLMURL(raw)
	setPhase(1)
	var derr error
	if perr == nil && (u.Scheme == "http" || u.Scheme == "https") {
		// also when the check refused: a redirect or a later call would drive the client the same way
		ctx, cancel := dialContext(u.Hostname(), 250*time.Millisecond, 1500*time.Millisecond)
		req, rerr := http.NewRequestWithContext(ctx, "GET", raw, nil)
		if rerr == nil {
			resp, err := daisen2.VerifGuardedLLMClient().Do(req)
			derr = err
			if resp != nil {
				resp.Body.Close()
			}
		} else {
			derr = rerr
		}
		cancel()
	}
	// resolutions of the name by the client beyond the single vetted one (0 for IP literals)
	extra := 0
	if perr == nil {
		if n := lookupsOf(u.Hostname()); n > 1 {
			extra = n - 1
		}
	}
	setPhase(0)
	daisen2.VerifGuardedLLMClient().CloseIdleConnections()
	got := atomic.LoadInt64(&hits) - before
	c.Obs = map[string]any{"allow": allow, "hits": got, "extra_lookups": extra, "guard": fmt.Sprint(gerr), "do": fmt.Sprint(derr)}
	c.Coq = hx.App("CEndToEnd", hx.B(allow), optPurl(u, perr), ans0, ans1, ans2, hx.N(uint64(got)), hx.N(uint64(extra)))
	c.Tags = append(c.Tags, fmt.Sprintf("e2e:hits%d", got))
	c.Nontrivial = true
}

func run(raw json.RawMessage) (hx.Case, error) {
	var in input
	if err := hx.UJ(raw, &in); err != nil {
		return hx.Case{}, err
	}
	os.Setenv("DAISEN_ALLOW_PRIVATE_LLM_URL", in.Allow)
	defer os.Unsetenv("DAISEN_ALLOW_PRIVATE_LLM_URL")
	clearProxyEnv()
	setPhase(in.Phase)
	defer setPhase(0)
	var c hx.Case
	switch in.Kind {
	case "classify":
		runClassify(in, &c)
	case "guard":
		runGuard(in, &c)
	case "dial":
		runDial(in, &c)
	case "redirect":
		if err := runRedirect(in, &c); err != nil {
			return c, err
		}
	case "e2e":
		runE2E(in, &c)
	default:
		return c, fmt.Errorf("unknown kind %q", in.Kind)
	}
	if in.Allow != "" {
		c.Tags = append(c.Tags, "allow-env:set")
	}
	return c, nil
}

func init() {
	hx.Register(&hx.Prop{
		ID:      "C38",
		Imports: "From Akita Require Import Lib.Base C38.Model C38.Exec.",
		Rule: "classifier: address-class sweep (every /8 of IPv4 in 4-byte and IPv4-mapped form, every class boundary +-1, " +
			"IPv6 prefix boundaries, all ff?2 scopes, IPv4-compatible/NAT64/6to4 embeddings, malformed lengths) + random addresses; " +
			"URL guard: host literals in odd spellings through the real url.Parse/net.LookupIP; dialer: literal and named targets, " +
			"proxy-target matching; redirect chains through the real http.Client redirect logic with a scripted transport; " +
			"end-to-end requests against a local server (hit count must stay 0). " +
			"Non-trivial: an internal or 16-byte address (classifier), a resolvable host with the opt-in off (guard/dial), " +
			"a chain with at least one redirect, every end-to-end case. Distinct = distinct input hash.",
		Gen: gen, Run: run, Shrink: shrink,
	})
}
