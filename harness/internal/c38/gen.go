package c38

import (
	"encoding/json"
	"fmt"
	"net"

	"verifharness/internal/hx"
)

func ints(b []byte) []int {
	o := make([]int, len(b))
	for i, x := range b {
		o[i] = int(x)
	}
	return o
}

func v4(v uint32) []byte { return []byte{byte(v >> 24), byte(v >> 16), byte(v >> 8), byte(v)} }

func mapped(v uint32) []byte {
	return append([]byte{0, 0, 0, 0, 0, 0, 0, 0, 0, 0, 0xff, 0xff}, v4(v)...)
}

type cidr4 struct {
	base uint32
	plen uint
}

var classes4 = []cidr4{
	{0x7f000000, 8}, {0x0a000000, 8}, {0xac100000, 12}, {0xc0a80000, 16},
	{0xa9fe0000, 16}, {0xe0000000, 24}, {0x00000000, 32},
	// neighbours that are NOT in the statement (must stay consistent with the model)
	{0x64400000, 10}, {0xc0000000, 24}, {0xc6120000, 15}, {0xf0000000, 4}, {0xffffffff, 32}, {0x00000000, 8},
}

func v6(hi uint64, lo uint64) []byte {
	b := make([]byte, 16)
	for i := 0; i < 8; i++ {
		b[i] = byte(hi >> (56 - 8*uint(i)))
		b[8+i] = byte(lo >> (56 - 8*uint(i)))
	}
	return b
}

var hostSpellings = []string{
	"127.0.0.1", "127.1", "127.0.1", "2130706433", "0x7f000001", "0x7f.0.0.1", "0177.0.0.1", "017700000001",
	"127.0.0.1.", "127.000.000.001", "[::1]", "[::ffff:127.0.0.1]", "[::ffff:7f00:1]", "[0:0:0:0:0:ffff:7f00:1]",
	"[::ffff:10.1.2.3]", "[::ffff:a9fe:a9fe]", "[::127.0.0.1]", "[64:ff9b::7f00:1]", "[2002:7f00:1::]",
	"[fe80::1%25lo]", "[fe80::1%25eth0]", "[fe80::1]", "[fc00::1]", "[fd12:3456:789a::1]", "[fec0::1]", "[ff02::1]", "[ff12::fb]",
	"[::]", "0.0.0.0", "0", "0.0.0.1", "10.0.0.1", "10.255.255.255", "11.0.0.0", "9.255.255.255",
	"172.15.255.255", "172.16.0.0", "172.31.255.255", "172.32.0.0", "192.167.255.255", "192.168.0.0",
	"192.168.255.255", "192.169.0.0", "169.253.255.255", "169.254.0.0", "169.254.169.254", "169.255.0.0",
	"224.0.0.0", "224.0.0.255", "224.0.1.0", "223.255.255.255", "100.64.0.1", "255.255.255.255",
	"8.8.8.8", "1.1.1.1", "[2001:4860:4860::8888]", "localhost", "LOCALHOST", "localhost.", "ip6-localhost",
	"example.invalid", "", "%31%32%37.0.0.1", "①②⑦.0.0.1", "127。0。0。1", "[::ffff:127.0.0.1%25lo]",
}

func gen(r *hx.Rand, tier string) []json.RawMessage {
	var out []json.RawMessage
	add := func(in input) { out = append(out, hx.J(in)) }
	cls := func(b []byte) { add(input{Kind: "classify", IP: ints(b)}) }

	// ---- classifier sweep
	for a := 0; a < 256; a++ { // every /8, in both encodings, a few low parts
		for _, low := range []uint32{0, 0x00ffffff, 0x00a80000, uint32(r.U64n(1 << 24))} {
			v := uint32(a)<<24 | low
			cls(v4(v))
			if low == 0 || r.Chance(1, 2) {
				cls(mapped(v))
			}
		}
	}
	for _, c := range classes4 { // every class boundary +-1
		size := uint64(1) << (32 - c.plen)
		first := uint64(c.base)
		for _, x := range []uint64{first - 1, first, first + 1, first + size/2, first + size - 1, first + size} {
			v := uint32(x)
			cls(v4(v))
			cls(mapped(v))
		}
	}
	// IPv6 prefixes and their neighbours
	for _, hi := range []uint64{0, 0xfbffffffffffffff, 0xfc00000000000000, 0xfcffffffffffffff, 0xfd00000000000000,
		0xfdffffffffffffff, 0xfe00000000000000, 0xfe7fffffffffffff, 0xfe80000000000000, 0xfe80000000000001,
		0xfebfffffffffffff, 0xfec0000000000000, 0xfeffffffffffffff, 0xff00000000000000, 0xff01000000000000,
		0xff02000000000000, 0xff03000000000000, 0xff0f000000000000, 0x20010db800000000, 0x2002000000000000,
		0x0064ff9b00000000, 0xffffffffffffffff} {
		for _, lo := range []uint64{0, 1, 2, 0x7f000001, 0xffff7f000001, 0xffffffffffffffff} {
			cls(v6(hi, lo))
		}
	}
	for x := 0; x < 256; x++ { // every flags/scope byte of multicast
		cls(v6(0xff00000000000000|uint64(x)<<48, uint64(r.U64n(1<<32))))
	}
	// around the IPv4-mapped block ::ffff:0:0/96 and other embeddings of 127.0.0.1 / 10.0.0.1
	for _, lo := range []uint64{0xfffe7f000001, 0xffff00000000, 0xffff7f000001, 0xffff0a000001, 0xffffa9fea9fe,
		0xffffffffffff, 0x1000000000000, 0x1ffff7f000001, 0x7f000001, 0x0a000001, 0xffff00000001, 0xffffe0000001} {
		cls(v6(0, lo))
		cls(v6(1, lo))
		cls(v6(0x0000000000010000, lo))
	}
	for _, n := range []int{0, 1, 3, 5, 8, 12, 15, 17, 32} { // not addresses
		b := make([]byte, n)
		cls(b)
		if n > 0 {
			b2 := make([]byte, n)
			b2[0] = 127
			cls(b2)
		}
	}

	nrand := 300
	if tier == "thorough" {
		nrand = 20000
	}
	firsts := []byte{0, 10, 100, 127, 169, 172, 192, 198, 224, 239, 240, 255}
	for i := 0; i < nrand; i++ {
		switch r.Pick(3, 3, 2, 3, 2) {
		case 0:
			cls(v4(uint32(r.U64())))
		case 1:
			v := uint32(firsts[r.Intn(len(firsts))])<<24 | uint32(r.U64n(1<<24))
			if r.Bool() {
				cls(v4(v))
			} else {
				cls(mapped(v))
			}
		case 2:
			cls(v6(r.U64(), r.U64()))
		case 3:
			tops := []uint64{0xfc, 0xfd, 0xfe, 0xff, 0x00, 0x20}
			hi := tops[r.Intn(len(tops))]<<56 | r.U64n(1<<56)
			if r.Chance(1, 3) {
				hi &= 0xffff000000000000
			}
			cls(v6(hi, r.U64()))
		default:
			b := v6(0, 0)
			// near-mapped: perturb one byte of the ::ffff: prefix
			copy(b, mapped(uint32(r.U64())))
			if r.Bool() {
				b[r.Intn(12)] ^= byte(1 << uint(r.Intn(8)))
			}
			cls(b)
		}
	}

	// ---- URL guard through the real parser/resolver
	schemes := []string{"http://", "https://", "HTTP://", "hTTps://", "ftp://", "file://", "ws://", "", "//", "http:/", "gopher://"}
	for _, h := range hostSpellings {
		add(input{Kind: "guard", URL: "http://" + h + "/v1/chat/completions"})
		add(input{Kind: "guard", URL: "https://" + h + ":8443/v1"})
	}
	for _, s := range schemes {
		for _, h := range []string{"8.8.8.8", "127.0.0.1", "[::1]"} {
			add(input{Kind: "guard", URL: s + h + "/x"})
		}
	}
	for _, u := range []string{
		"http://user:pw@127.0.0.1/", "http://8.8.8.8@127.0.0.1/", "http://127.0.0.1@8.8.8.8/", "http://8.8.8.8#@127.0.0.1/",
		"http://8.8.8.8?@127.0.0.1/", "http://8.8.8.8\\@127.0.0.1/", "http://127.0.0.1:80:80/", "http://[::1", "http://%zz/",
		"http://8.8.8.8/\x7f", "http://8.8.8.8/ x", " http://8.8.8.8/", "http://8.8.8.8:99999/", "http://[::ffff:127.0.0.1]:x/",
		"http://127.0.0.1\t/", "http:///127.0.0.1/", "http://​127.0.0.1/", "", "::", "http://",
	} {
		add(input{Kind: "guard", URL: u})
	}
	for _, a := range []string{"1", "true", "YES", " yes ", "0", "no", "on", "2", "TRUE\n"} {
		add(input{Kind: "guard", Allow: a, URL: "http://127.0.0.1:11434/v1"})
		add(input{Kind: "dial", Allow: a, Addr: "127.0.0.1:1"})
	}
	ng := 60
	if tier == "thorough" {
		ng = 1500
	}
	for i := 0; i < ng; i++ {
		var h string
		switch r.Pick(3, 2, 2) {
		case 0:
			h = net.IP(v4(uint32(firsts[r.Intn(len(firsts))])<<24 | uint32(r.U64n(1<<24)))).String()
		case 1:
			h = "[" + net.IP(mapped(uint32(r.U64()))).String() + "]"
			if r.Bool() {
				h = fmt.Sprintf("[::ffff:%x:%x]", r.U64n(1<<16), r.U64n(1<<16))
			}
		default:
			h = "[" + net.IP(v6([]uint64{0xfc, 0xfd, 0xfe, 0xff, 0x20}[r.Intn(5)]<<56|r.U64n(1<<56), r.U64())).String() + "]"
		}
		add(input{Kind: "guard", URL: schemes[r.Intn(4)] + h + "/v1"})
		add(input{Kind: "dial", Addr: h + ":443"})
	}

	// ---- dialer
	for _, h := range hostSpellings {
		add(input{Kind: "dial", Addr: h + ":80"})
	}
	for _, a := range []string{"127.0.0.1", "[::1]", "127.0.0.1:", ":80", "8.8.8.8:80:1", "[::1]:80", "::1:80", "[127.0.0.1]:80", "localhost:http"} {
		add(input{Kind: "dial", Addr: a})
	}
	prox := [][][2]string{
		{{"HTTP_PROXY", "http://10.255.255.1:3128"}},
		{{"HTTPS_PROXY", "10.255.255.1:3128"}},
		{{"ALL_PROXY", "socks5://proxy.invalid:1080"}, {"http_proxy", " http://127.0.0.1:8888 "}},
		{{"https_proxy", "http://[fd00::1]:3128"}},
		{{"HTTP_PROXY", "http://user:pw@10.255.255.1"}},
		{{"HTTP_PROXY", "://bad"}, {"all_proxy", "http://:3128"}},
	}
	for _, p := range prox {
		for _, a := range []string{"10.255.255.1:3128", "10.255.255.1:80", "10.255.255.1", "10.255.255.2:3128", "127.0.0.1:8888",
			"127.0.0.1:1", "proxy.invalid:1080", "proxy.invalid:1", "[fd00::1]:3128", "[fd00::1]:22", "fd00::1", ":3128", "8.8.8.8:443"} {
			add(input{Kind: "dial", Addr: a, Proxies: p})
		}
	}

	// ---- redirect chains through net/http
	pub := []string{"http://8.8.8.8/a", "https://1.1.1.1/b", "http://[2001:4860:4860::8888]/c", "/relative", "../up?x=1", "//9.9.9.9/n"}
	bad := []string{"http://127.0.0.1/", "http://[::ffff:10.0.0.5]/x", "http://169.254.169.254/latest/meta-data/", "http://localhost:8080/",
		"//192.168.1.1/", "http://[fe80::1%25lo]/", "https://[fd00::5]/", "http://0.0.0.0/", "ftp://8.8.8.8/", "http://example.invalid/", "http://[::1"}
	add(input{Kind: "redirect", URL: "http://8.8.8.8/start"})
	for _, b := range bad {
		add(input{Kind: "redirect", URL: "http://8.8.8.8/start", Chain: []string{b}})
		add(input{Kind: "redirect", URL: "http://8.8.8.8/start", Chain: []string{pub[r.Intn(len(pub))], b, pub[0]}})
		add(input{Kind: "redirect", Allow: "1", URL: "http://8.8.8.8/start", Chain: []string{b, pub[1]}})
	}
	for n := 1; n <= 13; n++ {
		ch := make([]string, n)
		for i := range ch {
			ch[i] = pub[r.Intn(len(pub))]
		}
		add(input{Kind: "redirect", URL: "http://8.8.8.8/start", Chain: ch})
	}
	add(input{Kind: "redirect", URL: "http://127.0.0.1/start", Chain: []string{"/x", "http://8.8.8.8/"}}) // first hop is not the client's to check
	nr := 40
	if tier == "thorough" {
		nr = 800
	}
	for i := 0; i < nr; i++ {
		n := 1 + r.Intn(11)
		ch := make([]string, n)
		for j := range ch {
			if r.Chance(1, 5) {
				ch[j] = bad[r.Intn(len(bad))]
			} else {
				ch[j] = pub[r.Intn(len(pub))]
			}
		}
		al := ""
		if r.Chance(1, 8) {
			al = "true"
		}
		add(input{Kind: "redirect", Allow: al, URL: "https://8.8.4.4/v1/chat/completions", Chain: ch})
	}

	// ---- names served by the resolver stub: several addresses, rebinding between check and dial
	stubNames := []string{"pub.test", "pub2.test", "int.test", "mixed.test", "mixed-last.test", "mixed6.test", "mapped.test", "linklocal.test",
		"metadata.test", "zero.test", "rebind.test", "rebind-mix.test", "rebind6.test", "unbind.test", "cgnat.test", "localpub.test",
		"empty.test", "nx.test", "MIXED.Test", "mixed.test."}
	for _, n := range stubNames {
		for ph := 0; ph < 2; ph++ {
			add(input{Kind: "guard", URL: "https://" + n + "/v1/chat/completions", Phase: ph})
			add(input{Kind: "dial", Addr: n + ":443", Phase: ph})
		}
		add(input{Kind: "redirect", URL: "http://8.8.8.8/start", Chain: []string{"http://pub.test/a", "https://" + n + "/x", "http://pub2.test/"}})
		add(input{Kind: "e2e", Spell: "http://" + n + ":%PORT%/v1"})
	}
	add(input{Kind: "e2e", Allow: "1", Spell: "http://rebind-local.test:%PORT%/"}) // opt-in: the rebound name does reach the local server
	add(input{Kind: "e2e", Spell: "http://rebind-local.test:%PORT%/"})
	add(input{Kind: "e2e", Spell: "http://flip-local.test:%PORT%/"}) // reached only if the dialer resolved the name once more
	for _, n := range []string{"flip2-local.test", "flip3-local.test", "flip4-local.test", "flipds-local.test", "flip2-int.test",
		"flip2-map.test", "flip2-meta.test", "rebind2-local.test", "pub2.test"} {
		add(input{Kind: "e2e", Spell: "http://" + n + ":%PORT%/v1/models"})
		add(input{Kind: "dial", Addr: n + ":443", Phase: 1})
		add(input{Kind: "guard", URL: "http://" + n + "/", Phase: 1})
	}
	add(input{Kind: "e2e", Allow: "true", Spell: "http://rebind2-local.test:%PORT%/"})

	// ---- end to end against a local server
	for _, s := range []string{"http://127.0.0.1:%PORT%/", "http://localhost:%PORT%/", "http://[::ffff:127.0.0.1]:%PORT%/",
		"http://[::ffff:7f00:1]:%PORT%/", "http://[::1]:%PORT%/", "http://2130706433:%PORT%/", "http://0x7f000001:%PORT%/",
		"http://0177.0.0.1:%PORT%/", "http://127.1:%PORT%/", "http://127.0.0.1.:%PORT%/", "http://LOCALHOST:%PORT%/x",
		"http://localhost.:%PORT%/", "http://0.0.0.0:%PORT%/", "http://[::]:%PORT%/", "http://0:%PORT%/", "http://127.255.255.254:%PORT%/",
		"http://user@127.0.0.1:%PORT%/", "http://8.8.8.8@127.0.0.1:%PORT%/"} {
		add(input{Kind: "e2e", Spell: s})
	}
	for _, s := range []string{"http://127.0.0.1:%PORT%/", "http://localhost:%PORT%/", "http://[::ffff:127.0.0.1]:%PORT%/"} {
		add(input{Kind: "e2e", Allow: "1", Spell: s}) // positive control: the opt-in does reach the server
	}
	return out
}

func shrink(raw json.RawMessage) []json.RawMessage {
	var in input
	if hx.UJ(raw, &in) != nil {
		return nil
	}
	var out []json.RawMessage
	if in.Kind == "redirect" {
		for i := range in.Chain {
			c := in
			c.Chain = append(append([]string{}, in.Chain[:i]...), in.Chain[i+1:]...)
			out = append(out, hx.J(c))
		}
	}
	if in.Kind == "dial" && len(in.Proxies) > 0 {
		c := in
		c.Proxies = nil
		out = append(out, hx.J(c))
	}
	return out
}
