package c38

import (
	"context"
	"encoding/binary"
	"fmt"
	"net"
	"strings"
	"sync"
	"time"
)

// A tiny authoritative DNS stub on a loopback UDP socket. The harness points
// net.DefaultResolver at it (the guard and the dialer both resolve through
// net.DefaultResolver), so that names with several addresses and names whose
// answer changes between the URL check and the dial (rebinding) can be replayed
// without any network. Names outside the table get NXDOMAIN.

var (
	dnsMu    sync.Mutex
	dnsPhase int                // 0: answers at check time, 1: answers at dial time
	dnsCount = map[string]int{} // queries seen per name AND query type since the last setPhase (key: name|type)
	dnsTable = map[string][3][]string{
		// name: {answers in phase 0, answers in phase 1, answers to every later look-up within phase 1 (if any)}
		"pub.test.":          {{"8.8.8.8"}, {"8.8.8.8"}, nil},
		"pub2.test.":         {{"8.8.8.8", "1.1.1.1", "2001:4860:4860::8888"}, {"8.8.8.8", "1.1.1.1", "2001:4860:4860::8888"}, nil},
		"int.test.":          {{"10.0.0.7"}, {"10.0.0.7"}, nil},
		"mixed.test.":        {{"8.8.8.8", "10.0.0.7"}, {"8.8.8.8", "10.0.0.7"}, nil},
		"mixed-last.test.":   {{"8.8.8.8", "1.1.1.1", "9.9.9.9", "192.168.1.1"}, {"8.8.8.8", "1.1.1.1", "9.9.9.9", "192.168.1.1"}, nil},
		"mixed6.test.":       {{"8.8.8.8", "fd00::7"}, {"8.8.8.8", "fd00::7"}, nil},
		"mapped.test.":       {{"::ffff:127.0.0.1"}, {"::ffff:127.0.0.1"}, nil},
		"linklocal.test.":    {{"1.1.1.1", "fe80::1"}, {"1.1.1.1", "fe80::1"}, nil},
		"metadata.test.":     {{"169.254.169.254"}, {"169.254.169.254"}, nil},
		"zero.test.":         {{"0.0.0.0"}, {"0.0.0.0"}, nil},
		"rebind.test.":       {{"8.8.8.8"}, {"127.0.0.1"}, nil},
		"rebind-mix.test.":   {{"8.8.8.8", "1.1.1.1"}, {"8.8.8.8", "127.0.0.1"}, nil},
		"rebind6.test.":      {{"2001:4860:4860::8888"}, {"::1"}, nil},
		"unbind.test.":       {{"127.0.0.1"}, {"8.8.8.8"}, nil},
		"cgnat.test.":        {{"100.64.0.1"}, {"100.64.0.1"}, nil},
		"localpub.test.":     {{"127.0.0.1", "8.8.8.8"}, {"127.0.0.1", "8.8.8.8"}, nil},
		"empty.test.":        {{}, {}, nil},
		"rebind-local.test.": {{"8.8.8.8"}, {"127.0.0.1"}, nil},
		"flip-local.test.":   {{"8.8.8.8"}, {"8.8.8.8"}, {"127.0.0.1"}}, // public when vetted, local if resolved once more
		// rebinding schedules whose vetted answer has several public records (round-robin, dual stack)
		"flip2-local.test.":   {{"8.8.8.8", "1.1.1.1"}, {"8.8.8.8", "1.1.1.1"}, {"127.0.0.1"}},
		"flip3-local.test.":   {{"203.0.113.10", "203.0.113.11", "203.0.113.12"}, {"203.0.113.10", "203.0.113.11", "203.0.113.12"}, {"127.0.0.1"}},
		"flip4-local.test.":   {{"8.8.8.8", "1.1.1.1", "9.9.9.9", "208.67.222.222"}, {"8.8.8.8", "1.1.1.1", "9.9.9.9", "208.67.222.222"}, {"127.0.0.1"}},
		"flipds-local.test.":  {{"8.8.8.8", "2001:4860:4860::8888"}, {"8.8.8.8", "2001:4860:4860::8888"}, {"127.0.0.1"}},
		"flip2-int.test.":     {{"8.8.8.8", "1.1.1.1"}, {"8.8.8.8", "1.1.1.1"}, {"10.0.0.7"}},
		"flip2-map.test.":     {{"8.8.8.8", "8.8.4.4"}, {"8.8.8.8", "8.8.4.4"}, {"::ffff:127.0.0.1"}},
		"flip2-meta.test.":    {{"1.1.1.1", "1.0.0.1"}, {"1.1.1.1", "1.0.0.1"}, {"169.254.169.254"}},
		"rebind2-local.test.": {{"8.8.8.8", "1.1.1.1"}, {"127.0.0.1"}, nil}, // several public records at check time, local at dial time
	}
)

// lookupsOf reports how many resolutions of a name were seen since the last setPhase
// (every resolution asks exactly one A question).
func lookupsOf(name string) int {
	dnsMu.Lock()
	defer dnsMu.Unlock()
	k := strings.ToLower(name)
	if !strings.HasSuffix(k, ".") {
		k += "."
	}
	return dnsCount[k+"|1"]
}

// servedBoth reports whether both questions (A and AAAA) of a resolution of name have been answered.
func servedBoth(name string) bool {
	dnsMu.Lock()
	defer dnsMu.Unlock()
	k := strings.ToLower(name)
	if !strings.HasSuffix(k, ".") {
		k += "."
	}
	return dnsCount[k+"|1"] >= 1 && dnsCount[k+"|28"] >= 1
}

// inTable reports whether the stub answers for name.
func inTable(name string) bool {
	k := strings.ToLower(name)
	if !strings.HasSuffix(k, ".") {
		k += "."
	}
	_, ok := dnsTable[k]
	return ok
}

// dialContext returns a context for one guarded dial / request that does not depend on how fast
// the machine is: for a name served by the stub it is cancelled a fixed grace period AFTER the
// stub has answered the resolution (so the resolution itself can never be cut short by load);
// for anything else (IP literals, unknown names: no stub resolution to wait for) it carries a
// plain deadline. Connects to blackholed public addresses are what the cancellation ends.
func dialContext(host string, grace, literal time.Duration) (context.Context, context.CancelFunc) {
	if !inTable(host) {
		return context.WithTimeout(context.Background(), literal)
	}
	ctx, cancel := context.WithTimeout(context.Background(), 20*time.Second)
	go func() {
		t := time.NewTicker(2 * time.Millisecond)
		defer t.Stop()
		for {
			select {
			case <-ctx.Done():
				return
			case <-t.C:
				if servedBoth(host) {
					select {
					case <-ctx.Done():
					case <-time.After(grace):
						cancel()
					}
					return
				}
			}
		}
	}()
	return ctx, cancel
}

func setPhase(p int) {
	dnsMu.Lock()
	dnsPhase = p
	dnsCount = map[string]int{}
	dnsMu.Unlock()
}

func answersFor(name string, qtype uint16) ([][]byte, bool) {
	dnsMu.Lock()
	defer dnsMu.Unlock()
	e, ok := dnsTable[strings.ToLower(name)]
	if !ok {
		return nil, false
	}
	// The k-th query OF THIS TYPE for the name decides which answer is served, so the A and the
	// AAAA question of one resolution (sent in parallel, in either order) always see the same
	// schedule position: query #1 of a type = the resolution being vetted, #2.. = later ones.
	key := strings.ToLower(name) + "|" + fmt.Sprint(qtype)
	dnsCount[key]++
	list := e[dnsPhase]
	if dnsPhase == 1 && len(e[2]) > 0 && dnsCount[key] >= 2 {
		list = e[2]
	}
	var out [][]byte
	for _, s := range list {
		ip := net.ParseIP(s)
		if v4 := ip.To4(); v4 != nil && !strings.Contains(s, ":") {
			if qtype == 1 {
				out = append(out, v4)
			}
		} else if qtype == 28 {
			out = append(out, ip.To16())
		}
	}
	return out, true
}

func parseName(msg []byte, off int) (string, int) {
	var sb strings.Builder
	for off < len(msg) {
		l := int(msg[off])
		off++
		if l == 0 {
			break
		}
		if off+l > len(msg) {
			return "", len(msg)
		}
		sb.Write(msg[off : off+l])
		sb.WriteByte('.')
		off += l
	}
	return sb.String(), off
}

func serveDNS(pc net.PacketConn) {
	buf := make([]byte, 1500)
	for {
		n, addr, err := pc.ReadFrom(buf)
		if err != nil {
			return
		}
		if n < 12 {
			continue
		}
		q := append([]byte{}, buf[:n]...)
		name, off := parseName(q, 12)
		if off+4 > len(q) {
			continue
		}
		qtype := binary.BigEndian.Uint16(q[off:])
		qend := off + 4
		ans, known := answersFor(name, qtype)
		resp := append([]byte{}, q[:qend]...)
		resp[2] = 0x84 | (q[2] & 0x01) // response, authoritative, RD copied
		resp[3] = 0x00
		if !known {
			resp[3] = 0x03 // NXDOMAIN
		}
		binary.BigEndian.PutUint16(resp[6:], uint16(len(ans)))
		binary.BigEndian.PutUint16(resp[8:], 0)
		binary.BigEndian.PutUint16(resp[10:], 0)
		for _, a := range ans {
			resp = append(resp, 0xC0, 0x0C)
			resp = binary.BigEndian.AppendUint16(resp, qtype)
			resp = binary.BigEndian.AppendUint16(resp, 1)
			resp = binary.BigEndian.AppendUint32(resp, 0)
			resp = binary.BigEndian.AppendUint16(resp, uint16(len(a)))
			resp = append(resp, a...)
		}
		_, _ = pc.WriteTo(resp, addr)
	}
}

func startDNS() {
	pc, err := net.ListenPacket("udp", "127.0.0.1:0")
	if err != nil {
		panic(err)
	}
	go serveDNS(pc)
	server := pc.LocalAddr().String()
	net.DefaultResolver = &net.Resolver{
		PreferGo: true,
		Dial: func(ctx context.Context, network, _ string) (net.Conn, error) {
			var d net.Dialer
			return d.DialContext(ctx, "udp", server)
		},
	}
}
