// Package c40 hammers the real monitor HTTP endpoints while an engine runs. Each
// scenario runs in a SUBPROCESS of the (race-instrumented) harness binary with
// GORACE="halt_on_error=0 exitcode=0 log_path=..." so that race reports become
// observed data (which endpoints are implicated) rather than a crash.
package c40

import (
	"bufio"
	"encoding/json"
	"fmt"
	"go/ast"
	"go/parser"
	"go/token"
	"io"
	"net"
	"net/http"
	"net/url"
	"os"
	"os/exec"
	"path/filepath"
	"reflect"
	"runtime"
	"strings"
	"sync"
	"sync/atomic"
	"syscall"
	"time"

	"github.com/sarchlab/akita/v5/messaging"
	"github.com/sarchlab/akita/v5/modeling"
	"github.com/sarchlab/akita/v5/monitoring2"
	"github.com/sarchlab/akita/v5/timing"

	"verifharness/internal/hx"
)

type input struct {
	Par    bool     `json:"par"`
	Prog   []string `json:"prog"` // comp sched tick prog port now
	Reqs   []string `json:"reqs"` // pause continue state now tick inspect buffers progress
	Events int      `json:"events"`
	Spin   int      `json:"spin"`
	// Scn "hold": user pause, wait until the engine is idle, start a /api/field inspection of a large
	// slice and stop reading the response (the handler blocks mid-serialisation), send /api/continue.
	Scn string `json:"scn,omitempty"`
}

type childOut struct {
	Counter  int  `json:"counter"`
	Handled  int  `json:"handled"`
	Done     bool `json:"done"`
	Requests int  `json:"requests"`
	// hold scenario
	During          int    `json:"during,omitempty"`           // events handled while the inspection was observed still in progress
	ContinueBlocked bool   `json:"continue_blocked,omitempty"` // /api/continue was observed waiting for engineControlMu
	HoldNote        string `json:"hold_note,omitempty"`
}

type obs struct {
	During          int      `json:"during,omitempty"`
	ContinueBlocked bool     `json:"continue_blocked,omitempty"`
	Scope           bool     `json:"lock_scope_fact"`
	ScopeNote       string   `json:"lock_scope_note,omitempty"`
	Raced           []string `json:"raced"`
	Same            bool     `json:"same"`
	Done            bool     `json:"done"`
	Requests        int      `json:"requests"`
	Reports         int      `json:"reports"`
	Note            string   `json:"note,omitempty"`
}

// ------------------------------------------------------------------ child

type workEvent struct {
	t timing.VTimeInPicoSec
}

func (e workEvent) Time() timing.VTimeInPicoSec { return e.t }
func (e workEvent) HandlerID() string           { return "Comp" }
func (e workEvent) IsSecondary() bool           { return false }

// Comp is the inspected component.
type Comp struct {
	name    string
	Counter int
	Items   []int
	Big     []int // large only in the "hold" scenario

	tick *modeling.TickScheduler
	port messaging.Port
}

// driver is the event handler; its bookkeeping is not reachable from Comp, so
// the only component state a handler writes is what the program says.
type driver struct {
	c       *Comp
	ticks   int
	handled int
	eng     timing.Engine
	bar     interface{ IncrementFinished(uint64) }
	prog    []string
	spin    int
	left    int
	hcount  atomic.Int64 // handled work events (read by the harness goroutine)
	chain   bool         // hold scenario: every handler schedules the next event until stop
	stop    atomic.Bool
}

func (c *Comp) Name() string { return c.name }
func (c *Comp) TickLater()   { c.tick.TickLater() }
func (c *Comp) Ports() []messaging.Port {
	return []messaging.Port{c.port}
}

var sink uint64

func busy(n int) {
	x := uint64(1)
	for i := 0; i < n; i++ {
		x = x*6364136223846793005 + 1442695040888963407
	}
	if x == 42 {
		sink++
	}
}

func (d *driver) Handle(e timing.Event) error {
	c := d.c
	if _, ok := e.(workEvent); !ok {
		d.ticks++ // a tick event (scheduled by TickLater): no simulation result depends on it
		return nil
	}
	d.handled++
	d.hcount.Add(1)
	if d.chain && !d.stop.Load() {
		d.eng.Schedule(workEvent{e.Time() + 1000})
	}
	busy(d.spin)
	for _, a := range d.prog {
		switch a {
		case "comp":
			c.Counter++
			c.Items = append(c.Items, c.Counter)
			if len(c.Items) > 64 {
				c.Items = c.Items[:0]
			}
			if n := len(c.Big); n > 0 {
				c.Big[c.Counter%n] = c.Counter
			}
		case "sched":
			if d.left > 0 {
				d.left--
				d.eng.Schedule(workEvent{e.Time() + 1000})
			}
		case "tick":
			c.tick.TickLater()
		case "prog":
			d.bar.IncrementFinished(1)
		case "port":
			_ = c.port.PeekOutgoing()
		case "now":
			_ = d.eng.CurrentTime()
		}
	}
	return nil
}

func freePort() int {
	l, err := net.Listen("tcp", "127.0.0.1:0")
	if err != nil {
		panic(err)
	}
	p := l.Addr().(*net.TCPAddr).Port
	l.Close()
	return p
}

func endpoint(r string) string {
	switch r {
	case "pause":
		return "/api/pause"
	case "continue":
		return "/api/continue"
	case "state":
		return "/api/engine/state"
	case "now":
		return "/api/now"
	case "tick":
		return "/api/tick/Comp"
	case "inspect":
		return "/api/component/Comp"
	case "field":
		return "/api/field/" + url.PathEscape(`{"comp_name":"Comp","field_name":"Items"}`)
	case "buffers":
		return "/api/hangdetector/buffers?limit=10"
	case "progress":
		return "/api/progress"
	}
	return "/api/mode"
}

func runSim(in input, withRequests bool) childOut {
	var eng timing.Engine
	if in.Par {
		eng = timing.NewParallelEngine()
	} else {
		eng = timing.NewSerialEngine()
	}
	c := &Comp{name: "Comp"}
	d := &driver{c: c, eng: eng, prog: in.Prog, spin: in.Spin}
	c.tick = modeling.NewTickScheduler("Comp", eng, 1*timing.GHz)
	c.port = messaging.NewPort(nil, 4, 4, "Comp.Port")
	eng.(timing.HandlerRegistrar).RegisterHandler("Comp", d)
	mon := monitoring2.NewMonitor()
	mon.RegisterEngine(eng)
	mon.RegisterComponent(c)
	d.bar = mon.CreateProgressBar("work", uint64(in.Events))
	hasSched := false
	for _, a := range in.Prog {
		if a == "sched" {
			hasSched = true
		}
	}
	if hasSched {
		// a chain: each handler schedules the next work event
		d.left = in.Events - 1
		eng.Schedule(workEvent{1000})
	} else {
		for i := 0; i < in.Events; i++ {
			eng.Schedule(workEvent{timing.VTimeInPicoSec(1000 * (i + 1))})
		}
	}
	out := childOut{}
	done := make(chan struct{})
	if !withRequests {
		_ = eng.Run()
		out.Done = true
		out.Counter, out.Handled = c.Counter, d.handled
		return out
	}
	port := freePort()
	mon.WithPortNumber(port)
	stderr := os.Stderr
	os.Stderr, _ = os.Open(os.DevNull) // StartServer prints the URL
	mon.StartServer()
	os.Stderr = stderr
	defer mon.StopServer()
	base := fmt.Sprintf("http://127.0.0.1:%d", port)
	client := &http.Client{Timeout: 5 * time.Second}
	get := func(path string) {
		resp, err := client.Get(base + path)
		if err == nil {
			io.Copy(io.Discard, resp.Body)
			resp.Body.Close()
		}
	}
	get("/api/mode") // server is up
	go func() {
		_ = eng.Run()
		close(done)
	}()
	var wg sync.WaitGroup
	wg.Add(1)
	go func() {
		defer wg.Done()
		for i := 0; ; i++ {
			select {
			case <-done:
				return
			default:
			}
			if len(in.Reqs) == 0 {
				runtime.Gosched()
				continue
			}
			r := in.Reqs[i%len(in.Reqs)]
			if r == "inspect" && i%2 == 1 {
				r = "field"
			}
			get(endpoint(r))
			out.Requests++
			if i >= 150 {
				return
			}
		}
	}()
	finished := false
	select {
	case <-done:
		finished = true
	case <-time.After(20 * time.Second):
	}
	if !finished {
		// left paused by a pause request: the run must proceed after Continue
		get("/api/continue")
		select {
		case <-done:
			finished = true
		case <-time.After(20 * time.Second):
		}
	}
	wg.Wait()
	if !finished {
		// the requester may have stopped on a pause: continue once more
		get("/api/continue")
		select {
		case <-done:
			finished = true
		case <-time.After(10 * time.Second):
		}
	}
	out.Done = finished
	out.Counter, out.Handled = c.Counter, d.handled
	return out
}

// ---- the held-inspection history ----

func stackHas(pred func(header, body string) bool) bool {
	buf := make([]byte, 1<<21)
	n := runtime.Stack(buf, true)
	for _, g := range strings.Split(string(buf[:n]), "\n\n") {
		nl := strings.IndexByte(g, '\n')
		if nl < 0 {
			continue
		}
		if pred(g[:nl], g[nl:]) {
			return true
		}
	}
	return false
}

func engineIdle(par bool) bool {
	if par {
		return stackHas(func(h, b string) bool {
			return strings.Contains(h, "sync.Mutex.Lock") && strings.Contains(b, "(*ParallelEngine).Run") && !strings.Contains(b, "EventQueueImpl")
		})
	}
	return stackHas(func(h, b string) bool {
		return strings.Contains(h, "sync.Cond.Wait") && strings.Contains(b, "(*SerialEngine).waitForResume")
	})
}

func continueWaiting() bool {
	return stackHas(func(h, b string) bool {
		return strings.Contains(h, "sync.Mutex.Lock") && strings.Contains(b, "(*Monitor).continueEngine")
	})
}

func inspectionInProgress() bool {
	return stackHas(func(h, b string) bool { return strings.Contains(b, "(*Monitor).listFieldValue") })
}

// pollUntil yields (no sleeping for ordering; a 50us back-off only) until cond holds or the safety deadline passes.
func pollUntil(cond func() bool, d time.Duration) bool {
	deadline := time.Now().Add(d)
	for i := 0; !cond(); i++ {
		if time.Now().After(deadline) {
			return false
		}
		runtime.Gosched()
		if i > 100 {
			time.Sleep(50 * time.Microsecond)
		}
	}
	return true
}

func runHold(in input) childOut {
	var eng timing.Engine
	if in.Par {
		eng = timing.NewParallelEngine()
	} else {
		eng = timing.NewSerialEngine()
	}
	c := &Comp{name: "Comp", Big: make([]int, 250000)}
	d := &driver{c: c, eng: eng, prog: in.Prog, spin: in.Spin, chain: true}
	c.tick = modeling.NewTickScheduler("Comp", eng, 1*timing.GHz)
	c.port = messaging.NewPort(nil, 4, 4, "Comp.Port")
	eng.(timing.HandlerRegistrar).RegisterHandler("Comp", d)
	mon := monitoring2.NewMonitor()
	mon.RegisterEngine(eng)
	mon.RegisterComponent(c)
	d.bar = mon.CreateProgressBar("work", 1)
	eng.Schedule(workEvent{1000})
	port := freePort()
	mon.WithPortNumber(port)
	stderr := os.Stderr
	os.Stderr, _ = os.Open(os.DevNull)
	mon.StartServer()
	os.Stderr = stderr
	defer mon.StopServer()
	addr := fmt.Sprintf("127.0.0.1:%d", port)
	base := "http://" + addr
	client := &http.Client{Timeout: 60 * time.Second}
	get := func(path string) {
		resp, err := client.Get(base + path)
		if err == nil {
			io.Copy(io.Discard, resp.Body)
			resp.Body.Close()
		}
	}
	get("/api/mode")
	out := childOut{}
	done := make(chan struct{})
	go func() {
		_ = eng.Run()
		close(done)
	}()
	finish := func() {
		d.stop.Store(true)
		get("/api/continue")
		select {
		case <-done:
			out.Done = true
		case <-time.After(20 * time.Second):
		}
		out.Counter, out.Handled = c.Counter, int(d.hcount.Load())
	}
	// let the run get going, then the user pause; wait until the engine is idle
	if !pollUntil(func() bool { return d.hcount.Load() >= 50 }, 20*time.Second) {
		out.HoldNote = "engine did not start"
		finish()
		return out
	}
	get("/api/pause")
	if !pollUntil(func() bool { return engineIdle(in.Par) }, 20*time.Second) {
		out.HoldNote = "engine did not become idle after /api/pause"
		finish()
		return out
	}
	h0 := d.hcount.Load()
	// the inspection, over a raw connection with a tiny receive buffer; we read only the beginning of the body
	dialer := net.Dialer{Timeout: 10 * time.Second, Control: func(network, address string, rc syscall.RawConn) error {
		return rc.Control(func(fd uintptr) { syscall.SetsockoptInt(int(fd), syscall.SOL_SOCKET, syscall.SO_RCVBUF, 4096) })
	}}
	conn, err := dialer.Dial("tcp", addr)
	if err != nil {
		out.HoldNote = "dial: " + err.Error()
		finish()
		return out
	}
	defer conn.Close()
	path := "/api/field/" + url.PathEscape(`{"comp_name":"Comp","field_name":"Big"}`)
	fmt.Fprintf(conn, "GET %s HTTP/1.1\r\nHost: x\r\nConnection: close\r\n\r\n", path)
	br := bufio.NewReaderSize(conn, 512)
	got := 0
	sawBody := false
	hdrEnd := false
	for got < 1<<16 && !sawBody {
		line, err := br.ReadString('\n')
		got += len(line)
		if err != nil {
			break
		}
		if !hdrEnd {
			if line == "\r\n" {
				hdrEnd = true
			}
			continue
		}
		if strings.Contains(line, "dict") || len(line) > 2 {
			sawBody = true // the serializer is past its first 4 KB of output: the inspection is in progress
		}
	}
	if !sawBody {
		out.HoldNote = "no response body from the inspection"
		finish()
		return out
	}
	contDone := make(chan struct{})
	go func() {
		get("/api/continue")
		close(contDone)
	}()
	// decisive observation, no sleep: either /api/continue is seen waiting for engineControlMu, or it returns
	returned := false
	pollUntil(func() bool {
		select {
		case <-contDone:
			returned = true
			return true
		default:
		}
		if continueWaiting() {
			out.ContinueBlocked = true
			return true
		}
		return false
	}, 20*time.Second)
	if returned {
		// the engine was resumed; did it handle events while the inspection handler was still running?
		pollUntil(func() bool { return d.hcount.Load() > h0 }, 5*time.Second)
		n := d.hcount.Load() - h0
		if n > 0 && inspectionInProgress() {
			out.During = int(n)
		} else if n > 0 {
			out.HoldNote = "continue returned after the inspection had finished (response not held: inconclusive)"
		}
	}
	// release the inspection: read the rest of the response
	io.Copy(io.Discard, br)
	select {
	case <-contDone:
	case <-time.After(20 * time.Second):
		out.HoldNote += " continue never returned"
	}
	finish()
	return out
}

func child() {
	var in input
	b, err := os.ReadFile(os.Args[2])
	if err != nil {
		os.Exit(3)
	}
	if json.Unmarshal(b, &in) != nil {
		os.Exit(3)
	}
	res := map[string]childOut{}
	if in.Scn == "hold" {
		r := runHold(in)
		res["plain"], res["monitored"] = childOut{Done: r.Done, Counter: r.Counter, Handled: r.Handled}, r
		res["plain"] = res["monitored"]
	} else {
		res["plain"] = runSim(in, false)
		res["monitored"] = runSim(in, true)
	}
	ob, _ := json.Marshal(res)
	os.WriteFile(os.Args[3], ob, 0o644)
}

func init() {
	if len(os.Args) >= 4 && os.Args[1] == "c40child" {
		child()
		os.Exit(0)
	}
	hx.Register(&hx.Prop{
		ID:      "C40",
		Imports: "From Akita Require Import Lib.Base C40.Model C40.Exec.",
		Rule: "each case = engine kind x handler program (component-state writes, Schedule, TickLater, progress-bar updates, port " +
			"access, CurrentTime) x a set of live-monitor endpoints requested in a tight loop over real HTTP (Monitor.StartServer on " +
			"127.0.0.1) while Engine.Run executes ~900-1350 (parallel) / 9000-13500 (serial) events; the scenario runs in a race-instrumented SUBPROCESS " +
			"(GORACE halt_on_error=0 exitcode=0 log_path=...), the race log is parsed into the set of endpoints whose handler frames " +
			"appear in a report, and the final component results are compared with an unmonitored run in the same subprocess. " +
			"Directed: every endpoint alone on both engines, the full safe mix, pause/continue storms, and the held-inspection history (user pause, engine observed idle by its goroutine stack, /api/field inspection of a 250000-element slice over a raw connection whose client stops reading, /api/continue sent meanwhile; observed: continue waits for engineControlMu / events handled while the inspection handler is still running). The lock-scope fact the model relies on is extracted from monitoring2/monitor.go by go/ast on every run. Non-trivial: >= 20 requests " +
			"were served while the engine was running. Distinct = distinct input hash.",
		Gen: gen, Run: run,
	})
}

// ------------------------------------------------------------------ parent

var frames = map[string]string{
	"(*Monitor).now(":                  "now",
	"(*Monitor).tick(":                 "tick",
	"(*Monitor).listComponentDetails(": "inspect",
	"(*Monitor).listFieldValue(":       "inspect",
	"(*Monitor).listProgressBars(":     "progress",
	"(*Monitor).hangDetectorBuffers(":  "buffers",
	"(*Monitor).pauseEngine(":          "pause",
	"(*Monitor).continueEngine(":       "continue",
	"(*Monitor).apiEngineState(":       "state",
}

func parseRaces(dir string) (map[string]bool, int, []string) {
	raced := map[string]bool{}
	n := 0
	var unattributed []string
	files, _ := filepath.Glob(filepath.Join(dir, "race.*"))
	for _, f := range files {
		b, _ := os.ReadFile(f)
		for _, blk := range strings.Split(string(b), "WARNING: DATA RACE") {
			if !strings.Contains(blk, "goroutine") {
				continue
			}
			n++
			hit := false
			for fr, name := range frames {
				if strings.Contains(blk, fr) {
					raced[name] = true
					hit = true
				}
			}
			if !hit {
				lines := strings.Split(blk, "\n")
				if len(lines) > 6 {
					lines = lines[:6]
				}
				unattributed = append(unattributed, strings.Join(lines, " | "))
			}
		}
	}
	return raced, n, unattributed
}

// lockScopeFact extracts from monitoring2/monitor.go (the tree the harness was built against) the
// fact the model relies on: pauseForInspection locks engineControlMu first, does not unlock it
// itself, and every resume closure it returns unlocks it (so the whole inspection is ONE critical
// section); pauseEngine and continueEngine lock the same mutex before touching the engine.
func lockScopeFact() (bool, string) {
	file, _ := runtime.FuncForPC(reflect.ValueOf(monitoring2.NewMonitor).Pointer()).FileLine(0)
	fset := token.NewFileSet()
	f, err := parser.ParseFile(fset, file, nil, 0)
	if err != nil {
		return false, "cannot parse " + file
	}
	isMuCall := func(n ast.Node, method string) bool {
		call, ok := n.(*ast.CallExpr)
		if !ok {
			return false
		}
		sel, ok := call.Fun.(*ast.SelectorExpr)
		if !ok || sel.Sel.Name != method {
			return false
		}
		inner, ok := sel.X.(*ast.SelectorExpr)
		return ok && inner.Sel.Name == "engineControlMu"
	}
	firstIsLock := func(fd *ast.FuncDecl) bool {
		if fd.Body == nil || len(fd.Body.List) == 0 {
			return false
		}
		es, ok := fd.Body.List[0].(*ast.ExprStmt)
		return ok && isMuCall(es.X, "Lock")
	}
	funcs := map[string]*ast.FuncDecl{}
	for _, d := range f.Decls {
		if fd, ok := d.(*ast.FuncDecl); ok && fd.Recv != nil {
			funcs[fd.Name.Name] = fd
		}
	}
	for _, name := range []string{"pauseEngine", "continueEngine", "pauseForInspection"} {
		fd := funcs[name]
		if fd == nil {
			return false, name + " not found"
		}
		if !firstIsLock(fd) {
			return false, name + " does not start with engineControlMu.Lock()"
		}
	}
	pfi := funcs["pauseForInspection"]
	ok, note := true, ""
	// outside the returned closures: no Unlock (neither direct nor deferred), exactly the initial Lock
	var walk func(n ast.Node, inLit bool)
	nLits := 0
	walk = func(n ast.Node, inLit bool) {
		ast.Inspect(n, func(x ast.Node) bool {
			switch v := x.(type) {
			case *ast.FuncLit:
				if x == n {
					return true
				}
				nLits++
				unlocks, locks := false, false
				ast.Inspect(v.Body, func(y ast.Node) bool {
					if isMuCall(y, "Unlock") {
						unlocks = true
					}
					if isMuCall(y, "Lock") {
						locks = true
					}
					return true
				})
				if !unlocks || locks {
					ok, note = false, "a resume closure of pauseForInspection does not simply unlock engineControlMu"
				}
				return false
			case *ast.CallExpr:
				if isMuCall(v, "Unlock") && !inLit {
					ok, note = false, "pauseForInspection unlocks engineControlMu before returning"
				}
			}
			return true
		})
	}
	walk(pfi.Body, false)
	if nLits == 0 {
		ok, note = false, "pauseForInspection returns no resume closure"
	}
	// the inspection handlers call pauseForInspection and defer the resume
	for _, name := range []string{"listComponentDetails", "listFieldValue"} {
		fd := funcs[name]
		uses := false
		if fd != nil {
			ast.Inspect(fd.Body, func(y ast.Node) bool {
				if c, k := y.(*ast.CallExpr); k {
					if sel, k2 := c.Fun.(*ast.SelectorExpr); k2 && sel.Sel.Name == "pauseForInspection" {
						uses = true
					}
				}
				return true
			})
		}
		if !uses {
			ok, note = false, name+" does not call pauseForInspection"
		}
	}
	return ok, note
}

func coqReq(r string) string {
	return map[string]string{"pause": "RPause", "continue": "RContinue", "state": "RState", "now": "RNow", "tick": "RTick",
		"inspect": "RInspect", "buffers": "RBuffers", "progress": "RProgress"}[r]
}

func coqAct(a string) string {
	return map[string]string{"comp": "AComp", "sched": "ASched", "tick": "ATick", "prog": "AProg", "port": "APort", "now": "ANow"}[a]
}

var order = []string{"pause", "continue", "state", "now", "tick", "inspect", "buffers", "progress"}

func run(raw json.RawMessage) (hx.Case, error) {
	var in input
	if err := hx.UJ(raw, &in); err != nil {
		return hx.Case{}, err
	}
	dir, err := os.MkdirTemp("", "c40-")
	if err != nil {
		return hx.Case{}, err
	}
	defer os.RemoveAll(dir)
	inf := filepath.Join(dir, "in.json")
	outf := filepath.Join(dir, "out.json")
	os.WriteFile(inf, raw, 0o644)
	self, _ := os.Executable()
	cmd := exec.Command(self, "c40child", inf, outf)
	cmd.Env = append(os.Environ(), "GORACE=halt_on_error=0 exitcode=0 atexit_sleep_ms=0 log_path="+filepath.Join(dir, "race"))
	cmd.Stdout, cmd.Stderr = io.Discard, io.Discard
	o := obs{}
	done := make(chan error, 1)
	if err := cmd.Start(); err != nil {
		return hx.Case{}, err
	}
	go func() { done <- cmd.Wait() }()
	select {
	case err := <-done:
		if err != nil {
			o.Note = "child: " + err.Error()
		}
	case <-time.After(120 * time.Second):
		cmd.Process.Kill()
		o.Note = "child timed out"
	}
	var res map[string]childOut
	if b, err := os.ReadFile(outf); err == nil && json.Unmarshal(b, &res) == nil {
		p, m := res["plain"], res["monitored"]
		o.Same = p.Counter == m.Counter && p.Handled == m.Handled
		o.Done = p.Done && m.Done
		o.Requests = m.Requests
		o.During = m.During
		o.ContinueBlocked = m.ContinueBlocked
		if m.HoldNote != "" {
			o.Note += " hold: " + m.HoldNote
		}
	}
	raced, n, unattr := parseRaces(dir)
	o.Reports = n
	for _, r := range order {
		if raced[r] {
			o.Raced = append(o.Raced, r)
		}
	}
	if len(unattr) > 0 {
		o.Note += " unattributed race: " + unattr[0]
	}
	progT := make([]string, len(in.Prog))
	for i, a := range in.Prog {
		progT[i] = coqAct(a)
	}
	reqT := make([]string, len(in.Reqs))
	for i, r := range in.Reqs {
		reqT[i] = coqReq(r)
	}
	racedT := make([]string, len(o.Raced))
	for i, r := range o.Raced {
		racedT[i] = coqReq(r)
	}
	c := hx.Case{Obs: o}
	o.Scope, o.ScopeNote = lockScopeFact()
	c.Obs = o
	c.Coq = hx.App("mk_case", hx.B(in.Par), hx.L(progT), hx.L(reqT), hx.L(racedT), hx.B(o.Same), hx.B(o.Done),
		hx.B(in.Scn == "hold"), hx.B(o.During > 0), hx.B(o.Scope))
	eng := "serial"
	if in.Par {
		eng = "parallel"
	}
	c.Tags = []string{"engine:" + eng}
	for _, r := range in.Reqs {
		c.Tags = append(c.Tags, "endpoint:"+r)
	}
	c.Nontrivial = o.Requests >= 20
	if in.Scn == "hold" {
		c.Tags = append(c.Tags, "history:held-inspection+continue")
		c.Nontrivial = o.ContinueBlocked || o.During > 0
	}
	// known classifiers, from the input shape only
	has := func(xs []string, x string) bool {
		for _, y := range xs {
			if y == x {
				return true
			}
		}
		return false
	}
	switch {
	case in.Scn == "hold":
		// user pause first, engine observed idle: on the parallel engine none of the known races is in play;
		// SerialEngine.Pause establishes no happens-before edge from the engine to the caller, so the race
		// detector may still flag the inspection there (that is F-C40-3)
		if !in.Par && (has(in.Prog, "comp") || has(in.Prog, "tick")) {
			c.Known = "serial_inspection_race"
		}
	case has(in.Reqs, "progress") && has(in.Prog, "prog"):
		c.Known = "progress_endpoint_race"
	case !in.Par && has(in.Reqs, "tick"):
		c.Known = "serial_tick_endpoint_race"
	case !in.Par && has(in.Reqs, "now"):
		c.Known = "serial_now_endpoint_race"
	case !in.Par && has(in.Reqs, "inspect") && (has(in.Prog, "comp") || has(in.Prog, "tick")):
		c.Known = "serial_inspection_race"
	}
	return c, nil
}

func gen(r *hx.Rand, tier string) []json.RawMessage {
	var out []json.RawMessage
	add := func(in input) { out = append(out, hx.J(in)) }
	full := []string{"comp", "sched", "tick", "prog", "port", "now"}
	evs := func(par bool) int {
		if par {
			return 900
		}
		return 9000
	}
	singles := []string{"now", "tick", "inspect", "buffers", "progress"}
	if tier == "thorough" {
		singles = order
	}
	for _, par := range []bool{false, true} {
		for _, e := range singles {
			add(input{Par: par, Prog: full, Reqs: []string{e}, Events: evs(par), Spin: 1000})
		}
		// the mix that must be safe on both engines
		add(input{Par: par, Prog: full, Reqs: []string{"pause", "state", "continue", "buffers"}, Events: evs(par), Spin: 1000})
	}
	add(input{Par: true, Prog: full, Reqs: []string{"now", "inspect", "pause", "tick", "inspect", "buffers", "continue", "state"}, Events: 900, Spin: 1000})
	add(input{Par: true, Prog: []string{"comp", "sched", "tick", "port", "now"}, Reqs: []string{"progress", "inspect", "now", "tick"}, Events: 900, Spin: 1000})
	add(input{Par: false, Prog: []string{"sched", "port", "now"}, Reqs: []string{"inspect", "progress", "buffers", "state"}, Events: 9000, Spin: 1000})
	// directed: the held inspection with a concurrent /api/continue, both engines
	// (the parallel-engine instance and a serial instance whose handlers do not write component state — outside
	// F-C40-3, the deterministic observable decides — are in corpus/C40 and always run first)
	add(input{Par: false, Prog: []string{"comp", "port", "now"}, Reqs: []string{"pause", "inspect", "continue"}, Spin: 200, Scn: "hold"})
	n := 1
	if tier == "thorough" {
		n = 16
	}
	for i := 0; i < n; i++ {
		in := input{Par: r.Bool(), Spin: r.Range(500, 2000)}
		in.Events = evs(in.Par) + r.Intn(evs(in.Par)/2)
		for _, a := range full {
			if r.Chance(2, 3) {
				in.Prog = append(in.Prog, a)
			}
		}
		k := r.Range(1, 4)
		for j := 0; j < k; j++ {
			in.Reqs = append(in.Reqs, order[r.Intn(len(order))])
		}
		add(in)
	}
	return out
}
