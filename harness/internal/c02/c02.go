// Package c02 ties the Coq model of SerialEngine.RunUntil/Run (Lib/Engine.v) to the real engine:
// the same handler scripts as C01, driven as RunUntil(b1); ...; RunUntil(bk); Run() and, on a
// fresh engine, as a single Run().
package c02

import (
	"encoding/json"
	"fmt"
	"sort"

	"verifharness/internal/engsim"
	"verifharness/internal/hx"
)

type input struct {
	S      engsim.Script `json:"script"`
	Bounds []uint64      `json:"bounds"`
}

type obs struct {
	Segs   []engsim.Seg `json:"segs"`
	Single engsim.Seg   `json:"single"`
}

func run(raw json.RawMessage) (hx.Case, error) {
	var in input
	if err := hx.UJ(raw, &in); err != nil {
		return hx.Case{}, err
	}
	segs := engsim.RunSegments(in.S, in.Bounds)
	single := engsim.RunSegments(in.S, nil)[0]
	c := hx.Case{Obs: obs{segs, single}}
	ss := make([]string, len(segs))
	for i, g := range segs {
		ss[i] = engsim.CoqSeg(g)
	}
	c.Coq = hx.App("mk_case2", engsim.CoqProg(in.S.Prog), hx.N(in.S.Cap), engsim.CoqInit(in.S.Init),
		hx.N(in.S.T0), hx.B(in.S.Hooks), hx.LN(in.Bounds), hx.L(ss), engsim.CoqSeg(single))
	st := engsim.Analyse(segs)
	c.Tags = st.Tags(in.S.Hooks)
	// classify the boundaries against the event times of the single run
	times := map[uint64]bool{}
	var maxT uint64
	for _, s := range single.Steps {
		times[s.Ev.T] = true
		if s.Ev.T > maxT {
			maxT = s.Ev.T
		}
	}
	at, between, beyond, repeated, decreasing, spawnedInside := 0, 0, 0, 0, 0, 0
	for i, b := range in.Bounds {
		switch {
		case times[b]:
			at++
		case b > maxT:
			beyond++
		default:
			between++
		}
		if i > 0 && b == in.Bounds[i-1] {
			repeated++
		}
		if i > 0 && b < in.Bounds[i-1] {
			decreasing++
		}
	}
	nonEmptySegs := 0
	for i, g := range segs {
		if i < len(in.Bounds) && len(g.Steps) > 0 {
			nonEmptySegs++
			for _, s := range g.Steps {
				for _, y := range s.Sched {
					if y.T <= in.Bounds[i] {
						spawnedInside++
					}
				}
			}
		}
	}
	tag := func(n int, s string) {
		if n > 0 {
			c.Tags = append(c.Tags, s)
		}
	}
	tag(at, "boundary:at-event-time")
	tag(between, "boundary:between-event-times")
	tag(beyond, "boundary:beyond-last-event")
	tag(repeated, "boundary:repeated")
	tag(decreasing, "boundary:decreasing")
	tag(spawnedInside, "spawned-within-boundary-handled-in-same-call")
	c.Tags = append(c.Tags, fmt.Sprintf("boundaries:%d", bucket(len(in.Bounds))))
	// non-trivial: at least two RunUntil calls handle something, some event is scheduled and
	// handled within one call, and the final Run still has work or a boundary fell at an event time
	c.Nontrivial = nonEmptySegs >= 2 && spawnedInside > 0 && st.Panics == 0
	return c, nil
}

func bucket(n int) int {
	switch {
	case n <= 1:
		return n
	case n <= 4:
		return 4
	case n <= 16:
		return 16
	}
	return 64
}

// bounds draws a boundary list for a script from the event times of its single run.
func bounds(r *hx.Rand, s engsim.Script) []uint64 {
	single := engsim.RunSegments(s, nil)[0]
	var ts []uint64
	seen := map[uint64]bool{}
	for _, st := range single.Steps {
		if !seen[st.Ev.T] {
			seen[st.Ev.T] = true
			ts = append(ts, st.Ev.T)
		}
	}
	var maxT uint64
	if len(ts) > 0 {
		maxT = ts[len(ts)-1]
	}
	pick := func() uint64 {
		switch r.Pick(4, 3, 1, 1) {
		case 0: // at an event time
			if len(ts) > 0 {
				return ts[r.Intn(len(ts))]
			}
			return 0
		case 1: // anywhere up to the end (often between)
			return r.U64n(maxT + 2)
		case 2: // just before / after an event time
			if len(ts) > 0 {
				t := ts[r.Intn(len(ts))]
				if r.Bool() && t > 0 {
					return t - 1
				}
				return t + 1
			}
			return 1
		default: // beyond
			return maxT + 1 + r.U64n(50)
		}
	}
	k := r.Pick(1, 3, 4, 3, 1)
	n := []int{0, 1, r.Range(2, 4), r.Range(5, 12), r.Range(13, 40)}[k]
	bs := make([]uint64, n)
	for i := range bs {
		bs[i] = pick()
	}
	switch r.Pick(6, 2, 1) {
	case 0: // increasing, with repeats kept
		sort.Slice(bs, func(i, j int) bool { return bs[i] < bs[j] })
	case 1: // increasing with forced repeats
		sort.Slice(bs, func(i, j int) bool { return bs[i] < bs[j] })
		for i := 1; i < len(bs); i++ {
			if r.Chance(1, 3) {
				bs[i] = bs[i-1]
			}
		}
	default: // arbitrary order (includes decreasing)
	}
	return bs
}

func directed() []input {
	sp := func(dt int64, tgt uint64, sec bool) engsim.Spawn { return engsim.Spawn{Dt: dt, Tgt: tgt, Sec: sec} }
	chain := engsim.Script{Prog: [][][]engsim.Spawn{{{sp(10, 0, false)}}}, Cap: 9,
		Init: []engsim.Init{{T: 10, H: 0, Sec: false, Bud: 20}}} // events at 10,20,...,100
	mix := engsim.Script{Prog: [][][]engsim.Spawn{{{sp(0, 1, true), sp(0, 1, false), sp(2, 0, false)}}, {{sp(0, 0, true)}}}, Cap: 30, Hooks: true,
		Init: []engsim.Init{{T: 0, H: 0, Sec: false, Bud: 3}, {T: 2, H: 1, Sec: true, Bud: 2}, {T: 2, H: 0, Sec: false, Bud: 1}}}
	bad := engsim.Script{Prog: [][][]engsim.Spawn{{{sp(1, 0, false), sp(-1, 0, false)}}}, Cap: 9,
		Init: []engsim.Init{{T: 5, H: 0, Sec: false, Bud: 2}, {T: 7, H: 0, Sec: true, Bud: 0}}}
	return []input{
		{chain, []uint64{25}}, {chain, []uint64{20}}, {chain, []uint64{19}}, {chain, []uint64{21}},
		{chain, []uint64{0}}, {chain, []uint64{9}}, {chain, []uint64{10}}, {chain, []uint64{100}}, {chain, []uint64{101}}, {chain, []uint64{1000}},
		{chain, []uint64{10, 10, 20, 20, 25, 25, 100, 100, 200}}, {chain, []uint64{50, 30, 70, 10}},
		{chain, []uint64{}},
		{mix, []uint64{0}}, {mix, []uint64{0, 1, 2, 3, 4, 5, 6}}, {mix, []uint64{2, 2}}, {mix, []uint64{1, 3}},
		{bad, []uint64{4}}, {bad, []uint64{5}}, {bad, []uint64{6, 7}},
		{engsim.Script{Prog: [][][]engsim.Spawn{{{}}}}, []uint64{0, 5}},
	}
}

func gen(r *hx.Rand, tier string) []json.RawMessage {
	n, nbig := 350, 6
	if tier == "thorough" {
		n, nbig = 8000, 300
	}
	var out []json.RawMessage
	for _, d := range directed() {
		out = append(out, hx.J(d))
	}
	for i := 0; i < nbig; i++ {
		s := engsim.GenScript(r, []int{3, 0, 1}[i%3], true)
		out = append(out, hx.J(input{s, bounds(r, s)}))
	}
	for len(out) < n {
		kind := r.Pick(4, 2, 3, 4, 1)
		s := engsim.GenScript(r, kind, false)
		out = append(out, hx.J(input{s, bounds(r, s)}))
	}
	return out
}

func shrink(raw json.RawMessage) []json.RawMessage {
	var in input
	if hx.UJ(raw, &in) != nil {
		return nil
	}
	var out []json.RawMessage
	for i := range in.Bounds {
		b := append(append([]uint64{}, in.Bounds[:i]...), in.Bounds[i+1:]...)
		out = append(out, hx.J(input{in.S, b}))
	}
	for _, s := range engsim.ShrinkScript(in.S) {
		out = append(out, hx.J(input{s, in.Bounds}))
	}
	return out
}

func init() {
	hx.Register(&hx.Prop{
		ID: "C02",
		Rule: "the C01 handler scripts (mixed, equal-time bursts, same-instant chains, long chains, a malformed share: past-time " +
			"Schedule or SetCurrentTime after a queued event, both panic) plus a boundary list of 0-40 times drawn from the event times of the script's own single run: at an event time, " +
			"between event times, one below/above an event time, beyond the last event; increasing with natural or forced repeats, " +
			"and a share in arbitrary (also decreasing) order; directed boundaries around a 10,20,..,100 chain. The real engine runs " +
			"RunUntil(b1);..;RunUntil(bk);Run() and, freshly built, a single Run(). Non-trivial: at least two RunUntil calls handle " +
			"events, some event is scheduled and handled within the same RunUntil call, no panic. Distinct = distinct input hash.",
		Gen: gen, Run: run, Shrink: shrink,
	})
}
