// Package c23 ties the Coq model of the data mover (mem/datamover) to the implementation:
// the chunk-buffer helpers are called through the verif export, and the real component is
// driven tick by tick through its real Top / Inside / Outside ports between two byte
// memories whose requests are served in a scripted (adversarial) order.
package c23

import (
	"encoding/json"
	"fmt"

	"github.com/sarchlab/akita/v5/hooking"
	"github.com/sarchlab/akita/v5/mem/datamover"
	"github.com/sarchlab/akita/v5/mem/datamoverprotocol"
	"github.com/sarchlab/akita/v5/mem/memprotocol"
	"github.com/sarchlab/akita/v5/messaging"
	"github.com/sarchlab/akita/v5/modeling"
	"github.com/sarchlab/akita/v5/timing"

	"verifharness/internal/hx"
)

type noopConn struct{ hooking.HookableBase }

func (c *noopConn) Name() string                     { return "NoopConn" }
func (c *noopConn) PlugIn(port messaging.Port)       { port.SetConnection(c) }
func (c *noopConn) Unplug(_ messaging.Port)          {}
func (c *noopConn) NotifyAvailable(_ messaging.Port) {}
func (c *noopConn) NotifySend()                      {}

// Chunk / Buf / HOp: a helper case.
type Chunk struct {
	Data  []byte `json:"data"`
	Valid bool   `json:"valid"`
}
type Buf struct {
	Off    uint64  `json:"off"`
	Gran   uint64  `json:"gran"`
	Chunks []Chunk `json:"chunks"`
}
type HOp struct {
	K    string `json:"k"` // add|ext|mov
	Off  uint64 `json:"off"`
	Data []byte `json:"data,omitempty"`
	Size uint64 `json:"size,omitempty"`
}

// Move is a DataMoveRequest (sides: 0 inside, 1 outside, other = unknown side string).
type Move struct {
	ID    uint64 `json:"id"`
	Src   int    `json:"src"`
	SAddr uint64 `json:"saddr"`
	DAddr uint64 `json:"daddr"`
	Size  uint64 `json:"size"`
	SSide int    `json:"sside"`
	DSide int    `json:"dside"`
}

// Instant is one scripted tick.
type Instant struct {
	Top      []Move `json:"top,omitempty"`
	ServeIn  []int  `json:"si,omitempty"`
	ServeOut []int  `json:"so,omitempty"`
	StrayIn  []int  `json:"xi,omitempty"` // stray responses: >= 0 data-ready with that many bytes, < 0 write-done
	StrayOut []int  `json:"xo,omitempty"`
	DrainTop int    `json:"dt"`
	DrainIn  int    `json:"di"`
	DrainOut int    `json:"do"`
}

type input struct {
	Kind string `json:"kind"` // helper|run
	Buf  *Buf   `json:"buf,omitempty"`
	Op   *HOp   `json:"op,omitempty"`

	BufSize  uint64    `json:"bufsize,omitempty"`
	GIn      uint64    `json:"gin,omitempty"`
	GOut     uint64    `json:"gout,omitempty"`
	TCap     int       `json:"tcap,omitempty"`
	ICap     int       `json:"icap,omitempty"`
	OCap     int       `json:"ocap,omitempty"`
	MemIn    []byte    `json:"memin,omitempty"`
	MemOut   []byte    `json:"memout,omitempty"`
	Script   []Instant `json:"script,omitempty"`
	Complete bool      `json:"complete,omitempty"`
}

func coqBuf(b Buf) string {
	cs := make([]string, len(b.Chunks))
	for i, c := range b.Chunks {
		cs[i] = hx.App("mk_chunk", hx.Bytes(c.Data), hx.B(c.Valid))
	}
	return hx.App("mk_buf", hx.N(b.Off), hx.N(b.Gran), hx.L(cs))
}

func toVerif(b Buf) datamover.VerifBuffer {
	v := datamover.VerifBuffer{Offset: b.Off, Granularity: b.Gran}
	for _, c := range b.Chunks {
		// exact capacity, as bufferAddData's make([]byte, len(data)) produces (slicing is checked against cap)
		d := make([]byte, len(c.Data))
		copy(d, c.Data)
		if !c.Valid && len(c.Data) == 0 {
			d = nil
		}
		v.Chunks = append(v.Chunks, datamover.VerifChunk{Data: d, Valid: c.Valid})
	}
	return v
}

func fromVerif(v datamover.VerifBuffer) Buf {
	b := Buf{Off: v.Offset, Gran: v.Granularity}
	for _, c := range v.Chunks {
		b.Chunks = append(b.Chunks, Chunk{Data: c.Data, Valid: c.Valid})
	}
	return b
}

func runHelper(in input) (hx.Case, error) {
	b, op := *in.Buf, *in.Op
	var res string
	var obs any
	var coqOp string
	switch op.K {
	case "add":
		coqOp = hx.App("HAdd", hx.N(op.Off), hx.Bytes(op.Data))
		var out datamover.VerifBuffer
		if p, _ := hx.Try(func() { out = datamover.VerifBufferAddData(toVerif(b), op.Off, op.Data) }); p {
			res, obs = "RPanic", "panic"
		} else {
			res, obs = hx.App("RBuf", coqBuf(fromVerif(out))), fromVerif(out)
		}
	case "ext":
		coqOp = hx.App("HExtract", hx.N(op.Off), hx.N(op.Size))
		var data []byte
		var ok bool
		if p, _ := hx.Try(func() { data, ok = datamover.VerifBufferExtractData(toVerif(b), op.Off, op.Size) }); p {
			res, obs = "RPanic", "panic"
		} else if ok {
			res, obs = hx.App("RData", hx.Some(hx.Bytes(data))), data
		} else {
			res, obs = "(RData None)", "fail"
		}
	case "mov":
		coqOp = hx.App("HMove", hx.N(op.Off))
		var out datamover.VerifBuffer
		if p, _ := hx.Try(func() { out = datamover.VerifBufferMoveOffsetForwardTo(toVerif(b), op.Off) }); p {
			res, obs = "RPanic", "panic"
		} else {
			res, obs = hx.App("RBuf", coqBuf(fromVerif(out))), fromVerif(out)
		}
	default:
		return hx.Case{}, fmt.Errorf("bad helper op %q", op.K)
	}
	c := hx.Case{Obs: obs, Coq: hx.App("CHelper", coqBuf(b), coqOp, res)}
	c.Tags = []string{"helper:" + op.K}
	if res == "RPanic" {
		c.Tags = append(c.Tags, "helper:panic")
	}
	c.Nontrivial = len(b.Chunks) >= 2 && res != "RPanic"
	return c, nil
}

var sideName = map[int]string{0: "inside", 1: "outside"}

func side(s int) datamoverprotocol.DataMovePort {
	if n, ok := sideName[s]; ok {
		return datamoverprotocol.DataMovePort(n)
	}
	return "sideways"
}

type pendingReq struct {
	id    uint64
	write bool
	addr  uint64
	size  uint64
	data  []byte
}

type tickObs struct {
	Progress bool     `json:"progress"`
	Acks     []string `json:"acks"`
	In       []string `json:"in"`
	Out      []string `json:"out"`
	Active   bool     `json:"active"`
	NTop     int      `json:"ntop"`
	Snap     string   `json:"snap"` // Coq term: both memories at a tick in which an acknowledgment was sent
}

type runObs struct {
	Ticks   []tickObs `json:"ticks"`
	Outcome int       `json:"outcome"`
	MemIn   []byte    `json:"memin"`
	MemOut  []byte    `json:"memout"`
	Panic   string    `json:"panic,omitempty"`
}

var freeID uint64 = 1 << 60

const strayBase = 1_000_000_000

func execute(in input) (runObs, error) {
	engine := timing.NewSerialEngine()
	reg := modeling.NewStandaloneRegistrar(engine)
	spec := datamover.DefaultSpec()
	spec.BufferSize = in.BufSize
	spec.InsideByteGranularity = in.GIn
	spec.OutsideByteGranularity = in.GOut
	spec.InsideMapperKind = "single"
	spec.InsideMapperPorts = []messaging.RemotePort{"InsideMem"}
	spec.OutsideMapperKind = "single"
	spec.OutsideMapperPorts = []messaging.RemotePort{"OutsideMem"}
	comp := datamover.MakeBuilder().WithRegistrar(reg).WithSpec(spec).Build("DM")
	mk := func(name string, size int) messaging.Port {
		p := modeling.MakePortBuilder().WithRegistrar(reg).WithComponent(comp).
			WithSpec(modeling.PortSpec{BufSize: size}).Build(name)
		comp.AssignPort(name, p)
		(&noopConn{}).PlugIn(p)
		return p
	}
	top := mk("Top", in.TCap)
	ports := []messaging.Port{mk("Inside", in.ICap), mk("Outside", in.OCap)}
	mk("Control", 2)
	memName := []messaging.RemotePort{"InsideMem", "OutsideMem"}
	mems := [][]byte{append([]byte(nil), in.MemIn...), append([]byte(nil), in.MemOut...)}
	pend := [][]pendingReq{nil, nil}

	comp.TickLater() // see c21: the one pending tick event takes its ID now
	base := timing.GetIDGenerator().Generate() + 1
	rel := func(id uint64) uint64 { return id - base }

	ob := runObs{}
	serve := func(s int, k int) {
		if k < 0 || k >= len(pend[s]) || !ports[s].CanDeliver() {
			return
		}
		rq := pend[s][k]
		freeID++
		meta := messaging.MsgMeta{ID: freeID, Src: memName[s], Dst: ports[s].AsRemote(), RspTo: rq.id}
		m := mems[s]
		if rq.write {
			if rq.addr < uint64(len(m)) {
				copy(m[rq.addr:], rq.data)
			}
			ports[s].Deliver(memprotocol.WriteDoneRsp{MsgMeta: meta})
		} else {
			var data []byte
			if rq.addr < uint64(len(m)) {
				end := rq.addr + rq.size
				if end > uint64(len(m)) || end < rq.addr {
					end = uint64(len(m))
				}
				data = append([]byte(nil), m[rq.addr:end]...)
			}
			ports[s].Deliver(memprotocol.DataReadyRsp{MsgMeta: meta, Data: data})
		}
		pend[s] = append(pend[s][:k:k], pend[s][k+1:]...)
	}
	for _, st := range in.Script {
		to := tickObs{Acks: []string{}, In: []string{}, Out: []string{}}
		for _, v := range st.Top {
			if !top.CanDeliver() {
				break
			}
			rq := datamoverprotocol.DataMoveRequest{SrcAddress: v.SAddr, DstAddress: v.DAddr, ByteSize: v.Size,
				SrcSide: side(v.SSide), DstSide: side(v.DSide)}
			rq.ID = v.ID
			rq.Src = messaging.RemotePort(fmt.Sprintf("M%d", v.Src))
			rq.Dst = top.AsRemote()
			rq.TrafficClass = "datamoverprotocol.DataMoveRequest"
			top.Deliver(rq)
			to.NTop++
		}
		for _, k := range st.ServeIn {
			serve(0, k)
		}
		for _, k := range st.ServeOut {
			serve(1, k)
		}
		for s, xs := range [][]int{st.StrayIn, st.StrayOut} {
			for j, x := range xs {
				if !ports[s].CanDeliver() {
					continue
				}
				freeID++
				meta := messaging.MsgMeta{ID: freeID, Src: memName[s], Dst: ports[s].AsRemote(), RspTo: base + strayBase + uint64(j)}
				if x >= 0 {
					ports[s].Deliver(memprotocol.DataReadyRsp{MsgMeta: meta, Data: make([]byte, x)})
				} else {
					ports[s].Deliver(memprotocol.WriteDoneRsp{MsgMeta: meta})
				}
			}
		}
		queued := top.NumOutgoing()
		panicked, msg := hx.Try(func() { to.Progress = comp.Tick() })
		if panicked {
			ob.Outcome = 1
			ob.Panic = msg
			break
		}
		to.Active = comp.State.CurrentTransaction.Active
		to.Snap = hx.None()
		if top.NumOutgoing() > queued {
			to.Snap = hx.Some(hx.T(hx.Bytes(mems[0]), hx.Bytes(mems[1])))
		}
		for i := 0; i < st.DrainTop; i++ {
			m := top.RetrieveOutgoing()
			if m == nil {
				break
			}
			a, ok := m.(datamoverprotocol.DataMoveResponse)
			if !ok {
				return ob, fmt.Errorf("unexpected top message %T", m)
			}
			var dst int
			if _, err := fmt.Sscanf(string(a.Dst), "M%d", &dst); err != nil || a.Src != top.AsRemote() {
				dst = 999999 // not a requester / not sent from Top: the property predicate rejects it
			}
			to.Acks = append(to.Acks, hx.App("mk_ack", hx.N(rel(a.ID)), hx.N(uint64(dst)), hx.N(a.RspTo)))
		}
		drains := []int{st.DrainIn, st.DrainOut}
		for s := 0; s < 2; s++ {
			for i := 0; i < drains[s]; i++ {
				m := ports[s].RetrieveOutgoing()
				if m == nil {
					break
				}
				meta := m.Meta()
				if meta.Src != ports[s].AsRemote() || meta.Dst != memName[s] {
					return ob, fmt.Errorf("bad request src/dst %q %q", meta.Src, meta.Dst)
				}
				var term string
				switch r := m.(type) {
				case memprotocol.ReadReq:
					term = hx.App("MRead", hx.N(rel(meta.ID)), hx.N(r.Address), hx.N(r.AccessByteSize))
					pend[s] = append(pend[s], pendingReq{id: meta.ID, addr: r.Address, size: r.AccessByteSize})
				case memprotocol.WriteReq:
					if r.DirtyMask != nil {
						return ob, fmt.Errorf("unexpected dirty mask")
					}
					term = hx.App("MWrite", hx.N(rel(meta.ID)), hx.N(r.Address), hx.Bytes(r.Data))
					pend[s] = append(pend[s], pendingReq{id: meta.ID, write: true, addr: r.Address, data: append([]byte(nil), r.Data...)})
				default:
					return ob, fmt.Errorf("unexpected memory request %T", m)
				}
				if s == 0 {
					to.In = append(to.In, term)
				} else {
					to.Out = append(to.Out, term)
				}
			}
		}
		ob.Ticks = append(ob.Ticks, to)
	}
	ob.MemIn, ob.MemOut = mems[0], mems[1]
	return ob, nil
}

func strayList(xs []int) string {
	s := make([]string, len(xs))
	for j, x := range xs {
		if x >= 0 {
			s[j] = hx.App("MData", hx.N(strayBase+uint64(j)), hx.Bytes(make([]byte, x)))
		} else {
			s[j] = hx.App("MDone", hx.N(strayBase+uint64(j)))
		}
	}
	return hx.L(s)
}

func natList(xs []int) string {
	s := make([]string, len(xs))
	for i, x := range xs {
		if x < 0 {
			x = 999
		}
		s[i] = hx.Nat(x)
	}
	return hx.L(s)
}

func runRun(in input) (hx.Case, error) {
	if in.TCap < 1 || in.ICap < 1 || in.OCap < 1 {
		return hx.Case{}, fmt.Errorf("port capacities must be positive")
	}
	ob, err := execute(in)
	if err != nil {
		return hx.Case{}, err
	}
	script := make([]string, len(in.Script))
	for i, st := range in.Script {
		vs := make([]string, len(st.Top))
		for j, v := range st.Top {
			vs[j] = hx.App("mk_move", hx.N(v.ID), hx.N(uint64(v.Src)), hx.N(v.SAddr), hx.N(v.DAddr), hx.N(v.Size),
				hx.N(uint64(v.SSide)), hx.N(uint64(v.DSide)))
		}
		script[i] = hx.App("mk_instant", hx.L(vs), natList(st.ServeIn), natList(st.ServeOut), strayList(st.StrayIn), strayList(st.StrayOut),
			hx.Nat(st.DrainTop), hx.Nat(st.DrainIn), hx.Nat(st.DrainOut))
	}
	ticks := make([]string, len(ob.Ticks))
	nacks := 0
	for i, t := range ob.Ticks {
		ticks[i] = hx.App("mk_tobs", hx.B(t.Progress), hx.L(t.Acks), hx.L(t.In), hx.L(t.Out), hx.B(t.Active), hx.Nat(t.NTop), t.Snap)
		nacks += len(t.Acks)
	}
	c := hx.Case{Obs: ob}
	c.Coq = hx.App("CRun", hx.App("mk_run", hx.N(in.BufSize), hx.N(in.GIn), hx.N(in.GOut),
		hx.N(uint64(in.TCap)), hx.N(uint64(in.ICap)), hx.N(uint64(in.OCap)),
		hx.Bytes(in.MemIn), hx.Bytes(in.MemOut), hx.L(script), hx.B(in.Complete),
		hx.L(ticks), hx.N(uint64(ob.Outcome)), hx.Bytes(ob.MemIn), hx.Bytes(ob.MemOut)))
	c.Known = classify(in)
	c.Tags = []string{"run", fmt.Sprintf("outcome:%d", ob.Outcome), fmt.Sprintf("gran:%d/%d", in.GIn, in.GOut)}
	if c.Known != "" {
		c.Tags = append(c.Tags, "known:"+c.Known)
	}
	c.Nontrivial = nacks >= 1 && in.GIn != in.GOut
	return c, nil
}

// classify names the known finding an input can exhibit (from the input shape only).
func classify(in input) string {
	g := func(s int) uint64 {
		if s == 0 {
			return in.GIn
		}
		return in.GOut
	}
	for _, st := range in.Script {
		for _, v := range st.Top {
			if v.SSide > 1 || v.DSide > 1 || g(v.SSide) == 0 || g(v.DSide) == 0 {
				continue
			}
			if v.Size%g(v.SSide) != 0 || v.Size%g(v.DSide) != 0 {
				return "size_not_multiple_of_granularity"
			}
		}
	}
	for _, st := range in.Script {
		for _, v := range st.Top {
			if v.SSide > 1 || v.DSide > 1 {
				continue
			}
			// F-C23-2 is about the DESTINATION granularity only: a buffer smaller than the SOURCE
			// granularity still streams on the real code, so a failure there is not this finding
			if in.BufSize < g(v.DSide) {
				return "buffer_smaller_than_granularity"
			}
		}
	}
	for _, st := range in.Script {
		for _, v := range st.Top {
			if v.SSide == v.DSide && v.Size > 0 && v.SAddr < v.DAddr+v.Size && v.DAddr < v.SAddr+v.Size {
				return "same_side_overlapping_ranges"
			}
		}
	}
	return ""
}

func run(raw json.RawMessage) (hx.Case, error) {
	var in input
	if err := hx.UJ(raw, &in); err != nil {
		return hx.Case{}, err
	}
	switch in.Kind {
	case "helper":
		if in.Buf == nil || in.Op == nil {
			return hx.Case{}, fmt.Errorf("helper case without buf/op")
		}
		return runHelper(in)
	case "run":
		return runRun(in)
	}
	return hx.Case{}, fmt.Errorf("bad kind %q", in.Kind)
}
