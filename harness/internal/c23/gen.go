package c23

import (
	"encoding/json"
	"fmt"
	"io"
	"log"
	"os"
	"runtime"
	"time"

	"verifharness/internal/hx"
)

func randBytes(r *hx.Rand, n int) []byte {
	b := make([]byte, n)
	for i := range b {
		b[i] = byte(1 + r.Intn(255))
	}
	return b
}

func genHelper(r *hx.Rand) input {
	g := []uint64{1, 2, 4, 8, 16, 0}[r.Pick(1, 2, 4, 3, 1, 1)]
	gg := g
	if gg == 0 {
		gg = 4
	}
	b := Buf{Gran: g, Off: uint64(r.Intn(5)) * gg}
	if r.Chance(1, 10) {
		b.Off += 1
	}
	n := r.Intn(6)
	for i := 0; i < n; i++ {
		c := Chunk{Valid: !r.Chance(1, 5)}
		if c.Valid {
			l := int(gg)
			if r.Chance(1, 8) {
				l = r.Intn(int(gg) + 2)
			}
			c.Data = randBytes(r, l)
		}
		b.Chunks = append(b.Chunks, c)
	}
	var op HOp
	switch r.Pick(3, 5, 3) {
	case 0:
		op = HOp{K: "add", Off: b.Off + uint64(r.Intn(8))*gg, Data: randBytes(r, int(gg))}
		if r.Chance(1, 8) {
			op.Off++
		}
		if op.Off < b.Off { // never ask for a slot below the offset (unbounded growth)
			op.Off = b.Off
		}
	case 1:
		op = HOp{K: "ext", Off: b.Off + r.U64n(uint64(n+1)*gg+1), Size: r.U64n(3*gg + 2)}
	default:
		op = HOp{K: "mov", Off: r.U64n(uint64(n+3)*gg + b.Off + 1)}
	}
	return input{Kind: "helper", Buf: &b, Op: &op}
}

func tail(in *input, n int) {
	for i := 0; i < n; i++ {
		in.Script = append(in.Script, Instant{ServeIn: []int{0, 0, 0, 0}, ServeOut: []int{0, 0, 0, 0}, DrainTop: 4, DrainIn: 8, DrainOut: 8})
	}
	in.Complete = true
}

func genRun(r *hx.Rand, aligned bool) input {
	gs := []uint64{4, 8, 16, 32}
	in := input{Kind: "run", GIn: gs[r.Intn(4)], GOut: gs[r.Intn(4)], TCap: r.Range(1, 3), ICap: r.Range(1, 6), OCap: r.Range(1, 6)}
	mx := max(in.GIn, in.GOut)
	in.BufSize = mx * uint64(r.Range(1, 4))
	if r.Chance(1, 5) { // buffers below the larger granularity (whole multiples of the smaller one)
		mn := min(in.GIn, in.GOut)
		in.BufSize = mn * uint64(r.Range(1, int(2*mx/mn)))
	}
	msz := 256
	in.MemIn, in.MemOut = randBytes(r, msz), randBytes(r, msz)
	nmoves := r.Range(1, 3)
	work := 0
	var moves []Move
	for i := 0; i < nmoves; i++ {
		v := Move{ID: uint64(500 + i*7), Src: r.Intn(3), SSide: r.Intn(2), DSide: r.Intn(2)}
		if r.Chance(3, 4) {
			v.DSide = 1 - v.SSide
		}
		g := func(s int) uint64 {
			if s == 0 {
				return in.GIn
			}
			return in.GOut
		}
		unit := max(g(v.SSide), g(v.DSide))
		v.Size = unit * uint64(r.Range(0, 4))
		if !aligned {
			v.Size = uint64(r.Range(1, 100))
		}
		span := (v.Size + unit - 1) / unit * unit
		if v.SSide == v.DSide {
			// disjoint halves of the same memory
			v.SAddr = r.U64n((128-span)/g(v.SSide)+1) * g(v.SSide)
			v.DAddr = 128 + r.U64n((128-span)/g(v.DSide)+1)*g(v.DSide)
			if r.Bool() {
				v.SAddr, v.DAddr = v.DAddr, v.SAddr
			}
		} else {
			v.SAddr = r.U64n((uint64(msz)-span)/g(v.SSide)+1) * g(v.SSide)
			v.DAddr = r.U64n((uint64(msz)-span)/g(v.DSide)+1) * g(v.DSide)
		}
		moves = append(moves, v)
		work += int(span/min(in.GIn, in.GOut)) + 2
	}
	nticks := r.Range(4, 20)
	for t := 0; t < nticks; t++ {
		st := Instant{DrainTop: r.Intn(3), DrainIn: r.Intn(4), DrainOut: r.Intn(4)}
		for len(moves) > 0 && r.Chance(1, 3) {
			st.Top = append(st.Top, moves[0])
			moves = moves[1:]
		}
		for k := r.Intn(3); k > 0; k-- {
			st.ServeIn = append(st.ServeIn, r.Intn(4))
		}
		for k := r.Intn(3); k > 0; k-- {
			st.ServeOut = append(st.ServeOut, r.Intn(4))
		}
		if r.Chance(1, 6) { // a stray response (unknown RspTo) of either kind on either port
			x := []int{-1, int(in.GIn), 3}[r.Intn(3)]
			if r.Bool() {
				st.StrayIn = append(st.StrayIn, x)
			} else {
				st.StrayOut = append(st.StrayOut, x)
			}
		}
		in.Script = append(in.Script, st)
	}
	if len(moves) > 0 {
		in.Script = append(in.Script, Instant{Top: moves, DrainTop: 1, DrainIn: 1, DrainOut: 1})
	}
	tail(&in, 4*work+24)
	return in
}

func pattern(n int, seed byte) []byte {
	b := make([]byte, n)
	for i := range b {
		b[i] = byte(i)*3 + seed
	}
	return b
}

func directed(gin, gout, bufsize, size uint64, n int) input {
	in := input{Kind: "run", GIn: gin, GOut: gout, BufSize: bufsize, TCap: 2, ICap: 8, OCap: 8,
		MemIn: pattern(512, 1), MemOut: pattern(512, 101)}
	in.Script = []Instant{{Top: []Move{{ID: 77, Src: 1, SAddr: 0, DAddr: 256, Size: size, SSide: 0, DSide: 1}}, DrainTop: 1, DrainIn: 2, DrainOut: 2}}
	tail(&in, n)
	return in
}

func directedOverlap(bufsize uint64) input {
	in := input{Kind: "run", GIn: 16, GOut: 16, BufSize: bufsize, TCap: 2, ICap: 8, OCap: 8,
		MemIn: pattern(128, 1), MemOut: pattern(128, 101)}
	in.Script = []Instant{{Top: []Move{{ID: 77, Src: 1, SAddr: 0, DAddr: 16, Size: 64, SSide: 0, DSide: 0}}, DrainTop: 1, DrainIn: 2, DrainOut: 2}}
	tail(&in, 60)
	return in
}

func gen(r *hx.Rand, tier string) []json.RawMessage {
	nh, nr := 240, 90
	if tier == "thorough" {
		nh, nr = 3000, 1200
	}
	out := []json.RawMessage{
		hx.J(directed(64, 64, 128, 100, 40)),  // DESIGN §1: overwrites destination bytes 100..127
		hx.J(directed(64, 256, 512, 100, 60)), // DESIGN §1: never acknowledged
		hx.J(directed(64, 64, 128, 128, 40)),  // the aligned neighbour of the first one
		hx.J(directed(16, 64, 32, 128, 80)),   // buffer smaller than the destination granularity
		hx.J(directed(64, 16, 16, 128, 120)),  // buffer smaller than the SOURCE granularity only: streams, exact
		hx.J(directed(64, 16, 48, 128, 120)),  // ... not a multiple of it either
		hx.J(directed(32, 8, 24, 96, 120)),
		hx.J(directedOverlap(16)),             // same side, destination overlapping the source 16 bytes further: smeared
		hx.J(directedOverlap(64)),             // the same move with a buffer that reads the whole source ahead: exact
	}
	for i := 0; i < nh; i++ {
		out = append(out, hx.J(genHelper(r)))
	}
	for i := 0; i < nr; i++ {
		out = append(out, hx.J(genRun(r, !r.Chance(1, 8))))
	}
	return out
}

func shrink(raw json.RawMessage) []json.RawMessage {
	var in input
	if hx.UJ(raw, &in) != nil || in.Kind != "run" {
		return nil
	}
	var out []json.RawMessage
	for i := range in.Script {
		for j := range in.Script[i].Top {
			c := in
			c.Script = append([]Instant{}, in.Script...)
			t := in.Script[i].Top
			c.Script[i].Top = append(append([]Move{}, t[:j]...), t[j+1:]...)
			out = append(out, hx.J(c))
		}
	}
	return out
}

// watchdog: bufferAddData grows the chunk slice without bound when it is asked for a slot below
// the buffer offset (the model's Blowup outcome). The faithful code never gets there under the
// scripted environments, but a broken build can; stop before the machine runs out of memory.
func watchdog() {
	var ms runtime.MemStats
	for {
		time.Sleep(100 * time.Millisecond)
		runtime.ReadMemStats(&ms)
		if ms.HeapAlloc > 2<<30 {
			fmt.Fprintln(os.Stderr, "c23: heap above 2 GiB: unbounded chunk-buffer growth in the component under test")
			os.Exit(3)
		}
	}
}

func init() {
	go watchdog()
	log.SetOutput(io.Discard) // log.Panicf of the component under test prints before panicking
	hx.Register(&hx.Prop{
		ID:      "C23",
		Imports: "From Akita Require Import Lib.Base C23.Model C23.Exec.",
		Rule: "helper cases: one call of bufferAddData / bufferExtractData / bufferMoveOffsetForwardTo on a random buffer (granularity " +
			"0,1,2,4,8,16; 0-5 chunks, some invalid or short; aligned and unaligned offsets, sizes 0..3 granules+1, panics recorded); " +
			"run cases: the real data mover (granularities 4-32 per side, buffer 1-4 x the larger, port buffers 1-6) gets 1-3 moves " +
			"(inside->outside, outside->inside, same side with disjoint ranges; sizes 0-4 granules, 1/8 of the cases a size that is not " +
			"a multiple) while the two 256-byte memories serve the drained reads/writes in scripted random order with random delays " +
			"and back-pressure, then a long all-serving tail. Directed: 100 B at 64/64, 100 B at 64/256, buffer 32 < granularity 64, a same-side move onto an overlapping range " +
			"with a one-granule and with a four-granule buffer. " +
			"Non-trivial: helper with >= 2 chunks and no panic, or a run with an acknowledgment and different granularities. Distinct = input hash.",
		Gen: gen, Run: run, Shrink: shrink,
	})
}
