package c39

import (
	"archive/tar"
	"encoding/json"
	"fmt"
	"strings"

	"verifharness/internal/hx"
)

var pathCorpus = []string{
	"", ".", "..", "/", "//", "./", "../", "a", "a/b", "a/b/c.go", "./a", "./a/b", "a/./b", "a//b", "a/b/", "a/b/..", "a/b/../..", "a/b/../../..",
	"../a", "../../etc/passwd", "a/../../b", "a/../b", "/etc/passwd", "/a/../..", "//a", "a/..", "a/../", "..a", "a..", "...", "a/.../b", ".a", "a/.b",
	"a/b/../../../c", " a", "a ", " ./a", "./ a", "././a", "./../a", "./..", "./.", "./", " ", "\t..\n", "a\\b", "a\\..\\b", "..\\x", "a/\x00/b",
	"a/\xff", "\xc3\x28", "a/\xe2\x80\xa6", "é/ü.go", "a/%2e%2e/b", "a/..%2fb", "github.com/sarchlab/akita/v5/mem/mem.go", "github.com/../x",
	"a/b/c/d/e/../../../../../..", "a/../../", "./a/../..", "a/./../b/./c", "/..", "/../a", "/.", "/./a", "a//", "a//..//b", ".../..", "a/ /b",
	"..../a", ". ", " .", ". /a", "./.a", "a/b/..c", "a/b/c..", "~", "~/x", "a:b", "C:/x", "C:\\x", "a\nb", "a/b\r",
	"\xf0\x9f\x98\x80/x", "\xed\xa0\x80", "\xc0\xaf", "\xe0\x80\xaf", "\xf4\x90\x80\x80", "\xf8\x88\x80\x80\x80", "\xc2", "\xe2\x80", "a\x80",
}

var pathFrags = []string{"a", "b", "c.go", "dir", "..", ".", "", "...", " ", "x y", "é", "\xff", "..a", "a..", ".git", "\xe2\x80\xa6", "\xc2", "v5", "mem"}

func randPath(r *hx.Rand) string {
	var sb strings.Builder
	if r.Chance(1, 6) {
		sb.WriteString("/")
	}
	if r.Chance(1, 8) {
		sb.WriteString("./")
	}
	if r.Chance(1, 10) {
		sb.WriteString(" ")
	}
	n := 1 + r.Intn(6)
	for i := 0; i < n; i++ {
		if i > 0 {
			sb.WriteString("/")
		}
		sb.WriteString(pathFrags[r.Intn(len(pathFrags))])
	}
	if r.Chance(1, 6) {
		sb.WriteString("/")
	}
	return sb.String()
}

var names = []string{"a", "b", "c.go", "d.go", "mem", "cache", "v5", "x y", "é.go", "go.mod", ".hidden", "z"}

func randContent(r *hx.Rand, maxLines int) []byte {
	var sb strings.Builder
	n := r.Intn(maxLines + 1)
	words := []string{"func", "Kind", "ReadReq", "task", "x := 1", "\t", "  ", "// note", "milestone", "é", "\r", "needle", "Needle", "need le", "", ",", "\xff"}
	for i := 0; i < n; i++ {
		k := r.Intn(5)
		for j := 0; j < k; j++ {
			sb.WriteString(words[r.Intn(len(words))])
			if r.Bool() {
				sb.WriteString(" ")
			}
		}
		if i < n-1 || r.Chance(2, 3) {
			if r.Chance(1, 12) {
				sb.WriteString("\r")
			}
			sb.WriteString("\n")
		}
	}
	return []byte(sb.String())
}

// randFS builds a recorded tree; keys are valid paths (the trace-source loader
// admits nothing else) but may clash (a file and a directory of one name).
func randFS(r *hx.Rand, maxLines int) []kv {
	seen := map[string]bool{}
	var out []kv
	n := 1 + r.Intn(7)
	for i := 0; i < n; i++ {
		depth := 1 + r.Intn(3)
		parts := make([]string, depth)
		for j := range parts {
			parts[j] = names[r.Intn(len(names))]
		}
		k := strings.Join(parts, "/")
		if r.Chance(1, 3) {
			k = "github.com/ex/sim/" + k
		}
		if seen[k] {
			continue
		}
		seen[k] = true
		out = append(out, kv{K: []byte(k), D: randContent(r, maxLines)})
	}
	if r.Chance(1, 25) && !seen["."] {
		out = append(out, kv{K: []byte("."), D: []byte("root as a file\n")})
	}
	return out
}

func asciiOnly(files []kv) []kv {
	out := make([]kv, len(files))
	for i, f := range files {
		d := make([]byte, len(f.D))
		for j, b := range f.D {
			if b >= 0x80 {
				b = 'u'
			}
			d[j] = b
		}
		out[i] = kv{K: f.K, D: d}
	}
	return out
}

// requests aimed at a tree: its keys, their parents, mangled and escaping variants
func requestsFor(r *hx.Rand, files []kv) []string {
	var out []string
	for _, f := range files {
		k := string(f.K)
		out = append(out, k, "./"+k, " "+k+" ", k+"/", k+"/.", k+"/..", "/"+k, "x/../"+k, k+"/../../../../etc/passwd", "../"+k, k+"/nope")
		if i := strings.LastIndex(k, "/"); i > 0 {
			out = append(out, k[:i], k[:i]+"/", k[:i]+"//"+k[i+1:], k[:i]+"/./"+k[i+1:])
		}
	}
	out = append(out, "", ".", "./", "/", "..", "../..", "nope", "a", "github.com", "github.com/ex", randPath(r), randPath(r))
	return out
}

func gen(r *hx.Rand, tier string) []json.RawMessage {
	var out []json.RawMessage
	add := func(in input) { out = append(out, hx.J(in)) }
	thorough := tier == "thorough"

	// ---- path.Clean / fs.ValidPath
	for _, p := range pathCorpus {
		add(input{Kind: "path", P: []byte(p)})
	}
	np := 400
	if thorough {
		np = 12000
	}
	for i := 0; i < np; i++ {
		add(input{Kind: "path", P: []byte(randPath(r))})
	}

	// ---- tools on random recorded trees
	nt := 7
	if thorough {
		nt = 60
	}
	for t := 0; t < nt; t++ {
		files := randFS(r, 12)
		reqs := requestsFor(r, files)
		for _, q := range reqs {
			if !thorough && r.Chance(1, 2) {
				continue
			}
			st, en := 0, 0
			switch r.Pick(4, 2, 2, 1) {
			case 1:
				st = 1 + r.Intn(6)
			case 2:
				st, en = r.Intn(8), r.Intn(12)
			case 3:
				st, en = -3+r.Intn(4), 1000
			}
			add(input{Kind: "read", FS: files, P: []byte(q), Start: st, End: en})
			if r.Chance(1, 2) {
				add(input{Kind: "ls", FS: files, P: []byte(q), Roots: r.Chance(1, 3)})
			}
			if r.Chance(1, 3) {
				add(input{Kind: "hread", FS: asciiOnly(files), P: []byte(q)})
			}
		}
		for _, nd := range []string{"needle", "Kind", "x := 1", "func ", ",", "zzz-none"} {
			if r.Chance(1, 2) {
				flt := ""
				if r.Chance(1, 3) {
					flt = []string{"mem", ".go", "github.com", "nope"}[r.Intn(4)]
				}
				add(input{Kind: "search", FS: files, Needle: []byte(nd), Filter: []byte(flt)})
			}
		}
	}
	for _, p := range pathCorpus { // the whole corpus against one fixed tree
		files := []kv{{K: []byte("a/b/c.go"), D: []byte("package c\n\nfunc F() {}\n")}, {K: []byte("a/b"), D: []byte("shadow\n")},
			{K: []byte("a/d.go"), D: []byte("x\ny")}, {K: []byte("go.mod"), D: []byte("")}, {K: []byte("é/ü.go"), D: []byte("//é\n")}}
		add(input{Kind: "read", FS: files, P: []byte(p)})
		add(input{Kind: "ls", FS: files, P: []byte(p)})
		add(input{Kind: "hread", FS: files, P: []byte(p)})
	}
	// windows and caps of code_read
	long := make([]string, 460)
	for i := range long {
		long[i] = fmt.Sprintf("line %d %s", i+1, strings.Repeat("w", i%40))
	}
	big := []kv{{K: []byte("m/long.go"), D: []byte(strings.Join(long, "\n") + "\n")},
		{K: []byte("m/wide.go"), D: []byte(strings.Repeat(strings.Repeat("W", 700)+"\n", 40))},
		{K: []byte("m/one.go"), D: []byte("only")}, {K: []byte("m/nl.go"), D: []byte("\n")}, {K: []byte("m/empty.go"), D: []byte("")}}
	for i, w := range [][2]int{{0, 0}, {1, 0}, {0, 5}, {199, 0}, {200, 201}, {1, 400}, {1, 401}, {30, 440}, {460, 0}, {461, 0}, {459, 1}, {-5, -5},
		{50, 20}, {300, 300}, {99, 100}, {9, 10}, {399, 1001}} {
		if i%2 == 0 || thorough {
			add(input{Kind: "read", FS: big, P: []byte("m/long.go"), Start: w[0], End: w[1]})
		}
		if i < 2 || thorough {
			add(input{Kind: "read", FS: big, P: []byte("m/wide.go"), Start: w[0], End: w[1]})
		}
	}
	for _, p := range []string{"m/one.go", "m/nl.go", "m/empty.go", "m"} {
		add(input{Kind: "read", FS: big, P: []byte(p), Start: 0, End: 0})
		add(input{Kind: "read", FS: big, P: []byte(p), Start: 3, End: 0})
	}
	// ls caps: many entries, long names
	var many []kv
	for i := 0; i < 340; i++ {
		many = append(many, kv{K: []byte(fmt.Sprintf("pkg/f%03d.go", i)), D: []byte("x\n")})
		if i%20 == 0 {
			many = append(many, kv{K: []byte(fmt.Sprintf("pkg/sub%02d/in.go", i)), D: []byte("y\nz\n")})
		}
	}
	add(input{Kind: "ls", FS: many, P: []byte("pkg")})
	add(input{Kind: "ls", FS: many, P: []byte("")})
	add(input{Kind: "ls", FS: many, P: []byte(""), Roots: true})
	var wide []kv
	for i := 0; i < 200; i++ {
		wide = append(wide, kv{K: []byte(fmt.Sprintf("w/%s%03d.go", strings.Repeat("n", 100), i)), D: []byte("x")})
	}
	add(input{Kind: "ls", FS: wide, P: []byte("w/")})
	// search caps
	var hay []kv
	for i := 0; i < 9; i++ {
		hay = append(hay, kv{K: []byte(fmt.Sprintf("s/f%d.go", i)), D: []byte(strings.Repeat("  needle here "+strings.Repeat("q", 40*i)+"\t\nother\n", 9))})
	}
	add(input{Kind: "search", FS: hay, Needle: []byte("needle")})
	add(input{Kind: "search", FS: hay, Needle: []byte("needle"), Filter: []byte("f8")})
	add(input{Kind: "search", FS: hay, Needle: []byte("q")})
	add(input{Kind: "search", FS: hay, Needle: []byte("other"), Filter: []byte("s/")})

	// ---- WriteArchive determinism / round trip
	nw := 25
	if thorough {
		nw = 150
	}
	for i := 0; i < nw; i++ {
		n := r.Intn(9)
		var es []ent
		for j := 0; j < n; j++ {
			es = append(es, ent{Type: int(tar.TypeReg), Name: []byte(strings.Trim(randPath(r), "/ ") + names[r.Intn(len(names))]), Runs: randRuns(r, 40)})
		}
		add(input{Kind: "write", Entries: es})
	}
	add(input{Kind: "write", Entries: []ent{{Type: '0', Name: []byte("b"), Runs: [][2]int{{1, 3}}}, {Type: '0', Name: []byte("a/b"), Runs: nil},
		{Type: '0', Name: []byte("a"), Runs: [][2]int{{0, 100000}}}, {Type: '0', Name: []byte("B"), Runs: [][2]int{{255, 1}}}, {Type: '0', Name: []byte("a.b"), Runs: [][2]int{{7, 2}, {8, 2}}}}})

	// ---- hostile archives
	const fileCap = 8 << 20
	reg := func(name string, runs ...[2]int) ent {
		return ent{Type: int(tar.TypeReg), Name: []byte(name), Runs: runs}
	}
	other := func(t byte, name string) ent { return ent{Type: int(t), Name: []byte(name)} }
	add(input{Kind: "archive", Entries: []ent{reg("ok.go", [2]int{120, 10}), reg("../x", [2]int{1, 5}), reg("/etc/passwd", [2]int{2, 5}),
		other(tar.TypeSymlink, "link"), other(tar.TypeDir, "dir/"), other(tar.TypeFifo, "fifo"), other(tar.TypeLink, "hard"), other(tar.TypeChar, "chr"),
		reg("dir/in.go", [2]int{65, 3}, [2]int{10, 1}), reg("ok.go", [2]int{121, 4}), reg("a/../../b", [2]int{3, 1}), reg("trailing/", [2]int{4, 2})}})
	add(input{Kind: "archive", Entries: []ent{reg("just-under", [2]int{0, fileCap}), reg("small", [2]int{1, 1})}})
	add(input{Kind: "archive", Entries: []ent{reg("small", [2]int{1, 1}), reg("one-over", [2]int{0, fileCap + 1}), reg("after", [2]int{1, 1})}})
	add(input{Kind: "archive", Entries: []ent{reg("bomb", [2]int{0, 40 << 20})}})
	add(input{Kind: "archive", Entries: []ent{other(tar.TypeSymlink, "big-link"), reg("x", [2]int{9, 9})}})
	add(input{Kind: "archive", Entries: nil})
	{
		var es []ent
		for i := 0; i < 13; i++ { // 13 x 8 MiB > 96 MiB total
			es = append(es, reg(fmt.Sprintf("f%02d", i), [2]int{i, fileCap}))
		}
		add(input{Kind: "archive", Entries: es})
	}
	na := 20
	if thorough {
		na = 100
	}
	types := []byte{tar.TypeReg, tar.TypeReg, tar.TypeReg, tar.TypeDir, tar.TypeSymlink, tar.TypeFifo, tar.TypeLink}
	for i := 0; i < na; i++ {
		n := r.Intn(8)
		var es []ent
		for j := 0; j < n; j++ {
			nm := randPath(r)
			if nm == "" || strings.ContainsRune(nm, 0) {
				nm = "n"
			}
			e := ent{Type: int(types[r.Intn(len(types))]), Name: []byte(nm), Runs: randRuns(r, 3000)}
			if r.Chance(1, 30) {
				e.Runs = [][2]int{{r.Intn(256), fileCap - 1 + r.Intn(3)}}
			}
			es = append(es, e)
		}
		add(input{Kind: "archive", Entries: es})
	}

	// ---- trace sources through a real SQLite source table
	nsrc := 25
	if thorough {
		nsrc = 150
	}
	roots := []string{"github.com/sarchlab/akita/v5", "sim", "", ".", "..", "/abs", "a/../..", "r//s/", "./r", " ", "x/..", "é"}
	for i := 0; i < nsrc; i++ {
		nr := 1 + r.Intn(3)
		var rows []row
		for j := 0; j < nr; j++ {
			n := r.Intn(6)
			var es []ent
			for k := 0; k < n; k++ {
				nm := randPath(r)
				if r.Chance(1, 2) {
					nm = strings.Join([]string{names[r.Intn(len(names))], names[r.Intn(len(names))]}, "/")
				}
				if nm == "" || strings.ContainsRune(nm, 0) {
					nm = "n.go"
				}
				es = append(es, ent{Type: int(types[r.Intn(len(types))]), Name: []byte(nm), Runs: randRuns(r, 30)})
			}
			rows = append(rows, row{Root: []byte(roots[r.Intn(len(roots))]), Entries: es})
		}
		add(input{Kind: "source", Rows: rows})
	}
	// hostile Root values next to an honest row: the honest row must still be served
	for _, hr := range []string{"../../etc", "..", "a/../../b", "/abs", "/", "../m", "./..", "x/../../..", "\xff", "ok/./sub//"} {
		add(input{Kind: "source", Rows: []row{
			{Root: []byte("github.com/ex/sim"), Entries: []ent{reg("core/a.go", [2]int{65, 4}, [2]int{10, 1}), reg("go.mod", [2]int{66, 2})}},
			{Root: []byte(hr), Entries: []ent{reg("passwd.go", [2]int{67, 3}), reg("sub/x.go", [2]int{68, 2})}}}})
	}
	add(input{Kind: "source", Rows: []row{{Root: []byte("m"), Entries: []ent{reg("../../escape.go", [2]int{65, 3}), reg("/abs.go", [2]int{66, 3}),
		reg("ok/../fine.go", [2]int{67, 3}), reg("..", [2]int{68, 1}), reg(".", [2]int{69, 1}), reg("sub/./x.go", [2]int{70, 2}), reg("\xff.go", [2]int{71, 1})}},
		{Root: []byte(""), Entries: []ent{reg(".", [2]int{72, 1}), reg("top.go", [2]int{73, 1})}}}})
	return out
}

func randRuns(r *hx.Rand, max int) [][2]int {
	n := r.Intn(4)
	var out [][2]int
	last := -1
	for i := 0; i < n; i++ {
		b := r.Intn(256)
		if r.Bool() {
			b = []int{10, 32, 65, 0}[r.Intn(4)]
		}
		if b == last {
			continue
		}
		last = b
		out = append(out, [2]int{b, 1 + r.Intn(max)})
	}
	return out
}

func shrink(raw json.RawMessage) []json.RawMessage {
	var in input
	if hx.UJ(raw, &in) != nil {
		return nil
	}
	var out []json.RawMessage
	for i := range in.FS {
		c := in
		c.FS = append(append([]kv{}, in.FS[:i]...), in.FS[i+1:]...)
		if len(c.FS) > 0 {
			out = append(out, hx.J(c))
		}
	}
	for i := range in.Entries {
		c := in
		c.Entries = append(append([]ent{}, in.Entries[:i]...), in.Entries[i+1:]...)
		out = append(out, hx.J(c))
	}
	for i := range in.Rows {
		c := in
		c.Rows = append(append([]row{}, in.Rows[:i]...), in.Rows[i+1:]...)
		if len(c.Rows) > 0 {
			out = append(out, hx.J(c))
		}
	}
	return out
}
