package c39

import (
	"encoding/hex"
	"strings"

	"verifharness/internal/hx"
)

// pstr prints a byte string for a case file: short strings as a plain list,
// long ones as `(unp [0x1<hex>; ...])` (see coq/theories/Lib/PackedBytes.v).
func pstr(s string) string {
	if len(s) <= 12 {
		return hx.Str(s)
	}
	const chunk = 1000
	var parts []string
	for i := 0; i < len(s); i += chunk {
		j := i + chunk
		if j > len(s) {
			j = len(s)
		}
		parts = append(parts, "0x1"+hex.EncodeToString([]byte(s[i:j])))
	}
	return "(unp [" + strings.Join(parts, "; ") + "])"
}

func pbytes(b []byte) string { return pstr(string(b)) }
