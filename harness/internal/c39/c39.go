// Package c39 ties the Coq model of the recorded-source tools (sourcefs
// archives and trace source, code_read / code_ls / code_search and the
// /api/code handlers of daisen2) to the implementation.
package c39

import (
	"archive/tar"
	"bytes"
	"compress/gzip"
	"context"
	"database/sql"
	"encoding/base64"
	"encoding/json"
	"fmt"
	"io"
	"io/fs"
	"log"
	"net/http"
	"net/http/httptest"
	"net/url"
	"os"
	"os/exec"
	"path"
	"path/filepath"
	"regexp"
	"sort"
	"strings"
	"testing/fstest"
	"time"

	"github.com/sarchlab/akita/v5/daisen2"
	"github.com/sarchlab/akita/v5/sourcefs"

	"verifharness/internal/hx"
)

type kv struct {
	K []byte `json:"k"`
	D []byte `json:"d"`
}

type ent struct {
	Type int      `json:"type"` // tar typeflag
	Name []byte   `json:"name"`
	Runs [][2]int `json:"runs,omitempty"` // content as (byte, count) runs
}

type row struct {
	Root    []byte `json:"root"`
	Entries []ent  `json:"entries"`
}

type input struct {
	Kind    string `json:"kind"` // path | read | hread | ls | search | write | archive | source
	P       []byte `json:"p,omitempty"`
	FS      []kv   `json:"fs,omitempty"`
	Start   int    `json:"start,omitempty"`
	End     int    `json:"end,omitempty"`
	Roots   bool   `json:"roots,omitempty"`
	Needle  []byte `json:"needle,omitempty"`
	Filter  []byte `json:"filter,omitempty"`
	Entries []ent  `json:"entries,omitempty"`
	Rows    []row  `json:"rows,omitempty"`
}

func init() { log.SetOutput(io.Discard) }

// ---------------------------------------------------------------- Coq terms

func fsTerm(files []kv) string {
	s := make([]string, len(files))
	for i, f := range files {
		s[i] = hx.T(pbytes(f.K), pbytes(f.D))
	}
	return hx.L(s)
}

func rleOf(b []byte) string {
	var parts []string
	for i := 0; i < len(b); {
		j := i
		for j < len(b) && b[j] == b[i] {
			j++
		}
		parts = append(parts, hx.T(hx.N(uint64(b[i])), hx.N(uint64(j-i))))
		i = j
	}
	return hx.L(parts)
}

func expand(runs [][2]int) []byte {
	n := 0
	for _, r := range runs {
		n += r[1]
	}
	b := make([]byte, 0, n)
	for _, r := range runs {
		for k := 0; k < r[1]; k++ {
			b = append(b, byte(r[0]))
		}
	}
	return b
}

func tobs(out string, err error) string {
	if err != nil {
		return "TErr"
	}
	return hx.App("TText", pstr(out))
}

func mapFS(files []kv) fstest.MapFS {
	m := fstest.MapFS{}
	for _, f := range files {
		m[string(f.K)] = &fstest.MapFile{Data: f.D}
	}
	return m
}

func source(in input) (*sourcefs.Source, error) {
	var roots []string
	if in.Roots {
		roots = []string{"github.com/example/sim", " "}
	}
	return sourcefs.NewSource(mapFS(in.FS), roots)
}

// ---------------------------------------------------------------- runners

func runPath(in input, c *hx.Case) {
	p := string(in.P)
	cl := path.Clean(p)
	c.Obs = map[string]any{"clean": cl, "valid": fs.ValidPath(p), "valid_clean": fs.ValidPath(cl)}
	c.Coq = hx.App("CPath", pstr(p), pstr(cl), hx.B(fs.ValidPath(p)), hx.B(fs.ValidPath(cl)))
	if fs.ValidPath(cl) {
		c.Tags = append(c.Tags, "path:accepted")
	} else {
		c.Tags = append(c.Tags, "path:refused")
	}
	c.Nontrivial = strings.Contains(p, "..") || strings.HasPrefix(p, "/") || !fs.ValidPath(p)
}

func runRead(in input, c *hx.Case) error {
	src, err := source(in)
	if err != nil {
		return err
	}
	out, rerr := daisen2.VerifRunCodeRead(src, string(in.P), in.Start, in.End)
	c.Obs = map[string]any{"err": fmt.Sprint(rerr), "head": clip(out, 120), "len": len(out)}
	c.Coq = hx.App("CRead", fsTerm(in.FS), pbytes(in.P), hx.Z(int64(in.Start)), hx.Z(int64(in.End)), tobs(out, rerr))
	switch {
	case rerr != nil:
		c.Tags = append(c.Tags, "read:refused")
	case strings.HasPrefix(out, "File not found"):
		c.Tags = append(c.Tags, "read:not-found")
	default:
		c.Tags = append(c.Tags, "read:served")
		if strings.Contains(out, "[output truncated") {
			c.Tags = append(c.Tags, "read:byte-cap")
		}
	}
	c.Nontrivial = true
	return nil
}

func runHTTPRead(in input, c *hx.Case) error {
	src, err := source(in)
	if err != nil {
		return err
	}
	srv := daisen2.VerifNewServer(src)
	mux := http.NewServeMux()
	srv.RegisterTraceAPIRoutes(mux)
	rec := httptest.NewRecorder()
	req := httptest.NewRequest("GET", "/api/code/read?path="+url.QueryEscape(string(in.P)), nil)
	mux.ServeHTTP(rec, req)
	max := daisen2.VerifCodeLimits()["httpReadMaxBytes"]
	obs := hx.App("HStatus", hx.N(uint64(rec.Code)))
	if rec.Code == 200 {
		var body struct {
			Path    string `json:"path"`
			Content string `json:"content"`
			Lines   int    `json:"lines"`
		}
		if err := json.Unmarshal(rec.Body.Bytes(), &body); err != nil {
			return err
		}
		obs = hx.App("HBody", pstr(body.Path), pstr(body.Content), hx.N(uint64(body.Lines)))
	}
	c.Obs = map[string]any{"status": rec.Code}
	c.Coq = hx.App("CHttpRead", hx.N(uint64(max)), fsTerm(in.FS), pbytes(in.P), obs)
	c.Tags = append(c.Tags, fmt.Sprintf("http-read:%d", rec.Code))
	c.Nontrivial = true
	return nil
}

func runLs(in input, c *hx.Case) error {
	src, err := source(in)
	if err != nil {
		return err
	}
	out, lerr := daisen2.VerifRunCodeLs(src, string(in.P))
	c.Obs = map[string]any{"err": fmt.Sprint(lerr), "head": clip(out, 120)}
	c.Coq = hx.App("CLs", fsTerm(in.FS), hx.B(in.Roots), pbytes(in.P), tobs(out, lerr))
	switch {
	case lerr != nil:
		c.Tags = append(c.Tags, "ls:refused")
	case strings.HasPrefix(out, "Directory not found"):
		c.Tags = append(c.Tags, "ls:not-found")
	case strings.HasPrefix(out, "Recorded module root"):
		c.Tags = append(c.Tags, "ls:roots")
	case strings.Contains(out, "is a file, not a directory"):
		c.Tags = append(c.Tags, "ls:is-file")
	default:
		c.Tags = append(c.Tags, "ls:listed")
		if strings.Contains(out, "[truncated") {
			c.Tags = append(c.Tags, "ls:capped")
		}
	}
	c.Nontrivial = true
	return nil
}

func runSearch(in input, c *hx.Case) error {
	src, err := source(in)
	if err != nil {
		return err
	}
	out, serr := daisen2.VerifRunCodeSearch(src, regexp.QuoteMeta(string(in.Needle)), string(in.Filter))
	c.Obs = map[string]any{"err": fmt.Sprint(serr), "head": clip(out, 120)}
	c.Coq = hx.App("CSearch", fsTerm(in.FS), pbytes(in.Needle), pbytes(in.Filter), tobs(out, serr))
	switch {
	case serr != nil:
		c.Tags = append(c.Tags, "search:error")
	case strings.HasPrefix(out, "No matches"):
		c.Tags = append(c.Tags, "search:none")
	default:
		c.Tags = append(c.Tags, "search:matches")
		if strings.Contains(out, "[truncated") {
			c.Tags = append(c.Tags, "search:capped")
		}
	}
	c.Nontrivial = serr == nil && !strings.HasPrefix(out, "No matches")
	return nil
}

type decoded struct {
	reg  bool
	name string
	data []byte
}

func decodeTar(gztar []byte) ([]decoded, error) {
	gz, err := gzip.NewReader(bytes.NewReader(gztar))
	if err != nil {
		return nil, err
	}
	tr := tar.NewReader(gz)
	var out []decoded
	for {
		h, err := tr.Next()
		if err == io.EOF {
			return out, nil
		}
		if err != nil {
			return out, err
		}
		d := decoded{reg: h.Typeflag == tar.TypeReg, name: h.Name}
		if d.reg {
			d.data, err = io.ReadAll(tr)
			if err != nil {
				return out, err
			}
		}
		out = append(out, d)
	}
}

func runWrite(in input, c *hx.Case) error {
	files := map[string][]byte{}
	var ms []string
	for _, e := range in.Entries {
		b := expand(e.Runs)
		if _, dup := files[string(e.Name)]; dup {
			continue
		}
		files[string(e.Name)] = b
		ms = append(ms, hx.T(pbytes(e.Name), rleOf(b)))
	}
	var first []byte
	same := true
	for i := 0; i < 4; i++ {
		var buf bytes.Buffer
		// a fresh map each time: Go randomises iteration order per map and per range
		cp := map[string][]byte{}
		keys := make([]string, 0, len(files))
		for k := range files {
			keys = append(keys, k)
		}
		if i%2 == 1 {
			sort.Sort(sort.Reverse(sort.StringSlice(keys)))
		}
		for _, k := range keys {
			cp[k] = files[k]
		}
		if err := sourcefs.WriteArchive(&buf, cp); err != nil {
			return err
		}
		if i == 0 {
			first = buf.Bytes()
		} else if !bytes.Equal(first, buf.Bytes()) {
			same = false
		}
	}
	dec, err := decodeTar(first)
	if err != nil {
		return err
	}
	back, rerr := sourcefs.ReadArchive(first)
	roundtrip := rerr == nil && len(back) == len(files)
	for k, v := range files {
		if !bytes.Equal(back[k], v) {
			roundtrip = false
		}
	}
	obs := make([]string, len(dec))
	for i, d := range dec {
		obs[i] = hx.T(hx.B(d.reg), pstr(d.name), rleOf(d.data))
	}
	c.Obs = map[string]any{"entries": len(dec), "same_bytes": same, "roundtrip": roundtrip}
	c.Coq = hx.App("CWrite", hx.L(ms), hx.L(obs), hx.B(same && roundtrip))
	c.Tags = append(c.Tags, fmt.Sprintf("write:%d-files", len(files)))
	c.Nontrivial = len(files) > 1
	return nil
}

func buildTar(es []ent) ([]byte, error) {
	var buf bytes.Buffer
	gz := gzip.NewWriter(&buf)
	tw := tar.NewWriter(gz)
	for _, e := range es {
		h := &tar.Header{Typeflag: byte(e.Type), Name: string(e.Name), Mode: 0o644}
		size := 0
		for _, r := range e.Runs {
			size += r[1]
		}
		switch byte(e.Type) {
		case tar.TypeReg, tar.TypeRegA, tar.TypeCont:
			h.Size = int64(size)
		case tar.TypeSymlink, tar.TypeLink:
			h.Linkname = "../../../etc/passwd"
			size = 0
		default:
			size = 0
		}
		if byte(e.Type) != tar.TypeDir && strings.HasSuffix(h.Name, "/") {
			h.Name = strings.TrimRight(h.Name, "/") + "_" // archive/tar refuses to write such a header
		}
		if err := tw.WriteHeader(h); err != nil {
			return nil, err
		}
		if size > 0 {
			chunk := make([]byte, 64<<10)
			for _, r := range e.Runs {
				for i := range chunk {
					chunk[i] = byte(r[0])
				}
				for left := r[1]; left > 0; {
					n := left
					if n > len(chunk) {
						n = len(chunk)
					}
					if _, err := tw.Write(chunk[:n]); err != nil {
						return nil, err
					}
					left -= n
				}
			}
		}
	}
	if err := tw.Close(); err != nil {
		return nil, err
	}
	if err := gz.Close(); err != nil {
		return nil, err
	}
	return buf.Bytes(), nil
}

func runArchive(in input, c *hx.Case) error {
	gztar, err := buildTar(in.Entries)
	if err != nil {
		return fmt.Errorf("building hostile archive: %w", err)
	}
	fileCap, totalCap := sourcefs.VerifArchiveLimits()
	dec, derr := decodeTar(gztar)
	if derr != nil {
		return derr
	}
	es := make([]string, len(dec))
	for i, d := range dec {
		es[i] = hx.App("mk_entry", hx.B(d.reg), pstr(d.name), rleOf(d.data))
	}
	dec = nil
	files, rerr := sourcefs.ReadArchive(gztar)
	obs := ""
	maxLen, total := 0, 0
	switch {
	case rerr == nil:
		keys := make([]string, 0, len(files))
		for k := range files {
			keys = append(keys, k)
		}
		sort.Strings(keys)
		fsT := make([]string, len(keys))
		for i, k := range keys {
			fsT[i] = hx.T(pstr(k), rleOf(files[k]))
			total += len(files[k])
			if len(files[k]) > maxLen {
				maxLen = len(files[k])
			}
		}
		obs = hx.App("AObsOk", hx.L(fsT))
		c.Tags = append(c.Tags, "archive:accepted")
	case strings.Contains(rerr.Error(), "source archive entry"):
		obs = "AObsFileTooBig"
		c.Tags = append(c.Tags, "archive:file-too-big")
	case strings.Contains(rerr.Error(), "source archive exceeds"):
		obs = "AObsTotalTooBig"
		c.Tags = append(c.Tags, "archive:total-too-big")
	default:
		obs = "AObsOtherErr"
		c.Tags = append(c.Tags, "archive:other-error")
	}
	c.Obs = map[string]any{"err": fmt.Sprint(rerr), "files": len(files), "max_file": maxLen, "total": total, "gz_bytes": len(gztar)}
	c.Coq = hx.App("CArchive", hx.N(uint64(fileCap)), hx.N(uint64(totalCap)), hx.L(es), obs)
	c.Nontrivial = true
	return nil
}

func runSourceDirect(in input, c *hx.Case) error {
	dir, err := os.MkdirTemp("", "verif-c39-")
	if err != nil {
		return err
	}
	defer os.RemoveAll(dir)
	db, err := sql.Open("sqlite3", filepath.Join(dir, "trace.sqlite3"))
	if err != nil {
		return err
	}
	defer db.Close()
	if _, err := db.Exec(`CREATE TABLE source (Root TEXT, Content TEXT)`); err != nil {
		return err
	}
	seen := map[string]bool{}
	var rowsT []string
	for _, r := range in.Rows {
		// drop entries whose joined key collides with an earlier one: the outcome would
		// depend on Go's map iteration order (the theorem covers every order; the tie cannot)
		var es []ent
		for _, e := range r.Entries {
			key := path.Join(string(r.Root), string(e.Name))
			if byte(e.Type) == tar.TypeReg && seen[key] {
				continue
			}
			if byte(e.Type) == tar.TypeReg {
				seen[key] = true
			}
			es = append(es, e)
		}
		gztar, err := buildTar(es)
		if err != nil {
			return err
		}
		if _, err := db.Exec(`INSERT INTO source VALUES (?, ?)`, string(r.Root), base64.StdEncoding.EncodeToString(gztar)); err != nil {
			return err
		}
		files, err := sourcefs.ReadArchive(gztar)
		if err != nil {
			return err
		}
		keys := make([]string, 0, len(files))
		for k := range files {
			keys = append(keys, k)
		}
		sort.Strings(keys)
		fsT := make([]string, len(keys))
		for i, k := range keys {
			fsT[i] = hx.T(pstr(k), pbytes(files[k]))
		}
		rowsT = append(rowsT, hx.T(pbytes(r.Root), hx.L(fsT)))
	}
	src, oerr := sourcefs.OpenTraceSource(db)
	if oerr != nil {
		c.Obs = map[string]any{"error": oerr.Error()}
		c.Coq = hx.App("CSource", hx.L(rowsT), "SRejected")
		c.Tags = append(c.Tags, "source:rejected")
		return nil
	}
	var obs []string
	served := 0
	if fsys := src.FS(); fsys != nil {
		m := fsys.(fstest.MapFS)
		keys := make([]string, 0, len(m))
		for k := range m {
			keys = append(keys, k)
		}
		sort.Strings(keys)
		for _, k := range keys {
			obs = append(obs, hx.T(pstr(k), pbytes(m[k].Data)))
		}
		served = len(keys)
	}
	c.Obs = map[string]any{"served_keys": served, "files": src.Files, "roots": src.Roots}
	c.Coq = hx.App("CSource", hx.L(rowsT), hx.App("SServed", hx.L(obs)))
	c.Tags = append(c.Tags, fmt.Sprintf("source:%d-rows", len(in.Rows)))
	c.Nontrivial = served > 0
	return nil
}

// runSource opens the trace source in a child process (this binary, `replay`), so that a
// load-time crash of the walk (a fatal stack overflow is not a recoverable panic) becomes
// an observation instead of killing the run.
func runSource(in input, c *hx.Case) error {
	if os.Getenv("VERIF_C39_CHILD") != "" {
		return runSourceDirect(in, c)
	}
	dir, err := os.MkdirTemp("", "verif-c39-child-")
	if err != nil {
		return err
	}
	defer os.RemoveAll(dir)
	f := filepath.Join(dir, "in.json")
	if err := os.WriteFile(f, hx.J(map[string]any{"case": in}), 0o644); err != nil {
		return err
	}
	exe, err := os.Executable()
	if err != nil {
		return err
	}
	ctx, cancel := context.WithTimeout(context.Background(), 120*time.Second)
	defer cancel()
	cmd := exec.CommandContext(ctx, exe, "replay", "C39", "-file", f, "-out", filepath.Join(dir, "out"))
	cmd.Env = append(os.Environ(), "VERIF_C39_CHILD=1")
	var stderr bytes.Buffer
	cmd.Stderr = &stderr
	runErr := cmd.Run()
	if runErr == nil {
		b, rerr := os.ReadFile(filepath.Join(dir, "out", "cases.jsonl"))
		if rerr != nil {
			return rerr
		}
		var rec struct {
			Observed   any      `json:"observed"`
			Nontrivial bool     `json:"nontrivial"`
			Tags       []string `json:"tags"`
		}
		if err := json.Unmarshal(bytes.SplitN(b, []byte("\n"), 2)[0], &rec); err != nil {
			return err
		}
		v, rerr := os.ReadFile(filepath.Join(dir, "out", "cases_0.v"))
		if rerr != nil {
			return rerr
		}
		// the child's case term: the line "(0, <term>)]."
		txt := string(v)
		i := strings.Index(txt, "(0, ")
		j := strings.LastIndex(txt, ")].")
		if i < 0 || j < i {
			return fmt.Errorf("cannot read the child's case term")
		}
		c.Coq = txt[i+4 : j]
		c.Obs, c.Nontrivial, c.Tags = rec.Observed, rec.Nontrivial, rec.Tags
		return nil
	}
	// the child died: rebuild the rows for the model here (ReadArchive only) and record the crash
	var rowsT []string
	seen := map[string]bool{}
	for _, r := range in.Rows {
		var es []ent
		for _, e := range r.Entries {
			key := path.Join(string(r.Root), string(e.Name))
			if byte(e.Type) == tar.TypeReg && seen[key] {
				continue
			}
			if byte(e.Type) == tar.TypeReg {
				seen[key] = true
			}
			es = append(es, e)
		}
		gztar, err := buildTar(es)
		if err != nil {
			return err
		}
		files, err := sourcefs.ReadArchive(gztar)
		if err != nil {
			return err
		}
		keys := make([]string, 0, len(files))
		for k := range files {
			keys = append(keys, k)
		}
		sort.Strings(keys)
		fsT := make([]string, len(keys))
		for i, k := range keys {
			fsT[i] = hx.T(pstr(k), pbytes(files[k]))
		}
		rowsT = append(rowsT, hx.T(pbytes(r.Root), hx.L(fsT)))
	}
	tail := stderr.String()
	if len(tail) > 300 {
		tail = tail[:300]
	}
	c.Obs = map[string]any{"crashed": runErr.Error(), "stderr_head": tail}
	c.Coq = hx.App("CSource", hx.L(rowsT), "SCrashed")
	c.Tags = append(c.Tags, "source:crashed")
	c.Nontrivial = true
	return nil
}

func clip(s string, n int) string {
	if len(s) > n {
		return s[:n]
	}
	return s
}

func run(raw json.RawMessage) (hx.Case, error) {
	var in input
	if err := hx.UJ(raw, &in); err != nil {
		return hx.Case{}, err
	}
	var c hx.Case
	var err error
	switch in.Kind {
	case "path":
		runPath(in, &c)
	case "read":
		err = runRead(in, &c)
	case "hread":
		err = runHTTPRead(in, &c)
	case "ls":
		err = runLs(in, &c)
	case "search":
		err = runSearch(in, &c)
	case "write":
		err = runWrite(in, &c)
	case "archive":
		err = runArchive(in, &c)
	case "source":
		err = runSource(in, &c)
	default:
		err = fmt.Errorf("unknown kind %q", in.Kind)
	}
	return c, err
}

func init() {
	hx.Register(&hx.Prop{
		ID:      "C39",
		Imports: "From Akita Require Import Lib.Base Lib.PackedBytes C37.Model C39.Model C39.Exec.",
		Rule: "request paths: a traversal corpus (.., absolute, ./, //, trailing slashes, blanks, invalid UTF-8, dot files) + random " +
			"compositions, through path.Clean/fs.ValidPath and through code_read, code_ls and /api/code/read on random recorded trees " +
			"(including a file and a directory of the same name, and a file recorded as '.'); literal code_search queries; archives: " +
			"WriteArchive from differently ordered maps (byte-identical, read back), hostile tar files built with archive/tar (traversal " +
			"and absolute names, symlink/dir/fifo entries, duplicates, an entry one byte over the per-file cap, a total over the archive cap); " +
			"trace sources with hostile roots and names through a real SQLite source table. Non-trivial: a path with '..', a leading '/' " +
			"or an invalid form; every tool case; archives with more than one file. Distinct = distinct input hash.",
		Gen: gen, Run: run, Shrink: shrink,
	})
}
