// Package c04 runs scripted handler programs on the real ParallelEngine and
// records handler start / end / Schedule calls in one atomic logical order.
package c04

import (
	"encoding/json"
	"fmt"
	"io"
	"os"
	"os/exec"
	"path/filepath"
	"runtime"
	"sort"
	"strings"
	"sync"
	"time"

	"github.com/sarchlab/akita/v5/timing"

	"verifharness/internal/hx"
)

// Ev is an initial event.
type Ev struct {
	ID   uint64 `json:"id"`
	Time uint64 `json:"t"`
	Sec  bool   `json:"sec"`
}

// Kid is one Schedule call of a handler: child id, delay, phase.
type Kid struct {
	ID    uint64 `json:"id"`
	Delay uint64 `json:"d"`
	Sec   bool   `json:"sec"`
}

type input struct {
	NQ   int              `json:"nq"` // GOMAXPROCS while the engine is created and run
	Init []Ev             `json:"init"`
	Prog map[string][]Kid `json:"prog"`
	Spin int              `json:"spin"`
	Seed uint64           `json:"seed"`
	// controller goroutine (Pause / Schedule / Continue, what a monitor does)
	Pre      []Ev   `json:"pre,omitempty"`      // scheduled while paused BEFORE Run starts (Run is started under the pause)
	Mid      int    `json:"mid,omitempty"`      // number of pause / inject at CurrentTime() / continue cycles during the run
	MidSec   bool   `json:"midsec,omitempty"`   // every third cycle also injects a secondary
	Sentinel uint64 `json:"sentinel,omitempty"` // id of a far-future event; injections stop once it has started
}

type label struct {
	Kind string `json:"k"` // S E X(sched) I(injected by the controller)
	A    Ev     `json:"a"`
	B    *Ev    `json:"b,omitempty"`
}

type obs struct {
	Trace []label `json:"trace"`
	Done  bool    `json:"done"`
	Panic string  `json:"panic,omitempty"`
	Races int     `json:"races,omitempty"`
}

// executeChild runs execute in a subprocess of the (race-instrumented) harness:
// a crash of the engine (a panic in a temporary worker goroutine cannot be
// recovered by the caller) and race reports become observed data.
func executeChild(raw json.RawMessage) obs {
	dir, err := os.MkdirTemp("", "c04-")
	if err != nil {
		return obs{Panic: "mkdtemp: " + err.Error()}
	}
	defer os.RemoveAll(dir)
	inf, outf := filepath.Join(dir, "in.json"), filepath.Join(dir, "out.json")
	os.WriteFile(inf, raw, 0o644)
	self, _ := os.Executable()
	cmd := exec.Command(self, "c04child", inf, outf)
	cmd.Env = append(os.Environ(), "GORACE=halt_on_error=0 exitcode=0 atexit_sleep_ms=0 log_path="+filepath.Join(dir, "race"))
	cmd.Stdout = io.Discard
	var eb strings.Builder
	cmd.Stderr = &eb
	done := make(chan error, 1)
	if err := cmd.Start(); err != nil {
		return obs{Panic: "start: " + err.Error()}
	}
	go func() { done <- cmd.Wait() }()
	var o obs
	select {
	case err := <-done:
		b, rerr := os.ReadFile(outf)
		if rerr != nil || json.Unmarshal(b, &o) != nil {
			msg := eb.String()
			if i := strings.Index(msg, "panic:"); i >= 0 {
				msg = msg[i:]
			}
			if len(msg) > 200 {
				msg = msg[:200]
			}
			o = obs{Panic: fmt.Sprintf("engine crashed (%v): %s", err, msg)}
		}
	case <-time.After(60 * time.Second):
		cmd.Process.Kill()
		o = obs{Panic: "child timed out"}
	}
	files, _ := filepath.Glob(filepath.Join(dir, "race.*"))
	for _, f := range files {
		b, _ := os.ReadFile(f)
		o.Races += strings.Count(string(b), "WARNING: DATA RACE")
	}
	if o.Races > 0 && o.Panic == "" {
		o.Panic = fmt.Sprintf("%d data race report(s)", o.Races)
	}
	return o
}

func child() {
	var in input
	b, err := os.ReadFile(os.Args[2])
	if err != nil || json.Unmarshal(b, &in) != nil {
		os.Exit(3)
	}
	if in.NQ < 1 {
		in.NQ = 1
	}
	o := execute(in)
	ob, _ := json.Marshal(o)
	os.WriteFile(os.Args[3], ob, 0o644)
}

type logger struct {
	mu  sync.Mutex
	evs []label
}

func (l *logger) add(x label) {
	l.mu.Lock()
	l.evs = append(l.evs, x)
	l.mu.Unlock()
}

func (l *logger) started(id uint64) bool {
	l.mu.Lock()
	defer l.mu.Unlock()
	for _, x := range l.evs {
		if x.Kind == "S" && x.A.ID == id {
			return true
		}
	}
	return false
}

// runBlockedOnPauseLock: the goroutine executing ParallelEngine.Run is parked in sync.Mutex.Lock
// (not inside an event queue's own mutex).
func runBlockedOnPauseLock() bool {
	buf := make([]byte, 1<<20)
	n := runtime.Stack(buf, true)
	for _, g := range strings.Split(string(buf[:n]), "\n\n") {
		nl := strings.IndexByte(g, '\n')
		if nl < 0 {
			continue
		}
		if strings.Contains(g[:nl], "sync.Mutex.Lock") && strings.Contains(g[nl:], "(*ParallelEngine).Run") &&
			!strings.Contains(g[nl:], "EventQueueImpl") {
			return true
		}
	}
	return false
}

type event struct {
	ev Ev
}

func (e event) Time() timing.VTimeInPicoSec { return timing.VTimeInPicoSec(e.ev.Time) }
func (e event) HandlerID() string           { return "h" }
func (e event) IsSecondary() bool           { return e.ev.Sec }

type handler struct {
	eng  timing.Engine
	prog map[uint64][]Kid
	log  *logger
	spin int
	rnd  *hx.Rand
	rmu  sync.Mutex
	pmu  sync.Mutex
	pmsg string
}

var sink uint64

func busy(n int) {
	x := uint64(1)
	for i := 0; i < n; i++ {
		x = x*6364136223846793005 + 1442695040888963407
	}
	if x == 42 {
		sink++
	}
}

func (h *handler) Handle(e timing.Event) error {
	defer func() {
		if r := recover(); r != nil {
			h.pmu.Lock()
			h.pmsg = fmt.Sprint(r)
			h.pmu.Unlock()
		}
	}()
	ev := e.(event).ev
	h.log.add(label{Kind: "S", A: ev})
	if h.spin > 0 {
		h.rmu.Lock()
		n := h.rnd.Intn(h.spin)
		h.rmu.Unlock()
		busy(n)
	}
	for _, k := range h.prog[ev.ID] {
		c := Ev{k.ID, ev.Time + k.Delay, k.Sec}
		h.eng.Schedule(event{c})
		h.log.add(label{Kind: "X", A: ev, B: &c})
	}
	h.log.add(label{Kind: "E", A: ev})
	return nil
}

func execute(in input) obs {
	old := runtime.GOMAXPROCS(in.NQ)
	defer runtime.GOMAXPROCS(old)
	eng := timing.NewParallelEngine()
	lg := &logger{}
	h := &handler{eng: eng, prog: map[uint64][]Kid{}, log: lg, spin: in.Spin, rnd: hx.NewRand(in.Seed)}
	for k, v := range in.Prog {
		var id uint64
		fmt.Sscan(k, &id)
		h.prog[id] = v
	}
	eng.RegisterHandler("h", h)
	for _, e := range in.Init {
		eng.Schedule(event{e})
	}
	done := make(chan string, 1)
	runIt := func() {
		go func() {
			msg := ""
			func() {
				defer func() {
					if r := recover(); r != nil {
						msg = fmt.Sprint(r)
					}
				}()
				_ = eng.Run()
			}()
			done <- msg
		}()
	}
	if len(in.Pre) > 0 {
		// Pause, start Run under the pause, wait (stack poll, no sleep) until the Run
		// goroutine is blocked on the pause lock, inject, Continue.
		eng.Pause()
		runIt()
		deadline := time.Now().Add(10 * time.Second)
		for !runBlockedOnPauseLock() && time.Now().Before(deadline) {
			runtime.Gosched()
		}
		for _, c := range in.Pre {
			eng.Schedule(event{c})
			lg.add(label{Kind: "I", A: c})
		}
		eng.Continue()
	} else {
		runIt()
	}
	if in.Mid > 0 {
		r := hx.NewRand(in.Seed ^ 0xabcdef)
		for k := 0; k < in.Mid; k++ {
			busy(r.Intn(20000))
			eng.Pause()
			if lg.started(in.Sentinel) {
				eng.Continue()
				break
			}
			t := uint64(eng.CurrentTime())
			c := Ev{ID: 1000000 + uint64(2*k), Time: t, Sec: false}
			eng.Schedule(event{c})
			lg.add(label{Kind: "I", A: c})
			if in.MidSec && k%3 == 0 {
				c2 := Ev{ID: 1000001 + uint64(2*k), Time: t, Sec: true}
				eng.Schedule(event{c2})
				lg.add(label{Kind: "I", A: c2})
			}
			eng.Continue()
		}
	}
	o := obs{}
	select {
	case m := <-done:
		o.Done = true
		o.Panic = m
	case <-time.After(20 * time.Second): // safety net only
	}
	h.pmu.Lock()
	if h.pmsg != "" {
		o.Panic = h.pmsg
	}
	h.pmu.Unlock()
	lg.mu.Lock()
	o.Trace = append([]label(nil), lg.evs...)
	lg.mu.Unlock()
	return o
}

func coqEv(e Ev) string { return hx.App("mk_ev", hx.N(e.ID), hx.N(e.Time), hx.B(e.Sec)) }

func sortedIDs(m map[string][]Kid) []uint64 {
	ids := []uint64{}
	for k := range m {
		var id uint64
		fmt.Sscan(k, &id)
		ids = append(ids, id)
	}
	sort.Slice(ids, func(i, j int) bool { return ids[i] < ids[j] })
	return ids
}

// hasCorner: some secondary event schedules a primary at its own instant
// (input shape of the sibling-secondary corner).
func hasCorner(in input) bool {
	sec := map[uint64]bool{}
	for _, e := range in.Init {
		sec[e.ID] = e.Sec
	}
	for _, ks := range in.Prog {
		for _, k := range ks {
			sec[k.ID] = k.Sec
		}
	}
	for p, ks := range in.Prog {
		var id uint64
		fmt.Sscan(p, &id)
		if !sec[id] {
			continue
		}
		for _, k := range ks {
			if !k.Sec && k.Delay == 0 {
				return true
			}
		}
	}
	return false
}

// siblingCorner: in the (schedule-independent) round structure of the input, some
// SECONDARY round has at least two members and one of them schedules a primary at
// the same instant — the only shape in which the known corner can occur.  A lone
// secondary that schedules a same-instant primary is NOT in the classifier.
func siblingCorner(in input) bool {
	type pe struct {
		id, t uint64
		sec   bool
	}
	var pending []pe
	for _, e := range in.Init {
		pending = append(pending, pe{e.ID, e.Time, e.Sec})
	}
	for _, e := range in.Pre {
		pending = append(pending, pe{e.ID, e.Time, e.Sec})
	}
	for guard := 0; len(pending) > 0 && guard < 100000; guard++ {
		const inf = ^uint64(0)
		pt, st := inf, inf
		for _, e := range pending {
			if e.sec && e.t < st {
				st = e.t
			}
			if !e.sec && e.t < pt {
				pt = e.t
			}
		}
		t, sec := pt, false
		if !(pt <= st) {
			t, sec = st, true
		}
		var members, rest []pe
		for _, e := range pending {
			if e.t == t && e.sec == sec {
				members = append(members, e)
			} else {
				rest = append(rest, e)
			}
		}
		if len(members) == 0 {
			return false
		}
		zeroPrim := false
		for _, m := range members {
			for _, k := range in.Prog[fmt.Sprint(m.id)] {
				rest = append(rest, pe{k.ID, m.t + k.Delay, k.Sec})
				if sec && !k.Sec && k.Delay == 0 {
					zeroPrim = true
				}
			}
		}
		if sec && zeroPrim && (len(members) >= 2 || in.Mid > 0) {
			return true
		}
		pending = rest
	}
	return false
}

func run(raw json.RawMessage) (hx.Case, error) {
	var in input
	if err := hx.UJ(raw, &in); err != nil {
		return hx.Case{}, err
	}
	if in.NQ < 1 {
		in.NQ = 1
	}
	o := executeChild(raw)
	nev := len(in.Init)
	var progTerms []string
	for _, id := range sortedIDs(in.Prog) {
		ks := in.Prog[fmt.Sprint(id)]
		nev += len(ks)
		ts := make([]string, len(ks))
		for i, k := range ks {
			ts[i] = hx.T(hx.N(k.ID), hx.N(k.Delay), hx.B(k.Sec))
		}
		progTerms = append(progTerms, hx.T(hx.N(id), hx.L(ts)))
	}
	inits := make([]string, len(in.Init))
	for i, e := range in.Init {
		inits[i] = coqEv(e)
	}
	tr := make([]string, len(o.Trace))
	sameInstant := false
	nInj := 0
	for i, l := range o.Trace {
		switch l.Kind {
		case "S":
			tr[i] = hx.App("LStart", coqEv(l.A))
		case "E":
			tr[i] = hx.App("LEnd", coqEv(l.A))
		case "I":
			tr[i] = hx.App("LInject", coqEv(l.A))
			nInj++
			sameInstant = true
		default:
			tr[i] = hx.App("LSched", coqEv(l.A), coqEv(*l.B))
			if l.B.Time == l.A.Time {
				sameInstant = true
			}
		}
	}
	c := hx.Case{Obs: o}
	pres := make([]string, len(in.Pre))
	for i, e := range in.Pre {
		pres[i] = coqEv(e)
	}
	c.Coq = hx.App("mk_case", hx.Nat(in.NQ), hx.L(inits), hx.L(progTerms), hx.Nat(nev+nInj+len(in.Pre)+2),
		hx.L(pres), hx.B(in.Mid > 0), hx.L(tr), hx.B(o.Done), hx.B(o.Panic != ""))
	c.Tags = []string{fmt.Sprintf("gomaxprocs:%d", in.NQ)}
	if sameInstant {
		c.Tags = append(c.Tags, "same-instant-scheduling")
	}
	switch {
	case nev <= 8:
		c.Tags = append(c.Tags, "events:<=8")
	case nev <= 64:
		c.Tags = append(c.Tags, "events:9-64")
	default:
		c.Tags = append(c.Tags, "events:>64")
	}
	c.Nontrivial = nev >= 3 && sameInstant
	if len(in.Pre) > 0 {
		c.Tags = append(c.Tags, "controller:inject-before-run")
	}
	if in.Mid > 0 {
		c.Tags = append(c.Tags, fmt.Sprintf("controller:mid-run-injections=%d", nInj))
	}
	if hasCorner(in) {
		c.Tags = append(c.Tags, "shape:secondary-schedules-same-instant-primary")
	}
	if siblingCorner(in) {
		c.Known = "sibling_secondary_corner"
		c.Tags = append(c.Tags, "shape:sibling-secondaries-with-same-instant-primary")
	}
	return c, nil
}

// genProgram: a random forest of n events; children at delay 0 (same instant) or later.
func genProgram(r *hx.Rand, n int, allowCorner bool) ([]Ev, map[string][]Kid) {
	prog := map[string][]Kid{}
	var init []Ev
	sec := make([]bool, n+1)
	for i := 1; i <= n; i++ {
		if i == 1 || r.Chance(1, 4) {
			e := Ev{ID: uint64(i), Time: uint64(r.Intn(4)) * 10, Sec: r.Chance(1, 3)}
			sec[i] = e.Sec
			init = append(init, e)
			continue
		}
		p := 1 + r.Intn(i-1)
		k := Kid{ID: uint64(i), Sec: r.Chance(1, 3)}
		if !r.Chance(1, 2) {
			k.Delay = uint64(1+r.Intn(2)) * 10
		}
		if !allowCorner && sec[p] && !k.Sec && k.Delay == 0 {
			k.Delay = 10
		}
		sec[i] = k.Sec
		key := fmt.Sprint(p)
		prog[key] = append(prog[key], k)
	}
	return init, prog
}

var procs = []int{1, 2, 4, 16}

func gen(r *hx.Rand, tier string) []json.RawMessage {
	var out []json.RawMessage
	add := func(in input) { out = append(out, hx.J(in)) }
	nSmall, nBig := 60, 12
	if tier == "thorough" {
		nSmall, nBig = 400, 60
	}
	// directed: the sibling-secondary corner, made likely by many siblings that each
	// schedule a same-instant primary
	for _, nq := range procs {
		in := input{NQ: nq, Prog: map[string][]Kid{}, Spin: 2000, Seed: r.U64()}
		id := uint64(100)
		for i := 1; i <= 40; i++ {
			in.Init = append(in.Init, Ev{uint64(i), 10, true})
			id++
			in.Prog[fmt.Sprint(i)] = []Kid{{id, 0, false}}
		}
		add(in)
	}
	// directed: same-instant chains primary -> secondary -> primary -> secondary and primaries spawned by primaries
	for _, nq := range procs {
		add(input{NQ: nq, Init: []Ev{{1, 5, false}, {2, 5, true}, {3, 5, false}, {9, 7, true}},
			Prog: map[string][]Kid{"1": {{4, 0, false}, {5, 0, true}}, "4": {{6, 0, false}, {7, 10, false}}, "6": {{8, 0, true}}}, Spin: 500, Seed: r.U64()})
		add(input{NQ: nq, Init: []Ev{{1, 0, true}}, Prog: map[string][]Kid{}, Seed: 1})
		add(input{NQ: nq, Init: nil, Prog: map[string][]Kid{}, Seed: 1})
	}
	// directed: a controller goroutine (what a monitor does) pauses the engine, schedules events for the instant
	// whose secondary round is next, and continues.  (a) deterministic: Pause before Run, Run started under the
	// pause and observed blocked on the pause lock, then Schedule + Continue.
	for _, nq := range procs {
		add(input{NQ: nq, Init: []Ev{{1, 10, true}}, Prog: map[string][]Kid{}, Pre: []Ev{{50, 10, false}}, Spin: 300, Seed: r.U64()})
		add(input{NQ: nq, Init: []Ev{{1, 10, true}, {2, 10, true}, {3, 20, false}},
			Prog: map[string][]Kid{"1": {{4, 10, false}}, "50": {{6, 0, true}}},
			Pre:  []Ev{{50, 10, false}, {51, 10, true}, {52, 10, false}}, Spin: 300, Seed: r.U64()})
	}
	// (b) a lone secondary that schedules both a primary and a further secondary for its own instant, over a
	// chain of instants: the primary must run before the further secondary (no sibling: not the known corner)
	for _, nq := range []int{1, 4} {
		in := input{NQ: nq, Prog: map[string][]Kid{}, Spin: 300, Seed: r.U64()}
		in.Init = []Ev{{1, 10, true}}
		id := uint64(1)
		for k := 0; k < 8; k++ {
			// secondary `id` -> primary id+1 (same instant), secondary id+2 (same instant); id+2 -> secondary id+3 at the next instant
			in.Prog[fmt.Sprint(id)] = []Kid{{id + 1, 0, false}, {id + 2, 0, true}}
			in.Prog[fmt.Sprint(id+2)] = []Kid{{id + 3, 10, true}}
			id += 3
		}
		add(in)
	}
	// (c) pauses at arbitrary moments of a long run: inject a primary (and sometimes a secondary) at CurrentTime()
	nMid := 3
	if tier == "thorough" {
		nMid = 24
	}
	for i := 0; i < nMid; i++ {
		in := input{NQ: procs[1+i%3], Prog: map[string][]Kid{}, Spin: r.Range(500, 3000), Seed: r.U64(),
			Mid: r.Range(15, 40), MidSec: i%2 == 0, Sentinel: 999999}
		n := r.Range(60, 140)
		in.Init = []Ev{{1, 10, false}, {999999, 1 << 40, false}}
		cur, next := uint64(1), uint64(2)
		for k := 0; k < n; k++ {
			// primary cur -> a secondary of the same instant and the primary of the next instant; sometimes an extra same-instant primary
			secID := next
			nxt := next + 1
			next += 2
			ks := []Kid{{secID, 0, true}, {nxt, 10, false}}
			if r.Chance(1, 3) {
				ks = append(ks, Kid{next, 0, false})
				next++
			}
			in.Prog[fmt.Sprint(cur)] = ks
			cur = nxt
		}
		add(in)
	}
	for i := 0; i < nSmall; i++ {
		n := r.Range(2, 30)
		init, prog := genProgram(r, n, r.Chance(1, 6))
		add(input{NQ: procs[r.Intn(4)], Init: init, Prog: prog, Spin: r.Range(0, 3000), Seed: r.U64()})
	}
	for i := 0; i < nBig; i++ {
		n := r.Range(60, 250)
		init, prog := genProgram(r, n, r.Chance(1, 6))
		add(input{NQ: procs[r.Intn(4)], Init: init, Prog: prog, Spin: r.Range(0, 1500), Seed: r.U64()})
	}
	return out
}

func shrink(raw json.RawMessage) []json.RawMessage {
	var in input
	if hx.UJ(raw, &in) != nil {
		return nil
	}
	var out []json.RawMessage
	// drop leaf events
	for _, p := range sortedIDs(in.Prog) {
		pk := fmt.Sprint(p)
		kids := in.Prog[pk]
		for i, kid := range kids {
			if len(in.Prog[fmt.Sprint(kid.ID)]) > 0 {
				continue
			}
			c := in
			c.Prog = map[string][]Kid{}
			for k, v := range in.Prog {
				c.Prog[k] = v
			}
			nk := append(append([]Kid{}, kids[:i]...), kids[i+1:]...)
			if len(nk) == 0 {
				delete(c.Prog, pk)
			} else {
				c.Prog[pk] = nk
			}
			out = append(out, hx.J(c))
			if len(out) > 10 {
				return out
			}
		}
	}
	for i, e := range in.Init {
		if len(in.Prog[fmt.Sprint(e.ID)]) > 0 || len(in.Init) <= 1 {
			continue
		}
		c := in
		c.Init = append(append([]Ev{}, in.Init[:i]...), in.Init[i+1:]...)
		out = append(out, hx.J(c))
		if len(out) > 14 {
			break
		}
	}
	return out
}

func init() {
	if len(os.Args) >= 4 && os.Args[1] == "c04child" {
		child()
		os.Exit(0)
	}
	hx.Register(&hx.Prop{
		ID:      "C04",
		Imports: "From Akita Require Import Lib.Base C04.Model C04.Exec.",
		Rule: "scripted handler programs (random forests of 2..30 and 60..250 events; a handler schedules its children at delay 0 = same " +
			"instant, or 10/20 ps later, primary or secondary, busy-loops a random time) run on the real ParallelEngine with GOMAXPROCS in " +
			"{1,2,4,16} under the race detector, each run in a subprocess of the harness (a crash or a race report is an observation); every handler start / end / Schedule is appended to one mutex-protected log (atomic logical " +
			"clock). Directed: 40 sibling secondaries each scheduling a same-instant primary (the known corner), same-instant chains " +
			"primary->secondary->primary, empty and single-event runs; a controller goroutine that pauses the engine (before Run, observed blocked on the pause lock; or at arbitrary moments of a long run), schedules primaries/secondaries at CurrentTime() and continues; lone secondaries that schedule a primary and a further secondary for their own instant. Non-trivial: >= 3 events and some same-instant Schedule call. " +
			"Distinct = distinct input hash.",
		Gen: gen, Run: run, Shrink: shrink,
	})
}
