// Package c08 ties Lib/Json.v + C08/Model.v to the real checkpoint encodings: values of
// every library message / event / Spec / State type go through json.Marshal/Unmarshal, and
// through the real port, serial-engine and component checkpoints.
package c08

import (
	"bytes"
	"encoding/json"
	"fmt"
	"io"
	"reflect"
	"unicode/utf8"

	"github.com/sarchlab/akita/v5/messaging"
	"github.com/sarchlab/akita/v5/timing"

	"verifharness/internal/hx"
	"verifharness/internal/jm"
	"verifharness/internal/libtypes"
	"verifharness/internal/memasm"
)

type input struct {
	Type  string `json:"type"`  // libtypes entry name ("" for harvested states)
	Route int    `json:"route"` // 0 json, 1 port, 2 engine, 3 component
	Mode  string `json:"mode"`  // rand | zero | empty | nil | badutf8 | harvest | multi | shrink
	Seed  uint64 `json:"seed"`
	N     int    `json:"n,omitempty"` // multi / shrink: number of same-type messages in ONE port buffer
	At    int    `json:"at,omitempty"`    // harvest: after this many engine events
	Which int    `json:"which,omitempty"` // harvest: which component of the assembly
	// route 3: seed of the State the rebuilt component holds BEFORE LoadCheckpoint (0 = zero State)
	Prior uint64 `json:"prior,omitempty"`
}

type obs struct {
	JSON    string `json:"json,omitempty"`
	Err     string `json:"err,omitempty"`
	Same    bool   `json:"same"`
	TypeOut string `json:"type_out,omitempty"`
}

type checkpointable interface {
	SaveCheckpoint(w io.Writer) error
	LoadCheckpoint(r io.Reader) error
}

// composite reports whether values of t contain slices or maps below the top level.
func composite(t reflect.Type) bool {
	switch t.Kind() {
	case reflect.Slice, reflect.Map:
		return true
	case reflect.Array:
		return composite(t.Elem())
	case reflect.Struct:
		for i := 0; i < t.NumField(); i++ {
			if !jm.ParseField(t.Field(i)).Skip && t.Field(i).PkgPath == "" && composite(t.Field(i).Type) {
				return true
			}
		}
	}
	return false
}

// shapeAll sets every leaf slice / map in v to nil (mode "nil") or to empty non-nil
// ("empty"); a slice or map whose elements themselves contain slices or maps keeps exactly
// one element (shaped recursively), so that nested leaves are reached too.
func shapeAll(r *hx.Rand, v reflect.Value, empty bool) {
	switch v.Kind() {
	case reflect.Slice:
		if composite(v.Type().Elem()) {
			s := reflect.MakeSlice(v.Type(), 1, 1)
			if v.Len() > 0 {
				s.Index(0).Set(v.Index(0))
			} else {
				jm.Fill(r, s.Index(0), jm.Opts{}) // a well-formed element (e.g. an initialised lruset.Set)
			}
			shapeAll(r, s.Index(0), empty)
			v.Set(s)
			return
		}
		if empty {
			v.Set(reflect.MakeSlice(v.Type(), 0, 0))
		} else {
			v.Set(reflect.Zero(v.Type()))
		}
	case reflect.Map:
		if composite(v.Type().Elem()) {
			m := reflect.MakeMap(v.Type())
			key := reflect.New(v.Type().Key()).Elem()
			val := reflect.New(v.Type().Elem()).Elem()
			if it := v.MapRange(); v.Len() > 0 && it.Next() {
				key.Set(it.Key())
				val.Set(it.Value())
			} else {
				jm.Fill(r, val, jm.Opts{})
			}
			shapeAll(r, val, empty)
			m.SetMapIndex(key, val)
			v.Set(m)
			return
		}
		if empty {
			v.Set(reflect.MakeMap(v.Type()))
		} else {
			v.Set(reflect.Zero(v.Type()))
		}
	case reflect.Array:
		for i := 0; i < v.Len(); i++ {
			shapeAll(r, v.Index(i), empty)
		}
	case reflect.Struct:
		for i := 0; i < v.NumField(); i++ {
			if jm.ParseField(v.Type().Field(i)).Skip {
				continue
			}
			f := v.Field(i)
			if !f.CanSet() {
				continue // private parts of the containers keep their generated shape
			}
			shapeAll(r, f, empty)
		}
	}
}

func hasInvalidUTF8(v reflect.Value) bool {
	switch v.Kind() {
	case reflect.String:
		return !utf8.ValidString(v.String())
	case reflect.Slice, reflect.Array:
		for i := 0; i < v.Len(); i++ {
			if hasInvalidUTF8(v.Index(i)) {
				return true
			}
		}
	case reflect.Map:
		it := v.MapRange()
		for it.Next() {
			if hasInvalidUTF8(it.Key()) || hasInvalidUTF8(it.Value()) {
				return true
			}
		}
	case reflect.Struct:
		for i := 0; i < v.NumField(); i++ {
			if jm.ParseField(v.Type().Field(i)).Skip {
				continue
			}
			if hasInvalidUTF8(v.Field(i)) {
				return true
			}
		}
	}
	return false
}

func makeValue(e *libtypes.Entry, in input) reflect.Value {
	r := hx.NewRand(in.Seed)
	switch in.Mode {
	case "zero":
		return reflect.New(e.Type).Elem()
	case "empty", "nil":
		v := jm.Rand(r, e.Type, jm.Opts{})
		shapeAll(r, v, in.Mode == "empty")
		return v
	case "badutf8":
		return jm.Rand(r, e.Type, jm.Opts{InvalidUTF8: true})
	}
	return jm.Rand(r, e.Type, jm.Opts{MaxLen: 2 + int(in.Seed%3)})
}


type recorder struct{ got []timing.Event }

func (h *recorder) Handle(e timing.Event) error { h.got = append(h.got, e); return nil }

// viaPort puts the messages, in order, into the incoming buffer of ONE real port,
// checkpoints the port, loads the checkpoint into a freshly built port and reads all the
// messages back (the whole buffer goes through a single EncodeSlice / DecodeSlice).
func viaPort(vs []reflect.Value) ([]reflect.Value, error) {
	a := messaging.NewPort(nil, 16, 16, "P")
	for _, v := range vs {
		msg, ok := v.Interface().(messaging.Msg)
		if !ok {
			return nil, fmt.Errorf("not a message")
		}
		a.Deliver(msg)
	}
	var buf bytes.Buffer
	if err := a.(checkpointable).SaveCheckpoint(&buf); err != nil {
		return nil, err
	}
	b := messaging.NewPort(nil, 16, 16, "P")
	if err := b.(checkpointable).LoadCheckpoint(&buf); err != nil {
		return nil, err
	}
	if b.NumIncoming() != len(vs) {
		return nil, fmt.Errorf("restored port holds %d messages, saved %d", b.NumIncoming(), len(vs))
	}
	var outs []reflect.Value
	for range vs {
		out := b.RetrieveIncoming()
		if out == nil {
			return nil, fmt.Errorf("restored port ran empty")
		}
		// the values are printed only after ALL of them were retrieved: messages restored
		// from one buffer must not share storage
		outs = append(outs, jm.Addressable(reflect.ValueOf(out)))
	}
	return outs, nil
}

// setSliceLens gives every slice that is not a byte slice, anywhere in v, exactly n fresh
// random elements.
func setSliceLens(r *hx.Rand, v reflect.Value, n int) {
	switch v.Kind() {
	case reflect.Slice:
		if v.Type().Elem().Kind() == reflect.Uint8 {
			return
		}
		s := reflect.MakeSlice(v.Type(), n, n)
		for i := 0; i < n; i++ {
			jm.Fill(r, s.Index(i), jm.Opts{MaxLen: 1})
		}
		v.Set(s)
	case reflect.Struct:
		for i := 0; i < v.NumField(); i++ {
			if jm.ParseField(v.Type().Field(i)).Skip || !v.Field(i).CanSet() {
				continue
			}
			setSliceLens(r, v.Field(i), n)
		}
	}
}

// makeRest builds the further same-type messages that share the buffer with the first one.
func makeRest(e *libtypes.Entry, in input, first reflect.Value) []reflect.Value {
	if in.N <= 1 || (in.Mode != "multi" && in.Mode != "shrink") {
		return nil
	}
	r := hx.NewRand(in.Seed ^ 0x5bd1e995)
	if in.Mode == "shrink" {
		setSliceLens(r, first, in.N)
	}
	var rest []reflect.Value
	for i := 1; i < in.N; i++ {
		v := jm.Rand(r, e.Type, jm.Opts{MaxLen: 3})
		if in.Mode == "shrink" {
			// later messages carry shorter (never empty) slices than the earlier ones
			setSliceLens(r, v, in.N-i)
		}
		rest = append(rest, v)
	}
	return rest
}

// viaEngine schedules the event in a real serial engine, checkpoints the engine, loads the
// checkpoint into a fresh engine and lets that engine dispatch the event to a recorder.
func viaEngine(v reflect.Value) (reflect.Value, error) {
	evt, ok := v.Interface().(timing.Event)
	if !ok {
		return reflect.Value{}, fmt.Errorf("not an event")
	}
	a := timing.NewSerialEngine()
	a.RegisterHandler(evt.HandlerID(), &recorder{})
	a.Schedule(evt)
	var buf bytes.Buffer
	if err := a.SaveCheckpoint(&buf); err != nil {
		return reflect.Value{}, err
	}
	b := timing.NewSerialEngine()
	rec := &recorder{}
	b.RegisterHandler(evt.HandlerID(), rec)
	if err := b.LoadCheckpoint(&buf); err != nil {
		return reflect.Value{}, err
	}
	if err := b.Run(); err != nil {
		return reflect.Value{}, err
	}
	if len(rec.got) != 1 {
		return reflect.Value{}, fmt.Errorf("restored engine dispatched %d events", len(rec.got))
	}
	return jm.Addressable(reflect.ValueOf(rec.got[0])), nil
}

func viaJSON(v reflect.Value) (reflect.Value, []byte, error) {
	b, err := json.Marshal(v.Interface())
	if err != nil {
		return reflect.Value{}, nil, fmt.Errorf("marshal: %w", err)
	}
	w := reflect.New(v.Type())
	if err := json.Unmarshal(b, w.Interface()); err != nil {
		return reflect.Value{}, b, fmt.Errorf("unmarshal: %w", err)
	}
	return w.Elem(), b, nil
}

func tagOf(t reflect.Type) string { return t.PkgPath() + "." + t.Name() }

// harvest runs a random REAL memory assembly (memasm: agent -> [rob] -> caches -> memory
// modules) and, after in.At engine events, takes the State of one of its components.
func harvest(in input) (*libtypes.Entry, reflect.Value, error) {
	r := hx.NewRand(in.Seed)
	cfg := memasm.RandomConfig(r, memasm.GenOpts{MaxCaches: 2, AllowROB: true, NOps: 30, PIDs: 2})
	a := memasm.Build(cfg)
	var comps []any
	if a.ROB != nil {
		comps = append(comps, a.ROB)
	}
	for i := range a.WB {
		if a.WB[i] != nil {
			comps = append(comps, a.WB[i])
		}
	}
	for i := range a.WT {
		if a.WT[i] != nil {
			comps = append(comps, a.WT[i])
		}
	}
	for _, c := range a.Ideal {
		if c != nil {
			comps = append(comps, c)
		}
	}
	for _, c := range a.Banked {
		if c != nil {
			comps = append(comps, c)
		}
	}
	for _, c := range a.DRAM {
		if c != nil {
			comps = append(comps, c)
		}
	}
	if len(comps) == 0 {
		return nil, reflect.Value{}, fmt.Errorf("assembly without components")
	}
	comp := reflect.ValueOf(comps[in.Which%len(comps)]).Elem()
	var snap reflect.Value
	take := func() {
		// deep copy through the real encoder is exactly what must not be assumed here:
		// copy structurally instead
		snap = deepCopy(comp.FieldByName("State"))
	}
	a.OnEvent(func(n int) {
		if n == in.At {
			take()
		}
	})
	a.Run()
	if !snap.IsValid() {
		take() // the run was shorter: the final state
	}
	for _, e := range libtypes.All() {
		if e.Kind == "state" && e.Type == snap.Type() {
			e := e
			return &e, snap, nil
		}
	}
	return nil, reflect.Value{}, fmt.Errorf("state type %s is not a library type", snap.Type())
}

// deepCopy copies a value structurally (slices, maps and the private parts of the
// containers included), so that the snapshot is not changed by the rest of the run.
func deepCopy(v reflect.Value) reflect.Value {
	out := reflect.New(v.Type()).Elem()
	copyInto(out, jm.Addressable(v))
	return out
}

func copyInto(dst, src reflect.Value) {
	switch src.Kind() {
	case reflect.Slice:
		if src.IsNil() {
			return
		}
		s := reflect.MakeSlice(src.Type(), src.Len(), src.Len())
		for i := 0; i < src.Len(); i++ {
			copyInto(s.Index(i), src.Index(i))
		}
		dst.Set(s)
	case reflect.Array:
		for i := 0; i < src.Len(); i++ {
			copyInto(dst.Index(i), src.Index(i))
		}
	case reflect.Map:
		if src.IsNil() {
			return
		}
		m := reflect.MakeMap(src.Type())
		it := src.MapRange()
		for it.Next() {
			val := reflect.New(src.Type().Elem()).Elem()
			copyInto(val, jm.Addressable(it.Value()))
			m.SetMapIndex(it.Key(), val)
		}
		dst.Set(m)
	case reflect.Struct:
		for i := 0; i < src.NumField(); i++ {
			if jm.ParseField(src.Type().Field(i)).Skip {
				continue
			}
			copyInto(jm.Field(dst, i), jm.Field(src, i))
		}
	case reflect.Pointer, reflect.Interface, reflect.Chan, reflect.Func:
	default:
		dst.Set(src)
	}
}

func run(raw json.RawMessage) (hx.Case, error) {
	var in input
	if err := hx.UJ(raw, &in); err != nil {
		return hx.Case{}, err
	}
	var e *libtypes.Entry
	var v reflect.Value
	if in.Mode == "harvest" {
		var err error
		if e, v, err = harvest(in); err != nil {
			return hx.Case{}, err
		}
	} else {
		if e = libtypes.Lookup(in.Type); e == nil {
			return hx.Case{}, fmt.Errorf("unknown library type %q", in.Type)
		}
		v = makeValue(e, in)
	}
	idx := -1
	for i, x := range libtypes.All() {
		if x.Name == e.Name {
			idx = i
		}
	}
	rest := makeRest(e, in, v)
	before := jm.ValueTerm(v)
	restBefore := make([]string, len(rest))
	for i, x := range rest {
		restBefore[i] = jm.ValueTerm(x)
	}
	var out reflect.Value
	var outs []reflect.Value
	var doc []byte
	var err error
	panicked, msg := hx.Try(func() {
		switch in.Route {
		case 1:
			outs, err = viaPort(append([]reflect.Value{v}, rest...))
			if err == nil {
				out = outs[0]
			}
		case 2:
			out, err = viaEngine(v)
		case 3:
			var prior reflect.Value
			if in.Prior != 0 {
				// a different, populated value of the same State type (maps and slices non-empty)
				prior = jm.Rand(hx.NewRand(in.Prior), e.Type, jm.Opts{MaxLen: 3})
			}
			out, err = e.Via(v, prior)
		default:
			out, doc, err = viaJSON(v)
		}
	})
	if panicked {
		err = fmt.Errorf("panic: %s", msg)
	}
	o := obs{JSON: string(doc)}
	dec, otag, ojson := "None", "[]", "None"
	restAfter := make([]string, len(rest))
	for i := range restAfter {
		restAfter[i] = "None"
	}
	if err != nil {
		o.Err = err.Error()
	} else {
		after := jm.ValueTerm(out)
		dec = hx.Some(after)
		otag = hx.Str(tagOf(out.Type()))
		o.Same = after == before
		o.TypeOut = out.Type().String()
		for i := range rest {
			t := jm.ValueTerm(outs[i+1])
			restAfter[i] = hx.Some(t)
			if t != restBefore[i] || outs[i+1].Type() != e.Type {
				o.Same = false
			}
		}
	}
	if doc != nil {
		if jt, jerr := jm.JSONTerm(doc); jerr == nil {
			ojson = hx.Some(jt)
		}
	}
	c := hx.Case{Obs: o}
	c.Coq = hx.App("mk_case", "true", hx.N(uint64(in.Route)), hx.Str(tagOf(e.Type)),
		fmt.Sprintf("gt_%d", idx), before, hx.L(restBefore), ojson, dec, hx.L(restAfter), otag)
	if hasInvalidUTF8(v) {
		c.Known = "invalid_utf8_string"
	}
	c.Tags = []string{"kind:" + e.Kind, fmt.Sprintf("route:%d", in.Route), "mode:" + in.Mode}
	if in.Prior != 0 {
		c.Tags = append(c.Tags, "load-into:populated-state")
	}
	if o.Err != "" {
		c.Tags = append(c.Tags, "outcome:error")
	} else if o.Same {
		c.Tags = append(c.Tags, "outcome:equal")
	} else {
		c.Tags = append(c.Tags, "outcome:altered")
	}
	// non-trivial: a value that is not the zero value of its type
	c.Nontrivial = !v.IsZero()
	return c, nil
}

func gen(r *hx.Rand, tier string) []json.RawMessage {
	k := 2
	if tier == "thorough" {
		k = 40
	}
	var out []json.RawMessage
	add := func(in input) { out = append(out, hx.J(in)) }
	for _, e := range libtypes.All() {
		routes := []int{0}
		switch e.Kind {
		case "msg":
			routes = append(routes, 1)
		case "event":
			routes = append(routes, 2)
		case "state":
			routes = append(routes, 3)
		}
		for _, rt := range routes {
			for _, m := range []string{"zero", "empty", "nil"} {
				add(input{Type: e.Name, Route: rt, Mode: m, Seed: r.U64()})
			}
			for i := 0; i < k; i++ {
				add(input{Type: e.Name, Route: rt, Mode: "rand", Seed: r.U64()})
			}
			if rt == 3 { // load into a rebuilt component whose State is already populated
				for _, m := range []string{"zero", "empty", "rand", "rand"} {
					add(input{Type: e.Name, Route: 3, Mode: m, Seed: r.U64(), Prior: 1 + r.U64()>>1})
				}
			}
		}
		// several messages of ONE type in ONE port buffer (a buffer is one EncodeSlice /
		// DecodeSlice): random ones, and ones whose slice fields get shorter message by message
		if e.Kind == "msg" {
			add(input{Type: e.Name, Route: 1, Mode: "multi", N: 2 + r.Intn(3), Seed: r.U64()})
			add(input{Type: e.Name, Route: 1, Mode: "shrink", N: 3 + r.Intn(2), Seed: r.U64()})
			if tier == "thorough" {
				for i := 0; i < 6; i++ {
					add(input{Type: e.Name, Route: 1, Mode: []string{"multi", "shrink"}[i%2], N: 2 + r.Intn(4), Seed: r.U64()})
				}
			}
		}
		// malformed stream: strings that are not valid UTF-8 (a small share)
		if r.Chance(1, 4) {
			add(input{Type: e.Name, Route: 0, Mode: "badutf8", Seed: r.U64()})
		}
	}
	// states reached by real workloads: random memory assemblies, State of a random component
	// harvested after a random number of engine events
	nh := 24
	if tier == "thorough" {
		nh = 400
	}
	for i := 0; i < nh; i++ {
		in := input{Mode: "harvest", Route: []int{0, 3}[i%2], Seed: r.U64(), At: 1 + r.Intn(400), Which: r.Intn(8)}
		if i%4 == 3 {
			in.Prior = 1 + r.U64()>>1
		}
		add(in)
	}
	return out
}

func shrink(raw json.RawMessage) []json.RawMessage {
	var in input
	if hx.UJ(raw, &in) != nil {
		return nil
	}
	var out []json.RawMessage
	if in.Mode == "rand" {
		for _, m := range []string{"empty", "nil", "zero"} {
			c := in
			c.Mode = m
			out = append(out, hx.J(c))
		}
	}
	if in.Route != 0 {
		c := in
		c.Route = 0
		out = append(out, hx.J(c))
	}
	return out
}

func init() {
	hx.Register(&hx.Prop{
		ID:      "C08",
		Imports: "From Akita Require Import Lib.Base Lib.Json C08.Exec.\nRequire Import GenTypes.",
		Rule: "for EVERY library type found by reflection (messages of every DefineProtocol, RegisterEvent types, component Spec and " +
			"State types): the zero value, a value with every slice/map empty-but-non-nil, one with every slice/map nil, and random values " +
			"(nil/empty/non-empty slices and maps, extreme integers, multi-byte and control-character strings, random bytes) through " +
			"json.Marshal/Unmarshal (the document itself is compared with the model) and through the real port checkpoint (messages), " +
			"serial-engine checkpoint (events) and modeling.Component checkpoint (States; loaded both into a freshly built component and into a rebuilt one whose State is already populated with another value - LoadCheckpoint must replace, not merge); for every message type also 2-5 messages of " +
			"that type in ONE port buffer (random, and with slice fields shrinking message by message), read back only after all were " +
			"restored; lruset.Set values reached by real NewSet/Visit/Evict/UpdateKey histories (incl. evicted-not-yet-visited ways); States HARVESTED from real workloads (random memasm " +
			"assemblies agent -> [rob] -> caches -> ideal/banked/DRAM memory, State of a random component after a random number of engine " +
			"events); a small malformed share with invalid UTF-8 strings. " +
			"Non-trivial: the value is not the zero value of its type. Distinct = distinct input hash.",
		Gen: gen, Run: run, Shrink: shrink,
	})
}
