// Package c08 ties Lib/Json.v + C08/Model.v to the real checkpoint encodings: values of
// every library message / event / Spec / State type go through json.Marshal/Unmarshal, and
// through the real port, serial-engine and component checkpoints.
package c08

import (
	"bytes"
	"encoding/json"
	"fmt"
	"io"
	"reflect"
	"unicode/utf8"

	"github.com/sarchlab/akita/v5/messaging"
	"github.com/sarchlab/akita/v5/timing"

	"verifharness/internal/hx"
	"verifharness/internal/jm"
	"verifharness/internal/libtypes"
)

type input struct {
	Type  string `json:"type"`  // libtypes entry name
	Route int    `json:"route"` // 0 json, 1 port, 2 engine, 3 component
	Mode  string `json:"mode"`  // rand | zero | empty | nil | badutf8
	Seed  uint64 `json:"seed"`
}

type obs struct {
	JSON    string `json:"json,omitempty"`
	Err     string `json:"err,omitempty"`
	Same    bool   `json:"same"`
	TypeOut string `json:"type_out,omitempty"`
}

type checkpointable interface {
	SaveCheckpoint(w io.Writer) error
	LoadCheckpoint(r io.Reader) error
}

// shapeAll sets every slice / map in v to nil (mode "nil") or to empty non-nil ("empty").
func shapeAll(v reflect.Value, empty bool) {
	switch v.Kind() {
	case reflect.Slice:
		if empty {
			v.Set(reflect.MakeSlice(v.Type(), 0, 0))
		} else {
			v.Set(reflect.Zero(v.Type()))
		}
	case reflect.Map:
		if empty {
			v.Set(reflect.MakeMap(v.Type()))
		} else {
			v.Set(reflect.Zero(v.Type()))
		}
	case reflect.Array:
		for i := 0; i < v.Len(); i++ {
			shapeAll(v.Index(i), empty)
		}
	case reflect.Struct:
		for i := 0; i < v.NumField(); i++ {
			if jm.ParseField(v.Type().Field(i)).Skip {
				continue
			}
			f := v.Field(i)
			if !f.CanSet() {
				continue // private parts of the containers keep their generated shape
			}
			shapeAll(f, empty)
		}
	}
}

func hasInvalidUTF8(v reflect.Value) bool {
	switch v.Kind() {
	case reflect.String:
		return !utf8.ValidString(v.String())
	case reflect.Slice, reflect.Array:
		for i := 0; i < v.Len(); i++ {
			if hasInvalidUTF8(v.Index(i)) {
				return true
			}
		}
	case reflect.Map:
		it := v.MapRange()
		for it.Next() {
			if hasInvalidUTF8(it.Key()) || hasInvalidUTF8(it.Value()) {
				return true
			}
		}
	case reflect.Struct:
		for i := 0; i < v.NumField(); i++ {
			if jm.ParseField(v.Type().Field(i)).Skip {
				continue
			}
			if hasInvalidUTF8(v.Field(i)) {
				return true
			}
		}
	}
	return false
}

func makeValue(e *libtypes.Entry, in input) reflect.Value {
	r := hx.NewRand(in.Seed)
	switch in.Mode {
	case "zero":
		return reflect.New(e.Type).Elem()
	case "empty", "nil":
		v := jm.Rand(r, e.Type, jm.Opts{})
		shapeAll(v, in.Mode == "empty")
		return v
	case "badutf8":
		return jm.Rand(r, e.Type, jm.Opts{InvalidUTF8: true})
	}
	return jm.Rand(r, e.Type, jm.Opts{MaxLen: 2 + int(in.Seed%3)})
}

type recorder struct{ got []timing.Event }

func (h *recorder) Handle(e timing.Event) error { h.got = append(h.got, e); return nil }

// viaPort puts the message into the incoming buffer of a real port, checkpoints the
// port, loads the checkpoint into a freshly built port and reads the message back.
func viaPort(v reflect.Value) (reflect.Value, error) {
	msg, ok := v.Interface().(messaging.Msg)
	if !ok {
		return reflect.Value{}, fmt.Errorf("not a message")
	}
	a := messaging.NewPort(nil, 4, 4, "P")
	a.Deliver(msg)
	var buf bytes.Buffer
	if err := a.(checkpointable).SaveCheckpoint(&buf); err != nil {
		return reflect.Value{}, err
	}
	b := messaging.NewPort(nil, 4, 4, "P")
	if err := b.(checkpointable).LoadCheckpoint(&buf); err != nil {
		return reflect.Value{}, err
	}
	out := b.PeekIncoming()
	if out == nil {
		return reflect.Value{}, fmt.Errorf("restored port is empty")
	}
	return jm.Addressable(reflect.ValueOf(out)), nil
}

// viaEngine schedules the event in a real serial engine, checkpoints the engine, loads the
// checkpoint into a fresh engine and lets that engine dispatch the event to a recorder.
func viaEngine(v reflect.Value) (reflect.Value, error) {
	evt, ok := v.Interface().(timing.Event)
	if !ok {
		return reflect.Value{}, fmt.Errorf("not an event")
	}
	a := timing.NewSerialEngine()
	a.RegisterHandler(evt.HandlerID(), &recorder{})
	a.Schedule(evt)
	var buf bytes.Buffer
	if err := a.SaveCheckpoint(&buf); err != nil {
		return reflect.Value{}, err
	}
	b := timing.NewSerialEngine()
	rec := &recorder{}
	b.RegisterHandler(evt.HandlerID(), rec)
	if err := b.LoadCheckpoint(&buf); err != nil {
		return reflect.Value{}, err
	}
	if err := b.Run(); err != nil {
		return reflect.Value{}, err
	}
	if len(rec.got) != 1 {
		return reflect.Value{}, fmt.Errorf("restored engine dispatched %d events", len(rec.got))
	}
	return jm.Addressable(reflect.ValueOf(rec.got[0])), nil
}

func viaJSON(v reflect.Value) (reflect.Value, []byte, error) {
	b, err := json.Marshal(v.Interface())
	if err != nil {
		return reflect.Value{}, nil, fmt.Errorf("marshal: %w", err)
	}
	w := reflect.New(v.Type())
	if err := json.Unmarshal(b, w.Interface()); err != nil {
		return reflect.Value{}, b, fmt.Errorf("unmarshal: %w", err)
	}
	return w.Elem(), b, nil
}

func tagOf(t reflect.Type) string { return t.PkgPath() + "." + t.Name() }

func run(raw json.RawMessage) (hx.Case, error) {
	var in input
	if err := hx.UJ(raw, &in); err != nil {
		return hx.Case{}, err
	}
	e := libtypes.Lookup(in.Type)
	if e == nil {
		return hx.Case{}, fmt.Errorf("unknown library type %q", in.Type)
	}
	idx := -1
	for i, x := range libtypes.All() {
		if x.Name == in.Type {
			idx = i
		}
	}
	v := makeValue(e, in)
	before := jm.ValueTerm(v)
	var out reflect.Value
	var doc []byte
	var err error
	panicked, msg := hx.Try(func() {
		switch in.Route {
		case 1:
			out, err = viaPort(v)
		case 2:
			out, err = viaEngine(v)
		case 3:
			out, err = e.Via(v)
		default:
			out, doc, err = viaJSON(v)
		}
	})
	if panicked {
		err = fmt.Errorf("panic: %s", msg)
	}
	o := obs{JSON: string(doc)}
	dec, otag, ojson := "None", "[]", "None"
	if err != nil {
		o.Err = err.Error()
	} else {
		after := jm.ValueTerm(out)
		dec = hx.Some(after)
		otag = hx.Str(tagOf(out.Type()))
		o.Same = after == before
		o.TypeOut = out.Type().String()
	}
	if doc != nil {
		if jt, jerr := jm.JSONTerm(doc); jerr == nil {
			ojson = hx.Some(jt)
		}
	}
	c := hx.Case{Obs: o}
	c.Coq = hx.App("mk_case", "true", hx.N(uint64(in.Route)), hx.Str(tagOf(e.Type)),
		fmt.Sprintf("gt_%d", idx), before, ojson, dec, otag)
	if hasInvalidUTF8(v) {
		c.Known = "invalid_utf8_string"
	}
	c.Tags = []string{"kind:" + e.Kind, fmt.Sprintf("route:%d", in.Route), "mode:" + in.Mode}
	if o.Err != "" {
		c.Tags = append(c.Tags, "outcome:error")
	} else if o.Same {
		c.Tags = append(c.Tags, "outcome:equal")
	} else {
		c.Tags = append(c.Tags, "outcome:altered")
	}
	// non-trivial: a value that is not the zero value of its type
	c.Nontrivial = !v.IsZero()
	return c, nil
}

func gen(r *hx.Rand, tier string) []json.RawMessage {
	k := 3
	if tier == "thorough" {
		k = 40
	}
	var out []json.RawMessage
	add := func(in input) { out = append(out, hx.J(in)) }
	for _, e := range libtypes.All() {
		routes := []int{0}
		switch e.Kind {
		case "msg":
			routes = append(routes, 1)
		case "event":
			routes = append(routes, 2)
		case "state":
			routes = append(routes, 3)
		}
		for _, rt := range routes {
			for _, m := range []string{"zero", "empty", "nil"} {
				add(input{Type: e.Name, Route: rt, Mode: m, Seed: r.U64()})
			}
			for i := 0; i < k; i++ {
				add(input{Type: e.Name, Route: rt, Mode: "rand", Seed: r.U64()})
			}
		}
		// malformed stream: strings that are not valid UTF-8 (a small share)
		if r.Chance(1, 4) {
			add(input{Type: e.Name, Route: 0, Mode: "badutf8", Seed: r.U64()})
		}
	}
	return out
}

func shrink(raw json.RawMessage) []json.RawMessage {
	var in input
	if hx.UJ(raw, &in) != nil {
		return nil
	}
	var out []json.RawMessage
	if in.Mode == "rand" {
		for _, m := range []string{"empty", "nil", "zero"} {
			c := in
			c.Mode = m
			out = append(out, hx.J(c))
		}
	}
	if in.Route != 0 {
		c := in
		c.Route = 0
		out = append(out, hx.J(c))
	}
	return out
}

func init() {
	hx.Register(&hx.Prop{
		ID:      "C08",
		Imports: "From Akita Require Import Lib.Base Lib.Json C08.Exec.\nRequire Import GenTypes.",
		Rule: "for EVERY library type found by reflection (messages of every DefineProtocol, RegisterEvent types, component Spec and " +
			"State types): the zero value, a value with every slice/map empty-but-non-nil, one with every slice/map nil, and random values " +
			"(nil/empty/non-empty slices and maps, extreme integers, multi-byte and control-character strings, random bytes) through " +
			"json.Marshal/Unmarshal (the document itself is compared with the model) and through the real port checkpoint (messages), " +
			"serial-engine checkpoint (events) and modeling.Component checkpoint (States); a small malformed share with invalid UTF-8 strings. " +
			"Non-trivial: the value is not the zero value of its type. Distinct = distinct input hash.",
		Gen: gen, Run: run, Shrink: shrink,
	})
}
