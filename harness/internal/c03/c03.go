package c03

import (
	"database/sql"
	"encoding/json"
	"fmt"
	"os"
	"os/exec"
	"path/filepath"
	"strings"

	_ "github.com/glebarez/go-sqlite"
	"github.com/sarchlab/akita/v5/datarecording"

	"verifharness/internal/asm"
	"verifharness/internal/c06"
	"verifharness/internal/c29"
	"verifharness/internal/hx"
)

// Subcommands handled before hx.Main (fresh-process runs and the translator):
//
//	<self> mapsites <repo>        -> JSON list of sites
//	<self> c03run script <file>   -> JSON {trace, final}
//	<self> c03run lib <file>      -> JSON {fp}
func init() {
	if len(os.Args) > 2 && os.Args[1] == "mapsites" {
		sites, err := ListSites(os.Args[2])
		if err != nil {
			fmt.Fprintln(os.Stderr, err)
			os.Exit(1)
		}
		for i := range sites {
			if strings.HasPrefix(sites[i].Expr, "func(") {
				sites[i].Expr = "func-literal"
			}
		}
		json.NewEncoder(os.Stdout).Encode(sites)
		os.Exit(0)
	}
	if len(os.Args) > 3 && os.Args[1] == "c03run" {
		raw, err := os.ReadFile(os.Args[3])
		if err != nil {
			panic(err)
		}
		switch os.Args[2] {
		case "script":
			var in c06.ScriptInput
			json.Unmarshal(raw, &in)
			s := c06.BuildScriptSim(&in)
			s.ScheduleInits(&in)
			s.Engine().Run()
			json.NewEncoder(os.Stdout).Encode(map[string]any{"trace": s.Trace(), "final": s.FinalState()})
			s.Close()
		case "lib":
			var cfg asm.Config
			json.Unmarshal(raw, &cfg)
			s := asm.Build(&cfg, asm.Options{EventTrace: true})
			s.Start()
			s.Engine.Run()
			fp := append([]uint64{}, s.Trace.Hashes...)
			p, err := s.Payloads()
			if err != nil {
				panic(err)
			}
			names, hs := asm.PayloadHashes(p)
			fp = append(fp, hs...)
			for _, r := range s.Logs() {
				fp = append(fp, uint64(int64(r.Op)+2000), uint64(r.Data), r.Time)
			}
			json.NewEncoder(os.Stdout).Encode(map[string]any{"fp": fp, "entities": names, "events": len(s.Trace.Hashes),
				"done": s.Done()})
			s.Close()
		case "net":
			var in c29.Input
			json.Unmarshal(raw, &in)
			n := c29.BuildNet(in)
			n.TraceEvents()
			n.Run()
			// the handled-event trace (time, handler, class per event) can be tens of thousands
			// of entries: one chained digest per 256 events, and the count
			ev := n.EventTrace()
			fp := []uint64{uint64(len(ev) / 3)}
			h := uint64(1469598103934665603)
			for i, x := range ev {
				h = (h ^ x) * 1099511628211
				if (i+1)%768 == 0 || i == len(ev)-1 {
					fp = append(fp, h>>2)
				}
			}
			fp = append(fp, n.Fingerprint()...)
			json.NewEncoder(os.Stdout).Encode(map[string]any{"fp": fp, "events": len(n.EventTrace()) / 3, "done": true})
		}
		os.Exit(0)
	}
}

func subRun(kind string, v any, gomaxprocs int) []byte {
	dir, err := os.MkdirTemp(asm.TmpBase(), "c03-")
	if err != nil {
		panic(err)
	}
	defer os.RemoveAll(dir)
	f := filepath.Join(dir, "in.json")
	raw, _ := json.Marshal(v)
	os.WriteFile(f, raw, 0o644)
	cmd := exec.Command(os.Args[0], "c03run", kind, f)
	cmd.Env = append(os.Environ(), fmt.Sprintf("GOMAXPROCS=%d", gomaxprocs))
	cmd.Stderr = os.Stderr
	out, err := cmd.Output()
	if err != nil {
		// a crash of the implementation in this process is an outcome, not a harness error
		b, _ := json.Marshal(map[string]any{"fp": []uint64{999999999, asm.H62(err.Error())}, "trace": []any{}, "crashed": err.Error()})
		return b
	}
	return out
}

type scriptIn struct {
	Kind   string          `json:"kind"`
	Script c06.ScriptInput `json:"script"`
}
type libIn struct {
	Kind string      `json:"kind"`
	Cfg  *asm.Config `json:"cfg"`
}
type netIn struct {
	Kind string    `json:"kind"`
	Net  c29.Input `json:"net"`
}
type recIn struct {
	Kind   string   `json:"kind"`
	Tables int      `json:"tables"`
	Locs   []string `json:"locs"` // entry i goes to table i % Tables with location Locs[i]
	Runs   int      `json:"runs"`
	Batch  int      `json:"batch"` // flush after every Batch inserts (0 = only at close)
}

var procs = []int{16, 1, 4}

type recA struct {
	X   int
	Loc string `akita_data:"location"`
}

// runRecorder feeds the same entries to a fresh data recorder and returns the
// location table and every table's rows, flattened to numbers.
func runRecorder(in *recIn, run int) []uint64 {
	dir, err := os.MkdirTemp(asm.TmpBase(), "c03rec-")
	if err != nil {
		panic(err)
	}
	defer os.RemoveAll(dir)
	p := filepath.Join(dir, fmt.Sprintf("r%d", run))
	r := datarecording.NewDataRecorder(p)
	// create the tables in a run-dependent order: creation order must not matter
	for k := 0; k < in.Tables; k++ {
		t := (k + run) % in.Tables
		r.CreateTable(fmt.Sprintf("t%02d", t), recA{})
	}
	for i, l := range in.Locs {
		r.InsertData(fmt.Sprintf("t%02d", i%in.Tables), recA{i, l})
		if in.Batch > 0 && (i+1)%in.Batch == 0 {
			r.Flush()
		}
	}
	r.Close()
	db, err := sql.Open("sqlite", p+".sqlite3")
	if err != nil {
		panic(err)
	}
	defer db.Close()
	var out []uint64
	rows, err := db.Query("SELECT ID, Locale FROM location ORDER BY ID")
	if err != nil {
		panic(err)
	}
	for rows.Next() {
		var id uint64
		var l string
		rows.Scan(&id, &l)
		out = append(out, id, asm.H62(l))
	}
	rows.Close()
	for t := 0; t < in.Tables; t++ {
		rows, err := db.Query(fmt.Sprintf("SELECT X, Loc FROM t%02d ORDER BY X", t))
		if err != nil {
			panic(err)
		}
		for rows.Next() {
			var x, loc uint64
			rows.Scan(&x, &loc)
			out = append(out, x, loc)
		}
		rows.Close()
	}
	return out
}

type kindOnly struct {
	Kind string `json:"kind"`
}

func run(raw json.RawMessage) (hx.Case, error) {
	var k kindOnly
	if err := hx.UJ(raw, &k); err != nil {
		return hx.Case{}, err
	}
	switch k.Kind {
	case "script":
		var in scriptIn
		if err := hx.UJ(raw, &in); err != nil {
			return hx.Case{}, err
		}
		var traces, fins []string
		n := 0
		for _, gp := range procs {
			var o struct {
				Trace []c06.Rec `json:"trace"`
				Final c06.Final `json:"final"`
			}
			if err := json.Unmarshal(subRun("script", in.Script, gp), &o); err != nil {
				return hx.Case{}, err
			}
			traces = append(traces, c06.RecsCoq(o.Trace))
			fins = append(fins, c06.FinalCoq(o.Final))
			n = len(o.Trace)
		}
		sc, is := c06.ScriptPartsCoq(&in.Script)
		c := hx.Case{Obs: map[string]any{"events": n, "processes": len(procs)}}
		c.Coq = hx.App("ProcScript", hx.Nat(in.Script.NH), sc, is, hx.Nat(n+8), hx.L(traces), hx.L(fins))
		c.Nontrivial = n >= 3
		c.Tags = []string{"script"}
		return c, nil
	case "lib":
		var in libIn
		if err := hx.UJ(raw, &in); err != nil {
			return hx.Case{}, err
		}
		var fps []string
		obs := map[string]any{}
		for _, gp := range procs {
			var o struct {
				FP     []uint64 `json:"fp"`
				Events int      `json:"events"`
				Done   bool     `json:"done"`
			}
			if err := json.Unmarshal(subRun("lib", in.Cfg, gp), &o); err != nil {
				return hx.Case{}, err
			}
			fps = append(fps, hx.LN(o.FP))
			obs[fmt.Sprintf("GOMAXPROCS=%d", gp)] = map[string]any{"events": o.Events, "done": o.Done, "fp_len": len(o.FP)}
		}
		c := hx.Case{Obs: obs, Coq: hx.App("ProcLib", hx.L(fps))}
		c.Nontrivial = true
		c.Tags = []string{"lib:" + in.Cfg.Kind}
		return c, nil
	case "net":
		var in netIn
		if err := hx.UJ(raw, &in); err != nil {
			return hx.Case{}, err
		}
		var fps []string
		obs := map[string]any{}
		events := 0
		for _, gp := range procs {
			var o struct {
				FP     []uint64 `json:"fp"`
				Events int      `json:"events"`
			}
			if err := json.Unmarshal(subRun("net", in.Net, gp), &o); err != nil {
				return hx.Case{}, err
			}
			fps = append(fps, hx.LN(o.FP))
			events = o.Events
			obs[fmt.Sprintf("GOMAXPROCS=%d", gp)] = map[string]any{"events": o.Events, "fp_len": len(o.FP)}
		}
		c := hx.Case{Obs: obs, Coq: hx.App("ProcLib", hx.L(fps))}
		c.Nontrivial = events >= 10
		c.Tags = []string{"net:" + in.Net.Topo}
		return c, nil
	case "recorder":
		var in recIn
		if err := hx.UJ(raw, &in); err != nil {
			return hx.Case{}, err
		}
		var tabs []string
		for i := 0; i < in.Runs; i++ {
			tabs = append(tabs, hx.LN(runRecorder(&in, i)))
		}
		distinct := map[string]bool{}
		for _, l := range in.Locs {
			distinct[l] = true
		}
		c := hx.Case{Obs: map[string]any{"runs": in.Runs, "tables": in.Tables, "entries": len(in.Locs)},
			Coq: hx.App("Recorder", hx.L(tabs))}
		c.Nontrivial = in.Tables >= 2 && len(distinct) >= 2
		c.Tags = []string{"recorder"}
		return c, nil
	}
	return hx.Case{}, fmt.Errorf("unknown kind %q", k.Kind)
}

func gen(r *hx.Rand, tier string) []json.RawMessage {
	nScripts, nLib, nRec, nops := 12, 8, 6, 12
	if tier == "thorough" {
		nScripts, nLib, nRec, nops = 120, 64, 40, 24
	}
	var out []json.RawMessage
	// regression: three location-bearing tables flushed in one batch
	out = append(out, hx.J(recIn{Kind: "recorder", Tables: 3, Locs: []string{"alpha", "beta", "gamma"}, Runs: 12}))
	for i := 0; i < nRec; i++ {
		nt := r.Range(2, 6)
		n := r.Range(nt, 4*nt)
		var locs []string
		for j := 0; j < n; j++ {
			locs = append(locs, fmt.Sprintf("GPU[%d].L%d", r.Intn(4), r.Intn(3)))
		}
		out = append(out, hx.J(recIn{Kind: "recorder", Tables: nt, Locs: locs, Runs: 8, Batch: r.Intn(2) * r.Range(2, 5)}))
	}
	for i := 0; i < nScripts; i++ {
		out = append(out, hx.J(scriptIn{Kind: "script", Script: *c06.GenScript(r)}))
	}
	for _, k := range []string{"wb", "wtwb", "wbdram"} { // directed: filtered flush of several dirty lines
		out = append(out, hx.J(libIn{Kind: "lib", Cfg: asm.FlushConfig(r, k, r.Range(4, 8))}))
	}
	for rep := 0; rep < 3; rep++ { // directed: contended connection (several draws per kind)
		for _, k := range []string{"ideal", "wb", "banked", "wt"} {
			out = append(out, hx.J(libIn{Kind: "lib", Cfg: asm.ContendedConfig(r, k, nops+4*rep)}))
		}
	}
	for i := 0; i < nLib; i++ {
		out = append(out, hx.J(libIn{Kind: "lib", Cfg: asm.GenConfig(r, asm.Kinds[i%len(asm.Kinds)], nops)}))
	}
	// real networks: one-switch contention, then every connector family
	out = append(out, hx.J(netIn{Kind: "net", Net: c29.ContendedNet(r, 3, 2)}))
	nNet := 5
	if tier == "thorough" {
		nNet = 50
	}
	for i := 0; i < nNet; i++ {
		out = append(out, hx.J(netIn{Kind: "net", Net: c29.GenNet(r, i)}))
	}
	return out
}

func init() {
	hx.Register(&hx.Prop{
		ID:      "C03",
		Imports: "From Akita Require Import Lib.Base Lib.AbsSim C06.Model C06.Exec C03.Exec.",
		Rule: "each scripted simulation and each library assembly (ideal, wt, wb, wt+wb, banked, vm stack, dram, wb+dram) is run in 3 FRESH " +
			"PROCESSES (GOMAXPROCS 16, 1, 4); compared: the handled-event trace incl. generated IDs, every entity's final checkpoint payload, " +
			"the driver's response log (scripts: also against the Coq model); real networks (switches + endpoints of every connector family with scripted devices) likewise: handled-event trace (time, handler, class; chained digests of 256 events) and every device-port hand-over/arrival with its time. Recorder cases feed the same entries to 8-12 fresh data recorders " +
			"(table creation order rotated) and compare location IDs and rows. Non-trivial: script with >= 3 events; every library case; " +
			"recorder with >= 2 tables and >= 2 distinct locations.",
		Gen: gen, Run: run, Shrink: shrink,
	})
}

func shrink(raw json.RawMessage) []json.RawMessage {
	var k kindOnly
	if hx.UJ(raw, &k) != nil {
		return nil
	}
	var out []json.RawMessage
	switch k.Kind {
	case "lib":
		var in libIn
		if hx.UJ(raw, &in) != nil {
			return nil
		}
		for _, c := range asm.ShrinkConfigs(in.Cfg) {
			out = append(out, hx.J(libIn{Kind: "lib", Cfg: c}))
		}
	case "net": // drop messages from the end
		var in netIn
		if hx.UJ(raw, &in) != nil {
			return nil
		}
		if len(in.Net.Msgs) > 2 {
			c := in
			c.Net.Msgs = append([]c29.Msg{}, in.Net.Msgs[:len(in.Net.Msgs)/2]...)
			out = append(out, hx.J(c))
			c2 := in
			c2.Net.Msgs = append([]c29.Msg{}, in.Net.Msgs[:len(in.Net.Msgs)-1]...)
			out = append(out, hx.J(c2))
		}
	case "recorder":
		var in recIn
		if hx.UJ(raw, &in) != nil {
			return nil
		}
		if len(in.Locs) > 2 {
			c := in
			c.Locs = in.Locs[:len(in.Locs)-1]
			out = append(out, hx.J(c))
		}
		if in.Tables > 2 {
			c := in
			c.Tables--
			out = append(out, hx.J(c))
		}
	}
	return out
}
