// Package c03: determinism of serial simulations.
//
// sites.go is the TRANSLATOR part: it type-checks every non-test library package
// of the repository under check and lists (a) every `range` over a map-typed
// expression, (b) every `go` statement, (c) every use of time.Now/time.Since,
// math/rand and crypto/rand, (d) every `select` statement — the places where a
// result could depend on map iteration order, goroutine scheduling or the wall
// clock.  The list is emitted as Coq data and compared, inside Coq, with the
// registry of classified sites in coq/theories/C03/Sites.v.
package c03

import (
	"bytes"
	"fmt"
	"go/ast"
	"go/printer"
	"go/token"
	"go/types"
	"os"
	"sort"
	"strings"

	"golang.org/x/tools/go/packages"
)

// Site is one nondeterminism-relevant construct.
type Site struct {
	Kind string `json:"kind"` // maprange | go | wallclock | rand | select
	Pkg  string `json:"pkg"`  // package path relative to the module
	Func string `json:"func"` // enclosing function (Recv.Name or Name)
	Expr string `json:"expr"` // ranged expression / callee, printed
	N    int    `json:"n"`    // occurrence index of (kind, expr) within the function
	// Shape (map ranges only): "collect-sort" = the loop body only appends the key
	// to a slice and the function then sorts that slice (sort.* / slices.Sort*);
	// "collect-nosort" = only appends the key, no sort follows; "loop" = anything else.
	Shape string `json:"shape"`
}

// Key is the stable identity of a site (no line numbers).
func (s Site) Key() string {
	return fmt.Sprintf("%s|%s|%s|%s|%d|%s", s.Kind, s.Pkg, s.Func, s.Expr, s.N, s.Shape)
}

func exprString(fset *token.FileSet, e ast.Expr) string {
	var b bytes.Buffer
	printer.Fprint(&b, fset, e)
	return strings.Join(strings.Fields(b.String()), " ")
}

func funcName(fd *ast.FuncDecl) string {
	if fd.Recv != nil && len(fd.Recv.List) > 0 {
		t := fd.Recv.List[0].Type
		for {
			switch x := t.(type) {
			case *ast.StarExpr:
				t = x.X
				continue
			case *ast.IndexExpr:
				t = x.X
				continue
			case *ast.IndexListExpr:
				t = x.X
				continue
			}
			break
		}
		if id, ok := t.(*ast.Ident); ok {
			return id.Name + "." + fd.Name.Name
		}
	}
	return fd.Name.Name
}

// ListSites loads the module at dir and returns its sites, sorted by key.
func ListSites(dir string) ([]Site, error) {
	cfg := &packages.Config{
		Mode: packages.NeedName | packages.NeedFiles | packages.NeedSyntax | packages.NeedTypes |
			packages.NeedTypesInfo | packages.NeedImports,
		Dir:   dir,
		Tests: false,
		Env:   append(os.Environ(), "GOFLAGS=-mod=mod", "GOPROXY=off"),
	}
	pkgs, err := packages.Load(cfg, "./...")
	if err != nil {
		return nil, err
	}
	const mod = "github.com/sarchlab/akita/v5"
	var sites []Site
	for _, p := range pkgs {
		if len(p.Errors) > 0 {
			return nil, fmt.Errorf("package %s: %v", p.PkgPath, p.Errors[0])
		}
		rel := strings.TrimPrefix(strings.TrimPrefix(p.PkgPath, mod), "/")
		if rel == "" {
			rel = "."
		}
		// acceptance tests, examples and doc-site tooling are not library packages
		if strings.HasPrefix(rel, "examples") || strings.Contains(rel, "acceptancetests") ||
			strings.HasPrefix(rel, "doc") || strings.HasPrefix(rel, "akita") {
			continue
		}
		for _, f := range p.Syntax {
			name := p.Fset.Position(f.Pos()).Filename
			if strings.HasSuffix(name, "_test.go") || strings.Contains(name, "verif_") {
				continue
			}
			for _, d := range f.Decls {
				fd, ok := d.(*ast.FuncDecl)
				if !ok || fd.Body == nil {
					continue
				}
				fn := funcName(fd)
				count := map[string]int{}
				add := func(kind, expr string) {
					k := kind + "|" + expr
					sites = append(sites, Site{Kind: kind, Pkg: rel, Func: fn, Expr: expr, N: count[k]})
					count[k]++
				}
				ast.Inspect(fd.Body, func(n ast.Node) bool {
					switch x := n.(type) {
					case *ast.RangeStmt:
						if t := p.TypesInfo.TypeOf(x.X); t != nil {
							if _, ok := t.Underlying().(*types.Map); ok {
								add("maprange", exprString(p.Fset, x.X))
								sites[len(sites)-1].Shape = rangeShape(x, fd)
							}
						}
					case *ast.GoStmt:
						add("go", exprString(p.Fset, x.Call.Fun))
					case *ast.SelectStmt:
						add("select", "select")
					case *ast.SelectorExpr:
						if id, ok := x.X.(*ast.Ident); ok {
							if pn, ok := p.TypesInfo.Uses[id].(*types.PkgName); ok {
								path := pn.Imported().Path()
								switch {
								case path == "time" && (x.Sel.Name == "Now" || x.Sel.Name == "Since" || x.Sel.Name == "Until"):
									add("wallclock", "time."+x.Sel.Name)
								case path == "math/rand" || path == "math/rand/v2" || path == "crypto/rand":
									add("rand", path+"."+x.Sel.Name)
								}
							}
						}
					}
					return true
				})
			}
		}
	}
	sort.Slice(sites, func(i, j int) bool { return sites[i].Key() < sites[j].Key() })
	return sites, nil
}

// rangeShape classifies the body of a map range (see Site.Shape).
func rangeShape(rs *ast.RangeStmt, fd *ast.FuncDecl) string {
	key, ok := rs.Key.(*ast.Ident)
	if !ok || rs.Body == nil || len(rs.Body.List) != 1 {
		return "loop"
	}
	as, ok := rs.Body.List[0].(*ast.AssignStmt)
	if !ok || len(as.Lhs) != 1 || len(as.Rhs) != 1 {
		return "loop"
	}
	dst, ok := as.Lhs[0].(*ast.Ident)
	if !ok {
		return "loop"
	}
	call, ok := as.Rhs[0].(*ast.CallExpr)
	if !ok || len(call.Args) != 2 {
		return "loop"
	}
	if f, ok := call.Fun.(*ast.Ident); !ok || f.Name != "append" {
		return "loop"
	}
	a0, ok0 := call.Args[0].(*ast.Ident)
	a1, ok1 := call.Args[1].(*ast.Ident)
	if !ok0 || !ok1 || a0.Name != dst.Name || a1.Name != key.Name || (rs.Value != nil) {
		return "loop"
	}
	sorted := false
	ast.Inspect(fd.Body, func(n ast.Node) bool {
		c, ok := n.(*ast.CallExpr)
		if !ok || c.Pos() < rs.End() || len(c.Args) == 0 {
			return true
		}
		sel, ok := c.Fun.(*ast.SelectorExpr)
		if !ok {
			return true
		}
		pkg, ok := sel.X.(*ast.Ident)
		if !ok || (pkg.Name != "sort" && pkg.Name != "slices") || !strings.HasPrefix(sel.Sel.Name, "S") {
			return true
		}
		if arg, ok := c.Args[0].(*ast.Ident); ok && arg.Name == dst.Name {
			sorted = true
		}
		return true
	})
	if sorted {
		return "collect-sort"
	}
	return "collect-nosort"
}
