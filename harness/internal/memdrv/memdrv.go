// Package memdrv holds the small simulation drivers shared by the C18, C22 and
// C25 harnesses: a serial engine with a standalone registrar, port/connection
// plumbing, and a scripted ticking component ("Driver") whose behaviour is a Go
// closure and which records everything it receives with the engine time.
package memdrv

import (
	"github.com/sarchlab/akita/v5/hooking"
	"github.com/sarchlab/akita/v5/messaging"
	"github.com/sarchlab/akita/v5/modeling"
	"github.com/sarchlab/akita/v5/noc/directconnection"
	"github.com/sarchlab/akita/v5/timing"
)

// Sim bundles one serial engine and its registrar.
type Sim struct {
	Engine timing.Engine
	Reg    modeling.Registrar
	nconn  int
}

// NewSim creates an empty simulation with a fresh sequential ID generator.
func NewSim() *Sim {
	timing.ResetIDGenerator() // the default generator is the sequential one
	timing.GetIDGenerator()
	e := timing.NewSerialEngine()
	return &Sim{Engine: e, Reg: modeling.NewStandaloneRegistrar(e)}
}

// PortOwner is what the library components and the Driver have in common.
type PortOwner interface {
	messaging.Component
	AssignPort(name string, port messaging.Port)
	GetPortByName(name string) messaging.Port
}

// AddPorts builds and assigns one port per declared name.
func (s *Sim) AddPorts(c PortOwner, buf int, names ...string) {
	for _, n := range names {
		p := modeling.MakePortBuilder().WithRegistrar(s.Reg).WithComponent(c).
			WithSpec(modeling.PortSpec{BufSize: buf}).Build(n)
		c.AssignPort(n, p)
	}
}

// Connect plugs the ports into a fresh direct connection.
func (s *Sim) Connect(ports ...messaging.Port) {
	s.nconn++
	name := "Conn" + string(rune('A'+s.nconn%26)) + string(rune('a'+(s.nconn/26)%26))
	conn := directconnection.MakeBuilder().WithRegistrar(s.Reg).Build(name)
	for _, p := range ports {
		conn.PlugIn(p)
	}
}

// Recv is one received message with the time at which the driver retrieved it.
type Recv struct {
	Time timing.VTimeInPicoSec
	Port string
	Msg  messaging.Msg
}

// Driver is a ticking component scripted by a closure.
type Driver struct {
	*modeling.TickingComponent
	sim    *Sim
	freq   timing.Freq
	TickFn func(d *Driver) bool
	Log    []Recv
	names  []string
	// Hold names ports whose incoming messages Drain leaves in place (back-pressure).
	Hold map[string]bool
}

// Tick implements modeling.Ticker.
func (d *Driver) Tick() bool { return d.TickFn(d) }

// NewDriver creates a driver with the given (untyped) ports.
func (s *Sim) NewDriver(name string, freq timing.Freq, buf int, ports ...string) *Driver {
	d := &Driver{sim: s, freq: freq, names: ports}
	d.TickingComponent = modeling.NewTickingComponent(name, s.Engine, freq, d)
	for _, p := range ports {
		d.DeclarePort(p)
	}
	s.AddPorts(d, buf, ports...)
	d.TickFn = func(*Driver) bool { return false }
	return d
}

// Cycle is the current engine time in cycles of the driver's clock.
func (d *Driver) Cycle() uint64 { return d.freq.Cycle(d.sim.Engine.CurrentTime()) }

// Drain retrieves and logs every incoming message on every port; it reports
// whether anything was retrieved.
func (d *Driver) Drain() bool {
	got := false
	for _, n := range d.names {
		if d.Hold[n] {
			continue
		}
		p := d.GetPortByName(n)
		for {
			m := p.RetrieveIncoming()
			if m == nil {
				break
			}
			d.Log = append(d.Log, Recv{Time: d.sim.Engine.CurrentTime(), Port: n, Msg: m})
			got = true
		}
	}
	return got
}

// NewID draws a fresh message ID.
func NewID() uint64 { return timing.GetIDGenerator().Generate() }

// FuncHook adapts a function to hooking.Hook.
type FuncHook struct{ F func(ctx hooking.HookCtx) }

// Func implements hooking.Hook.
func (h *FuncHook) Func(ctx hooking.HookCtx) { h.F(ctx) }
