// Package c09 builds whole small simulations out of the real serial engine, real
// direct connections, real ports, real TickingComponents and EventDrivenComponents
// running a tiny scripted behaviour, runs them to queue exhaustion and reports the
// handled-event trace and the final state of every port. Coq runs the same
// topology on the model of C09/Model.v.
package c09

import (
	"encoding/json"
	"fmt"
	"sort"

	"github.com/sarchlab/akita/v5/hooking"
	"github.com/sarchlab/akita/v5/messaging"
	"github.com/sarchlab/akita/v5/modeling"
	"github.com/sarchlab/akita/v5/noc/directconnection"
	"github.com/sarchlab/akita/v5/timing"

	"verifharness/internal/hx"
	"verifharness/internal/px"
)

type timerIn struct {
	T    uint64   `json:"t"`
	Port int      `json:"port"` // global port number
	M    px.MsgIn `json:"m"`
}

type relayIn struct {
	Out int `json:"out"` // global port number to re-send on
	Dst int `json:"dst"` // destination port number (name)
}

type compIn struct {
	Kind   string     `json:"kind"` // tick | event
	Period uint64     `json:"period"`
	Drain  []int      `json:"drain"` // per own port (in global order): -1 = all, k = up to k per activation
	Relay  []*relayIn `json:"relay"` // per own port
	Timers []timerIn  `json:"timers,omitempty"`
}

type portIn struct {
	ICap  int64 `json:"icap"`
	OCap  int64 `json:"ocap"`
	Owner int   `json:"owner"`
	Conn  int   `json:"conn"`
}

type input struct {
	Ports []portIn `json:"ports"`
	Comps []compIn `json:"comps"`
	Conns []uint64 `json:"conns"` // period of each connection
}

type finT struct {
	NI, NO int
	Head   *[2]uint64 // id, dst
}

type obsT struct {
	Trace [][2]uint64 `json:"trace"`
	Final []finT      `json:"final"`
	Panic string      `json:"panic,omitempty"`
}

// ---------------------------------------------------------------- scripted behaviour

type pendT struct {
	port int
	m    px.MsgIn
}

type script struct {
	w      *world
	idx    int
	in     compIn
	ports  []int // own ports, global order
	timers []timerIn
	pend   []pendT
}

type world struct {
	engine *timing.SerialEngine
	ports  []messaging.Port
}

// activate mirrors C09.Model.activate: fire due timers, drain, flush.
func (s *script) activate(now uint64) bool {
	var fired []pendT
	var rest []timerIn
	for _, t := range s.timers {
		if t.T <= now {
			fired = append(fired, pendT{t.Port, t.M})
		} else {
			rest = append(rest, t)
		}
	}
	s.timers = rest
	var relays []pendT
	nret := 0
	for li, g := range s.ports {
		p := s.w.ports[g]
		n := s.in.Drain[li]
		if n < 0 {
			n = p.NumIncoming()
		}
		for k := 0; k < n; k++ {
			m := p.RetrieveIncoming()
			if m == nil {
				break
			}
			nret++
			if r := s.in.Relay[li]; r != nil && m.Meta().ID < 3000 { // at most 3 relay hops
				b, ok := px.Back(m)
				if !ok {
					panic("altered message")
				}
				relays = append(relays, pendT{r.Out, px.MsgIn{ID: b.ID + 1000, Src: r.Out + 1, Dst: r.Dst, Data: b.Data + 1}})
			}
		}
	}
	all := append(append(append([]pendT{}, s.pend...), fired...), relays...)
	var kept []pendT
	nsent := 0
	for _, e := range all {
		p := s.w.ports[e.port]
		if p.CanSend() {
			p.Send(px.Make(e.m))
			nsent++
		} else {
			kept = append(kept, e)
		}
	}
	s.pend = kept
	return nret+nsent > 0
}

// ticking component
type tickComp struct {
	*modeling.TickingComponent
	s *script
}

func (c *tickComp) Tick() bool {
	pr := c.s.activate(uint64(c.s.w.engine.CurrentTime()))
	return pr || len(c.s.timers) > 0
}

// event-driven component
type edSpec struct{}
type edState struct{}

type edProc struct{ s *script }

func (p *edProc) Process(c *modeling.EventDrivenComponent[edSpec, edState, modeling.None], now timing.VTimeInPicoSec) bool {
	pr := p.s.activate(uint64(now))
	if len(p.s.timers) > 0 {
		c.ScheduleWakeAt(timing.VTimeInPicoSec(p.s.timers[0].T))
	}
	return pr
}

type engHook struct {
	names map[string]int
	trace *[][2]uint64
}

func (h *engHook) Func(ctx hooking.HookCtx) {
	if ctx.Pos != timing.HookPosBeforeEvent {
		return
	}
	evt := ctx.Item.(timing.Event)
	if len(*h.trace) > 20000 {
		panic("runaway simulation")
	}
	*h.trace = append(*h.trace, [2]uint64{uint64(evt.Time()), uint64(h.names[evt.HandlerID()])})
}

func freqOf(period uint64) timing.Freq { return timing.Freq(1_000_000_000_000 / period) }

func run(raw json.RawMessage) (hx.Case, error) {
	var in input
	if err := hx.UJ(raw, &in); err != nil {
		return hx.Case{}, err
	}
	w := &world{engine: timing.NewSerialEngine()}
	reg := modeling.NewStandaloneRegistrar(w.engine)
	names := map[string]int{}
	var o obsT
	w.engine.AcceptHook(&engHook{names: names, trace: &o.Trace})

	type kicker func()
	var kicks []kicker
	owners := make([]messaging.Component, len(in.Comps))
	scripts := make([]*script, len(in.Comps))
	for k, ci := range in.Comps {
		s := &script{w: w, idx: k, in: ci, timers: append([]timerIn{}, ci.Timers...)}
		for g, p := range in.Ports {
			if p.Owner == k {
				s.ports = append(s.ports, g)
			}
		}
		scripts[k] = s
		name := fmt.Sprintf("C%d", k)
		names[name] = k
		if ci.Kind == "tick" {
			tc := &tickComp{s: s}
			tc.TickingComponent = modeling.NewTickingComponent(name, w.engine, freqOf(ci.Period), tc)
			owners[k] = tc
			if len(ci.Timers) > 0 {
				kicks = append(kicks, func() { tc.TickNow() })
			}
		} else {
			ec := modeling.NewEventDrivenBuilder[edSpec, edState, modeling.None]().
				WithEngine(w.engine).WithProcessor(&edProc{s: s}).Build(name)
			owners[k] = ec
			if len(ci.Timers) > 0 {
				t0 := ci.Timers[0].T
				kicks = append(kicks, func() { ec.ScheduleWakeAt(timing.VTimeInPicoSec(t0)) })
			}
		}
	}
	conns := make([]*directconnection.Comp, len(in.Conns))
	for x, period := range in.Conns {
		name := fmt.Sprintf("X%d", x)
		names[name] = len(in.Comps) + x
		conns[x] = directconnection.MakeBuilder().WithRegistrar(reg).
			WithSpec(directconnection.Spec{Freq: freqOf(period)}).Build(name)
	}
	for g, pi := range in.Ports {
		p := messaging.NewPort(owners[pi.Owner], int(pi.ICap), int(pi.OCap), px.PortName(g+1))
		w.ports = append(w.ports, p)
		conns[pi.Conn].PlugIn(p)
	}
	for _, k := range kicks {
		k()
	}
	if pan, msg := hx.Try(func() { w.engine.Run() }); pan {
		o.Panic = msg
	}
	var fin []string
	for _, p := range w.ports {
		f := finT{NI: p.NumIncoming(), NO: p.NumOutgoing()}
		h := hx.None()
		if m := p.PeekOutgoing(); m != nil {
			d := px.PortNum(string(m.Meta().Dst))
			f.Head = &[2]uint64{m.Meta().ID, uint64(d)}
			h = hx.Some(hx.T(hx.N(m.Meta().ID), hx.N(uint64(d))))
		}
		o.Final = append(o.Final, f)
		fin = append(fin, hx.T(hx.Z(int64(f.NI)), hx.Z(int64(f.NO)), h))
	}

	// ---- Coq term
	var ports, comps, cns, tr []string
	for _, p := range in.Ports {
		ports = append(ports, hx.T(hx.Z(p.ICap), hx.Z(p.OCap), hx.Nat(p.Owner), hx.Nat(p.Conn)))
	}
	for _, c := range in.Comps {
		kind := "KTick"
		if c.Kind != "tick" {
			kind = "KEvent"
		}
		var dr, rl, tm []string
		for _, d := range c.Drain {
			if d < 0 {
				dr = append(dr, hx.None())
			} else {
				dr = append(dr, hx.Some(hx.Nat(d)))
			}
		}
		for _, r := range c.Relay {
			if r == nil {
				rl = append(rl, hx.None())
			} else {
				rl = append(rl, hx.Some(hx.T(hx.Nat(r.Out), hx.N(uint64(r.Dst)))))
			}
		}
		for _, t := range c.Timers {
			tm = append(tm, hx.T(hx.N(t.T), hx.Nat(t.Port), px.CoqMsg(t.M)))
		}
		per := c.Period
		if per == 0 {
			per = 1000
		}
		comps = append(comps, hx.App("mk_compd", kind, hx.N(per), hx.L(dr), hx.L(rl), hx.L(tm)))
	}
	for _, p := range in.Conns {
		cns = append(cns, hx.N(p))
	}
	for _, e := range o.Trace {
		tr = append(tr, hx.T(hx.N(e[0]), hx.Nat(int(e[1]))))
	}
	c := hx.Case{Obs: o}
	c.Coq = hx.App("mk_case", hx.L(ports), hx.L(comps), hx.L(cns), hx.L(tr), hx.L(fin))

	// ---- classification from the input shape
	tags := map[string]bool{fmt.Sprintf("conns:%d", len(in.Conns)): true}
	nEvent, bridging := 0, false
	for k, ci := range in.Comps {
		if ci.Kind != "tick" {
			nEvent++
			seen := map[int]bool{}
			for _, p := range in.Ports {
				if p.Owner == k {
					seen[p.Conn] = true
				}
			}
			if len(seen) >= 2 {
				bridging = true
			}
		}
	}
	switch {
	case nEvent == 0:
		tags["comps:all-ticking"] = true
	case nEvent == len(in.Comps):
		tags["comps:all-event-driven"] = true
	default:
		tags["comps:mixed"] = true
	}
	if bridging {
		tags["shape:event-driven-bridges-two-connections"] = true
	}
	stranded := false
	for _, f := range o.Final {
		if f.NO > 0 || f.NI > 0 {
			stranded = true
		}
	}
	if stranded {
		tags["final:messages-left-in-buffers"] = true
	} else {
		tags["final:all-buffers-empty"] = true
	}
	if o.Panic != "" {
		tags["run:panic"] = true
	}
	for t := range tags {
		c.Tags = append(c.Tags, t)
	}
	sort.Strings(c.Tags)
	c.Nontrivial = len(o.Trace) >= 8 && len(in.Comps) >= 2
	return c, nil
}

// ---------------------------------------------------------------- generators

// witness is the topology of DESIGN §3 C09: connection X0 ticks at T without
// progress, X1 ticks at T and delivers to the event-driven relay C1, whose
// same-instant wakeup sends on X0; before the fix X0's TickNow was dropped.
func witness() input {
	// ports: 0: K.a on X0 (sends to the never-deliverable port 4)   1: K.b on X1 (sends to relay)
	//        2: E.in on X1      3: E.out on X0     4: Z on X0 with incoming capacity 0    5: R on X0 (final receiver)
	return input{
		Ports: []portIn{
			{ICap: 1, OCap: 2, Owner: 0, Conn: 0},
			{ICap: 1, OCap: 2, Owner: 0, Conn: 1},
			{ICap: 2, OCap: 2, Owner: 1, Conn: 1},
			{ICap: 2, OCap: 2, Owner: 1, Conn: 0},
			{ICap: 0, OCap: 1, Owner: 2, Conn: 0},
			{ICap: 2, OCap: 1, Owner: 2, Conn: 0},
		},
		Comps: []compIn{
			{Kind: "tick", Period: 1000, Drain: []int{1, 1}, Relay: []*relayIn{nil, nil}, Timers: []timerIn{
				{T: 2000, Port: 0, M: px.MsgIn{ID: 1, Src: 1, Dst: 5, Data: 10}},
				{T: 2000, Port: 1, M: px.MsgIn{ID: 2, Src: 2, Dst: 3, Data: 20}},
			}},
			{Kind: "event", Drain: []int{-1, -1}, Relay: []*relayIn{{Out: 3, Dst: 6}, nil}},
			{Kind: "tick", Period: 1000, Drain: []int{1, 1}, Relay: []*relayIn{nil, nil}},
		},
		Conns: []uint64{1000, 1000},
	}
}

var periods = []uint64{1000, 1000, 1000, 500, 2000, 4000}

func genRandom(r *hx.Rand, tier string) input {
	nconn := r.Range(1, 4)
	ncomp := r.Range(2, 6)
	var in input
	for x := 0; x < nconn; x++ {
		in.Conns = append(in.Conns, periods[r.Intn(len(periods))])
	}
	evShare := r.Intn(4) // 0: all ticking ... 3: mostly event-driven
	for k := 0; k < ncomp; k++ {
		c := compIn{Kind: "tick", Period: periods[r.Intn(len(periods))]}
		if r.Intn(4) < evShare {
			c.Kind = "event"
			c.Period = 1000
		}
		in.Comps = append(in.Comps, c)
	}
	// every component gets 1-3 ports on random connections; every connection gets at least two ports
	for k := 0; k < ncomp; k++ {
		np := r.Range(1, 3)
		for j := 0; j < np; j++ {
			in.Ports = append(in.Ports, portIn{ICap: int64(r.Range(1, 4)), OCap: int64(r.Range(1, 4)), Owner: k, Conn: r.Intn(nconn)})
		}
	}
	for x := 0; x < nconn; x++ {
		cnt := 0
		for _, p := range in.Ports {
			if p.Conn == x {
				cnt++
			}
		}
		for ; cnt < 2; cnt++ {
			in.Ports = append(in.Ports, portIn{ICap: int64(r.Range(1, 4)), OCap: int64(r.Range(1, 4)), Owner: r.Intn(ncomp), Conn: x})
		}
	}
	// ports must be listed per owner in global order for the per-port script tables; sort by nothing: tables are built below
	peers := func(g int) []int { // other ports on the same connection, owned by anybody
		var out []int
		for q, p := range in.Ports {
			if q != g && p.Conn == in.Ports[g].Conn {
				out = append(out, q)
			}
		}
		return out
	}
	id := uint64(0)
	for k := range in.Comps {
		c := &in.Comps[k]
		var own []int
		for g, p := range in.Ports {
			if p.Owner == k {
				own = append(own, g)
			}
		}
		stall := r.Chance(1, 8)
		for range own {
			switch {
			case stall:
				c.Drain = append(c.Drain, 0)
			case c.Kind == "event":
				c.Drain = append(c.Drain, -1)
			default:
				c.Drain = append(c.Drain, r.Range(1, 2))
			}
			// receipt-driven send: relay on one of the own ports to a peer of that port
			var rl *relayIn
			if r.Chance(1, 2) {
				o := own[r.Intn(len(own))]
				if ps := peers(o); len(ps) > 0 {
					rl = &relayIn{Out: o, Dst: ps[r.Intn(len(ps))] + 1}
				}
			}
			c.Relay = append(c.Relay, rl)
		}
		// timer-driven sends
		nt := r.Intn(5)
		t := uint64(r.Intn(4)) * 1000
		for j := 0; j < nt; j++ {
			o := own[r.Intn(len(own))]
			ps := peers(o)
			if len(ps) == 0 {
				continue
			}
			id++
			c.Timers = append(c.Timers, timerIn{T: t, Port: o, M: px.MsgIn{ID: id, Src: o + 1, Dst: ps[r.Intn(len(ps))] + 1, Data: r.U64n(1000)}})
			switch r.Pick(3, 3, 1) {
			case 0: // same instant
			case 1:
				t += uint64(r.Range(1, 3)) * 1000
			default: // off the clock edge (event-driven senders wake at arbitrary times)
				t += uint64(r.Range(1, 2500))
			}
		}
	}
	return in
}

func gen(r *hx.Rand, tier string) []json.RawMessage {
	n := 500
	if tier == "thorough" {
		n = 6000
	}
	out := []json.RawMessage{hx.J(witness())}
	// variants of the witness: relay buffer sizes, a second relay hop
	for _, oc := range []int64{1, 3} {
		w := witness()
		w.Ports[3].OCap = oc
		out = append(out, hx.J(w))
	}
	for len(out) < n {
		out = append(out, hx.J(genRandom(r, tier)))
	}
	return out
}

func shrink(raw json.RawMessage) []json.RawMessage {
	var in input
	if hx.UJ(raw, &in) != nil {
		return nil
	}
	var out []json.RawMessage
	for k := range in.Comps {
		for j := range in.Comps[k].Timers {
			c := in
			c.Comps = append([]compIn{}, in.Comps...)
			cc := c.Comps[k]
			cc.Timers = append(append([]timerIn{}, cc.Timers[:j]...), cc.Timers[j+1:]...)
			c.Comps[k] = cc
			out = append(out, hx.J(c))
		}
		for j := range in.Comps[k].Relay {
			if in.Comps[k].Relay[j] != nil {
				c := in
				c.Comps = append([]compIn{}, in.Comps...)
				cc := c.Comps[k]
				cc.Relay = append([]*relayIn{}, cc.Relay...)
				cc.Relay[j] = nil
				c.Comps[k] = cc
				out = append(out, hx.J(c))
			}
		}
	}
	return out
}

func init() {
	hx.Register(&hx.Prop{
		ID:      "C09",
		Imports: "From Akita Require Import Lib.Base Lib.Fifo Lib.Port Lib.Conn C09.Model C09.Exec.",
		Rule: "whole simulations built from the real serial engine, 1-4 real direct connections (periods 500-4000 ps), real ports " +
			"(capacities 1-4) and 2-6 real TickingComponents / EventDrivenComponents running a scripted behaviour: planned sends " +
			"(timer-driven; same instant, a few cycles apart, or off the clock edge), relays (receipt-driven: every retrieved message " +
			"is re-sent on another port, which produces same-instant chains through event-driven components), per-port drain limits " +
			"(all / 1-2 per activation / never). Run to queue exhaustion; compared: the full (time, handler) trace and every port's " +
			"final state. Directed: the DESIGN §3 C09 witness (two connections bridged by an event-driven relay) and variants. " +
			"Non-trivial: >= 8 handled events and >= 2 components. Distinct = distinct input hash.",
		Gen: gen, Run: run, Shrink: shrink,
	})
}
