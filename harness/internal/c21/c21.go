// Package c21 ties the Coq model of the reorder buffer (mem/rob/middleware.go) to the real
// component: the ROB is built by its builder, its real Top and Bottom ports are fed by a
// scripted requester and a scripted out-of-order lower unit, Tick is called once per instant
// and all port traffic is recorded.
package c21

import (
	"bytes"
	"encoding/json"
	"fmt"

	"github.com/sarchlab/akita/v5/hooking"
	"github.com/sarchlab/akita/v5/mem/memcontrolprotocol"
	"github.com/sarchlab/akita/v5/mem/memprotocol"
	"github.com/sarchlab/akita/v5/mem/rob"
	"github.com/sarchlab/akita/v5/mem/vm"
	"github.com/sarchlab/akita/v5/messaging"
	"github.com/sarchlab/akita/v5/modeling"
	"github.com/sarchlab/akita/v5/timing"

	"verifharness/internal/hx"
)

type noopConn struct{ hooking.HookableBase }

func (c *noopConn) Name() string                     { return "NoopConn" }
func (c *noopConn) PlugIn(port messaging.Port)       { port.SetConnection(c) }
func (c *noopConn) Unplug(_ messaging.Port)          {}
func (c *noopConn) NotifyAvailable(_ messaging.Port) {}
func (c *noopConn) NotifySend()                      {}

// TopReq is a request delivered to the Top port (kind r|w).
type TopReq struct {
	Kind string `json:"kind"`
	ID   uint64 `json:"id"`
	Src  int    `json:"src"`
	Addr uint64 `json:"addr"`
	Size uint64 `json:"size,omitempty"`
	Data []byte `json:"data,omitempty"`
	Mask []bool `json:"mask,omitempty"`
	PID  uint32 `json:"pid"`
	TB   int    `json:"tb"`
}

// BotRsp is a lower-unit response (kind d|w|o) to the K-th shadow request drained so far.
type BotRsp struct {
	Kind string `json:"kind"`
	K    int    `json:"k"`
	Data []byte `json:"data,omitempty"`
}

// CtlReq is a message delivered to the Control port: a memcontrolprotocol.Req with command Cmd
// (0 Pause, 1 Drain, 2 Enable, 3 Reset, 4 Invalidate, 5 Flush), or another message type (Cmd < 0).
type CtlReq struct {
	ID  uint64 `json:"id"`
	Src int    `json:"src"`
	Cmd int    `json:"cmd"`
}

// Instant is one scripted tick.
type Instant struct {
	Ckpt     bool     `json:"ckpt,omitempty"` // SaveCheckpoint + LoadCheckpoint of the component first
	Top      []TopReq `json:"top"`
	Bot      []BotRsp `json:"bot"`
	Ctl      []CtlReq `json:"ctl,omitempty"`
	DrainTop int      `json:"dt"`
	DrainBot int      `json:"db"`
	DrainCtl int      `json:"dc"`
}

type input struct {
	Size   int       `json:"size"`
	Width  int       `json:"width"`
	TCap   int       `json:"tcap"`
	BCap   int       `json:"bcap"`
	CCap   int       `json:"ccap"`
	Script []Instant `json:"script"`
}

const bogus = 1_000_000_000

type tickObs struct {
	Progress bool     `json:"progress"`
	Top      []string `json:"top"`
	Bot      []string `json:"bot"`
	Ctl      []string `json:"ctl"`
	NTrans   int      `json:"ntrans"`
	CState   int      `json:"cstate"`
	NTopDel  int      `json:"ntopdel"`
	NBotDel  int      `json:"nbotdel"`
	NCtlDel  int      `json:"nctldel"`
	NCtlQ    int      `json:"nctlq"`  // Control outgoing buffer length right after the Tick
	BotIDs   []uint64 `json:"botids"` // resolved (relative) RspTo of the scripted Bottom responses
}

func boolList(m []bool) string {
	s := make([]string, len(m))
	for i, b := range m {
		s[i] = hx.B(b)
	}
	return hx.L(s)
}

func execute(in input) ([]tickObs, error) {
	engine := timing.NewSerialEngine()
	reg := modeling.NewStandaloneRegistrar(engine)
	spec := rob.DefaultSpec()
	spec.BufferSize = in.Size
	spec.NumReqPerCycle = in.Width
	spec.BottomUnit = "LowerUnit"
	comp := rob.MakeBuilder().WithRegistrar(reg).WithSpec(spec).Build("Rob")
	mk := func(name string, size int) messaging.Port {
		p := modeling.MakePortBuilder().WithRegistrar(reg).WithComponent(comp).
			WithSpec(modeling.PortSpec{BufSize: size}).Build(name)
		comp.AssignPort(name, p)
		(&noopConn{}).PlugIn(p)
		return p
	}
	top := mk("Top", in.TCap)
	bot := mk("Bottom", in.BCap)
	ctl := mk("Control", in.CCap)

	// The engine is never run: the first wake-up schedules the one pending tick event (which
	// takes an ID); every later wake-up is deduplicated. Trigger it before the IDs are based.
	comp.TickLater()
	base := timing.GetIDGenerator().Generate() + 1 // the next generated ID
	rel := func(id uint64) uint64 { return id - base }
	var seen []uint64 // real ids of the shadow requests drained from Bottom
	var out []tickObs
	for _, st := range in.Script {
		ob := tickObs{Top: []string{}, Bot: []string{}, Ctl: []string{}, BotIDs: []uint64{}}
		if st.Ckpt {
			var buf bytes.Buffer
			if err := comp.SaveCheckpoint(&buf); err != nil {
				return nil, fmt.Errorf("SaveCheckpoint: %v", err)
			}
			if err := comp.LoadCheckpoint(&buf); err != nil {
				return nil, fmt.Errorf("LoadCheckpoint: %v", err)
			}
		}
		for _, q := range st.Top {
			if !top.CanDeliver() {
				break
			}
			var m messaging.Msg
			meta := messaging.MsgMeta{ID: q.ID, Src: messaging.RemotePort(fmt.Sprintf("A%d", q.Src)), Dst: top.AsRemote(), TrafficBytes: q.TB}
			if q.Kind == "r" {
				meta.TrafficClass = "memprotocol.ReadReq"
				m = memprotocol.ReadReq{MsgMeta: meta, Address: q.Addr, AccessByteSize: q.Size, PID: vm.PID(q.PID)}
			} else {
				meta.TrafficClass = "memprotocol.WriteReq"
				m = memprotocol.WriteReq{MsgMeta: meta, Address: q.Addr, Data: q.Data, DirtyMask: q.Mask, PID: vm.PID(q.PID)}
			}
			top.Deliver(m)
			ob.NTopDel++
		}
		full := false
		for _, b := range st.Bot {
			id := base + bogus + uint64(b.K)
			if b.K >= 0 && b.K < len(seen) {
				id = seen[b.K]
			}
			ob.BotIDs = append(ob.BotIDs, rel(id))
			if full || !bot.CanDeliver() {
				full = true
				continue
			}
			meta := messaging.MsgMeta{ID: timingFreeID(), Src: "LowerUnit", Dst: bot.AsRemote(), RspTo: id}
			switch b.Kind {
			case "d":
				bot.Deliver(memprotocol.DataReadyRsp{MsgMeta: meta, Data: b.Data})
			case "w":
				bot.Deliver(memprotocol.WriteDoneRsp{MsgMeta: meta})
			default:
				bot.Deliver(memprotocol.ReadReq{MsgMeta: meta})
			}
			ob.NBotDel++
		}
		for _, k := range st.Ctl {
			if !ctl.CanDeliver() {
				break
			}
			meta := messaging.MsgMeta{ID: k.ID, Src: messaging.RemotePort(fmt.Sprintf("K%d", k.Src)), Dst: ctl.AsRemote()}
			if k.Cmd >= 0 {
				ctl.Deliver(memcontrolprotocol.Req{MsgMeta: meta, Command: memcontrolprotocol.Command(k.Cmd)})
			} else {
				ctl.Deliver(memprotocol.ReadReq{MsgMeta: meta})
			}
			ob.NCtlDel++
		}
		ob.Progress = comp.Tick()
		ob.NTrans = len(comp.State.Transactions)
		ob.CState = int(comp.State.ControlState)
		ob.NCtlQ = ctl.NumOutgoing()
		for i := 0; i < st.DrainCtl; i++ {
			m := ctl.RetrieveOutgoing()
			if m == nil {
				break
			}
			r, ok := m.(memcontrolprotocol.Rsp)
			if !ok {
				return nil, fmt.Errorf("unexpected control message %T", m)
			}
			var dst int
			if _, err := fmt.Sscanf(string(r.Dst), "K%d", &dst); err != nil || r.Src != ctl.AsRemote() {
				dst = 999999
			}
			ob.Ctl = append(ob.Ctl, hx.App("mk_crsp", hx.N(rel(r.ID)), hx.N(uint64(dst)), hx.N(r.RspTo), hx.N(uint64(r.Command)), hx.B(r.Success)))
		}
		for i := 0; i < st.DrainTop; i++ {
			m := top.RetrieveOutgoing()
			if m == nil {
				break
			}
			meta := m.Meta()
			var dst int
			if _, err := fmt.Sscanf(string(meta.Dst), "A%d", &dst); err != nil || meta.Src != top.AsRemote() {
				dst = 999999 // not a requester / not sent from Top: the property predicate rejects it
			}
			switch r := m.(type) {
			case memprotocol.DataReadyRsp:
				if meta.TrafficClass != "memprotocol.DataReadyRsp" {
					return nil, fmt.Errorf("bad class %q", meta.TrafficClass)
				}
				ob.Top = append(ob.Top, hx.App("TData", hx.N(rel(meta.ID)), hx.N(uint64(dst)), hx.N(meta.RspTo), hx.Bytes(r.Data), hx.Z(int64(meta.TrafficBytes))))
			case memprotocol.WriteDoneRsp:
				if meta.TrafficClass != "memprotocol.WriteDoneRsp" {
					return nil, fmt.Errorf("bad class %q", meta.TrafficClass)
				}
				ob.Top = append(ob.Top, hx.App("TDone", hx.N(rel(meta.ID)), hx.N(uint64(dst)), hx.N(meta.RspTo), hx.Z(int64(meta.TrafficBytes))))
			default:
				return nil, fmt.Errorf("unexpected top message %T", m)
			}
		}
		for i := 0; i < st.DrainBot; i++ {
			m := bot.RetrieveOutgoing()
			if m == nil {
				break
			}
			meta := m.Meta()
			if meta.Src != bot.AsRemote() || meta.Dst != "LowerUnit" {
				return nil, fmt.Errorf("bad shadow src/dst %q %q", meta.Src, meta.Dst)
			}
			seen = append(seen, meta.ID)
			switch s := m.(type) {
			case memprotocol.ReadReq:
				if meta.TrafficClass != "memprotocol.ReadReq" {
					return nil, fmt.Errorf("bad class %q", meta.TrafficClass)
				}
				ob.Bot = append(ob.Bot, hx.App("SRead", hx.N(rel(meta.ID)), hx.N(s.Address), hx.N(s.AccessByteSize), hx.N(uint64(s.PID)), hx.Z(int64(meta.TrafficBytes))))
			case memprotocol.WriteReq:
				if meta.TrafficClass != "memprotocol.WriteReq" {
					return nil, fmt.Errorf("bad class %q", meta.TrafficClass)
				}
				ob.Bot = append(ob.Bot, hx.App("SWrite", hx.N(rel(meta.ID)), hx.N(s.Address), hx.Bytes(s.Data), boolList(s.DirtyMask), hx.N(uint64(s.PID)), hx.Z(int64(meta.TrafficBytes))))
			default:
				return nil, fmt.Errorf("unexpected bottom message %T", m)
			}
		}
		out = append(out, ob)
	}
	return out, nil
}

// timingFreeID gives the scripted lower unit's messages an ID without touching the
// simulator's ID generator (the model counts generated IDs).
var freeID uint64 = 1 << 60

func timingFreeID() uint64 { freeID++; return freeID }

func coqReq(q TopReq) string {
	if q.Kind == "r" {
		return hx.App("QRead", hx.N(q.ID), hx.N(uint64(q.Src)), hx.N(q.Addr), hx.N(q.Size), hx.N(uint64(q.PID)), hx.Z(int64(q.TB)))
	}
	return hx.App("QWrite", hx.N(q.ID), hx.N(uint64(q.Src)), hx.N(q.Addr), hx.Bytes(q.Data), boolList(q.Mask), hx.N(uint64(q.PID)), hx.Z(int64(q.TB)))
}

func run(raw json.RawMessage) (hx.Case, error) {
	var in input
	if err := hx.UJ(raw, &in); err != nil {
		return hx.Case{}, err
	}
	if in.CCap < 1 {
		in.CCap = 2
	}
	if in.TCap < 1 || in.BCap < 1 {
		return hx.Case{}, fmt.Errorf("port capacities must be positive")
	}
	obs, err := execute(in)
	if err != nil {
		return hx.Case{}, err
	}
	script := make([]string, len(in.Script))
	ticks := make([]string, len(obs))
	nrsp, nshadow, reorder, dup := 0, 0, false, false
	nreset, npause, nckpt := 0, 0, 0
	lastK := -1
	seenK := map[int]bool{}
	for i, st := range in.Script {
		qs := make([]string, len(st.Top))
		for j, q := range st.Top {
			qs[j] = coqReq(q)
		}
		bs := make([]string, len(st.Bot))
		for j, b := range st.Bot {
			id := obs[i].BotIDs[j]
			switch b.Kind {
			case "d":
				bs[j] = hx.App("BData", hx.N(id), hx.Bytes(b.Data))
			case "w":
				bs[j] = hx.App("BDone", hx.N(id))
			default:
				bs[j] = "BOther"
			}
			if b.K < lastK {
				reorder = true
			}
			if seenK[b.K] {
				dup = true
			}
			seenK[b.K] = true
			lastK = b.K
		}
		cs := make([]string, len(st.Ctl))
		for j, k := range st.Ctl {
			if k.Cmd >= 0 {
				cs[j] = hx.App("CReq", hx.N(k.ID), hx.N(uint64(k.Src)), hx.N(uint64(k.Cmd)))
			} else {
				cs[j] = "COther"
			}
			switch k.Cmd {
			case 3:
				nreset++
			case 0, 1:
				npause++
			}
		}
		if st.Ckpt {
			nckpt++
		}
		script[i] = hx.App("mk_instant", hx.B(st.Ckpt), hx.L(qs), hx.L(bs), hx.L(cs), hx.Nat(st.DrainTop), hx.Nat(st.DrainBot), hx.Nat(st.DrainCtl))
		ticks[i] = hx.App("mk_tobs", hx.B(obs[i].Progress), hx.L(obs[i].Top), hx.L(obs[i].Bot), hx.L(obs[i].Ctl),
			hx.N(uint64(obs[i].NTrans)), hx.N(uint64(obs[i].CState)),
			hx.Nat(obs[i].NTopDel), hx.Nat(obs[i].NBotDel), hx.Nat(obs[i].NCtlDel), hx.Nat(obs[i].NCtlQ))
		nrsp += len(obs[i].Top)
		nshadow += len(obs[i].Bot)
	}
	c := hx.Case{Obs: obs}
	c.Coq = hx.App("mk_case", hx.Z(int64(in.Size)), hx.Z(int64(in.Width)), hx.N(uint64(in.TCap)), hx.N(uint64(in.BCap)), hx.N(uint64(in.CCap)),
		hx.L(script), hx.L(ticks))
	if reorder {
		c.Tags = append(c.Tags, "out-of-order-completion")
	}
	if dup {
		c.Tags = append(c.Tags, "duplicate-answers")
	}
	if nreset > 0 {
		c.Tags = append(c.Tags, "reset")
	}
	if npause > 0 {
		c.Tags = append(c.Tags, "pause/drain")
	}
	if nckpt > 0 {
		c.Tags = append(c.Tags, "checkpoint-roundtrip")
	}
	if in.TCap <= 2 || in.BCap <= 2 {
		c.Tags = append(c.Tags, "port-backpressure")
	}
	c.Tags = append(c.Tags, fmt.Sprintf("width:%d", min(in.Width, 4)), fmt.Sprintf("size:%d", min(in.Size, 8)))
	c.Nontrivial = reorder && nrsp >= 3
	return c, nil
}
