package c21

import (
	"encoding/json"

	"verifharness/internal/hx"
)

func genReq(r *hx.Rand, id uint64) TopReq {
	q := TopReq{ID: id, Src: r.Intn(3), Addr: 64 * (id - 900), PID: uint32(r.Intn(3)), TB: r.Intn(80)}
	if r.Chance(3, 5) {
		q.Kind = "r"
		q.Size = uint64(1 + r.Intn(64))
	} else {
		q.Kind = "w"
		n := r.Intn(6)
		q.Data = make([]byte, n)
		for i := range q.Data {
			q.Data[i] = byte(r.Intn(256))
		}
		if r.Chance(1, 3) {
			q.Mask = make([]bool, n)
			for i := range q.Mask {
				q.Mask[i] = r.Bool()
			}
		}
	}
	return q
}

// genCase builds a script with an adversarial lower unit: the pending list of drained shadow
// requests is answered in random order after random delays, sometimes twice, sometimes with
// the wrong kind or an unknown id.
func genCase(r *hx.Rand) input {
	in := input{Size: r.Pick(1, 2, 3, 3, 2, 1), Width: r.Pick(0, 3, 3, 2, 2), TCap: r.Range(1, 5), BCap: r.Range(1, 5)}
	in.Size = []int{1, 2, 3, 4, 6, 16}[in.Size]
	if in.Width == 0 {
		in.Width = 1
	}
	nticks := r.Range(6, 28)
	id := uint64(1000 + r.Intn(50))
	// the generator tracks an estimate of drained shadows only to aim K at plausible indexes
	sent, drained := 0, 0
	var pending []int
	withCtl := r.Chance(1, 2)  // control commands (Pause/Drain/Enable/Reset/unsupported) during the run
	withCkpt := r.Chance(1, 3) // checkpoint round trips of the component during the run
	ctlID := uint64(5000)
	var later [][2]uint64 // (tick, id) of Enable commands scheduled after a Pause/Drain
	in.CCap = r.Range(1, 3)
	for t := 0; t < nticks; t++ {
		st := Instant{DrainTop: r.Pick(1, 3, 3, 2), DrainBot: r.Pick(1, 3, 3, 2)}
		if t < nticks*2/3 {
			k := r.Pick(2, 4, 3, 1)
			for j := 0; j < k; j++ {
				id++
				st.Top = append(st.Top, genReq(r, id))
				sent++
			}
		}
		nb := r.Pick(3, 4, 2, 1)
		for j := 0; j < nb && (len(pending) > 0 || r.Chance(1, 10)); j++ {
			var b BotRsp
			if len(pending) > 0 {
				i := r.Intn(len(pending))
				if r.Chance(1, 4) {
					i = len(pending) - 1 // youngest first
				}
				b.K = pending[i]
				if !r.Chance(1, 10) { // otherwise answer it again later
					pending = append(pending[:i], pending[i+1:]...)
				}
			} else {
				b.K = drained + r.Intn(5) // not drained yet: unknown id
			}
			switch r.Pick(6, 4, 1) {
			case 0:
				b.Kind = "d"
				b.Data = make([]byte, r.Intn(5))
				for i := range b.Data {
					b.Data[i] = byte(r.Intn(256))
				}
			case 1:
				b.Kind = "w"
			default:
				b.Kind = "o"
			}
			st.Bot = append(st.Bot, b)
		}
		st.DrainCtl = r.Pick(1, 3, 2)
		if withCkpt && r.Chance(1, 5) {
			st.Ckpt = true
		}
		if withCtl && r.Chance(1, 5) {
			ctlID++
			cmd := []int{0, 1, 2, 3, 3, 4, -1}[r.Pick(3, 2, 4, 3, 2, 1, 1)]
			st.Ctl = append(st.Ctl, CtlReq{ID: ctlID, Src: r.Intn(2), Cmd: cmd})
			if cmd == 3 && r.Chance(1, 2) {
				pending = nil // the lower unit forgets the reset-away requests (otherwise it answers them late)
			}
			if (cmd == 0 || cmd == 1) && r.Chance(2, 3) { // resume a little later
				later = append(later, [2]uint64{uint64(t + 1 + r.Intn(4)), ctlID + 100000})
			}
		}
		// estimate: shadows become visible after they are drained
		for d := 0; d < st.DrainBot && drained < sent; d++ {
			pending = append(pending, drained)
			drained++
		}
		in.Script = append(in.Script, st)
	}
	for _, l := range later {
		if int(l[0]) < len(in.Script) {
			in.Script[l[0]].Ctl = append(in.Script[l[0]].Ctl, CtlReq{ID: l[1], Src: 0, Cmd: 2})
		}
	}
	for t := 0; t < 12; t++ {
		st := Instant{DrainTop: 3, DrainBot: 3, DrainCtl: 3}
		if t == 0 && withCtl { // make sure the pipeline runs again
			st.Ctl = []CtlReq{{ID: 9001, Src: 1, Cmd: 2}}
		}
		if t == 4 && withCtl {
			st.Ctl = []CtlReq{{ID: 9002, Src: 1, Cmd: 2}}
		}
		for j := 0; j < 2 && len(pending) > 0; j++ {
			i := r.Intn(len(pending))
			st.Bot = append(st.Bot, BotRsp{Kind: []string{"d", "w"}[r.Intn(2)], K: pending[i], Data: []byte{byte(t), byte(j)}})
			pending = append(pending[:i], pending[i+1:]...)
		}
		in.Script = append(in.Script, st)
	}
	return in
}

func directedReverse(n int) input {
	// n reads accepted, answered youngest first, each with its own data
	in := input{Size: n, Width: 2, TCap: 4, BCap: 4, CCap: 2}
	for i := 0; i < n; i += 2 {
		st := Instant{DrainTop: 4, DrainBot: 4}
		st.Top = append(st.Top, TopReq{Kind: "r", ID: uint64(10 + i), Src: i % 3, Addr: uint64(64 * i), Size: 4, TB: 12})
		if i+1 < n {
			st.Top = append(st.Top, TopReq{Kind: "w", ID: uint64(11 + i), Src: (i + 1) % 3, Addr: uint64(64*i + 64), Data: []byte{byte(i)}, TB: 13})
		}
		in.Script = append(in.Script, st)
	}
	in.Script = append(in.Script, Instant{DrainTop: 4, DrainBot: 4})
	for k := n - 1; k >= 0; k-- {
		kind := "d"
		if k%2 == 1 {
			kind = "w"
		}
		in.Script = append(in.Script, Instant{DrainTop: 4, DrainBot: 4, Bot: []BotRsp{{Kind: kind, K: k, Data: []byte{byte(100 + k), 7}}}})
	}
	for i := 0; i < n+2; i++ {
		in.Script = append(in.Script, Instant{DrainTop: 4, DrainBot: 4})
	}
	return in
}

// directedReset: three requests in flight, the middle one completed (parked behind the head), a
// Reset, three new requests; only the last is ever completed by the lower unit.
func directedReset() input {
	in := input{Size: 8, Width: 2, TCap: 4, BCap: 4, CCap: 2}
	rd := func(i int) TopReq {
		return TopReq{Kind: "r", ID: uint64(20 + i), Src: i % 3, Addr: uint64(64 * i), Size: 4, TB: 12}
	}
	all := Instant{DrainTop: 4, DrainBot: 4, DrainCtl: 2}
	a := all
	a.Top = []TopReq{rd(0), rd(1)}
	b := all
	b.Top = []TopReq{rd(2)}
	c := all
	c.Bot = []BotRsp{{Kind: "d", K: 1, Data: []byte{0xbb, 0xbb}}}
	d := all
	d.Ctl = []CtlReq{{ID: 7000, Src: 0, Cmd: 3}}
	e := all
	e.Top = []TopReq{rd(3), rd(4)}
	f := all
	f.Top = []TopReq{rd(5)}
	g := all
	g.Bot = []BotRsp{{Kind: "d", K: 3, Data: []byte{0xd0}}}
	in.Script = []Instant{a, b, all, c, all, d, e, f, all, g, all, all, all}
	return in
}

// directedCheckpoint: requests in flight across a checkpoint round trip, completed afterwards.
func directedCheckpoint() input {
	in := directedReverse(5)
	for i := range in.Script {
		in.Script[i].DrainCtl = 1
		if i == 3 || i == 5 {
			in.Script[i].Ckpt = true
		}
	}
	return in
}

func gen(r *hx.Rand, tier string) []json.RawMessage {
	n := 240
	if tier == "thorough" {
		n = 3000
	}
	out := []json.RawMessage{hx.J(directedReverse(4)), hx.J(directedReverse(7)), hx.J(directedReset()), hx.J(directedCheckpoint())}
	// full Top outgoing buffer while the head is complete (ID consumed per retry)
	bp := directedReverse(3)
	for i := range bp.Script {
		if i < len(bp.Script)-3 {
			bp.Script[i].DrainTop = 0
		}
	}
	bp.TCap = 1
	out = append(out, hx.J(bp))
	for len(out) < n {
		out = append(out, hx.J(genCase(r)))
	}
	return out
}

func shrink(raw json.RawMessage) []json.RawMessage {
	var in input
	if hx.UJ(raw, &in) != nil {
		return nil
	}
	var out []json.RawMessage
	for i := range in.Script {
		for j := range in.Script[i].Bot {
			c := in
			c.Script = append([]Instant{}, in.Script...)
			b := in.Script[i].Bot
			c.Script[i].Bot = append(append([]BotRsp{}, b[:j]...), b[j+1:]...)
			out = append(out, hx.J(c))
		}
	}
	if len(in.Script) > 1 {
		c := in
		c.Script = in.Script[:len(in.Script)-1]
		out = append(out, hx.J(c))
	}
	return out
}

func init() {
	hx.Register(&hx.Prop{
		ID:      "C21",
		Imports: "From Akita Require Import Lib.Base C21.Model C21.Exec.",
		Rule: "ROB built by its builder (buffer size 1-16, width 1-4, Top/Bottom port buffers 1-5, Control 1-3), 18-40 scripted ticks: 0-3 " +
			"read/write requests per tick (three requesters, distinct IDs and addresses), in half of the cases control commands " +
			"(Pause, Drain, Enable, Reset, unsupported verbs, foreign messages) at random ticks with the lower unit sometimes answering " +
			"reset-away requests late, in a third of the cases checkpoint round trips (Component.SaveCheckpoint/LoadCheckpoint) at random " +
			"ticks with requests in flight, a scripted lower unit that answers the drained shadow " +
			"requests in random order after random delays (youngest-first bias, 10% answered twice, wrong-kind answers, unknown ids, " +
			"foreign message types), 0-3 messages drained per port per tick (back-pressure on both ports). Directed: 4 and 7 requests " +
			"answered in exactly reverse order; complete head with a full 1-slot Top buffer; a Reset with a completed result parked " +
			"behind the head followed by new requests; checkpoint round trips with five requests in flight. " +
			"Non-trivial: at least one answer overtakes an older one and >= 3 responses released. Distinct = input hash.",
		Gen: gen, Run: run, Shrink: shrink,
	})
}
