// Package c05 replays Pause/Continue schedules on the real engines and records
// the label log that the Coq acceptors of C05 evaluate.
//
// Ordering between goroutines is forced by channel handshakes; "the engine has
// settled" (parked in waitForResume / blocked on the pause lock / Run returned)
// is detected by polling goroutine stacks, never by sleeping. Timeouts exist only
// as a safety net so that a deadlocked (mutated) engine yields an observation
// (done=false) instead of hanging the harness.
package c05

import (
	"encoding/json"
	"fmt"
	"io"
	"os"
	"os/exec"
	"path/filepath"
	"runtime"
	"strings"
	"sync"
	"sync/atomic"
	"time"

	"github.com/sarchlab/akita/v5/timing"

	"verifharness/internal/hx"
)

// Ev is an event of the scripted program.
type Ev struct {
	ID   uint64 `json:"id"`
	Time uint64 `json:"t"`
	Sec  bool   `json:"sec"`
}

type input struct {
	Par    bool            `json:"par"`
	Init   []Ev            `json:"init"`
	Prog   map[string][]Ev `json:"prog"`             // event id -> events its handler schedules
	Scn    string          `json:"scn"`              // inflight | idle | stress | live
	Cycles int             `json:"cycles,omitempty"` // live: number of Pause / spin / Continue cycles
	K      uint64          `json:"k"`                // inflight: the gated event
	NPause int             `json:"npause"`
	Spin   int             `json:"spin"` // stress: handler busy-loop bound
	Gap    int             `json:"gap"`  // stress: controller busy-loop bound
	Seed   uint64          `json:"seed"`
}

type label struct {
	Kind string `json:"k"` // S E P C
	ID   uint64 `json:"id,omitempty"`
}

type obs struct {
	Trace []label `json:"trace"`
	Early bool    `json:"early"`
	Done  bool    `json:"done"`
	Note  string  `json:"note,omitempty"`
	// live scenario
	CyclesDone int  `json:"cycles_done,omitempty"`
	Stuck      bool `json:"stuck,omitempty"`
	// twopause scenario: handlers-running counter sampled by each pauser right after its Pause returned
	Samples []int64 `json:"samples,omitempty"`
	Revived bool    `json:"revived_by_second_continue,omitempty"`
}

// ---- liveness stress (run in a subprocess: a stuck engine is an observation) ----

type chainEvent struct {
	t timing.VTimeInPicoSec
}

func (e chainEvent) Time() timing.VTimeInPicoSec { return e.t }
func (e chainEvent) HandlerID() string           { return "h" }
func (e chainEvent) IsSecondary() bool           { return false }

type chainHandler struct {
	eng     timing.Engine
	handled atomic.Int64
	stop    atomic.Bool
}

func (h *chainHandler) Handle(e timing.Event) error {
	h.handled.Add(1)
	if !h.stop.Load() {
		h.eng.Schedule(chainEvent{e.Time() + 1})
	}
	return nil
}

// live: a self-rescheduling event chain runs in Run(); this goroutine does Pause, a tiny
// random spin, Continue, and then requires the handled counter to advance.
func live(in input) obs {
	var eng timing.Engine
	if in.Par {
		eng = timing.NewParallelEngine()
	} else {
		eng = timing.NewSerialEngine()
	}
	h := &chainHandler{eng: eng}
	eng.(timing.HandlerRegistrar).RegisterHandler("h", h)
	eng.Schedule(chainEvent{1})
	done := make(chan struct{})
	go func() {
		_ = eng.Run()
		close(done)
	}()
	r := hx.NewRand(in.Seed)
	o := obs{}
	progressed := func(from int64, d time.Duration) bool {
		deadline := time.Now().Add(d)
		for i := 0; h.handled.Load() == from; i++ {
			if time.Now().After(deadline) {
				return false
			}
			if i > 200 {
				runtime.Gosched()
			}
		}
		return true
	}
	for k := 0; k < in.Cycles; k++ {
		eng.Pause()
		busy(r.Intn(60))
		before := h.handled.Load()
		eng.Continue()
		if !progressed(before, 3*time.Second) {
			o.Stuck = true
			// a lost wake-up (not a deadlock) is revived by a redundant Continue
			eng.Continue()
			o.Revived = progressed(before, 2*time.Second)
			break
		}
		o.CyclesDone++
	}
	h.stop.Store(true)
	if o.Stuck && !o.Revived {
		return o
	}
	select {
	case <-done:
		o.Done = !o.Stuck
	case <-time.After(5 * time.Second):
	}
	return o
}

func child() {
	var in input
	b, err := os.ReadFile(os.Args[2])
	if err != nil || json.Unmarshal(b, &in) != nil {
		os.Exit(3)
	}
	var o obs
	if in.Scn == "live" {
		o = live(in)
	} else {
		partialOut = os.Args[3]
		o = execute(in)
	}
	ob, _ := json.Marshal(o)
	os.WriteFile(os.Args[3], ob, 0o644)
}

// partialOut: in a child, where execute() saves what it has observed so far before a step that a
// broken engine may not survive
var partialOut string

func savePartial(o obs) {
	if partialOut != "" {
		ob, _ := json.Marshal(o)
		os.WriteFile(partialOut, ob, 0o644)
	}
}

func liveChild(raw json.RawMessage) obs {
	dir, err := os.MkdirTemp("", "c05-")
	if err != nil {
		return obs{Note: err.Error()}
	}
	defer os.RemoveAll(dir)
	inf, outf := filepath.Join(dir, "in.json"), filepath.Join(dir, "out.json")
	os.WriteFile(inf, raw, 0o644)
	self, _ := os.Executable()
	cmd := exec.Command(self, "c05child", inf, outf)
	cmd.Stdout, cmd.Stderr = io.Discard, io.Discard
	fin := make(chan error, 1)
	if err := cmd.Start(); err != nil {
		return obs{Note: err.Error()}
	}
	go func() { fin <- cmd.Wait() }()
	var o obs
	select {
	case <-fin:
		b, rerr := os.ReadFile(outf)
		if rerr != nil || json.Unmarshal(b, &o) != nil {
			o = obs{Note: "child produced no result"}
		}
	case <-time.After(90 * time.Second):
		cmd.Process.Kill()
		o = obs{Note: "child timed out", Stuck: true}
	}
	return o
}

type logger struct {
	mu  sync.Mutex
	evs []label
}

func (l *logger) add(k string, id uint64) {
	l.mu.Lock()
	l.evs = append(l.evs, label{k, id})
	l.mu.Unlock()
}

type event struct {
	id  uint64
	t   timing.VTimeInPicoSec
	sec bool
}

func (e event) Time() timing.VTimeInPicoSec { return e.t }
func (e event) HandlerID() string           { return "h" }
func (e event) IsSecondary() bool           { return e.sec }

type handler struct {
	running atomic.Int64 // handlers currently executing
	eng     timing.Engine
	prog    map[uint64][]Ev
	log     *logger
	gateID  uint64
	gated   bool
	entered chan struct{}
	gate    chan struct{}
	spin    int
	rnd     *hx.Rand
	rmu     sync.Mutex
}

var sink uint64

func busy(n int) {
	x := uint64(1)
	for i := 0; i < n; i++ {
		x = x*6364136223846793005 + 1442695040888963407
	}
	if x == 42 {
		sink++
	}
}

func (h *handler) Handle(e timing.Event) error {
	ev := e.(event)
	h.running.Add(1)
	h.log.add("S", ev.id)
	if h.gated && ev.id == h.gateID {
		close(h.entered)
		<-h.gate
	}
	if h.spin > 0 {
		h.rmu.Lock()
		n := h.rnd.Intn(h.spin)
		h.rmu.Unlock()
		busy(n)
	}
	for _, c := range h.prog[ev.id] {
		h.eng.Schedule(event{c.ID, timing.VTimeInPicoSec(c.Time), c.Sec})
	}
	h.log.add("E", ev.id)
	h.running.Add(-1)
	return nil
}

// stacks returns the goroutine dump split per goroutine.
func stacks() []string {
	buf := make([]byte, 1<<20)
	for {
		n := runtime.Stack(buf, true)
		if n < len(buf) {
			buf = buf[:n]
			break
		}
		buf = make([]byte, 2*len(buf))
	}
	return strings.Split(string(buf), "\n\n")
}

func anyGoroutine(pred func(header, body string) bool) bool {
	for _, g := range stacks() {
		nl := strings.IndexByte(g, '\n')
		if nl < 0 {
			continue
		}
		if pred(g[:nl], g[nl:]) {
			return true
		}
	}
	return false
}

func serialParked() bool {
	return anyGoroutine(func(h, b string) bool {
		return strings.Contains(h, "sync.Cond.Wait") && strings.Contains(b, "(*SerialEngine).waitForResume")
	})
}

func parallelRunBlockedOnLock() bool {
	return anyGoroutine(func(h, b string) bool {
		return strings.Contains(h, "sync.Mutex.Lock") && strings.Contains(b, "(*ParallelEngine).Run") &&
			!strings.Contains(b, "EventQueueImpl")
	})
}

// pausersBlocked counts the goroutines parked in ParallelEngine.Pause's pauseLock.Lock().
func pausersBlocked() int {
	n := 0
	for _, g := range stacks() {
		nl := strings.IndexByte(g, '\n')
		if nl < 0 {
			continue
		}
		if strings.Contains(g[:nl], "sync.Mutex.Lock") && strings.Contains(g[nl:], "(*ParallelEngine).Pause") {
			n++
		}
	}
	return n
}

func pauseBlocked() bool {
	return anyGoroutine(func(h, b string) bool {
		return strings.Contains(h, "sync.Mutex.Lock") && strings.Contains(b, "(*ParallelEngine).Pause")
	})
}

const safety = 20 * time.Second // failure paths only

// waitUntil polls cond (yielding) until it holds, ch is closed, or the safety timeout expires.
func waitUntil(ch <-chan struct{}, cond func() bool) (closed bool, ok bool) {
	deadline := time.Now().Add(safety)
	for i := 0; ; i++ {
		select {
		case <-ch:
			return true, true
		default:
		}
		if cond != nil && cond() {
			return false, true
		}
		if time.Now().After(deadline) {
			return false, false
		}
		runtime.Gosched()
		if i > 50 {
			time.Sleep(50 * time.Microsecond) // polling back-off only; no ordering depends on it
		}
	}
}

func waitClosed(ch <-chan struct{}) bool {
	select {
	case <-ch:
		return true
	case <-time.After(safety):
		return false
	}
}

func execute(in input) obs {
	var eng timing.Engine
	if in.Par {
		eng = timing.NewParallelEngine()
	} else {
		eng = timing.NewSerialEngine()
	}
	lg := &logger{}
	h := &handler{eng: eng, prog: map[uint64][]Ev{}, log: lg, spin: in.Spin,
		rnd: hx.NewRand(in.Seed), entered: make(chan struct{}), gate: make(chan struct{})}
	for k, v := range in.Prog {
		var id uint64
		fmt.Sscan(k, &id)
		h.prog[id] = v
	}
	if in.Scn == "inflight" || in.Scn == "twopause" {
		h.gated, h.gateID = true, in.K
	}
	eng.(timing.HandlerRegistrar).RegisterHandler("h", h)
	for _, e := range in.Init {
		eng.Schedule(event{e.ID, timing.VTimeInPicoSec(e.Time), e.Sec})
	}
	done := make(chan struct{})
	runIt := func() {
		go func() {
			_ = eng.Run()
			close(done)
		}()
	}
	settled := func() bool {
		if in.Par {
			return parallelRunBlockedOnLock()
		}
		return serialParked()
	}
	o := obs{}
	switch in.Scn {
	case "inflight":
		runIt()
		if !waitClosed(h.entered) {
			o.Note = "gated handler never entered"
			close(h.gate)
			break
		}
		pret := make(chan struct{})
		go func() {
			eng.Pause()
			lg.add("P", 0)
			close(pret)
		}()
		// Pause either returns (serial engine) or blocks on the pause lock held by the round.
		closed, ok := waitUntil(pret, pauseBlocked)
		if !ok {
			o.Note = "Pause neither returned nor blocked"
		}
		o.Early = closed
		close(h.gate)
		if !waitClosed(pret) {
			o.Note = "Pause never returned"
			break
		}
		if _, ok := waitUntil(done, settled); !ok {
			o.Note = "engine did not settle after Pause"
		}
		lg.add("C", 0)
		eng.Continue()
	case "twopause":
		// handler K is held mid-flight; TWO goroutines call Pause; each samples the handlers-running
		// counter right after its Pause returns, waits for its turn, then calls Continue
		runIt()
		if !waitClosed(h.entered) {
			o.Note = "gated handler never entered"
			close(h.gate)
			break
		}
		var prets, contGo, contDone [2]chan struct{}
		var samples [2]atomic.Int64
		for p := 0; p < 2; p++ {
			prets[p], contGo[p], contDone[p] = make(chan struct{}), make(chan struct{}), make(chan struct{})
			go func(p int) {
				eng.Pause()
				samples[p].Store(h.running.Load())
				lg.add("P", 0)
				close(prets[p])
				<-contGo[p]
				lg.add("C", 0)
				eng.Continue()
				close(contDone[p])
			}(p)
		}
		returned := func(p int) bool {
			select {
			case <-prets[p]:
				return true
			default:
				return false
			}
		}
		// decisive, no sleep: both pausers parked on the pause lock, or one of the Pause calls has returned
		if _, ok := waitUntil(nil, func() bool { return returned(0) || returned(1) || pausersBlocked() == 2 }); !ok {
			o.Note = "pausers neither returned nor blocked"
		}
		o.Early = returned(0) || returned(1)
		if o.Early {
			lg.mu.Lock()
			o.Trace = append([]label(nil), lg.evs...)
			lg.mu.Unlock()
			o.Samples = []int64{samples[0].Load(), samples[1].Load()}
			savePartial(o)
		}
		close(h.gate)
		left := map[int]bool{0: true, 1: true}
		for len(left) > 0 {
			p := -1
			if _, ok := waitUntil(nil, func() bool {
				for q := range left {
					if returned(q) {
						p = q
						return true
					}
				}
				return false
			}); !ok {
				o.Note += " a Pause never returned"
				break
			}
			if _, ok := waitUntil(done, settled); !ok {
				o.Note += " engine did not settle after Pause"
			}
			close(contGo[p])
			if !waitClosed(contDone[p]) {
				o.Note += " Continue never returned"
				break
			}
			delete(left, p)
		}
		o.Samples = []int64{samples[0].Load(), samples[1].Load()}
		if o.Samples[0] > 0 || o.Samples[1] > 0 {
			o.Early = true
		}
	case "idle":
		eng.Pause()
		lg.add("P", 0)
		runIt()
		if _, ok := waitUntil(done, settled); !ok {
			o.Note = "engine did not settle while paused"
		}
		lg.add("C", 0)
		eng.Continue()
	case "stress":
		runIt()
		r := hx.NewRand(in.Seed ^ 0x5555)
		for i := 0; i < in.NPause; i++ {
			busy(r.Intn(in.Gap + 1))
			eng.Pause()
			lg.add("P", 0)
			busy(r.Intn(in.Gap/4 + 1))
			if r.Intn(4) == 0 {
				runtime.Gosched()
			}
			lg.add("C", 0)
			eng.Continue()
		}
	}
	if in.Scn != "idle" && in.Scn != "inflight" && in.Scn != "stress" && in.Scn != "twopause" {
		runIt()
	}
	o.Done = waitClosed(done)
	lg.mu.Lock()
	o.Trace = append([]label(nil), lg.evs...)
	lg.mu.Unlock()
	return o
}

func coqEv(e Ev) string { return hx.App("mk_ev", hx.N(e.ID), hx.N(e.Time), hx.B(e.Sec)) }

func coqEvs(es []Ev) string {
	s := make([]string, len(es))
	for i, e := range es {
		s[i] = coqEv(e)
	}
	return hx.L(s)
}

func run(raw json.RawMessage) (hx.Case, error) {
	var in input
	if err := hx.UJ(raw, &in); err != nil {
		return hx.Case{}, err
	}
	var o obs
	if in.Scn == "live" || in.Scn == "twopause" {
		o = liveChild(raw)
	} else {
		o = execute(in)
	}
	nev := len(in.Init)
	var progTerms []string
	// deterministic order of the association list
	ids := []uint64{}
	for k := range in.Prog {
		var id uint64
		fmt.Sscan(k, &id)
		ids = append(ids, id)
	}
	for i := range ids {
		for j := i + 1; j < len(ids); j++ {
			if ids[j] < ids[i] {
				ids[i], ids[j] = ids[j], ids[i]
			}
		}
	}
	for _, id := range ids {
		v := in.Prog[fmt.Sprint(id)]
		nev += len(v)
		progTerms = append(progTerms, hx.T(hx.N(id), coqEvs(v)))
	}
	var scn string
	switch in.Scn {
	case "inflight":
		scn = hx.App("ScnInflight", hx.N(in.K))
	case "idle":
		scn = "ScnIdle"
	case "live":
		scn = hx.App("ScnLive", hx.N(uint64(in.Cycles)))
	case "twopause":
		scn = hx.App("ScnTwoPause", hx.N(in.K))
	default:
		scn = "ScnStress"
	}
	tr := make([]string, len(o.Trace))
	for i, l := range o.Trace {
		switch l.Kind {
		case "S":
			tr[i] = hx.App("HStart", hx.N(l.ID))
		case "E":
			tr[i] = hx.App("HEnd", hx.N(l.ID))
		case "P":
			tr[i] = "PauseRet"
		default:
			tr[i] = "ContCall"
		}
	}
	c := hx.Case{Obs: o}
	c.Coq = hx.App("mk_case", hx.B(in.Par), coqEvs(in.Init), hx.L(progTerms), scn,
		hx.Nat(12*(nev+2)), hx.L(tr), hx.B(o.Early), hx.B(o.Done))
	eng := "serial"
	if in.Par {
		eng = "parallel"
	}
	c.Tags = []string{"engine:" + eng, "scenario:" + in.Scn}
	// did some pause land while events were still pending?
	landed := false
	seenEnd := 0
	for _, l := range o.Trace {
		if l.Kind == "E" {
			seenEnd++
		}
		if l.Kind == "P" && seenEnd < nev {
			landed = true
		}
	}
	if landed {
		c.Tags = append(c.Tags, "pause:landed-mid-run")
	}
	c.Nontrivial = nev >= 2 && landed
	if in.Scn == "live" {
		c.Nontrivial = o.CyclesDone >= 100 || o.Stuck
		c.Tags = append(c.Tags, fmt.Sprintf("live-cycles:%d", in.Cycles))
	}
	if !in.Par && (in.Scn == "inflight" || in.Scn == "stress") {
		c.Known = "serial_pause_inflight_handler"
	}
	return c, nil
}

// genProgram builds a random program: n events with unique ids, a forest where a
// handler schedules children at its own or a later time (primary or secondary).
func genProgram(r *hx.Rand, n int) ([]Ev, map[string][]Ev) {
	prog := map[string][]Ev{}
	var init []Ev
	evs := make([]Ev, n)
	for i := 0; i < n; i++ {
		evs[i] = Ev{ID: uint64(i + 1)}
	}
	for i := 0; i < n; i++ {
		if i == 0 || r.Chance(1, 4) {
			evs[i].Time = uint64(r.Intn(5)) * 10
			evs[i].Sec = r.Chance(1, 5)
			init = append(init, evs[i])
			continue
		}
		p := r.Intn(i)
		evs[i].Time = evs[p].Time + uint64(r.Pick(3, 2, 1))*10 // same instant or later
		evs[i].Sec = r.Chance(1, 4)
		k := fmt.Sprint(evs[p].ID)
		prog[k] = append(prog[k], evs[i])
	}
	return init, prog
}

func gen(r *hx.Rand, tier string) []json.RawMessage {
	var out []json.RawMessage
	add := func(in input) { out = append(out, hx.J(in)) }
	nDet, nStress := 24, 14
	if tier == "thorough" {
		nDet, nStress = 150, 120
	}
	// directed: the smallest witnesses on both engines
	two := []Ev{{1, 10, false}, {2, 20, false}}
	for _, par := range []bool{false, true} {
		add(input{Par: par, Init: two, Prog: map[string][]Ev{}, Scn: "inflight", K: 1})
		add(input{Par: par, Init: two, Prog: map[string][]Ev{}, Scn: "inflight", K: 2})
		add(input{Par: par, Init: two, Prog: map[string][]Ev{}, Scn: "idle"})
		add(input{Par: par, Init: nil, Prog: map[string][]Ev{}, Scn: "idle"})
		add(input{Par: par, Init: []Ev{{1, 5, true}, {2, 5, false}, {3, 5, false}},
			Prog: map[string][]Ev{"2": {{4, 5, false}, {5, 5, true}}, "4": {{6, 7, false}}}, Scn: "inflight", K: 4})
	}
	// two pausers whose Pause calls overlap while a handler is executing (parallel engine; subprocess)
	add(input{Par: true, Init: two, Prog: map[string][]Ev{}, Scn: "twopause", K: 1})
	add(input{Par: true, Init: []Ev{{1, 5, true}, {2, 5, false}, {3, 5, false}},
		Prog: map[string][]Ev{"2": {{4, 5, false}, {5, 5, true}}, "4": {{6, 7, false}}}, Scn: "twopause", K: 4})
	nTwo := 2
	if tier == "thorough" {
		nTwo = 30
	}
	for i := 0; i < nTwo; i++ {
		n := r.Range(2, 14)
		init, prog := genProgram(r, n)
		add(input{Par: true, Init: init, Prog: prog, Scn: "twopause", K: uint64(r.Range(1, n))})
	}
	for i := 0; i < nDet; i++ {
		n := r.Range(2, 14)
		init, prog := genProgram(r, n)
		par := r.Bool()
		if r.Chance(2, 3) {
			add(input{Par: par, Init: init, Prog: prog, Scn: "inflight", K: uint64(r.Range(1, n))})
		} else {
			add(input{Par: par, Init: init, Prog: prog, Scn: "idle"})
		}
	}
	// liveness stress in a subprocess: thousands of back-to-back Pause / tiny spin / Continue cycles on a
	// self-rescheduling chain; after every Continue the handled counter must advance (watchdog)
	nLive, cyc := 2, 4000
	if tier == "thorough" {
		nLive, cyc = 6, 40000
	}
	for i := 0; i < nLive; i++ {
		add(input{Par: false, Init: nil, Prog: map[string][]Ev{}, Scn: "live", Cycles: cyc, Seed: r.U64()})
	}
	add(input{Par: true, Init: nil, Prog: map[string][]Ev{}, Scn: "live", Cycles: cyc / 4, Seed: r.U64()})
	for i := 0; i < nStress; i++ {
		n := r.Range(40, 160)
		init, prog := genProgram(r, n)
		add(input{Par: i%2 == 0, Init: init, Prog: prog, Scn: "stress", NPause: r.Range(3, 25),
			Spin: r.Range(500, 20000), Gap: r.Range(100, 20000), Seed: r.U64()})
	}
	return out
}

func shrink(raw json.RawMessage) []json.RawMessage {
	var in input
	if hx.UJ(raw, &in) != nil {
		return nil
	}
	var out []json.RawMessage
	if in.NPause > 1 {
		c := in
		c.NPause = in.NPause / 2
		out = append(out, hx.J(c))
	}
	// drop leaf events (those that schedule nothing and are not the gated one)
	for pk, kids := range in.Prog {
		for i, kid := range kids {
			if len(in.Prog[fmt.Sprint(kid.ID)]) > 0 || (in.Scn == "inflight" && kid.ID == in.K) {
				continue
			}
			c := in
			c.Prog = map[string][]Ev{}
			for k, v := range in.Prog {
				c.Prog[k] = v
			}
			nk := append(append([]Ev{}, kids[:i]...), kids[i+1:]...)
			if len(nk) == 0 {
				delete(c.Prog, pk)
			} else {
				c.Prog[pk] = nk
			}
			out = append(out, hx.J(c))
			if len(out) > 12 {
				return out
			}
		}
	}
	for i, e := range in.Init {
		if len(in.Prog[fmt.Sprint(e.ID)]) > 0 || (in.Scn == "inflight" && e.ID == in.K) || len(in.Init) <= 1 {
			continue
		}
		c := in
		c.Init = append(append([]Ev{}, in.Init[:i]...), in.Init[i+1:]...)
		out = append(out, hx.J(c))
		if len(out) > 16 {
			break
		}
	}
	return out
}

func init() {
	if len(os.Args) >= 4 && os.Args[1] == "c05child" {
		child()
		os.Exit(0)
	}
	hx.Register(&hx.Prop{
		ID:      "C05",
		Imports: "From Akita Require Import Lib.Base C05.Model C05.Exec.",
		Rule: "replayed schedules on the real SerialEngine and ParallelEngine: (inflight) a handler signals 'entered' and blocks on a " +
			"channel, another goroutine calls Pause, the harness records whether Pause returned under the blocked handler, releases it, " +
			"waits (goroutine-stack poll, no sleeps) until the engine is parked / blocked on the pause lock / finished, then Continue; " +
			"(twopause, parallel engine, in a subprocess) the same with TWO goroutines calling Pause, each sampling the handlers-running counter right after its Pause returns, then continuing in turn; (idle) Pause before Run; (live, in a subprocess) thousands of back-to-back Pause / tiny random spin / Continue cycles on a self-rescheduling event chain with a watchdog that requires the handled-event counter to advance after every Continue (GOMAXPROCS >= 2); (stress) a free-running controller issues 3..25 Pause/Continue pairs with random busy-loop gaps " +
			"while 40..160 events with random busy handlers run. Programs are random forests of 2..14 (deterministic scenarios) events, " +
			"children at the same instant or later, primary or secondary. Non-trivial: >=2 events and some Pause returned before the " +
			"last handler ended. Distinct = distinct input hash.",
		Gen: gen, Run: run, Shrink: shrink,
	})
}
