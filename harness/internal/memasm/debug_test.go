package memasm

import (
	"fmt"
	"os"
	"testing"

	"verifharness/internal/hx"
)

func fails(cfg Config) string {
	a := Build(cfg)
	ev := a.Run()
	return goAccepts(ev)
}

func shrinkCfg(cfg Config) Config {
	for changed := true; changed; {
		changed = false
		for chunk := len(cfg.Script) / 2; chunk >= 1; chunk /= 2 {
			for i := 0; i+chunk <= len(cfg.Script); {
				c2 := cfg
				c2.Script = append(append([]Op{}, cfg.Script[:i]...), cfg.Script[i+chunk:]...)
				if fails(c2) != "" {
					cfg = c2
					changed = true
				} else {
					i += chunk
				}
			}
		}
		for i := range cfg.Script {
			if cfg.Script[i].Delay > 0 || cfg.Script[i].Barrier {
				c2 := cfg
				c2.Script = append([]Op{}, cfg.Script...)
				c2.Script[i].Delay = 0
				c2.Script[i].Barrier = false
				if fails(c2) != "" {
					cfg = c2
					changed = true
				}
			}
		}
	}
	return cfg
}

func TestDebug(t *testing.T) {
	if os.Getenv("MEMASM_DEBUG") == "" {
		t.Skip()
	}
	r := hx.NewRand(7)
	n := 0
	for i := 0; i < 3000; i++ {
		cfg := RandomConfig(r, GenOpts{AllowROB: true, NOps: 80, PIDs: i % 3})
		if msg := fails(cfg); msg != "" {
			s := shrinkCfg(cfg)
			fmt.Printf("case %d: %s\n shrunk (%d ops): %s\n", i, fails(s), len(s.Script), hx.J(s))
			a := Build(s)
			for _, e := range a.Run() {
				fmt.Printf("   %s\n", hx.J(e))
			}
			n++
			if n >= 2 {
				break
			}
		}
	}
}
