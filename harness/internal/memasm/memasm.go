// Package memasm builds small REAL akita memory assemblies from a JSON config
// and drives them with a recording requester agent. Owner: builder a-mem1
// (properties C16/C17/C19); other property packages may import it.
//
// # Stable API
//
//	type Config  { ROB *ROBCfg; Caches []CacheCfg; Mem MemCfg; Agent AgentCfg; Script []Op }   (plain JSON)
//	func Build(cfg Config) *Assembly        builds a fresh serial engine, all components, ports, direct connections
//	func (a *Assembly) Run() []Event         starts the agent, runs the REAL serial engine to quiescence, returns the
//	                                         agent's event log (may be called again after AppendScript)
//	func (a *Assembly) AppendScript(ops ...Op)   more script for a further Run (same engine, same components)
//	func (a *Assembly) OnEvent(f func(n int))    hook called after every handled engine event (n = running count)
//	func (a *Assembly) Dirs() []DirSnapshot      directory state + geometry of every cache, top to bottom
//	func (a *Assembly) BackingRead(addr, n) []byte   reads the backing Storage of the memory module owning addr
//	func (a *Assembly) Pending() int         data+control requests of the agent still unanswered
//	Assembly fields: Engine, Agent, ROB, WB/WT (per cache level; exactly one non-nil), Ideal/Banked/DRAM (per module),
//	                 Stores (backing mem.Storage per module), CacheStores (data array per cache level),
//	                 CtrlTargets (name -> Control port remote), Cfg
//	func RandomConfig(r *hx.Rand, o GenOpts) Config   random composition + geometry + workload script
//
// # Topology
//
//	Agent.Mem -> [ROB]? -> cache[0] -> cache[1] -> ... -> {1..N memory modules, interleaved by Mem.Interleave bytes}
//	Agent.Ctrl -> the Control port of every module (separate direct connection)
//
// Every link is a real noc/directconnection; every component is built by the
// package's own Builder with a StandaloneRegistrar over timing.NewSerialEngine().
//
// # Script
//
// The agent issues Script ops strictly in order, at most Agent.IssueWidth per
// tick. A data op (Kind "R"/"W") is held back while (a) any of its bytes is
// touched by an in-flight request (byte disjointness is enforced here, at
// issue time), (b) MaxInflight requests are pending, (c) the port is full.
// A control op (Kind "C") goes to the Control port of the module named
// Target ("ROB", "L0", "L1", ..., "M0", ...). Op.Barrier waits until nothing
// is pending before issuing; Op.Delay waits that many agent ticks first.
//
// # Events
//
// Every message the agent sends or receives is appended to the log:
// Send (Kind "send"): ID, Op R|W, Addr, Size, Data, Mask(nil = all bytes), PID, Dst, Time.
// Recv (Kind "recv"): ID, Op D(ata ready)|A(ck write done), RspTo, Src, Dst, Data, Time.
// Control: Kind "csend" (Op = verb name, Target) / "crecv" (Op verb, Ok, Err, RspTo).
package memasm

import (
	"fmt"

	"github.com/sarchlab/akita/v5/hooking"
	"github.com/sarchlab/akita/v5/mem"
	"github.com/sarchlab/akita/v5/mem/cache"
	"github.com/sarchlab/akita/v5/mem/cache/writeback"
	"github.com/sarchlab/akita/v5/mem/cache/writethroughcache"
	"github.com/sarchlab/akita/v5/mem/dram"
	"github.com/sarchlab/akita/v5/mem/idealmemcontroller"
	"github.com/sarchlab/akita/v5/mem/memcontrolprotocol"
	"github.com/sarchlab/akita/v5/mem/memprotocol"
	"github.com/sarchlab/akita/v5/mem/rob"
	"github.com/sarchlab/akita/v5/mem/simplebankedmemory"
	"github.com/sarchlab/akita/v5/mem/vm"
	"github.com/sarchlab/akita/v5/messaging"
	"github.com/sarchlab/akita/v5/modeling"
	"github.com/sarchlab/akita/v5/noc/directconnection"
	"github.com/sarchlab/akita/v5/timing"
)

// ---------------------------------------------------------------- config

// ROBCfg configures the optional reorder buffer.
type ROBCfg struct {
	BufferSize     int `json:"buffer_size"`
	NumReqPerCycle int `json:"num_req_per_cycle"`
}

// CacheCfg configures one cache level.
type CacheCfg struct {
	// Kind: "writeback" | "write-around" | "write-evict" | "write-through".
	Kind          string `json:"kind"`
	Log2Block     uint64 `json:"log2_block"`
	Ways          int    `json:"ways"`
	Sets          int    `json:"sets"`
	Banks         int    `json:"banks"`
	MSHR          int    `json:"mshr"`
	ReqPerCycle   int    `json:"req_per_cycle"`
	BankLatency   int    `json:"bank_latency"`
	DirLatency    int    `json:"dir_latency"`
	WriteBufCap   int    `json:"write_buf_cap"`  // writeback only
	MaxFetch      int    `json:"max_fetch"`      // writeback only
	MaxEvict      int    `json:"max_evict"`      // writeback only
	MaxConcurrent int    `json:"max_concurrent"` // writethrough only
	PortBuf       int    `json:"port_buf"`
}

// MemCfg configures the backing memory modules.
type MemCfg struct {
	// Kind: "ideal" | "banked" | "dram".
	Kind       string `json:"kind"`
	NumModules int    `json:"num_modules"`
	Interleave uint64 `json:"interleave"` // bytes; used when NumModules > 1
	PortBuf    int    `json:"port_buf"`
	// ideal
	Latency int `json:"latency"`
	Width   int `json:"width"`
	// banked
	NumBanks       int    `json:"num_banks"`
	PipeWidth      int    `json:"pipe_width"`
	PipeDepth      int    `json:"pipe_depth"`
	StageLatency   int    `json:"stage_latency"`
	PostBuf        int    `json:"post_buf"`
	Log2Interleave uint64 `json:"log2_interleave"`
	// dram: "default" (DDR3) | "DDR4" | "DDR5" | "HBM2" | "HBM3" | "GDDR6"
	Preset     string `json:"preset"`
	OpenPage   bool   `json:"open_page"`
	TransQueue int    `json:"trans_queue"`
}

// AgentCfg configures the requester.
type AgentCfg struct {
	MaxInflight int `json:"max_inflight"`
	IssueWidth  int `json:"issue_width"`
	PortBuf     int `json:"port_buf"`
}

// Op is one script step of the agent.
type Op struct {
	Kind    string   `json:"k"` // "R" | "W" | "C" | "S" (the agent stops retrieving data responses for the next Size ticks)
	Addr    uint64   `json:"a,omitempty"`
	Size    uint64   `json:"n,omitempty"` // reads
	Data    []byte   `json:"d,omitempty"` // writes
	Mask    []bool   `json:"m,omitempty"` // writes; nil = every byte
	PID     uint32   `json:"p,omitempty"`
	Delay   int      `json:"dl,omitempty"`
	Barrier bool     `json:"b,omitempty"`
	Cmd     string   `json:"c,omitempty"` // control verb: pause|drain|enable|reset|invalidate|flush
	Target  string   `json:"t,omitempty"` // control target module
	Addrs   []uint64 `json:"fa,omitempty"`
	FPID    uint32   `json:"fp,omitempty"`
}

// Config is a whole assembly plus its workload.
type Config struct {
	ROB    *ROBCfg    `json:"rob,omitempty"`
	Caches []CacheCfg `json:"caches"`
	Mem    MemCfg     `json:"mem"`
	Agent  AgentCfg   `json:"agent"`
	Script []Op       `json:"script"`
}

// Event is one recorded message at the agent's ports.
type Event struct {
	Kind   string `json:"kind"` // send | recv | csend | crecv
	Time   uint64 `json:"time"`
	ID     uint64 `json:"id"`
	Op     string `json:"op"`
	Addr   uint64 `json:"addr,omitempty"`
	Size   uint64 `json:"size,omitempty"`
	Data   []byte `json:"data,omitempty"`
	Mask   []bool `json:"mask,omitempty"`
	PID    uint32 `json:"pid,omitempty"`
	RspTo  uint64 `json:"rsp_to,omitempty"`
	Src    string `json:"src,omitempty"`
	Dst    string `json:"dst,omitempty"`
	Target string `json:"target,omitempty"`
	Ok     bool   `json:"ok,omitempty"`
	Err    string `json:"err,omitempty"`
}

// DirSnapshot is the directory of one cache with its geometry.
type DirSnapshot struct {
	Level     int
	Kind      string
	NumSets   int
	Ways      int
	BlockSize int
	Dir       cache.DirectoryState
}

// ---------------------------------------------------------------- agent

type agentSpec struct {
	Freq timing.Freq `json:"freq"`
}

type agentState struct {
	Cursor int `json:"cursor"`
}

type span struct{ lo, hi uint64 }

// Agent is the recording requester: a real modeling.Component with a "Mem"
// (memprotocol requester) and a "Ctrl" (memcontrolprotocol requester) port.
type Agent struct {
	*modeling.Component[agentSpec, agentState, modeling.None]

	cfg     AgentCfg
	script  []Op
	delay   int
	delayOf int
	route   func(addr uint64) messaging.RemotePort
	ctrl    map[string]messaging.RemotePort

	stallLeft int // ticks left of an "S" op's window (data responses are left on the port)

	pending  map[uint64]span // data requests in flight: id -> byte range
	cpending map[uint64]bool
	Log      []Event
}

type agentMW struct{ a *Agent }

func (m *agentMW) Tick() bool { return m.a.tick() }

func (a *Agent) memPort() messaging.Port  { return a.GetPortByName("Mem") }
func (a *Agent) ctrlPort() messaging.Port { return a.GetPortByName("Ctrl") }

func (a *Agent) now() uint64 { return uint64(a.CurrentTime()) }

func cmdName(c memcontrolprotocol.Command) string {
	switch c {
	case memcontrolprotocol.CmdPause:
		return "pause"
	case memcontrolprotocol.CmdDrain:
		return "drain"
	case memcontrolprotocol.CmdEnable:
		return "enable"
	case memcontrolprotocol.CmdReset:
		return "reset"
	case memcontrolprotocol.CmdInvalidate:
		return "invalidate"
	case memcontrolprotocol.CmdFlush:
		return "flush"
	}
	return fmt.Sprintf("cmd%d", int(c))
}

// CmdOf maps a verb name to the protocol command (unknown names map to an
// out-of-range command value 99 so "unsupported" paths can be exercised).
func CmdOf(s string) memcontrolprotocol.Command {
	switch s {
	case "pause":
		return memcontrolprotocol.CmdPause
	case "drain":
		return memcontrolprotocol.CmdDrain
	case "enable":
		return memcontrolprotocol.CmdEnable
	case "reset":
		return memcontrolprotocol.CmdReset
	case "invalidate":
		return memcontrolprotocol.CmdInvalidate
	case "flush":
		return memcontrolprotocol.CmdFlush
	}
	return memcontrolprotocol.Command(99)
}

func (a *Agent) recv() bool {
	progress := false
	for a.stallLeft == 0 {
		m := a.memPort().RetrieveIncoming()
		if m == nil {
			break
		}
		progress = true
		meta := m.Meta()
		ev := Event{Kind: "recv", Time: a.now(), ID: meta.ID, RspTo: meta.RspTo,
			Src: string(meta.Src), Dst: string(meta.Dst)}
		switch r := m.(type) {
		case memprotocol.DataReadyRsp:
			ev.Op = "D"
			ev.Data = append([]byte{}, r.Data...)
		case memprotocol.WriteDoneRsp:
			ev.Op = "A"
		default:
			ev.Op = fmt.Sprintf("?%T", m)
		}
		delete(a.pending, meta.RspTo)
		a.Log = append(a.Log, ev)
	}
	for {
		m := a.ctrlPort().RetrieveIncoming()
		if m == nil {
			break
		}
		progress = true
		meta := m.Meta()
		ev := Event{Kind: "crecv", Time: a.now(), ID: meta.ID, RspTo: meta.RspTo,
			Src: string(meta.Src), Dst: string(meta.Dst)}
		if r, ok := m.(memcontrolprotocol.Rsp); ok {
			ev.Op = cmdName(r.Command)
			ev.Ok = r.Success
			ev.Err = r.Error
		} else {
			ev.Op = fmt.Sprintf("?%T", m)
		}
		delete(a.cpending, meta.RspTo)
		a.Log = append(a.Log, ev)
	}
	return progress
}

func (a *Agent) overlaps(lo, hi uint64) bool {
	for _, s := range a.pending {
		if lo < s.hi && s.lo < hi {
			return true
		}
	}
	return false
}

// issueOne tries to issue the op at the cursor. It returns (issued, keepTicking).
func (a *Agent) issueOne() (bool, bool) {
	if a.State.Cursor >= len(a.script) {
		return false, false
	}
	op := a.script[a.State.Cursor]
	if op.Delay > 0 {
		if a.delayOf != a.State.Cursor {
			a.delayOf = a.State.Cursor
			a.delay = op.Delay
		}
		if a.delay > 0 {
			a.delay--
			return false, true
		}
	}
	if op.Barrier && (len(a.pending) > 0 || len(a.cpending) > 0) {
		return false, false
	}
	switch op.Kind {
	case "S":
		a.stallLeft = int(op.Size)
	case "C":
		dst, ok := a.ctrl[op.Target]
		if !ok {
			panic("memasm: unknown control target " + op.Target)
		}
		if !a.ctrlPort().CanSend() {
			return false, false
		}
		req := memcontrolprotocol.Req{Command: CmdOf(op.Cmd),
			Addresses: append([]uint64(nil), op.Addrs...), PID: vm.PID(op.FPID)}
		req.ID = timing.GetIDGenerator().Generate()
		req.Src = a.ctrlPort().AsRemote()
		req.Dst = dst
		req.TrafficClass = "memcontrolprotocol.Req"
		a.ctrlPort().Send(req)
		a.cpending[req.ID] = true
		a.Log = append(a.Log, Event{Kind: "csend", Time: a.now(), ID: req.ID, Op: op.Cmd,
			Target: op.Target, Dst: string(dst), Src: string(req.Src)})
	case "R", "W":
		size := op.Size
		if op.Kind == "W" {
			size = uint64(len(op.Data))
		}
		if a.cfg.MaxInflight > 0 && len(a.pending) >= a.cfg.MaxInflight {
			return false, false
		}
		if a.overlaps(op.Addr, op.Addr+size) {
			return false, false
		}
		if !a.memPort().CanSend() {
			return false, false
		}
		dst := a.route(op.Addr)
		ev := Event{Kind: "send", Time: a.now(), Op: op.Kind, Addr: op.Addr, Size: size,
			PID: op.PID, Dst: string(dst), Src: string(a.memPort().AsRemote())}
		if op.Kind == "R" {
			req := memprotocol.ReadReq{Address: op.Addr, AccessByteSize: size, PID: vm.PID(op.PID)}
			req.ID = timing.GetIDGenerator().Generate()
			req.Src = a.memPort().AsRemote()
			req.Dst = dst
			req.TrafficBytes = 12
			req.TrafficClass = "memprotocol.ReadReq"
			a.memPort().Send(req)
			ev.ID = req.ID
		} else {
			req := memprotocol.WriteReq{Address: op.Addr, PID: vm.PID(op.PID),
				Data: append([]byte{}, op.Data...)}
			if op.Mask != nil {
				req.DirtyMask = append([]bool{}, op.Mask...)
			}
			req.ID = timing.GetIDGenerator().Generate()
			req.Src = a.memPort().AsRemote()
			req.Dst = dst
			req.TrafficBytes = len(op.Data) + 12
			req.TrafficClass = "memprotocol.WriteReq"
			a.memPort().Send(req)
			ev.ID = req.ID
			ev.Data = append([]byte{}, op.Data...)
			if op.Mask != nil {
				ev.Mask = append([]bool{}, op.Mask...)
			}
		}
		a.pending[ev.ID] = span{op.Addr, op.Addr + size}
		a.Log = append(a.Log, ev)
	default:
		panic("memasm: bad op kind " + op.Kind)
	}
	a.State.Cursor++
	return true, true
}

func (a *Agent) tick() bool {
	progress := a.recv()
	if a.stallLeft > 0 {
		a.stallLeft--
		progress = true
	}
	w := a.cfg.IssueWidth
	if w < 1 {
		w = 1
	}
	for i := 0; i < w; i++ {
		issued, keep := a.issueOne()
		progress = progress || issued || keep
		if !issued {
			break
		}
	}
	return progress
}

// ---------------------------------------------------------------- assembly

// Assembly is a built, wired set of real components.
type Assembly struct {
	Cfg    Config
	Engine *timing.SerialEngine
	Agent  *Agent
	ROB    *rob.Comp
	WB     []*writeback.Comp         // per cache level (nil if that level is write-through family)
	WT     []*writethroughcache.Comp // per cache level
	Ideal  []*idealmemcontroller.Comp
	Banked []*simplebankedmemory.Comp
	DRAM   []*dram.Comp
	Stores []*mem.Storage // backing storage per memory module
	// CacheStores is the data array (mem.Storage) of every cache level.
	CacheStores []*mem.Storage
	// CtrlTargets maps a module name to its Control port.
	CtrlTargets map[string]messaging.RemotePort

	nEvents int
	hooks   []func(n int)
}

type evHook struct{ a *Assembly }

var _ hooking.Hook = (*evHook)(nil)

func (h *evHook) Func(ctx hooking.HookCtx) {
	if ctx.Pos == timing.HookPosAfterEvent {
		h.a.nEvents++
		for _, f := range h.a.hooks {
			f(h.a.nEvents)
		}
	}
}

func newPort(c messaging.Component, name string, buf int) messaging.Port {
	if buf < 1 {
		buf = 4
	}
	return messaging.NewPort(c, buf, buf, c.Name()+"."+name)
}

func dramSpec(m MemCfg) dram.Spec {
	var s dram.Spec
	switch m.Preset {
	case "DDR4":
		s = dram.DDR4Spec
	case "DDR5":
		s = dram.DDR5Spec
	case "HBM2":
		s = dram.HBM2Spec
	case "HBM3":
		s = dram.HBM3Spec
	case "GDDR6":
		s = dram.GDDR6Spec
	default:
		s = dram.DefaultSpec()
	}
	if m.OpenPage {
		s.PagePolicy = dram.PagePolicyOpen
	}
	if m.TransQueue > 0 {
		s.TransactionQueueSize = m.TransQueue
	}
	return s
}

// Build constructs the assembly described by cfg.
func Build(cfg Config) *Assembly {
	a := &Assembly{Cfg: cfg, CtrlTargets: map[string]messaging.RemotePort{}}
	eng := timing.NewSerialEngine()
	a.Engine = eng
	reg := modeling.NewStandaloneRegistrar(eng)
	eng.AcceptHook(&evHook{a})

	dataConn := func(name string) *directconnection.Comp {
		return directconnection.MakeBuilder().WithRegistrar(reg).Build(name)
	}
	ctrlConn := dataConn("CtrlConn")

	// --- memory modules
	n := cfg.Mem.NumModules
	if n < 1 {
		n = 1
	}
	var memTops []messaging.RemotePort
	memConn := dataConn("MemConn")
	for i := 0; i < n; i++ {
		name := fmt.Sprintf("M%d", i)
		var top, ctl messaging.Port
		switch cfg.Mem.Kind {
		case "ideal":
			s := idealmemcontroller.DefaultSpec()
			s.Latency = cfg.Mem.Latency
			if cfg.Mem.Width > 0 {
				s.Width = cfg.Mem.Width
			}
			st := mem.NewStorage(4 * mem.GB)
			c := idealmemcontroller.MakeBuilder().WithRegistrar(reg).WithSpec(s).
				WithResources(idealmemcontroller.Resources{Storage: st}).Build(name)
			top, ctl = newPort(c, "Top", cfg.Mem.PortBuf), newPort(c, "Control", 4)
			c.AssignPort("Top", top)
			c.AssignPort("Control", ctl)
			a.Ideal = append(a.Ideal, c)
			a.Stores = append(a.Stores, st)
		case "banked":
			s := simplebankedmemory.DefaultSpec()
			if cfg.Mem.NumBanks > 0 {
				s.NumBanks = cfg.Mem.NumBanks
			}
			if cfg.Mem.PipeWidth > 0 {
				s.BankPipelineWidth = cfg.Mem.PipeWidth
			}
			s.BankPipelineDepth = cfg.Mem.PipeDepth
			if cfg.Mem.StageLatency > 0 {
				s.StageLatency = cfg.Mem.StageLatency
			}
			if cfg.Mem.PostBuf > 0 {
				s.PostPipelineBufSize = cfg.Mem.PostBuf
			}
			if cfg.Mem.Log2Interleave > 0 {
				s.BankSelectorLog2InterleaveSize = cfg.Mem.Log2Interleave
			}
			st := mem.NewStorage(4 * mem.GB)
			c := simplebankedmemory.MakeBuilder().WithRegistrar(reg).WithSpec(s).
				WithResources(simplebankedmemory.Resources{Storage: st}).Build(name)
			top, ctl = newPort(c, "Top", cfg.Mem.PortBuf), newPort(c, "Control", 4)
			c.AssignPort("Top", top)
			c.AssignPort("Control", ctl)
			a.Banked = append(a.Banked, c)
			a.Stores = append(a.Stores, st)
		case "dram":
			st := mem.NewStorage(64 * mem.GB)
			c := dram.MakeBuilder().WithRegistrar(reg).WithSpec(dramSpec(cfg.Mem)).
				WithResources(dram.Resources{Storage: st}).Build(name)
			top, ctl = newPort(c, "Top", cfg.Mem.PortBuf), newPort(c, "Control", 4)
			c.AssignPort("Top", top)
			c.AssignPort("Control", ctl)
			a.DRAM = append(a.DRAM, c)
			a.Stores = append(a.Stores, st)
		default:
			panic("memasm: unknown memory kind " + cfg.Mem.Kind)
		}
		memConn.PlugIn(top)
		ctrlConn.PlugIn(ctl)
		memTops = append(memTops, top.AsRemote())
		a.CtrlTargets[name] = ctl.AsRemote()
	}

	bottomMapper := func() mem.AddressToPortMapper {
		if n == 1 {
			return &mem.SinglePortMapper{Port: memTops[0]}
		}
		return &mem.InterleavedAddressPortMapper{
			InterleavingSize: cfg.Mem.Interleave, LowModules: memTops}
	}
	route := func(addr uint64) messaging.RemotePort {
		if n == 1 {
			return memTops[0]
		}
		return memTops[addr/cfg.Mem.Interleave%uint64(n)]
	}

	// --- caches, bottom-up
	a.WB = make([]*writeback.Comp, len(cfg.Caches))
	a.WT = make([]*writethroughcache.Comp, len(cfg.Caches))
	a.CacheStores = make([]*mem.Storage, len(cfg.Caches))
	var below messaging.RemotePort // Top port of the level below (single)
	conn := memConn
	for i := len(cfg.Caches) - 1; i >= 0; i-- {
		cc := cfg.Caches[i]
		name := fmt.Sprintf("L%d", i)
		var mapper mem.AddressToPortMapper
		if i == len(cfg.Caches)-1 {
			mapper = bottomMapper()
		} else {
			mapper = &mem.SinglePortMapper{Port: below}
		}
		total := uint64(cc.Sets*cc.Ways) << cc.Log2Block
		cst := mem.NewStorage(total)
		a.CacheStores[i] = cst
		var top, bot, ctl messaging.Port
		if cc.Kind == "writeback" {
			s := writeback.DefaultSpec()
			s.Log2BlockSize = cc.Log2Block
			s.WayAssociativity = cc.Ways
			s.TotalByteSize = total
			s.NumBanks = cc.Banks
			s.NumMSHREntry = cc.MSHR
			s.NumReqPerCycle = cc.ReqPerCycle
			s.BankLatency = cc.BankLatency
			s.DirLatency = cc.DirLatency
			if cc.WriteBufCap > 0 {
				s.WriteBufferCapacity = cc.WriteBufCap
			}
			if cc.MaxFetch > 0 {
				s.MaxInflightFetch = cc.MaxFetch
			}
			if cc.MaxEvict > 0 {
				s.MaxInflightEviction = cc.MaxEvict
			}
			c := writeback.MakeBuilder().WithRegistrar(reg).WithSpec(s).
				WithResources(writeback.Resources{
					Storage: cst, AddressToPortMapper: mapper}).Build(name)
			top, bot, ctl = newPort(c, "Top", cc.PortBuf), newPort(c, "Bottom", cc.PortBuf), newPort(c, "Control", 4)
			c.AssignPort("Top", top)
			c.AssignPort("Bottom", bot)
			c.AssignPort("Control", ctl)
			a.WB[i] = c
		} else {
			s := writethroughcache.DefaultSpec()
			s.WritePolicyType = cc.Kind
			s.Log2BlockSize = cc.Log2Block
			s.WayAssociativity = cc.Ways
			s.TotalByteSize = total
			s.NumBanks = cc.Banks
			s.NumMSHREntry = cc.MSHR
			s.NumReqPerCycle = cc.ReqPerCycle
			s.BankLatency = cc.BankLatency
			s.DirLatency = cc.DirLatency
			if cc.MaxConcurrent > 0 {
				s.MaxNumConcurrentTrans = cc.MaxConcurrent
			}
			c := writethroughcache.MakeBuilder().WithRegistrar(reg).WithSpec(s).
				WithResources(writethroughcache.Resources{
					Storage: cst, AddressMapper: mapper}).Build(name)
			top, bot, ctl = newPort(c, "Top", cc.PortBuf), newPort(c, "Bottom", cc.PortBuf), newPort(c, "Control", 4)
			c.AssignPort("Top", top)
			c.AssignPort("Bottom", bot)
			c.AssignPort("Control", ctl)
			a.WT[i] = c
		}
		conn.PlugIn(bot)
		ctrlConn.PlugIn(ctl)
		a.CtrlTargets[name] = ctl.AsRemote()
		conn = dataConn(fmt.Sprintf("Conn%d", i))
		conn.PlugIn(top)
		below = top.AsRemote()
	}

	// --- ROB
	if cfg.ROB != nil {
		if len(cfg.Caches) == 0 && n > 1 {
			panic("memasm: a ROB needs a single unit below it")
		}
		if len(cfg.Caches) == 0 {
			below = memTops[0]
		}
		s := rob.DefaultSpec()
		if cfg.ROB.BufferSize > 0 {
			s.BufferSize = cfg.ROB.BufferSize
		}
		if cfg.ROB.NumReqPerCycle > 0 {
			s.NumReqPerCycle = cfg.ROB.NumReqPerCycle
		}
		s.BottomUnit = below
		c := rob.MakeBuilder().WithRegistrar(reg).WithSpec(s).Build("ROB")
		top, bot, ctl := newPort(c, "Top", 4), newPort(c, "Bottom", 4), newPort(c, "Control", 4)
		c.AssignPort("Top", top)
		c.AssignPort("Bottom", bot)
		c.AssignPort("Control", ctl)
		conn.PlugIn(bot)
		ctrlConn.PlugIn(ctl)
		a.CtrlTargets["ROB"] = ctl.AsRemote()
		conn = dataConn("ConnROB")
		conn.PlugIn(top)
		below = top.AsRemote()
		a.ROB = c
	}

	// --- agent
	mc := modeling.NewBuilder[agentSpec, agentState, modeling.None]().
		WithEngine(eng).WithFreq(1 * timing.GHz).WithSpec(agentSpec{Freq: 1 * timing.GHz}).Build("Agent")
	ag := &Agent{Component: mc, cfg: cfg.Agent, script: append([]Op(nil), cfg.Script...),
		delayOf: -1, ctrl: a.CtrlTargets, pending: map[uint64]span{}, cpending: map[uint64]bool{}}
	mc.AddMiddleware(&agentMW{ag})
	mc.DeclarePort("Mem", memprotocol.Requester)
	mc.DeclarePort("Ctrl", memcontrolprotocol.Requester)
	mp := newPort(mc, "Mem", cfg.Agent.PortBuf)
	cp := newPort(mc, "Ctrl", 4)
	mc.AssignPort("Mem", mp)
	mc.AssignPort("Ctrl", cp)
	conn.PlugIn(mp)
	ctrlConn.PlugIn(cp)
	if cfg.ROB == nil && len(cfg.Caches) == 0 {
		ag.route = route
	} else {
		b := below
		ag.route = func(uint64) messaging.RemotePort { return b }
	}
	a.Agent = ag
	return a
}

// OnEvent registers a function called after every handled engine event.
func (a *Assembly) OnEvent(f func(n int)) { a.hooks = append(a.hooks, f) }

// AppendScript adds ops for a later Run.
func (a *Assembly) AppendScript(ops ...Op) { a.Agent.script = append(a.Agent.script, ops...) }

// Run starts the agent and runs the serial engine until no event is left.
func (a *Assembly) Run() []Event {
	a.Agent.TickLater()
	if err := a.Engine.Run(); err != nil {
		panic(err)
	}
	return a.Agent.Log
}

// Pending counts unanswered data and control requests of the agent.
func (a *Assembly) Pending() int { return len(a.Agent.pending) + len(a.Agent.cpending) }

// ScriptDone reports whether the agent issued every script op.
func (a *Assembly) ScriptDone() bool { return a.Agent.State.Cursor >= len(a.Agent.script) }

// CopyDir deep-copies a directory state (the live state is mutated in place).
func CopyDir(d cache.DirectoryState) cache.DirectoryState {
	out := cache.DirectoryState{Sets: make([]cache.SetState, len(d.Sets))}
	for i, s := range d.Sets {
		out.Sets[i].Blocks = make([]cache.BlockState, len(s.Blocks))
		for j, b := range s.Blocks {
			nb := b
			if b.DirtyMask != nil {
				nb.DirtyMask = append([]bool{}, b.DirtyMask...)
			}
			out.Sets[i].Blocks[j] = nb
		}
		out.Sets[i].LRUOrder = append([]int{}, s.LRUOrder...)
	}
	return out
}

// Dirs returns a deep copy of the directory of every cache level.
func (a *Assembly) Dirs() []DirSnapshot {
	var out []DirSnapshot
	for i := range a.Cfg.Caches {
		if c := a.WB[i]; c != nil {
			sp := c.Spec()
			out = append(out, DirSnapshot{Level: i, Kind: "writeback", NumSets: sp.NumSets,
				Ways: sp.WayAssociativity, BlockSize: 1 << sp.Log2BlockSize, Dir: CopyDir(c.State.DirectoryState)})
		}
		if c := a.WT[i]; c != nil {
			sp := c.Spec()
			out = append(out, DirSnapshot{Level: i, Kind: sp.WritePolicyType, NumSets: sp.NumSets,
				Ways: sp.WayAssociativity, BlockSize: 1 << sp.Log2BlockSize, Dir: CopyDir(c.State.DirectoryState)})
		}
	}
	return out
}

// ModuleOf returns the index of the memory module that owns addr.
func (a *Assembly) ModuleOf(addr uint64) int {
	n := len(a.Stores)
	if n == 1 {
		return 0
	}
	return int(addr / a.Cfg.Mem.Interleave % uint64(n))
}

// BackingRead reads n bytes at addr directly from the backing Storage of the
// memory module that owns addr (the range must not cross an interleave stripe).
func (a *Assembly) BackingRead(addr, n uint64) []byte {
	d, err := a.Stores[a.ModuleOf(addr)].Read(addr, n)
	if err != nil {
		panic(err)
	}
	return d
}
