package memasm

import "verifharness/internal/hx"

// GenOpts steers RandomConfig.
type GenOpts struct {
	MaxCaches  int      // 0..MaxCaches cache levels (default 2)
	MinCaches  int      // at least this many levels
	CacheKinds []string // allowed kinds (default: all four)
	TopKind    string   // if set, the kind of cache level 0 (forces >= 1 level)
	MemKinds   []string // allowed memory kinds (default ideal, banked, dram)
	AllowROB   bool
	NOps       int  // data ops in the script (default 40)
	PIDs       int  // 0: every request has PID 0; k>0: PID = 1 + lineIndex mod k
	RandomPIDs bool // PID drawn per op (not a function of the line) from 0..PIDs
}

var allCacheKinds = []string{"writeback", "write-around", "write-evict", "write-through"}

func pickS(r *hx.Rand, xs []string) string { return xs[r.Intn(len(xs))] }
func pickI(r *hx.Rand, xs ...int) int      { return xs[r.Intn(len(xs))] }

// RandomCache draws one cache geometry with the given block size.
func RandomCache(r *hx.Rand, kind string, log2Block uint64) CacheCfg {
	c := CacheCfg{Kind: kind, Log2Block: log2Block,
		Ways: pickI(r, 1, 2, 2, 4), Sets: pickI(r, 1, 2, 2, 4), Banks: pickI(r, 1, 1, 2),
		MSHR: pickI(r, 1, 2, 4), ReqPerCycle: pickI(r, 1, 2, 4),
		BankLatency: pickI(r, 1, 2, 5), DirLatency: pickI(r, 1, 2),
		PortBuf: pickI(r, 1, 2, 4, 16)}
	if kind == "writeback" {
		c.BankLatency = pickI(r, 0, 1, 2, 5)
		c.DirLatency = pickI(r, 0, 1, 2)
		c.WriteBufCap = pickI(r, 1, 2, 8)
		c.MaxFetch = pickI(r, 1, 2, 8)
		c.MaxEvict = pickI(r, 1, 2, 8)
	} else {
		c.MaxConcurrent = pickI(r, 1, 2, 4, 16)
	}
	return c
}

// RandomMem draws a memory configuration.
func RandomMem(r *hx.Rand, kind string, minInterleave uint64) MemCfg {
	m := MemCfg{Kind: kind, NumModules: pickI(r, 1, 1, 2, 3), PortBuf: pickI(r, 1, 2, 4, 16)}
	il := []uint64{64, 128, 4096}[r.Intn(3)]
	for il < minInterleave {
		il *= 2
	}
	m.Interleave = il
	switch kind {
	case "ideal":
		m.Latency = pickI(r, 0, 1, 3, 10)
		m.Width = pickI(r, 1, 2, 4)
	case "banked":
		m.NumBanks = pickI(r, 1, 2, 4)
		m.PipeWidth = pickI(r, 1, 2)
		m.PipeDepth = pickI(r, 0, 1, 2)
		m.StageLatency = pickI(r, 1, 2, 4)
		m.PostBuf = pickI(r, 1, 2)
		m.Log2Interleave = 6
	case "dram":
		m.Preset = pickS(r, []string{"default", "DDR4", "DDR5", "HBM2", "HBM3", "GDDR6"})
		m.OpenPage = r.Bool()
		m.TransQueue = pickI(r, 0, 4, 8)
	}
	return m
}

// RandomScript draws n data ops over a pool of lines of the given size.
// Returned ops stay inside one line each.
func RandomScript(r *hx.Rand, n int, line uint64, poolLines int, o GenOpts) []Op {
	if poolLines < 1 {
		poolLines = 1
	}
	base := []uint64{0, 0, 0x1000, 0x10000, 0xfff00000}[r.Intn(5)]
	base = base / line * line
	pool := make([]uint64, poolLines)
	for i := range pool {
		switch r.Pick(3, 2, 1) {
		case 0: // contiguous
			pool[i] = base + uint64(i)*line
		case 1: // random nearby
			pool[i] = base + r.U64n(uint64(poolLines)*8)*line
		default: // strided (power of two stride: same low index bits)
			pool[i] = base + uint64(i)*line*64
		}
	}
	var ops []Op
	for len(ops) < n {
		li := r.Intn(poolLines)
		la := pool[li]
		var pid uint32
		if o.PIDs > 0 {
			if o.RandomPIDs {
				pid = uint32(r.Intn(o.PIDs + 1))
			} else {
				pid = 1 + uint32((la/64)%uint64(o.PIDs)) // a function of the 64-byte line: the largest block size used
			}
		}
		var size uint64
		switch r.Pick(3, 3, 2, 3) {
		case 0:
			size = line
		case 1:
			size = uint64(1) << uint(r.Intn(4)) // 1,2,4,8
		case 2:
			size = 1 + r.U64n(line)
		default:
			size = 4
		}
		if size > line {
			size = line
		}
		off := r.U64n(line - size + 1)
		if r.Chance(1, 2) && size&(size-1) == 0 {
			off = off / size * size
		}
		op := Op{Addr: la + off, PID: pid}
		if r.Chance(1, 8) {
			op.Delay = 1 + r.Intn(30)
		}
		if r.Chance(1, 25) {
			op.Barrier = true
		}
		if r.Chance(1, 2) {
			op.Kind = "R"
			op.Size = size
		} else {
			op.Kind = "W"
			op.Data = r.Bytes(int(size))
			for i := range op.Data { // never write zero: distinguishes "written" from "never written"
				if op.Data[i] == 0 {
					op.Data[i] = 1 + byte(r.Intn(255))
				}
			}
			switch r.Pick(5, 3, 1, 1) {
			case 0: // nil mask
			case 1:
				op.Mask = make([]bool, size)
				for i := range op.Mask {
					op.Mask[i] = r.Bool()
				}
			case 2:
				op.Mask = make([]bool, size)
				for i := range op.Mask {
					op.Mask[i] = true
				}
			default:
				op.Mask = make([]bool, size) // nothing dirty
			}
		}
		ops = append(ops, op)
	}
	return ops
}

// RandomConfig draws a composition, geometries and a workload.
func RandomConfig(r *hx.Rand, o GenOpts) Config {
	if o.MaxCaches == 0 && o.MinCaches == 0 && o.TopKind == "" {
		o.MaxCaches = 2
	}
	if o.MaxCaches < o.MinCaches {
		o.MaxCaches = o.MinCaches
	}
	kinds := o.CacheKinds
	if len(kinds) == 0 {
		kinds = allCacheKinds
	}
	memKinds := o.MemKinds
	if len(memKinds) == 0 {
		memKinds = []string{"ideal", "ideal", "banked", "dram"}
	}
	if o.NOps == 0 {
		o.NOps = 40
	}
	var cfg Config
	nc := o.MinCaches + r.Intn(o.MaxCaches-o.MinCaches+1)
	if o.TopKind != "" && nc == 0 {
		nc = 1
	}
	lb := uint64(pickI(r, 4, 5, 6, 6))
	topLine := uint64(64)
	capLines := 0
	for i := 0; i < nc; i++ {
		k := pickS(r, kinds)
		if i == 0 && o.TopKind != "" {
			k = o.TopKind
		}
		c := RandomCache(r, k, lb)
		cfg.Caches = append(cfg.Caches, c)
		if i == 0 {
			topLine = uint64(1) << lb
			capLines = c.Sets * c.Ways
		}
		if lb < 6 && r.Bool() {
			lb++
		}
	}
	minIl := uint64(64)
	cfg.Mem = RandomMem(r, pickS(r, memKinds), minIl)
	if o.AllowROB && r.Chance(1, 3) {
		cfg.ROB = &ROBCfg{BufferSize: pickI(r, 1, 2, 8), NumReqPerCycle: pickI(r, 1, 2, 4)}
		if nc == 0 {
			cfg.Mem.NumModules = 1
		}
	}
	cfg.Agent = AgentCfg{MaxInflight: pickI(r, 1, 2, 4, 8, 16), IssueWidth: pickI(r, 1, 1, 2), PortBuf: pickI(r, 1, 2, 4, 16)}
	pool := capLines*2 + 2 + r.Intn(4)
	if nc == 0 {
		pool = 4 + r.Intn(8)
	}
	cfg.Script = RandomScript(r, o.NOps, topLine, pool, o)
	return cfg
}
