package memasm

import (
	"bytes"
	"fmt"
	"testing"

	"verifharness/internal/hx"
)

// goAccepts is a plain-Go pre-check of the requester view (the real check is in Coq).
func goAccepts(ev []Event) string {
	ref := map[uint64]byte{}
	pend := map[uint64]Event{}
	for _, e := range ev {
		switch e.Kind {
		case "send":
			pend[e.ID] = e
		case "recv":
			p, ok := pend[e.RspTo]
			if !ok {
				return "recv without pending"
			}
			delete(pend, e.RspTo)
			if p.Op == "R" {
				if e.Op != "D" {
					return "kind"
				}
				want := make([]byte, p.Size)
				for i := range want {
					want[i] = ref[p.Addr+uint64(i)]
				}
				if !bytes.Equal(want, e.Data) {
					return fmt.Sprintf("read data at %#x: want %v got %v", p.Addr, want, e.Data)
				}
			} else {
				if e.Op != "A" {
					return "kind"
				}
				for i, b := range p.Data {
					if p.Mask == nil || p.Mask[i] {
						ref[p.Addr+uint64(i)] = b
					}
				}
			}
		}
	}
	if len(pend) > 0 {
		return "pending at end"
	}
	return ""
}

func TestSmoke(t *testing.T) {
	r := hx.NewRand(7)
	bad := 0
	for i := 0; i < 300; i++ {
		cfg := RandomConfig(r, GenOpts{AllowROB: true, NOps: 80, PIDs: i % 3})
		a := Build(cfg)
		ev := a.Run()
		if a.Pending() != 0 || !a.ScriptDone() {
			fmt.Printf("case %d: pending=%d done=%v events=%d cfg=%s\n", i, a.Pending(), a.ScriptDone(), len(ev), hx.J(cfg)[:300])
		}
		if msg := goAccepts(ev); msg != "" {
			bad++
			if bad < 15 {
				cfg.Script = nil
				fmt.Printf("case %d: %s\n   cfg=%s\n", i, msg, hx.J(cfg))
			}
		}
	}
	fmt.Println("bad", bad)
}
