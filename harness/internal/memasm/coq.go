package memasm

import (
	"github.com/sarchlab/akita/v5/mem/cache"

	"verifharness/internal/hx"
)

// CoqBlock prints a cache.BlockState as a term of Akita.C19.Model.block.
func CoqBlock(b cache.BlockState, withMask bool) string {
	mask := hx.None()
	if withMask && b.DirtyMask != nil {
		ms := make([]string, len(b.DirtyMask))
		for i, m := range b.DirtyMask {
			ms[i] = hx.B(m)
		}
		mask = hx.Some(hx.L(ms))
	}
	return hx.App("B", hx.N(uint64(b.PID)), hx.N(b.Tag), hx.Z(int64(b.WayID)), hx.Z(int64(b.SetID)),
		hx.N(b.CacheAddress), hx.B(b.IsValid), hx.B(b.IsDirty), hx.Z(int64(b.ReadCount)), hx.B(b.IsLocked), mask)
}

// CoqDir prints a cache.DirectoryState as a term of Akita.C19.Model.dir.
func CoqDir(d cache.DirectoryState, withMask bool) string {
	sets := make([]string, len(d.Sets))
	for i, s := range d.Sets {
		bs := make([]string, len(s.Blocks))
		for j, b := range s.Blocks {
			bs[j] = CoqBlock(b, withMask)
		}
		lru := make([]string, len(s.LRUOrder))
		for j, w := range s.LRUOrder {
			lru[j] = hx.Z(int64(w))
		}
		sets[i] = hx.App("S", hx.L(bs), hx.L(lru))
	}
	return hx.L(sets)
}

// DirEqual compares two directory states field by field (masks included).
func DirEqual(a, b cache.DirectoryState) bool {
	if len(a.Sets) != len(b.Sets) {
		return false
	}
	for i := range a.Sets {
		x, y := a.Sets[i], b.Sets[i]
		if len(x.Blocks) != len(y.Blocks) || len(x.LRUOrder) != len(y.LRUOrder) {
			return false
		}
		for j := range x.LRUOrder {
			if x.LRUOrder[j] != y.LRUOrder[j] {
				return false
			}
		}
		for j := range x.Blocks {
			p, q := x.Blocks[j], y.Blocks[j]
			if p.PID != q.PID || p.Tag != q.Tag || p.WayID != q.WayID || p.SetID != q.SetID ||
				p.CacheAddress != q.CacheAddress || p.IsValid != q.IsValid || p.IsDirty != q.IsDirty ||
				p.ReadCount != q.ReadCount || p.IsLocked != q.IsLocked || (p.DirtyMask == nil) != (q.DirtyMask == nil) ||
				len(p.DirtyMask) != len(q.DirtyMask) {
				return false
			}
			for k := range p.DirtyMask {
				if p.DirtyMask[k] != q.DirtyMask[k] {
					return false
				}
			}
		}
	}
	return true
}

// RandomDir draws a directory state for kernel ties: mostly well-formed
// (valid blocks in their home set, distinct lines, permutation LRU lists),
// with a share of arbitrary flags and, if malformed is set, broken LRU lists.
func RandomDir(r *hx.Rand, ns, ways, bs int, malformed bool) cache.DirectoryState {
	var d cache.DirectoryState
	cache.DirectoryReset(&d, ns, ways, bs)
	// candidate lines grouped by home set
	home := make([][]uint64, ns)
	base := []uint64{0, 0x1000, 0xfff00000}[r.Intn(3)]
	for k := 0; k < 24*ns*ways; k++ {
		a := base + uint64(k)*uint64(bs)
		h := cache.DirectorySetID(a, bs, ns)
		home[h] = append(home[h], a)
	}
	for i := range d.Sets {
		s := &d.Sets[i]
		used := map[uint64]bool{}
		for j := range s.Blocks {
			b := &s.Blocks[j]
			if r.Chance(3, 4) && len(home[i]) > 0 {
				a := home[i][r.Intn(len(home[i]))]
				if r.Chance(1, 12) { // a line of another set / unaligned: ill-formed on purpose
					a = base + r.U64n(512)
				} else if used[a] && r.Chance(7, 8) {
					continue
				}
				used[a] = true
				b.Tag = a
				b.PID = uint32(r.Intn(3))
				b.IsValid = r.Chance(5, 6)
				b.IsDirty = r.Bool()
				b.IsLocked = r.Chance(1, 3)
				b.ReadCount = []int{0, 0, 0, 1, 2, 5}[r.Intn(6)]
				if r.Chance(1, 40) {
					b.ReadCount = -1
				}
				if r.Chance(1, 3) {
					b.DirtyMask = make([]bool, bs)
					for k := range b.DirtyMask {
						b.DirtyMask[k] = r.Bool()
					}
				}
			}
		}
		// LRU: random permutation
		for j := ways - 1; j > 0; j-- {
			k := r.Intn(j + 1)
			s.LRUOrder[j], s.LRUOrder[k] = s.LRUOrder[k], s.LRUOrder[j]
		}
		if malformed && r.Chance(1, 2) {
			switch r.Intn(5) {
			case 0:
				s.LRUOrder = s.LRUOrder[:r.Intn(len(s.LRUOrder)+1)]
			case 1:
				s.LRUOrder[r.Intn(ways)] = ways + r.Intn(3)
			case 2:
				s.LRUOrder[r.Intn(ways)] = -1 - r.Intn(2)
			case 3:
				s.LRUOrder[r.Intn(ways)] = s.LRUOrder[r.Intn(ways)]
			default:
				s.LRUOrder = append(s.LRUOrder, r.Intn(ways))
			}
		}
	}
	if r.Chance(1, 6) { // everything busy in one set: the fallback path of FindVictim
		s := &d.Sets[r.Intn(ns)]
		for j := range s.Blocks {
			if r.Bool() {
				s.Blocks[j].IsLocked = true
			} else {
				s.Blocks[j].ReadCount = 1 + r.Intn(3)
			}
		}
	}
	return d
}
