package c06

import (
	"github.com/sarchlab/akita/v5/timing"

	"verifharness/internal/hx"
)

// Exported pieces of the scripted simulation, reused by C33 / C03.

// ScriptSim is a built scripted simulation.
type ScriptSim = scriptSim

// BuildScriptSim builds a scripted simulation (the ID generator is reset first).
func BuildScriptSim(in *ScriptInput) *ScriptSim { return buildScriptSim(in) }

// ScheduleInits schedules the initial events.
func (s *scriptSim) ScheduleInits(in *ScriptInput) { s.scheduleInits(in) }

// Engine returns the serial engine.
func (s *scriptSim) Engine() *timing.SerialEngine { return s.engine }

// Trace returns the handled events.
func (s *scriptSim) Trace() []Rec { return s.w.trace }

// FinalState returns the projected final state.
func (s *scriptSim) FinalState() Final { return s.final() }

// Close terminates and cleans up.
func (s *scriptSim) Close() { s.close() }

// GenScript draws a random script.
func GenScript(r *hx.Rand) *ScriptInput { return genScript(r) }

// RecsCoq / FinalCoq / ScriptTermCoq print Coq terms.
func RecsCoq(rs []Rec) string { return recsCoq(rs) }

// FinalCoq prints a final state.
func FinalCoq(f Final) string { return finalCoq(f) }

// ScriptPartsCoq prints (script, inits) terms.
func ScriptPartsCoq(in *ScriptInput) (string, string) {
	o := &scriptObs{}
	_ = o
	hs := make([]string, len(in.Script))
	for h, rows := range in.Script {
		rs := make([]string, len(rows))
		for i, row := range rows {
			es := make([]string, len(row))
			for j, r := range row {
				es[j] = hx.App("mk_rule", hx.N(r.Dt), hx.N(uint64(r.Target)), hx.B(r.Sec), hx.N(r.Tag))
			}
			rs[i] = hx.L(es)
		}
		hs[h] = hx.L(rs)
	}
	is := make([]string, len(in.Inits))
	for i, x := range in.Inits {
		is[i] = hx.T(hx.N(x.T), hx.N(uint64(x.H)), hx.B(x.Sec), hx.N(x.Budget), hx.N(x.Tag))
	}
	return hx.L(hs), hx.L(is)
}
