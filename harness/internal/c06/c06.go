package c06

import (
	"encoding/json"
	"fmt"
	"sort"

	"github.com/sarchlab/akita/v5/hooking"

	"verifharness/internal/asm"
	"verifharness/internal/hx"
)

type hookCtx = hooking.HookCtx

type kindOnly struct {
	Kind string `json:"kind"`
}

func run(raw json.RawMessage) (hx.Case, error) {
	var k kindOnly
	if err := hx.UJ(raw, &k); err != nil {
		return hx.Case{}, err
	}
	switch k.Kind {
	case "script":
		var in ScriptInput
		if err := hx.UJ(raw, &in); err != nil {
			return hx.Case{}, err
		}
		o := runScript(&in)
		c := hx.Case{Obs: o, Coq: scriptCoq(&in, &o)}
		sameInstant := false
		for i := 1; i < len(o.Ref); i++ {
			if o.Ref[i].T == o.Ref[i-1].T && o.Ref[i].Sec != o.Ref[i-1].Sec {
				sameInstant = true
			}
		}
		c.Nontrivial = len(o.Pre) > 0 && len(o.Suf) > 0 && sameInstant
		c.Tags = []string{"script", fmt.Sprintf("script:events<=%d", bucket(len(o.Ref)))}
		if len(o.Pre) > 0 && len(o.Suf) > 0 {
			c.Tags = append(c.Tags, "cut:mid-run")
		} else if len(o.Suf) == 0 {
			c.Tags = append(c.Tags, "cut:after-end")
		} else {
			c.Tags = append(c.Tags, "cut:before-start")
		}
		return c, nil
	case "lib":
		var in LibInput
		if err := hx.UJ(raw, &in); err != nil {
			return hx.Case{}, err
		}
		o := runLib(&in)
		obs := map[string]any{"events_ref": len(o.Ref), "events_pre": len(o.Pre), "events_suf": len(o.Suf),
			"entities": len(o.FinRef), "differing_entities": o.DiffEntities, "driver_done": o.Done,
			"save_err": o.SaveErr, "load_err": o.LoadErr, "end_ref": o.EndRef, "end_res": o.EndRes}
		c := hx.Case{Obs: obs, Coq: libCoq(&o)}
		c.Nontrivial = len(o.Pre) > 0 && len(o.Suf) > 0
		c.Tags = []string{"lib:" + in.Cfg.Kind}
		if c.Nontrivial {
			c.Tags = append(c.Tags, "cut:mid-run")
		}
		return c, nil
	}
	return hx.Case{}, fmt.Errorf("unknown kind %q", k.Kind)
}

func bucket(n int) int {
	for _, b := range []int{10, 30, 100, 300, 1000} {
		if n <= b {
			return b
		}
	}
	return 100000
}

// boundaries picks cut points among the distinct event times of the reference
// run: all of them (thorough, capped) or a sample, plus one between two event
// times and one beyond the end.
func boundaries(r *hx.Rand, times []uint64, max int) []uint64 {
	set := map[uint64]bool{}
	if len(times) == 0 {
		return []uint64{0}
	}
	if len(times) <= max {
		for _, t := range times {
			set[t] = true
		}
	} else {
		for len(set) < max {
			set[times[r.Intn(len(times))]] = true
		}
	}
	i := r.Intn(len(times))
	set[times[i]+1] = true // between (or at the next) event time
	if r.Chance(1, 4) {
		set[times[len(times)-1]+1000] = true
	}
	out := make([]uint64, 0, len(set))
	for t := range set {
		out = append(out, t)
	}
	sort.Slice(out, func(i, j int) bool { return out[i] < out[j] })
	return out
}

func gen(r *hx.Rand, tier string) []json.RawMessage {
	nScripts, cutsPerScript, nLib, cutsPerLib, nops := 40, 4, 12, 3, 10
	if tier == "thorough" {
		// every lib case is three fresh processes: 40 assemblies x (12 sampled + 1-2 directed) cuts
		nScripts, cutsPerScript, nLib, cutsPerLib, nops = 250, 1000, 40, 12, 14
	}
	var out []json.RawMessage
	for i := 0; i < nScripts; i++ {
		in := genScript(r)
		ref := buildScriptSim(in)
		ref.scheduleInits(in)
		ref.engine.Run()
		seen := map[uint64]bool{}
		var times []uint64
		for _, e := range ref.w.trace {
			if !seen[e.T] {
				seen[e.T] = true
				times = append(times, e.T)
			}
		}
		n := len(ref.w.trace)
		ref.close()
		if n > 400 {
			i--
			continue
		}
		for _, b := range boundaries(r, times, cutsPerScript) {
			c := *in
			c.B = b
			out = append(out, hx.J(c))
		}
	}
	for i := 0; i < nLib; i++ {
		kind := asm.Kinds[i%len(asm.Kinds)]
		cfg := asm.GenConfig(r, kind, nops)
		if i%5 == 3 {
			cfg = asm.FlushConfig(r, []string{"wb", "wtwb", "wbdram"}[(i/5)%3], r.Range(4, 8))
		}
		if i%5 == 4 {
			cfg = asm.ContendedConfig(r, []string{"ideal", "wb", "banked"}[(i/5)%3], nops)
		}
		_, times, _, _, _, _ := refRun(cfg)
		for _, b := range boundaries(r, times, cutsPerLib) {
			out = append(out, hx.J(LibInput{Kind: "lib", Cfg: cfg, B: b}))
		}
	}
	return out
}

func init() {
	hx.Register(&hx.Prop{
		ID:      "C06",
		Imports: "From Akita Require Import Lib.Base Lib.AbsSim C06.Model C06.Exec.",
		Rule: "scripted simulations (1-4 table-driven handlers, same-instant primary/secondary chains, real SerialEngine + real " +
			"simulation.SaveCheckpoint/LoadCheckpoint through the tar.gz archive) cut at 4 sampled (quick) or every (thorough) distinct " +
			"event time plus between/beyond; library assemblies (ideal, wt, wb, wt+wb, banked, DRAM, full virtual-memory stack), every phase in a fresh process, cut at 3 (quick) or 12 (thorough) sampled event times plus between/beyond. " +
			"Non-trivial: events were handled both before and after the cut (scripts: and the run has a same-instant primary/secondary pair). " +
			"Distinct = distinct input hash.",
		Gen: gen, Run: run, Shrink: shrink,
	})
}

// shrink proposes smaller failing-input candidates: library cases drop parts of
// the workload (same cut), scripted cases drop initial events, rows and rules.
func shrink(raw json.RawMessage) []json.RawMessage {
	var k kindOnly
	if hx.UJ(raw, &k) != nil {
		return nil
	}
	var out []json.RawMessage
	switch k.Kind {
	case "lib":
		var in LibInput
		if hx.UJ(raw, &in) != nil {
			return nil
		}
		for _, c := range asm.ShrinkConfigs(in.Cfg) {
			out = append(out, hx.J(LibInput{Kind: "lib", Cfg: c, B: in.B}))
		}
	case "script":
		var in ScriptInput
		if hx.UJ(raw, &in) != nil {
			return nil
		}
		for i := range in.Inits {
			if len(in.Inits) > 1 {
				c := in
				c.Inits = append(append([]Init(nil), in.Inits[:i]...), in.Inits[i+1:]...)
				out = append(out, hx.J(c))
			}
			if in.Inits[i].Budget > 0 {
				c := in
				c.Inits = append([]Init(nil), in.Inits...)
				c.Inits[i].Budget--
				out = append(out, hx.J(c))
			}
		}
		for h := range in.Script {
			for r := range in.Script[h] {
				if len(in.Script[h][r]) > 0 {
					c := in
					c.Script = make([][][]Rule, len(in.Script))
					for a := range in.Script {
						c.Script[a] = append([][]Rule(nil), in.Script[a]...)
					}
					c.Script[h][r] = in.Script[h][r][:len(in.Script[h][r])-1]
					out = append(out, hx.J(c))
				}
			}
		}
	}
	return out
}
