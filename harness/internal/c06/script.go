// Package c06 ties the Coq model of checkpoint/restore (Lib/AbsSim + C06/Model)
// to the real simulation.SaveCheckpoint / LoadCheckpoint path.
package c06

import (
	"encoding/json"
	"fmt"
	"io"
	"os"
	"path/filepath"

	"github.com/sarchlab/akita/v5/simulation"
	"github.com/sarchlab/akita/v5/timing"

	"verifharness/internal/asm"
	"verifharness/internal/hx"
)

// Rule is one spawn rule of the handler script.
type Rule struct {
	Dt     uint64 `json:"dt"`
	Target int    `json:"target"`
	Sec    bool   `json:"sec"`
	Tag    uint64 `json:"tag"`
}

// Init is an initially scheduled event.
type Init struct {
	T      uint64 `json:"t"`
	H      int    `json:"h"`
	Sec    bool   `json:"sec"`
	Budget uint64 `json:"budget"`
	Tag    uint64 `json:"tag"`
}

// ScriptInput is a scripted simulation with one checkpoint boundary.
type ScriptInput struct {
	Kind   string     `json:"kind"` // "script"
	NH     int        `json:"nh"`
	Script [][][]Rule `json:"script"` // handler -> rows -> rules
	Inits  []Init     `json:"inits"`
	B      uint64     `json:"b"`
}

// ScriptEvent is the event type of scripted simulations.
type ScriptEvent struct {
	timing.EventBase
	Budget uint64 `json:"budget"`
	Tag    uint64 `json:"tag"`
}

func init() { timing.RegisterEvent(ScriptEvent{}) }

// Rec is one handled event as observed.
type Rec struct {
	T      uint64 `json:"t"`
	H      int    `json:"h"`
	Sec    bool   `json:"sec"`
	Budget uint64 `json:"b"`
	Tag    uint64 `json:"tag"`
	ID     uint64 `json:"id"`
}

// world is the checkpointable entity holding the handler counters.
type world struct {
	engine timing.Engine
	script [][][]Rule
	Cnt    []uint64
	trace  []Rec
}

func (w *world) Name() string { return "World" }

func (w *world) SaveCheckpoint(wr io.Writer) error {
	return json.NewEncoder(wr).Encode(map[string]any{"cnt": w.Cnt})
}

func (w *world) LoadCheckpoint(r io.Reader) error {
	var dto struct {
		Cnt []uint64 `json:"cnt"`
	}
	if err := json.NewDecoder(r).Decode(&dto); err != nil {
		return err
	}
	if len(dto.Cnt) != len(w.Cnt) {
		return fmt.Errorf("world: counter shape mismatch")
	}
	w.Cnt = dto.Cnt
	return nil
}

type scriptHandler struct {
	w *world
	h int
}

func hname(h int) string { return fmt.Sprintf("h%d", h) }

func (sh *scriptHandler) Handle(e timing.Event) error {
	ev := e.(ScriptEvent)
	w := sh.w
	w.trace = append(w.trace, Rec{uint64(ev.Time()), sh.h, ev.IsSecondary(), ev.Budget, ev.Tag, ev.ID})
	c := w.Cnt[sh.h]
	w.Cnt[sh.h]++
	if ev.Budget == 0 {
		return nil
	}
	rows := w.script[sh.h]
	if len(rows) == 0 {
		return nil
	}
	for _, r := range rows[c%uint64(len(rows))] {
		ne := ScriptEvent{EventBase: timing.MakeEventBase(ev.Time()+timing.VTimeInPicoSec(r.Dt), hname(r.Target)),
			Budget: ev.Budget - 1, Tag: r.Tag}
		ne.Secondary = r.Sec
		w.engine.Schedule(ne)
	}
	return nil
}

type scriptSim struct {
	sim    *simulation.Simulation
	engine *timing.SerialEngine
	w      *world
	dir    string
}

func buildScriptSim(in *ScriptInput) *scriptSim {
	timing.ResetIDGenerator()
	dir, err := os.MkdirTemp(asm.TmpBase(), "c06-")
	if err != nil {
		panic(err)
	}
	sim := simulation.MakeBuilder().WithoutMonitoring().WithOutputFileName(filepath.Join(dir, "out")).Build()
	eng := sim.GetEngine().(*timing.SerialEngine)
	w := &world{engine: eng, script: in.Script, Cnt: make([]uint64, in.NH)}
	for h := 0; h < in.NH; h++ {
		eng.RegisterHandler(hname(h), &scriptHandler{w: w, h: h})
	}
	sim.RegisterComponent(w)
	return &scriptSim{sim: sim, engine: eng, w: w, dir: dir}
}

func (s *scriptSim) scheduleInits(in *ScriptInput) {
	for _, i := range in.Inits {
		e := ScriptEvent{EventBase: timing.MakeEventBase(timing.VTimeInPicoSec(i.T), hname(i.H)), Budget: i.Budget, Tag: i.Tag}
		e.Secondary = i.Sec
		s.engine.Schedule(e)
	}
}

func (s *scriptSim) close() {
	s.sim.Terminate()
	os.RemoveAll(s.dir)
}

// Final is the projected final state.
type Final struct {
	Time   uint64   `json:"time"`
	Cnt    []uint64 `json:"cnt"`
	NextID uint64   `json:"next_id"`
}

func (s *scriptSim) final() Final {
	return Final{uint64(s.engine.CurrentTime()), append([]uint64(nil), s.w.Cnt...), timing.GetIDGeneratorNextID()}
}

type scriptObs struct {
	Ref, Pre, Suf    []Rec
	FinRef, FinRes   Final
	SaveErr, LoadErr string
}

func runScript(in *ScriptInput) scriptObs {
	var o scriptObs
	ref := buildScriptSim(in)
	ref.scheduleInits(in)
	ref.engine.Run()
	o.Ref = ref.w.trace
	o.FinRef = ref.final()
	ref.close()

	src := buildScriptSim(in)
	src.scheduleInits(in)
	src.engine.RunUntil(timing.VTimeInPicoSec(in.B))
	o.Pre = src.w.trace
	ck := filepath.Join(src.dir, "ck.tar.gz")
	if err := src.sim.SaveCheckpoint(ck, "c06"); err != nil {
		o.SaveErr = err.Error()
	}
	data, _ := os.ReadFile(ck)
	src.close()

	res := buildScriptSim(in)
	ck2 := filepath.Join(res.dir, "ck.tar.gz")
	os.WriteFile(ck2, data, 0o644)
	if err := res.sim.LoadCheckpoint(ck2, "c06"); err != nil {
		o.LoadErr = err.Error()
	}
	res.engine.Run()
	o.Suf = res.w.trace
	o.FinRes = res.final()
	res.close()
	return o
}

func recCoq(r Rec) string {
	return hx.App("mk_sev", hx.N(r.T), hx.N(uint64(r.H)), hx.B(r.Sec), hx.N(r.Budget), hx.N(r.Tag), hx.N(r.ID))
}

func recsCoq(rs []Rec) string {
	s := make([]string, len(rs))
	for i, r := range rs {
		s[i] = recCoq(r)
	}
	return hx.L(s)
}

func finalCoq(f Final) string { return hx.T(hx.N(f.Time), hx.LN(f.Cnt), hx.N(f.NextID)) }

func scriptCoq(in *ScriptInput, o *scriptObs) string {
	hs := make([]string, len(in.Script))
	for h, rows := range in.Script {
		rs := make([]string, len(rows))
		for i, row := range rows {
			es := make([]string, len(row))
			for j, r := range row {
				es[j] = hx.App("mk_rule", hx.N(r.Dt), hx.N(uint64(r.Target)), hx.B(r.Sec), hx.N(r.Tag))
			}
			rs[i] = hx.L(es)
		}
		hs[h] = hx.L(rs)
	}
	is := make([]string, len(in.Inits))
	for i, x := range in.Inits {
		is[i] = hx.T(hx.N(x.T), hx.N(uint64(x.H)), hx.B(x.Sec), hx.N(x.Budget), hx.N(x.Tag))
	}
	fuel := len(o.Ref) + len(o.Pre) + len(o.Suf) + 8
	return hx.App("ScriptCase", hx.Nat(in.NH), hx.L(hs), hx.L(is), hx.N(in.B), hx.Nat(fuel),
		recsCoq(o.Ref), recsCoq(o.Pre), recsCoq(o.Suf), finalCoq(o.FinRef), finalCoq(o.FinRes))
}

func genScript(r *hx.Rand) *ScriptInput {
	nh := r.Range(1, 4)
	in := &ScriptInput{Kind: "script", NH: nh}
	period := []uint64{1, 2, 3, 5, 10}[r.Intn(5)]
	for h := 0; h < nh; h++ {
		nrows := r.Range(0, 3)
		if h == 0 && nrows == 0 {
			nrows = 1
		}
		rows := make([][]Rule, nrows)
		for i := range rows {
			n := r.Pick(2, 5, 3, 1)
			for k := 0; k < n; k++ {
				var dt uint64
				switch r.Pick(5, 3, 2) {
				case 0:
					dt = 0
				case 1:
					dt = period * uint64(r.Range(1, 3))
				default:
					dt = uint64(r.Range(1, 40))
				}
				rows[i] = append(rows[i], Rule{Dt: dt, Target: r.Intn(nh), Sec: r.Chance(2, 5), Tag: uint64(r.Intn(100))})
			}
		}
		in.Script = append(in.Script, rows)
	}
	ni := r.Range(1, 6)
	for i := 0; i < ni; i++ {
		in.Inits = append(in.Inits, Init{T: uint64(r.Intn(4)) * period, H: r.Intn(nh), Sec: r.Chance(1, 3),
			Budget: uint64(r.Range(0, 5)), Tag: uint64(r.Intn(100))})
	}
	return in
}
