package c06

import (
	"fmt"
	"os"
	"path/filepath"
	"sort"

	"github.com/sarchlab/akita/v5/timing"

	"verifharness/internal/asm"
	"verifharness/internal/hx"
)

// LibInput is a library assembly cut at boundary B.
type LibInput struct {
	Kind string      `json:"kind"` // "lib"
	Cfg  *asm.Config `json:"cfg"`
	B    uint64      `json:"b"`
}

type libObs struct {
	Ref, Pre, Suf    []uint64
	FinRef, FinRes   []string
	hRef, hRes       []uint64
	Done             bool
	SaveErr, LoadErr string
	DiffEntities     []string
	EndRef, EndRes   uint64
}

// refRun runs the uninterrupted simulation; it returns the event trace (with
// IDs), the distinct event times and the final payload fingerprints.
func refRun(cfg *asm.Config) (tr []uint64, times []uint64, fp []string, hs []uint64, done bool, end uint64) {
	s := asm.Build(cfg, asm.Options{EventTrace: true})
	defer s.Close()
	tt := &timeTrace{}
	s.Engine.AcceptHook(tt)
	s.Start()
	s.Engine.Run()
	p, err := s.Payloads()
	if err != nil {
		panic(err)
	}
	fp, hs = asm.PayloadHashes(p)
	return s.Trace.Hashes, tt.distinct(), fp, hs, s.Driver.Done(), uint64(s.Engine.CurrentTime())
}

func runLib(in *LibInput) libObs {
	var o libObs
	o.Ref, _, o.FinRef, o.hRef, o.Done, o.EndRef = refRun(in.Cfg)

	src := asm.Build(in.Cfg, asm.Options{EventTrace: true})
	src.Start()
	src.Engine.RunUntil(timing.VTimeInPicoSec(in.B))
	o.Pre = src.Trace.Hashes
	ck := filepath.Join(src.Dir, "ck.tar.gz")
	if err := src.Sim.SaveCheckpoint(ck, "c06"); err != nil {
		o.SaveErr = err.Error()
	}
	data, _ := os.ReadFile(ck)
	src.Close()

	res := asm.Build(in.Cfg, asm.Options{EventTrace: true})
	ck2 := filepath.Join(res.Dir, "ck.tar.gz")
	os.WriteFile(ck2, data, 0o644)
	if err := res.Sim.LoadCheckpoint(ck2, "c06"); err != nil {
		o.LoadErr = err.Error()
	}
	res.Engine.Run()
	o.Suf = res.Trace.Hashes
	o.EndRes = uint64(res.Engine.CurrentTime())
	p, err := res.Payloads()
	if err != nil {
		o.LoadErr += " final:" + err.Error()
	}
	o.FinRes, o.hRes = asm.PayloadHashes(p)
	res.Close()
	for i := range o.FinRef {
		if i >= len(o.FinRes) || o.FinRef[i] != o.FinRes[i] {
			o.DiffEntities = append(o.DiffEntities, o.FinRef[i])
		}
	}
	return o
}

func libCoq(o *libObs) string {
	return hx.App("LibCase", hx.LN(o.Ref), hx.LN(o.Pre), hx.LN(o.Suf), hx.LN(o.hRef), hx.LN(o.hRes))
}

// timeTrace collects the distinct event times of a run.
type timeTrace struct{ seen map[uint64]bool }

func (t *timeTrace) Func(ctx hookCtx) {
	if ctx.Pos != timing.HookPosBeforeEvent {
		return
	}
	if t.seen == nil {
		t.seen = map[uint64]bool{}
	}
	t.seen[uint64(ctx.Item.(timing.Event).Time())] = true
}

func (t *timeTrace) distinct() []uint64 {
	out := make([]uint64, 0, len(t.seen))
	for k := range t.seen {
		out = append(out, k)
	}
	sort.Slice(out, func(i, j int) bool { return out[i] < out[j] })
	return out
}

var _ = fmt.Sprint
