package c06

import (
	"encoding/json"
	"fmt"
	"os"
	"os/exec"
	"path/filepath"
	"sort"
	"strconv"

	"github.com/sarchlab/akita/v5/timing"

	"verifharness/internal/asm"
	"verifharness/internal/hx"
)

// LibInput is a library assembly cut at boundary B.
type LibInput struct {
	Kind string      `json:"kind"` // "lib"
	Cfg  *asm.Config `json:"cfg"`
	B    uint64      `json:"b"`
}

type libObs struct {
	Ref, Pre, Suf    []uint64
	FinRef, FinRes   []string
	hRef, hRes       []uint64
	Done             bool
	SaveErr, LoadErr string
	DiffEntities     []string
	EndRef, EndRes   uint64
}

// Every phase of a library case runs in a FRESH PROCESS (re-exec of this binary):
// a checkpoint is meant to be restored in a new process, and process-global state
// that is not part of the archive (e.g. the tracing task-ID side tables) must not
// leak from the saving run into the restoring run.
//
//	<self> c06phase ref  <cfg.json>            -> JSON phaseOut on stdout
//	<self> c06phase src  <cfg.json> <b> <ck>   -> runs to b, saves the checkpoint to <ck>
//	<self> c06phase res  <cfg.json> <b> <ck>   -> rebuilds, loads <ck>, runs to the end
type phaseOut struct {
	Trace  []uint64 `json:"trace"`
	Times  []uint64 `json:"times"`
	FP     []string `json:"fp"`
	HS     []uint64 `json:"hs"`
	Done   bool     `json:"done"`
	End    uint64   `json:"end"`
	Err    string   `json:"err"`
	NextID uint64   `json:"next_id"`
}

func phaseMain(args []string) {
	var out phaseOut
	raw, err := os.ReadFile(args[1])
	if err != nil {
		panic(err)
	}
	var cfg asm.Config
	if err := json.Unmarshal(raw, &cfg); err != nil {
		panic(err)
	}
	s := asm.Build(&cfg, asm.Options{EventTrace: true})
	tt := &timeTrace{}
	s.Engine.AcceptHook(tt)
	switch args[0] {
	case "ref":
		s.Start()
		s.Engine.Run()
	case "src":
		b, _ := strconv.ParseUint(args[2], 10, 64)
		s.Start()
		s.Engine.RunUntil(timing.VTimeInPicoSec(b))
		if err := s.Sim.SaveCheckpoint(args[3], "c06"); err != nil {
			out.Err = err.Error()
		}
	case "res":
		if err := s.Sim.LoadCheckpoint(args[3], "c06"); err != nil {
			out.Err = err.Error()
		}
		s.Engine.Run()
	}
	out.Trace = s.Trace.Hashes
	out.Times = tt.distinct()
	out.Done = s.Done()
	out.End = uint64(s.Engine.CurrentTime())
	out.NextID = timing.GetIDGeneratorNextID()
	if args[0] != "src" {
		p, err := s.Payloads()
		if err != nil {
			out.Err += " final:" + err.Error()
		} else {
			out.FP, out.HS = asm.PayloadHashes(p)
		}
	}
	s.Close()
	json.NewEncoder(os.Stdout).Encode(out)
}

func init() {
	if len(os.Args) > 2 && os.Args[1] == "c06phase" {
		phaseMain(os.Args[2:])
		os.Exit(0)
	}
}

func runPhase(phase string, cfg *asm.Config, b uint64, ck string) phaseOut {
	dir, err := os.MkdirTemp(asm.TmpBase(), "c06ph-")
	if err != nil {
		panic(err)
	}
	defer os.RemoveAll(dir)
	cf := filepath.Join(dir, "cfg.json")
	raw, _ := json.Marshal(cfg)
	os.WriteFile(cf, raw, 0o644)
	cmd := exec.Command(os.Args[0], "c06phase", phase, cf, strconv.FormatUint(b, 10), ck)
	cmd.Stderr = os.Stderr
	outb, err := cmd.Output()
	var out phaseOut
	if err != nil {
		out.Err = "phase " + phase + " failed: " + err.Error()
		return out
	}
	if err := json.Unmarshal(outb, &out); err != nil {
		out.Err = "phase " + phase + " output: " + err.Error()
	}
	return out
}

// refRun runs the uninterrupted simulation in a fresh process.
func refRun(cfg *asm.Config) (tr []uint64, times []uint64, fp []string, hs []uint64, done bool, end uint64) {
	o := runPhase("ref", cfg, 0, "-")
	return o.Trace, o.Times, o.FP, o.HS, o.Done, o.End
}

func runLib(in *LibInput) libObs {
	var o libObs
	o.Ref, _, o.FinRef, o.hRef, o.Done, o.EndRef = refRun(in.Cfg)
	dir, err := os.MkdirTemp(asm.TmpBase(), "c06ck-")
	if err != nil {
		panic(err)
	}
	defer os.RemoveAll(dir)
	ck := filepath.Join(dir, "ck.tar.gz")
	src := runPhase("src", in.Cfg, in.B, ck)
	o.Pre, o.SaveErr = src.Trace, src.Err
	res := runPhase("res", in.Cfg, in.B, ck)
	o.Suf, o.LoadErr, o.EndRes = res.Trace, res.Err, res.End
	o.FinRes, o.hRes = res.FP, res.HS
	for i := range o.FinRef {
		if i >= len(o.FinRes) || o.FinRef[i] != o.FinRes[i] {
			o.DiffEntities = append(o.DiffEntities, o.FinRef[i])
		}
	}
	return o
}

func libCoq(o *libObs) string {
	return hx.App("LibCase", hx.LN(o.Ref), hx.LN(o.Pre), hx.LN(o.Suf), hx.LN(o.hRef), hx.LN(o.hRes))
}

// timeTrace collects the distinct event times of a run.
type timeTrace struct{ seen map[uint64]bool }

func (t *timeTrace) Func(ctx hookCtx) {
	if ctx.Pos != timing.HookPosBeforeEvent {
		return
	}
	if t.seen == nil {
		t.seen = map[uint64]bool{}
	}
	t.seen[uint64(ctx.Item.(timing.Event).Time())] = true
}

func (t *timeTrace) distinct() []uint64 {
	out := make([]uint64, 0, len(t.seen))
	for k := range t.seen {
		out = append(out, k)
	}
	sort.Slice(out, func(i, j int) bool { return out[i] < out[j] })
	return out
}

var _ = fmt.Sprint
