// Package c34 ties the Coq model of the four aggregate tracers
// (total / average / busy / tag-count) to the implementation: the real tracers
// are attached to a domain with tracing.CollectTrace and fed an event stream
// through the tracing API (StartTask / EndTask / AddTaskTag), with the domain
// clock set to the event time.
package c34

import (
	"encoding/json"
	"fmt"
	"sort"

	"github.com/sarchlab/akita/v5/hooking"
	"github.com/sarchlab/akita/v5/timing"
	"github.com/sarchlab/akita/v5/tracing"

	"verifharness/internal/hx"
)

// Ev is one stream event. K: "s" start, "e" end, "g" tag, "x" TerminateAllTasks.
type Ev struct {
	K    string `json:"k"`
	ID   uint64 `json:"id,omitempty"`   // task ID (start, end, tag)
	T    uint64 `json:"t"`              // domain time when the event is issued
	Pass bool   `json:"pass,omitempty"` // verdict of the task filter (start)
	Name uint64 `json:"name,omitempty"` // tag name number
}

type input struct {
	NilFilter bool `json:"nil_filter"`
	Evs       []Ev `json:"evs"`
}

type probe struct {
	Name, Tags, Tasks uint64
}

type obs struct {
	Total, Avg, Count, Busy uint64
	Names                   []uint64
	Probes                  []probe
	Panic                   string `json:",omitempty"`
}

type domain struct {
	*hooking.HookableBase
	now timing.VTimeInPicoSec
}

func (d *domain) Name() string                       { return "Dom" }
func (d *domain) CurrentTime() timing.VTimeInPicoSec { return d.now }

const passKind = "job"

func filter(t tracing.TaskStart) bool { return t.Kind == passKind }

func tagName(n uint64) string { return fmt.Sprintf("tag%d", n) }

func run(raw json.RawMessage) (hx.Case, error) {
	var in input
	if err := hx.UJ(raw, &in); err != nil {
		return hx.Case{}, err
	}
	d := &domain{HookableBase: hooking.NewHookableBase()}
	total := tracing.NewTotalTimeTracer(filter)
	avg := tracing.NewAverageTimeTracer(filter)
	var busy *tracing.BusyTimeTracer
	if in.NilFilter {
		busy = tracing.NewBusyTimeTracer(nil)
	} else {
		busy = tracing.NewBusyTimeTracer(filter)
	}
	tags := tracing.NewTagCountTracer(filter)
	tracing.CollectTrace(d, total)
	tracing.CollectTrace(d, avg)
	tracing.CollectTrace(d, busy)
	tracing.CollectTrace(d, tags)

	var o obs
	panicked, msg := hx.Try(func() {
		for _, e := range in.Evs {
			d.now = timing.VTimeInPicoSec(e.T)
			switch e.K {
			case "s":
				kind := "other"
				if e.Pass {
					kind = passKind
				}
				tracing.StartTask(d, tracing.TaskStart{ID: e.ID, ParentID: 1, Kind: kind, What: "w"})
			case "e":
				tracing.EndTask(d, tracing.TaskEnd{ID: e.ID})
			case "g":
				tracing.AddTaskTag(d, tracing.TaskTag{TaskID: e.ID, What: tagName(e.Name)})
			case "x":
				busy.TerminateAllTasks(timing.VTimeInPicoSec(e.T))
			}
		}
	})
	if panicked {
		o.Panic = msg
		return hx.Case{}, fmt.Errorf("tracer panicked: %s", msg)
	}
	o.Total = uint64(total.TotalTime())
	o.Avg = uint64(avg.AverageTime())
	o.Count = avg.TotalCount()
	o.Busy = uint64(busy.BusyTime())
	rev := map[string]uint64{}
	for _, e := range in.Evs {
		if e.K == "g" {
			rev[tagName(e.Name)] = e.Name
		}
	}
	probes := []uint64{}
	for _, n := range tags.GetTagNames() {
		k, ok := rev[n]
		if !ok {
			return hx.Case{}, fmt.Errorf("tag tracer reports unknown name %q", n)
		}
		o.Names = append(o.Names, k)
		probes = append(probes, k)
	}
	probes = append(probes, 999999) // a name that is never recorded
	for _, k := range probes {
		o.Probes = append(o.Probes, probe{k, tags.GetTagCount(tagName(k)), tags.GetTaskCount(tagName(k))})
	}

	c := hx.Case{Obs: o}
	evs := make([]string, len(in.Evs))
	for i, e := range in.Evs {
		switch e.K {
		case "s":
			evs[i] = hx.App("EStart", hx.N(e.ID), hx.N(e.T), hx.B(e.Pass))
		case "e":
			evs[i] = hx.App("EEnd", hx.N(e.ID), hx.N(e.T))
		case "g":
			evs[i] = hx.App("ETag", hx.N(e.ID), hx.N(e.Name), hx.N(e.T))
		case "x":
			evs[i] = hx.App("ETerm", hx.N(e.T))
		default:
			return hx.Case{}, fmt.Errorf("bad event kind %q", e.K)
		}
	}
	ps := make([]string, len(o.Probes))
	for i, p := range o.Probes {
		ps[i] = hx.T(hx.N(p.Name), hx.N(p.Tags), hx.N(p.Tasks))
	}
	c.Coq = hx.App("mk_case", hx.B(in.NilFilter), hx.L(evs), hx.N(o.Total), hx.N(o.Avg), hx.N(o.Count),
		hx.N(o.Busy), hx.LN(o.Names), hx.L(ps))
	sh := classify(in)
	c.Tags = sh.tags
	c.Nontrivial = sh.wf && sh.filtered >= 3 && (sh.chained || sh.nested || sh.overlap)
	return c, nil
}

// ------------------------------------------------------------ input shape

type shape struct {
	wf                       bool
	filtered                 int
	chained, nested, overlap bool
	tags                     []string
}

type iv struct{ s, e uint64 }

func classify(in input) shape {
	var sh shape
	sh.wf = true
	started := map[uint64]bool{}
	ended := map[uint64]bool{}
	open := map[uint64]uint64{}
	var last uint64
	var ivs []iv
	term := false
	for i, e := range in.Evs {
		if e.T < last {
			sh.wf = false
		}
		last = e.T
		switch e.K {
		case "s":
			if started[e.ID] || ended[e.ID] {
				sh.wf = false
			}
			started[e.ID] = true
			if e.Pass || in.NilFilter {
				open[e.ID] = e.T
			}
		case "e":
			if ended[e.ID] {
				sh.wf = false
			}
			ended[e.ID] = true
			if s, ok := open[e.ID]; ok {
				ivs = append(ivs, iv{s, e.T})
				delete(open, e.ID)
			}
		case "x":
			term = true
			if i != len(in.Evs)-1 {
				sh.wf = false
			}
			for _, s := range open {
				ivs = append(ivs, iv{s, e.T})
			}
		}
	}
	sh.filtered = len(ivs)
	sort.Slice(ivs, func(i, j int) bool { return ivs[i].s < ivs[j].s })
	disjoint := true
	for i := range ivs {
		for j := i + 1; j < len(ivs); j++ {
			a, b := ivs[i], ivs[j]
			if b.s < a.e { // proper overlap
				disjoint = false
				if b.e <= a.e {
					sh.nested = true
				} else {
					sh.overlap = true
					// chained: some third interval overlaps b but not a
					for k := j + 1; k < len(ivs); k++ {
						if ivs[k].s < b.e && ivs[k].s >= a.e {
							sh.chained = true
						}
					}
				}
			}
		}
	}
	add := func(b bool, s string) {
		if b {
			sh.tags = append(sh.tags, s)
		}
	}
	add(!sh.wf, "stream:ill-formed")
	add(sh.wf, "stream:well-formed")
	add(sh.chained, "shape:chained")
	add(sh.nested, "shape:nested")
	add(sh.overlap, "shape:overlap")
	add(disjoint && len(ivs) >= 2, "shape:disjoint")
	add(term, "busy:terminated")
	add(len(open) > 0 && !term, "stream:not-quiescent")
	add(in.NilFilter, "busy:nil-filter")
	switch {
	case len(ivs) == 0:
		sh.tags = append(sh.tags, "tasks:0")
	case len(ivs) < 3:
		sh.tags = append(sh.tags, "tasks:1-2")
	case len(ivs) < 10:
		sh.tags = append(sh.tags, "tasks:3-9")
	default:
		sh.tags = append(sh.tags, "tasks:10+")
	}
	return sh
}

// ------------------------------------------------------------ generators

type task struct {
	id, s, e uint64
	pass     bool
	ends     bool
}

// stream turns tasks (+ tag requests) into a time-ordered event list. Events at
// the same instant are ordered randomly, except that a task's start precedes its
// tags, which precede its end.
func stream(r *hx.Rand, tasks []task, ntags int, nnames int) []Ev {
	type item struct {
		ev   Ev
		rank int // 0 start, 1 tag, 2 end (for the same task)
		tie  uint64
	}
	var items []item
	for _, t := range tasks {
		items = append(items, item{Ev{K: "s", ID: t.id, T: t.s, Pass: t.pass}, 0, r.U64()})
		if t.ends {
			items = append(items, item{Ev{K: "e", ID: t.id, T: t.e}, 2, r.U64()})
		}
	}
	for i := 0; i < ntags && len(tasks) > 0; i++ {
		t := tasks[r.Intn(len(tasks))]
		var at uint64
		switch r.Pick(8, 1, 1) {
		case 0: // inside the lifetime
			at = t.s + r.U64n(t.e-t.s+1)
		case 1: // after the task ended (not tracked any more)
			at = t.e + 1 + r.U64n(5)
		default: // before it started
			if t.s > 0 {
				at = t.s - 1 - r.U64n(min(t.s, 3))
			}
		}
		items = append(items, item{Ev{K: "g", ID: t.id, T: at, Name: uint64(r.Intn(nnames))}, 1, r.U64()})
	}
	sort.SliceStable(items, func(i, j int) bool {
		a, b := items[i], items[j]
		if a.ev.T != b.ev.T {
			return a.ev.T < b.ev.T
		}
		if a.ev.ID == b.ev.ID && a.rank != b.rank {
			return a.rank < b.rank
		}
		return a.tie < b.tie
	})
	// the comparison above is not a strict weak order across different IDs mixed
	// with ranks; repair: make sure each task's start precedes its end.
	pos := map[uint64]int{}
	out := make([]Ev, 0, len(items))
	for _, it := range items {
		out = append(out, it.ev)
	}
	for i, e := range out {
		if e.K == "s" {
			pos[e.ID] = i
		}
	}
	for i := 0; i < len(out); i++ {
		if out[i].K == "e" {
			if p, ok := pos[out[i].ID]; ok && p > i {
				out[i], out[p] = out[p], out[i]
				pos[out[i].ID] = i
			}
		}
	}
	return out
}

func genTasks(r *hx.Rand, n int, family int, base uint64, scale uint64) []task {
	var ts []task
	cur := base
	for i := 0; i < n; i++ {
		id := uint64(i + 1)
		var s, e uint64
		f := family
		if f == 6 {
			f = r.Intn(6)
		}
		switch f {
		case 0: // disjoint, with gaps
			s = cur + 1 + r.U64n(scale)
			e = s + r.U64n(scale)
			cur = e
		case 1: // chained: each starts inside the previous one and ends after it
			if i == 0 {
				s, e = cur, cur+1+r.U64n(scale)
			} else {
				p := ts[i-1]
				s = p.s + r.U64n(p.e-p.s+1)
				e = p.e + r.U64n(scale)
			}
			cur = e
		case 2: // nested in the first / the previous
			if i == 0 {
				s, e = cur, cur+scale*uint64(n+1)
			} else {
				p := ts[r.Intn(i)]
				s = p.s + r.U64n(p.e-p.s+1)
				e = s + r.U64n(p.e-s+1)
			}
		case 3: // touching: starts exactly at the previous end
			s = cur
			e = s + r.U64n(scale)
			cur = e
		case 4: // zero-length and identical intervals
			if i > 0 && r.Bool() {
				s, e = ts[i-1].s, ts[i-1].e
			} else {
				s = cur + r.U64n(3)
				e = s
				cur = e
			}
		default: // uniformly random in a window
			s = base + r.U64n(scale*4)
			e = s + r.U64n(scale*2)
		}
		ts = append(ts, task{id: id, s: s, e: e, pass: true, ends: true})
	}
	return ts
}

func gen(r *hx.Rand, tier string) []json.RawMessage {
	n := 350
	if tier == "thorough" {
		n = 5000
	}
	var out []json.RawMessage
	add := func(in input) { out = append(out, hx.J(in)) }

	// directed: the two pre-fix failures and the unit-test flows
	add(input{Evs: []Ev{{K: "s", ID: 1, T: 0, Pass: true}, {K: "e", ID: 1, T: 3}, {K: "s", ID: 2, T: 3, Pass: true},
		{K: "e", ID: 2, T: 3}, {K: "s", ID: 3, T: 4, Pass: true}, {K: "e", ID: 3, T: 4}}})
	add(input{Evs: []Ev{{K: "s", ID: 1, T: 0, Pass: true}, {K: "s", ID: 2, T: 5, Pass: true}, {K: "e", ID: 1, T: 10},
		{K: "s", ID: 3, T: 15, Pass: true}, {K: "e", ID: 2, T: 20}, {K: "e", ID: 3, T: 30}}})
	add(input{NilFilter: true, Evs: []Ev{{K: "s", ID: 1, T: 10}, {K: "s", ID: 2, T: 11}, {K: "s", ID: 3, T: 19},
		{K: "e", ID: 3, T: 21}, {K: "x", T: 35}}})
	add(input{Evs: nil})

	for len(out) < n {
		var in input
		in.NilFilter = r.Chance(1, 6)
		ntask := 1 + r.Intn(12)
		if r.Chance(1, 8) {
			ntask = 12 + r.Intn(30)
		}
		var base, scale uint64
		switch r.Pick(5, 2, 1) {
		case 0:
			base, scale = r.U64n(50), 1+r.U64n(40)
		case 1:
			base, scale = r.U64n(1<<40), 1+r.U64n(1<<20)
		default:
			base, scale = 1<<62+r.U64n(1<<61), 1+r.U64n(1<<30)
		}
		family := r.Pick(2, 4, 3, 2, 1, 3, 5)
		ts := genTasks(r, ntask, family, base, scale)
		for i := range ts {
			ts[i].pass = !r.Chance(1, 5)
		}
		mode := r.Pick(10, 3, 2, 2) // well-formed quiescent / terminated / not quiescent / ill-formed
		var maxT uint64
		for _, t := range ts {
			maxT = max(maxT, t.e)
		}
		if mode == 1 || mode == 2 {
			for i := range ts {
				if r.Chance(1, 3) {
					ts[i].ends = false
				}
			}
		}
		evs := stream(r, ts, r.Intn(2*ntask+1), 1+r.Intn(4))
		if mode == 1 {
			// unfinished tasks run until the terminate call
			var last uint64
			for _, e := range evs {
				last = max(last, e.T)
			}
			evs = append(evs, Ev{K: "x", T: last + r.U64n(scale+1)})
		}
		if mode == 3 {
			evs = corrupt(r, evs)
		}
		in.Evs = evs
		add(in)
	}
	return out
}

// corrupt makes a stream ill-formed: duplicate starts/ends, ends of unknown
// tasks, a swapped pair (time going backwards), a terminate in the middle.
func corrupt(r *hx.Rand, evs []Ev) []Ev {
	if len(evs) == 0 {
		return []Ev{{K: "e", ID: 7, T: 3}}
	}
	k := 1 + r.Intn(3)
	for ; k > 0; k-- {
		i := r.Intn(len(evs))
		switch r.Pick(3, 2, 2, 2, 2) {
		case 0: // duplicate an event later in the stream
			j := i + r.Intn(len(evs)-i)
			d := evs[i]
			d.T = evs[j].T
			evs = append(evs[:j+1], append([]Ev{d}, evs[j+1:]...)...)
		case 1:
			evs = append(evs[:i+1], append([]Ev{{K: "e", ID: 1000 + uint64(r.Intn(3)), T: evs[i].T}}, evs[i+1:]...)...)
		case 2:
			j := r.Intn(len(evs))
			evs[i], evs[j] = evs[j], evs[i]
		case 3:
			evs = append(evs[:i+1], append([]Ev{{K: "x", T: evs[i].T + r.U64n(3)}}, evs[i+1:]...)...)
		default:
			if evs[i].T > 0 {
				evs[i].T -= 1 + r.U64n(min(evs[i].T, 20))
			}
		}
	}
	return evs
}

func shrink(raw json.RawMessage) []json.RawMessage {
	var in input
	if hx.UJ(raw, &in) != nil {
		return nil
	}
	var out []json.RawMessage
	// drop a whole task, then single events
	ids := map[uint64]bool{}
	for _, e := range in.Evs {
		if e.K != "x" && !ids[e.ID] {
			ids[e.ID] = true
			var evs []Ev
			for _, f := range in.Evs {
				if f.K == "x" || f.ID != e.ID {
					evs = append(evs, f)
				}
			}
			out = append(out, hx.J(input{in.NilFilter, evs}))
		}
	}
	for i := range in.Evs {
		evs := append(append([]Ev{}, in.Evs[:i]...), in.Evs[i+1:]...)
		out = append(out, hx.J(input{in.NilFilter, evs}))
	}
	return out
}

func init() {
	hx.Register(&hx.Prop{
		ID:      "C34",
		Imports: "From Akita Require Import Lib.Base C34.Model C34.Exec.",
		Rule: "event streams built from task families (disjoint, chained, nested, touching, zero-length/identical, random window, mixed) " +
			"with times near 0, ~2^40 or ~2^62, 1..40 tasks, 80% passing the filter, tags inside/outside lifetimes, random same-instant order; " +
			"modes: quiescent, unfinished tasks + TerminateAllTasks, not quiescent, and a ~12% ill-formed stream (duplicates, unknown ends, " +
			"time going backwards, terminate mid-stream) that only exercises the tie. Non-trivial: well-formed, >= 3 tracked intervals and " +
			"at least one proper overlap (overlap, nested or chained). Distinct = distinct input hash.",
		Gen: gen, Run: run, Shrink: shrink,
	})
}
