// Package c30 ties the Coq model of the generic network connector's routing
// (Floyd–Warshall next-hop tables, node-list construction, NewNetwork) and of the
// mesh dimension-ordered routing table to the implementation: it builds REAL
// networks, reads the REAL routing tables through routing.Table.FindPort, and
// reads the REAL wiring back from the switches' port complexes.
package c30

import (
	"encoding/json"
	"fmt"
	"strings"

	"github.com/sarchlab/akita/v5/messaging"
	"github.com/sarchlab/akita/v5/naming"
	"github.com/sarchlab/akita/v5/noc/networking/mesh"
	"github.com/sarchlab/akita/v5/noc/networking/networkconnector"
	"github.com/sarchlab/akita/v5/noc/networking/routing"
	"github.com/sarchlab/akita/v5/noc/networking/switching/endpoint"
	"github.com/sarchlab/akita/v5/noc/networking/switching/switches"
	"github.com/sarchlab/akita/v5/timing"

	"verifharness/internal/hx"
)

// ---------------------------------------------------------------- input

// Op is one connector call. K: "sw" (AddSwitch; A=0 plain, 1 named, 2 named with
// own table), "dev" (ConnectDevice to switch A with P ports; B=1 uses
// ConnectDeviceWithEPName), "link" (ConnectSwitches A B).
type Op struct {
	K string `json:"k"`
	A int    `json:"a"`
	B int    `json:"b"`
	P int    `json:"p"`
}

// MeshNet is one mesh network: tiles (x,y,z,nports) and the (source switch,
// destination tile index) pairs to walk.
type MeshNet struct {
	Tiles [][4]int `json:"tiles"`
	Pairs [][4]int `json:"pairs"` // sx, sy, sz, tile index
}

// Input is a sequence of networks built with ONE connector.
type Input struct {
	Kind string    `json:"kind"` // "conn" | "mesh"
	Nets [][]Op    `json:"nets,omitempty"`
	Mesh []MeshNet `json:"mesh,omitempty"`
}

// ---------------------------------------------------------------- registrar

// reg captures the components the connectors build (creation order).
type reg struct {
	engine timing.Engine
	sws    []*switches.Comp
	eps    []*endpoint.Comp
}

func (r *reg) GetEngine() timing.Engine { return r.engine }
func (r *reg) RegisterComponent(c naming.Named) {
	switch v := c.(type) {
	case *switches.Comp:
		r.sws = append(r.sws, v)
	case *endpoint.Comp:
		r.eps = append(r.eps, v)
	}
}
func (r *reg) RegisterConnection(naming.Named) {}
func (r *reg) RegisterResource(naming.Named)   {}
func (r *reg) RegisterPort(naming.Named)       {}
func (r *reg) reset()                          { r.sws, r.eps = nil, nil }

// ---------------------------------------------------------------- reading the real network back

const missing = 200

type owner struct {
	isSwitch bool
	idx      int
}

// wiring maps every switch-local port and every endpoint network port to its owner.
func wiring(r *reg) map[string]owner {
	m := map[string]owner{}
	for i, sw := range r.sws {
		for _, pc := range sw.State.PortComplexes {
			m[pc.LocalPortName] = owner{true, i}
		}
	}
	for i, ep := range r.eps {
		m[ep.NetworkPort().Name()] = owner{false, i}
	}
	return m
}

type obsNet struct {
	Rem    [][][2]int `json:"rem"`    // per switch, per port: (1=switch|0=device, index)
	Routes [][][]int  `json:"routes"` // per switch, per device, per device port: local port index
}

func localPortIndex(sw *switches.Comp, name messaging.RemotePort) int {
	for i, pc := range sw.State.PortComplexes {
		if pc.LocalPortName == string(name) {
			return i
		}
	}
	return missing
}

func readBack(r *reg, devPorts [][]messaging.Port) *obsNet {
	w := wiring(r)
	o := &obsNet{}
	for _, sw := range r.sws {
		row := [][2]int{}
		for _, pc := range sw.State.PortComplexes {
			ow, ok := w[string(pc.RemotePort)]
			switch {
			case !ok:
				row = append(row, [2]int{0, missing})
			case ow.isSwitch:
				row = append(row, [2]int{1, ow.idx})
			default:
				row = append(row, [2]int{0, ow.idx})
			}
		}
		o.Rem = append(o.Rem, row)
		tbl := switches.GetRoutingTable(sw)
		rrow := [][]int{}
		for _, ports := range devPorts {
			per := []int{}
			for _, p := range ports {
				per = append(per, localPortIndex(sw, tbl.FindPort(p.AsRemote())))
			}
			rrow = append(rrow, per)
		}
		o.Routes = append(o.Routes, rrow)
	}
	return o
}

func linkParam() networkconnector.LinkParameter {
	return networkconnector.LinkParameter{IsIdeal: true, Frequency: 1 * timing.GHz}
}

func swEnd() networkconnector.LinkEndSwitchParameter {
	return networkconnector.LinkEndSwitchParameter{IncomingBufSize: 1, OutgoingBufSize: 1,
		NumInputChannel: 1, NumOutputChannel: 1, Latency: 1}
}

var portSerial int

// buildNet issues the calls of one network on c; returns nil on a panic.
func buildNet(c *networkconnector.Connector, r *reg, name string, ops []Op) (o *obsNet, panicMsg string) {
	r.reset()
	var devPorts [][]messaging.Port
	panicked, msg := hx.Try(func() {
		c.NewNetwork(name)
		nsw := 0
		for _, op := range ops {
			switch op.K {
			case "sw":
				switch op.A {
				case 1:
					c.AddSwitchWithName(fmt.Sprintf("S%d", nsw))
				case 2:
					c.AddSwitchWithNameAndRoutingTable(fmt.Sprintf("T%d", nsw), routing.NewTable())
				default:
					c.AddSwitch()
				}
				nsw++
			case "dev":
				ports := []messaging.Port{}
				for q := 0; q < op.P; q++ {
					portSerial++
					ports = append(ports, messaging.NewPort(nil, 1, 1,
						fmt.Sprintf("%s.Dev[%d].Port[%d]#%d", name, len(devPorts), q, portSerial)))
				}
				param := networkconnector.DeviceToSwitchLinkParameter{
					DeviceEndParam: networkconnector.LinkEndDeviceParameter{IncomingBufSize: 1, OutgoingBufSize: 1,
						NumInputChannel: 1, NumOutputChannel: 1},
					SwitchEndParam: swEnd(), LinkParam: linkParam()}
				if op.B == 1 {
					c.ConnectDeviceWithEPName(fmt.Sprintf("EP%d", len(devPorts)), op.A, ports, param)
				} else {
					c.ConnectDevice(op.A, ports, param)
				}
				devPorts = append(devPorts, ports)
			case "link":
				c.ConnectSwitches(op.A, op.B, networkconnector.SwitchToSwitchLinkParameter{
					LeftEndParam: swEnd(), RightEndParam: swEnd(), LinkParam: linkParam()})
			}
		}
		c.EstablishRoute()
	})
	if panicked {
		return nil, msg
	}
	// each device port must be plugged into the endpoint created for it
	for d, ports := range devPorts {
		for _, p := range ports {
			conn := p.(interface{ Connection() messaging.Connection }).Connection()
			if d >= len(r.eps) || conn != messaging.Connection(r.eps[d]) {
				return nil, "device port not plugged into its endpoint"
			}
		}
	}
	return readBack(r, devPorts), ""
}

func newConn(r *reg) *networkconnector.Connector {
	c := networkconnector.MakeConnector().WithRegistrar(r).WithDefaultFreq(1 * timing.GHz)
	return &c
}

// ---------------------------------------------------------------- Coq printing

func un(x int) string {
	if x < 0 {
		x = 1 << 20
	}
	return hx.N(uint64(x))
}

func opCoq(o Op) string {
	switch o.K {
	case "sw":
		return "RA"
	case "dev":
		return hx.App("RD", un(o.A), un(o.P))
	default:
		return hx.App("RL", un(o.A), un(o.B))
	}
}

func obsCoq(o *obsNet) string {
	if o == nil {
		return hx.None()
	}
	rem := []string{}
	for _, row := range o.Rem {
		r := []string{}
		for _, x := range row {
			r = append(r, un(2*x[1]+x[0]))
		}
		rem = append(rem, hx.L(r))
	}
	rts := []string{}
	for _, row := range o.Routes {
		r := []string{}
		for _, per := range row {
			ps := []string{}
			for _, p := range per {
				ps = append(ps, un(p))
			}
			r = append(r, hx.L(ps))
		}
		rts = append(rts, hx.L(r))
	}
	return hx.Some(hx.App("mk_robs", hx.L(rem), hx.L(rts)))
}

func coordCoq(x, y, z int) string { return un(x + 64*y + 4096*z) }

// ---------------------------------------------------------------- running

type connObs struct {
	Reused []*obsNet `json:"reused"`
	Fresh  []*obsNet `json:"fresh"`
	Panics []string  `json:"panics,omitempty"`
}

func connected(ops []Op) bool {
	nsw := 0
	type dev struct{ sw int }
	var devs []dev
	adj := map[int][]int{}
	deg := map[int]int{}
	for _, o := range ops {
		switch o.K {
		case "sw":
			nsw++
		case "dev":
			if o.A < 0 || o.A >= nsw {
				return false
			}
			devs = append(devs, dev{o.A})
			deg[o.A]++
		case "link":
			if o.A < 0 || o.A >= nsw || o.B < 0 || o.B >= nsw {
				return false
			}
			adj[o.A] = append(adj[o.A], o.B)
			adj[o.B] = append(adj[o.B], o.A)
			deg[o.A]++
			deg[o.B]++
		}
	}
	for s := 0; s < nsw; s++ {
		if deg[s] == 0 {
			return false
		}
	}
	if nsw == 0 {
		return true
	}
	if len(devs) == 0 {
		return true
	}
	seen := map[int]bool{0: true}
	st := []int{0}
	for len(st) > 0 {
		x := st[len(st)-1]
		st = st[:len(st)-1]
		for _, y := range adj[x] {
			if !seen[y] {
				seen[y] = true
				st = append(st, y)
			}
		}
	}
	return len(seen) == nsw
}

func runConn(in Input) hx.Case {
	engine := timing.NewSerialEngine()
	r := &reg{engine: engine}
	c := newConn(r)
	obs := connObs{}
	for i, ops := range in.Nets {
		o, msg := buildNet(c, r, fmt.Sprintf("Net%d", i), ops)
		obs.Reused = append(obs.Reused, o)
		if msg != "" {
			obs.Panics = append(obs.Panics, fmt.Sprintf("reused[%d]: %s", i, msg))
		}
	}
	for i, ops := range in.Nets {
		r2 := &reg{engine: engine}
		o, msg := buildNet(newConn(r2), r2, fmt.Sprintf("Net%d", i), ops)
		obs.Fresh = append(obs.Fresh, o)
		if msg != "" {
			obs.Panics = append(obs.Panics, fmt.Sprintf("fresh[%d]: %s", i, msg))
		}
	}
	nets, reused, fresh := []string{}, []string{}, []string{}
	allConn, nsw, ndev := true, 0, 0
	for i, ops := range in.Nets {
		os := []string{}
		for _, o := range ops {
			os = append(os, opCoq(o))
			if o.K == "sw" {
				nsw++
			}
			if o.K == "dev" {
				ndev++
			}
		}
		nets = append(nets, hx.L(os))
		reused = append(reused, obsCoq(obs.Reused[i]))
		fresh = append(fresh, obsCoq(obs.Fresh[i]))
		if !connected(ops) {
			allConn = false
		}
	}
	cs := hx.Case{Obs: obs}
	cs.Coq = hx.App("RConn", hx.L(nets), hx.L(reused), hx.L(fresh))
	cs.Tags = append(cs.Tags, fmt.Sprintf("conn:networks=%d", min(len(in.Nets), 4)))
	if allConn {
		cs.Tags = append(cs.Tags, "conn:all-connected")
	} else {
		cs.Tags = append(cs.Tags, "conn:some-malformed-or-disconnected")
	}
	if nsw >= 2*max(len(in.Nets), 1)+1 {
		cs.Tags = append(cs.Tags, "conn:multi-hop")
	}
	cs.Nontrivial = allConn && nsw >= 2 && ndev >= 2
	return cs
}

type meshObs struct {
	Paths [][][3]int `json:"paths"`
	OK    []bool     `json:"ok"`
	Fail  []string   `json:"fail,omitempty"`
}

func parseCoord(name string) (c [3]int, ok bool) {
	i := strings.LastIndex(name, "SW[")
	if i < 0 {
		return c, false
	}
	n, err := fmt.Sscanf(name[i:], "SW[%d][%d][%d]", &c[0], &c[1], &c[2])
	return c, err == nil && n == 3
}

func runMesh(in Input) hx.Case {
	engine := timing.NewSerialEngine()
	r := &reg{engine: engine}
	mc := mesh.NewConnector().WithRegistrar(r)
	var all []meshObs
	nets := []string{}
	hops := 0
	for ni, mn := range in.Mesh {
		r.reset()
		mo := meshObs{}
		var tilePorts [][]messaging.Port
		panicked, msg := hx.Try(func() {
			mc.CreateNetwork(fmt.Sprintf("Mesh%d", ni))
			for ti, t := range mn.Tiles {
				ports := []messaging.Port{}
				for q := 0; q < t[3]; q++ {
					portSerial++
					ports = append(ports, messaging.NewPort(nil, 1, 1,
						fmt.Sprintf("Mesh%d.Tile[%d].Port[%d]#%d", ni, ti, q, portSerial)))
				}
				tilePorts = append(tilePorts, ports)
				mc.AddTile([3]int{t[0], t[1], t[2]}, ports)
			}
			mc.EstablishNetwork()
		})
		if panicked {
			mo.Fail = append(mo.Fail, "build: "+msg)
		}
		w := wiring(r)
		byCoord := map[[3]int]*switches.Comp{}
		for _, sw := range r.sws {
			if c, ok := parseCoord(sw.Name()); ok {
				byCoord[c] = sw
			}
		}
		for _, pr := range mn.Pairs {
			path := [][3]int{}
			ok := false
			failed := panicked
			if !failed && (pr[3] < 0 || pr[3] >= len(tilePorts) || len(tilePorts[pr[3]]) == 0) {
				failed = true
			}
			if !failed {
				dst := tilePorts[pr[3]][0]
				cur := byCoord[[3]int{pr[0], pr[1], pr[2]}]
				p, m := hx.Try(func() {
					for step := 0; step < 400 && cur != nil; step++ {
						out := switches.GetRoutingTable(cur).FindPort(dst.AsRemote())
						idx := localPortIndex(cur, out)
						if idx == missing {
							failed = true
							return
						}
						ow, found := w[string(cur.State.PortComplexes[idx].RemotePort)]
						if !found {
							failed = true
							return
						}
						if !ow.isSwitch {
							conn := dst.(interface{ Connection() messaging.Connection }).Connection()
							ok = conn == messaging.Connection(r.eps[ow.idx])
							return
						}
						cur = r.sws[ow.idx]
						c, _ := parseCoord(cur.Name())
						path = append(path, c)
					}
					failed = true
				})
				if p {
					failed = true
					mo.Fail = append(mo.Fail, "walk: "+m)
				}
			}
			if failed {
				mo.Paths = append(mo.Paths, nil)
			} else {
				mo.Paths = append(mo.Paths, path)
				hops += len(path)
			}
			mo.OK = append(mo.OK, ok)
		}
		all = append(all, mo)
		tiles, srcs, dsts, paths, oks := []string{}, []string{}, []string{}, []string{}, []string{}
		for _, t := range mn.Tiles {
			tiles = append(tiles, coordCoq(t[0], t[1], t[2]))
		}
		for i, pr := range mn.Pairs {
			dst := [4]int{}
			if pr[3] >= 0 && pr[3] < len(mn.Tiles) {
				dst = mn.Tiles[pr[3]]
			}
			srcs = append(srcs, coordCoq(pr[0], pr[1], pr[2]))
			dsts = append(dsts, coordCoq(dst[0], dst[1], dst[2]))
			oks = append(oks, hx.B(mo.OK[i]))
			if mo.Paths[i] == nil {
				paths = append(paths, hx.None())
			} else {
				ps := []string{}
				for _, c := range mo.Paths[i] {
					ps = append(ps, coordCoq(c[0], c[1], c[2]))
				}
				paths = append(paths, hx.Some(hx.L(ps)))
			}
		}
		nets = append(nets, hx.App("mk_rmesh", hx.L(tiles), hx.L(srcs), hx.L(dsts), hx.L(paths), hx.L(oks)))
	}
	cs := hx.Case{Obs: all}
	cs.Coq = hx.App("RMesh", hx.L(nets))
	cs.Tags = append(cs.Tags, fmt.Sprintf("mesh:networks=%d", min(len(in.Mesh), 3)))
	three := false
	for _, mn := range in.Mesh {
		for _, t := range mn.Tiles {
			if t[2] > 0 {
				three = true
			}
		}
	}
	if three {
		cs.Tags = append(cs.Tags, "mesh:3D")
	} else {
		cs.Tags = append(cs.Tags, "mesh:2D")
	}
	cs.Nontrivial = hops >= 4
	return cs
}

func run(raw json.RawMessage) (hx.Case, error) {
	var in Input
	if err := hx.UJ(raw, &in); err != nil {
		return hx.Case{}, err
	}
	if in.Kind == "mesh" {
		return runMesh(in), nil
	}
	return runConn(in), nil
}
