package c30

import (
	"encoding/json"

	"verifharness/internal/hx"
)

// randomNet builds the call list of one connected network.
func randomNet(r *hx.Rand, maxSw, maxDev int) []Op {
	nsw := r.Range(1, maxSw)
	shape := r.Pick(3, 2, 2, 2, 4, 1) // tree, ring, clique, line, random connected, star
	var ops []Op
	type edge struct{ a, b int }
	var edges []edge
	switch shape {
	case 0:
		for s := 1; s < nsw; s++ {
			edges = append(edges, edge{r.Intn(s), s})
		}
	case 1:
		for s := 1; s < nsw; s++ {
			edges = append(edges, edge{s - 1, s})
		}
		if nsw > 2 {
			edges = append(edges, edge{nsw - 1, 0})
		}
	case 2:
		for a := 0; a < nsw; a++ {
			for b := a + 1; b < nsw; b++ {
				edges = append(edges, edge{a, b})
			}
		}
	case 3:
		for s := 1; s < nsw; s++ {
			edges = append(edges, edge{s - 1, s})
		}
	case 4:
		for s := 1; s < nsw; s++ {
			edges = append(edges, edge{r.Intn(s), s})
		}
		extra := r.Intn(nsw + 1)
		for i := 0; i < extra; i++ {
			edges = append(edges, edge{r.Intn(nsw), r.Intn(nsw)}) // may be a parallel link or a self loop
		}
	default:
		for s := 1; s < nsw; s++ {
			edges = append(edges, edge{0, s})
		}
	}
	// random orientation and order of the links
	for i := range edges {
		if r.Bool() {
			edges[i].a, edges[i].b = edges[i].b, edges[i].a
		}
		j := r.Intn(i + 1)
		edges[i], edges[j] = edges[j], edges[i]
	}
	ndev := r.Range(1, maxDev)
	if nsw == 1 && r.Chance(1, 6) {
		ndev = r.Range(1, 2)
	}
	// interleave: switches must exist before they are referenced
	created := 0
	var pendingDev []int
	for d := 0; d < ndev; d++ {
		pendingDev = append(pendingDev, r.Intn(nsw))
	}
	devStyle := r.Intn(3)
	swStyle := r.Intn(4)
	emitSw := func() {
		a := 0
		if swStyle == 3 {
			a = r.Intn(3)
		} else {
			a = swStyle
		}
		ops = append(ops, Op{K: "sw", A: a})
		created++
	}
	if r.Bool() {
		for created < nsw {
			emitSw()
		}
	}
	ei, di := 0, 0
	for ei < len(edges) || di < len(pendingDev) || created < nsw {
		c := r.Intn(3)
		switch {
		case c == 0 && created < nsw:
			emitSw()
		case c == 1 && ei < len(edges) && edges[ei].a < created && edges[ei].b < created:
			ops = append(ops, Op{K: "link", A: edges[ei].a, B: edges[ei].b})
			ei++
		case c == 2 && di < len(pendingDev) && pendingDev[di] < created:
			b := devStyle
			if devStyle == 2 {
				b = r.Intn(2)
			}
			ops = append(ops, Op{K: "dev", A: pendingDev[di], B: b, P: r.Pick(1, 6, 3, 1)})
			di++
		default:
			if created < nsw {
				emitSw()
			}
		}
	}
	return ops
}

func line(n int, devAt []int) []Op {
	var ops []Op
	for s := 0; s < n; s++ {
		ops = append(ops, Op{K: "sw"})
	}
	for s := 1; s < n; s++ {
		ops = append(ops, Op{K: "link", A: s - 1, B: s})
	}
	for _, s := range devAt {
		ops = append(ops, Op{K: "dev", A: s, P: 1})
	}
	return ops
}

func randomMesh(r *hx.Rand, big bool) MeshNet {
	var m MeshNet
	sx, sy, sz := r.Range(1, 4), r.Range(1, 4), r.Pick(5, 3, 1)+1
	if big {
		// beyond the default grid capacity (8,8,2): forces resizeGridToHold
		sx, sy, sz = r.Range(1, 10), r.Range(1, 3), r.Range(1, 3)
		if r.Bool() {
			sx, sy = sy, sx
		}
	}
	nt := r.Range(1, 6)
	for i := 0; i < nt; i++ {
		m.Tiles = append(m.Tiles, [4]int{r.Intn(sx), r.Intn(sy), r.Intn(sz), r.Range(1, 2)})
	}
	if r.Chance(2, 3) { // make the far corner present so that the box is the full sx*sy*sz
		m.Tiles = append(m.Tiles, [4]int{sx - 1, sy - 1, sz - 1, 1})
	}
	// true box
	bx, by, bz := 0, 0, 0
	for _, t := range m.Tiles {
		bx, by, bz = max(bx, t[0]+1), max(by, t[1]+1), max(bz, t[2]+1)
	}
	total := bx * by * bz * len(m.Tiles)
	if total <= 160 {
		for x := 0; x < bx; x++ {
			for y := 0; y < by; y++ {
				for z := 0; z < bz; z++ {
					for ti := range m.Tiles {
						m.Pairs = append(m.Pairs, [4]int{x, y, z, ti})
					}
				}
			}
		}
	} else {
		for i := 0; i < 120; i++ {
			m.Pairs = append(m.Pairs, [4]int{r.Intn(bx), r.Intn(by), r.Intn(bz), r.Intn(len(m.Tiles))})
		}
	}
	return m
}

func gen(r *hx.Rand, tier string) []json.RawMessage {
	nConn, nMesh := 110, 40
	maxSw, maxDev := 7, 5
	if tier == "thorough" {
		nConn, nMesh = 1000, 300
		maxSw, maxDev = 9, 6
	}
	var out []json.RawMessage
	add := func(in Input) { out = append(out, hx.J(in)) }
	// directed: the reuse regression (two networks on one connector), always first
	add(Input{Kind: "conn", Nets: [][]Op{line(1, []int{0, 0}), line(1, []int{0, 0})}})
	add(Input{Kind: "conn", Nets: [][]Op{line(3, []int{0, 2}), line(2, []int{0, 1, 1}), line(4, []int{3, 0})}})
	// a ring of 6 with antipodal devices (two shortest paths: tie-break by iteration order)
	ring := []Op{}
	for s := 0; s < 6; s++ {
		ring = append(ring, Op{K: "sw"})
	}
	for s := 0; s < 6; s++ {
		ring = append(ring, Op{K: "link", A: s, B: (s + 1) % 6})
	}
	ring = append(ring, Op{K: "dev", A: 0, P: 2}, Op{K: "dev", A: 3, P: 1}, Op{K: "dev", A: 5, P: 1})
	add(Input{Kind: "conn", Nets: [][]Op{ring}})
	// malformed / disconnected topologies (the connector panics): small share
	add(Input{Kind: "conn", Nets: [][]Op{{{K: "sw"}, {K: "sw"}, {K: "dev", A: 0, P: 1}}}})                              // isolated switch
	add(Input{Kind: "conn", Nets: [][]Op{{{K: "sw"}, {K: "sw"}, {K: "dev", A: 0, P: 1}, {K: "dev", A: 1, P: 1}}}})    // two components
	add(Input{Kind: "conn", Nets: [][]Op{{{K: "sw"}, {K: "dev", A: 3, P: 1}}, line(2, []int{0, 1})}})                  // bad switch id, then a good network
	add(Input{Kind: "conn", Nets: [][]Op{{{K: "sw"}, {K: "link", A: 0, B: 2}}}})                                       // bad link
	add(Input{Kind: "conn", Nets: [][]Op{{}, line(2, []int{1})}})                                                      // empty network first
	add(Input{Kind: "conn", Nets: [][]Op{{{K: "sw"}, {K: "link", A: 0, B: 0}, {K: "dev", A: 0, P: 1}}}})              // self loop
	add(Input{Kind: "conn", Nets: [][]Op{{{K: "sw"}, {K: "sw"}, {K: "link", A: 0, B: 1}}}})                           // no devices
	for i := 0; i < nConn; i++ {
		k := r.Pick(5, 3, 2) + 1
		var nets [][]Op
		for j := 0; j < k; j++ {
			ops := randomNet(r, maxSw, maxDev)
			if r.Chance(1, 25) && len(ops) > 2 { // drop a call: may disconnect / isolate
				x := r.Intn(len(ops))
				ops = append(append([]Op{}, ops[:x]...), ops[x+1:]...)
			}
			nets = append(nets, ops)
		}
		add(Input{Kind: "conn", Nets: nets})
	}
	// mesh: directed 2D / 3D / beyond-capacity, then random; sequences on one mesh connector
	add(Input{Kind: "mesh", Mesh: []MeshNet{randomMesh(r, true)}})
	add(Input{Kind: "mesh", Mesh: []MeshNet{{Tiles: [][4]int{{0, 0, 0, 1}, {8, 8, 2, 1}},
		Pairs: [][4]int{{0, 0, 0, 1}, {8, 8, 2, 0}, {8, 0, 2, 0}, {0, 8, 0, 1}, {4, 4, 1, 1}, {4, 4, 1, 0}}}}})
	for i := 0; i < nMesh; i++ {
		k := r.Pick(6, 2, 1) + 1
		var ms []MeshNet
		for j := 0; j < k; j++ {
			ms = append(ms, randomMesh(r, r.Chance(1, 8)))
		}
		add(Input{Kind: "mesh", Mesh: ms})
	}
	return out
}

func shrink(raw json.RawMessage) []json.RawMessage {
	var in Input
	if hx.UJ(raw, &in) != nil {
		return nil
	}
	var out []json.RawMessage
	if in.Kind == "conn" {
		for i := range in.Nets {
			if len(in.Nets) > 1 {
				n := append(append([][]Op{}, in.Nets[:i]...), in.Nets[i+1:]...)
				out = append(out, hx.J(Input{Kind: "conn", Nets: n}))
			}
		}
		for i := range in.Nets {
			for j := len(in.Nets[i]) - 1; j >= 0; j-- {
				if in.Nets[i][j].K == "sw" {
					continue
				}
				n := append([][]Op{}, in.Nets...)
				n[i] = append(append([]Op{}, in.Nets[i][:j]...), in.Nets[i][j+1:]...)
				out = append(out, hx.J(Input{Kind: "conn", Nets: n}))
			}
		}
		return out
	}
	for i := range in.Mesh {
		if len(in.Mesh) > 1 {
			n := append(append([]MeshNet{}, in.Mesh[:i]...), in.Mesh[i+1:]...)
			out = append(out, hx.J(Input{Kind: "mesh", Mesh: n}))
		}
	}
	for i := range in.Mesh {
		for j := range in.Mesh[i].Pairs {
			n := append([]MeshNet{}, in.Mesh...)
			n[i].Pairs = [][4]int{in.Mesh[i].Pairs[j]}
			out = append(out, hx.J(Input{Kind: "mesh", Mesh: n}))
			if j > 6 {
				break
			}
		}
	}
	return out
}

func init() {
	hx.Register(&hx.Prop{
		ID: "C30", Imports: "From Akita Require Import Lib.Base C30.Model C30.Exec.",
		Rule: "conn: sequences of 1-3 networks built with ONE generic connector and, separately, each on a fresh connector; " +
			"switch graphs are random trees, rings, cliques, lines, stars and random connected graphs with extra (parallel/self) links, " +
			"calls interleaved in random order, 1-6 devices with 0-3 ports placed at random switches, all AddSwitch*/ConnectDevice* API variants; " +
			"a small malformed share (bad ids, isolated switch, disconnected, dropped call). mesh: 1-3 mesh networks on one mesh connector, " +
			"random tiles in boxes up to 4x4x3 (and beyond the 8x8x2 default capacity), every (switch, tile) pair walked hop by hop through the real tables. " +
			"Non-trivial: all networks connected with >=2 switches and >=2 devices in total (conn); >=4 hops walked (mesh). Distinct = distinct input hash.",
		Gen: gen, Run: run, Shrink: shrink,
	})
}
