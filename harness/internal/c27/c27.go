// Package c27 ties the Coq model of the MMU translation middleware (auto page
// allocation) to the real component: the MMU is built with its builder around a
// pre-populated vm.PageTable, driven tick by tick through its real Top port, and
// every drained response, the allocation cursor and the final page table are recorded.
package c27

import (
	"encoding/json"
	"fmt"

	"github.com/sarchlab/akita/v5/hooking"
	"github.com/sarchlab/akita/v5/mem/vm"
	"github.com/sarchlab/akita/v5/mem/vm/mmu"
	"github.com/sarchlab/akita/v5/mem/vm/vmprotocol"
	"github.com/sarchlab/akita/v5/messaging"
	"github.com/sarchlab/akita/v5/modeling"
	"github.com/sarchlab/akita/v5/timing"

	"verifharness/internal/c26"
	"verifharness/internal/hx"
)

type noopConn struct{ hooking.HookableBase }

func (c *noopConn) Name() string                     { return "NoopConn" }
func (c *noopConn) PlugIn(port messaging.Port)       { port.SetConnection(c) }
func (c *noopConn) Unplug(_ messaging.Port)          {}
func (c *noopConn) NotifyAvailable(_ messaging.Port) {}
func (c *noopConn) NotifySend()                      {}

// Req is one translation request.
type Req struct {
	ID  uint64 `json:"id"`
	Src int    `json:"src"`
	PID uint32 `json:"pid"`
	VA  uint64 `json:"va"`
	Dev uint64 `json:"dev"`
}

// Step is one scripted instant.
type Step struct {
	Deliver []Req `json:"deliver"`
	Drain   int   `json:"drain"`
}

type input struct {
	Log2   uint64     `json:"log2"`
	Lat    int        `json:"lat"`
	Max    int        `json:"max"`
	Auto   bool       `json:"auto"`
	Cap    int        `json:"cap"`
	Pre    []c26.Page `json:"pre"`
	Script []Step     `json:"script"`
}

type rspObs struct {
	To   uint64   `json:"to"`
	Dst  int      `json:"dst"`
	Page c26.Page `json:"page"`
}

type tickObs struct {
	Progress bool     `json:"progress"`
	Rsps     []rspObs `json:"rsps"`
	Next     uint64   `json:"next"`
	Walking  int      `json:"walking"`
}

type obs struct {
	Outcome int         `json:"outcome"`
	Ticks   []tickObs   `json:"ticks"`
	Final   []c26.Entry `json:"final"`
}

func execute(in input) (obs, error) {
	engine := timing.NewSerialEngine()
	reg := modeling.NewStandaloneRegistrar(engine)
	pt := vm.NewPageTable(in.Log2)
	for _, p := range in.Pre {
		q := p.ToVM()
		hx.Try(func() { pt.Insert(q) })
	}
	spec := mmu.DefaultSpec()
	spec.Log2PageSize = in.Log2
	spec.Latency = in.Lat
	spec.MaxRequestsInFlight = in.Max
	spec.AutoPageAllocation = in.Auto
	comp := mmu.MakeBuilder().WithRegistrar(reg).WithResources(mmu.Resources{PageTable: pt}).WithSpec(spec).Build("MMU")
	mk := func(name string, size int) messaging.Port {
		p := modeling.MakePortBuilder().WithRegistrar(reg).WithComponent(comp).
			WithSpec(modeling.PortSpec{BufSize: size}).Build(name)
		comp.AssignPort(name, p)
		(&noopConn{}).PlugIn(p)
		return p
	}
	top := mk("Top", in.Cap)
	mk("Control", 2)

	var ob obs
	for _, st := range in.Script {
		for _, q := range st.Deliver {
			if !top.CanDeliver() {
				continue
			}
			r := vmprotocol.TranslationReq{VAddr: q.VA, PID: vm.PID(q.PID), DeviceID: q.Dev}
			r.ID = q.ID
			r.Src = messaging.RemotePort(fmt.Sprintf("R%d", q.Src))
			r.Dst = top.AsRemote()
			r.TrafficClass = "vmprotocol.TranslationReq"
			top.Deliver(r)
		}
		var progress bool
		panicked, msg := hx.Try(func() { progress = comp.Tick() })
		if panicked {
			switch msg {
			case "page not found":
				ob.Outcome = 1
			case "page exist":
				ob.Outcome = 2
			default:
				ob.Outcome = 3 // any other panic (e.g. the port rejecting a malformed response)
			}
			return ob, nil
		}
		to := tickObs{Progress: progress, Rsps: []rspObs{}, Next: comp.State.NextPhysicalPage,
			Walking: len(comp.State.WalkingTranslations)}
		for i := 0; i < st.Drain; i++ {
			m := top.RetrieveOutgoing()
			if m == nil {
				break
			}
			rsp, ok := m.(vmprotocol.TranslationRsp)
			if !ok {
				return ob, fmt.Errorf("unexpected message %T", m)
			}
			var dst int
			if _, err := fmt.Sscanf(string(rsp.Dst), "R%d", &dst); err != nil || rsp.Src != top.AsRemote() {
				dst = 999999 // not a requester / not sent from Top: the property predicate rejects it
			}
			to.Rsps = append(to.Rsps, rspObs{To: rsp.RspTo, Dst: dst, Page: c26.FromVM(rsp.Page)})
		}
		ob.Ticks = append(ob.Ticks, to)
	}
	_, d, err := c26.SaveDTO(pt)
	if err != nil {
		return ob, err
	}
	ob.Final = d
	return ob, nil
}

func coqReq(q Req) string {
	return hx.App("mk_req", hx.N(q.ID), hx.N(uint64(q.Src)), hx.N(uint64(q.PID)), hx.N(q.VA), hx.N(q.Dev))
}

func run(raw json.RawMessage) (hx.Case, error) {
	var in input
	if err := hx.UJ(raw, &in); err != nil {
		return hx.Case{}, err
	}
	if in.Log2 >= 64 || in.Cap < 1 {
		return hx.Case{}, fmt.Errorf("unsupported configuration")
	}
	ob, err := execute(in)
	if err != nil {
		return hx.Case{}, err
	}
	pre := make([]string, len(in.Pre))
	for i, p := range in.Pre {
		pre[i] = c26.CoqPage(p)
	}
	script := make([]string, len(in.Script))
	nreq := 0
	keys := map[[2]uint64]int{}
	for i, st := range in.Script {
		qs := make([]string, len(st.Deliver))
		for j, q := range st.Deliver {
			qs[j] = coqReq(q)
			nreq++
			keys[[2]uint64{uint64(q.PID), q.VA >> in.Log2}]++
		}
		script[i] = hx.T(hx.L(qs), hx.Nat(st.Drain))
	}
	ticks := make([]string, len(ob.Ticks))
	nrsp := 0
	for i, t := range ob.Ticks {
		rs := make([]string, len(t.Rsps))
		for j, r := range t.Rsps {
			rs[j] = hx.App("mk_rsp", hx.N(r.To), hx.N(uint64(r.Dst)), c26.CoqPage(r.Page))
			nrsp++
		}
		ticks[i] = hx.App("mk_tobs", hx.B(t.Progress), hx.L(rs), hx.N(t.Next), hx.N(uint64(t.Walking)))
	}
	c := hx.Case{Obs: ob}
	c.Coq = hx.App("mk_case", hx.N(in.Log2), hx.Z(int64(in.Lat)), hx.Z(int64(in.Max)), hx.B(in.Auto), hx.N(uint64(in.Cap)),
		hx.L(pre), hx.B(aliasOK(in.Log2, effectivePre(in))), hx.L(script), hx.N(uint64(ob.Outcome)), hx.L(ticks), c26.CoqDTO(ob.Final))
	c.Known = classify(in)
	concurrent := 0
	for _, n := range keys {
		if n > 1 {
			concurrent++
		}
	}
	if c.Known != "" {
		c.Tags = append(c.Tags, "pre:unclaimed-frame")
	} else if len(in.Pre) > 0 && !isUniform(in) {
		c.Tags = append(c.Tags, "pre:non-uniform-ok")
	} else if len(in.Pre) > 0 {
		c.Tags = append(c.Tags, "pre:uniform")
	} else {
		c.Tags = append(c.Tags, "pre:empty")
	}
	if concurrent > 0 {
		c.Tags = append(c.Tags, "same-page-walks")
	}
	if in.Cap <= 2 {
		c.Tags = append(c.Tags, "backpressure")
	}
	if !in.Auto {
		c.Tags = append(c.Tags, "auto:off")
	}
	c.Tags = append(c.Tags, fmt.Sprintf("outcome:%d", ob.Outcome))
	c.Nontrivial = in.Auto && nrsp >= 2 && len(ob.Final) > 0
	return c, nil
}

// effectivePre is the table the pre-insertions build: a repeated (pid, vaddr) panics in Insert and is skipped.
func effectivePre(in input) []c26.Page {
	seen := map[[2]uint64]bool{}
	var out []c26.Page
	for _, p := range in.Pre {
		k := [2]uint64{uint64(p.PID), p.VAddr}
		if seen[k] {
			continue
		}
		seen[k] = true
		out = append(out, p)
	}
	return out
}

// aliasOK is the condition of theorem c27_no_alias_general (Coq: alias_okb) on the initial table:
// every frame that meets the physical range of a page is the PAddr of some page.
func aliasOK(log2 uint64, pages []c26.Page) bool {
	sz := uint64(1) << log2
	claimed := map[uint64]bool{}
	for _, p := range pages {
		claimed[p.PAddr] = true
	}
	for _, q := range pages {
		e := q.PAddr + q.Size
		if e == 0 {
			continue
		}
		first, last := q.PAddr/sz, (e-1)/sz
		if last < first {
			continue
		}
		if last-first > 1<<16 {
			return false
		}
		for k := first; k <= last; k++ {
			if !claimed[k*sz] {
				return false
			}
		}
	}
	return true
}

func isUniform(in input) bool {
	sz := uint64(1) << in.Log2
	for _, p := range in.Pre {
		if p.PAddr%sz != 0 || p.Size != sz {
			return false
		}
	}
	return true
}

// classify names the known finding an input can exhibit (F-C27-1): some frame meets the physical
// range of a pre-inserted page and is not the PAddr of any pre-inserted page, so the equality
// probe of allocatePhysicalPage can hand it out.
func classify(in input) string {
	if !aliasOK(in.Log2, effectivePre(in)) {
		return "pre_inserted_page_not_a_frame"
	}
	return ""
}
