package c27

import (
	"encoding/json"

	"verifharness/internal/c26"
	"verifharness/internal/hx"
)

func genCase(r *hx.Rand, mode int) input { // mode 0 uniform, 1 non-uniform satisfying the condition, 2 violating it
	uniform := mode != 2
	log2 := []uint64{12, 12, 12, 4, 16, 21, 1}[r.Pick(5, 3, 2, 2, 1, 1, 1)]
	sz := uint64(1) << log2
	in := input{Log2: log2, Lat: r.Pick(2, 3, 3, 1, 1), Max: r.Range(1, 5), Auto: !r.Chance(1, 12), Cap: r.Range(1, 4)}
	if in.Lat == 4 {
		in.Lat = -1
	}
	npid := r.Range(1, 3)
	nvp := r.Range(1, 6)
	// pre-populated table
	npre := r.Pick(2, 2, 2, 2, 1, 1)
	for i := 0; i < npre; i++ {
		p := c26.Page{PID: uint32(r.Intn(npid + 1)), VAddr: uint64(r.Intn(nvp+2)) * sz, PAddr: uint64(r.Intn(8)) * sz,
			Size: sz, Dev: uint64(r.Intn(3)), Flags: uint8(r.Intn(16))}
		if !uniform {
			switch r.Intn(4) {
			case 0:
				p.PAddr += 1 + r.U64n(sz-1)
			case 1:
				p.Size = sz * uint64(r.Range(2, 4))
			case 2:
				p.Size = sz / 2
			}
		}
		in.Pre = append(in.Pre, p)
	}
	if mode == 1 {
		in.Pre = append(in.Pre, conforming(r, sz, npid)...)
	}
	id := uint64(100)
	nticks := r.Range(3, 14)
	for t := 0; t < nticks; t++ {
		st := Step{Drain: r.Pick(2, 4, 2, 1)}
		k := r.Pick(3, 4, 2, 1)
		if t > nticks*2/3 {
			k = 0
		}
		for j := 0; j < k; j++ {
			id++
			q := Req{ID: id, Src: r.Intn(3), PID: uint32(r.Intn(npid + 1)), VA: uint64(r.Intn(nvp))*sz + r.U64n(sz), Dev: uint64(r.Intn(3))}
			st.Deliver = append(st.Deliver, q)
		}
		in.Script = append(in.Script, st)
	}
	// let everything drain
	tail := 8 + 2*in.Lat + len(in.Script)
	for t := 0; t < tail; t++ {
		in.Script = append(in.Script, Step{Drain: 2})
	}
	return in
}

// conforming builds non-frame pages whose frames are all claimed: larger pages, pages straddling a
// frame boundary, empty and half pages, several processes sharing one range. Claiming pages use
// virtual addresses far from the requested ones.
func conforming(r *hx.Rand, sz uint64, npid int) []c26.Page {
	var out []c26.Page
	va := uint64(100)
	claim := func(pa uint64) {
		va++
		size := []uint64{sz, sz, 0, sz / 2}[r.Intn(4)]
		out = append(out, c26.Page{PID: uint32(r.Intn(npid + 2)), VAddr: va * sz, PAddr: pa, Size: size, Flags: uint8(r.Intn(16))})
	}
	n := r.Range(1, 3)
	for i := 0; i < n; i++ {
		base := uint64(r.Intn(9)) * sz
		va++
		switch r.Intn(4) {
		case 0: // a page of 2-4 frames, shared by two processes; the further frames claimed by other pages
			k := uint64(r.Range(2, 4))
			out = append(out, c26.Page{PID: uint32(r.Intn(npid + 1)), VAddr: va * sz, PAddr: base, Size: k * sz, Flags: 1})
			if r.Bool() {
				va++
				out = append(out, c26.Page{PID: uint32(npid + 2), VAddr: va * sz, PAddr: base, Size: k * sz, Flags: 3})
			}
			for j := uint64(1); j < k; j++ {
				claim(base + j*sz)
			}
		case 1: // a page straddling a frame boundary (or strictly inside one frame)
			off := 1 + r.U64n(sz-1)
			size := 1 + r.U64n(sz)
			out = append(out, c26.Page{PID: uint32(r.Intn(npid + 1)), VAddr: va * sz, PAddr: base + off, Size: size, Flags: 1})
			claim(base)
			if off+size > sz {
				claim(base + sz)
			}
		case 2: // an empty page and a half page at a frame boundary
			out = append(out, c26.Page{PID: uint32(r.Intn(npid + 1)), VAddr: va * sz, PAddr: base, Size: 0, Flags: 1})
			va++
			out = append(out, c26.Page{PID: uint32(r.Intn(npid + 1)), VAddr: va * sz, PAddr: base + sz, Size: sz / 2, Flags: 1})
		default: // an empty page strictly inside a frame: the frame must be claimed
			out = append(out, c26.Page{PID: uint32(r.Intn(npid + 1)), VAddr: va * sz, PAddr: base + 1 + r.U64n(sz-1), Size: 0, Flags: 1})
			claim(base)
		}
	}
	return out
}

func directedUnaligned() input {
	// DESIGN §1: pre-inserted page at physical 0x800; the first auto-allocated frames overlap it
	in := input{Log2: 12, Lat: 0, Max: 4, Auto: true, Cap: 4,
		Pre: []c26.Page{{PID: 1, VAddr: 0x10000, PAddr: 0x800, Size: 4096, Flags: 1}}}
	in.Script = []Step{{Deliver: []Req{{ID: 1, Src: 0, PID: 1, VA: 0x2000}, {ID: 2, Src: 1, PID: 1, VA: 0x3000}}, Drain: 0}}
	for i := 0; i < 6; i++ {
		in.Script = append(in.Script, Step{Drain: 2})
	}
	return in
}

func directedLarger() input {
	in := input{Log2: 12, Lat: 1, Max: 4, Auto: true, Cap: 4,
		Pre: []c26.Page{{PID: 2, VAddr: 0x200000, PAddr: 0, Size: 2 << 20, Flags: 3}}}
	in.Script = []Step{{Deliver: []Req{{ID: 1, Src: 0, PID: 1, VA: 0x2000}, {ID: 2, Src: 1, PID: 2, VA: 0x3000}}, Drain: 0}}
	for i := 0; i < 8; i++ {
		in.Script = append(in.Script, Step{Drain: 2})
	}
	return in
}

func directedConcurrent() input {
	// four walks of the same page in flight at once, Top buffer of 1 (retry path)
	in := input{Log2: 12, Lat: 2, Max: 4, Auto: true, Cap: 1,
		Pre: []c26.Page{{PID: 1, VAddr: 0x5000, PAddr: 0, Size: 4096, Flags: 1}, {PID: 3, VAddr: 0, PAddr: 0x2000, Size: 4096, Flags: 1}}}
	for i := 0; i < 4; i++ {
		in.Script = append(in.Script, Step{Deliver: []Req{{ID: uint64(10 + i), Src: i % 2, PID: 1, VA: 0x7000 + uint64(i*8)}}, Drain: 0})
	}
	for i := 0; i < 14; i++ {
		in.Script = append(in.Script, Step{Drain: i % 2})
	}
	return in
}

func gen(r *hx.Rand, tier string) []json.RawMessage {
	n := 220
	if tier == "thorough" {
		n = 3000
	}
	out := []json.RawMessage{hx.J(directedUnaligned()), hx.J(directedLarger()), hx.J(directedConcurrent())}
	for len(out) < n {
		out = append(out, hx.J(genCase(r, r.Pick(3, 2, 1))))
	}
	return out
}

func shrink(raw json.RawMessage) []json.RawMessage {
	var in input
	if hx.UJ(raw, &in) != nil {
		return nil
	}
	var out []json.RawMessage
	for i := range in.Pre {
		c := in
		c.Pre = append(append([]c26.Page{}, in.Pre[:i]...), in.Pre[i+1:]...)
		out = append(out, hx.J(c))
	}
	for i := range in.Script {
		for j := range in.Script[i].Deliver {
			c := in
			c.Script = append([]Step{}, in.Script...)
			d := in.Script[i].Deliver
			c.Script[i].Deliver = append(append([]Req{}, d[:j]...), d[j+1:]...)
			out = append(out, hx.J(c))
		}
	}
	return out
}

func init() {
	hx.Register(&hx.Prop{
		ID:      "C27",
		Imports: "From Akita Require Import Lib.Base C26.Model C27.Model C27.Exec.",
		Rule: "MMU built by its builder (auto allocation on in 11/12 cases; log2 page size in {1,4,12,16,21}; latency -1..3; " +
			"1-5 walks in flight; Top buffer 1-4 for back-pressure/retry) around a pre-populated table (0-5 pages over 1-4 processes, " +
			"physical frames drawn from the first 8-12 so collisions with the allocation cursor are common). Half of the tables are " +
			"uniform; a third are non-uniform but satisfy the condition of c27_no_alias_general (2-4-frame pages shared by two " +
			"processes with their further frames claimed, pages straddling a frame boundary with both frames claimed, empty and " +
			"half pages); a sixth violate it (unaligned physical address, larger or smaller size with an unclaimed frame). Then 3-14 scripted ticks delivering 0-3 " +
			"requests over 1-6 virtual pages (several walks of one page in flight) and draining 0-3 responses, then drained to quiescence. " +
			"Directed: DESIGN §1 unaligned (0x800) and 2 MB pre-inserted pages, four concurrent walks of one page with a 1-slot Top buffer. " +
			"Non-trivial: auto allocation on, >= 2 responses, non-empty final table. Distinct = input hash.",
		Gen: gen, Run: run, Shrink: shrink,
	})
}
