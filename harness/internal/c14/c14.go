// Package c14 ties the Coq model of queueing/buffer.go + buffer_json.go
// (Lib/Fifo.v, C14/Model.v) to the real queueing.Buffer[uint64]: a history of
// API calls is executed on the real buffer, every result is recorded, and Coq
// replays the same history on the model and on the abstract FIFO specification.
package c14

import (
	"encoding/json"
	"fmt"
	"sort"
	"strings"

	"github.com/sarchlab/akita/v5/queueing"

	"verifharness/internal/hx"
)

type opIn struct {
	K string   `json:"k"`
	E uint64   `json:"e,omitempty"`
	L []uint64 `json:"l,omitempty"`
	// unmarshal: which members are present (nil pointer = absent), and whether
	// an absent member is written as an explicit JSON null instead of omitted.
	Name    *string   `json:"name,omitempty"`
	Cap     *int64    `json:"cap,omitempty"`
	Elems   *[]uint64 `json:"elems,omitempty"`
	AsNull  bool      `json:"as_null,omitempty"`
	BadText string    `json:"bad,omitempty"`
}

type input struct {
	Name string `json:"name"`
	Cap  int64  `json:"cap"`
	Ops  []opIn `json:"ops"`
}

type obsOut struct {
	K     string    `json:"k"`
	V     *uint64   `json:"v,omitempty"`
	B     *bool     `json:"b,omitempty"`
	I     *int64    `json:"i,omitempty"`
	L     []uint64  `json:"l,omitempty"`
	S     *string   `json:"s,omitempty"`
	Name  string    `json:"name,omitempty"`
	Cap   int64     `json:"cap,omitempty"`
	Elems *[]uint64 `json:"elems,omitempty"`
	Raw   string    `json:"raw,omitempty"`
	coq   string
}

func ln(xs []uint64) string { return hx.LN(xs) }

func dtoCoq(name string, cp int64, el *[]uint64) string {
	e := hx.None()
	if el != nil {
		e = hx.Some(ln(*el))
	}
	return hx.App("mk_dto", hx.Str(name), hx.Z(cp), e)
}

// parseMarshal projects MarshalJSON's bytes onto (name, cap, null-or-array).
func parseMarshal(b []byte) (obsOut, bool) {
	var m map[string]json.RawMessage
	if err := json.Unmarshal(b, &m); err != nil || len(m) != 3 {
		return obsOut{}, false
	}
	var o obsOut
	o.K = "dto"
	o.Raw = string(b)
	if json.Unmarshal(m["name"], &o.Name) != nil || json.Unmarshal(m["cap"], &o.Cap) != nil {
		return obsOut{}, false
	}
	el, ok := m["elements"]
	if !ok {
		return obsOut{}, false
	}
	if strings.TrimSpace(string(el)) != "null" {
		xs := []uint64{}
		if json.Unmarshal(el, &xs) != nil {
			return obsOut{}, false
		}
		o.Elems = &xs
	}
	o.coq = hx.App("RDto", dtoCoq(o.Name, o.Cap, o.Elems))
	return o, true
}

func unmarshalText(o opIn) string {
	var parts []string
	add := func(k string, present bool, v any) {
		switch {
		case present:
			parts = append(parts, fmt.Sprintf("%q:%s", k, string(hx.J(v))))
		case o.AsNull:
			parts = append(parts, fmt.Sprintf("%q:null", k))
		}
	}
	if o.Name != nil {
		add("name", true, *o.Name)
	} else {
		add("name", false, nil)
	}
	if o.Cap != nil {
		add("cap", true, *o.Cap)
	} else {
		add("cap", false, nil)
	}
	if o.Elems != nil {
		add("elements", true, *o.Elems)
	} else {
		add("elements", false, nil)
	}
	return "{" + strings.Join(parts, ",") + "}"
}

func opCoq(o opIn) string {
	switch o.K {
	case "push":
		return hx.App("OPush", hx.N(o.E))
	case "pop":
		return "OPop"
	case "peek":
		return "OPeek"
	case "upd":
		return hx.App("OUpdateFront", hx.N(o.E))
	case "clear":
		return "OClear"
	case "elems":
		return "OElements"
	case "restore":
		return hx.App("ORestore", ln(o.L))
	case "size":
		return "OSize"
	case "cap":
		return "OCapacity"
	case "canpush":
		return "OCanPush"
	case "name":
		return "OName"
	case "marshal":
		return "OMarshal"
	case "unmarshal":
		n, c, e := hx.None(), hx.None(), hx.None()
		if o.Name != nil {
			n = hx.Some(hx.Str(*o.Name))
		}
		if o.Cap != nil {
			c = hx.Some(hx.Z(*o.Cap))
		}
		if o.Elems != nil {
			e = hx.Some(ln(*o.Elems))
		}
		return hx.App("OUnmarshal", hx.App("mk_raw", n, c, e))
	case "bad":
		return "OUnmarshalBad"
	case "roundtrip":
		return "ORoundTrip"
	case "snap":
		return "OSnapRestore"
	}
	panic("unknown op " + o.K)
}

func exec(b **queueing.Buffer[uint64], o opIn) obsOut {
	buf := *b
	unit := obsOut{K: "unit", coq: "RUnit"}
	pan := obsOut{K: "panic", coq: "RPanic"}
	val := func(v uint64) obsOut { return obsOut{K: "val", V: &v, coq: hx.App("RVal", hx.N(v))} }
	switch o.K {
	case "push":
		if p, _ := hx.Try(func() { buf.PushTyped(o.E) }); p {
			return pan
		}
		return unit
	case "pop":
		return val(buf.Pop())
	case "peek":
		return val(buf.Peek())
	case "upd":
		buf.UpdateFront(o.E)
		return unit
	case "clear":
		buf.Clear()
		return unit
	case "elems":
		xs := buf.Elements()
		// mutating the returned slice must not affect the buffer
		cp := append([]uint64{}, xs...)
		for i := range xs {
			xs[i] = ^xs[i]
		}
		return obsOut{K: "list", L: cp, coq: hx.App("RList", ln(cp))}
	case "restore":
		arg := append([]uint64(nil), o.L...)
		if p, _ := hx.Try(func() { buf.Restore(arg) }); p {
			return pan
		}
		// the buffer must not alias the caller's slice
		for i := range arg {
			arg[i] = ^arg[i]
		}
		return unit
	case "size":
		v := int64(buf.Size())
		return obsOut{K: "int", I: &v, coq: hx.App("RInt", hx.Z(v))}
	case "cap":
		v := int64(buf.Capacity())
		return obsOut{K: "int", I: &v, coq: hx.App("RInt", hx.Z(v))}
	case "canpush":
		v := buf.CanPush()
		return obsOut{K: "bool", B: &v, coq: hx.App("RBool", hx.B(v))}
	case "name":
		v := buf.Name()
		return obsOut{K: "name", S: &v, coq: hx.App("RName", hx.Str(v))}
	case "marshal":
		// through encoding/json on the value, as a component State would
		bs, err := json.Marshal(*buf)
		if err != nil {
			return obsOut{K: "err", coq: "RErr"}
		}
		if r, ok := parseMarshal(bs); ok {
			return r
		}
		return obsOut{K: "err", Raw: string(bs), coq: "RErr"}
	case "unmarshal":
		if err := json.Unmarshal([]byte(unmarshalText(o)), buf); err != nil {
			return obsOut{K: "err", Raw: err.Error(), coq: "RErr"}
		}
		return unit
	case "bad":
		if err := buf.UnmarshalJSON([]byte(o.BadText)); err != nil {
			return obsOut{K: "err", coq: "RErr"}
		}
		return unit
	case "roundtrip":
		bs, err := buf.MarshalJSON()
		if err != nil {
			return obsOut{K: "err", coq: "RErr"}
		}
		fresh := new(queueing.Buffer[uint64])
		if err := json.Unmarshal(bs, fresh); err != nil {
			return obsOut{K: "err", coq: "RErr"}
		}
		*b = fresh
		if r, ok := parseMarshal(bs); ok {
			return r
		}
		return obsOut{K: "err", Raw: string(bs), coq: "RErr"}
	case "snap":
		c := queueing.NewBuffer[uint64](buf.Name(), buf.Capacity())
		if p, _ := hx.Try(func() { c.Restore(buf.Elements()) }); p {
			return pan
		}
		*b = &c
		return unit
	}
	panic("unknown op " + o.K)
}

func run(raw json.RawMessage) (hx.Case, error) {
	var in input
	if err := hx.UJ(raw, &in); err != nil {
		return hx.Case{}, err
	}
	nb := queueing.NewBuffer[uint64](in.Name, int(in.Cap))
	b := &nb
	// every history ends with a full observation of the final state
	ops := append(append([]opIn{}, in.Ops...),
		opIn{K: "size"}, opIn{K: "canpush"}, opIn{K: "peek"}, opIn{K: "elems"}, opIn{K: "marshal"}, opIn{K: "name"}, opIn{K: "cap"})
	var outs []obsOut
	var terms []string
	tags := map[string]bool{}
	accepted, popped := 0, 0
	for _, o := range ops {
		szBefore := b.Size()
		r := exec(&b, o)
		outs = append(outs, r)
		terms = append(terms, hx.T(opCoq(o), r.coq))
		switch {
		case o.K == "push" && r.K == "unit":
			accepted++
		case o.K == "push":
			tags["push:refused"] = true
		case o.K == "pop" && szBefore > 0:
			popped++
		case o.K == "pop":
			tags["pop:empty"] = true
		case o.K == "peek" && szBefore == 0:
			tags["peek:empty"] = true
		case o.K == "upd" && szBefore == 0:
			tags["update-front:empty"] = true
		case o.K == "upd":
			tags["update-front:nonempty"] = true
		case o.K == "restore" && r.K == "panic":
			tags["restore:refused"] = true
		case o.K == "restore":
			tags["restore:ok"] = true
		case o.K == "unmarshal" && o.Elems != nil && (o.Cap == nil || int64(len(*o.Elems)) > *o.Cap):
			tags["unmarshal:oversize"] = true
		case o.K == "unmarshal":
			tags["unmarshal:ok"] = true
		case o.K == "roundtrip" && r.Elems == nil:
			tags["roundtrip:null"] = true
		case o.K == "roundtrip" && len(*r.Elems) == 0:
			tags["roundtrip:empty-array"] = true
		case o.K == "roundtrip":
			tags["roundtrip:nonempty"] = true
		case o.K == "snap":
			tags["snapshot-restore:"+r.K] = true
		case o.K == "bad", o.K == "clear":
			tags[o.K] = true
		}
	}
	switch {
	case in.Cap < 0:
		tags["cap:negative"] = true
	case in.Cap == 0:
		tags["cap:0"] = true
	case in.Cap == 1:
		tags["cap:1"] = true
	case in.Cap <= 5:
		tags["cap:2-5"] = true
	default:
		tags["cap:>5"] = true
	}
	c := hx.Case{Obs: outs}
	c.Coq = hx.App("mk_case", hx.Str(in.Name), hx.Z(in.Cap), hx.L(terms))
	for t := range tags {
		c.Tags = append(c.Tags, t)
	}
	sort.Strings(c.Tags)
	c.Nontrivial = accepted >= 3 && popped >= 2 && (tags["push:refused"] || tags["pop:empty"])
	return c, nil
}

var names = []string{"Buf", "", "GPU[0].L1V.Top.Incoming", "q\"uo\\te", "<a&b>", "bü∂ ", "tab\there\n", "\u0001ctl"}
var badTexts = []string{"", "{", "[1,2]", `{"cap":"x"}`, `{"elements":[-1]}`, `{"cap":1.5}`, `{"name":3}`,
	`{"cap":9223372036854775808}`, `{"elements":{"a":1}}`, `{"name":"a","cap":1,"elements":[1]} x`}

func genHistory(r *hx.Rand, cp int64, n int) []opIn {
	var ops []opIn
	next := uint64(1)
	val := func() uint64 {
		if r.Chance(1, 12) {
			return []uint64{0, ^uint64(0), 1 << 63}[r.Intn(3)]
		}
		next++
		return next
	}
	list := func(k int) []uint64 {
		xs := make([]uint64, k)
		for i := range xs {
			xs[i] = val()
		}
		return xs
	}
	// phases bias the walk towards full and towards empty so that both edges are hit
	for len(ops) < n {
		fill := r.Bool()
		burst := 1 + r.Intn(8)
		for i := 0; i < burst && len(ops) < n; i++ {
			var w []int
			if fill {
				w = []int{40, 8, 5, 5, 1, 4, 3, 3, 1, 3, 1, 3, 3, 1, 3, 2}
			} else {
				w = []int{8, 40, 5, 5, 2, 4, 3, 3, 1, 3, 1, 3, 3, 1, 3, 2}
			}
			switch r.Pick(w...) {
			case 0:
				ops = append(ops, opIn{K: "push", E: val()})
			case 1:
				ops = append(ops, opIn{K: "pop"})
			case 2:
				ops = append(ops, opIn{K: "peek"})
			case 3:
				ops = append(ops, opIn{K: "upd", E: val()})
			case 4:
				ops = append(ops, opIn{K: "clear"})
			case 5:
				ops = append(ops, opIn{K: "elems"})
			case 6:
				k := 0
				switch r.Pick(2, 4, 2, 2) {
				case 0:
					k = 0
				case 1:
					if cp > 0 {
						k = r.Intn(int(min64(cp, 8)) + 1)
					}
				case 2:
					k = int(clamp(cp, 0, 8))
				default:
					k = int(clamp(cp, 0, 8)) + 1 + r.Intn(2)
				}
				ops = append(ops, opIn{K: "restore", L: list(k)})
			case 7:
				ops = append(ops, opIn{K: "size"})
			case 8:
				ops = append(ops, opIn{K: "cap"})
			case 9:
				ops = append(ops, opIn{K: "canpush"})
			case 10:
				ops = append(ops, opIn{K: "name"})
			case 11:
				ops = append(ops, opIn{K: "marshal"})
			case 12:
				o := opIn{K: "unmarshal", AsNull: r.Bool()}
				if r.Chance(5, 6) {
					s := names[r.Intn(len(names))]
					o.Name = &s
				}
				var c int64 = cp
				if r.Chance(5, 6) {
					if r.Chance(1, 4) {
						c = int64(r.Range(-2, 6))
					}
					o.Cap = &c
				} else {
					c = 0
				}
				if r.Chance(4, 5) {
					k := 0
					switch r.Pick(2, 5, 2) {
					case 0:
						k = 0
					case 1:
						k = r.Intn(int(clamp(c, 0, 8)) + 1)
					default: // hand-made oversize object
						k = int(clamp(c, 0, 8)) + 1 + r.Intn(2)
					}
					xs := list(k)
					o.Elems = &xs
				}
				ops = append(ops, o)
			case 13:
				ops = append(ops, opIn{K: "bad", BadText: badTexts[r.Intn(len(badTexts))]})
			case 14:
				ops = append(ops, opIn{K: "roundtrip"})
			default:
				ops = append(ops, opIn{K: "snap"})
			}
		}
	}
	return ops
}

func min64(a, b int64) int64 {
	if a < b {
		return a
	}
	return b
}

func clamp(x, lo, hi int64) int64 {
	if x < lo {
		return lo
	}
	if x > hi {
		return hi
	}
	return x
}

func gen(r *hx.Rand, tier string) []json.RawMessage {
	n := 800
	if tier == "thorough" {
		n = 20000
	}
	var out []json.RawMessage
	add := func(name string, cp int64, ops []opIn) { out = append(out, hx.J(input{name, cp, ops})) }
	p := func(k string) opIn { return opIn{K: k} }
	pe := func(k string, e uint64) opIn { return opIn{K: k, E: e} }
	// directed: for every small capacity, fill to the brim, overflow, drain, underflow,
	// both JSON forms of the empty buffer, restore at / over capacity
	for cp := int64(-1); cp <= 6; cp++ {
		var ops []opIn
		for i := int64(0); i <= cp+1; i++ {
			ops = append(ops, p("canpush"), pe("push", uint64(10+i)), p("size"))
		}
		ops = append(ops, p("roundtrip"), pe("upd", 99), p("peek"), p("snap"), p("elems"))
		for i := int64(0); i <= cp+1; i++ {
			ops = append(ops, p("pop"), p("size"))
		}
		ops = append(ops, p("marshal"), p("roundtrip"), p("snap"), p("marshal"), pe("push", 5), p("clear"), p("marshal"), p("roundtrip"))
		k := clamp(cp, 0, 8)
		full := make([]uint64, k)
		over := make([]uint64, k+1)
		for i := range full {
			full[i] = uint64(100 + i)
		}
		for i := range over {
			over[i] = uint64(200 + i)
		}
		ops = append(ops, opIn{K: "restore", L: full}, p("elems"), opIn{K: "restore", L: over}, p("elems"),
			opIn{K: "restore", L: nil}, p("marshal"), p("pop"), pe("upd", 1), p("peek"))
		zero := int64(0)
		ops = append(ops, opIn{K: "unmarshal", Elems: &over}, p("canpush"), pe("push", 1), p("pop"), p("snap"), p("roundtrip"),
			opIn{K: "unmarshal", Cap: &zero, AsNull: true}, p("marshal"))
		add(names[int(cp+1)%len(names)], cp, ops)
	}
	add("big", 1<<40, genHistory(r, 1<<40, 40))
	add("min", -1<<63, []opIn{pe("push", 1), p("pop"), opIn{K: "restore"}, p("snap"), p("roundtrip")})
	add("max", 1<<63-1, []opIn{pe("push", 1), pe("push", 2), p("pop"), p("roundtrip"), p("snap")})
	for len(out) < n {
		var cp int64
		switch r.Pick(2, 3, 8, 2, 1) {
		case 0:
			cp = 0
		case 1:
			cp = 1
		case 2:
			cp = int64(r.Range(2, 5))
		case 3:
			cp = int64(r.Range(6, 12))
		default:
			cp = -int64(r.Range(1, 3))
		}
		ln := r.Range(5, 60)
		if tier == "thorough" && r.Chance(1, 10) {
			ln = r.Range(100, 300)
		}
		add(names[r.Intn(len(names))], cp, genHistory(r, cp, ln))
	}
	return out
}

func shrink(raw json.RawMessage) []json.RawMessage {
	var in input
	if hx.UJ(raw, &in) != nil {
		return nil
	}
	var out []json.RawMessage
	n := len(in.Ops)
	cut := func(lo, hi int) {
		ops := append(append([]opIn{}, in.Ops[:lo]...), in.Ops[hi:]...)
		out = append(out, hx.J(input{in.Name, in.Cap, ops}))
	}
	for sz := n / 2; sz >= 1; sz /= 2 {
		for lo := 0; lo+sz <= n; lo += sz {
			cut(lo, lo+sz)
		}
	}
	return out
}

func init() {
	hx.Register(&hx.Prop{
		ID:      "C14",
		Imports: "From Akita Require Import Lib.Base Lib.Fifo C14.Model C14.Exec.",
		Rule: "directed per-capacity scripts (capacity -1..6: fill to capacity, overflow push, drain, underflow pop, update-front, " +
			"snapshot/restore at and above capacity, both JSON forms of an empty buffer, hand-made oversize JSON) plus random " +
			"histories of 5-60 calls (thorough: up to 300) over all 16 operations on capacities 0, 1, 2-5, 6-12 and negative, " +
			"generated in alternating fill/drain bursts so that the full and the empty edge are both reached; a small malformed " +
			"stream (rejected JSON texts, oversize Restore, oversize JSON objects). Every history is followed by a full observation " +
			"of the final state. Non-trivial: >= 3 accepted pushes, >= 2 pops of a non-empty buffer and at least one refused push " +
			"or pop of an empty buffer. Distinct = distinct input hash.",
		Gen: gen, Run: run, Shrink: shrink,
	})
}
