// Package c26 ties the Coq model of mem/vm/pagetable.go and
// pagetable_checkpoint.go to the implementation: an operation history is run
// against real vm.PageTable values (several fresh tables, and once with
// checkpoint round trips woven in) and every result is recorded.
package c26

import (
	"bytes"
	"encoding/json"
	"fmt"
	"io"

	"github.com/sarchlab/akita/v5/mem/vm"

	"verifharness/internal/hx"
)

// Page is the JSON input form of a vm.Page (flags: bit0 Valid, bit1 Unified,
// bit2 IsMigrating, bit3 IsPinned).
type Page struct {
	PID   uint32 `json:"pid"`
	PAddr uint64 `json:"pa"`
	VAddr uint64 `json:"va"`
	Size  uint64 `json:"size"`
	Dev   uint64 `json:"dev"`
	Flags uint8  `json:"flags"`
}

// Entry is one process of a checkpoint DTO.
type Entry struct {
	PID   uint32 `json:"pid"`
	Pages []Page `json:"pages"`
}

// Op is one operation: k in ins|rem|find|upd|rev|save|load|rt.
type Op struct {
	K    string  `json:"k"`
	P    *Page   `json:"p,omitempty"`
	PID  uint32  `json:"pid,omitempty"`
	A    uint64  `json:"a,omitempty"`
	Log2 uint64  `json:"log2,omitempty"`
	D    []Entry `json:"d,omitempty"`
}

type input struct {
	Log2 uint64 `json:"log2"`
	Ops  []Op   `json:"ops"`
	RT   []bool `json:"rt"`
	Reps int    `json:"reps"`
}

// ToVM converts to the implementation's page.
func (p Page) ToVM() vm.Page {
	return vm.Page{PID: vm.PID(p.PID), PAddr: p.PAddr, VAddr: p.VAddr, PageSize: p.Size, DeviceID: p.Dev,
		Valid: p.Flags&1 != 0, Unified: p.Flags&2 != 0, IsMigrating: p.Flags&4 != 0, IsPinned: p.Flags&8 != 0}
}

// FromVM converts from the implementation's page.
func FromVM(q vm.Page) Page {
	var f uint8
	if q.Valid {
		f |= 1
	}
	if q.Unified {
		f |= 2
	}
	if q.IsMigrating {
		f |= 4
	}
	if q.IsPinned {
		f |= 8
	}
	return Page{PID: uint32(q.PID), PAddr: q.PAddr, VAddr: q.VAddr, Size: q.PageSize, Dev: q.DeviceID, Flags: f}
}

// CoqPage prints a page as a Coq term.
func CoqPage(p Page) string {
	return hx.App("mk_page", hx.N(uint64(p.PID)), hx.N(p.PAddr), hx.N(p.VAddr), hx.N(p.Size), hx.N(p.Dev), hx.N(uint64(p.Flags)))
}

func coqDTO(d []Entry) string {
	es := make([]string, len(d))
	for i, e := range d {
		ps := make([]string, len(e.Pages))
		for j, p := range e.Pages {
			ps[j] = CoqPage(p)
		}
		es[i] = hx.T(hx.N(uint64(e.PID)), hx.L(ps))
	}
	return hx.L(es)
}

// Res is one observed result.
type Res struct {
	K    string  `json:"k"` // panic|unit|found|none|saved|loaded|loaderr
	P    *Page   `json:"p,omitempty"`
	Log2 uint64  `json:"log2,omitempty"`
	D    []Entry `json:"d,omitempty"`
}

func coqRes(r Res) string {
	switch r.K {
	case "panic":
		return "RPanic"
	case "unit":
		return "RUnit"
	case "found":
		return hx.App("RFound", hx.Some(CoqPage(*r.P)))
	case "none":
		return "(RFound None)"
	case "saved":
		return hx.App("RSaved", hx.N(r.Log2), coqDTO(r.D))
	case "loaded":
		return "(RLoaded true)"
	case "loaderr":
		return "(RLoaded false)"
	}
	panic("bad res " + r.K)
}

type ckptDTO struct {
	Log2PageSize uint64      `json:"log2_page_size"`
	Tables       []ckptEntry `json:"tables"`
}
type ckptEntry struct {
	PID   vm.PID    `json:"pid"`
	Pages []vm.Page `json:"pages"`
}

type checkpointer interface {
	SaveCheckpoint(w io.Writer) error
	LoadCheckpoint(r io.Reader) error
}

func saveDTO(pt vm.PageTable) (uint64, []Entry, []byte, error) {
	var buf bytes.Buffer
	if err := pt.(checkpointer).SaveCheckpoint(&buf); err != nil {
		return 0, nil, nil, err
	}
	raw := append([]byte(nil), buf.Bytes()...)
	var d ckptDTO
	if err := json.Unmarshal(raw, &d); err != nil {
		return 0, nil, nil, err
	}
	out := make([]Entry, len(d.Tables))
	for i, e := range d.Tables {
		out[i] = Entry{PID: uint32(e.PID), Pages: []Page{}}
		for _, p := range e.Pages {
			out[i].Pages = append(out[i].Pages, FromVM(p))
		}
	}
	return d.Log2PageSize, out, raw, nil
}

func encodeDTO(log2 uint64, d []Entry) []byte {
	c := ckptDTO{Log2PageSize: log2, Tables: []ckptEntry{}}
	for _, e := range d {
		ce := ckptEntry{PID: vm.PID(e.PID), Pages: []vm.Page{}}
		for _, p := range e.Pages {
			ce.Pages = append(ce.Pages, p.ToVM())
		}
		c.Tables = append(c.Tables, ce)
	}
	b, _ := json.Marshal(c)
	return b
}

// exec runs ops on a fresh table; rt[i] inserts a save/load-into-fresh-table after op i
// (its result is not reported).
func exec(log2 uint64, ops []Op, rt []bool) ([]Res, error) {
	pt := vm.NewPageTable(log2)
	var out []Res
	roundtrip := func() (Res, error) {
		l, d, raw, err := saveDTO(pt)
		if err != nil {
			return Res{}, err
		}
		fresh := vm.NewPageTable(log2)
		if err := fresh.(checkpointer).LoadCheckpoint(bytes.NewReader(raw)); err != nil {
			return Res{K: "loaderr"}, nil
		}
		pt = fresh
		return Res{K: "saved", Log2: l, D: d}, nil
	}
	for i, o := range ops {
		var r Res
		switch o.K {
		case "ins", "upd", "rem":
			p, _ := hx.Try(func() {
				switch o.K {
				case "ins":
					pt.Insert(o.P.ToVM())
				case "upd":
					pt.Update(o.P.ToVM())
				default:
					pt.Remove(vm.PID(o.PID), o.A)
				}
			})
			if p {
				r = Res{K: "panic"}
			} else {
				r = Res{K: "unit"}
			}
		case "find", "rev":
			var pg vm.Page
			var found bool
			if o.K == "find" {
				pg, found = pt.Find(vm.PID(o.PID), o.A)
			} else {
				pg, found = pt.ReverseLookup(o.A)
			}
			if found {
				q := FromVM(pg)
				r = Res{K: "found", P: &q}
			} else {
				if pg != (vm.Page{}) {
					return nil, fmt.Errorf("not found but non-zero page returned")
				}
				r = Res{K: "none"}
			}
		case "save":
			l, d, _, err := saveDTO(pt)
			if err != nil {
				return nil, err
			}
			r = Res{K: "saved", Log2: l, D: d}
		case "load":
			err := pt.(checkpointer).LoadCheckpoint(bytes.NewReader(encodeDTO(o.Log2, o.D)))
			if err != nil {
				r = Res{K: "loaderr"}
			} else {
				r = Res{K: "loaded"}
			}
		case "rt":
			var err error
			if r, err = roundtrip(); err != nil {
				return nil, err
			}
		default:
			return nil, fmt.Errorf("bad op %q", o.K)
		}
		out = append(out, r)
		if i < len(rt) && rt[i] {
			if _, err := roundtrip(); err != nil {
				return nil, err
			}
		}
	}
	return out, nil
}

func coqOp(o Op) string {
	switch o.K {
	case "ins":
		return hx.App("OInsert", CoqPage(*o.P))
	case "upd":
		return hx.App("OUpdate", CoqPage(*o.P))
	case "rem":
		return hx.App("ORemove", hx.N(uint64(o.PID)), hx.N(o.A))
	case "find":
		return hx.App("OFind", hx.N(uint64(o.PID)), hx.N(o.A))
	case "rev":
		return hx.App("ORev", hx.N(o.A))
	case "save":
		return "OSave"
	case "load":
		return hx.App("OLoad", hx.N(o.Log2), coqDTO(o.D))
	case "rt":
		return "ORoundtrip"
	}
	panic("bad op")
}

func coqRess(rs []Res) string {
	s := make([]string, len(rs))
	for i, r := range rs {
		s[i] = coqRes(r)
	}
	return hx.L(s)
}

type obs struct {
	Runs [][]Res `json:"runs"`
	RT   []Res   `json:"rt"`
}

func run(raw json.RawMessage) (hx.Case, error) {
	var in input
	if err := hx.UJ(raw, &in); err != nil {
		return hx.Case{}, err
	}
	for _, o := range in.Ops {
		if (o.K == "ins" || o.K == "upd") && o.P == nil {
			return hx.Case{}, fmt.Errorf("op %s without page", o.K)
		}
	}
	reps := in.Reps
	if reps < 1 {
		reps = 1
	}
	var ob obs
	for i := 0; i < reps; i++ {
		rs, err := exec(in.Log2, in.Ops, nil)
		if err != nil {
			return hx.Case{}, err
		}
		ob.Runs = append(ob.Runs, rs)
	}
	rt, err := exec(in.Log2, in.Ops, in.RT)
	if err != nil {
		return hx.Case{}, err
	}
	ob.RT = rt

	ops := make([]string, len(in.Ops))
	for i, o := range in.Ops {
		ops[i] = coqOp(o)
	}
	rtm := make([]string, len(in.RT))
	for i, b := range in.RT {
		rtm[i] = hx.B(b)
	}
	runs := make([]string, len(ob.Runs))
	for i, r := range ob.Runs {
		runs[i] = coqRess(r)
	}
	c := hx.Case{Obs: ob}
	c.Coq = hx.App("mk_case", hx.N(in.Log2), hx.L(ops), hx.L(rtm), hx.L(runs), coqRess(ob.RT))

	// tags / non-triviality
	pids := map[uint32]bool{}
	byPA := map[uint64]map[uint32]bool{}
	nrev, nck, npanic := 0, 0, 0
	for _, o := range in.Ops {
		switch o.K {
		case "ins":
			pids[o.P.PID] = true
			if byPA[o.P.PAddr] == nil {
				byPA[o.P.PAddr] = map[uint32]bool{}
			}
			byPA[o.P.PAddr][o.P.PID] = true
		case "rev":
			nrev++
		case "save", "load", "rt":
			nck++
		}
	}
	for _, r := range ob.Runs[0] {
		if r.K == "panic" {
			npanic++
		}
	}
	shared := 0
	for _, m := range byPA {
		if len(m) > shared {
			shared = len(m)
		}
	}
	c.Tags = append(c.Tags, fmt.Sprintf("procs:%d", min(len(pids), 5)), fmt.Sprintf("share:%d", min(shared, 4)))
	if nrev > 0 && shared >= 3 {
		c.Tags = append(c.Tags, "rev-shared>=3")
	}
	if nck > 0 {
		c.Tags = append(c.Tags, "checkpoint-op")
	}
	if npanic > 0 {
		c.Tags = append(c.Tags, "panic-outcome")
	}
	if in.Log2 >= 64 || in.Log2 == 0 {
		c.Tags = append(c.Tags, "log2-edge")
	}
	c.Nontrivial = len(pids) >= 2 && len(in.Ops) >= 4 && (nrev > 0 || nck > 0)
	return c, nil
}

// SaveDTO returns the checkpoint DTO of a page table (used by the C27 harness).
func SaveDTO(pt vm.PageTable) (uint64, []Entry, error) {
	l, d, _, err := saveDTO(pt)
	return l, d, err
}

// CoqDTO prints a DTO as a Coq term.
func CoqDTO(d []Entry) string { return coqDTO(d) }
