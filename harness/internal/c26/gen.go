package c26

import (
	"encoding/json"

	"verifharness/internal/hx"
)

var pidPool = []uint32{0, 1, 2, 3, 7, 4294967295}

func genPage(r *hx.Rand, log2 uint64, npid, nva, npa int) Page {
	sz := uint64(1)
	if log2 < 64 {
		sz = uint64(1) << log2
	}
	p := Page{
		PID:   pidPool[r.Intn(npid)],
		VAddr: uint64(r.Intn(nva)) * sz,
		PAddr: uint64(r.Intn(npa)) * sz,
		Size:  sz,
		Dev:   uint64(r.Intn(3)),
		Flags: uint8(r.Intn(16)),
	}
	if r.Chance(1, 12) { // unaligned virtual address: stored under the raw key
		p.VAddr += 1 + r.U64n(7)
	}
	if r.Chance(1, 10) {
		p.PAddr += 1 + r.U64n(5)
	}
	if r.Chance(1, 25) {
		p.VAddr = ^uint64(0) - r.U64n(4)
	}
	return p
}

func genDTO(r *hx.Rand, log2 uint64, malformed bool) []Entry {
	n := r.Intn(4)
	var d []Entry
	pid := 0
	for i := 0; i < n; i++ {
		if pid >= len(pidPool) {
			break
		}
		e := Entry{PID: pidPool[pid], Pages: []Page{}}
		pid += 1 + r.Intn(2)
		k := r.Intn(4)
		for j := 0; j < k; j++ {
			p := genPage(r, log2, 1, 1, 3)
			p.PID = e.PID
			p.VAddr = uint64(j) << (log2 % 64)
			e.Pages = append(e.Pages, p)
		}
		d = append(d, e)
	}
	if malformed && len(d) > 0 {
		switch r.Intn(3) {
		case 0: // repeated pid
			d = append(d, Entry{PID: d[0].PID, Pages: []Page{genPage(r, log2, 3, 3, 3)}})
		case 1: // repeated vaddr in one process
			e := &d[r.Intn(len(d))]
			if len(e.Pages) > 0 {
				q := e.Pages[0]
				q.PAddr += 4096
				e.Pages = append(e.Pages, q)
			} else {
				e.Pages = append(e.Pages, genPage(r, log2, 3, 3, 3))
			}
		default: // page carrying another pid
			e := &d[r.Intn(len(d))]
			q := genPage(r, log2, 4, 3, 3)
			q.PID = e.PID + 1
			e.Pages = append(e.Pages, q)
		}
	}
	return d
}

func genOps(r *hx.Rand, log2 uint64, n int, ckpt bool) []Op {
	npid := r.Range(1, len(pidPool))
	nva := r.Range(1, 5)
	npa := r.Range(1, 4)
	var ops []Op
	var inserted []Page
	for len(ops) < n {
		switch r.Pick(8, 3, 5, 3, 6, 1, 1, 1) {
		case 0:
			p := genPage(r, log2, npid, nva, npa)
			inserted = append(inserted, p)
			ops = append(ops, Op{K: "ins", P: &p})
		case 1:
			if len(inserted) > 0 && r.Chance(3, 4) {
				q := inserted[r.Intn(len(inserted))]
				ops = append(ops, Op{K: "rem", PID: q.PID, A: q.VAddr})
			} else {
				q := genPage(r, log2, npid, nva, npa)
				ops = append(ops, Op{K: "rem", PID: q.PID, A: q.VAddr})
			}
		case 2:
			q := genPage(r, log2, npid, nva, npa)
			if len(inserted) > 0 && r.Chance(2, 3) {
				q = inserted[r.Intn(len(inserted))]
			}
			a := q.VAddr
			if r.Chance(1, 2) {
				a += r.U64n(q.Size) // an address inside the page (wraps for the top page)
			}
			ops = append(ops, Op{K: "find", PID: q.PID, A: a})
		case 3:
			q := genPage(r, log2, npid, nva, npa)
			if len(inserted) > 0 && r.Chance(3, 4) {
				o := inserted[r.Intn(len(inserted))]
				q.PID, q.VAddr = o.PID, o.VAddr
			}
			ops = append(ops, Op{K: "upd", P: &q})
		case 4:
			q := genPage(r, log2, npid, nva, npa)
			ops = append(ops, Op{K: "rev", A: q.PAddr})
		case 5:
			if ckpt {
				ops = append(ops, Op{K: "save"})
			}
		case 6:
			if ckpt {
				ops = append(ops, Op{K: "rt"})
			}
		default:
			if ckpt && r.Chance(1, 2) {
				l := log2
				if r.Chance(1, 4) {
					l = log2 + 1
				}
				ops = append(ops, Op{K: "load", Log2: l, D: genDTO(r, log2, r.Chance(1, 4))})
				inserted = nil
			}
		}
	}
	return ops
}

func sharedCase(log2 uint64, pids []uint32, nrev int, reps int) input {
	var ops []Op
	sz := uint64(1) << (log2 % 64)
	for i, pid := range pids {
		p := Page{PID: pid, VAddr: uint64(i+1) * sz, PAddr: 5 * sz, Size: sz, Dev: uint64(i), Flags: 1}
		ops = append(ops, Op{K: "ins", P: &p})
	}
	for i := 0; i < nrev; i++ {
		ops = append(ops, Op{K: "rev", A: 5 * sz})
	}
	ops = append(ops, Op{K: "save"}, Op{K: "rt"})
	for i := 0; i < nrev; i++ {
		ops = append(ops, Op{K: "rev", A: 5 * sz})
	}
	rt := make([]bool, len(ops))
	for i := range rt {
		rt[i] = i%2 == 1
	}
	return input{Log2: log2, Ops: ops, RT: rt, Reps: reps}
}

func gen(r *hx.Rand, tier string) []json.RawMessage {
	n := 200
	if tier == "thorough" {
		n = 3000
	}
	var out []json.RawMessage
	// directed: >= 3 processes sharing one physical page, reverse lookups repeated in fresh tables
	out = append(out, hx.J(sharedCase(12, []uint32{3, 1, 2}, 6, 8)))
	out = append(out, hx.J(sharedCase(12, []uint32{7, 4294967295, 0, 2, 1}, 5, 8)))
	out = append(out, hx.J(sharedCase(16, []uint32{9, 8, 7, 6, 5, 4, 3, 2, 1, 0, 10, 11}, 4, 6))) // > 8 keys: several map buckets
	// directed: panic outcomes, create-on-find, alignment edges
	p := Page{PID: 1, VAddr: 0x1000, PAddr: 0x2000, Size: 4096, Flags: 3}
	q := Page{PID: 1, VAddr: 0x1000, PAddr: 0x9000, Size: 4096, Flags: 1}
	out = append(out, hx.J(input{Log2: 12, Reps: 2, RT: []bool{true, true, true, true, true, true, true, true, true},
		Ops: []Op{{K: "upd", P: &p}, {K: "rem", PID: 5, A: 0}, {K: "find", PID: 6, A: 0x1234}, {K: "save"},
			{K: "ins", P: &p}, {K: "ins", P: &q}, {K: "upd", P: &q}, {K: "find", PID: 1, A: 0x1fff}, {K: "rev", A: 0x9000},
			{K: "rem", PID: 1, A: 0x1000}, {K: "rem", PID: 1, A: 0x1000}, {K: "find", PID: 1, A: 0x1000}, {K: "save"}}}))
	for _, l := range []uint64{0, 1, 63, 64, 65, 200} {
		pp := Page{PID: 2, VAddr: 0, PAddr: 8, Size: 1, Flags: 1}
		hi := Page{PID: 2, VAddr: 1 << 63, PAddr: 8, Size: 1, Flags: 1}
		out = append(out, hx.J(input{Log2: l, Reps: 2, Ops: []Op{{K: "ins", P: &pp}, {K: "ins", P: &hi},
			{K: "find", PID: 2, A: ^uint64(0)}, {K: "find", PID: 2, A: 1<<63 + 5}, {K: "find", PID: 2, A: 1}, {K: "rev", A: 8}, {K: "rt"},
			{K: "load", Log2: l + 1}, {K: "load", Log2: l, D: []Entry{{PID: 4, Pages: []Page{pp}}}}, {K: "save"}}}))
	}
	for len(out) < n {
		log2 := []uint64{12, 12, 12, 16, 21, 0, 3, 63, 64}[r.Pick(4, 4, 4, 2, 1, 1, 1, 1, 1)]
		nops := r.Range(4, 45)
		ops := genOps(r, log2, nops, r.Chance(3, 4))
		rt := make([]bool, len(ops))
		for i := range rt {
			rt[i] = r.Chance(1, 3)
		}
		out = append(out, hx.J(input{Log2: log2, Ops: ops, RT: rt, Reps: r.Range(2, 4)}))
	}
	return out
}

func shrink(raw json.RawMessage) []json.RawMessage {
	var in input
	if hx.UJ(raw, &in) != nil {
		return nil
	}
	var out []json.RawMessage
	for i := range in.Ops {
		c := input{Log2: in.Log2, Reps: in.Reps}
		c.Ops = append(append([]Op{}, in.Ops[:i]...), in.Ops[i+1:]...)
		if len(in.RT) == len(in.Ops) {
			c.RT = append(append([]bool{}, in.RT[:i]...), in.RT[i+1:]...)
		}
		out = append(out, hx.J(c))
	}
	if len(in.RT) > 0 {
		out = append(out, hx.J(input{Log2: in.Log2, Ops: in.Ops, Reps: in.Reps}))
	}
	return out
}

func init() {
	hx.Register(&hx.Prop{
		ID:      "C26",
		Imports: "From Akita Require Import Lib.Base C26.Model C26.Exec.",
		Rule: "operation histories (insert/remove/find/update/reverse-lookup/save/load/round-trip) over up to 6 processes " +
			"(pids incl. 0 and 2^32-1), few virtual and physical pages so that sharing and collisions are common, some unaligned " +
			"or top-of-range addresses, log2 page size in {0,3,12,16,21,63,64}; directed: 3/5/12 processes sharing one physical " +
			"page with repeated reverse lookups, panic outcomes, create-on-find, shift-count edges, hand-made (also malformed) " +
			"checkpoints. Each history runs in 2-8 fresh tables and once with checkpoint round trips woven in. " +
			"Non-trivial: >= 2 processes, >= 4 ops and at least one reverse lookup or checkpoint op. Distinct = input hash.",
		Gen: gen, Run: run, Shrink: shrink,
	})
}
