package c24

// The bank selection of simplebankedmemory (selectBank / bankSelectionAddress)
// is unexported.  It is observed through exported API only: a real component is
// built with the given Spec, one read request for the probed address is
// delivered to its Top port, the component is ticked once, and the bank whose
// pipeline received the request is read from the component's State JSON.

import (
	"encoding/json"

	"github.com/sarchlab/akita/v5/mem/memprotocol"
	"github.com/sarchlab/akita/v5/mem/simplebankedmemory"
	"github.com/sarchlab/akita/v5/modeling"
	"github.com/sarchlab/akita/v5/timing"

	"verifharness/internal/hx"
)

type bankProber struct {
	spec simplebankedmemory.Spec
}

func newBankProber(in input) *bankProber {
	spec := simplebankedmemory.DefaultSpec()
	spec.NumBanks = int(in.NB)
	spec.BankPipelineWidth = 1
	spec.BankPipelineDepth = 1
	spec.StageLatency = 10
	spec.PostPipelineBufSize = 1
	spec.Capacity = 4096
	spec.BankSelectorLog2InterleaveSize = in.Log2
	spec.BankAddrConvKind = in.Kind
	spec.BankAddrInterleavingSize = in.S
	spec.BankAddrTotalNumOfElements = int(in.N)
	spec.BankAddrCurrentElementIndex = int(in.I)
	spec.BankAddrOffset = in.Off
	return &bankProber{spec: spec}
}

type stateJSON struct {
	Banks []struct {
		Pipeline        json.RawMessage `json:"pipeline"`
		PostPipelineBuf json.RawMessage `json:"post_pipeline_buf"`
	} `json:"banks"`
}

func (p *bankProber) probe(x uint64) bankT {
	out := bankT{Probed: true}
	var empty, after []string
	pan, _ := hx.Try(func() {
		engine := timing.NewSerialEngine()
		reg := modeling.NewStandaloneRegistrar(engine)
		comp := simplebankedmemory.MakeBuilder().WithRegistrar(reg).WithSpec(p.spec).Build("ProbeMem")
		for _, name := range []string{"Top", "Control"} {
			port := modeling.MakePortBuilder().WithRegistrar(reg).WithComponent(comp).
				WithSpec(modeling.PortSpec{BufSize: 8}).Build(name)
			comp.AssignPort(name, port)
		}
		empty = bankJSON(comp.State)
		top := comp.GetPortByName("Top")
		req := memprotocol.ReadReq{}
		req.ID = timing.GetIDGenerator().Generate()
		req.Src = "Probe.Port"
		req.Dst = top.AsRemote()
		req.Address = x
		req.AccessByteSize = 4
		top.Deliver(req)
		comp.Tick()
		after = bankJSON(comp.State)
	})
	if pan {
		out.Panic = true
		return out
	}
	found := -1
	for k := range after {
		if after[k] != empty[k] {
			if found >= 0 {
				found = -2 // more than one bank changed: impossible, make the tie fail
				break
			}
			found = k
		}
	}
	if found < 0 {
		// accepted by no bank (or by several): report an impossible bank
		out.B = -1000 + int64(found)
		return out
	}
	out.B = int64(found)
	return out
}

func bankJSON(st simplebankedmemory.State) []string {
	b, err := json.Marshal(st)
	if err != nil {
		panic(err)
	}
	var s stateJSON
	if err := json.Unmarshal(b, &s); err != nil {
		panic(err)
	}
	out := make([]string, len(s.Banks))
	for k, bk := range s.Banks {
		out[k] = string(bk.Pipeline) + "|" + string(bk.PostPipelineBuf)
	}
	return out
}
