// Package c24 ties the Coq model of the interleaved address arithmetic
// (mem/addressconverter.go, mem/addrconv.go, mem/addresstoportmapper.go,
// mem/simplebankedmemory bank selection) to the implementation.
package c24

import (
	"encoding/json"
	"fmt"
	"sort"

	"github.com/sarchlab/akita/v5/mem"
	"github.com/sarchlab/akita/v5/messaging"

	"verifharness/internal/hx"
)

// input is one configuration plus a short list of probed addresses.
type input struct {
	S   uint64 `json:"s"`   // InterleavingSize
	N   int64  `json:"n"`   // TotalNumOfElements
	I   int64  `json:"i"`   // CurrentElementIndex
	Off uint64 `json:"off"` // Offset

	Lim  bool   `json:"lim"` // mapper: UseAddressSpaceLimitation
	Lo   uint64 `json:"lo"`
	Hi   uint64 `json:"hi"`
	MS   uint64 `json:"ms"`   // mapper InterleavingSize
	MLen int    `json:"mlen"` // len(LowModules), capped at maxLen

	BSize uint64 `json:"bsize"` // banked mapper BankSize
	BLen  int    `json:"blen"`

	Kind string `json:"kind"` // simplebankedmemory BankAddrConvKind
	Log2 uint64 `json:"log2"` // BankSelectorLog2InterleaveSize
	NB   int64  `json:"nb"`   // NumBanks
	Bank bool   `json:"bank"` // probe the dispatch stage of a real component

	Xs []uint64 `json:"xs"`
}

const maxLen = 4096

type outc struct {
	Panic bool   `json:"panic"`
	V     uint64 `json:"v"`
}

type mresT struct {
	Kind string `json:"kind"` // "idx" | "other" | "panic"
	K    uint64 `json:"k"`
}

type bankT struct {
	Probed bool  `json:"probed"`
	Panic  bool  `json:"panic"`
	B      int64 `json:"b"`
}

type rowObs struct {
	X      uint64 `json:"x"`
	Conv   outc   `json:"conv"`
	Addr   outc   `json:"addr"`
	Ident  outc   `json:"ident"`
	Find   mresT  `json:"find"`
	Banked mresT  `json:"banked"`
	Bank   bankT  `json:"bank"`
}

func callU(f func() uint64) outc {
	var v uint64
	p, _ := hx.Try(func() { v = f() })
	if p {
		return outc{Panic: true}
	}
	return outc{V: v}
}

func (o outc) coq() string {
	if o.Panic {
		return "Panic"
	}
	return hx.App("Ok", hx.N(o.V))
}

func (m mresT) coq() string {
	switch m.Kind {
	case "idx":
		return hx.App("MIdx", hx.N(m.K))
	case "other":
		return "MOther"
	}
	return "MPanic"
}

func (b bankT) coq() string {
	if !b.Probed {
		return "None"
	}
	if b.Panic {
		return "(Some None)"
	}
	return hx.Some(hx.Some(hx.Z(b.B)))
}

func ports(prefix string, n int) ([]messaging.RemotePort, map[messaging.RemotePort]uint64) {
	ps := make([]messaging.RemotePort, n)
	idx := make(map[messaging.RemotePort]uint64, n)
	for k := 0; k < n; k++ {
		ps[k] = messaging.RemotePort(fmt.Sprintf("%s[%d].Port", prefix, k))
		idx[ps[k]] = uint64(k)
	}
	return ps, idx
}

func callM(idx map[messaging.RemotePort]uint64, other messaging.RemotePort,
	f func() messaging.RemotePort) mresT {
	var p messaging.RemotePort
	pan, _ := hx.Try(func() { p = f() })
	if pan {
		return mresT{Kind: "panic"}
	}
	if p == other {
		return mresT{Kind: "other"}
	}
	k, ok := idx[p]
	if !ok {
		// a port that is neither a low module nor the other module: report it
		// as an impossible index so that the tie fails loudly
		return mresT{Kind: "idx", K: ^uint64(0)}
	}
	return mresT{Kind: "idx", K: k}
}

func clampLen(n int) int {
	if n < 0 {
		return 0
	}
	if n > maxLen {
		return maxLen
	}
	return n
}

func run(raw json.RawMessage) (hx.Case, error) {
	var in input
	if err := hx.UJ(raw, &in); err != nil {
		return hx.Case{}, err
	}
	in.MLen = clampLen(in.MLen)
	in.BLen = clampLen(in.BLen)

	conv := mem.InterleavingConverter{
		InterleavingSize:    in.S,
		TotalNumOfElements:  int(in.N),
		CurrentElementIndex: int(in.I),
		Offset:              in.Off,
	}
	var ac mem.AddressConverter = conv

	lows, lowIdx := ports("Low", in.MLen)
	other := messaging.RemotePort("Other.Port")
	var mapper mem.AddressToPortMapper = &mem.InterleavedAddressPortMapper{
		UseAddressSpaceLimitation: in.Lim,
		LowAddress:                in.Lo,
		HighAddress:               in.Hi,
		InterleavingSize:          in.MS,
		LowModules:                lows,
		ModuleForOtherAddresses:   other,
	}
	banks, bankIdx := ports("Bank", in.BLen)
	bm := mem.NewBankedAddressPortMapper(in.BSize)
	bm.LowModules = append(bm.LowModules, banks...)
	var banked mem.AddressToPortMapper = bm

	var prober *bankProber
	if in.Bank {
		prober = newBankProber(in)
	}

	rows := make([]rowObs, 0, len(in.Xs))
	coqRows := make([]string, 0, len(in.Xs))
	for _, x := range in.Xs {
		x := x
		r := rowObs{X: x}
		r.Conv = callU(func() uint64 { return ac.ConvertExternalToInternal(x) })
		r.Addr = callU(func() uint64 {
			return mem.ConvertAddress("interleaving", in.Off, in.S, int(in.N), int(in.I), x)
		})
		r.Ident = callU(func() uint64 {
			return mem.ConvertAddress("", in.Off, in.S, int(in.N), int(in.I), x)
		})
		r.Find = callM(lowIdx, other, func() messaging.RemotePort { return mapper.Find(x) })
		r.Banked = callM(bankIdx, "", func() messaging.RemotePort { return banked.Find(x) })
		if prober != nil {
			r.Bank = prober.probe(x)
		}
		rows = append(rows, r)
		coqRows = append(coqRows, hx.App("mk_row", hx.N(x), r.Conv.coq(), r.Addr.coq(),
			r.Ident.coq(), r.Find.coq(), r.Banked.coq(), r.Bank.coq()))
	}

	c := hx.Case{Obs: rows}
	c.Coq = hx.App("mk_case", hx.N(in.S), hx.Z(in.N), hx.Z(in.I), hx.N(in.Off),
		hx.B(in.Lim), hx.N(in.Lo), hx.N(in.Hi), hx.N(in.MS), hx.N(uint64(in.MLen)),
		hx.N(in.BSize), hx.N(uint64(in.BLen)),
		hx.B(in.Kind == ""), hx.N(in.Log2), hx.Z(in.NB), hx.L(coqRows))
	classify(&c, in, rows)
	return c, nil
}

// mulOK reports whether a*b fits in 64 bits.
func mulOK(a, b uint64) bool {
	if a == 0 || b == 0 {
		return true
	}
	return a <= ^uint64(0)/b
}

func classify(c *hx.Case, in input, rows []rowObs) {
	tag := func(t string) { c.Tags = append(c.Tags, t) }
	wf := in.S >= 1 && in.N >= 1 && mulOK(in.S, uint64(in.N))
	switch {
	case in.S == 0:
		tag("cfg:size-0")
	case in.N == 0:
		tag("cfg:count-0")
	case in.N < 0:
		tag("cfg:count-negative")
	case !wf:
		tag("cfg:size*count-overflows")
	case in.I < 0 || in.I >= in.N:
		tag("cfg:index-out-of-range")
	default:
		tag("cfg:well-formed")
	}
	if !wf || in.I < 0 || in.I >= in.N {
		return
	}
	rs := in.S * uint64(in.N)
	switch {
	case in.Off == 0:
		tag("offset:zero")
	case in.Off%rs == 0:
		tag("offset:multiple-of-round")
	case in.Off%in.S == 0:
		tag("offset:multiple-of-size-only")
	default:
		tag("offset:unaligned")
	}
	if in.N == 1 {
		tag("count:1")
	}
	if in.S == 1 {
		tag("size:1")
	} else if in.S&(in.S-1) != 0 {
		tag("size:non-power-of-two")
	}
	if in.MS == in.S && int64(in.MLen) == in.N {
		tag("mapper:paired")
	}
	if in.Lim {
		tag("mapper:limited")
	}
	if in.Bank {
		tag("bank:probed")
	}
	accepted, below, foreign, nearTop := 0, 0, 0, 0
	stripes := map[uint64]int{}
	for _, r := range rows {
		if r.X < in.Off {
			below++
			continue
		}
		a := r.X - in.Off
		if int64(a%rs/in.S) == in.I {
			accepted++
			stripes[a/rs]++
		} else {
			foreign++
		}
		if r.X > ^uint64(0)-2*rs {
			nearTop++
		}
	}
	if accepted > 0 {
		tag("addr:owned")
	}
	if foreign > 0 {
		tag("addr:foreign")
	}
	if below > 0 {
		tag("addr:below-offset")
	}
	if nearTop > 0 {
		tag("addr:near-2^64")
	}
	same := false
	for _, k := range stripes {
		if k >= 2 {
			same = true
		}
	}
	if same {
		tag("addr:two-in-one-stripe")
	}
	if len(stripes) >= 2 {
		tag("addr:two-stripes")
	}
	// non-trivial: a well-formed configuration with at least two owned addresses
	// (so that order / contiguity is exercised) and at least one rejected address
	c.Nontrivial = accepted >= 2 && (foreign > 0 || below > 0)
}

// ------------------------------------------------------------------ generator

func sortU(xs []uint64) []uint64 {
	sort.Slice(xs, func(a, b int) bool { return xs[a] < xs[b] })
	out := xs[:0]
	for k, x := range xs {
		if k == 0 || x != xs[k-1] {
			out = append(out, x)
		}
	}
	return out
}

// around returns addresses around the stripes k and k+1 of element i.
func around(in input, k uint64, r *hx.Rand) []uint64 {
	s, n := in.S, uint64(in.N)
	rs := s * n
	base := in.Off + k*rs + uint64(in.I)*s
	xs := []uint64{base - 1, base, base + 1, base + s - 1, base + s, base + s/2,
		base + rs - 1, base + rs, base + rs + s - 1, base + rs + s, in.Off, in.Off - 1}
	// a consecutive run crossing the end of the stripe
	st := base + s - 3
	for d := uint64(0); d < 6; d++ {
		xs = append(xs, st+d)
	}
	xs = append(xs, base+r.U64n(s), base+r.U64n(s), base+rs+r.U64n(s))
	return xs
}

func finish(in input) json.RawMessage {
	in.Xs = sortU(in.Xs)
	if len(in.Xs) > 24 {
		in.Xs = in.Xs[:24]
	}
	return hx.J(in)
}

// paired completes the mapper fields so that the mapper describes the same
// interleaving as the converter.
func paired(in input) input {
	in.MS = in.S
	if in.N >= 0 && in.N <= maxLen {
		in.MLen = int(in.N)
	} else {
		in.MLen = 3
	}
	if in.BSize == 0 && in.BLen == 0 {
		in.BSize = in.S
		in.BLen = 16
	}
	return in
}

func directed(r *hx.Rand) []json.RawMessage {
	var out []json.RawMessage
	add := func(in input) { out = append(out, finish(in)) }

	// the confirmed defect: an offset that is not a multiple of the size
	d := paired(input{S: 64, N: 4, I: 1, Off: 10, Log2: 6, NB: 4})
	d.Xs = []uint64{10 + 64, 10 + 64 + 53, 10 + 64 + 54, 10 + 64 + 63, 10 + 320, 9, 10, 10 + 128}
	add(d)
	// the repository's own bank-selection test: 4 controllers interleaved at 128 B,
	// this memory is element 1, 64 B banks (probed through a real component)
	for _, kind := range []string{"interleaving", "", "anything-non-empty"} {
		b := paired(input{S: 128, N: 4, I: 1, Off: 0, Kind: kind, Log2: 6, NB: 4, Bank: true})
		b.Xs = []uint64{0, 64, 127, 128, 192, 255, 256, 640, 704, 1152, 1216}
		add(b)
		b.Off = 10
		add(b)
	}
	for _, bk := range []input{
		{S: 128, N: 4, I: 1, Kind: "interleaving", Log2: 6, NB: 0}, {S: 128, N: 4, I: 1, Kind: "interleaving", Log2: 6, NB: -1},
		{S: 128, N: 4, I: 1, Kind: "interleaving", Log2: 64, NB: 4}, {S: 128, N: 4, I: 1, Kind: "interleaving", Log2: 63, NB: 4},
		{S: 128, N: 4, I: 1, Kind: "", Log2: 0, NB: 1}, {S: 128, N: 4, I: 1, Kind: "", Log2: 70, NB: 3},
		{S: 0, N: 4, I: 1, Kind: "interleaving", Log2: 6, NB: 4}, {S: 0, N: 4, I: 1, Kind: "", Log2: 6, NB: 4},
		{S: 64, N: 2, I: 0, Kind: "interleaving", Log2: 3, NB: 7},
	} {
		b := paired(bk)
		b.Bank = true
		b.Xs = []uint64{0, 64, 128, 192, 640, 1<<63 + 128, ^uint64(0)}
		add(b)
	}
	// the mapper / converter pair with an offset that is a multiple of the size
	// but not of size*count: the mapper names a rotated element
	m := paired(input{S: 64, N: 4, I: 0, Off: 64, Log2: 6, NB: 4})
	m.Xs = []uint64{64, 65, 127, 128, 64 + 256, 63, 0}
	add(m)
	// ... and with an offset that is not a multiple of the size
	m2 := paired(input{S: 64, N: 4, I: 0, Off: 1, Log2: 6, NB: 4})
	m2.Xs = []uint64{1, 63, 64, 65, 128, 257}
	add(m2)

	sizes := []uint64{1, 2, 3, 7, 64, 100, 4096, 1 << 20, 1<<20 + 1}
	counts := []int64{1, 2, 3, 5, 8, 16}
	for _, s := range sizes {
		for _, n := range counts {
			rs := s * uint64(n)
			for _, off := range []uint64{0, rs, 3 * rs, s, 2 * s, s/2 + 1, rs - 1, 12345} {
				in := paired(input{S: s, N: n, I: int64(r.Intn(int(n))), Off: off, Log2: 6, NB: 4})
				in.Lim = r.Chance(1, 4)
				if in.Lim {
					in.Lo = off
					in.Hi = off + (2+r.U64n(6))*rs
				}
				in.Xs = around(in, r.U64n(4), r)
				add(in)
			}
		}
	}
	// values near 2^64
	top := ^uint64(0)
	for _, s := range []uint64{1, 3, 64, 4096} {
		for _, n := range []int64{1, 3, 4} {
			rs := s * uint64(n)
			for _, off := range []uint64{0, 7, 5 * rs, top - 10*rs, top - 3, top} {
				in := paired(input{S: s, N: n, I: int64(r.Intn(int(n))), Off: off, Log2: 6, NB: 4})
				k := (top - in.Off) / rs
				if k > 0 {
					k--
				}
				in.Xs = around(in, k, r)
				in.Xs = append(in.Xs, top, top-1, top-s, top-rs)
				add(in)
			}
		}
	}
	// large sizes / counts whose product is close to or beyond 2^64
	for _, sn := range []struct {
		s uint64
		n int64
	}{{1 << 32, 1 << 31}, {1 << 32, 1 << 32}, {1 << 33, 1<<31 + 1}, {3, 6148914691236517206},
		{1 << 63, 1}, {1 << 63, 2}, {1 << 63, 3}, {1, 1<<63 - 1}, {2, 1<<63 - 1}, {1<<32 + 1, 1<<32 - 1}} {
		for _, off := range []uint64{0, 5, sn.s} {
			in := paired(input{S: sn.s, N: sn.n, I: 0, Off: off, Log2: 6, NB: 4})
			in.Xs = []uint64{off, off + 1, off + sn.s - 1, off + sn.s, off + 2*sn.s + 1, top, top - 1, 0, 1, 2, 3, 4, 5, 6}
			add(in)
			in.I = 1
			add(in)
		}
	}
	// malformed stream
	for _, mf := range []input{
		{S: 0, N: 4, I: 0}, {S: 64, N: 0, I: 0}, {S: 0, N: 0, I: 0},
		{S: 64, N: -1, I: 0}, {S: 64, N: -4, I: -1}, {S: 64, N: 4, I: -1}, {S: 64, N: 4, I: 4},
		{S: 64, N: 4, I: 100}, {S: 1, N: -1, I: -2}, {S: 2, N: -1, I: -1},
		{S: 64, N: 4, I: 1, Off: 1 << 40},
	} {
		in := paired(mf)
		in.Log2, in.NB = 6, 4
		in.Xs = []uint64{0, 1, 63, 64, 65, 128, 255, 256, 1 << 40, 1<<40 + 64, top}
		add(in)
	}
	// mapper corner cases: empty module list, size 0, limitation edges
	for _, mc := range []input{
		{S: 64, N: 4, I: 1, MS: 64, MLen: 0}, {S: 64, N: 4, I: 1, MS: 0, MLen: 4},
		{S: 64, N: 4, I: 1, MS: 64, MLen: 4, Lim: true, Lo: 64, Hi: 256},
		{S: 64, N: 4, I: 1, MS: 64, MLen: 4, Lim: true, Lo: 256, Hi: 64},
		{S: 64, N: 4, I: 1, MS: 32, MLen: 4}, {S: 64, N: 4, I: 1, MS: 64, MLen: 3},
		{S: 64, N: 4, I: 1, MS: 64, MLen: 4, BSize: 0, BLen: 4},
		{S: 64, N: 4, I: 1, MS: 64, MLen: 4, BSize: 64, BLen: 0},
		{S: 64, N: 4, I: 1, MS: 64, MLen: 4, BSize: 64, BLen: 2},
	} {
		in := mc
		in.Log2, in.NB = 6, 4
		in.Xs = []uint64{0, 63, 64, 65, 127, 128, 255, 256, 257, 320, 383, 384}
		add(in)
	}
	return out
}

func pickSize(r *hx.Rand) uint64 {
	switch r.Pick(3, 3, 2, 1, 1) {
	case 0:
		return uint64(1) << uint(r.Intn(21))
	case 1:
		return 1 + r.U64n(300)
	case 2:
		return 1 + r.U64n(1<<20)
	case 3:
		return 1
	default:
		return 1 + r.U64n(1<<40)
	}
}

func random(r *hx.Rand) json.RawMessage {
	s := pickSize(r)
	var n int64
	switch r.Pick(2, 5, 2, 1) {
	case 0:
		n = 1
	case 1:
		n = int64(2 + r.Intn(15))
	case 2:
		n = int64(1 + r.Intn(maxLen))
	default:
		n = int64(1 + r.U64n(1<<20))
	}
	rs := s * uint64(n)
	in := input{S: s, N: n, I: int64(r.U64n(uint64(n)))}
	switch r.Pick(2, 2, 3, 4, 1) {
	case 0:
		in.Off = 0
	case 1:
		in.Off = rs * r.U64n(1000)
	case 2:
		in.Off = s * r.U64n(100000)
	case 3:
		in.Off = r.U64n(1 << 44)
	default:
		in.Off = ^uint64(0) - r.U64n(40*rs+5)
	}
	in = paired(in)
	in.BSize = 1 + r.U64n(4*rs)
	in.BLen = r.Intn(40)
	in.Log2 = uint64(r.Intn(12))
	in.NB = int64(1 + r.Intn(8))
	if r.Chance(1, 8) {
		in.Bank = true
		in.Kind = []string{"", "interleaving", "interleaving", "custom"}[r.Intn(4)]
	}
	if r.Chance(1, 5) {
		in.Lim = true
		in.Lo = in.Off + r.U64n(2*rs)
		in.Hi = in.Lo + r.U64n(8*rs)
	}
	var k uint64
	switch r.Pick(3, 2, 1) {
	case 0:
		k = r.U64n(8)
	case 1:
		k = r.U64n(1 << 20)
	default:
		k = (^uint64(0) - in.Off) / rs
		if k > 0 && r.Bool() {
			k--
		}
		if k > 0 {
			k--
		}
	}
	in.Xs = around(in, k, r)
	for j := 0; j < 4; j++ {
		in.Xs = append(in.Xs, in.Off+r.U64n(6*rs))
	}
	in.Xs = append(in.Xs, r.U64())
	// keep a random subset of at most 14 addresses
	for len(in.Xs) > 14 {
		j := r.Intn(len(in.Xs))
		in.Xs = append(in.Xs[:j], in.Xs[j+1:]...)
	}
	return finish(in)
}

func gen(r *hx.Rand, tier string) []json.RawMessage {
	n := 900
	if tier == "thorough" {
		n = 12000
	}
	out := directed(r)
	for len(out) < n {
		out = append(out, random(r))
	}
	return out
}

// shrink proposes smaller variants: fewer addresses, smaller numbers.
func shrink(raw json.RawMessage) []json.RawMessage {
	var in input
	if err := hx.UJ(raw, &in); err != nil {
		return nil
	}
	var out []json.RawMessage
	add := func(v input) { out = append(out, hx.J(v)) }
	// drop one address, keep halves
	if len(in.Xs) > 1 {
		for k := range in.Xs {
			v := in
			v.Xs = append(append([]uint64{}, in.Xs[:k]...), in.Xs[k+1:]...)
			add(v)
		}
		h := len(in.Xs) / 2
		v := in
		v.Xs = append([]uint64{}, in.Xs[:h]...)
		add(v)
		v.Xs = append([]uint64{}, in.Xs[h:]...)
		add(v)
	}
	// remove whole rounds from the offset and the addresses
	if in.S >= 1 && in.N >= 1 && mulOK(in.S, uint64(in.N)) {
		rs := in.S * uint64(in.N)
		if in.Off >= rs {
			v := in
			d := in.Off / rs * rs
			v.Off -= d
			v.Lo -= min(d, v.Lo)
			v.Hi -= min(d, v.Hi)
			v.Xs = make([]uint64, len(in.Xs))
			for k, x := range in.Xs {
				v.Xs[k] = x - min(d, x)
			}
			add(v)
		}
		minx := ^uint64(0)
		for _, x := range in.Xs {
			if x >= in.Off && x < minx {
				minx = x
			}
		}
		if minx != ^uint64(0) && minx-in.Off >= rs {
			d := (minx - in.Off) / rs * rs
			v := in
			v.Xs = make([]uint64, len(in.Xs))
			for k, x := range in.Xs {
				if x >= in.Off+d {
					v.Xs[k] = x - d
				} else {
					v.Xs[k] = x
				}
			}
			add(v)
		}
	}
	if in.Off > 0 {
		v := in
		v.Off = in.Off / 2
		add(v)
		v.Off = in.Off - 1
		add(v)
	}
	if in.Lim {
		v := in
		v.Lim = false
		add(v)
	}
	if in.Bank {
		v := in
		v.Bank = false
		add(v)
	}
	if in.BLen > 0 || in.BSize > 1 {
		v := in
		v.BLen, v.BSize = 0, 1
		add(v)
	}
	return out
}

func init() {
	hx.Register(&hx.Prop{
		ID:      "C24",
		Imports: "From Akita Require Import Lib.Base C24.Model C24.Exec.",
		Rule: "one case = a converter configuration (size, count, index, offset), a port mapper, a banked mapper, a " +
			"bank selector and <= 24 sorted addresses; every address is given to ConvertExternalToInternal, ConvertAddress " +
			"(kind interleaving and empty), InterleavedAddressPortMapper.Find, BankedAddressPortMapper.Find and (when probed) " +
			"to the dispatch stage of a real simplebankedmemory component. Directed: sizes {1,2,3,7,64,100,4096,2^20,2^20+1} x " +
			"counts {1,2,3,5,8,16} x offsets {0, round, 3 rounds, size, 2 sizes, size/2+1, round-1, 12345} with addresses " +
			"base-1, base, base+size-1, base+size, a run of 6 consecutive addresses crossing the stripe end, the next round, " +
			"offset and offset-1; the same near 2^64; size*count near/over 2^64; malformed (size 0, count 0, negative count " +
			"or index, index >= count, address < offset); mapper corner cases. Random: size power of two / small / <2^20 / 1 / " +
			"<2^40, count 1 / 2..16 / <=4096 / <2^20, offset 0 / multiple of round / multiple of size / arbitrary / near " +
			"2^64, stripe number small / <2^20 / last. Non-trivial: a well-formed configuration with >= 2 owned addresses " +
			"and >= 1 rejected address. Distinct = distinct input hash.",
		Gen: gen, Run: run, Shrink: shrink,
	})
}
