// Package c11 ties the Coq model of messaging/port.go (Lib/Port.v, C11/Model.v)
// to a real port with a stub owner and a stub connection that log every callback.
package c11

import (
	"encoding/json"
	"sort"
	"time"

	"github.com/sarchlab/akita/v5/hooking"
	"github.com/sarchlab/akita/v5/messaging"

	"verifharness/internal/hx"
	"verifharness/internal/px"
)

type opIn struct {
	K string    `json:"k"`
	M *px.MsgIn `json:"m,omitempty"` // send / deliver; nil = the nil message
}

type input struct {
	Name    int    `json:"name"`
	HasComp bool   `json:"has_comp"`
	ICap    int64  `json:"icap"`
	OCap    int64  `json:"ocap"`
	Ops     []opIn `json:"ops"`
}

type obsOut struct {
	K      string    `json:"k"`
	B      *bool     `json:"b,omitempty"`
	I      *int64    `json:"i,omitempty"`
	M      *px.MsgIn `json:"m,omitempty"`
	Notifs []string  `json:"n,omitempty"`
	coq    string
}

// --- stubs

type logT struct {
	port   messaging.Port
	events []string
	wrong  bool
}

type stubComp struct {
	hooking.HookableBase
	*messaging.PortOwnerBase
	log *logT
}

func (c *stubComp) Name() string { return "Owner" }
func (c *stubComp) NotifyRecv(p messaging.Port) {
	if p != c.log.port {
		c.log.wrong = true
	}
	c.log.events = append(c.log.events, "NRecv")
}
func (c *stubComp) NotifyPortFree(p messaging.Port) {
	if p != c.log.port {
		c.log.wrong = true
	}
	c.log.events = append(c.log.events, "NPortFree")
}

type stubConn struct {
	hooking.HookableBase
	log *logT
}

func (c *stubConn) Name() string              { return "Conn" }
func (c *stubConn) PlugIn(p messaging.Port)   { p.SetConnection(c) }
func (c *stubConn) Unplug(_ messaging.Port)   {}
func (c *stubConn) NotifySend()               { c.log.events = append(c.log.events, "NSend") }
func (c *stubConn) NotifyAvailable(p messaging.Port) {
	if p != c.log.port {
		c.log.wrong = true
	}
	c.log.events = append(c.log.events, "NAvailable")
}

func opCoq(o opIn) string {
	switch o.K {
	case "cansend":
		return "OCanSend"
	case "send":
		return hx.App("OSend", px.CoqOMsg(o.M))
	case "candeliver":
		return "OCanDeliver"
	case "deliver":
		return hx.App("ODeliver", px.CoqOMsg(o.M))
	case "retin":
		return "ORetrieveIn"
	case "retout":
		return "ORetrieveOut"
	case "peekin":
		return "OPeekIn"
	case "peekout":
		return "OPeekOut"
	case "numin":
		return "ONumIn"
	case "numout":
		return "ONumOut"
	case "avail":
		return "ONotifyAvailable"
	}
	panic("unknown op " + o.K)
}

func toMsg(m *px.MsgIn) messaging.Msg {
	if m == nil {
		return nil
	}
	return px.Make(*m)
}

// alive probes whether the port mutex is still free: a call that panicked while
// holding it leaves every later call blocked.
func alive(p messaging.Port) bool {
	// two probes, so that the verdict does not hinge on one accessor taking the lock; the
	// deadline is generous (a blocked probe is the rare case; a free one returns at once)
	done := make(chan struct{}, 2)
	go func() { p.NumIncoming(); done <- struct{}{} }()
	go func() { p.PeekIncoming(); done <- struct{}{} }()
	deadline := time.After(300 * time.Millisecond)
	for i := 0; i < 2; i++ {
		select {
		case <-done:
		case <-deadline:
			return false
		}
	}
	return true
}

func exec(p messaging.Port, o opIn) (r obsOut) {
	msgOut := func(m messaging.Msg) obsOut {
		if m == nil {
			return obsOut{K: "msg", coq: hx.App("RMsg", hx.None())}
		}
		b, ok := px.Back(m)
		if !ok { // altered in transit: print something no model output equals
			return obsOut{K: "altered", coq: "RPanicLocked"}
		}
		return obsOut{K: "msg", M: &b, coq: hx.App("RMsg", px.CoqOMsg(&b))}
	}
	boolOut := func(b bool) obsOut { return obsOut{K: "bool", B: &b, coq: hx.App("RBool", hx.B(b))} }
	intOut := func(i int64) obsOut { return obsOut{K: "int", I: &i, coq: hx.App("RInt", hx.Z(i))} }
	unit := obsOut{K: "unit", coq: "RUnit"}
	panicked, _ := hx.Try(func() {
		switch o.K {
		case "cansend":
			r = boolOut(p.CanSend())
		case "send":
			p.Send(toMsg(o.M))
			r = unit
		case "candeliver":
			r = boolOut(p.CanDeliver())
		case "deliver":
			p.Deliver(toMsg(o.M))
			r = unit
		case "retin":
			r = msgOut(p.RetrieveIncoming())
		case "retout":
			r = msgOut(p.RetrieveOutgoing())
		case "peekin":
			r = msgOut(p.PeekIncoming())
		case "peekout":
			r = msgOut(p.PeekOutgoing())
		case "numin":
			r = intOut(int64(p.NumIncoming()))
		case "numout":
			r = intOut(int64(p.NumOutgoing()))
		case "avail":
			p.NotifyAvailable()
			r = unit
		default:
			panic("unknown op " + o.K)
		}
	})
	if panicked {
		if alive(p) {
			return obsOut{K: "panic", coq: "RPanic"}
		}
		return obsOut{K: "panic-locked", coq: "RPanicLocked"}
	}
	return r
}

func run(raw json.RawMessage) (hx.Case, error) {
	var in input
	if err := hx.UJ(raw, &in); err != nil {
		return hx.Case{}, err
	}
	lg := &logT{}
	var comp messaging.Component
	if in.HasComp {
		comp = &stubComp{PortOwnerBase: messaging.NewPortOwnerBase(), log: lg}
	}
	p := messaging.NewPort(comp, int(in.ICap), int(in.OCap), px.PortName(in.Name))
	lg.port = p
	conn := &stubConn{log: lg}
	conn.PlugIn(p)

	ops := append(append([]opIn{}, in.Ops...),
		opIn{K: "numin"}, opIn{K: "numout"}, opIn{K: "peekin"}, opIn{K: "peekout"}, opIn{K: "cansend"}, opIn{K: "candeliver"})
	var outs []obsOut
	var terms []string
	tags := map[string]bool{}
	edges := map[string]bool{}
	for _, o := range ops {
		lg.events = nil
		ni, no := p.NumIncoming(), p.NumOutgoing()
		r := exec(p, o)
		r.Notifs = lg.events
		if lg.wrong {
			r.coq = "RPanicLocked" // callback carried a different port: never equal to the model
			r.K = "wrong-port-in-callback"
		}
		outs = append(outs, r)
		terms = append(terms, hx.T(opCoq(o), r.coq, hx.L(lg.events)))
		for _, e := range lg.events {
			edges[e] = true
			tags["notified:"+e] = true
		}
		switch {
		case (o.K == "send" || o.K == "deliver") && r.K == "panic":
			tags[o.K+":full-refused"] = true
		case o.K == "send" && r.K == "panic-locked":
			tags["send:invalid"] = true
		case o.K == "deliver" && o.M == nil:
			tags["deliver:nil-msg"] = true
		case o.K == "retin" && ni == 0, o.K == "retout" && no == 0:
			tags[o.K+":empty"] = true
		case o.K == "retout" && r.K == "panic-locked":
			tags["retout:no-owner"] = true
		}
		if r.K == "panic-locked" {
			break
		}
	}
	switch {
	case in.ICap == 0 || in.OCap == 0:
		tags["cap:has-0"] = true
	case in.ICap < 0 || in.OCap < 0:
		tags["cap:negative"] = true
	case in.ICap == 1 || in.OCap == 1:
		tags["cap:has-1"] = true
	default:
		tags["cap:2+"] = true
	}
	if !in.HasComp {
		tags["owner:nil"] = true
	}
	c := hx.Case{Obs: outs}
	c.Coq = hx.App("mk_case", hx.N(uint64(in.Name)), hx.B(in.HasComp), hx.Z(in.ICap), hx.Z(in.OCap), hx.L(terms))
	for t := range tags {
		c.Tags = append(c.Tags, t)
	}
	sort.Strings(c.Tags)
	c.Nontrivial = len(edges) >= 3 && len(in.Ops) >= 10
	return c, nil
}

func genHistory(r *hx.Rand, name int, n int, nilShare bool) []opIn {
	var ops []opIn
	id := uint64(0)
	mk := func(src, dst int) *px.MsgIn {
		id++
		return &px.MsgIn{ID: id, Src: src, Dst: dst, Data: r.U64n(1000)}
	}
	other := func() int {
		d := 1 + r.Intn(6)
		if d == name {
			d++
		}
		return d
	}
	for len(ops) < n {
		// alternate bursts that fill / drain each of the two buffers
		phase := r.Intn(4) // 0 fill out, 1 drain out, 2 fill in, 3 drain in
		burst := 1 + r.Intn(7)
		for i := 0; i < burst && len(ops) < n; i++ {
			w := []int{6, 6, 6, 6, 3, 3, 2, 2, 2, 2, 1}
			w[phase] = 40
			switch r.Pick(w...) {
			case 0:
				ops = append(ops, opIn{K: "send", M: mk(name, other())})
			case 1:
				ops = append(ops, opIn{K: "retout"})
			case 2:
				m := mk(other(), name)
				if nilShare && r.Chance(1, 10) {
					m = nil
				}
				ops = append(ops, opIn{K: "deliver", M: m})
			case 3:
				ops = append(ops, opIn{K: "retin"})
			case 4:
				ops = append(ops, opIn{K: "cansend"})
			case 5:
				ops = append(ops, opIn{K: "candeliver"})
			case 6:
				ops = append(ops, opIn{K: "peekin"})
			case 7:
				ops = append(ops, opIn{K: "peekout"})
			case 8:
				ops = append(ops, opIn{K: "numin"})
			case 9:
				ops = append(ops, opIn{K: "numout"})
			default:
				ops = append(ops, opIn{K: "avail"})
			}
		}
	}
	return ops
}

func gen(r *hx.Rand, tier string) []json.RawMessage {
	n := 700
	if tier == "thorough" {
		n = 12000
	}
	var out []json.RawMessage
	add := func(name int, hc bool, ic, oc int64, ops []opIn) {
		out = append(out, hx.J(input{name, hc, ic, oc, ops}))
	}
	k := func(s string) opIn { return opIn{K: s} }
	// directed: every capacity pair 0..3: fill both buffers to the brim, overflow, drain, underflow
	for ic := int64(0); ic <= 3; ic++ {
		for oc := int64(0); oc <= 3; oc++ {
			var ops []opIn
			id := uint64(100)
			for i := int64(0); i <= oc; i++ {
				id++
				ops = append(ops, k("cansend"), opIn{K: "send", M: &px.MsgIn{ID: id, Src: 1, Dst: 2, Data: id}}, k("numout"))
			}
			for i := int64(0); i <= ic; i++ {
				id++
				ops = append(ops, k("candeliver"), opIn{K: "deliver", M: &px.MsgIn{ID: id, Src: 2, Dst: 1, Data: id}}, k("numin"))
			}
			for i := int64(0); i <= oc; i++ {
				ops = append(ops, k("peekout"), k("retout"), k("numout"))
			}
			for i := int64(0); i <= ic; i++ {
				ops = append(ops, k("peekin"), k("retin"), k("numin"))
			}
			ops = append(ops, k("avail"))
			add(1, true, ic, oc, ops)
		}
	}
	// malformed stream: invalid sends (wrong source, empty destination, destination = source, nil message),
	// owner-less port drained from full, a nil message delivered into a full buffer's head
	add(1, true, 2, 2, []opIn{{K: "send", M: &px.MsgIn{ID: 1, Src: 2, Dst: 3}}})
	add(1, true, 2, 2, []opIn{{K: "send", M: &px.MsgIn{ID: 1, Src: 1, Dst: 0}}})
	add(1, true, 2, 2, []opIn{{K: "send", M: &px.MsgIn{ID: 1, Src: 1, Dst: 1}}})
	add(1, true, 2, 2, []opIn{{K: "send", M: &px.MsgIn{ID: 1, Src: 1, Dst: 2}}, {K: "send"}})
	add(1, false, 1, 1, []opIn{{K: "deliver", M: &px.MsgIn{ID: 1, Src: 2, Dst: 1}}, k("retin"), k("avail"),
		{K: "send", M: &px.MsgIn{ID: 2, Src: 1, Dst: 2}}, k("retout")})
	add(1, true, 1, 1, []opIn{{K: "deliver"}, k("numin"), k("candeliver"), k("retin"), k("numin")})
	add(1, true, 2, 1, []opIn{{K: "deliver"}, {K: "deliver", M: &px.MsgIn{ID: 1, Src: 2, Dst: 1}}, k("retin"), k("retin"), k("retin")})
	add(1, true, -1, -2, genHistory(r, 1, 20, false))
	for len(out) < n {
		name := 1 + r.Intn(4)
		ic, oc := int64(r.Intn(6)), int64(r.Intn(6))
		if r.Chance(1, 40) {
			ic = -int64(r.Intn(3))
		}
		ln := r.Range(8, 70)
		if tier == "thorough" && r.Chance(1, 10) {
			ln = r.Range(100, 400)
		}
		ops := genHistory(r, name, ln, r.Chance(1, 6))
		if r.Chance(1, 25) { // end with an invalid send
			bad := []*px.MsgIn{{ID: 999, Src: name + 1, Dst: name}, {ID: 999, Src: name, Dst: 0}, {ID: 999, Src: name, Dst: name}, nil}
			ops = append(ops, opIn{K: "send", M: bad[r.Intn(len(bad))]})
		}
		add(name, !r.Chance(1, 12), ic, oc, ops)
	}
	return out
}

func shrink(raw json.RawMessage) []json.RawMessage {
	var in input
	if hx.UJ(raw, &in) != nil {
		return nil
	}
	var out []json.RawMessage
	n := len(in.Ops)
	for sz := n / 2; sz >= 1; sz /= 2 {
		for lo := 0; lo+sz <= n; lo += sz {
			ops := append(append([]opIn{}, in.Ops[:lo]...), in.Ops[lo+sz:]...)
			out = append(out, hx.J(input{in.Name, in.HasComp, in.ICap, in.OCap, ops}))
		}
	}
	return out
}

func init() {
	hx.Register(&hx.Prop{
		ID:      "C11",
		Imports: "From Akita Require Import Lib.Base Lib.Fifo Lib.Port C11.Model C11.Exec.",
		Rule: "directed scripts for every capacity pair 0..3 x 0..3 (fill both buffers to capacity, overflow, drain, underflow) " +
			"plus random histories of 8-70 calls (thorough: up to 400) over the 11 port operations with incoming/outgoing " +
			"capacities 0-5 (rarely negative), generated as bursts that fill or drain one of the two buffers so that all four " +
			"edges (empty->non-empty, full->not-full, each direction) occur; a malformed share: invalid sends (wrong source, " +
			"empty destination, destination = source, nil message), nil messages delivered, owner-less ports. A real port with a " +
			"stub owner and a stub connection that log every callback (and check the port argument). " +
			"Non-trivial: >= 10 calls and at least 3 of the 4 notification kinds observed. Distinct = distinct input hash.",
		Gen: gen, Run: run, Shrink: shrink,
	})
}
