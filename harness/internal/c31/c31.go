// Package c31 ties the Coq model of the endpoint middlewares (packetization and
// reassembly) to the implementation: a REAL sending endpoint A packetizes the
// messages, the harness (playing the network) captures the flits, permutes /
// interleaves / withholds them according to the input, and feeds them to a REAL
// receiving endpoint B whose device ports it drains.
package c31

import (
	"encoding/json"
	"fmt"

	"github.com/sarchlab/akita/v5/hooking"
	"github.com/sarchlab/akita/v5/messaging"
	"github.com/sarchlab/akita/v5/modeling"
	"github.com/sarchlab/akita/v5/noc/networking/switching/endpoint"
	"github.com/sarchlab/akita/v5/noc/packetization"
	"github.com/sarchlab/akita/v5/timing"

	"verifharness/internal/hx"
)

const tickBudget = 600

// Msg is one message pushed into device port Port of A, addressed to device port
// Dst of B (Dst == len(BCaps) addresses a port that B does not own).
type Msg struct {
	Port  int    `json:"port"`
	Dst   int    `json:"dst"`
	Bytes int64  `json:"bytes"`
	RspTo uint64 `json:"rspto"`
	Class int    `json:"class"`
	ID    uint64 `json:"id"`
}

// Input is one scripted experiment.
type Input struct {
	Flit    int64  `json:"flit"`
	OvNum   uint64 `json:"ov_num"`
	OvExp   uint   `json:"ov_exp"`
	NIn     int    `json:"nin"`
	NOut    int    `json:"nout"`
	APorts  int    `json:"a_ports"`
	ANetCap int    `json:"a_netcap"`
	Drain   []int  `json:"drain"`
	BCaps   []int  `json:"b_caps"`
	BNetCap int    `json:"b_netcap"`
	Msgs    []Msg  `json:"msgs"`
	Perm    []int  `json:"perm"`
	Feed    []int  `json:"feed"`
	Pull    []int  `json:"pull"`
	// PullPorts, when present, gives every device port of B its own drain script (ports stall and drain independently)
	PullPorts [][]int `json:"pull_ports,omitempty"`
}

// stub is the component that owns the device ports and the far side of the network ports.
type stub struct {
	hooking.HookableBase
	name string
}

func (s *stub) Name() string                              { return s.name }
func (s *stub) DeclarePort(string, ...*messaging.Role)    {}
func (s *stub) AssignPort(string, messaging.Port)         {}
func (s *stub) GetPortByName(string) messaging.Port       { return nil }
func (s *stub) Ports() []messaging.Port                   { return nil }
func (s *stub) NotifyRecv(messaging.Port)                 {}
func (s *stub) NotifyPortFree(messaging.Port)             {}
func (s *stub) PlugIn(messaging.Port)                     {}
func (s *stub) Unplug(messaging.Port)                     {}
func (s *stub) NotifyAvailable(messaging.Port)            {}
func (s *stub) NotifySend()                               {}

var classes = []string{"", "mem.ReadReq", "mem.WriteReq", "mem.DataReadyRsp", "x"}

type names struct {
	ids map[string]uint64
}

func (n *names) id(s string) uint64 {
	if v, ok := n.ids[s]; ok {
		return v
	}
	v := uint64(len(n.ids) + 1)
	n.ids[s] = v
	return v
}

func classID(s string) uint64 {
	for i, c := range classes {
		if c == s {
			return uint64(i)
		}
	}
	return 99
}

func zz(x int64) string {
	if x >= 0 {
		return hx.N(uint64(2 * x))
	}
	return hx.N(uint64(-2*x - 1))
}

func pullOf(in Input, port int) []int {
	if port < len(in.PullPorts) && len(in.PullPorts[port]) > 0 {
		return in.PullPorts[port]
	}
	return in.Pull
}

func cyc(l []int, t int) int {
	if len(l) == 0 {
		return 0
	}
	v := l[t%len(l)]
	if v < 0 {
		return 0
	}
	return v
}

func build(name string, in Input, nports int, caps []int, netIn, netOut int, st *stub) (*endpoint.Comp, []messaging.Port, messaging.Port) {
	engine := timing.NewSerialEngine()
	spec := endpoint.DefaultSpec()
	spec.FlitByteSize = int(in.Flit)
	spec.EncodingOverhead = float64(in.OvNum) / float64(uint64(1)<<in.OvExp)
	spec.NumInputChannels = in.NIn
	spec.NumOutputChannels = in.NOut
	var ports []messaging.Port
	for i := 0; i < nports; i++ {
		c := 1
		if caps != nil {
			c = caps[i]
		}
		ports = append(ports, messaging.NewPort(st, c, 4096, fmt.Sprintf("%s.Dev[%d]", name, i)))
	}
	ep := endpoint.MakeBuilder().
		WithRegistrar(modeling.NewStandaloneRegistrar(engine)).
		WithSpec(spec).
		WithResources(endpoint.Resources{DevicePorts: ports}).
		Build(name)
	np := messaging.NewPort(ep, netIn, netOut, name+".NetworkPort")
	np.SetConnection(st)
	ep.SetNetworkPort(np)
	ep.SetDefaultSwitchDst(messaging.RemotePort(name + ".Switch.Port"))
	return ep, ports, np
}

type obs struct {
	APanic string     `json:"a_panic,omitempty"`
	BPanic string     `json:"b_panic,omitempty"`
	ATicks [][]string `json:"a_ticks"`
	BFed   []int      `json:"b_fed"`
	BTaken [][]string `json:"b_taken"`
}

func run(raw json.RawMessage) (hx.Case, error) {
	var in Input
	if err := hx.UJ(raw, &in); err != nil {
		return hx.Case{}, err
	}
	nm := &names{ids: map[string]uint64{}}
	st := &stub{name: "Stub"}
	epA, aPorts, aNet := build("A", in, in.APorts, nil, 1, in.ANetCap, st)
	epB, bPorts, bNet := build("B", in, len(in.BCaps), in.BCaps, in.BNetCap, 1, st)
	_ = epB
	bName := func(i int) string {
		if i >= 0 && i < len(bPorts) {
			return bPorts[i].Name()
		}
		return "Nowhere.Port"
	}
	metaCoq := func(m messaging.MsgMeta) string {
		return hx.App("M", hx.N(m.ID), hx.N(nm.id(string(m.Src))), hx.N(nm.id(string(m.Dst))),
			hx.N(m.RspTo), hx.N(classID(m.TrafficClass)), zz(int64(m.TrafficBytes)))
	}
	flitCoq := func(f packetization.Flit) string {
		return hx.App("F", hx.N(nm.id(string(f.Src))), hx.N(nm.id(string(f.Dst))),
			zz(int64(f.SeqID)), zz(int64(f.NumFlitInMsg)), metaCoq(f.Msg))
	}
	// intern the names the model needs first, deterministically
	aNetID := nm.id(aNet.Name())
	aSwID := nm.id("A.Switch.Port")
	var bPortsCoq []string
	for i, p := range bPorts {
		bPortsCoq = append(bPortsCoq, hx.T(hx.N(nm.id(p.Name())), hx.N(uint64(in.BCaps[i]))))
	}

	o := obs{}
	// ---- phase A: push everything, tick, drain
	var msgsCoq []string
	var metas []messaging.MsgMeta
	for _, m := range in.Msgs {
		p := aPorts[m.Port%len(aPorts)]
		meta := messaging.MsgMeta{ID: m.ID, Src: p.AsRemote(), Dst: messaging.RemotePort(bName(m.Dst)),
			TrafficClass: classes[m.Class%len(classes)], TrafficBytes: int(m.Bytes), RspTo: m.RspTo}
		metas = append(metas, meta)
		p.Send(meta)
		msgsCoq = append(msgsCoq, hx.T(hx.N(uint64(m.Port%len(aPorts))), metaCoq(meta)))
	}
	var emitted []packetization.Flit
	var aTicksCoq []string
	aIdle := func() bool {
		if len(epA.State.MsgOutBuf) != 0 || len(epA.State.FlitsToSend) != 0 || aNet.NumOutgoing() != 0 {
			return false
		}
		for _, p := range aPorts {
			if p.NumOutgoing() != 0 {
				return false
			}
		}
		return true
	}
	panicked, msg := hx.Try(func() {
		for t := 0; t < tickBudget && !aIdle(); t++ {
			epA.Tick()
			k := min(cyc(in.Drain, t), aNet.NumOutgoing())
			var tick, js []string
			for i := 0; i < k; i++ {
				f := aNet.RetrieveOutgoing().(packetization.Flit)
				emitted = append(emitted, f)
				tick = append(tick, flitCoq(f))
				js = append(js, fmt.Sprintf("%d:%d/%d", f.Msg.ID, f.SeqID, f.NumFlitInMsg))
			}
			aTicksCoq = append(aTicksCoq, hx.L(tick))
			o.ATicks = append(o.ATicks, js)
		}
	})
	oa := hx.Some(hx.L(aTicksCoq))
	if panicked {
		o.APanic = msg
		oa = hx.None()
	}
	// ---- phase B: feed the permuted flits, tick, drain the devices
	ob := hx.None()
	if !panicked {
		var pending []packetization.Flit
		for _, i := range in.Perm {
			if i >= 0 && i < len(emitted) {
				pending = append(pending, emitted[i])
			}
		}
		var bTicksCoq []string
		bIdle := func() bool {
			if len(pending) != 0 || bNet.NumIncoming() != 0 || len(epB.State.AssembledMsgs) != 0 {
				return false
			}
			for _, p := range bPorts {
				if p.NumIncoming() != 0 {
					return false
				}
			}
			for _, a := range epB.State.AssemblingMsgs {
				if !(a.NumFlitArrived < a.NumFlitRequired) {
					return false
				}
			}
			return true
		}
		bp, bmsg := hx.Try(func() {
			for t := 0; t < tickBudget && !bIdle(); t++ {
				fed := 0
				for fed < cyc(in.Feed, t) && len(pending) > 0 && bNet.CanDeliver() {
					bNet.Deliver(pending[0])
					pending = pending[1:]
					fed++
				}
				epB.Tick()
				var taken, js []string
				for pi, p := range bPorts {
					take := cyc(pullOf(in, pi), t)
					for i := 0; i < take; i++ {
						m := p.RetrieveIncoming()
						if m == nil {
							break
						}
						taken = append(taken, hx.T(hx.N(uint64(pi)), metaCoq(m.Meta())))
						js = append(js, fmt.Sprintf("%d@%d", m.Meta().ID, pi))
					}
				}
				bTicksCoq = append(bTicksCoq, hx.T(hx.N(uint64(fed)), hx.L(taken)))
				o.BFed = append(o.BFed, fed)
				o.BTaken = append(o.BTaken, js)
			}
		})
		if bp {
			o.BPanic = bmsg
		} else {
			ob = hx.Some(hx.L(bTicksCoq))
		}
	}
	toN := func(l []int) string {
		s := make([]string, len(l))
		for i, x := range l {
			if x < 0 {
				x = 0
			}
			s[i] = hx.N(uint64(x))
		}
		return hx.L(s)
	}
	var pulls []string
	for pi := range bPorts {
		pulls = append(pulls, toN(pullOf(in, pi)))
	}
	c := hx.Case{Obs: o}
	c.Coq = hx.App("mk_case", zz(in.Flit), hx.N(in.OvNum), hx.N(uint64(in.OvExp)),
		hx.N(uint64(in.NIn)), hx.N(uint64(in.NOut)), hx.N(aNetID), hx.N(aSwID),
		hx.L(msgsCoq), hx.N(uint64(in.APorts)), hx.N(uint64(in.ANetCap)), toN(in.Drain),
		hx.L(bPortsCoq), hx.N(uint64(in.BNetCap)), toN(in.Perm), toN(in.Feed), hx.L(pulls), oa, ob)
	// tags
	multi, exact, reordered, withheld := false, false, false, len(in.Perm) < len(emitted)
	for _, m := range in.Msgs {
		if m.Bytes > 0 && in.Flit > 0 {
			enc := m.Bytes + (m.Bytes*int64(in.OvNum)+(1<<in.OvExp)-1)>>in.OvExp
			if enc > in.Flit {
				multi = true
			}
			if enc%in.Flit == 0 {
				exact = true
			}
		}
	}
	for i, p := range in.Perm {
		if p != i {
			reordered = true
		}
	}
	if multi {
		c.Tags = append(c.Tags, "multi-flit")
	}
	if exact {
		c.Tags = append(c.Tags, "encoded-size-multiple-of-flit")
	}
	if reordered {
		c.Tags = append(c.Tags, "reordered")
	}
	if withheld {
		c.Tags = append(c.Tags, "flits-withheld")
	}
	if len(in.BCaps) > 1 && len(in.PullPorts) > 0 {
		c.Tags = append(c.Tags, "multi-port-receiver-independent-drain")
	}
	if in.Flit <= 0 {
		c.Tags = append(c.Tags, "bad-flit-size")
	}
	if panicked || o.BPanic != "" {
		c.Tags = append(c.Tags, "panic")
	}
	c.Nontrivial = multi && len(in.Msgs) >= 2 && reordered && in.Flit > 0
	return c, nil
}
