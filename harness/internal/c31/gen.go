package c31

import (
	"encoding/json"

	"verifharness/internal/hx"
)

func encoded(b int64, num uint64, exp uint) int64 {
	return b + (b*int64(num)+(1<<exp)-1)>>exp
}

func script(r *hx.Rand, hi int) []int {
	n := r.Range(1, 4)
	s := make([]int, n)
	pos := false
	for i := range s {
		s[i] = r.Intn(hi + 1)
		if s[i] > 0 {
			pos = true
		}
	}
	if !pos {
		s[r.Intn(n)] = 1 + r.Intn(hi)
	}
	return s
}

func randomInput(r *hx.Rand) Input {
	in := Input{}
	in.Flit = []int64{1, 2, 3, 7, 8, 16, 32, 64, 100}[r.Intn(9)]
	switch r.Pick(3, 3, 2, 2) {
	case 0:
		in.OvNum, in.OvExp = 1, 2 // the default 0.25
	case 1:
		in.OvNum, in.OvExp = 0, 0
	case 2:
		in.OvExp = uint(r.Range(1, 6))
		in.OvNum = r.U64n(uint64(3) << in.OvExp)
	default:
		in.OvNum, in.OvExp = uint64(r.Range(1, 3)), 0
	}
	in.NIn, in.NOut = r.Pick(3, 2, 1)+1, r.Pick(3, 2, 1)+1
	in.APorts = r.Range(1, 3)
	in.ANetCap = r.Range(1, 4)
	in.Drain = script(r, 3)
	nb := r.Pick(2, 4, 3) + 1
	for i := 0; i < nb; i++ {
		in.BCaps = append(in.BCaps, r.Pick(4, 2, 1)+1) // mostly tiny device-port buffers
	}
	in.BNetCap = r.Range(1, 4)
	in.Feed = script(r, 3)
	in.Pull = script(r, 2)
	// every device port of B gets its own drain script; often one port is stalled for a long
	// stretch while the others keep draining, so that a message for the full port waits at the
	// head of AssembledMsgs with messages for free ports behind it
	if nb > 1 || r.Bool() {
		stalled := -1
		if r.Chance(2, 3) {
			stalled = r.Intn(nb)
		}
		for i := 0; i < nb; i++ {
			if i == stalled {
				st := make([]int, r.Range(4, 14))
				st[len(st)-1] = r.Range(1, 2)
				in.PullPorts = append(in.PullPorts, st)
			} else {
				in.PullPorts = append(in.PullPorts, script(r, 2))
			}
		}
	}
	nm := r.Range(1, 8)
	total := 0
	for i := 0; i < nm; i++ {
		var b int64
		switch r.Pick(2, 3, 3, 1) {
		case 0:
			b = int64(r.Intn(3)) // 0,1,2
		case 1: // around multiples of the flit size of the ENCODED size
			k := int64(r.Range(1, 5))
			target := k * in.Flit
			// search a byte count whose encoded size is target or target +- 1
			b = target
			for b > 1 && encoded(b, in.OvNum, in.OvExp) > target {
				b--
			}
			b += int64(r.Intn(3)) - 1
			if b < 0 {
				b = 0
			}
		case 2:
			b = int64(r.Intn(6*int(in.Flit) + 1))
		default:
			b = -int64(r.Intn(3)) // 0, -1, -2
		}
		if b > 0 {
			total += int((encoded(b, in.OvNum, in.OvExp)-1)/in.Flit + 1)
		} else {
			total++
		}
		if total > 90 {
			break
		}
		in.Msgs = append(in.Msgs, Msg{Port: r.Intn(in.APorts), Dst: r.Intn(nb), Bytes: b,
			RspTo: uint64(r.Intn(3)) * (1000 + uint64(r.Intn(50))), Class: r.Intn(len(classes)), ID: uint64(5000 + 7*i + r.Intn(7))})
	}
	// permutation of the emitted flits: identity / full shuffle / local swaps / round-robin interleave; maybe withhold some
	perm := make([]int, total)
	for i := range perm {
		perm[i] = i
	}
	switch r.Pick(2, 4, 3) {
	case 1:
		for i := range perm {
			j := r.Intn(i + 1)
			perm[i], perm[j] = perm[j], perm[i]
		}
	case 2:
		for i := 0; i+1 < len(perm); i++ {
			if r.Chance(1, 2) {
				perm[i], perm[i+1] = perm[i+1], perm[i]
			}
		}
	}
	if r.Chance(1, 4) && len(perm) > 1 {
		k := r.Range(1, min(3, len(perm)-1))
		for i := 0; i < k; i++ {
			x := r.Intn(len(perm))
			perm = append(perm[:x], perm[x+1:]...)
		}
	}
	in.Perm = perm
	return in
}

func gen(r *hx.Rand, tier string) []json.RawMessage {
	n := 320
	if tier == "thorough" {
		n = 2500
	}
	var out []json.RawMessage
	add := func(in Input) { out = append(out, hx.J(in)) }
	base := Input{Flit: 32, OvNum: 1, OvExp: 2, NIn: 1, NOut: 1, APorts: 1, ANetCap: 2, Drain: []int{1},
		BCaps: []int{1}, BNetCap: 2, Feed: []int{1}, Pull: []int{1}}
	// directed: byte counts whose encoded size is exactly k*flit, k*flit+-1 (default overhead 0.25, flit 32)
	for _, b := range []int64{0, 1, 25, 26, 27, 51, 52, 102, 103, 128, 256} {
		in := base
		in.Msgs = []Msg{{Bytes: b, ID: 77}, {Bytes: 64, ID: 78, RspTo: 77, Class: 3}}
		n1 := 1
		if b > 0 {
			n1 = int((encoded(b, 1, 2)-1)/32 + 1)
		}
		// interleave the two messages flit by flit, second message first
		var perm []int
		for i := 0; i < max(n1, 3); i++ {
			if i < 3 {
				perm = append(perm, n1+i)
			}
			if i < n1 {
				perm = append(perm, i)
			}
		}
		in.Perm = perm
		add(in)
	}
	// a blocked device port ahead of a free one: B has two ports with one-slot buffers, the device
	// does not drain port 0 for a while but drains port 1 every tick; messages ->0, ->0, ->1, ->1, ->0
	for _, stall := range []int{6, 12, 30} {
		in := base
		in.NIn, in.NOut, in.ANetCap, in.BNetCap = 2, 2, 4, 4
		in.Drain, in.Feed = []int{2}, []int{2}
		in.BCaps = []int{1, 1}
		st := make([]int, stall)
		st[stall-1] = 1
		in.PullPorts = [][]int{st, {1}}
		in.Msgs = []Msg{{Dst: 0, Bytes: 4, ID: 1}, {Dst: 0, Bytes: 4, ID: 2}, {Dst: 1, Bytes: 4, ID: 3},
			{Dst: 1, Bytes: 40, ID: 4}, {Dst: 0, Bytes: 4, ID: 5}}
		in.Perm = []int{0, 1, 2, 3, 4, 5}
		add(in)
		in.BCaps = []int{1, 2, 1}
		in.PullPorts = [][]int{{1}, st, {0, 1}}
		in.Msgs = []Msg{{Dst: 1, Bytes: 4, ID: 1}, {Dst: 1, Bytes: 4, ID: 2}, {Dst: 1, Bytes: 4, ID: 3}, {Dst: 0, Bytes: 4, ID: 4},
			{Dst: 2, Bytes: 4, ID: 5}, {Dst: 1, Bytes: 4, ID: 6}, {Dst: 0, Bytes: 70, ID: 7}}
		in.Perm = []int{0, 1, 2, 3, 4, 5, 6, 7, 8}
		add(in)
	}
	// zero overhead, exact multiples
	for _, b := range []int64{31, 32, 33, 64, 96} {
		in := base
		in.OvNum, in.OvExp = 0, 0
		in.Msgs = []Msg{{Bytes: b, ID: 9}}
		in.Perm = []int{2, 1, 0}
		add(in)
	}
	// malformed configuration (small share): zero / negative flit size, destination that B does not own
	bad := base
	bad.Flit = 0
	bad.Msgs = []Msg{{Bytes: 10, ID: 1}}
	bad.Perm = []int{0}
	add(bad)
	bad.Flit = -4
	add(bad)
	bad2 := base
	bad2.Msgs = []Msg{{Bytes: 10, ID: 1, Dst: 1}}
	bad2.Perm = []int{0}
	add(bad2)
	for len(out) < n {
		add(randomInput(r))
	}
	return out
}

func shrink(raw json.RawMessage) []json.RawMessage {
	var in Input
	if hx.UJ(raw, &in) != nil {
		return nil
	}
	var out []json.RawMessage
	// fewer messages (perm reset to identity over a generous range: out-of-range indices are ignored)
	for i := range in.Msgs {
		if len(in.Msgs) > 1 {
			c := in
			c.Msgs = append(append([]Msg{}, in.Msgs[:i]...), in.Msgs[i+1:]...)
			c.Perm = nil
			for k := 0; k < len(in.Perm); k++ {
				c.Perm = append(c.Perm, k)
			}
			out = append(out, hx.J(c))
		}
	}
	c := in
	c.Drain, c.Feed = []int{1}, []int{1}
	out = append(out, hx.J(c))
	return out
}

func init() {
	hx.Register(&hx.Prop{
		ID: "C31",
		Rule: "directed: byte counts whose ENCODED size is k*flit, k*flit-1, k*flit+1 (default overhead 0.25 and zero overhead), two messages interleaved flit by flit; " +
			"random: flit size in {1,2,3,7,8,16,32,64,100}, dyadic overhead num/2^exp (so that float64 arithmetic is exact), 1-3 channels, 1-3 device ports on the sender, " +
			"1-8 messages with byte counts around multiples of the flit size / tiny / zero / negative, scripted drain/feed rates with back-pressure (zeros), 1-3 device ports on the receiver with mostly one-slot buffers and an independent drain script per port (2/3 of the cases stall one port for 4-14 ticks while the others drain; directed head-of-line scenarios), " +
			"flits delivered to the receiver in identity / fully shuffled / locally swapped order, 25% with 1-3 flits withheld; a small malformed share (flit size 0 or negative, unknown destination port). " +
			"Non-trivial: >=2 messages, at least one multi-flit, reordered delivery. Distinct = distinct input hash.",
		Gen: gen, Run: run, Shrink: shrink,
	})
}
