// Package c15 ties the Coq model of queueing/pipeline.go to the implementation:
// rounds of guarded accepts followed by one Tick against a scripted sink.
package c15

import (
	"encoding/json"
	"fmt"

	"github.com/sarchlab/akita/v5/queueing"

	"verifharness/internal/hx"
)

type acc struct {
	ID    uint64 `json:"id"`
	Delay int64  `json:"d"`
	Plain bool   `json:"plain,omitempty"` // use Accept (delay must be 0) instead of AcceptWithDelay
}

type roundIn struct {
	Acc  []acc  `json:"acc,omitempty"`
	Sink []bool `json:"sink,omitempty"` // answers of successive CanPush() calls in this tick
	Dflt bool   `json:"dflt"`           // answer once the script is exhausted
}

type input struct {
	W      int       `json:"w"`
	N      int       `json:"n"`
	Rounds []roundIn `json:"rounds"`
}

type sink struct {
	script []bool
	dflt   bool
	q      int
	pushed []uint64
}

func (s *sink) CanPush() bool {
	q := s.q
	s.q++
	if q < len(s.script) {
		return s.script[q]
	}
	return s.dflt
}

func (s *sink) PushTyped(v uint64) { s.pushed = append(s.pushed, v) }

type stageOut struct {
	Lane, Stage int
	Item        uint64
	Cyc         int
}

type roundOut struct {
	Accepted []bool
	Pushed   []uint64
	Moved    bool
	Snap     []stageOut
}

func bools(b []bool) string {
	s := make([]string, len(b))
	for i, x := range b {
		s[i] = hx.B(x)
	}
	return hx.L(s)
}

func run(raw json.RawMessage) (hx.Case, error) {
	var in input
	if err := hx.UJ(raw, &in); err != nil {
		return hx.Case{}, err
	}
	if in.W < 0 || in.N < 0 {
		return hx.Case{}, fmt.Errorf("negative geometry")
	}
	p := queueing.NewPipeline[uint64](in.W, in.N)
	var outs []roundOut
	var rounds []string
	maxDelay, anyBlocked, singleDwell, fullLane := int64(0), false, false, false
	panicked := false
	for _, r := range in.Rounds {
		var o roundOut
		var accs []string
		for _, a := range r.Acc {
			ok := p.CanAccept()
			if ok {
				pk, _ := hx.Try(func() {
					if a.Plain && a.Delay == 0 {
						p.Accept(a.ID)
					} else {
						p.AcceptWithDelay(a.ID, int(a.Delay))
					}
				})
				panicked = panicked || pk
				if a.Delay > maxDelay {
					maxDelay = a.Delay
				}
				if a.Delay > 0 && in.N == 1 {
					singleDwell = true
				}
			} else {
				fullLane = true
			}
			o.Accepted = append(o.Accepted, ok)
			accs = append(accs, hx.T(hx.N(a.ID), hx.Z(a.Delay)))
		}
		sk := &sink{script: r.Sink, dflt: r.Dflt}
		pk, _ := hx.Try(func() { o.Moved = p.Tick(sk) })
		panicked = panicked || pk
		o.Pushed = sk.pushed
		var snap []string
		if panicked {
			// a run-time panic is reported as a record outside the geometry, which no
			// well-formed snapshot contains
			o.Snap = append(o.Snap, stageOut{in.W, in.N, 0, 0})
			snap = append(snap, hx.App("mk_pitem", hx.Nat(in.W), hx.Nat(in.N), hx.N(0), hx.Z(0)))
		}
		for _, s := range p.Stages() {
			o.Snap = append(o.Snap, stageOut{s.Lane, s.Stage, s.Item, s.CycleLeft})
			if s.Lane < 0 || s.Stage < 0 {
				return hx.Case{}, fmt.Errorf("negative lane/stage in snapshot")
			}
			snap = append(snap, hx.App("mk_pitem", hx.Nat(s.Lane), hx.Nat(s.Stage), hx.N(s.Item), hx.Z(int64(s.CycleLeft))))
		}
		if !r.Dflt {
			anyBlocked = true
		}
		for _, b := range r.Sink {
			if !b {
				anyBlocked = true
			}
		}
		outs = append(outs, o)
		rounds = append(rounds, hx.App("mk_cround", hx.L(accs), bools(r.Sink), hx.B(r.Dflt),
			hx.App("mk_robs", bools(o.Accepted), hx.LN(o.Pushed), hx.B(o.Moved), hx.L(snap))))
	}
	c := hx.Case{Obs: outs}
	c.Coq = hx.App("mk_case", hx.Nat(in.W), hx.Nat(in.N), hx.L(rounds))
	c.Tags = append(c.Tags, fmt.Sprintf("stages:%s", bucket(in.N)), fmt.Sprintf("width:%s", bucket(in.W)))
	if maxDelay > 0 {
		c.Tags = append(c.Tags, "delay>0")
	}
	if singleDwell {
		c.Tags = append(c.Tags, "single-stage-dwell")
	}
	if anyBlocked {
		c.Tags = append(c.Tags, "sink:sometimes-blocked")
	} else {
		c.Tags = append(c.Tags, "sink:always-ready")
	}
	if fullLane {
		c.Tags = append(c.Tags, "accept:refused-full")
	}
	pushed := 0
	for _, o := range outs {
		pushed += len(o.Pushed)
	}
	// non-trivial: at least two items left the pipeline and (a delay, a blocked sink or a refused accept occurred)
	c.Nontrivial = pushed >= 2 && (maxDelay > 0 || anyBlocked || fullLane)
	return c, nil
}

func bucket(n int) string {
	switch {
	case n <= 2:
		return fmt.Sprint(n)
	case n <= 4:
		return "3-4"
	default:
		return "5+"
	}
}

func gen(r *hx.Rand, tier string) []json.RawMessage {
	n := 700
	if tier == "thorough" {
		n = 12000
	}
	var out []json.RawMessage
	// directed: the single-stage dwell (TLB with Latency=1), every small geometry with mixed delays
	for _, w := range []int{1, 2, 3} {
		for _, st := range []int{1, 2, 3, 5} {
			for _, d := range []int64{0, 1, 3} {
				id := uint64(1)
				var rs []roundIn
				for k := 0; k < st+int(d)+6; k++ {
					var a []acc
					if k < 3 {
						for j := 0; j < w+1; j++ {
							a = append(a, acc{ID: id, Delay: d, Plain: d == 0 && j%2 == 0})
							id++
						}
					}
					rs = append(rs, roundIn{Acc: a, Dflt: true})
				}
				out = append(out, hx.J(input{w, st, rs}))
			}
		}
	}
	// large geometries: the occupancy table of advanceItems leaves its 128-slot stack buffer when
	// width * (occupied stage span + 3) > 128 — very wide, or deep and kept full
	{
		var rs []roundIn
		rs = append(rs, roundIn{Acc: []acc{{ID: 1, Delay: 1}}, Dflt: true})
		for k := 0; k < 6; k++ {
			rs = append(rs, roundIn{Dflt: true})
		}
		out = append(out, hx.J(input{48, 3, rs}))
		rs = nil
		id := uint64(1)
		for k := 0; k < 52; k++ {
			var a []acc
			if k < 44 {
				a = append(a, acc{ID: id})
				id++
			}
			rs = append(rs, roundIn{Acc: a, Dflt: true})
		}
		out = append(out, hx.J(input{4, 40, rs}))
		rs = nil
		id = 1
		for k := 0; k < 40; k++ {
			var a []acc
			if k < 30 {
				a = append(a, acc{ID: id, Delay: int64(k % 3)}, acc{ID: id + 1})
				id += 2
			}
			rs = append(rs, roundIn{Acc: a, Dflt: k%7 != 3})
		}
		out = append(out, hx.J(input{7, 24, rs}))
	}
	// degenerate geometries
	out = append(out, hx.J(input{0, 3, []roundIn{{Acc: []acc{{ID: 1}}, Dflt: true}, {Dflt: true}}}))
	out = append(out, hx.J(input{2, 0, []roundIn{{Acc: []acc{{ID: 1}, {ID: 2, Delay: 1}}, Dflt: true}, {Dflt: true}, {Dflt: true}}}))
	out = append(out, hx.J(input{2, 2, []roundIn{{Acc: []acc{{ID: 1, Delay: -1}, {ID: 2, Delay: -3}}, Dflt: true}, {Dflt: true}, {Dflt: true}, {Dflt: true}}}))

	for len(out) < n {
		w := r.Pick(4, 4, 2, 1, 1) + 1
		if w == 5 {
			w = r.Range(5, 18) // beyond the 16-lane stack bitset of Accept
		}
		st := []int{1, 1, 2, 2, 3, 4, 6, 9}[r.Intn(8)]
		if r.Chance(1, 30) {
			st = r.Range(10, 40) // beyond the 128-slot stack table of buildOccupancy (with w)
		}
		nr := r.Range(3, 16)
		steady := false
		if r.Chance(1, 60) { // very wide
			w, st = r.Range(43, 60), r.Range(1, 4)
		} else if r.Chance(1, 150) { // deep and kept full by a steady stream
			w, st, steady = r.Range(3, 6), r.Range(28, 40), true
			nr = st + r.Range(6, 12)
		}
		sinkMode := r.Pick(4, 3, 2, 2) // always ready | random per call | blocked for a while then ready | k slots per tick
		blockUntil := r.Range(1, nr)
		id := uint64(1)
		var rs []roundIn
		for k := 0; k < nr; k++ {
			var a []acc
			na := 0
			switch r.Pick(3, 4, 2) {
			case 0:
			case 1:
				na = r.Range(1, w)
			default:
				na = w + 1
			}
			if steady {
				na = 1
			}
			if k > nr*2/3 && r.Bool() {
				na = 0 // let it drain
			}
			for j := 0; j < na; j++ {
				d := int64(0)
				switch r.Pick(5, 3, 2) {
				case 1:
					d = int64(r.Range(1, 2))
				case 2:
					d = int64(r.Range(1, 6))
				}
				a = append(a, acc{ID: id, Delay: d, Plain: d == 0 && r.Bool()})
				id++
			}
			ri := roundIn{Acc: a, Dflt: true}
			switch sinkMode {
			case 1:
				for j := r.Intn(w + 2); j > 0; j-- {
					ri.Sink = append(ri.Sink, r.Chance(2, 3))
				}
				ri.Dflt = r.Chance(2, 3)
			case 2:
				if k < blockUntil {
					ri.Dflt = false
				}
			case 3:
				for j := r.Intn(w + 1); j > 0; j-- {
					ri.Sink = append(ri.Sink, true)
				}
				ri.Dflt = false
				if k >= blockUntil {
					ri.Sink, ri.Dflt = nil, true
				}
			}
			rs = append(rs, ri)
		}
		out = append(out, hx.J(input{w, st, rs}))
	}
	return out
}

func shrink(raw json.RawMessage) []json.RawMessage {
	var in input
	if hx.UJ(raw, &in) != nil {
		return nil
	}
	var out []json.RawMessage
	// drop the last round, drop one accept, make a round's sink always ready
	if len(in.Rounds) > 1 {
		out = append(out, hx.J(input{in.W, in.N, in.Rounds[:len(in.Rounds)-1]}))
	}
	for i, r := range in.Rounds {
		for j := range r.Acc {
			rs := append([]roundIn{}, in.Rounds...)
			a := append(append([]acc{}, r.Acc[:j]...), r.Acc[j+1:]...)
			rs[i] = roundIn{Acc: a, Sink: r.Sink, Dflt: r.Dflt}
			out = append(out, hx.J(input{in.W, in.N, rs}))
		}
		if len(r.Sink) > 0 || !r.Dflt {
			rs := append([]roundIn{}, in.Rounds...)
			rs[i] = roundIn{Acc: r.Acc, Dflt: true}
			out = append(out, hx.J(input{in.W, in.N, rs}))
		}
	}
	return out
}

func init() {
	hx.Register(&hx.Prop{
		ID:      "C15",
		Imports: "From Akita Require Import Lib.Base C15.Model C15.Exec.",
		Rule: "rounds of (guarded Accept/AcceptWithDelay attempts, then one Tick against a scripted sink) on queueing.Pipeline[uint64]. " +
			"Directed: widths 1..3 x stages {1,2,3,5} x delays {0,1,3} with more attempts than lanes and an always-ready sink (includes the " +
			"single-stage dwell), zero width, zero stages, negative delays; large geometries whose occupancy table exceeds 128 slots (48x3, 4x40 and 7x24 kept full; " +
			"1/60 of the random cases are 43..60 lanes wide, 1/150 are 28..40 stages deep with a steady stream). Random: width 1..4 (sometimes 5..18), stages 1..9 (sometimes 10..40), " +
			"3..16 rounds, 0..w+1 attempts per round with delays 0..6, sink always ready / random per CanPush call / blocked then ready / k slots per tick. " +
			"Non-trivial: at least two items left and a delay, a blocked sink or a refused accept occurred. Distinct = distinct input hash.",
		Gen: gen, Run: run, Shrink: shrink,
	})
}
