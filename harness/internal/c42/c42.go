// Package c42 ties the Coq model of timing/freq.go to the implementation.
package c42

import (
	"encoding/json"

	"github.com/sarchlab/akita/v5/timing"

	"verifharness/internal/hx"
)

type input struct {
	F uint64 `json:"f"`
	T uint64 `json:"t"`
	N int64  `json:"n"`
}

type obs struct {
	Period, Cycle, This, Next, NCL *uint64
}

func call(f func() uint64) *uint64 {
	var v uint64
	p, _ := hx.Try(func() { v = f() })
	if p {
		return nil
	}
	return &v
}

func on(p *uint64) string {
	if p == nil {
		return hx.None()
	}
	return hx.Some(hx.N(*p))
}

func run(raw json.RawMessage) (hx.Case, error) {
	var in input
	if err := hx.UJ(raw, &in); err != nil {
		return hx.Case{}, err
	}
	f := timing.Freq(in.F)
	t := timing.VTimeInPicoSec(in.T)
	o := obs{
		Period: call(func() uint64 { return uint64(f.Period()) }),
		Cycle:  call(func() uint64 { return f.Cycle(t) }),
		This:   call(func() uint64 { return uint64(f.ThisTick(t)) }),
		Next:   call(func() uint64 { return uint64(f.NextTick(t)) }),
		NCL:    call(func() uint64 { return uint64(f.NCyclesLater(int(in.N), t)) }),
	}
	c := hx.Case{Obs: o}
	c.Coq = hx.App("mk_case", hx.N(in.F), hx.N(in.T), hx.Z(in.N),
		on(o.Period), on(o.Cycle), on(o.This), on(o.Next), on(o.NCL))
	inRange := in.F >= 1 && in.F <= 1_000_000_000_000
	switch {
	case !inRange:
		c.Tags = append(c.Tags, "freq:out-of-range")
	default:
		p := 1_000_000_000_000 / in.F
		if in.T%p == 0 {
			c.Tags = append(c.Tags, "time:on-edge")
		} else {
			c.Tags = append(c.Tags, "time:off-edge")
		}
		if in.T > ^uint64(0)-2*p {
			c.Tags = append(c.Tags, "time:near-2^64")
		}
		if 1_000_000_000_000%in.F != 0 {
			c.Tags = append(c.Tags, "freq:non-dividing")
		}
	}
	// non-trivial: a frequency in range at an off-edge time or near the top of
	// the 64-bit range (the cases where rounding / wrap matter)
	c.Nontrivial = inRange && (in.T%(1_000_000_000_000/in.F) != 0 || in.T > ^uint64(0)-(1<<41))
	return c, nil
}

func gen(r *hx.Rand, tier string) []json.RawMessage {
	n := 600
	if tier == "thorough" {
		n = 12000
	}
	var out []json.RawMessage
	add := func(f, t uint64, k int64) { out = append(out, hx.J(input{f, t, k})) }
	// directed: every decade frequency, at / around edges, at the top of the range
	const ps = uint64(1_000_000_000_000)
	for f := uint64(1); f <= ps; f *= 10 {
		p := ps / f
		for _, t := range []uint64{0, 1, p - 1, p, p + 1, 7*p + p/2,
			^uint64(0), ^uint64(0) - 1, ^uint64(0) - p, ^uint64(0) - p + 1, ^uint64(0) - 2*p,
			(^uint64(0) / p) * p, (^uint64(0)/p)*p - 1, (^uint64(0)/p)*p + 1, 1<<64 - 616} {
			add(f, t, int64(r.Intn(5)))
		}
	}
	// malformed stream: frequencies the API rejects (panic) — small share
	add(0, 5, 1)
	add(ps+1, 5, 1)
	add(^uint64(0), 123456, 0)
	add(3*ps, 0, 2)
	for len(out) < n {
		var f uint64
		switch r.Pick(3, 3, 2, 2) {
		case 0:
			f = 1 + r.U64n(ps)
		case 1:
			f = []uint64{1, 1000, 1_000_000, 1_000_000_000, ps}[r.Intn(5)] * uint64(1+r.Intn(9))
			if f > ps {
				f = ps
			}
		case 2:
			f = 1 + r.U64n(5000)
		default:
			f = ps - r.U64n(5000)
		}
		p := ps / f
		var t uint64
		switch r.Pick(3, 2, 3, 2) {
		case 0:
			t = r.U64()
		case 1:
			t = r.U64n(1000) * p
		case 2:
			t = ^uint64(0) - r.U64n(3*p+5)
		default:
			t = r.U64n(1 << 40)
		}
		var k int64
		switch r.Pick(6, 2, 1) {
		case 0:
			k = int64(r.Intn(100))
		case 1:
			k = int64(r.U64n(1 << 40))
		default:
			k = -int64(r.Intn(5)) - 1
		}
		add(f, t, k)
	}
	return out
}

func init() {
	hx.Register(&hx.Prop{
		ID: "C42",
		Rule: "directed sweep of decade frequencies x boundary times, plus random (f,t,n) with f in [1,10^12] " +
			"(uniform / unit multiples / tiny / near 1 THz), t uniform, on-edge, within 3 periods of 2^64, or small; " +
			"a small malformed stream (f=0, f>10^12). Non-trivial: f in range and (t off a clock edge or t within 2^41 of 2^64). " +
			"Distinct = distinct input hash.",
		Gen: gen, Run: run,
	})
}
