// Package c22 ties the Coq model of the DRAM bank-level kernels (mem/dram
// bank_ops.go, banktickmw.go) to the implementation, and checks the protocol
// legality / minimum-separation / tFAW property on the command stream issued by
// real dram.Comp instances under contended traffic.
package c22

import (
	"bytes"
	"encoding/json"
	"fmt"
	"os"
	"sort"

	"github.com/sarchlab/akita/v5/hooking"
	"github.com/sarchlab/akita/v5/mem/dram"
	"github.com/sarchlab/akita/v5/mem/memprotocol"
	"github.com/sarchlab/akita/v5/messaging"
	"github.com/sarchlab/akita/v5/timing"
	"github.com/sarchlab/akita/v5/tracing"

	"verifharness/internal/hx"
	"verifharness/internal/memdrv"
)

// ---------------------------------------------------------------- inputs

// SpecIn selects a preset and overrides individual Spec fields by JSON tag.
type SpecIn struct {
	Preset string           `json:"preset"`
	Over   map[string]int64 `json:"over,omitempty"`
}

type cmdIn struct {
	Kind int    `json:"k"`
	Rank uint64 `json:"r"`
	BG   uint64 `json:"g"`
	Bank uint64 `json:"b"`
	Row  uint64 `json:"row"`
}

type bankIn struct {
	State int    `json:"st"`
	Row   uint64 `json:"row"`
	Cnt   []int  `json:"cnt"`
}

type initIn struct {
	Banks []bankIn   `json:"banks"`
	Hist  [][]uint64 `json:"hist"`
	Tick  uint64     `json:"tick"`
}

type kernelIn struct {
	Init   *initIn  `json:"init,omitempty"` // nil: the clean state Build installs
	Offers []*cmdIn `json:"offers"`
}

type reqIn struct {
	At    uint64 `json:"at"`
	Write bool   `json:"w"`
	Addr  uint64 `json:"addr"`
	Size  int    `json:"size"`
	Seed  byte   `json:"seed"`
}

type runIn struct {
	Reqs      []reqIn `json:"reqs"`
	PortBuf   int     `json:"port_buf"`
	MaxCycles uint64  `json:"max_cycles"`
	SnapEvery int     `json:"snap_every"`
	// Overlap lets the requester issue a request while an earlier one to the same bytes is
	// still outstanding (program order then defines "the last written data")
	Overlap bool `json:"overlap,omitempty"`
}

type input struct {
	// Dump asks for the timing tables of every preset as Coq terms (used by the
	// translator step of the check, see lib/props/c22.py)
	Dump   bool      `json:"dump,omitempty"`
	Spec   SpecIn    `json:"spec"`
	Kernel *kernelIn `json:"kernel,omitempty"`
	Run    *runIn    `json:"run,omitempty"`
}

// Presets lists every preset Spec of mem/dram/presets.go plus the builder default.
func Presets() map[string]dram.Spec {
	return map[string]dram.Spec{
		"Default":   dram.DefaultSpec(),
		"DDR4Spec":  dram.DDR4Spec,
		"DDR5Spec":  dram.DDR5Spec,
		"HBM2Spec":  dram.HBM2Spec,
		"HBM3Spec":  dram.HBM3Spec,
		"GDDR6Spec": dram.GDDR6Spec,
	}
}

// PresetNames returns the preset names in a fixed order.
func PresetNames() []string {
	var ns []string
	for n := range Presets() {
		ns = append(ns, n)
	}
	sort.Strings(ns)
	return ns
}

// MakeSpec resolves a SpecIn.
func MakeSpec(in SpecIn) (dram.Spec, error) {
	base, ok := Presets()[in.Preset]
	if !ok {
		return dram.Spec{}, fmt.Errorf("unknown preset %q", in.Preset)
	}
	if len(in.Over) == 0 {
		return base, nil
	}
	b, _ := json.Marshal(base)
	var m map[string]json.RawMessage
	if err := json.Unmarshal(b, &m); err != nil {
		return base, err
	}
	for k, v := range in.Over {
		if _, ok := m[k]; !ok {
			return base, fmt.Errorf("unknown spec field %q", k)
		}
		m[k] = json.RawMessage(fmt.Sprintf("%d", v))
	}
	b, _ = json.Marshal(m)
	var out dram.Spec
	dec := json.NewDecoder(bytes.NewReader(b))
	if err := dec.Decode(&out); err != nil {
		return base, err
	}
	return out, nil
}

// ---------------------------------------------------------------- Coq printers

func zi(x int) string { return hx.Z(int64(x)) }

func coqTable(t [][]dram.VerifTimingEntry) string {
	rows := make([]string, len(t))
	for i, r := range t {
		es := make([]string, len(r))
		for j, e := range r {
			es[j] = hx.T(hx.N(uint64(e.Next)), zi(e.Min))
		}
		rows[i] = hx.L(es)
	}
	return hx.L(rows)
}

// CoqTables prints the `tables` record for a built kernel.
func CoqTables(tb dram.VerifTables) string {
	T := hx.App("mk_timing", coqTable(tb.SameBank), coqTable(tb.OtherBanksInBankGroup),
		coqTable(tb.SameRank), coqTable(tb.OtherRanks))
	s := tb.Spec
	return hx.App("mk_tables", T, zi(s.TFAW), zi(s.TRCD), zi(s.TAL), zi(s.TRAS), zi(s.TRP), zi(s.TRC),
		zi(s.TRCDRD), zi(s.TRCDWR), hx.B(tb.IsGDDR || tb.IsHBM))
}

func coqLoc(r, g, b, row uint64) string {
	return hx.App("mk_loc", hx.N(r), hx.N(g), hx.N(b), hx.N(row))
}

type snap struct {
	NBG, NB int
	Entries []snapEntry
	Hist    [][]uint64
	Tick    uint64
}

type snapEntry struct {
	Rank, BG, Bank, State int
	Row                   uint64
	Cnt                   []int
}

func takeSnap(st *dram.State) snap {
	s := snap{NBG: st.BankStates.NumBankGroups, NB: st.BankStates.NumBanks, Tick: st.TickCount}
	for i := range st.BankStates.Entries {
		e := &st.BankStates.Entries[i]
		se := snapEntry{Rank: e.Rank, BG: e.BankGroup, Bank: e.BankIndex, State: e.Data.State, Row: e.Data.OpenRow}
		for _, c := range e.Data.CyclesToCmdAvailable {
			se.Cnt = append(se.Cnt, c)
		}
		s.Entries = append(s.Entries, se)
	}
	for i := range st.BankStates.ActivateHistories {
		h := append([]uint64{}, st.BankStates.ActivateHistories[i].Timestamps...)
		s.Hist = append(s.Hist, h)
	}
	return s
}

func (s snap) coq() string {
	es := make([]string, len(s.Entries))
	for i, e := range s.Entries {
		cs := make([]string, len(e.Cnt))
		for j, c := range e.Cnt {
			cs[j] = zi(c)
		}
		es[i] = hx.App("mk_entry", hx.N(uint64(e.Rank)), hx.N(uint64(e.BG)), hx.N(uint64(e.Bank)),
			hx.App("mk_bank", hx.N(uint64(e.State)), hx.N(e.Row), hx.L(cs)))
	}
	hs := make([]string, len(s.Hist))
	for i, h := range s.Hist {
		hs[i] = hx.LN(h)
	}
	return hx.App("mk_st", hx.N(uint64(s.NBG)), hx.N(uint64(s.NB)), hx.L(es), hx.L(hs), hx.N(s.Tick))
}

// ---------------------------------------------------------------- kernel cases

type kernelObs struct {
	Ready    []int  `json:"ready"`
	Progress []bool `json:"progress"`
	Final    snap   `json:"final"`
	Issued   int    `json:"issued"`
}

func stateFromInit(k *dram.VerifKernel, in *initIn) (*dram.State, error) {
	st := k.NewState()
	if in == nil {
		return st, nil
	}
	n := len(st.BankStates.Entries)
	if len(in.Banks) != n {
		return nil, fmt.Errorf("init has %d banks, layout has %d", len(in.Banks), n)
	}
	for i := range st.BankStates.Entries {
		d := &st.BankStates.Entries[i].Data
		d.State = in.Banks[i].State
		d.OpenRow = in.Banks[i].Row
		for j := range d.CyclesToCmdAvailable {
			if j < len(in.Banks[i].Cnt) {
				d.CyclesToCmdAvailable[j] = in.Banks[i].Cnt[j]
			}
		}
	}
	for i := range st.BankStates.ActivateHistories {
		if i < len(in.Hist) {
			st.BankStates.ActivateHistories[i].Timestamps = append([]uint64{}, in.Hist[i]...)
		}
	}
	st.TickCount = in.Tick
	return st, nil
}

func runKernel(in input, spec dram.Spec) (hx.Case, error) {
	k := dram.NewVerifKernel(spec)
	tb := k.Tables()
	st, err := stateFromInit(k, in.Kernel.Init)
	if err != nil {
		return hx.Case{}, err
	}
	init := takeSnap(st)
	o := kernelObs{}
	offers := make([]string, len(in.Kernel.Offers))
	ready := make([]string, len(in.Kernel.Offers))
	prog := make([]string, len(in.Kernel.Offers))
	kinds := map[int]int{}
	for i, of := range in.Kernel.Offers {
		// the bank-level part of bankTickMW.Tick
		st.TickCount++
		p := k.TickBanks(st)
		r := -1
		if of != nil {
			c := dram.VerifCmd{Kind: of.Kind, Rank: of.Rank, BankGroup: of.BG, Bank: of.Bank, Row: of.Row}
			r = k.ReadyKind(st, c)
			if r >= 0 {
				c.Kind = r
				k.Issue(st, c)
				o.Issued++
				kinds[r]++
			}
			offers[i] = hx.Some(hx.App("mk_cmd", hx.N(uint64(of.Kind)), coqLoc(of.Rank, of.BG, of.Bank, of.Row)))
		} else {
			offers[i] = hx.None()
		}
		o.Ready = append(o.Ready, r)
		o.Progress = append(o.Progress, p)
		if r >= 0 {
			ready[i] = hx.Some(hx.N(uint64(r)))
		} else {
			ready[i] = hx.None()
		}
		prog[i] = hx.B(p)
	}
	o.Final = takeSnap(st)
	c := hx.Case{Obs: o}
	c.Coq = hx.App("KernelCase", CoqTables(tb), init.coq(), hx.B(in.Kernel.Init == nil),
		hx.L(offers), hx.L(ready), hx.L(prog), o.Final.coq())
	c.Tags = append(c.Tags, "kind:kernel", "preset:"+in.Spec.Preset)
	if in.Kernel.Init == nil {
		c.Tags = append(c.Tags, "init:clean")
	} else {
		c.Tags = append(c.Tags, "init:arbitrary")
	}
	for kd, n := range kinds {
		if n > 0 {
			c.Tags = append(c.Tags, "issued:"+tb.CmdKindNames[kd])
		}
	}
	c.Nontrivial = o.Issued >= 3 && kinds[5] > 0 || (in.Kernel.Init != nil && o.Issued >= 1)
	return c, nil
}

// ---------------------------------------------------------------- run cases

type runEvent struct {
	Tick   uint64 `json:"tick"`
	Cycle  uint64 `json:"cycle"`
	QKind  int    `json:"qkind"`
	Kind   int    `json:"kind"`
	Rank   uint64 `json:"rank"`
	BG     uint64 `json:"bg"`
	Bank   uint64 `json:"bank"`
	Row    uint64 `json:"row"`
	HasSnp bool   `json:"snap"`
	snap   snap
}

type runObs struct {
	Events    []runEvent `json:"events"`
	FinalTick uint64     `json:"final_tick"`
	Completed bool       `json:"completed"`
	DataOK    bool       `json:"data_ok"`
	Sent      int        `json:"sent"`
	Answered  int        `json:"answered"`
	Problem   string     `json:"problem,omitempty"`
}

type pendingReq struct {
	req    reqIn
	expect []byte
	done   bool
}

func runRun(in input, spec dram.Spec) (hx.Case, error) {
	k := dram.NewVerifKernel(spec)
	tb := k.Tables()
	built := tb.Spec
	kindByName := map[string]int{}
	for i, n := range tb.CmdKindNames {
		kindByName[n] = i
	}

	sim := memdrv.NewSim()
	comp := dram.MakeBuilder().WithRegistrar(sim.Reg).WithSpec(spec).Build("Dram")
	buf := in.Run.PortBuf
	if buf < 1 {
		buf = 4
	}
	sim.AddPorts(comp, buf, "Top", "Control")

	o := runObs{DataOK: true}
	snapEvery := in.Run.SnapEvery
	if snapEvery < 1 {
		snapEvery = 8
	}
	comp.AcceptHook(&memdrv.FuncHook{F: func(ctx hooking.HookCtx) {
		if ctx.Pos != tracing.HookPosMilestone {
			return
		}
		m, ok := ctx.Item.(tracing.Milestone)
		if !ok {
			return
		}
		kind, ok := kindByName[m.What]
		if !ok {
			return
		}
		st := &comp.State
		found := false
		var addr uint64
		isRead := false
		for i := range st.Transactions {
			t := &st.Transactions[i]
			for j := range t.SubTransactions {
				if t.SubTransactions[j].ID == m.TaskID {
					found = true
					addr = t.SubTransactions[j].Address
					isRead = t.HasRead
				}
			}
		}
		if !found {
			o.Problem = "issue milestone for an unknown sub-transaction"
			return
		}
		l := k.MapAddress(addr)
		q := 0
		switch {
		case built.PagePolicy == dram.PagePolicyOpen && isRead:
			q = 0
		case built.PagePolicy == dram.PagePolicyOpen:
			q = 2
		case isRead:
			q = 1
		default:
			q = 3
		}
		ev := runEvent{Tick: st.TickCount, Cycle: built.Freq.Cycle(sim.Engine.CurrentTime()),
			QKind: q, Kind: kind, Rank: l.Rank, BG: l.BankGroup, Bank: l.Bank, Row: l.Row}
		if len(o.Events)%snapEvery == snapEvery-1 {
			ev.HasSnp = true
			ev.snap = takeSnap(st)
		}
		o.Events = append(o.Events, ev)
		if os.Getenv("C22DBG") == "2" {
			fmt.Fprintf(os.Stderr, "%+v pend=%d q=%d\n", ev, len(st.PendingCompletions), len(st.CommandQueues.Entries))
			if len(o.Events) > 60 {
				os.Exit(3)
			}
		}
	}})

	// requester
	reqs := in.Run.Reqs
	next := 0
	pending := map[uint64]*pendingReq{}
	ref := map[uint64]byte{}
	inflight := map[uint64]int{}
	maxCycles := in.Run.MaxCycles
	if maxCycles == 0 {
		maxCycles = 200000
	}
	drv := sim.NewDriver("Agent", built.Freq, buf, "Mem")
	top := comp.GetPortByName("Top")
	mem := drv.GetPortByName("Mem")
	sim.Connect(mem, top)
	seen := 0
	drv.TickFn = func(d *memdrv.Driver) bool {
		d.Drain()
		for ; seen < len(d.Log); seen++ {
			msg := d.Log[seen].Msg
			meta := msg.Meta()
			p, ok := pending[meta.RspTo]
			if !ok || p.done {
				o.Problem = "response to an unknown or already answered request"
				o.Completed = false
				continue
			}
			switch rsp := msg.(type) {
			case memprotocol.DataReadyRsp:
				if p.req.Write || !bytes.Equal(rsp.Data, p.expect) {
					o.DataOK = false
				}
			case memprotocol.WriteDoneRsp:
				if !p.req.Write {
					o.DataOK = false
				}
			default:
				o.Problem = "unexpected message type"
			}
			p.done = true
			o.Answered++
			for a := p.req.Addr; a < p.req.Addr+uint64(p.req.Size); a++ {
				inflight[a]--
			}
		}
		if d.Cycle() > maxCycles {
			return false
		}
	send:
		for next < len(reqs) {
			r := reqs[next]
			if d.Cycle() < r.At || !mem.CanSend() {
				break
			}
			for a := r.Addr; a < r.Addr+uint64(r.Size) && !in.Run.Overlap; a++ {
				if inflight[a] > 0 {
					break send
				}
			}
			id := memdrv.NewID()
			p := &pendingReq{req: r}
			meta := messaging.MsgMeta{ID: id, Src: mem.AsRemote(), Dst: top.AsRemote()}
			if r.Write {
				data := make([]byte, r.Size)
				for i := range data {
					data[i] = r.Seed + byte(i)*7 + 1
					ref[r.Addr+uint64(i)] = data[i]
				}
				meta.TrafficBytes = r.Size + 12
				meta.TrafficClass = "memprotocol.WriteReq"
				mem.Send(memprotocol.WriteReq{MsgMeta: meta, Address: r.Addr, Data: data})
			} else {
				p.expect = make([]byte, r.Size)
				for i := range p.expect {
					p.expect[i] = ref[r.Addr+uint64(i)]
				}
				meta.TrafficBytes = 12
				meta.TrafficClass = "memprotocol.ReadReq"
				mem.Send(memprotocol.ReadReq{MsgMeta: meta, Address: r.Addr, AccessByteSize: uint64(r.Size)})
			}
			for a := r.Addr; a < r.Addr+uint64(r.Size); a++ {
				inflight[a]++
			}
			pending[id] = p
			o.Sent++
			next++
		}
		return next < len(reqs) || o.Answered < o.Sent
	}
	limit := built.Freq.Period() * timing.VTimeInPicoSec(maxCycles+1000)
	sim.Engine.AcceptHook(&memdrv.FuncHook{F: func(ctx hooking.HookCtx) {
		if ctx.Pos == timing.HookPosBeforeEvent && sim.Engine.CurrentTime() > limit {
			panic("no quiescence within the cycle budget (livelock?)")
		}
	}})
	drv.TickLater()
	panicked, msg := hx.Try(func() {
		if err := sim.Engine.Run(); err != nil {
			panic(err)
		}
	})
	if panicked {
		o.Problem = "panic: " + msg
	}
	o.Completed = !panicked && o.Problem == "" && o.Sent == len(reqs) && o.Answered == o.Sent
	o.FinalTick = comp.State.TickCount
	final := takeSnap(&comp.State)

	evs := make([]string, len(o.Events))
	kinds := map[int]int{}
	banks := map[[3]uint64]bool{}
	for i, e := range o.Events {
		sn := hx.None()
		if e.HasSnp {
			sn = hx.Some(e.snap.coq())
		}
		evs[i] = hx.App("mk_ev", hx.N(e.Tick), hx.N(e.Cycle), hx.N(uint64(e.QKind)), hx.N(uint64(e.Kind)),
			coqLoc(e.Rank, e.BG, e.Bank, e.Row), sn)
		kinds[e.Kind]++
		banks[[3]uint64{e.Rank, e.BG, e.Bank}] = true
	}
	c := hx.Case{Obs: o}
	c.Coq = hx.App("RunCase", CoqTables(tb), hx.N(uint64(built.NumRank)), hx.N(uint64(built.NumBankGroup)),
		hx.N(uint64(built.NumBank)), hx.L(evs), final.coq(), hx.B(o.Completed), hx.B(o.DataOK))
	pol := "close"
	if built.PagePolicy == dram.PagePolicyOpen {
		pol = "open"
	}
	c.Tags = append(c.Tags, "kind:run", "preset:"+in.Spec.Preset, "policy:"+pol)
	for kd, n := range kinds {
		if n > 0 {
			c.Tags = append(c.Tags, "issued:"+tb.CmdKindNames[kd])
		}
	}
	if built.ReadQueueSize > 0 && built.WriteQueueSize > 0 {
		c.Tags = append(c.Tags, "queues:split")
	}
	if comp.State.RefreshCycleCounter != int(o.FinalTick) && built.TREFI > 0 && int(o.FinalTick) >= built.TREFI {
		c.Tags = append(c.Tags, "refresh:stalled")
	}
	if len(banks) >= 2 {
		c.Tags = append(c.Tags, "banks:>=2")
	}
	c.Nontrivial = len(o.Events) >= 6 && len(banks) >= 2 && kinds[4] >= 2
	c.Known = classifyRun(in)
	return c, nil
}

func run(raw json.RawMessage) (hx.Case, error) {
	if os.Getenv("C22DBG") != "" {
		fmt.Fprintln(os.Stderr, string(raw))
	}
	var in input
	if err := hx.UJ(raw, &in); err != nil {
		return hx.Case{}, err
	}
	if in.Dump {
		return dumpPresets()
	}
	spec, err := MakeSpec(in.Spec)
	if err != nil {
		return hx.Case{}, err
	}
	switch {
	case in.Kernel != nil:
		return runKernel(in, spec)
	case in.Run != nil:
		return runRun(in, spec)
	}
	return hx.Case{}, fmt.Errorf("input has neither kernel nor run")
}


// dumpPresets returns, as Coq terms, the tables the REAL builder generates for every
// preset (both page policies share them; tFAW and the Spec fields come along).
func dumpPresets() (hx.Case, error) {
	out := map[string]string{}
	for _, n := range PresetNames() {
		k := dram.NewVerifKernel(Presets()[n])
		out[n] = CoqTables(k.Tables())
	}
	in := input{Spec: SpecIn{Preset: "Default"}, Kernel: &kernelIn{}}
	c, err := runKernel(in, Presets()["Default"])
	c.Obs = out
	return c, err
}

// classifyRun recognises, from the INPUT alone, the run shape with a recorded finding: a
// requester that does not wait between two accesses to the same bytes of which at least one
// is a write (the DRAM scheduler keeps no same-address order).
func classifyRun(in input) string {
	if in.Run == nil || !in.Run.Overlap {
		return ""
	}
	for j, r := range in.Run.Reqs {
		for _, w := range in.Run.Reqs[:j] {
			if (w.Write || r.Write) && w.Addr < r.Addr+uint64(r.Size) && r.Addr < w.Addr+uint64(w.Size) {
				return "dram_no_same_address_ordering"
			}
		}
	}
	return ""
}
