package c22

import (
	"encoding/json"

	"github.com/sarchlab/akita/v5/mem/dram"

	"verifharness/internal/hx"
)

// small geometries keep the cases cheap for Coq while still exercising every
// relation (same bank / same group / same rank / other rank)
func randSpecIn(r *hx.Rand, forRun bool) SpecIn {
	names := PresetNames()
	s := SpecIn{Preset: names[r.Intn(len(names))], Over: map[string]int64{}}
	// geometry
	switch r.Pick(3, 3, 2, 2) {
	case 0: // preset geometry
	case 1:
		s.Over["num_rank"] = int64(1 << r.Intn(2))
		s.Over["num_bank_group"] = int64(1 << r.Intn(3))
		s.Over["num_bank"] = int64(1 << r.Intn(3))
	case 2:
		s.Over["num_rank"] = 2
		s.Over["num_bank_group"] = 2
		s.Over["num_bank"] = 2
	default:
		s.Over["num_rank"] = int64(1 + r.Intn(2))
		s.Over["num_bank_group"] = 1
		s.Over["num_bank"] = int64(2 + r.Intn(3))
	}
	// page policy
	s.Over["page_policy"] = int64(r.Intn(2))
	// tFAW present / absent / tight
	switch r.Pick(2, 2, 1) {
	case 0:
	case 1:
		s.Over["t_faw"] = int64(10 + r.Intn(60))
	default:
		s.Over["t_faw"] = 0
	}
	// perturb some timing parameters
	if r.Chance(1, 3) {
		for _, f := range []string{"t_rcd", "t_rp", "t_ras", "t_ccdl", "t_ccds", "t_rrdl", "t_rrds", "t_wr", "t_rtp", "t_wtrl", "t_wtrs", "t_al", "t_ppd"} {
			if r.Chance(1, 3) {
				s.Over[f] = int64(r.Intn(30))
			}
		}
	}
	if forRun {
		// keep the perturbed timing physically meaningful: a row stays open long enough
		// for the access it was opened for (tRAS >= tRCD + 8); otherwise FR-FCFS can
		// precharge a freshly activated row for ever (see level_note)
		base := Presets()[s.Preset]
		rcd, ras := int64(base.TRCD), int64(base.TRAS)
		if v, ok := s.Over["t_rcd"]; ok {
			rcd = v
		}
		if v, ok := s.Over["t_ras"]; ok {
			ras = v
		}
		if base.TRCDRD > 0 && int64(base.TRCDRD) > rcd {
			rcd = int64(base.TRCDRD)
		}
		if ras < rcd+8 {
			s.Over["t_ras"] = rcd + 8
		}
		// queues
		switch r.Pick(3, 2, 2) {
		case 0:
		case 1:
			s.Over["command_queue_capacity"] = int64(1 + r.Intn(4))
			s.Over["transaction_queue_size"] = int64(4 + r.Intn(12))
		default:
			s.Over["read_queue_size"] = int64(2 + r.Intn(6))
			s.Over["write_queue_size"] = int64(2 + r.Intn(6))
			s.Over["write_high_watermark"] = int64(2 + r.Intn(4))
			s.Over["write_low_watermark"] = int64(r.Intn(2))
		}
		// refresh stalls within the run
		if r.Chance(1, 3) {
			s.Over["t_refi"] = int64(40 + r.Intn(200))
			s.Over["t_rfc"] = int64(3 + r.Intn(30))
		}
	}
	if len(s.Over) == 0 {
		s.Over = nil
	}
	return s
}

func layoutOf(in SpecIn) (nr, nbg, nb int, k *dram.VerifKernel) {
	spec, err := MakeSpec(in)
	if err != nil {
		panic(err)
	}
	k = dram.NewVerifKernel(spec)
	b := k.Spec()
	return b.NumRank, b.NumBankGroup, b.NumBank, k
}

func genKernel(r *hx.Rand, arbitrary bool, n int) json.RawMessage {
	in := input{Spec: randSpecIn(r, false), Kernel: &kernelIn{}}
	nr, nbg, nb, _ := layoutOf(in.Spec)
	nrows := 1 + r.Intn(3)
	// the oracle concentrates on a few banks so that conflicts are frequent
	type bk struct{ r, g, b uint64 }
	var hot []bk
	for i := 0; i < 2+r.Intn(4); i++ {
		hot = append(hot, bk{uint64(r.Intn(nr)), uint64(r.Intn(nbg)), uint64(r.Intn(nb))})
	}
	if arbitrary {
		ini := &initIn{Tick: uint64(1000 + r.Intn(1000))}
		for i := 0; i < nr*nbg*nb; i++ {
			b := bankIn{State: []int{0, 1, 1, 0, 1, 0, 2, 3, 4}[r.Intn(9)], Row: uint64(r.Intn(nrows + 1))}
			for j := 0; j < 10; j++ {
				c := 0
				if r.Chance(1, 3) {
					c = r.Intn(12)
				}
				b.Cnt = append(b.Cnt, c)
			}
			ini.Banks = append(ini.Banks, b)
		}
		for i := 0; i < nr; i++ {
			var h []uint64
			t := ini.Tick - uint64(r.Intn(200))
			for j := 0; j < r.Intn(5); j++ {
				h = append(h, t)
				t += uint64(r.Intn(20))
				if t > ini.Tick {
					t = ini.Tick
				}
			}
			ini.Hist = append(ini.Hist, h)
		}
		in.Kernel.Init = ini
	}
	for i := 0; i < n; i++ {
		switch r.Pick(2, 10, 1, 1) {
		case 0:
			in.Kernel.Offers = append(in.Kernel.Offers, nil)
		case 1:
			h := hot[r.Intn(len(hot))]
			in.Kernel.Offers = append(in.Kernel.Offers, &cmdIn{Kind: r.Intn(4), Rank: h.r, BG: h.g, Bank: h.b, Row: uint64(r.Intn(nrows))})
		case 2: // any kind, any in-range bank
			in.Kernel.Offers = append(in.Kernel.Offers, &cmdIn{Kind: r.Intn(11), Rank: uint64(r.Intn(nr)), BG: uint64(r.Intn(nbg)), Bank: uint64(r.Intn(nb)), Row: uint64(r.Intn(nrows))})
		default: // possibly out-of-range rank (no such bank)
			in.Kernel.Offers = append(in.Kernel.Offers, &cmdIn{Kind: r.Intn(4), Rank: uint64(r.Intn(nr + 2)), BG: uint64(r.Intn(nbg)), Bank: uint64(r.Intn(nb)), Row: uint64(r.Intn(nrows))})
		}
	}
	return hx.J(in)
}

func composeAddr(s dram.Spec, rank, bg, bank, row, col uint64) uint64 {
	return (rank&s.RankMask)<<s.RankPos | (bg&s.BankGroupMask)<<s.BankGroupPos |
		(bank&s.BankMask)<<s.BankPos | (row&s.RowMask)<<s.RowPos | (col&s.ColMask)<<s.ColPos
}

func genRun(r *hx.Rand, nreq int) json.RawMessage {
	in := input{Spec: randSpecIn(r, true), Run: &runIn{PortBuf: 1 + r.Intn(8), SnapEvery: 10 + r.Intn(12)}}
	nr, nbg, nb, k := layoutOf(in.Spec)
	s := k.Spec()
	unit := uint64(1) << s.Log2AccessUnitSize
	nrows := uint64(2 + r.Intn(3))
	ncols := uint64(1 + r.Intn(4))
	type bk struct{ r, g, b uint64 }
	var hot []bk
	for i := 0; i < 1+r.Intn(5); i++ {
		hot = append(hot, bk{uint64(r.Intn(nr)), uint64(r.Intn(nbg)), uint64(r.Intn(nb))})
	}
	at := uint64(0)
	for i := 0; i < nreq; i++ {
		h := hot[r.Intn(len(hot))]
		if r.Chance(1, 8) {
			h = bk{uint64(r.Intn(nr)), uint64(r.Intn(nbg)), uint64(r.Intn(nb))}
		}
		base := composeAddr(s, h.r, h.g, h.b, r.U64n(nrows), r.U64n(ncols))
		size := []int{4, 8, 16, int(unit)}[r.Intn(4)]
		off := uint64(0)
		switch r.Pick(6, 2, 1) {
		case 0:
			off = r.U64n(unit/4) * 4
			if off+uint64(size) > unit {
				off = unit - uint64(size)
			}
		case 1: // straddles two access units -> two sub-transactions
			off = unit - 4
			size = 8
		default:
			off = 0
			size = int(unit)
		}
		switch r.Pick(5, 2, 1) {
		case 0:
		case 1:
			at += uint64(r.Intn(6))
		default:
			at += uint64(r.Intn(120))
		}
		in.Run.Reqs = append(in.Run.Reqs, reqIn{At: at, Write: r.Chance(2, 5), Addr: base + off, Size: size, Seed: byte(r.Intn(256))})
	}
	return hx.J(in)
}

func gen(r *hx.Rand, tier string) []json.RawMessage {
	nk, nr := 30, 44
	if tier == "thorough" {
		nk, nr = 250, 350
	}
	var out []json.RawMessage
	// directed: every preset x both page policies, unmodified geometry, heavy contention
	for _, p := range PresetNames() {
		for pol := int64(0); pol < 2; pol++ {
			rr := r.Fork()
			in := input{Spec: SpecIn{Preset: p, Over: map[string]int64{"page_policy": pol}}, Run: &runIn{PortBuf: 4, SnapEvery: 16}}
			nrk, nbg, nb, k := layoutOf(in.Spec)
			s := k.Spec()
			for i := 0; i < 40; i++ {
				a := composeAddr(s, uint64(rr.Intn(nrk)), uint64(rr.Intn(min(nbg, 2))), uint64(rr.Intn(min(nb, 2))), rr.U64n(3), rr.U64n(2))
				in.Run.Reqs = append(in.Run.Reqs, reqIn{At: uint64(i / 4), Write: rr.Chance(1, 3), Addr: a, Size: 4, Seed: byte(i)})
			}
			out = append(out, hx.J(in))
			out = append(out, genKernelPreset(rr, p, pol))
		}
	}
	// directed: the recorded finding (no same-address ordering: here split read/write queues let a
	// younger read overtake an older write to the same address), always included
	{
		in := input{Spec: SpecIn{Preset: "DDR4Spec", Over: map[string]int64{"page_policy": 1, "read_queue_size": 8,
			"write_queue_size": 1, "write_high_watermark": 8, "write_low_watermark": 0}},
			Run: &runIn{PortBuf: 8, SnapEvery: 8, Overlap: true}}
		for i := 0; i < 4; i++ {
			in.Run.Reqs = append(in.Run.Reqs, reqIn{Write: true, Addr: uint64(i+1) << 17, Size: 4, Seed: byte(i)})
		}
		in.Run.Reqs = append(in.Run.Reqs, reqIn{Write: true, Addr: 64, Size: 4, Seed: 77}, reqIn{Addr: 64, Size: 4})
		out = append(out, hx.J(in))
	}
	// same-address read-after-write / write-after-read / write-after-write without waiting on the
	// unified command queue: also reordered when tRCDWR < tRCDRD (GDDR/HBM) - same finding
	for i := 0; i < nr/8; i++ {
		rr := r.Fork()
		var in input
		hx.UJ(genRun(rr, 10+rr.Intn(30)), &in)
		delete(in.Spec.Over, "read_queue_size")
		delete(in.Spec.Over, "write_queue_size")
		delete(in.Spec.Over, "write_high_watermark")
		delete(in.Spec.Over, "write_low_watermark")
		in.Run.Overlap = true
		// make collisions frequent: fold the addresses onto a few words
		for j := range in.Run.Reqs {
			if rr.Chance(2, 3) && j > 0 {
				k := rr.Intn(j)
				in.Run.Reqs[j].Addr, in.Run.Reqs[j].Size = in.Run.Reqs[k].Addr, in.Run.Reqs[k].Size
			}
		}
		out = append(out, hx.J(in))
	}
	for i := 0; i < nk; i++ {
		out = append(out, genKernel(r.Fork(), i%3 == 2, 20+r.Intn(60)))
	}
	for i := 0; i < nr; i++ {
		out = append(out, genRun(r.Fork(), 8+r.Intn(40)))
	}
	return out
}

// an oracle run on the unmodified preset
func genKernelPreset(r *hx.Rand, preset string, pol int64) json.RawMessage {
	in := input{Spec: SpecIn{Preset: preset, Over: map[string]int64{"page_policy": pol}}, Kernel: &kernelIn{}}
	nr, nbg, nb, _ := layoutOf(in.Spec)
	for i := 0; i < 120; i++ {
		if r.Chance(1, 6) {
			in.Kernel.Offers = append(in.Kernel.Offers, nil)
			continue
		}
		in.Kernel.Offers = append(in.Kernel.Offers, &cmdIn{Kind: r.Intn(4), Rank: uint64(r.Intn(nr)),
			BG: uint64(r.Intn(min(nbg, 2))), Bank: uint64(r.Intn(min(nb, 2))), Row: uint64(r.Intn(2))})
	}
	return hx.J(in)
}

func shrink(raw json.RawMessage) []json.RawMessage {
	var in input
	if hx.UJ(raw, &in) != nil {
		return nil
	}
	var out []json.RawMessage
	if in.Kernel != nil {
		n := len(in.Kernel.Offers)
		for _, cut := range [][2]int{{0, n / 2}, {n / 2, n}, {0, n - 1}, {1, n}} {
			if cut[0] < cut[1] && cut[1]-cut[0] < n {
				c := in
				kk := *in.Kernel
				kk.Offers = append([]*cmdIn{}, in.Kernel.Offers[cut[0]:cut[1]]...)
				c.Kernel = &kk
				out = append(out, hx.J(c))
			}
		}
	}
	if in.Run != nil {
		n := len(in.Run.Reqs)
		for _, cut := range [][2]int{{0, n / 2}, {n / 2, n}, {0, n - 1}, {1, n}} {
			if cut[0] < cut[1] && cut[1]-cut[0] < n {
				c := in
				rr := *in.Run
				rr.Reqs = append([]reqIn{}, in.Run.Reqs[cut[0]:cut[1]]...)
				c.Run = &rr
				out = append(out, hx.J(c))
			}
		}
	}
	return out
}

func init() {
	hx.Register(&hx.Prop{
		ID:      "C22",
		Imports: "From Akita Require Import Lib.Base C22.Model C22.Exec.",
		Rule: "Directed: every preset of presets.go (+ the builder default) x {close,open} page policy as (a) a real dram.Comp under 40 contended " +
			"requests over <=2x2 banks x 3 rows and (b) a 120-step random-oracle run of the real bank kernels. Random: oracle runs of the real kernels " +
			"(1/3 from an arbitrary bank state incl. unreachable bank states and counters; offers of any kind, ready or not, incl. non-existent banks) and " +
			"real-component runs with random preset, geometry (1-2 ranks, 1-4 groups, 1-4 banks or preset), page policy, tFAW (preset/random/0), perturbed " +
			"timing parameters, queue configuration (unified small / split read-write with watermarks), optional short tREFI/tRFC, port buffer 1-8, " +
			"8-47 reads/writes (4 B..one access unit, some straddling two units) concentrated on 1-5 hot banks x 2-4 rows. " +
			"Plus runs whose requester does NOT wait between accesses to the same bytes (program order defines the expected data; recorded finding: the scheduler keeps no same-address order). " +
			"Non-trivial: a run with >=6 issued commands on >=2 banks incl. >=2 activates; a clean kernel run with >=3 issues incl. a precharge; an arbitrary-state kernel run with >=1 issue.",
		Gen: gen, Run: run, Shrink: shrink,
	})
}
