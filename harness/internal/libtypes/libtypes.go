// Package libtypes enumerates, from the real packages, every message type of every
// protocol defined with messaging.DefineProtocol, every event type registered with
// timing.RegisterEvent, and the Spec/State types of every library component built with
// modeling.NewBuilder. ScanRepo cross-checks the tables below against the source tree so
// that a new protocol / event / component cannot be forgotten silently.
package libtypes

import (
	"bytes"
	"fmt"
	"os"
	"path/filepath"
	"reflect"
	"regexp"
	"sort"
	"strings"

	"github.com/sarchlab/akita/v5/mem/acceptancetests/memaccessagent"
	"github.com/sarchlab/akita/v5/mem/cache/writeback"
	"github.com/sarchlab/akita/v5/mem/cache/writethroughcache"
	"github.com/sarchlab/akita/v5/mem/datamover"
	"github.com/sarchlab/akita/v5/mem/datamoverprotocol"
	"github.com/sarchlab/akita/v5/mem/dram"
	"github.com/sarchlab/akita/v5/mem/idealmemcontroller"
	"github.com/sarchlab/akita/v5/mem/memcontrolprotocol"
	"github.com/sarchlab/akita/v5/mem/memprotocol"
	"github.com/sarchlab/akita/v5/mem/rob"
	"github.com/sarchlab/akita/v5/mem/simplebankedmemory"
	"github.com/sarchlab/akita/v5/mem/vm/addresstranslator"
	"github.com/sarchlab/akita/v5/mem/vm/gmmu"
	"github.com/sarchlab/akita/v5/mem/vm/mmu"
	"github.com/sarchlab/akita/v5/mem/vm/mmuCache"
	"github.com/sarchlab/akita/v5/mem/vm/tlb"
	"github.com/sarchlab/akita/v5/mem/vm/vmprotocol"
	"github.com/sarchlab/akita/v5/messaging"
	"github.com/sarchlab/akita/v5/modeling"
	"github.com/sarchlab/akita/v5/noc/acceptance"
	"github.com/sarchlab/akita/v5/noc/directconnection"
	"github.com/sarchlab/akita/v5/noc/networking/switching/endpoint"
	"github.com/sarchlab/akita/v5/noc/networking/switching/switches"
	"github.com/sarchlab/akita/v5/noc/packetization"
	"github.com/sarchlab/akita/v5/timing"
)

// Entry is one library type whose values are checkpointed.
type Entry struct {
	Name string // unique: kind:pkgpath.Type
	Kind string // msg | event | state | spec
	Type reflect.Type
	// Via round-trips a State through a real modeling.Component checkpoint (state entries only).
	// prior, when valid, is the State the REBUILT component holds before LoadCheckpoint (a builder
	// may seed it): loading must replace it, not merge into it.
	Via func(state, prior reflect.Value) (reflect.Value, error)
}

// protocols lists the exported protocol variables; keyed by protocol name.
var protocols = map[string]*messaging.Protocol{
	"packetization":  packetization.Protocol,
	"noc.acceptance": acceptance.Protocol,
	"datamover":      datamoverprotocol.Protocol,
	"mem":            memprotocol.Protocol,
	"vm":             vmprotocol.Protocol,
	"mem.control":    memcontrolprotocol.Protocol,
}

// events lists the zero values passed to timing.RegisterEvent, keyed by the source text
// of the call argument.
var events = map[string]timing.Event{
	"EventBase{}":       timing.EventBase{},
	"TickEvent{}":       modeling.TickEvent{},
	"TimerFiredEvent{}": modeling.TimerFiredEvent{},
}

type compEntry struct {
	dir   string
	spec  reflect.Type
	state reflect.Type
	via   func(reflect.Value, reflect.Value) (reflect.Value, error)
}

func via[S, T any]() func(reflect.Value, reflect.Value) (reflect.Value, error) {
	return func(st, prior reflect.Value) (reflect.Value, error) {
		mk := func() *modeling.Component[S, T, modeling.None] {
			var spec S
			return modeling.NewBuilder[S, T, modeling.None]().
				WithEngine(timing.NewSerialEngine()).WithFreq(1 * timing.GHz).WithSpec(spec).Build("C")
		}
		a := mk()
		a.State = st.Interface().(T)
		var buf bytes.Buffer
		if err := a.SaveCheckpoint(&buf); err != nil {
			return reflect.Value{}, err
		}
		b := mk()
		if prior.IsValid() {
			b.State = prior.Interface().(T)
		}
		if err := b.LoadCheckpoint(&buf); err != nil {
			return reflect.Value{}, err
		}
		out := reflect.New(reflect.TypeOf(b.State)).Elem()
		out.Set(reflect.ValueOf(b.State))
		return out, nil
	}
}

func comp[S, T any](dir string) compEntry {
	var s S
	var t T
	return compEntry{dir, reflect.TypeOf(s), reflect.TypeOf(t), via[S, T]()}
}

// components lists every non-example package that calls modeling.NewBuilder.
var components = []compEntry{
	comp[endpoint.Spec, endpoint.State]("noc/networking/switching/endpoint"),
	comp[switches.Spec, switches.State]("noc/networking/switching/switches"),
	comp[directconnection.Spec, directconnection.State]("noc/directconnection"),
	comp[memaccessagent.Spec, memaccessagent.State]("mem/acceptancetests/memaccessagent"),
	comp[writeback.Spec, writeback.State]("mem/cache/writeback"),
	comp[writethroughcache.Spec, writethroughcache.State]("mem/cache/writethroughcache"),
	comp[rob.Spec, rob.State]("mem/rob"),
	comp[idealmemcontroller.Spec, idealmemcontroller.State]("mem/idealmemcontroller"),
	comp[tlb.Spec, tlb.State]("mem/vm/tlb"),
	comp[gmmu.Spec, gmmu.State]("mem/vm/gmmu"),
	comp[addresstranslator.Spec, addresstranslator.State]("mem/vm/addresstranslator"),
	comp[mmu.Spec, mmu.State]("mem/vm/mmu"),
	comp[mmuCache.Spec, mmuCache.State]("mem/vm/mmuCache"),
	comp[simplebankedmemory.Spec, simplebankedmemory.State]("mem/simplebankedmemory"),
	comp[dram.Spec, dram.State]("mem/dram"),
	comp[datamover.Spec, datamover.State]("mem/datamover"),
}

func typeName(t reflect.Type) string {
	p := strings.TrimPrefix(t.PkgPath(), "github.com/sarchlab/akita/v5/")
	return p + "." + t.Name()
}

// All returns every library type, sorted by name.
func All() []Entry {
	var out []Entry
	seen := map[string]bool{}
	add := func(e Entry) {
		if !seen[e.Name] {
			seen[e.Name] = true
			out = append(out, e)
		}
	}
	for _, p := range protocols {
		for _, m := range p.Messages() {
			t := reflect.TypeOf(m)
			add(Entry{Name: "msg:" + typeName(t), Kind: "msg", Type: t})
		}
	}
	for _, e := range events {
		t := reflect.TypeOf(e)
		add(Entry{Name: "event:" + typeName(t), Kind: "event", Type: t})
	}
	for _, c := range components {
		add(Entry{Name: "spec:" + typeName(c.spec), Kind: "spec", Type: c.spec})
		add(Entry{Name: "state:" + typeName(c.state), Kind: "state", Type: c.state, Via: c.via})
	}
	sort.Slice(out, func(i, j int) bool { return out[i].Name < out[j].Name })
	return out
}

// Lookup finds an entry by name.
func Lookup(name string) *Entry {
	for _, e := range All() {
		if e.Name == name {
			e := e
			return &e
		}
	}
	return nil
}

var (
	reProto = regexp.MustCompile(`DefineProtocol\(\s*"([^"]+)"`)
	reEvent = regexp.MustCompile(`RegisterEvent\(\s*(?:\w+\.)?(\w+\{\})\s*\)`)
	reBuild = regexp.MustCompile(`modeling\.NewBuilder\[\s*([\w.]+)\s*,\s*([\w.]+)\s*,`)
)

// ScanRepo greps the source tree for DefineProtocol / RegisterEvent / modeling.NewBuilder
// call sites (non-test files outside examples/ and doc) and reports every site the tables
// above do not cover, and every table row without a site.
func ScanRepo(root string) []string {
	var problems []string
	foundProto, foundEvent, foundComp := map[string]bool{}, map[string]bool{}, map[string]bool{}
	filepath.Walk(root, func(path string, info os.FileInfo, err error) error {
		if err != nil {
			return nil
		}
		rel, _ := filepath.Rel(root, path)
		if info.IsDir() {
			switch {
			case rel == "examples", rel == "doc", rel == "doc-site", strings.HasPrefix(info.Name(), ".") && rel != ".",
				info.Name() == "node_modules", info.Name() == "testdata":
				return filepath.SkipDir
			}
			return nil
		}
		if !strings.HasSuffix(path, ".go") || strings.HasSuffix(path, "_test.go") {
			return nil
		}
		src, err := os.ReadFile(path)
		if err != nil {
			return nil
		}
		var code []string
		for _, line := range strings.Split(string(src), "\n") {
			if !strings.HasPrefix(strings.TrimSpace(line), "//") {
				code = append(code, line)
			}
		}
		text := strings.Join(code, "\n")
		for _, m := range reProto.FindAllStringSubmatch(text, -1) {
			foundProto[m[1]] = true
			if protocols[m[1]] == nil {
				problems = append(problems, fmt.Sprintf("%s: protocol %q is not in the translator table", rel, m[1]))
			}
		}
		for _, m := range reEvent.FindAllStringSubmatch(text, -1) {
			foundEvent[m[1]] = true
			if events[m[1]] == nil {
				problems = append(problems, fmt.Sprintf("%s: event %s is not in the translator table", rel, m[1]))
			}
		}
		if strings.Contains(text, "RegisterEvent(") && !strings.HasSuffix(rel, "timing/eventcodec.go") &&
			len(reEvent.FindAllStringSubmatch(text, -1)) != strings.Count(text, "RegisterEvent(") {
			problems = append(problems, fmt.Sprintf("%s: RegisterEvent call with an argument the translator cannot read", rel))
		}
		for _, m := range reBuild.FindAllStringSubmatch(text, -1) {
			dir := filepath.ToSlash(filepath.Dir(rel))
			foundComp[dir] = true
			ok := false
			for _, c := range components {
				if c.dir == dir {
					ok = true
				}
			}
			if !ok && !strings.Contains(dir, "acceptancetests/pagemigration") {
				problems = append(problems, fmt.Sprintf("%s: component %s/%s is not in the translator table", rel, m[1], m[2]))
			}
		}
		return nil
	})
	for name := range protocols {
		if !foundProto[name] {
			problems = append(problems, fmt.Sprintf("protocol %q of the translator table has no DefineProtocol site", name))
		}
	}
	for name := range events {
		if !foundEvent[name] {
			problems = append(problems, fmt.Sprintf("event %s of the translator table has no RegisterEvent site", name))
		}
	}
	for _, c := range components {
		if !foundComp[c.dir] {
			problems = append(problems, fmt.Sprintf("component %s of the translator table has no modeling.NewBuilder site", c.dir))
		}
	}
	sort.Strings(problems)
	return problems
}
