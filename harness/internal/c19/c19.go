// Package c19 ties the Coq model of mem/cache/directory_ops.go to the
// implementation (exact, kernel by kernel) and evaluates the Coq predicate
// dir_wf on directory states sampled from real write-back / write-through
// caches running random workloads and control histories.
package c19

import (
	"encoding/json"
	"fmt"

	"github.com/sarchlab/akita/v5/mem/cache"
	"github.com/sarchlab/akita/v5/mem/vm"

	"verifharness/internal/hx"
	"verifharness/internal/memasm"
)

type input struct {
	Kind string                `json:"kind"` // setid|lookup|victim|visit|reset|asm
	Dir  *cache.DirectoryState `json:"dir,omitempty"`
	NS   uint64                `json:"ns,omitempty"`
	BS   uint64                `json:"bs,omitempty"`
	Ways uint64                `json:"ways,omitempty"`
	PID  uint32                `json:"pid,omitempty"`
	Addr uint64                `json:"addr,omitempty"`
	Set  int64                 `json:"set,omitempty"`
	Way  int64                 `json:"way,omitempty"`
	// asm
	Cfg   *memasm.Config `json:"cfg,omitempty"`
	Every int            `json:"every,omitempty"`
	// Dense: the directory is sampled after EVERY handled event and every
	// distinct state is kept (directed window sweeps on small directories).
	Dense bool `json:"dense,omitempty"`
}

type obs struct {
	Panicked bool   `json:"panicked,omitempty"`
	Msg      string `json:"msg,omitempty"`
	Set      int    `json:"set"`
	Way      int    `json:"way"`
	Found    bool   `json:"found"`
	Samples  int    `json:"samples,omitempty"`
	Events   int    `json:"events,omitempty"`
	Pending  int    `json:"pending,omitempty"`
}

const maxSnaps = 48
const maxDense = 700

func runAsm(in input) (hx.Case, error) {
	a := memasm.Build(*in.Cfg)
	every := in.Every
	if every < 1 {
		every = 1
	}
	var snaps, hinted []memasm.DirSnapshot
	nSampled := 0
	take := func() {
		for _, s := range a.Dirs() {
			dup := false
			for k := len(snaps) - 1; k >= 0 && k >= len(snaps)-len(a.Cfg.Caches); k-- {
				if snaps[k].Level == s.Level && memasm.DirEqual(snaps[k].Dir, s.Dir) {
					dup = true
				}
			}
			if !dup {
				snaps = append(snaps, s)
			}
		}
		nSampled++
		if in.Dense {
			return
		}
		if len(snaps) >= maxSnaps { // decimate: the samples keep covering the whole run
			k := 0
			for i := 0; i < len(snaps); i += 2 {
				snaps[k] = snaps[i]
				k++
			}
			snaps = snaps[:k]
			every *= 2
		}
	}
	a.OnEvent(func(n int) {
		if in.Dense {
			if len(snaps) < maxDense {
				take()
			}
		} else if n%every == 0 {
			take()
		}
		// hint: a plain-Go replica of dir_wf looks at EVERY state; a state it
		// dislikes is added to the samples (the verdict is still Coq's dir_wf)
		if len(hinted) < 3 {
			for _, s := range a.Dirs() {
				if !goWf(s) {
					hinted = append(hinted, s)
				}
			}
		}
	})
	o := obs{}
	o.Panicked, o.Msg = hx.Try(func() { a.Run() })
	take()
	snaps = append(snaps, hinted...)
	o.Samples = len(snaps)
	o.Pending = a.Pending()
	o.Events = len(a.Agent.Log)
	terms := make([]string, len(snaps))
	for i, s := range snaps {
		terms[i] = hx.T(hx.N(uint64(s.NumSets)), hx.N(uint64(s.Ways)), hx.N(uint64(s.BlockSize)), memasm.CoqDir(s.Dir, false))
	}
	c := hx.Case{Obs: o, Coq: hx.App("Snaps", hx.B(o.Panicked), hx.L(terms))}
	nctrl := 0
	for _, op := range in.Cfg.Script {
		if op.Kind == "C" {
			nctrl++
		}
	}
	for _, cc := range in.Cfg.Caches {
		c.Tags = append(c.Tags, "asm:"+cc.Kind)
	}
	if nctrl > 0 {
		c.Tags = append(c.Tags, "asm:with-control")
	}
	if in.Dense {
		c.Tags = append(c.Tags, "asm:window-sweep")
	}
	// non-trivial: at least 8 distinct directory states were observed
	c.Nontrivial = len(snaps) >= 8
	return c, nil
}

// goWf replicates Model.dir_wf (used only to pick extra samples).
func goWf(s memasm.DirSnapshot) bool {
	if len(s.Dir.Sets) != s.NumSets {
		return false
	}
	for i, set := range s.Dir.Sets {
		if len(set.Blocks) != s.Ways || len(set.LRUOrder) != s.Ways {
			return false
		}
		cnt := make([]int, s.Ways)
		for _, w := range set.LRUOrder {
			if w < 0 || w >= s.Ways {
				return false
			}
			cnt[w]++
		}
		for _, c := range cnt {
			if c != 1 {
				return false
			}
		}
		for a, x := range set.Blocks {
			if x.ReadCount < 0 {
				return false
			}
			if !x.IsValid {
				continue
			}
			if cache.DirectorySetID(x.Tag, s.BlockSize, s.NumSets) != i || x.Tag%uint64(s.BlockSize) != 0 {
				return false
			}
			for b := a + 1; b < len(set.Blocks); b++ {
				y := set.Blocks[b]
				if y.IsValid && x.Tag == y.Tag && x.PID == y.PID {
					return false
				}
			}
		}
	}
	return true
}

func run(raw json.RawMessage) (hx.Case, error) {
	var in input
	if err := hx.UJ(raw, &in); err != nil {
		return hx.Case{}, err
	}
	if in.Kind == "asm" {
		return runAsm(in)
	}
	var c hx.Case
	o := obs{}
	c.Tags = []string{"kernel:" + in.Kind}
	switch in.Kind {
	case "setid":
		o.Panicked, o.Msg = hx.Try(func() { o.Set = cache.DirectorySetID(in.Addr, int(in.BS), int(in.NS)) })
		out := hx.None()
		if !o.Panicked {
			out = hx.Some(hx.Z(int64(o.Set)))
		}
		c.Coq = hx.App("KSetId", hx.N(in.Addr), hx.N(in.BS), hx.N(in.NS), out)
		c.Nontrivial = !o.Panicked && in.NS > 1
	case "lookup":
		d := memasm.CopyDir(*in.Dir)
		o.Panicked, o.Msg = hx.Try(func() {
			o.Set, o.Way, o.Found = cache.DirectoryLookup(&d, int(in.NS), int(in.BS), vm.PID(in.PID), in.Addr)
		})
		out := hx.None()
		if !o.Panicked {
			out = hx.Some(hx.T(hx.Z(int64(o.Set)), hx.Z(int64(o.Way)), hx.B(o.Found)))
		}
		c.Coq = hx.App("KLookup", memasm.CoqDir(*in.Dir, true), hx.N(in.NS), hx.N(in.BS), hx.N(uint64(in.PID)), hx.N(in.Addr), out)
		c.Nontrivial = !o.Panicked
		if o.Found {
			c.Tags = append(c.Tags, "lookup:hit")
		} else {
			c.Tags = append(c.Tags, "lookup:miss")
		}
	case "victim":
		d := memasm.CopyDir(*in.Dir)
		o.Panicked, o.Msg = hx.Try(func() {
			o.Set, o.Way = cache.DirectoryFindVictim(&d, int(in.NS), int(in.BS), in.Addr)
		})
		out := hx.None()
		if !o.Panicked {
			out = hx.Some(hx.T(hx.Z(int64(o.Set)), hx.Z(int64(o.Way))))
			b := in.Dir.Sets[o.Set].Blocks[o.Way]
			if b.IsLocked || b.ReadCount != 0 {
				c.Tags = append(c.Tags, "victim:all-busy-fallback")
			} else {
				c.Tags = append(c.Tags, "victim:free-way")
			}
		} else {
			c.Tags = append(c.Tags, "victim:panic")
		}
		c.Coq = hx.App("KVictim", memasm.CoqDir(*in.Dir, true), hx.N(in.NS), hx.N(in.BS), hx.N(in.Addr), out)
		c.Nontrivial = !o.Panicked
	case "visit":
		d := memasm.CopyDir(*in.Dir)
		o.Panicked, o.Msg = hx.Try(func() { cache.DirectoryVisit(&d, int(in.Set), int(in.Way)) })
		out := hx.None()
		if !o.Panicked {
			out = hx.Some(memasm.CoqDir(d, true))
		}
		c.Coq = hx.App("KVisit", memasm.CoqDir(*in.Dir, true), hx.Z(in.Set), hx.Z(in.Way), out)
		c.Nontrivial = !o.Panicked
	case "reset":
		var d cache.DirectoryState
		o.Panicked, o.Msg = hx.Try(func() { cache.DirectoryReset(&d, int(in.NS), int(in.Ways), int(in.BS)) })
		if o.Panicked {
			return c, fmt.Errorf("reset panicked: %s", o.Msg)
		}
		c.Coq = hx.App("KReset", hx.N(in.NS), hx.N(in.Ways), hx.N(in.BS), memasm.CoqDir(d, true))
		c.Nontrivial = in.NS*in.Ways > 1
	default:
		return c, fmt.Errorf("unknown kind %q", in.Kind)
	}
	c.Obs = o
	return c, nil
}

// ctrlize sprinkles control histories over a data script: legal orders
// (pause|drain, then invalidate|flush with random filters, then enable) and
// resets, issued among live traffic (no barrier) or at a barrier.
func ctrlize(r *hx.Rand, cfg *memasm.Config) {
	if len(cfg.Caches) == 0 {
		return
	}
	var out []memasm.Op
	lines := []uint64{}
	for _, op := range cfg.Script {
		lines = append(lines, op.Addr)
	}
	for i, op := range cfg.Script {
		out = append(out, op)
		if i > 3 && r.Chance(1, 14) {
			tgt := fmt.Sprintf("L%d", r.Intn(len(cfg.Caches)))
			bar := r.Chance(1, 3)
			mk := func(cmd string) memasm.Op {
				o := memasm.Op{Kind: "C", Cmd: cmd, Target: tgt, Barrier: bar && cmd != "enable"}
				if r.Chance(1, 3) {
					o.Delay = r.Intn(20)
				}
				return o
			}
			switch r.Pick(3, 3, 2, 1) {
			case 0, 1:
				first := "pause"
				if r.Bool() {
					first = "drain"
				}
				out = append(out, mk(first))
				n := 1 + r.Intn(2)
				for k := 0; k < n; k++ {
					verb := "invalidate"
					if r.Bool() {
						verb = "flush"
					}
					o := mk(verb)
					switch r.Intn(3) {
					case 1:
						for q := 0; q < 1+r.Intn(3); q++ {
							o.Addrs = append(o.Addrs, lines[r.Intn(len(lines))])
						}
					case 2:
						o.FPID = uint32(1 + r.Intn(2))
					}
					out = append(out, o)
				}
				out = append(out, mk("enable"))
			case 2:
				out = append(out, mk("reset"))
			default:
				out = append(out, mk("pause"), mk("enable"))
			}
		}
	}
	cfg.Script = out
}

// windowSweep builds a directed run: pairs of accesses to the SAME line
// (different bytes, so both may be in flight), the second issued g agent ticks
// after the first, g sweeping every value of 0..maxGap, each pair on a fresh
// line. With recool, the cache is paused, fully invalidated and re-enabled at a
// barrier before every pair, so that the first access of every pair lands in
// an invalid way (otherwise only the first pairs find the cache cold). With
// ctrlInWindow the pause / invalidate / enable is issued inside the window
// (between the two accesses, among the live fill) instead.
func windowSweep(r *hx.Rand, kind string, recool, ctrlInWindow bool) memasm.Config {
	lb := uint64(4 + r.Intn(3))
	line := uint64(1) << lb
	cc := memasm.RandomCache(r, kind, lb)
	cc.BankLatency = []int{1, 2, 5, 8}[r.Intn(4)]
	cc.PortBuf = 4
	cc.MSHR = 2 + r.Intn(3)
	if recool || ctrlInWindow {
		cc.Sets, cc.Ways = 1+r.Intn(2), 2
	} else {
		cc.Sets, cc.Ways = 8, 4
	}
	m := memasm.MemCfg{Kind: "ideal", NumModules: 1, Latency: []int{0, 1, 3}[r.Intn(3)], Width: 2, PortBuf: 4}
	if r.Chance(1, 4) {
		m = memasm.RandomMem(r, "banked", 64)
		m.NumModules = 1
	}
	cfg := memasm.Config{Caches: []memasm.CacheCfg{cc}, Mem: m,
		Agent: memasm.AgentCfg{MaxInflight: 4, IssueWidth: 1, PortBuf: 4}}
	maxGap := 14 + cc.DirLatency + cc.BankLatency + 2*m.Latency + m.PipeDepth*m.StageLatency
	base := []uint64{0, 0x4000, 0xfff00000}[r.Intn(3)]
	mkop := func(addr uint64, write bool) memasm.Op {
		if !write {
			return memasm.Op{Kind: "R", Addr: addr, Size: 1 + r.U64n(4)}
		}
		n := 1 + r.Intn(4)
		d := r.Bytes(n)
		return memasm.Op{Kind: "W", Addr: addr, Data: d}
	}
	for g := 0; g <= maxGap; g++ {
		la := base + uint64(g)*line*uint64(1+r.Intn(3))
		if recool {
			cfg.Script = append(cfg.Script,
				memasm.Op{Kind: "C", Cmd: "pause", Target: "L0", Barrier: true},
				memasm.Op{Kind: "C", Cmd: "invalidate", Target: "L0", Barrier: true},
				memasm.Op{Kind: "C", Cmd: "enable", Target: "L0", Barrier: true})
		}
		first := mkop(la, r.Chance(1, 3))
		first.Barrier = true
		second := mkop(la+line/2+r.U64n(line/2-4), r.Chance(1, 3))
		if ctrlInWindow {
			second.Delay = r.Intn(4)
			cfg.Script = append(cfg.Script, first,
				memasm.Op{Kind: "C", Cmd: "pause", Target: "L0", Delay: g},
				memasm.Op{Kind: "C", Cmd: "invalidate", Target: "L0"},
				memasm.Op{Kind: "C", Cmd: "enable", Target: "L0"},
				second)
		} else {
			second.Delay = g
			cfg.Script = append(cfg.Script, first, second)
		}
	}
	return cfg
}

func gen(r *hx.Rand, tier string) []json.RawMessage {
	nk, na := 90, 70
	if tier == "thorough" {
		nk, na = 1500, 1200
	}
	var out []json.RawMessage
	add := func(in input) { out = append(out, hx.J(in)) }
	// directed: reset geometries, set ids at boundaries
	for _, g := range [][3]uint64{{1, 1, 64}, {1, 4, 64}, {4, 1, 16}, {2, 2, 32}, {8, 4, 64}, {3, 5, 128}} {
		add(input{Kind: "reset", NS: g[0], Ways: g[1], BS: g[2]})
	}
	for _, a := range []uint64{0, 63, 64, 1 << 32, ^uint64(0), ^uint64(0) - 63} {
		for _, ns := range []uint64{1, 2, 3, 64, 4096} {
			add(input{Kind: "setid", Addr: a, BS: 64, NS: ns})
		}
	}
	add(input{Kind: "setid", Addr: 5, BS: 0, NS: 4})
	add(input{Kind: "setid", Addr: 5, BS: 64, NS: 0})
	for i := 0; i < nk; i++ {
		ns, ways := 1+r.Intn(4), 1+r.Intn(4)
		bs := []int{16, 32, 64}[r.Intn(3)]
		for _, kind := range []string{"lookup", "victim", "visit", "setid"} {
			malformed := r.Chance(1, 6)
			d := memasm.RandomDir(r, ns, ways, bs, malformed)
			in := input{Kind: kind, Dir: &d, NS: uint64(ns), BS: uint64(bs)}
			// an address: that of an existing block (3/4) or fresh
			s := d.Sets[r.Intn(ns)]
			b := s.Blocks[r.Intn(ways)]
			in.Addr, in.PID = b.Tag, b.PID
			if r.Chance(1, 4) {
				in.Addr = uint64(r.Intn(64)) * uint64(bs)
				in.PID = uint32(r.Intn(3))
			}
			if r.Chance(1, 8) {
				in.PID = uint32(r.Intn(3))
			}
			if kind == "setid" {
				in.Dir = nil
				in.Addr = r.U64()
				in.NS = 1 + r.U64n(5000)
				in.BS = uint64(1) << uint(r.Intn(8))
				if r.Chance(1, 4) {
					in.BS = 1 + r.U64n(300)
				}
			}
			if kind == "visit" {
				in.Set, in.Way = int64(r.Intn(ns)), int64(r.Intn(ways))
				if r.Chance(1, 12) {
					in.Set = int64(ns + r.Intn(2))
				}
				if r.Chance(1, 12) {
					in.Way = int64(ways + r.Intn(2))
				}
				if r.Chance(1, 20) {
					in.Set = -1
				}
			}
			if malformed && r.Chance(1, 5) && kind != "setid" {
				in.NS = uint64(ns + 1) // more sets claimed than present: index panic
			}
			add(in)
		}
	}
	kinds := []string{"writeback", "write-around", "write-evict", "write-through"}
	for i := 0; i < na; i++ {
		o := memasm.GenOpts{MinCaches: 1, MaxCaches: 2, AllowROB: i%5 == 0, NOps: 40 + r.Intn(60), PIDs: i % 3,
			TopKind: kinds[i%4], MemKinds: []string{"ideal", "ideal", "banked", "dram"}}
		cfg := memasm.RandomConfig(r, o)
		if i%2 == 1 {
			ctrlize(r, &cfg)
		}
		add(input{Kind: "asm", Cfg: &cfg, Every: 1 + r.Intn(12)})
	}
	// directed window sweeps: every gap between a miss and a same-line re-access, cold and re-cooled caches
	nw := 2
	if tier == "thorough" {
		nw = 12
	}
	for i := 0; i < nw; i++ {
		for _, k := range kinds {
			for v := 0; v < 3; v++ {
				cfg := windowSweep(r, k, v == 1, v == 2)
				add(input{Kind: "asm", Cfg: &cfg, Every: 1, Dense: true})
			}
		}
	}
	return out
}

func shrink(raw json.RawMessage) []json.RawMessage {
	var in input
	if hx.UJ(raw, &in) != nil || in.Kind != "asm" {
		return nil
	}
	var out []json.RawMessage
	n := len(in.Cfg.Script)
	for _, chunk := range []int{n / 2, n / 4, n / 8, 2, 1} {
		if chunk < 1 {
			continue
		}
		for i := 0; i+chunk <= n; i += chunk {
			c2 := *in.Cfg
			c2.Script = append(append([]memasm.Op{}, in.Cfg.Script[:i]...), in.Cfg.Script[i+chunk:]...)
			in2 := in
			in2.Cfg = &c2
			in2.Every = 1
			out = append(out, hx.J(in2))
			if len(out) > 60 {
				return out
			}
		}
	}
	return out
}

func init() {
	hx.Register(&hx.Prop{
		ID:      "C19",
		Imports: "From Akita Require Import Lib.Base C19.Model C19.Exec.",
		Rule: "kernel ties: DirectorySetID/Lookup/FindVictim/Visit/Reset called on random directory states (1-4 sets x 1-4 ways, " +
			"mostly well-formed: valid blocks in their home set, permutation LRU lists; 1/6 malformed LRU lists / set counts -> panic outcomes; " +
			"1/6 with a fully busy set). asm: dir_wf evaluated on directory snapshots of real write-back/write-around/write-evict/write-through " +
			"caches (1-2 levels over ideal/banked/DRAM) sampled every 1..12 engine events of a random workload (40-100 ops, masks, PIDs 0..2), " +
			"half of them with control histories (pause|drain -> invalidate|flush with filters -> enable, reset) among live traffic. " +
			"window sweeps (dense: dir_wf on EVERY distinct state after every handled event): pairs of same-line, different-byte accesses, the second issued g ticks " +
			"after the first for every g in 0..(fill latency + bank latency + margin), on a cold 8x4 cache, on a 1-2x2 cache paused+invalidated+enabled before every pair, " +
			"and with the pause/invalidate/enable issued inside the window; all four cache kinds, bank latency 1/2/5/8. " +
			"Non-trivial: kernel call that did not panic / run with >= 8 distinct directory states. Distinct = distinct input hash.",
		Gen: gen, Run: run, Shrink: shrink,
	})
}
