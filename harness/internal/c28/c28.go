// Package c28 ties the Coq model of mem/vm/lruset (lruset.go, lruset_json.go) to
// the implementation: operation histories on real Sets, every result recorded,
// JSON snapshots decoded field by field.
package c28

import (
	"bytes"
	"encoding/json"
	"fmt"
	"sort"
	"strings"
	"unicode/utf8"

	"github.com/sarchlab/akita/v5/mem/vm/lruset"

	"verifharness/internal/hx"
)

// ---------------------------------------------------------------- input

type kvIn struct {
	K []int `json:"k"`
	V int64 `json:"v"`
}

// dtoIn is a JSON snapshot given as input (start "json"): nil pointers are null.
type dtoIn struct {
	WayCount   int64     `json:"way_count"`
	VisitList  *[]int64  `json:"visit_list"`
	VisitCount uint64    `json:"visit_count"`
	LastVisits *[]uint64 `json:"last_visits"`
	KeyMap     *[]kvIn   `json:"key_map"` // entries in textual order, duplicates allowed
}

type opIn struct {
	Op  string `json:"op"` // lookup update remove evict visit json keystr
	Way int64  `json:"way,omitempty"`
	K   []int  `json:"k,omitempty"`   // key bytes (lookup, remove, update: new key)
	Old []int  `json:"old,omitempty"` // update: old key
	A   uint64 `json:"a,omitempty"`
	B   uint64 `json:"b,omitempty"`
}

type input struct {
	Start string `json:"start"` // new | json | zero
	Ways  int64  `json:"ways,omitempty"`
	DTO   *dtoIn `json:"dto,omitempty"`
	Ops   []opIn `json:"ops"`
	Tag   string `json:"tag,omitempty"`
}

func kstr(k []int) string {
	b := make([]byte, len(k))
	for i, x := range k {
		b[i] = byte(x)
	}
	return string(b)
}

func kints(s string) []int {
	out := make([]int, len(s))
	for i := 0; i < len(s); i++ {
		out[i] = int(s[i])
	}
	return out
}

// ---------------------------------------------------------------- observed

// obsDTO is the implementation's MarshalJSON output decoded field by field.
type obsDTO struct {
	WayCount   int64     `json:"way_count"`
	VisitList  *[]int64  `json:"visit_list"`
	VisitCount uint64    `json:"visit_count"`
	LastVisits *[]uint64 `json:"last_visits"`
	KeyMap     *[]kvIn   `json:"key_map"`
}

type obsOut struct {
	Kind  string  `json:"kind"` // lookup done panic evict json key
	Way   int64   `json:"way,omitempty"`
	Flag  bool    `json:"flag,omitempty"`
	DTO   *obsDTO `json:"dto,omitempty"`
	Key   []int   `json:"key,omitempty"`
	Panic string  `json:"panic,omitempty"`
}

type obs struct {
	InitOK bool     `json:"init_ok"`
	Outs   []obsOut `json:"outs"`
	Final  *obsDTO  `json:"final"`
}

func parseSnapshot(b []byte) (*obsDTO, error) {
	var top map[string]json.RawMessage
	if err := json.Unmarshal(b, &top); err != nil {
		return nil, err
	}
	want := []string{"key_map", "last_visits", "visit_count", "visit_list", "way_count"}
	if len(top) != len(want) {
		return nil, fmt.Errorf("snapshot has %d fields: %s", len(top), string(b))
	}
	for _, w := range want {
		if _, ok := top[w]; !ok {
			return nil, fmt.Errorf("snapshot lacks %s: %s", w, string(b))
		}
	}
	d := &obsDTO{}
	if err := json.Unmarshal(top["way_count"], &d.WayCount); err != nil {
		return nil, err
	}
	if err := json.Unmarshal(top["visit_count"], &d.VisitCount); err != nil {
		return nil, err
	}
	if s := strings.TrimSpace(string(top["visit_list"])); s != "null" {
		v := []int64{}
		if err := json.Unmarshal(top["visit_list"], &v); err != nil {
			return nil, err
		}
		d.VisitList = &v
	}
	if s := strings.TrimSpace(string(top["last_visits"])); s != "null" {
		v := []uint64{}
		if err := json.Unmarshal(top["last_visits"], &v); err != nil {
			return nil, err
		}
		d.LastVisits = &v
	}
	if s := strings.TrimSpace(string(top["key_map"])); s != "null" {
		es := []kvIn{}
		dec := json.NewDecoder(bytes.NewReader(top["key_map"]))
		tok, err := dec.Token()
		if err != nil {
			return nil, err
		}
		if dl, ok := tok.(json.Delim); !ok || dl != '{' {
			return nil, fmt.Errorf("key_map is not an object: %s", string(top["key_map"]))
		}
		for dec.More() {
			kt, err := dec.Token()
			if err != nil {
				return nil, err
			}
			ks, ok := kt.(string)
			if !ok {
				return nil, fmt.Errorf("key_map key is not a string")
			}
			var v int64
			if err := dec.Decode(&v); err != nil {
				return nil, err
			}
			es = append(es, kvIn{K: kints(ks), V: v})
		}
		d.KeyMap = &es
	}
	return d, nil
}

// snapshotText writes the JSON text of an input snapshot (entries in the given order).
func snapshotText(d *dtoIn) []byte {
	var sb strings.Builder
	fmt.Fprintf(&sb, `{"way_count":%d,"visit_list":`, d.WayCount)
	if d.VisitList == nil {
		sb.WriteString("null")
	} else {
		sb.Write(hx.J(*d.VisitList))
	}
	fmt.Fprintf(&sb, `,"visit_count":%d,"last_visits":`, d.VisitCount)
	if d.LastVisits == nil {
		sb.WriteString("null")
	} else {
		sb.Write(hx.J(*d.LastVisits))
	}
	sb.WriteString(`,"key_map":`)
	if d.KeyMap == nil {
		sb.WriteString("null")
	} else {
		sb.WriteString("{")
		for i, e := range *d.KeyMap {
			if i > 0 {
				sb.WriteString(",")
			}
			sb.Write(hx.J(kstr(e.K)))
			fmt.Fprintf(&sb, ":%d", e.V)
		}
		sb.WriteString("}")
	}
	sb.WriteString("}")
	return []byte(sb.String())
}

// ---------------------------------------------------------------- Coq printing

func coqZs(xs []int64) string {
	s := make([]string, len(xs))
	for i, x := range xs {
		s[i] = hx.Z(x)
	}
	return hx.L(s)
}

func coqKey(k []int) string {
	s := make([]string, len(k))
	for i, x := range k {
		s[i] = fmt.Sprintf("%d", x)
	}
	return hx.L(s)
}

func coqKVs(es []kvIn) string {
	s := make([]string, len(es))
	for i, e := range es {
		s[i] = hx.T(coqKey(e.K), hx.Z(e.V))
	}
	return hx.L(s)
}

func coqDTO(wc int64, vl *[]int64, vc uint64, lv *[]uint64, km *[]kvIn) string {
	a := hx.None()
	if vl != nil {
		a = hx.Some(coqZs(*vl))
	}
	b := hx.None()
	if lv != nil {
		b = hx.Some(hx.LN(*lv))
	}
	c := hx.None()
	if km != nil {
		c = hx.Some(coqKVs(*km))
	}
	return hx.App("mk_dto", hx.Z(wc), a, hx.N(vc), b, c)
}

func coqObsDTO(d *obsDTO) string {
	return coqDTO(d.WayCount, d.VisitList, d.VisitCount, d.LastVisits, d.KeyMap)
}

func coqOp(o opIn) string {
	switch o.Op {
	case "lookup":
		return hx.App("OLookup", coqKey(o.K))
	case "update":
		return hx.App("OUpdateKey", hx.Z(o.Way), coqKey(o.Old), coqKey(o.K))
	case "remove":
		return hx.App("ORemove", coqKey(o.K))
	case "evict":
		return "OEvict"
	case "visit":
		return hx.App("OVisit", hx.Z(o.Way))
	case "json":
		return "OJson"
	case "keystr":
		return hx.App("OKeyString", hx.N(o.A), hx.N(o.B))
	}
	panic("bad op " + o.Op)
}

func coqOut(o obsOut) string {
	switch o.Kind {
	case "lookup":
		return hx.App("RLookup", hx.Z(o.Way), hx.B(o.Flag))
	case "done":
		return "RDone"
	case "panic":
		return "RPanic"
	case "evict":
		return hx.App("REvict", hx.Z(o.Way), hx.B(o.Flag))
	case "json":
		return hx.App("RJson", coqObsDTO(o.DTO))
	case "key":
		return hx.App("RKey", coqKey(o.Key))
	}
	panic("bad out " + o.Kind)
}

// ---------------------------------------------------------------- run

func validKey(k []int) bool { return utf8.ValidString(kstr(k)) }

func run(raw json.RawMessage) (hx.Case, error) {
	var in input
	if err := hx.UJ(raw, &in); err != nil {
		return hx.Case{}, err
	}
	var o obs
	var set *lruset.Set
	var startCoq string
	switch in.Start {
	case "new":
		startCoq = hx.App("SNew", hx.Z(in.Ways))
		p, _ := hx.Try(func() { s := lruset.NewSet(int(in.Ways)); set = &s })
		o.InitOK = !p
	case "json":
		if in.DTO == nil {
			return hx.Case{}, fmt.Errorf("start json without dto")
		}
		d := in.DTO
		startCoq = hx.App("SJson", coqDTO(d.WayCount, d.VisitList, d.VisitCount, d.LastVisits, d.KeyMap))
		var s lruset.Set
		if err := json.Unmarshal(snapshotText(d), &s); err != nil {
			return hx.Case{}, fmt.Errorf("start snapshot rejected: %v", err)
		}
		set = &s
		o.InitOK = true
	case "zero":
		startCoq = "SZero"
		var s lruset.Set
		set = &s
		o.InitOK = true
	default:
		return hx.Case{}, fmt.Errorf("bad start %q", in.Start)
	}

	c := hx.Case{}
	hits, evicts, panics, jsons, reorder := 0, 0, 0, 0, 0
	trace := []string{}
	if set != nil {
		for _, op := range in.Ops {
			var out obsOut
			var p bool
			var msg string
			switch op.Op {
			case "lookup":
				p, msg = hx.Try(func() {
					w, f := set.Lookup(kstr(op.K))
					out = obsOut{Kind: "lookup", Way: int64(w), Flag: f}
					if f {
						hits++
					}
				})
			case "update":
				p, msg = hx.Try(func() {
					set.UpdateKey(int(op.Way), kstr(op.Old), kstr(op.K))
					out = obsOut{Kind: "done"}
				})
			case "remove":
				p, msg = hx.Try(func() {
					set.Remove(kstr(op.K))
					out = obsOut{Kind: "done"}
				})
			case "evict":
				p, msg = hx.Try(func() {
					w, ok := set.Evict()
					out = obsOut{Kind: "evict", Way: int64(w), Flag: ok}
					if ok {
						evicts++
					}
				})
			case "visit":
				p, msg = hx.Try(func() {
					set.Visit(int(op.Way))
					out = obsOut{Kind: "done"}
					reorder++
				})
			case "json":
				var perr error
				p, msg = hx.Try(func() {
					b, err := json.Marshal(*set)
					if err != nil {
						perr = err
						return
					}
					d, err := parseSnapshot(b)
					if err != nil {
						perr = err
						return
					}
					var t lruset.Set
					if err := json.Unmarshal(b, &t); err != nil {
						perr = err
						return
					}
					set = &t
					out = obsOut{Kind: "json", DTO: d}
					jsons++
				})
				if perr != nil {
					return hx.Case{}, fmt.Errorf("json round trip: %v", perr)
				}
			case "keystr":
				p, msg = hx.Try(func() {
					out = obsOut{Kind: "key", Key: kints(lruset.KeyString(op.A, op.B))}
				})
			default:
				return hx.Case{}, fmt.Errorf("bad op %q", op.Op)
			}
			if p {
				out = obsOut{Kind: "panic", Panic: msg}
				panics++
			}
			o.Outs = append(o.Outs, out)
			trace = append(trace, hx.T(coqOp(op), coqOut(out)))
		}
		b, err := json.Marshal(*set)
		if err != nil {
			return hx.Case{}, fmt.Errorf("final marshal: %v", err)
		}
		d, err := parseSnapshot(b)
		if err != nil {
			return hx.Case{}, err
		}
		o.Final = d
	}
	final := hx.None()
	if o.Final != nil {
		final = hx.Some(coqObsDTO(o.Final))
	}
	c.Obs = o
	c.Coq = hx.App("mk_case", startCoq, hx.B(o.InitOK), hx.L(trace), final)

	// tags and classification (from the input shape only)
	c.Tags = append(c.Tags, "start:"+in.Start)
	if in.Tag != "" {
		c.Tags = append(c.Tags, "gen:"+in.Tag)
	}
	if in.Start == "new" {
		switch {
		case in.Ways < 0:
			c.Tags = append(c.Tags, "ways:negative")
		case in.Ways == 0:
			c.Tags = append(c.Tags, "ways:0")
		case in.Ways == 1:
			c.Tags = append(c.Tags, "ways:1")
		case in.Ways <= 4:
			c.Tags = append(c.Tags, "ways:2-4")
		case in.Ways <= 16:
			c.Tags = append(c.Tags, "ways:5-16")
		default:
			c.Tags = append(c.Tags, "ways:>16")
		}
	}
	hasJSON, badKey := false, false
	for _, op := range in.Ops {
		if op.Op == "json" {
			hasJSON = true
		}
		if op.Op == "update" && !validKey(op.K) {
			badKey = true
		}
	}
	if hasJSON {
		c.Tags = append(c.Tags, "has:json-roundtrip")
	}
	if panics > 0 {
		c.Tags = append(c.Tags, "has:panic")
	}
	if badKey {
		// every case ends with a snapshot, so a key that is not valid UTF-8 reaches
		// encoding/json whenever it is bound
		c.Tags = append(c.Tags, "has:non-utf8-key")
		c.Known = "json_non_utf8_key"
	}
	c.Nontrivial = set != nil && len(in.Ops) >= 3 && (evicts > 0 || hits > 0) && reorder > 0
	return c, nil
}

// ---------------------------------------------------------------- generators

var plainKeys = []string{"", "a", "b", "ab", "ba", "k0", "k1", "k2", "k3", "k4", "k5", "k6", "k7"}

// valid UTF-8 that exercises the JSON escaper (HTML, control, quote, U+2028, non-BMP)
var fancyKeys = []string{"<a&b>", "\x01\x1f", "q\"\\", "é", "日本", "  ", "\U0001F600", "�", "\x7f"}

// byte strings that are not valid UTF-8
var badKeys = []string{"\xff", "\xfe", "\xc3", "a\xc3", "\xed\xa0\x80", "\xc0\xaf", "\xf4\x90\x80\x80", "\xe2\x82", "\x80x"}

type gen struct {
	r   *hx.Rand
	out []json.RawMessage
}

func (g *gen) add(in input) { g.out = append(g.out, hx.J(in)) }

func (g *gen) key(pool []string) []int { return kints(pool[g.r.Intn(len(pool))]) }

func opLookup(k []int) opIn               { return opIn{Op: "lookup", K: k} }
func opUpdate(w int64, old, k []int) opIn { return opIn{Op: "update", Way: w, Old: old, K: k} }
func opRemove(k []int) opIn               { return opIn{Op: "remove", K: k} }
func opVisit(w int64) opIn                { return opIn{Op: "visit", Way: w} }

var opEvict = opIn{Op: "evict"}
var opJSON = opIn{Op: "json"}

// tlbPattern drives a Set the way mem/vm/tlb and mmuCache do: Lookup; on a hit Visit;
// on a miss Evict, UpdateKey(way, key previously held by that way, new key), Visit.
// The generator keeps its own idea of which key each way holds (as the TLB blocks do).
func (g *gen) tlbPattern(ways int64, n int, jsonEvery int) input {
	r := g.r
	in := input{Start: "new", Ways: ways, Tag: "tlb"}
	held := map[int64][]int{} // way -> key it holds (generator's bookkeeping)
	where := map[string]int64{}
	// generator-side recency list to know which way Evict will return
	order := []int64{}
	for i := int64(0); i < ways; i++ {
		order = append(order, i)
	}
	touch := func(w int64) {
		for i, x := range order {
			if x == w {
				order = append(order[:i], order[i+1:]...)
				break
			}
		}
		order = append(order, w)
	}
	npid := 1 + r.Intn(3)
	npage := 1 + r.Intn(int(ways)+3)
	for i := 0; i < n; i++ {
		pid := uint64(r.Intn(npid))
		if r.Chance(1, 4) {
			pid = []uint64{1, 11, 111}[r.Intn(3)]
		}
		va := uint64(r.Intn(npage)) << 12
		if r.Chance(1, 8) {
			va = r.U64()
		}
		k := kints(lruset.KeyString(pid, va))
		if r.Chance(1, 10) {
			in.Ops = append(in.Ops, opIn{Op: "keystr", A: pid, B: va})
		}
		in.Ops = append(in.Ops, opLookup(k))
		if w, ok := where[kstr(k)]; ok {
			in.Ops = append(in.Ops, opVisit(w))
			touch(w)
		} else if len(order) > 0 {
			w := order[0]
			order = order[1:]
			in.Ops = append(in.Ops, opEvict)
			old := held[w]
			if old == nil {
				old = kints(lruset.KeyString(0, 0)) // zero-value block, as in the TLB
			}
			delete(where, kstr(old))
			in.Ops = append(in.Ops, opUpdate(w, old, k))
			held[w] = k
			where[kstr(k)] = w
			in.Ops = append(in.Ops, opVisit(w))
			order = append(order, w)
		} else {
			in.Ops = append(in.Ops, opEvict)
		}
		if r.Chance(1, 12) && len(where) > 0 { // mmuCache-style invalidation
			in.Ops = append(in.Ops, opRemove(k))
			delete(where, kstr(k))
		}
		if jsonEvery > 0 && i%jsonEvery == jsonEvery-1 {
			in.Ops = append(in.Ops, opJSON)
		}
	}
	return in
}

// soup is a random operation mix on a small key alphabet.
func (g *gen) soup(ways int64, n int, pool []string, jsonW int) []opIn {
	r := g.r
	var ops []opIn
	way := func() int64 {
		if ways <= 0 {
			return 0
		}
		return int64(r.Intn(int(ways)))
	}
	for i := 0; i < n; i++ {
		switch r.Pick(5, 4, 2, 4, 6, jsonW) {
		case 0:
			ops = append(ops, opLookup(g.key(pool)))
		case 1:
			ops = append(ops, opUpdate(way(), g.key(pool), g.key(pool)))
		case 2:
			ops = append(ops, opRemove(g.key(pool)))
		case 3:
			ops = append(ops, opEvict)
		case 4:
			ops = append(ops, opVisit(way()))
		default:
			ops = append(ops, opJSON)
		}
	}
	// look every plain key up at the end so stale bindings are seen
	for _, k := range pool {
		if r.Chance(1, 2) {
			ops = append(ops, opLookup(kints(k)))
		}
	}
	return ops
}

// domainSnapshot builds a snapshot some NewSet history could have produced.
func (g *gen) domainSnapshot(ways int64, nullish bool) *dtoIn {
	r := g.r
	perm := make([]int64, ways)
	for i := range perm {
		perm[i] = int64(i)
	}
	for i := len(perm) - 1; i > 0; i-- {
		j := r.Intn(i + 1)
		perm[i], perm[j] = perm[j], perm[i]
	}
	keep := 0
	if ways > 0 {
		keep = r.Intn(int(ways) + 1)
	}
	inList := perm[:keep]
	lv := make([]uint64, ways)
	// distinct stamps: a random increasing sequence assigned to ways in a random order,
	// the ways of the list sorted by stamp
	stamp := uint64(0)
	stamps := make([]uint64, ways)
	for i := range stamps {
		stamp += 1 + r.U64n(3)
		stamps[i] = stamp
	}
	for i, w := range perm {
		lv[w] = stamps[i]
	}
	vl := append([]int64{}, inList...)
	sort.Slice(vl, func(a, b int) bool { return lv[vl[a]] < lv[vl[b]] })
	vc := stamp + r.U64n(4)
	if r.Chance(1, 6) { // close to the top of uint64 but with room for the ops
		shift := ^uint64(0) - 1000 - vc
		for i := range lv {
			lv[i] += shift
		}
		vc += shift
	}
	d := &dtoIn{WayCount: ways, VisitCount: vc}
	if !(nullish && len(vl) == 0) {
		d.VisitList = &vl
	}
	if !(nullish && ways == 0) {
		d.LastVisits = &lv
	}
	var km []kvIn
	nk := r.Intn(5)
	for i := 0; i < nk; i++ {
		w := int64(0)
		if ways > 0 {
			w = int64(r.Intn(int(ways)))
		}
		km = append(km, kvIn{K: g.key(plainKeys), V: w})
	}
	if !(nullish && len(km) == 0) {
		if km == nil {
			km = []kvIn{}
		}
		d.KeyMap = &km
	}
	return d
}

// wildSnapshot is an arbitrary snapshot: unsorted lists, out-of-range entries,
// duplicate ways, counters near 2^64, length mismatches.
func (g *gen) wildSnapshot() *dtoIn {
	r := g.r
	ways := int64(r.Intn(7))
	d := &dtoIn{WayCount: ways + int64(r.Intn(3)) - 1}
	n := r.Intn(8)
	lv := make([]uint64, ways)
	for i := range lv {
		switch r.Pick(4, 1, 1) {
		case 0:
			lv[i] = r.U64n(12)
		case 1:
			lv[i] = ^uint64(0) - r.U64n(3)
		default:
			lv[i] = r.U64()
		}
	}
	vl := make([]int64, n)
	for i := range vl {
		if r.Chance(1, 9) {
			vl[i] = int64(r.Intn(12)) - 3
		} else if ways > 0 {
			vl[i] = int64(r.Intn(int(ways)))
		}
	}
	if !r.Chance(1, 8) {
		d.VisitList = &vl
	}
	if !r.Chance(1, 8) {
		d.LastVisits = &lv
	}
	switch r.Pick(3, 1, 1) {
	case 0:
		d.VisitCount = r.U64n(15)
	case 1:
		d.VisitCount = ^uint64(0) - r.U64n(3)
	default:
		d.VisitCount = r.U64()
	}
	if !r.Chance(1, 6) {
		km := []kvIn{}
		for i, nk := 0, r.Intn(6); i < nk; i++ {
			pool := plainKeys
			if r.Chance(1, 4) {
				pool = fancyKeys
			}
			km = append(km, kvIn{K: g.key(pool), V: int64(r.Intn(9)) - 2})
		}
		d.KeyMap = &km
	}
	return d
}

func generate(r *hx.Rand, tier string) []json.RawMessage {
	g := &gen{r: r}
	scale := 1
	if tier == "thorough" {
		scale = 8
	}

	// --- directed ---------------------------------------------------------
	// every way count 0..16: fill, evict everything (list becomes the empty non-nil
	// slice), revisit in reverse, snapshot in between
	for w := int64(0); w <= 16; w++ {
		in := input{Start: "new", Ways: w, Tag: "directed-drain"}
		for i := int64(0); i <= w; i++ {
			in.Ops = append(in.Ops, opEvict)
		}
		in.Ops = append(in.Ops, opJSON, opEvict)
		for i := w - 1; i >= 0; i-- {
			in.Ops = append(in.Ops, opVisit(i))
		}
		in.Ops = append(in.Ops, opJSON)
		for i := int64(0); i < w; i++ {
			in.Ops = append(in.Ops, opEvict)
		}
		g.add(in)
	}
	// the repository's own round-trip test
	g.add(input{Start: "new", Ways: 4, Tag: "directed-repo-test", Ops: []opIn{
		opVisit(2), opVisit(0), opUpdate(2, kints(""), kints(lruset.KeyString(1, 0x1000))), opJSON,
		opLookup(kints(lruset.KeyString(1, 0x1000))), opEvict, opEvict, opEvict, opEvict, opEvict,
		opUpdate(1, kints(""), kints(lruset.KeyString(2, 0x2000)))}})
	// rebinding: old key not bound to that way, two keys on one way, rebinding a key to itself
	g.add(input{Start: "new", Ways: 3, Tag: "directed-rebind", Ops: []opIn{
		opUpdate(0, kints(""), kints("a")), opUpdate(0, kints(""), kints("b")), opLookup(kints("a")), opLookup(kints("b")),
		opUpdate(1, kints("a"), kints("b")), opLookup(kints("a")), opLookup(kints("b")),
		opUpdate(2, kints("b"), kints("b")), opLookup(kints("b")), opUpdate(7, kints("zz"), kints("")), opLookup(kints("")),
		opUpdate(1, kints(""), kints("c")), opLookup(kints("")), opLookup(kints("c")), opRemove(kints("c")), opLookup(kints("c")), opJSON,
		opLookup(kints("b")), opLookup(kints("a"))}})
	// KeyString corner values, and pairs that a variable-width format would confuse
	{
		in := input{Start: "new", Ways: 2, Tag: "directed-keystring"}
		for _, ab := range [][2]uint64{{0, 0}, {1, 0x1234}, {11, 0x234}, {1, 0x1000000000000000}, {11, 0}, {^uint64(0), ^uint64(0)},
			{9, 9}, {10, 10}, {99, 0xabcdef}, {100, 15}, {1 << 63, 1 << 63}, {9999999999999999999, 1}, {10000000000000000000, 16}} {
			in.Ops = append(in.Ops, opIn{Op: "keystr", A: ab[0], B: ab[1]})
			in.Ops = append(in.Ops, opUpdate(int64(ab[0]%2), kints(""), kints(lruset.KeyString(ab[0], ab[1]))))
		}
		in.Ops = append(in.Ops, opLookup(kints(lruset.KeyString(1, 0x1234))), opLookup(kints(lruset.KeyString(11, 0x234))), opJSON)
		g.add(in)
	}
	// keys the JSON escaper rewrites but the decoder restores
	{
		in := input{Start: "new", Ways: 4, Tag: "directed-escaped-keys"}
		for i, k := range fancyKeys {
			in.Ops = append(in.Ops, opUpdate(int64(i%4), kints(""), kints(k)))
		}
		in.Ops = append(in.Ops, opJSON)
		for _, k := range fancyKeys {
			in.Ops = append(in.Ops, opLookup(kints(k)))
		}
		g.add(in)
	}
	// malformed stream: way ids outside [0, ways), negative way count, the zero value
	for _, w := range []int64{0, 1, 3} {
		g.add(input{Start: "new", Ways: w, Tag: "malformed-way", Ops: []opIn{
			opVisit(w), opEvict, opVisit(-1), opVisit(w + 5), opVisit(1 << 40), opVisit(-(1 << 62)), opJSON, opVisit(0), opEvict, opEvict, opLookup(kints("a"))}})
	}
	g.add(input{Start: "new", Ways: -1, Tag: "malformed-ways"})
	g.add(input{Start: "new", Ways: -7, Tag: "malformed-ways", Ops: []opIn{opEvict}})
	g.add(input{Start: "zero", Tag: "zero-value", Ops: []opIn{opLookup(kints("a")), opEvict, opRemove(kints("a")), opJSON, opEvict}})
	g.add(input{Start: "zero", Tag: "zero-value", Ops: []opIn{opUpdate(0, kints(""), kints("a")), opVisit(0), opLookup(kints("a")), opJSON,
		opUpdate(0, kints(""), kints("a")), opLookup(kints("a")), opVisit(0)}})
	// known finding: keys that are not valid UTF-8 do not survive the snapshot
	g.add(input{Start: "new", Ways: 3, Tag: "known-non-utf8", Ops: []opIn{
		opUpdate(1, kints(""), kints("\xff")), opUpdate(2, kints(""), kints("\xfe")), opLookup(kints("\xff")), opJSON,
		opLookup(kints("\xff")), opLookup(kints("\xfe")), opLookup(kints("�"))}})
	for i := 0; i < 6*scale; i++ {
		ways := int64(1 + r.Intn(4))
		pool := append(append([]string{}, badKeys...), "a", "�", "é")
		in := input{Start: "new", Ways: ways, Tag: "known-non-utf8", Ops: g.soup(ways, 6+r.Intn(10), pool, 2)}
		g.add(in)
	}

	// --- random ------------------------------------------------------------
	for i := 0; i < 160*scale; i++ {
		ways := int64(r.Intn(17))
		if r.Chance(1, 5) {
			ways = int64(r.Intn(3))
		}
		if tier == "thorough" && r.Chance(1, 20) {
			ways = int64(17 + r.Intn(48))
		}
		je := 0
		if r.Chance(1, 2) {
			je = 2 + r.Intn(9)
		}
		g.add(g.tlbPattern(ways, 6+r.Intn(int(ways)*2+10), je))
	}
	for i := 0; i < 600*scale; i++ {
		ways := int64(r.Intn(17))
		if r.Chance(1, 4) {
			ways = int64(r.Intn(3))
		}
		pool := plainKeys[:2+r.Intn(len(plainKeys)-1)]
		if r.Chance(1, 6) {
			pool = append(append([]string{}, pool[:2]...), fancyKeys...)
		}
		jw := 0
		if r.Chance(2, 3) {
			jw = 1 + r.Intn(2)
		}
		in := input{Start: "new", Ways: ways, Tag: "soup", Ops: g.soup(ways, 5+r.Intn(40), pool, jw)}
		if r.Chance(1, 12) { // a few out-of-range visits inside otherwise normal histories
			k := r.Intn(len(in.Ops) + 1)
			bad := opVisit([]int64{-1, ways, ways + 1, -ways - 1, 1 << 33}[r.Intn(5)])
			in.Ops = append(in.Ops[:k], append([]opIn{bad}, in.Ops[k:]...)...)
			in.Tag = "soup-bad-way"
		}
		g.add(in)
	}
	for i := 0; i < 200*scale; i++ {
		ways := int64(r.Intn(9))
		d := g.domainSnapshot(ways, r.Chance(1, 3))
		g.add(input{Start: "json", DTO: d, Tag: "snapshot-in-domain", Ops: g.soup(ways, 4+r.Intn(25), plainKeys[:6], 1)})
	}
	for i := 0; i < 200*scale; i++ {
		d := g.wildSnapshot()
		ways := d.WayCount + 1
		ops := g.soup(ways, 3+r.Intn(14), plainKeys[:5], 1)
		g.add(input{Start: "json", DTO: d, Tag: "snapshot-wild", Ops: ops})
	}
	return g.out
}

// shrink drops chunks of operations (halves, quarters, ..., single operations).
func shrink(raw json.RawMessage) []json.RawMessage {
	var in input
	if err := hx.UJ(raw, &in); err != nil {
		return nil
	}
	var out []json.RawMessage
	n := len(in.Ops)
	seen := map[string]bool{}
	for size := n / 2; size >= 1; size /= 2 {
		for at := 0; at+size <= n; at += size {
			c := in
			c.Ops = append(append([]opIn{}, in.Ops[:at]...), in.Ops[at+size:]...)
			b := hx.J(c)
			if !seen[string(b)] {
				seen[string(b)] = true
				out = append(out, b)
			}
		}
		if len(out) > 400 {
			break
		}
	}
	return out
}

func init() {
	hx.Register(&hx.Prop{
		ID:      "C28",
		Imports: "From Akita Require Import Lib.Base C28.Model C28.Spec C28.Exec.",
		Rule: "histories of Lookup/UpdateKey/Remove/Evict/Visit/JSON-round-trip (the restored Set replaces the one under test) on " +
			"NewSet(0..16) (thorough: up to 64): directed drains and revisits for every way count, the TLB/mmuCache usage pattern " +
			"(Lookup; hit: Visit; miss: Evict, UpdateKey, Visit; occasional Remove) with KeyString keys, random operation soup on a small " +
			"key alphabet (plain, JSON-escaped, non-ASCII keys), Sets restored from given snapshots (in the domain of NewSet histories, " +
			"and arbitrary: unsorted / out-of-range / null fields / counters near 2^64), a small malformed stream (way ids outside " +
			"[0,ways), negative way count, the zero value) and directed non-UTF-8 keys (known finding). Non-trivial: at least 3 operations " +
			"with a successful Visit and a successful Evict or a Lookup hit. Distinct = distinct input hash.",
		Gen: generate, Run: run, Shrink: shrink,
	})
}
