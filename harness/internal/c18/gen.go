package c18

import (
	"encoding/json"

	"verifharness/internal/hx"
)

func randCfg(r *hx.Rand, agent string) map[string]int {
	c := map[string]int{"latency": 1 + r.Intn(6)}
	switch agent {
	case "idealmemcontroller":
		c["width"] = 1 + r.Intn(3)
		c["latency"] = 1 + r.Intn(20)
	case "dram":
		c["open"] = r.Intn(2)
	case "simplebankedmemory":
		c["banks"] = 1 + r.Intn(3)
		c["depth"] = 1 + r.Intn(3)
	case "writeback", "writethroughcache":
		c["bytes"] = []int{256, 512, 1024}[r.Intn(3)]
		c["mshr"] = 1 + r.Intn(4)
		c["policy"] = r.Intn(3)
	case "tlb":
		c["mshr"] = 1 + r.Intn(3)
		c["width"] = 1 + r.Intn(3)
	case "mmuCache":
		c["blocks"] = 1 + r.Intn(3)
		c["levels"] = 2 + r.Intn(4)
	case "mmu", "gmmu":
		c["inflight"] = 1 + r.Intn(4)
	case "addresstranslator":
		c["width"] = 1 + r.Intn(3)
	case "rob":
		c["size"] = 2 + r.Intn(6)
		c["width"] = 1 + r.Intn(3)
	}
	return c
}

type scriptGen struct {
	r     *hx.Rand
	agent string
	ops   []opIn
	at    uint64
	// what the requester believes (only used to bias towards legal orders)
	paused      bool
	pausedByCmd bool // paused by Pause (not Drain): in-flight work may be frozen inside
}

func (g *scriptGen) addr() uint64 {
	// a few lines/pages that collide in the small caches / TLB sets
	return uint64(g.r.Intn(6))*4096 + uint64(g.r.Intn(4))*64 + uint64(g.r.Intn(4))*4
}

func (g *scriptGen) data(n int) {
	for i := 0; i < n; i++ {
		g.at += uint64(g.r.Pick(5, 3, 1) * g.r.Intn(8))
		g.ops = append(g.ops, opIn{At: g.at, Write: g.r.Chance(2, 5), Addr: g.addr(), PID: uint32(g.r.Intn(2))})
	}
}

func (g *scriptGen) filter(op *opIn) {
	switch g.r.Pick(3, 2, 1) {
	case 0:
	case 1:
		for i := 0; i < 1+g.r.Intn(3); i++ {
			op.Addrs = append(op.Addrs, g.addr())
		}
	default:
		op.FPID = uint32(1 + g.r.Intn(2))
	}
}

func (g *scriptGen) ctl(cmd int, wait bool) {
	g.at += uint64(g.r.Intn(6))
	op := opIn{At: g.at, Ctl: true, Cmd: cmd, Wait: wait}
	if cmd == 4 || cmd == 5 {
		g.filter(&op)
	}
	// keep the one recorded finding confined to the directed case
	if g.agent == "writeback" && cmd == 5 && g.pausedByCmd {
		op.Cmd = 4
	}
	g.ops = append(g.ops, op)
	switch cmd {
	case 0:
		g.paused, g.pausedByCmd = true, true
	case 1:
		g.paused, g.pausedByCmd = true, false
	case 2, 3:
		g.paused, g.pausedByCmd = false, false
	}
}

func genScript(r *hx.Rand, agent string, phases int) []opIn {
	g := &scriptGen{r: r, agent: agent}
	g.data(2 + r.Intn(6))
	for p := 0; p < phases; p++ {
		wait := r.Chance(2, 3)
		switch r.Pick(4, 4, 2, 2, 2, 1) {
		case 0: // pause, (invalidate), traffic queued during the pause, enable
			g.ctl(0, wait)
			if r.Bool() {
				g.ctl(4, wait)
			}
			g.data(r.Intn(5))
			if r.Chance(1, 4) {
				g.ctl(0, wait) // idempotent pause
			}
			g.ctl(2, wait)
		case 1: // drain, (flush), (invalidate), traffic, enable
			g.ctl(1, wait)
			if r.Bool() {
				g.ctl(5, wait)
			}
			if r.Bool() {
				g.ctl(4, wait)
			}
			g.data(r.Intn(5))
			g.ctl(2, wait)
		case 2: // reset under traffic, from any state
			if r.Bool() {
				g.ctl(r.Intn(2), wait)
			}
			g.data(r.Intn(4))
			g.ctl(3, wait)
		case 3: // illegal orders: invalidate/flush while running, unknown verbs
			g.ctl(4+r.Intn(2), wait)
			if r.Bool() {
				g.ctl(6+r.Intn(3), wait)
			}
		case 4: // back-to-back verbs without waiting for acknowledgements
			n := 2 + r.Intn(4)
			for i := 0; i < n; i++ {
				g.ctl(r.Intn(7), false)
			}
		default: // enable while enabled / drain then drain
			g.ctl(2, wait)
			g.ctl(1, wait)
			g.ctl(1, wait)
			g.ctl(2, wait)
		}
		g.data(1 + r.Intn(8))
	}
	// finish enabled, after everything was acknowledged, with some more traffic
	g.at += 20
	g.ops = append(g.ops, opIn{At: g.at, Ctl: true, Cmd: 2, Wait: true})
	g.data(2 + r.Intn(4))
	return g.ops
}

func randDelays(r *hx.Rand) []int {
	n := 1 + r.Intn(6)
	d := make([]int, n)
	for i := range d {
		d[i] = []int{1, 2, 5, 12, 30, 70}[r.Intn(6)]
	}
	return d
}

// directedPauseFlush is the confirmed write-back history: one read outstanding at the
// lower module, Pause (acknowledged), Flush without Enable.
func directedPauseFlush() input {
	return input{Agent: "writeback", Buf: 4, Delays: []int{40}, Cfg: map[string]int{"bytes": 512, "mshr": 4, "latency": 1},
		Ops: []opIn{
			{At: 0, Addr: 0x1000},
			{At: 6, Ctl: true, Cmd: 0, Wait: true},
			{At: 12, Ctl: true, Cmd: 5, Wait: true},
			{At: 200, Ctl: true, Cmd: 2, Wait: true},
			{At: 210, Addr: 0x2000},
		}}
}

// sweepWindow is the number of cycles after the first request during which the agent can
// still hold work for it (request latency + lower-module delay + response staging), with margin.
var sweepWindow = map[string]int{"idealmemcontroller": 16, "dram": 64, "simplebankedmemory": 20, "writeback": 36,
	"writethroughcache": 36, "tlb": 28, "mmuCache": 28, "mmu": 16, "gmmu": 28, "addresstranslator": 30, "rob": 24, "datamover": 40}

// sweep issues one control verb at EVERY tick offset of the lifetime of a small burst of
// requests (two of them coalescing on one line/page, one elsewhere), so that the verb is
// handled in every internal phase of the agent: request queued, in the pipeline, outstanding
// at the lower module, lower response delivered but not yet consumed, response staged but
// not yet sent, response leaving.  The agent is then enabled again and must serve new traffic.
func sweep(r *hx.Rand, agent string, cmd int, delay int, cfg map[string]int, buf int) []json.RawMessage {
	var out []json.RawMessage
	for at := 1; at <= sweepWindow[agent]+delay; at++ {
		in := input{Agent: agent, Buf: buf, Delays: []int{delay}, Cfg: cfg}
		in.Ops = []opIn{
			{At: 0, Addr: 0x1000, PID: 0},
			{At: 1, Addr: 0x1004, PID: 0},
			{At: 2, Addr: 0x3040, PID: 1, Write: true},
			{At: uint64(at), Ctl: true, Cmd: cmd},
			{At: uint64(at + 70 + delay), Ctl: true, Cmd: 2, Wait: true},
			{At: uint64(at + 72 + delay), Addr: 0x1000, PID: 0},
			{At: uint64(at + 73 + delay), Addr: 0x2008, PID: 1},
		}
		out = append(out, hx.J(in))
	}
	return out
}

// backPressure: the requester leaves the control responses on its port for a while (all
// Control buffers hold one message), so the agent's Control outgoing buffer fills up while
// further verbs - in particular asynchronous ones - are queued behind.
func backPressure(r *hx.Rand, agent string, directed bool) json.RawMessage {
	in := input{Agent: agent, Buf: 1, Delays: []int{3}, Cfg: map[string]int{"latency": 2, "width": 1}}
	in.Ops = []opIn{{At: 0, Addr: 0x1000}, {At: 2, Ctl: true, Cmd: 2}, {At: 3, Ctl: true, Cmd: 2}}
	at := uint64(6)
	if directed {
		for _, c := range []int{1, 1, 0} {
			in.Ops = append(in.Ops, opIn{At: at, Ctl: true, Cmd: c})
			at++
		}
		in.CtlHold = []uint64{3, 60}
	} else {
		for i := 0; i < 2+r.Intn(4); i++ {
			in.Ops = append(in.Ops, opIn{At: at, Ctl: true, Cmd: []int{1, 1, 0, 2, 3, 6, 4}[r.Intn(7)]})
			at += uint64(r.Intn(3))
			if r.Chance(1, 3) {
				in.Ops = append(in.Ops, opIn{At: at, Addr: uint64(r.Intn(4)) * 4096, Write: r.Bool()})
			}
		}
		in.CtlHold = []uint64{uint64(2 + r.Intn(4)), uint64(30 + r.Intn(50))}
	}
	end := in.CtlHold[1] + 40
	in.Ops = append(in.Ops, opIn{At: end, Ctl: true, Cmd: 2, Wait: true}, opIn{At: end + 4, Addr: 0x2000})
	return hx.J(in)
}

func sweeps(r *hx.Rand, tier string) []json.RawMessage {
	var out []json.RawMessage
	for _, a := range Agents {
		rr := r.Fork()
		cfg := map[string]int{"latency": 1 + rr.Intn(3), "width": 1 + rr.Intn(2)}
		delay := []int{2, 3, 5, 8}[rr.Intn(4)]
		buf := 2 + rr.Intn(3)
		// Reset: the clause "no later responses to pre-reset requests" at every offset
		out = append(out, sweep(rr, a, 3, delay, cfg, buf)...)
		if tier == "thorough" {
			for _, c := range []int{0, 1} { // Pause, Drain
				out = append(out, sweep(rr, a, c, delay, cfg, buf)...)
			}
			out = append(out, sweep(rr, a, 3, []int{1, 12, 30}[rr.Intn(3)], randCfg(rr, a), 1)...)
		} else {
			// a thinner Pause / Drain sweep in the quick tier (every third offset, random phase)
			for _, c := range []int{0, 1} {
				all := sweep(rr, a, c, delay, cfg, buf)
				for i := rr.Intn(3); i < len(all); i += 3 {
					out = append(out, all[i])
				}
			}
		}
	}
	return out
}

func gen(r *hx.Rand, tier string) []json.RawMessage {
	per := 9
	if tier == "thorough" {
		per = 60
	}
	var out []json.RawMessage
	out = append(out, hx.J(directedPauseFlush()))
	// directed: the plain legal life cycle on every agent
	for _, a := range Agents {
		in := input{Agent: a, Buf: 4, Delays: []int{3, 9}, Cfg: map[string]int{}}
		g := &scriptGen{r: r.Fork(), agent: a}
		g.data(4)
		g.ctl(0, true)
		g.data(3)
		g.ctl(2, true)
		g.data(3)
		g.ctl(1, true)
		g.ctl(4, true)
		g.ctl(2, true)
		g.data(2)
		g.ctl(3, true)
		g.data(3)
		g.ctl(5, true)
		g.ctl(7, true)
		g.at += 30
		g.ops = append(g.ops, opIn{At: g.at, Ctl: true, Cmd: 2, Wait: true})
		g.data(2)
		in.Ops = g.ops
		out = append(out, hx.J(in))
	}
	// directed: Pause acknowledged while traffic is still in flight at a slow lower module, then
	// Drain while paused (its acknowledgement must wait for that traffic), then Enable
	for _, a := range Agents {
		in := input{Agent: a, Buf: 4, Delays: []int{30, 70}, Cfg: map[string]int{}}
		g := &scriptGen{r: r.Fork(), agent: a}
		g.data(4)
		g.ctl(0, true)
		g.ctl(1, true)
		g.data(2)
		g.ctl(2, true)
		g.data(3)
		g.at += 30
		g.ops = append(g.ops, opIn{At: g.at, Ctl: true, Cmd: 2, Wait: true})
		g.data(2)
		in.Ops = g.ops
		out = append(out, hx.J(in))
	}
	out = append(out, sweeps(r.Fork(), tier)...)
	for _, a := range Agents {
		out = append(out, backPressure(r.Fork(), a, true))
		for i := 0; i < per/3; i++ {
			out = append(out, backPressure(r.Fork(), a, false))
		}
	}
	// exact tick-level tie of the ideal controller's control path
	for i := 0; i < 2*per; i++ {
		rr := r.Fork()
		in := input{Agent: "idealmemcontroller", Exact: true, Buf: 1 + rr.Intn(3), Delays: []int{1}, Cfg: randCfg(rr, "idealmemcontroller")}
		in.Ops = genScript(rr, "idealmemcontroller", 1+rr.Intn(5))
		out = append(out, hx.J(in))
	}
	for i := 0; i < per; i++ {
		for _, a := range Agents {
			rr := r.Fork()
			in := input{Agent: a, Buf: 1 + rr.Intn(6), Delays: randDelays(rr), Cfg: randCfg(rr, a)}
			in.Ops = genScript(rr, a, 1+rr.Intn(5))
			out = append(out, hx.J(in))
		}
	}
	return out
}

func shrink(raw json.RawMessage) []json.RawMessage {
	var in input
	if hx.UJ(raw, &in) != nil {
		return nil
	}
	var out []json.RawMessage
	n := len(in.Ops)
	try := func(ops []opIn) {
		if len(ops) < n && len(ops) > 0 {
			c := in
			c.Ops = ops
			out = append(out, hx.J(c))
		}
	}
	try(append([]opIn{}, in.Ops[:n/2]...))
	try(append([]opIn{}, in.Ops[n/2:]...))
	for i := 0; i < n && i < 40; i++ {
		ops := append([]opIn{}, in.Ops[:i]...)
		ops = append(ops, in.Ops[i+1:]...)
		try(ops)
	}
	return out
}

func init() {
	hx.Register(&hx.Prop{
		ID:      "C18",
		Imports: "From Akita Require Import Lib.Base C18.Model C18.Ideal C18.Exec.",
		Rule: "For each of the twelve agents (built by its own Builder; support matrix read from the VerbSupport constructor its TestControlContract " +
			"passes to RunContract and evaluated by the real memcontrolprotocol package): a directed legal life cycle (pause/enable, drain/invalidate/enable, " +
			"reset, flush, an unknown verb) and random scripts of 1-5 phases drawn from {pause..enable with traffic queued meanwhile, drain..(flush)(invalidate)..enable, " +
			"reset under traffic from any state, invalidate/flush while running and unknown verbs, 2-5 back-to-back verbs without waiting for acknowledgements, " +
			"idempotent repeats}, each phase surrounded by bursts of reads/writes/translations/moves over a few colliding lines/pages; the requester waits for " +
			"acknowledgements in 2/3 of the phases; lower-module responses are delayed by a random cyclic pattern of 1..70 cycles; port buffers 1-6; random " +
			"latencies/widths/MSHR/geometry. Offset sweeps for every agent: a burst of three requests (two coalescing) and ONE verb issued at every cycle " +
			"of the burst's lifetime (Reset at every offset; Pause and Drain at every third offset in the quick tier, every offset in the thorough tier), then Enable and new traffic - " +
			"Control back-pressure for every agent: all Control buffers of size 1 and a requester that leaves the responses on its port for 30-80 cycles while Drain/Pause/Enable/Reset/unknown verbs queue up. " +
			"so each verb is handled in every internal phase (queued / in pipeline / outstanding below / lower response delivered / response staged / leaving). The confirmed write-back Pause->Flush history is always included. Non-trivial: >=3 control responses, >=3 data " +
			"requests delivered and >=2 data responses. Plus exact tick-level cases of the ideal memory controller (same scripts, Control buffers of 1-3): " +
			"every tick's inputs and outputs are compared with Ideal.ideal_tick.",
		Gen: gen, Run: run, Shrink: shrink,
	})
}
