// Package c18 drives each of the twelve real memory agents with random control-verb
// histories interleaved with live data traffic and delayed downstream responses, and
// records the port-level history that the Coq acceptor (C18/Model.v) must accept.
package c18

import (
	"encoding/json"
	"fmt"
	"os"
	"sort"

	"github.com/sarchlab/akita/v5/hooking"
	"github.com/sarchlab/akita/v5/mem/memcontrolprotocol"
	"github.com/sarchlab/akita/v5/mem/vm"
	"github.com/sarchlab/akita/v5/messaging"
	"github.com/sarchlab/akita/v5/timing"

	"verifharness/internal/hx"
	"verifharness/internal/memdrv"
)

type opIn struct {
	At uint64 `json:"at"`
	// control: Ctl = true, Cmd = verb (0..5; >5 = a verb the protocol does not know)
	Ctl   bool     `json:"c,omitempty"`
	Cmd   int      `json:"cmd,omitempty"`
	Addrs []uint64 `json:"fa,omitempty"`
	FPID  uint32   `json:"fp,omitempty"`
	// wait until every earlier control request has been acknowledged
	Wait bool `json:"w,omitempty"`
	// data
	Write bool   `json:"wr,omitempty"`
	Addr  uint64 `json:"a,omitempty"`
	PID   uint32 `json:"p,omitempty"`
}

type input struct {
	Agent  string         `json:"agent"`
	Ops    []opIn         `json:"ops"`
	Delays []int          `json:"delays"`
	Buf    int            `json:"buf"`
	Cfg    map[string]int `json:"cfg,omitempty"`
	// Exact asks for the tick-level comparison of the ideal controller's control path
	Exact     bool   `json:"exact,omitempty"`
	// CtlHold: the requester does not take control responses off its port during [from, to)
	// (back-pressure on the agent's Control port; use with Buf = 1)
	CtlHold []uint64 `json:"ctl_hold,omitempty"`
	MaxCycles uint64 `json:"max_cycles,omitempty"`
}

type event struct {
	K     string `json:"k"` // ctrl | rsp | deliv | data | sample | end
	ID    uint64 `json:"id,omitempty"`
	Cmd   int    `json:"cmd,omitempty"`
	OK    bool   `json:"ok,omitempty"`
	Err   string `json:"err,omitempty"`
	Q     bool   `json:"q,omitempty"`
	P     bool   `json:"p,omitempty"`
	Cycle uint64 `json:"t"`
}

type obs struct {
	Matrix  string  `json:"matrix"`
	Events  []event `json:"events"`
	Problem string  `json:"problem,omitempty"`
}

func errCode(s string) uint64 {
	switch s {
	case "":
		return 0
	case memcontrolprotocol.ErrUnsupported:
		return 1
	case memcontrolprotocol.ErrMustBePausedOrDrained:
		return 2
	}
	return 3
}

func (e event) coq() string {
	switch e.K {
	case "ctrl":
		return hx.App("ECtrl", hx.N(e.ID), hx.N(uint64(e.Cmd)))
	case "rsp":
		return hx.App("ERsp", hx.N(uint64(e.Cmd)), hx.N(e.ID), hx.B(e.OK), hx.N(errCode(e.Err)))
	case "deliv":
		return hx.App("EDeliv", hx.N(e.ID))
	case "data":
		return hx.App("EData", hx.N(e.ID))
	case "sample":
		return hx.App("ESample", hx.B(e.Q), hx.B(e.P))
	case "nosample":
		return "ENoSample"
	}
	return "EEnd"
}

type pendingRsp struct {
	due  uint64
	port string
	msg  messaging.Msg
}

func run(raw json.RawMessage) (hx.Case, error) {
	var in input
	if err := hx.UJ(raw, &in); err != nil {
		return hx.Case{}, err
	}
	vs, mname, err := Matrix(in.Agent)
	if err != nil {
		return hx.Case{}, err
	}
	o := obs{Matrix: mname}
	buf := in.Buf
	if buf < 1 {
		buf = 4
	}
	sim := memdrv.NewSim()
	var r *rig
	if p, msg := hx.Try(func() { r, err = buildRig(sim, in.Agent, in.Cfg, buf) }); p {
		return hx.Case{}, fmt.Errorf("building %s panicked: %s", in.Agent, msg)
	}
	if err != nil {
		return hx.Case{}, err
	}
	freq := 1 * timing.GHz
	cyc := func() uint64 { return freq.Cycle(sim.Engine.CurrentTime()) }
	log := func(e event) {
		e.Cycle = cyc()
		o.Events = append(o.Events, e)
	}

	// driver ports: Ctrl, Top0.., D0..
	names := []string{"Ctrl"}
	for i := range r.reqPorts {
		if i == 0 {
			names = append(names, "Top")
		} else {
			names = append(names, fmt.Sprintf("Top%d", i))
		}
	}
	for i := range r.downPorts {
		names = append(names, fmt.Sprintf("D%d", i))
	}
	d := sim.NewDriver(drv, freq, buf, names...)
	autCtrl := r.comp.GetPortByName("Control")
	sim.Connect(d.GetPortByName("Ctrl"), autCtrl)
	for i, p := range r.reqPorts {
		sim.Connect(d.GetPortByName(names[1+i]), r.comp.GetPortByName(p))
	}
	for i, p := range r.downPorts {
		sim.Connect(d.GetPortByName(fmt.Sprintf("D%d", i)), r.comp.GetPortByName(p))
	}

	// observation hooks on the agent's own ports
	acked := false
	var ctrlBuf []uint64 // IDs waiting in the agent's Control incoming buffer
	var arrived [][2]uint64 // control requests delivered since the agent's previous tick
	var tickOut []string    // control responses sent during the agent's current tick
	var ticks, tickObs []string
	autCtrl.AcceptHook(&memdrv.FuncHook{F: func(ctx hooking.HookCtx) {
		switch ctx.Pos {
		case messaging.HookPosPortMsgRecvd:
			if m, ok := ctx.Item.(messaging.Msg); ok && m != nil {
				ctrlBuf = append(ctrlBuf, m.Meta().ID)
				if rq, ok := m.(memcontrolprotocol.Req); ok {
					arrived = append(arrived, [2]uint64{rq.ID, uint64(rq.Command)})
				}
			}
			return
		case messaging.HookPosPortMsgRetrieveIncoming:
			if len(ctrlBuf) > 0 {
				ctrlBuf = ctrlBuf[1:]
			}
			return
		case messaging.HookPosPortMsgSend:
		default:
			return
		}
		rsp, ok := ctx.Item.(memcontrolprotocol.Rsp)
		if !ok {
			o.Problem = "non-Rsp message sent on the Control port"
			return
		}
		log(event{K: "rsp", ID: rsp.RspTo, Cmd: int(rsp.Command), OK: rsp.Success, Err: rsp.Error})
		tickOut = append(tickOut, hx.App("IRsp", hx.N(uint64(rsp.Command)), hx.N(rsp.RspTo), hx.B(rsp.Success), hx.N(errCode(rsp.Error))))
		if rsp.Success && (rsp.Command == memcontrolprotocol.CmdDrain || rsp.Command == memcontrolprotocol.CmdReset) {
			// is another command already waiting behind the acknowledged one?
			// (the port's own lock is held inside its hooks, so its buffer is mirrored here)
			n := 0
			for _, id := range ctrlBuf {
				if id != rsp.RspTo {
					n++
				}
			}
			if n > 0 {
				log(event{K: "nosample"})
			} else {
				acked = true
			}
		}
	}})
	for _, p := range r.reqPorts {
		r.comp.GetPortByName(p).AcceptHook(&memdrv.FuncHook{F: func(ctx hooking.HookCtx) {
			m, ok := ctx.Item.(messaging.Msg)
			if !ok || m == nil {
				return
			}
			switch ctx.Pos {
			case messaging.HookPosPortMsgRecvd:
				log(event{K: "deliv", ID: m.Meta().ID})
			case messaging.HookPosPortMsgSend:
				log(event{K: "data", ID: m.Meta().RspTo})
			}
		}})
	}
	maxCycles := in.MaxCycles
	if maxCycles == 0 {
		maxCycles = 60000
	}
	limit := freq.Period() * timing.VTimeInPicoSec(maxCycles+2000)
	sim.Engine.AcceptHook(&memdrv.FuncHook{F: func(ctx hooking.HookCtx) {
		if ev, ok := ctx.Item.(timing.Event); ok && in.Exact && ev.HandlerID() == "AUT" {
			ic := r.ideal
			switch ctx.Pos {
			case timing.HookPosBeforeEvent:
				as := make([]string, len(arrived))
				for i, a := range arrived {
					as[i] = hx.T(hx.N(a[0]), hx.N(a[1]))
				}
				arrived = arrived[:0]
				tickOut = tickOut[:0]
				ticks = append(ticks, hx.App("mk_itick", hx.L(as), hx.Nat(buf-autCtrl.NumOutgoing()),
					hx.B(len(ic.State.InflightTransactions) == 0)))
			case timing.HookPosAfterEvent:
				tickObs = append(tickObs, hx.T(hx.L(append([]string{}, tickOut...)), hx.N(uint64(ic.State.ControlState)), hx.N(ic.State.CurrentCmdID)))
			}
		}
		switch ctx.Pos {
		case timing.HookPosAfterEvent:
			if acked {
				acked = false
				log(event{K: "sample", Q: r.quiescent(), P: r.paused()})
			}
		case timing.HookPosBeforeEvent:
			if sim.Engine.CurrentTime() > limit {
				panic("no quiescence within the cycle budget")
			}
		}
	}})

	// the driver: script + lower-module stub
	next := 0
	skipped := 0
	sentCtl, ackedCtl := 0, 0
	var queue []pendingRsp
	ndelay := 0
	seen := 0
	delays := in.Delays
	if len(delays) == 0 {
		delays = []int{1}
	}
	ctrlOut := d.GetPortByName("Ctrl")
	d.TickFn = func(dd *memdrv.Driver) bool {
		holding := len(in.CtlHold) == 2 && dd.Cycle() >= in.CtlHold[0] && dd.Cycle() < in.CtlHold[1]
		dd.Hold = map[string]bool{"Ctrl": holding}
		progress := dd.Drain() || holding
		for ; seen < len(dd.Log); seen++ {
			rc := dd.Log[seen]
			switch {
			case rc.Port == "Ctrl":
				ackedCtl++
			case len(rc.Port) >= 1 && rc.Port[0] == 'D':
				a := answer(rc.Msg, dd.GetPortByName(rc.Port).AsRemote())
				if a == nil {
					o.Problem = fmt.Sprintf("unexpected downstream message %T", rc.Msg)
					continue
				}
				queue = append(queue, pendingRsp{due: dd.Cycle() + uint64(delays[ndelay%len(delays)]), port: rc.Port, msg: a})
				ndelay++
			}
		}
		// lower-module responses whose delay has elapsed (per port, in order)
		kept := queue[:0]
		blocked := map[string]bool{}
		for _, q := range queue {
			p := dd.GetPortByName(q.port)
			if q.due <= dd.Cycle() && !blocked[q.port] && p.CanSend() {
				p.Send(q.msg)
				progress = true
				continue
			}
			if q.due <= dd.Cycle() {
				blocked[q.port] = true
			}
			kept = append(kept, q)
		}
		queue = kept
		if dd.Cycle() > maxCycles {
			return false
		}
		// script
		for next < len(in.Ops) {
			op := in.Ops[next]
			if dd.Cycle() < op.At || (op.Wait && ackedCtl < sentCtl) {
				break
			}
			if op.Ctl {
				if !ctrlOut.CanSend() {
					break
				}
				id := memdrv.NewID()
				req := memcontrolprotocol.Req{Command: memcontrolprotocol.Command(op.Cmd), Addresses: op.Addrs, PID: vm.PID(op.FPID)}
				req.ID = id
				req.Src = ctrlOut.AsRemote()
				req.Dst = autCtrl.AsRemote()
				req.TrafficClass = "memcontrolprotocol.Req"
				log(event{K: "ctrl", ID: id, Cmd: op.Cmd})
				ctrlOut.Send(req)
				sentCtl++
			} else {
				top := dd.GetPortByName("Top")
				if !top.CanSend() {
					// the agent is not taking traffic (paused): this request is not issued at all,
					// so that the control script can never be blocked behind data
					next++
					skipped++
					continue
				}
				meta := messaging.MsgMeta{ID: memdrv.NewID(), Src: top.AsRemote(), Dst: r.comp.GetPortByName(r.reqPorts[0]).AsRemote()}
				top.Send(r.mkData(op, meta))
			}
			next++
			progress = true
		}
		return progress || next < len(in.Ops) || len(queue) > 0
	}
	d.TickLater()
	if p, msg := hx.Try(func() {
		if err := sim.Engine.Run(); err != nil {
			panic(err)
		}
	}); p {
		o.Problem = "panic: " + msg
	}
	if os.Getenv("C18DBG") != "" {
		b, _ := json.Marshal(r.state())
		fmt.Fprintln(os.Stderr, string(b))
	}
	if o.Problem == "" && next == len(in.Ops) {
		log(event{K: "end"})
	}

	M := []string{hx.B(vs.Pause), hx.B(vs.Drain), hx.B(vs.Enable), hx.B(vs.Reset), hx.B(vs.Invalidate), hx.B(vs.Flush)}
	evs := make([]string, len(o.Events))
	counts := map[string]int{}
	for i, e := range o.Events {
		evs[i] = e.coq()
		counts[e.K]++
		if e.K == "rsp" {
			counts[fmt.Sprintf("rsp:%d:%v", e.Cmd, e.OK)]++
		}
	}
	agentIdx := sort.SearchStrings(sortedAgents(), in.Agent)
	if in.Exact {
		c := hx.Case{Obs: o}
		c.Coq = hx.App("IdealCase", hx.L(ticks), hx.L(tickObs))
		c.Tags = []string{"agent:" + in.Agent, "exact-tick-level"}
		c.Nontrivial = counts["rsp"] >= 3
		return c, nil
	}
	c := hx.Case{Obs: o}
	c.Coq = hx.App("mk_case", hx.N(uint64(agentIdx)), hx.L(M), hx.L(evs), hx.B(o.Problem == ""))
	c.Tags = append(c.Tags, "agent:"+in.Agent, "matrix:"+mname)
	for _, k := range []string{"rsp:0:true", "rsp:1:true", "rsp:2:true", "rsp:3:true", "rsp:4:true", "rsp:4:false", "rsp:5:true", "rsp:5:false"} {
		if counts[k] > 0 {
			c.Tags = append(c.Tags, k)
		}
	}
	if skipped > 0 {
		c.Tags = append(c.Tags, "data-skipped-port-full")
	}
	if counts["data"] > 0 {
		c.Tags = append(c.Tags, "data-responses")
	}
	c.Nontrivial = counts["rsp"] >= 3 && counts["data"] >= 2 && counts["deliv"] >= 3
	c.Known = classify(in)
	return c, nil
}

func sortedAgents() []string {
	s := append([]string{}, Agents...)
	sort.Strings(s)
	return s
}

// classify recognises, from the INPUT alone, the one history shape with a recorded
// finding: a write-back cache that is Paused while reads are outstanding and then asked
// to Flush without an Enable/Drain/Reset in between.
func classify(in input) string {
	if in.Agent != "writeback" {
		return ""
	}
	dataBefore := false
	paused := false
	for _, op := range in.Ops {
		switch {
		case !op.Ctl:
			if !paused {
				dataBefore = true
			}
		case op.Cmd == 0:
			paused = dataBefore
		case op.Cmd == 5:
			if paused {
				return "writeback_pause_then_flush_inflight"
			}
		case op.Cmd == 1 || op.Cmd == 2 || op.Cmd == 3:
			paused = false
		}
	}
	return ""
}
