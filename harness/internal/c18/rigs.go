package c18

import (
	"fmt"
	"os"
	"path/filepath"
	"regexp"

	"github.com/sarchlab/akita/v5/mem"
	"github.com/sarchlab/akita/v5/mem/cache/writeback"
	"github.com/sarchlab/akita/v5/mem/cache/writethroughcache"
	"github.com/sarchlab/akita/v5/mem/datamover"
	"github.com/sarchlab/akita/v5/mem/datamoverprotocol"
	"github.com/sarchlab/akita/v5/mem/dram"
	"github.com/sarchlab/akita/v5/mem/idealmemcontroller"
	"github.com/sarchlab/akita/v5/mem/memcontrolprotocol"
	"github.com/sarchlab/akita/v5/mem/memprotocol"
	"github.com/sarchlab/akita/v5/mem/rob"
	"github.com/sarchlab/akita/v5/mem/simplebankedmemory"
	"github.com/sarchlab/akita/v5/mem/vm"
	"github.com/sarchlab/akita/v5/mem/vm/addresstranslator"
	"github.com/sarchlab/akita/v5/mem/vm/gmmu"
	"github.com/sarchlab/akita/v5/mem/vm/mmu"
	"github.com/sarchlab/akita/v5/mem/vm/mmuCache"
	"github.com/sarchlab/akita/v5/mem/vm/tlb"
	"github.com/sarchlab/akita/v5/mem/vm/vmprotocol"
	"github.com/sarchlab/akita/v5/messaging"

	"verifharness/internal/memdrv"
)

// Agents lists the twelve memory agents in a fixed order.
var Agents = []string{"idealmemcontroller", "dram", "simplebankedmemory", "writeback", "writethroughcache",
	"tlb", "mmuCache", "mmu", "gmmu", "addresstranslator", "rob", "datamover"}

// directory (under mem/) of each agent's package: where its TestControlContract declares the matrix
var agentDir = map[string]string{
	"idealmemcontroller": "idealmemcontroller", "dram": "dram", "simplebankedmemory": "simplebankedmemory",
	"writeback": "cache/writeback", "writethroughcache": "cache/writethroughcache",
	"tlb": "vm/tlb", "mmuCache": "vm/mmuCache", "mmu": "vm/mmu", "gmmu": "vm/gmmu",
	"addresstranslator": "vm/addresstranslator", "rob": "rob", "datamover": "datamover",
}

var matrixRe = regexp.MustCompile(`memcontrolprotocol\.(Universal|CacheLike|TranslationCacheLike)\(\)`)

// Matrix obtains the agent's verb-support matrix the way the agent declares it: the
// VerbSupport constructor named in its TestControlContract, evaluated by the REAL
// memcontrolprotocol package.
func Matrix(agent string) (memcontrolprotocol.VerbSupport, string, error) {
	repo := os.Getenv("VERIF_REPO")
	if repo == "" {
		repo = "/repo"
	}
	f := filepath.Join(repo, "mem", agentDir[agent], "control_contract_test.go")
	b, err := os.ReadFile(f)
	if err != nil {
		return memcontrolprotocol.VerbSupport{}, "", err
	}
	m := matrixRe.FindAllSubmatch(b, -1)
	if len(m) == 0 {
		return memcontrolprotocol.VerbSupport{}, "", fmt.Errorf("%s declares no VerbSupport", f)
	}
	name := string(m[len(m)-1][1]) // the one passed to RunContract is the last mention
	for _, x := range m {
		if string(x[1]) != name {
			return memcontrolprotocol.VerbSupport{}, "", fmt.Errorf("%s mentions two different matrices", f)
		}
	}
	switch name {
	case "Universal":
		return memcontrolprotocol.Universal(), name, nil
	case "CacheLike":
		return memcontrolprotocol.CacheLike(), name, nil
	default:
		return memcontrolprotocol.TranslationCacheLike(), name, nil
	}
}

// rig is one agent under test with everything the driver needs to know about it.
type rig struct {
	comp      memdrv.PortOwner
	reqPorts  []string // ports on which data requests arrive and data responses leave
	downPorts []string // ports on which the agent talks to lower modules (answered by the stub)
	quiescent func() bool
	paused    func() bool
	state     func() any
	ideal     *idealmemcontroller.Comp
	mkData    func(op opIn, meta messaging.MsgMeta) messaging.Msg
}

const drv = "Drv"

func down(i int) messaging.RemotePort { return messaging.RemotePort(fmt.Sprintf("%s.D%d", drv, i)) }

func knob(cfg map[string]int, k string, def int) int {
	if v, ok := cfg[k]; ok {
		return v
	}
	return def
}

func memData(op opIn, meta messaging.MsgMeta) messaging.Msg {
	addr := op.Addr &^ 3
	if op.Write {
		meta.TrafficClass = "memprotocol.WriteReq"
		meta.TrafficBytes = 16
		return memprotocol.WriteReq{MsgMeta: meta, Address: addr, Data: []byte{byte(op.Addr), 2, 3, 4}, PID: vm.PID(op.PID)}
	}
	meta.TrafficClass = "memprotocol.ReadReq"
	meta.TrafficBytes = 12
	return memprotocol.ReadReq{MsgMeta: meta, Address: addr, AccessByteSize: 4, PID: vm.PID(op.PID)}
}

func xlatData(devID uint64) func(op opIn, meta messaging.MsgMeta) messaging.Msg {
	return func(op opIn, meta messaging.MsgMeta) messaging.Msg {
		meta.TrafficClass = "vmprotocol.TranslationReq"
		return vmprotocol.TranslationReq{MsgMeta: meta, VAddr: op.Addr &^ 4095, PID: vm.PID(1 + op.PID%2), DeviceID: devID}
	}
}

func ctrlPaused(s *memcontrolprotocol.State) func() bool {
	return func() bool { return *s == memcontrolprotocol.StatePaused }
}

func pageTable(devOf func(i int) uint64) vm.PageTable {
	pt := vm.NewPageTable(12)
	for pid := 1; pid <= 2; pid++ {
		for i := 0; i < 64; i++ {
			pt.Insert(vm.Page{PID: vm.PID(pid), VAddr: uint64(i) * 4096, PAddr: uint64(pid)<<24 | uint64(i)*4096,
				PageSize: 4096, Valid: true, DeviceID: devOf(i), Unified: false})
		}
	}
	return pt
}

// buildRig builds the agent with the package's own Builder.
func buildRig(sim *memdrv.Sim, agent string, cfg map[string]int, buf int) (*rig, error) {
	reg := sim.Reg
	switch agent {
	case "idealmemcontroller":
		spec := idealmemcontroller.DefaultSpec()
		spec.Width = knob(cfg, "width", 1)
		spec.Latency = knob(cfg, "latency", 10)
		c := idealmemcontroller.MakeBuilder().WithRegistrar(reg).
			WithResources(idealmemcontroller.Resources{Storage: mem.NewStorage(1 * mem.MB)}).WithSpec(spec).Build("AUT")
		sim.AddPorts(c, buf, "Top", "Control")
		return &rig{comp: c, ideal: c, reqPorts: []string{"Top"}, mkData: memData,
			quiescent: func() bool { return len(c.State.InflightTransactions) == 0 },
			paused:    ctrlPaused(&c.State.ControlState)}, nil
	case "dram":
		spec := dram.DefaultSpec()
		spec.PagePolicy = dram.PagePolicy(knob(cfg, "open", 0))
		c := dram.MakeBuilder().WithRegistrar(reg).WithSpec(spec).
			WithResources(dram.Resources{Storage: mem.NewStorage(1 * mem.MB)}).Build("AUT")
		sim.AddPorts(c, buf, "Top", "Control")
		return &rig{comp: c, reqPorts: []string{"Top"}, mkData: memData,
			quiescent: func() bool { return len(c.State.Transactions) == 0 },
			paused:    ctrlPaused(&c.State.ControlState)}, nil
	case "simplebankedmemory":
		spec := simplebankedmemory.DefaultSpec()
		spec.NumBanks = knob(cfg, "banks", 2)
		spec.BankPipelineDepth = knob(cfg, "depth", 2)
		spec.StageLatency = knob(cfg, "latency", 3)
		c := simplebankedmemory.MakeBuilder().WithRegistrar(reg).WithSpec(spec).
			WithResources(simplebankedmemory.Resources{Storage: mem.NewStorage(1 * mem.MB)}).Build("AUT")
		sim.AddPorts(c, buf, "Top", "Control")
		return &rig{comp: c, reqPorts: []string{"Top"}, mkData: memData,
			quiescent: func() bool {
				for i := range c.State.Banks {
					b := &c.State.Banks[i]
					if len(b.Pipeline.Stages()) != 0 || b.PostPipelineBuf.Size() != 0 {
						return false
					}
				}
				return true
			},
			paused: ctrlPaused(&c.State.ControlState)}, nil
	case "writeback":
		spec := writeback.DefaultSpec()
		spec.TotalByteSize = uint64(knob(cfg, "bytes", 512))
		spec.NumBanks = 1
		spec.NumMSHREntry = knob(cfg, "mshr", 4)
		spec.NumReqPerCycle = 1
		spec.WayAssociativity = 2
		spec.Log2BlockSize = 6
		spec.BankLatency = knob(cfg, "latency", 1)
		spec.DirLatency = 1
		c := writeback.MakeBuilder().WithRegistrar(reg).WithSpec(spec).
			WithResources(writeback.Resources{Storage: mem.NewStorage(1 * mem.MB),
				AddressToPortMapper: &mem.SinglePortMapper{Port: down(0)}}).Build("AUT")
		sim.AddPorts(c, buf, "Top", "Bottom", "Control")
		return &rig{comp: c, reqPorts: []string{"Top"}, downPorts: []string{"Bottom"}, mkData: memData,
			quiescent: func() bool {
				s := &c.State
				for i := range s.Transactions {
					if !s.Transactions[i].Removed {
						return false
					}
				}
				if s.WriteBufferBuf.Size() > 0 {
					return false
				}
				for _, n := range s.BankInflightTransCounts {
					if n > 0 {
						return false
					}
				}
				for _, n := range s.BankDownwardInflightTransCounts {
					if n > 0 {
						return false
					}
				}
				return true
			},
			// cacheStatePaused is the fifth value of the package's cacheState enum
			paused: func() bool { return c.State.CacheState == 4 }}, nil
	case "writethroughcache":
		spec := writethroughcache.DefaultSpec()
		spec.TotalByteSize = uint64(knob(cfg, "bytes", 512))
		spec.NumBanks = 1
		spec.NumMSHREntry = knob(cfg, "mshr", 4)
		spec.NumReqPerCycle = 1
		spec.WayAssociativity = 2
		spec.Log2BlockSize = 6
		spec.BankLatency = knob(cfg, "latency", 1)
		spec.DirLatency = 1
		spec.WritePolicyType = []string{"write-around", "write-evict", "write-through"}[knob(cfg, "policy", 0)%3]
		c := writethroughcache.MakeBuilder().WithRegistrar(reg).WithSpec(spec).
			WithResources(writethroughcache.Resources{Storage: mem.NewStorage(1 * mem.MB),
				AddressMapper: &mem.SinglePortMapper{Port: down(0)}}).Build("AUT")
		sim.AddPorts(c, buf, "Top", "Bottom", "Control")
		return &rig{comp: c, reqPorts: []string{"Top"}, downPorts: []string{"Bottom"}, mkData: memData,
			quiescent: func() bool {
				for i := range c.State.Transactions {
					if !c.State.Transactions[i].Removed {
						return false
					}
				}
				return true
			},
			paused: func() bool { return c.State.IsPaused }}, nil
	case "tlb":
		spec := tlb.DefaultSpec()
		spec.NumSets = 2
		spec.NumWays = 2
		spec.MSHRSize = knob(cfg, "mshr", 2)
		spec.Latency = knob(cfg, "latency", 2)
		spec.NumReqPerCycle = knob(cfg, "width", 2)
		c := tlb.MakeBuilder().WithRegistrar(reg).WithSpec(spec).
			WithResources(tlb.Resources{TranslationProviderMapper: &mem.SinglePortMapper{Port: down(0)}}).Build("AUT")
		sim.AddPorts(c, buf, "Top", "Bottom", "Control")
		return &rig{comp: c, reqPorts: []string{"Top"}, downPorts: []string{"Bottom"}, mkData: xlatData(1),
			quiescent: func() bool { return len(c.State.MSHREntries) == 0 && !c.State.HasRespondingMSHR },
			paused:    func() bool { return c.State.TLBState == "pause" }}, nil
	case "mmuCache":
		spec := mmuCache.DefaultSpec()
		spec.NumBlocks = knob(cfg, "blocks", 2)
		spec.NumLevels = knob(cfg, "levels", 4)
		spec.LatencyPerLevel = uint64(knob(cfg, "latency", 3))
		c := mmuCache.MakeBuilder().WithRegistrar(reg).WithSpec(spec).
			WithResources(mmuCache.Resources{LowModulePort: down(0),
				UpModulePort: messaging.RemotePort(drv + ".Top")}).Build("AUT")
		sim.AddPorts(c, buf, "Top", "Bottom", "Control")
		return &rig{comp: c, reqPorts: []string{"Top"}, downPorts: []string{"Bottom"}, mkData: xlatData(1),
			quiescent: func() bool { return len(c.State.OutstandingBottomReqs) == 0 },
			paused:    func() bool { return c.State.CurrentState == "pause" }}, nil
	case "mmu":
		spec := mmu.DefaultSpec()
		spec.Latency = knob(cfg, "latency", 4)
		spec.MaxRequestsInFlight = knob(cfg, "inflight", 4)
		c := mmu.MakeBuilder().WithRegistrar(reg).WithSpec(spec).
			WithResources(mmu.Resources{PageTable: pageTable(func(int) uint64 { return 1 })}).Build("AUT")
		sim.AddPorts(c, buf, "Top", "Control")
		return &rig{comp: c, reqPorts: []string{"Top"}, mkData: xlatData(1),
			quiescent: func() bool { return len(c.State.WalkingTranslations) == 0 },
			paused:    ctrlPaused(&c.State.ControlState)}, nil
	case "gmmu":
		spec := gmmu.DefaultSpec()
		spec.DeviceID = 1
		spec.Latency = knob(cfg, "latency", 3)
		spec.MaxRequestsInFlight = knob(cfg, "inflight", 4)
		spec.LowModule = down(0)
		// odd pages live on another device: the GMMU forwards those walks to LowModule
		c := gmmu.MakeBuilder().WithRegistrar(reg).WithSpec(spec).
			WithResources(gmmu.Resources{PageTable: pageTable(func(i int) uint64 { return uint64(1 + i%2) })}).Build("AUT")
		sim.AddPorts(c, buf, "Top", "Bottom", "Control")
		return &rig{comp: c, reqPorts: []string{"Top"}, downPorts: []string{"Bottom"}, mkData: xlatData(1),
			quiescent: func() bool { return len(c.State.WalkingTranslations) == 0 && len(c.State.RemoteMemReqs) == 0 },
			paused:    ctrlPaused(&c.State.ControlState)}, nil
	case "addresstranslator":
		spec := addresstranslator.DefaultSpec()
		spec.Log2PageSize = 12
		spec.DeviceID = 1
		spec.NumReqPerCycle = knob(cfg, "width", 2)
		c := addresstranslator.MakeBuilder().WithRegistrar(reg).WithSpec(spec).
			WithResources(addresstranslator.Resources{
				MemProviderMapper:         &mem.SinglePortMapper{Port: down(0)},
				TranslationProviderMapper: &mem.SinglePortMapper{Port: down(1)}}).Build("AUT")
		sim.AddPorts(c, buf, "Top", "Bottom", "Translation", "Control")
		return &rig{comp: c, reqPorts: []string{"Top"}, downPorts: []string{"Bottom", "Translation"},
			mkData: func(op opIn, meta messaging.MsgMeta) messaging.Msg {
				op.PID = 1 + op.PID%2
				return memData(op, meta)
			},
			quiescent: func() bool { return len(c.State.Transactions) == 0 && len(c.State.InflightReqToBottom) == 0 },
			paused:    ctrlPaused(&c.State.ControlState)}, nil
	case "rob":
		spec := rob.DefaultSpec()
		spec.BufferSize = knob(cfg, "size", 4)
		spec.NumReqPerCycle = knob(cfg, "width", 2)
		spec.BottomUnit = down(0)
		c := rob.MakeBuilder().WithRegistrar(reg).WithSpec(spec).Build("AUT")
		sim.AddPorts(c, buf, "Top", "Bottom", "Control")
		return &rig{comp: c, reqPorts: []string{"Top"}, downPorts: []string{"Bottom"}, mkData: memData,
			quiescent: func() bool { return len(c.State.Transactions) == 0 },
			paused:    ctrlPaused(&c.State.ControlState)}, nil
	case "datamover":
		spec := datamover.DefaultSpec()
		spec.BufferSize = 256
		spec.InsideByteGranularity = 64
		spec.OutsideByteGranularity = 64
		c := datamover.MakeBuilder().WithRegistrar(reg).WithSpec(spec).
			WithResources(datamover.Resources{
				InsideMapper:  &mem.SinglePortMapper{Port: down(0)},
				OutsideMapper: &mem.SinglePortMapper{Port: down(1)}}).Build("AUT")
		sim.AddPorts(c, buf, "Top", "Inside", "Outside", "Control")
		return &rig{comp: c, reqPorts: []string{"Top"}, downPorts: []string{"Inside", "Outside"},
			mkData: func(op opIn, meta messaging.MsgMeta) messaging.Msg {
				meta.TrafficClass = "datamoverprotocol.DataMoveRequest"
				src, dst := datamoverprotocol.DataMovePort("inside"), datamoverprotocol.DataMovePort("outside")
				if op.Write {
					src, dst = dst, src
				}
				return datamoverprotocol.DataMoveRequest{MsgMeta: meta, SrcAddress: (op.Addr &^ 63) % 4096,
					DstAddress: 8192 + (op.Addr&^63)%4096, ByteSize: uint64(64 * (1 + op.PID%3)), SrcSide: src, DstSide: dst}
			},
			state:     func() any { return c.State },
			quiescent: func() bool { return !c.State.CurrentTransaction.Active },
			paused:    ctrlPaused(&c.State.ControlState)}, nil
	}
	return nil, fmt.Errorf("unknown agent %q", agent)
}

// answer builds the lower module's response to a request the agent sent downwards.
func answer(msg messaging.Msg, from messaging.RemotePort) messaging.Msg {
	meta := msg.Meta()
	out := messaging.MsgMeta{ID: memdrv.NewID(), Src: from, Dst: meta.Src, RspTo: meta.ID}
	switch m := msg.(type) {
	case memprotocol.ReadReq:
		out.TrafficClass = "memprotocol.DataReadyRsp"
		out.TrafficBytes = int(m.AccessByteSize) + 4
		return memprotocol.DataReadyRsp{MsgMeta: out, Data: make([]byte, m.AccessByteSize)}
	case memprotocol.WriteReq:
		out.TrafficClass = "memprotocol.WriteDoneRsp"
		out.TrafficBytes = 4
		return memprotocol.WriteDoneRsp{MsgMeta: out}
	case vmprotocol.TranslationReq:
		out.TrafficClass = "vmprotocol.TranslationRsp"
		va := m.VAddr &^ 4095
		return vmprotocol.TranslationRsp{MsgMeta: out, Page: vm.Page{PID: m.PID, VAddr: va, PAddr: 1<<28 | va,
			PageSize: 4096, Valid: true, DeviceID: m.DeviceID}}
	}
	return nil
}
