package c25

import (
	"encoding/json"
	"fmt"
	"strconv"

	"verifharness/internal/hx"
)

func genAT(r *hx.Rand) json.RawMessage {
	k := uint64([]int{12, 12, 13, 16, 21, 30, 0, 1, 63, 64, 70}[r.Intn(11)])
	var va uint64
	switch r.Pick(3, 2, 2, 1) {
	case 0:
		va = r.U64()
	case 1:
		va = r.U64n(1 << 40)
	case 2:
		va = (r.U64n(1<<20) << (k % 64)) + r.U64n(3) // just above a page boundary
	default:
		va = ^uint64(0) - r.U64n(5000)
	}
	pp := r.U64n(1<<30) << (k % 64)
	switch r.Pick(6, 1, 1) {
	case 1:
		pp = r.U64() // unaligned frame
	case 2:
		pp = (^uint64(0) >> (k % 64)) << (k % 64) // the last frame of the address space
	}
	return hx.J(input{AT: &atIn{K: k, PID: uint32(1 + r.Intn(3)), VAddr: va, PPage: pp}})
}

func genTLB(r *hx.Rand) json.RawMessage {
	log2 := uint64([]int{12, 13, 16, 21}[r.Intn(4)])
	ps := uint64(1) << log2
	in := &tlbIn{Log2: log2, NSets: 1 + r.Intn(5), VAddr: r.U64n(64)*ps + r.U64n(ps)}
	n := 2 + r.Intn(6)
	pids := []uint32{1, 2, 3, 12, 25, 123}
	pgs := []uint64{0, 1, 2, 3, 4, 5, 0x23, 0x51, 0x37}
	for i := 0; i < n; i++ {
		in.Cached = append(in.Cached, pageIn{PID: pids[r.Intn(len(pids))], VAddr: pgs[r.Intn(len(pgs))] * ps})
	}
	if r.Chance(1, 2) { // the same virtual page cached for two processes
		in.Cached = append(in.Cached, pageIn{PID: in.Cached[0].PID%3 + 1, VAddr: in.Cached[0].VAddr})
		n++
	}
	switch r.Pick(2, 3, 2) {
	case 0:
	case 1:
		for i := 0; i < 1+r.Intn(3); i++ {
			in.Addrs = append(in.Addrs, r.U64n(8)*ps+r.U64n(ps))
		}
	default:
		in.Addrs = append(in.Addrs, in.Cached[r.Intn(n)].VAddr+r.U64n(ps))
	}
	if r.Chance(1, 3) {
		in.FPID = pids[r.Intn(len(pids))]
	}
	return hx.J(input{TLB: in})
}

// pidPools: process IDs over a wide range, including pairs where one PID's decimal string is
// a prefix of the other's (1/12, 2/25, 12/123, 1/11/111): a (PID, address) key built by plain
// concatenation would confuse such processes.
var pidPools = [][]uint32{{1, 2, 3}, {1, 12}, {2, 25}, {12, 123}, {1, 11, 111}, {7, 70, 200}}

// pagePool returns a few small page indices plus, for every prefix pair of PIDs, the page
// indices whose hexadecimal spelling is "<remaining PID digits><spelling of a small index>".
func pagePool(r *hx.Rand, pids []uint32, n int) []uint64 {
	var pages []uint64
	for g := 0; g < n; g++ {
		pages = append(pages, uint64(g))
	}
	for _, a := range pids {
		for _, b := range pids {
			da, db := fmt.Sprint(a), fmt.Sprint(b)
			if a == b || len(db) <= len(da) || db[:len(da)] != da {
				continue
			}
			rest := db[len(da):]
			for g := 1; g < n && g < 4; g++ {
				if v, err := strconv.ParseUint(rest+strconv.FormatUint(uint64(g), 16), 16, 64); err == nil {
					pages = append(pages, v)
				}
			}
		}
	}
	return pages
}

func genStack(r *hx.Rand, nphase int) json.RawMessage {
	return genStackWith(r, nphase, nil, false)
}

func genStackWith(r *hx.Rand, nphase int, pids []uint32, roomy bool) json.RawMessage {
	k := uint64([]int{12, 12, 13, 16, 21}[r.Intn(5)])
	if roomy {
		k = uint64([]int{12, 16}[r.Intn(2)])
	}
	ps := uint64(1) << k
	in := &stackIn{K: k, MMUCache: r.Chance(2, 5), GMMU: r.Chance(1, 3), Latency: 1 + r.Intn(6), Inflight: 1 + r.Intn(4),
		Buf: 1 + r.Intn(5)}
	for i := 0; i < 1+r.Intn(3); i++ {
		c := tlbCfg{Sets: 1 + r.Intn(3), Ways: 1 + r.Intn(3), MSHR: 1 + r.Intn(3), Latency: 1 + r.Intn(4), Width: 1 + r.Intn(3)}
		if roomy { // everything stays resident in one set
			c.Sets, c.Ways = 1, 16+r.Intn(8)
		} else if r.Chance(1, 3) {
			c.Ways = 4 + r.Intn(6)
		}
		in.TLBs = append(in.TLBs, c)
	}
	for i := 0; i < 1+r.Intn(4); i++ {
		in.MemDelay = append(in.MemDelay, []int{1, 3, 9, 30}[r.Intn(4)])
	}
	if pids == nil {
		switch r.Pick(2, 3, 1) {
		case 0:
			pids = pidPools[0][:1+r.Intn(3)]
		case 1:
			pids = pidPools[r.Intn(len(pidPools))]
		default:
			pids = []uint32{uint32(1 + r.Intn(200)), uint32(1 + r.Intn(200)), uint32(1 + r.Intn(200))}
			if pids[0] == pids[1] || pids[1] == pids[2] || pids[0] == pids[2] {
				pids = []uint32{5, 50, 150}
			}
		}
	}
	pages := pagePool(r, pids, 2+r.Intn(4))
	frame := uint64(16)
	newFrame := func() uint64 { frame += 1 + r.U64n(3); return frame * ps }
	// initial page table
	for _, p := range pids {
		for _, g := range pages {
			in.Ops = append(in.Ops, stackOp{K: "map", PID: p, Page: g, PAddr: newFrame()})
		}
	}
	rpid := func() uint32 { return pids[r.Intn(len(pids))] }
	rpage := func() uint64 { return pages[r.Intn(len(pages))] }
	acc := func(n int) {
		for i := 0; i < n; i++ {
			in.Ops = append(in.Ops, stackOp{K: "acc", PID: rpid(), VAddr: rpage()*ps + r.U64n(ps/4)*4,
				Write: r.Chance(1, 3), Gap: r.Pick(4, 2, 1) * r.Intn(6)})
		}
	}
	touchAll := func(g uint64) { // every process caches page g
		for _, p := range pids {
			in.Ops = append(in.Ops, stackOp{K: "acc", PID: p, VAddr: g*ps + r.U64n(ps/4)*4})
		}
	}
	if roomy {
		for _, g := range pages {
			touchAll(g)
		}
	}
	acc(4 + r.Intn(10))
	for ph := 0; ph < nphase; ph++ {
		switch r.Pick(5, 2, 2, 4) {
		case 0: // quiesce, remap some pages, invalidate exactly those, go on
			in.Ops = append(in.Ops, stackOp{K: "bar"})
			p := rpid()
			var pgs []uint64
			for i := 0; i < 1+r.Intn(2); i++ {
				g := rpage()
				pgs = append(pgs, g)
				in.Ops = append(in.Ops, stackOp{K: "map", PID: p, Page: g, PAddr: newFrame()})
			}
			op := stackOp{K: "inv", PID: p, Pages: pgs}
			switch r.Pick(3, 1, 1) {
			case 1:
				op.All = true // everything of the process
			case 2:
				op.All, op.PID = true, 0 // everything
			}
			in.Ops = append(in.Ops, op)
		case 1: // remap under traffic WITHOUT invalidation: the old mapping stays permitted
			in.Ops = append(in.Ops, stackOp{K: "map", PID: rpid(), Page: rpage(), PAddr: newFrame()})
		case 2: // quiesce and invalidate pages that did not change
			op := stackOp{K: "inv", PID: rpid(), Pages: []uint64{rpage()}}
			if r.Chance(1, 3) {
				op.PID = 0
			}
			in.Ops = append(in.Ops, stackOp{K: "bar"}, op)
		default: // a virtual page shared by all processes: everybody caches it, it is remapped for
			// everybody, and ONE invalidation with the PID wildcard (PID 0) and that address covers all
			g := rpage()
			touchAll(g)
			in.Ops = append(in.Ops, stackOp{K: "bar"})
			for _, p := range pids {
				in.Ops = append(in.Ops, stackOp{K: "map", PID: p, Page: g, PAddr: newFrame()})
			}
			in.Ops = append(in.Ops, stackOp{K: "inv", PID: 0, Pages: []uint64{g}})
			touchAll(g)
		}
		acc(3 + r.Intn(10))
	}
	return hx.J(input{Stack: in})
}

func gen(r *hx.Rand, tier string) []json.RawMessage {
	na, nt, ns := 80, 40, 70
	if tier == "thorough" {
		na, nt, ns = 2000, 400, 500
	}
	var out []json.RawMessage
	// directed: the two stack shapes with confirmed defects (fixed): MMU cache below a TLB, GMMU with remote pages
	for _, sh := range []struct{ mc, gm bool }{{true, false}, {false, true}, {true, true}, {false, false}} {
		rr := r.Fork()
		var in input
		hx.UJ(genStack(rr, 3), &in)
		in.Stack.MMUCache, in.Stack.GMMU = sh.mc, sh.gm
		out = append(out, hx.J(in))
	}
	// directed: three (and more) lookups of one page coalescing on an outstanding miss, the page
	// remapped and invalidated, three more coalesced misses; slow walker so that the miss stays open
	for i := 0; i < 3; i++ {
		rr := r.Fork()
		k := uint64([]int{12, 13, 16}[i])
		ps := uint64(1) << k
		in := &stackIn{K: k, MMUCache: i == 1, GMMU: i == 2, Latency: 12 + rr.Intn(10), Inflight: 2, Buf: 4, MemDelay: []int{3}}
		for j := 0; j <= i; j++ {
			in.TLBs = append(in.TLBs, tlbCfg{Sets: 1, Ways: 4, MSHR: 2, Latency: 1 + rr.Intn(2), Width: 2})
		}
		frame := uint64(32)
		for _, p := range []uint32{1, 12} {
			for g := uint64(0); g < 2; g++ {
				frame += 2
				in.Ops = append(in.Ops, stackOp{K: "map", PID: p, Page: g, PAddr: frame * ps})
			}
		}
		burst := func() {
			for _, p := range []uint32{1, 12} {
				for j := 0; j < 3+rr.Intn(3); j++ {
					in.Ops = append(in.Ops, stackOp{K: "acc", PID: p, VAddr: ps + uint64(4*j), Write: j == 1})
				}
			}
		}
		burst()
		in.Ops = append(in.Ops, stackOp{K: "bar"})
		for _, p := range []uint32{1, 12} {
			frame += 3
			in.Ops = append(in.Ops, stackOp{K: "map", PID: p, Page: 1, PAddr: frame * ps})
		}
		in.Ops = append(in.Ops, stackOp{K: "inv", PID: 0, Pages: []uint64{1}})
		burst()
		out = append(out, hx.J(input{Stack: in}))
	}
	// directed: prefix-related PIDs with alias-prone pages, everything resident (one big set)
	for _, pool := range pidPools[1:] {
		out = append(out, genStackWith(r.Fork(), 3, pool, true))
	}
	for i := 0; i < na; i++ {
		out = append(out, genAT(r.Fork()))
	}
	for i := 0; i < nt; i++ {
		out = append(out, genTLB(r.Fork()))
	}
	for i := 0; i < ns; i++ {
		out = append(out, genStack(r.Fork(), 1+r.Intn(4)))
	}
	return out
}

func shrink(raw json.RawMessage) []json.RawMessage {
	var in input
	if hx.UJ(raw, &in) != nil || in.Stack == nil {
		return nil
	}
	var out []json.RawMessage
	n := len(in.Stack.Ops)
	for i := n - 1; i >= 0 && len(out) < 40; i-- {
		if in.Stack.Ops[i].K == "map" && i < 24 {
			continue
		}
		c := *in.Stack
		c.Ops = append(append([]stackOp{}, in.Stack.Ops[:i]...), in.Stack.Ops[i+1:]...)
		out = append(out, hx.J(input{Stack: &c}))
	}
	return out
}

func init() {
	hx.Register(&hx.Prop{
		ID:      "C25",
		Imports: "From Akita Require Import Lib.Base C25.Model C25.Exec.",
		Rule: "Kernel probes: a real address translator (log2 page size in {0,1,12,13,16,21,30,63,64,70}, vaddr uniform / small / just above a page " +
			"boundary / near 2^64, frame aligned / unaligned / last frame) and a real TLB (page sizes 2^12..2^21, 1-5 sets, 2-7 cached pages of 3 processes, " +
			"Invalidate with empty / random / hitting address filter and optional PID filter). Stacks built from the real components: address translator, 1-3 " +
			"TLB levels (1-3 sets x 1-9 ways, MSHR 1-3, latency 1-4), optional MMU cache, MMU or GMMU (every third page owned by another device and resolved through " +
			"LowModule), page sizes 2^12..2^21, processes drawn from PID pools over 1..200 incl. decimal-prefix pairs (1/12, 2/25, 12/123, 1/11/111) with the page indices whose hex " +
			"spelling continues the longer PID (alias-prone keys), random frames; 1-4 phases of {quiesce + remap + invalidate exactly those pages / all of the " +
			"process / everything, remap under traffic without invalidation, quiesce + invalidate unchanged pages (own PID or wildcard), a page cached by every process remapped for all and " +
			"invalidated once with the PID-0 wildcard + address filter} between bursts of reads/writes; directed stacks per prefix pool with everything resident in one 16+-way set; directed stacks with a slow walker where 3-5 lookups of one page coalesce on an outstanding miss, the page is remapped + invalidated, and 3-5 more coalesce; port buffers 1-5, " +
			"memory delays 1-30. The MMU-cache-below-TLB and GMMU-remote shapes are always included. Non-trivial: stack with >=4 accesses, >=4 translation " +
			"responses, >=2 page-table writes; AT probe with an in-page offset; TLB probe where the filter drops some but not all pages.",
		Gen: gen, Run: run, Shrink: shrink,
	})
}
