package c25

import (
	"fmt"

	"github.com/sarchlab/akita/v5/hooking"
	"github.com/sarchlab/akita/v5/mem"
	"github.com/sarchlab/akita/v5/mem/memcontrolprotocol"
	"github.com/sarchlab/akita/v5/mem/memprotocol"
	"github.com/sarchlab/akita/v5/mem/vm"
	"github.com/sarchlab/akita/v5/mem/vm/addresstranslator"
	"github.com/sarchlab/akita/v5/mem/vm/gmmu"
	"github.com/sarchlab/akita/v5/mem/vm/mmu"
	"github.com/sarchlab/akita/v5/mem/vm/mmuCache"
	"github.com/sarchlab/akita/v5/mem/vm/tlb"
	"github.com/sarchlab/akita/v5/mem/vm/vmprotocol"
	"github.com/sarchlab/akita/v5/messaging"
	"github.com/sarchlab/akita/v5/timing"

	"verifharness/internal/hx"
	"verifharness/internal/memdrv"
)

type sev struct {
	K     string `json:"k"`
	B     int    `json:"b,omitempty"`
	ID    uint64 `json:"id,omitempty"`
	Port  uint64 `json:"port,omitempty"`
	PID   uint64 `json:"pid,omitempty"`
	VAddr uint64 `json:"va,omitempty"`
	PAddr uint64 `json:"pa,omitempty"`
	Valid bool   `json:"valid,omitempty"`
}

func (e sev) coq() string {
	switch e.K {
	case "req":
		return hx.App("EReq", hx.N(uint64(e.B)), hx.N(e.ID), hx.N(e.Port), hx.N(e.PID), hx.N(e.VAddr))
	case "rsp":
		return hx.App("ERsp", hx.N(uint64(e.B)), hx.N(e.ID), hx.N(e.Port), hx.N(e.PID), hx.N(e.VAddr), hx.N(e.PAddr), hx.B(e.Valid))
	case "acc":
		return hx.App("EAcc", hx.N(e.ID), hx.N(e.Port), hx.N(e.PID), hx.N(e.VAddr))
	case "bot":
		return hx.App("EBot", hx.N(e.ID), hx.N(e.PAddr))
	case "accrsp":
		return hx.App("EAccRsp", hx.N(e.ID), hx.N(e.Port))
	case "pt":
		return hx.App("EPT", hx.N(e.PID), hx.N(e.VAddr), hx.N(e.PAddr))
	case "inv":
		return hx.App("EInv", hx.N(e.PID), hx.N(e.VAddr))
	}
	return "EEnd"
}

type stackObs struct {
	Events  []sev  `json:"events"`
	Problem string `json:"problem,omitempty"`
	Shape   string `json:"shape"`
}

type ctrlTarget struct {
	name   string
	port   messaging.Port
	caches bool // supports Invalidate
}

func runStack(in *stackIn) (hx.Case, error) {
	o := stackObs{}
	k := in.K
	psize := uint64(1) << k
	buf := in.Buf
	if buf < 1 {
		buf = 4
	}
	sim := memdrv.NewSim()
	reg := sim.Reg
	ports := map[messaging.RemotePort]uint64{}
	pid := func(p messaging.RemotePort) uint64 {
		if v, ok := ports[p]; ok {
			return v
		}
		ports[p] = uint64(len(ports) + 1)
		return ports[p]
	}
	log := func(e sev) { o.Events = append(o.Events, e) }
	pt := vm.NewPageTable(k)

	// --- build bottom-up so that every level knows the port below it
	var targets []ctrlTarget
	type boundary struct {
		top messaging.Port
	}
	var bounds []boundary // index = boundary number, 0 = first TLB
	nTLB := len(in.TLBs)
	names := []string{}
	// lowest level
	var lowTop messaging.Port
	gm := (*gmmu.Comp)(nil)
	if in.GMMU {
		spec := gmmu.DefaultSpec()
		spec.DeviceID = 1
		spec.Log2PageSize = k
		spec.Latency = in.Latency
		spec.MaxRequestsInFlight = max(1, in.Inflight)
		spec.LowModule = "Drv.Remote"
		gm = gmmu.MakeBuilder().WithRegistrar(reg).WithSpec(spec).WithResources(gmmu.Resources{PageTable: pt}).Build("GMMU")
		sim.AddPorts(gm, buf, "Top", "Bottom", "Control")
		lowTop = gm.GetPortByName("Top")
		targets = append(targets, ctrlTarget{"GMMU", gm.GetPortByName("Control"), false})
		names = append(names, "gmmu")
	} else {
		spec := mmu.DefaultSpec()
		spec.Log2PageSize = k
		spec.Latency = in.Latency
		spec.MaxRequestsInFlight = max(1, in.Inflight)
		m := mmu.MakeBuilder().WithRegistrar(reg).WithSpec(spec).WithResources(mmu.Resources{PageTable: pt}).Build("MMU")
		sim.AddPorts(m, buf, "Top", "Control")
		lowTop = m.GetPortByName("Top")
		targets = append(targets, ctrlTarget{"MMU", m.GetPortByName("Control"), false})
		names = append(names, "mmu")
	}
	lowerTop := lowTop
	lowerBounds := []messaging.Port{lowTop}
	var connect [][2]messaging.Port
	if in.MMUCache {
		spec := mmuCache.DefaultSpec()
		spec.Log2PageSize = k
		spec.PageSize = psize
		spec.NumLevels = 4
		spec.NumBlocks = 2
		spec.LatencyPerLevel = 2
		upName := messaging.RemotePort("AT.Translation")
		if nTLB > 0 {
			upName = messaging.RemotePort(fmt.Sprintf("TLB%d.Bottom", nTLB-1))
		}
		mc := mmuCache.MakeBuilder().WithRegistrar(reg).WithSpec(spec).
			WithResources(mmuCache.Resources{LowModulePort: lowerTop.AsRemote(), UpModulePort: upName}).Build("MMUCache")
		sim.AddPorts(mc, buf, "Top", "Bottom", "Control")
		connect = append(connect, [2]messaging.Port{mc.GetPortByName("Bottom"), lowerTop})
		lowerTop = mc.GetPortByName("Top")
		lowerBounds = append([]messaging.Port{lowerTop}, lowerBounds...)
		targets = append(targets, ctrlTarget{"MMUCache", mc.GetPortByName("Control"), true})
		names = append([]string{"mmucache"}, names...)
	}
	for i := nTLB - 1; i >= 0; i-- {
		c := in.TLBs[i]
		spec := tlb.DefaultSpec()
		spec.NumSets = max(1, c.Sets)
		spec.NumWays = max(1, c.Ways)
		spec.Log2PageSize = k
		spec.MSHRSize = max(1, c.MSHR)
		spec.Latency = max(1, c.Latency)
		spec.NumReqPerCycle = max(1, c.Width)
		t := tlb.MakeBuilder().WithRegistrar(reg).WithSpec(spec).
			WithResources(tlb.Resources{TranslationProviderMapper: &mem.SinglePortMapper{Port: lowerTop.AsRemote()}}).
			Build(fmt.Sprintf("TLB%d", i))
		sim.AddPorts(t, buf, "Top", "Bottom", "Control")
		connect = append(connect, [2]messaging.Port{t.GetPortByName("Bottom"), lowerTop})
		lowerTop = t.GetPortByName("Top")
		lowerBounds = append([]messaging.Port{lowerTop}, lowerBounds...)
		targets = append(targets, ctrlTarget{t.Name(), t.GetPortByName("Control"), true})
		names = append([]string{"tlb"}, names...)
	}
	for _, p := range lowerBounds {
		bounds = append(bounds, boundary{top: p})
	}
	atSpec := addresstranslator.DefaultSpec()
	atSpec.Log2PageSize = k
	atSpec.DeviceID = 1
	atSpec.NumReqPerCycle = 2
	at := addresstranslator.MakeBuilder().WithRegistrar(reg).WithSpec(atSpec).
		WithResources(addresstranslator.Resources{
			MemProviderMapper:         &mem.SinglePortMapper{Port: "Drv.Mem"},
			TranslationProviderMapper: &mem.SinglePortMapper{Port: lowerTop.AsRemote()}}).Build("AT")
	sim.AddPorts(at, buf, "Top", "Bottom", "Translation", "Control")
	connect = append(connect, [2]messaging.Port{at.GetPortByName("Translation"), lowerTop})
	targets = append(targets, ctrlTarget{"AT", at.GetPortByName("Control"), false})
	o.Shape = "at>" + fmt.Sprint(names)

	d := sim.NewDriver("Drv", 1*timing.GHz, buf, "Top", "Mem", "Remote", "Ctrl")
	for _, c := range connect {
		sim.Connect(c[0], c[1])
	}
	sim.Connect(d.GetPortByName("Top"), at.GetPortByName("Top"))
	sim.Connect(d.GetPortByName("Mem"), at.GetPortByName("Bottom"))
	if gm != nil {
		sim.Connect(d.GetPortByName("Remote"), gm.GetPortByName("Bottom"))
	}
	ctrlPorts := []messaging.Port{d.GetPortByName("Ctrl")}
	for _, t := range targets {
		ctrlPorts = append(ctrlPorts, t.port)
	}
	sim.Connect(ctrlPorts...)

	// --- observation
	for b := range bounds {
		bb := b
		bounds[b].top.AcceptHook(&memdrv.FuncHook{F: func(ctx hooking.HookCtx) {
			switch ctx.Pos {
			case messaging.HookPosPortMsgRecvd:
				if m, ok := ctx.Item.(vmprotocol.TranslationReq); ok {
					log(sev{K: "req", B: bb, ID: m.ID, Port: pid(m.Src), PID: uint64(m.PID), VAddr: m.VAddr})
				}
			case messaging.HookPosPortMsgSend:
				if m, ok := ctx.Item.(vmprotocol.TranslationRsp); ok {
					log(sev{K: "rsp", B: bb, ID: m.RspTo, Port: pid(m.Dst), PID: uint64(m.Page.PID), VAddr: m.Page.VAddr,
						PAddr: m.Page.PAddr, Valid: m.Page.Valid})
				}
			}
		}})
	}
	at.GetPortByName("Top").AcceptHook(&memdrv.FuncHook{F: func(ctx hooking.HookCtx) {
		m, ok := ctx.Item.(messaging.Msg)
		if !ok || m == nil {
			return
		}
		switch ctx.Pos {
		case messaging.HookPosPortMsgRecvd:
			if a, ok := m.(memprotocol.AccessReq); ok {
				log(sev{K: "acc", ID: m.Meta().ID, Port: pid(m.Meta().Src), PID: uint64(a.GetPID()), VAddr: a.GetAddress()})
			}
		case messaging.HookPosPortMsgSend:
			log(sev{K: "accrsp", ID: m.Meta().RspTo, Port: pid(m.Meta().Dst)})
		}
	}})
	type botSend struct{ id, addr uint64 }
	var botBuf []botSend
	at.GetPortByName("Bottom").AcceptHook(&memdrv.FuncHook{F: func(ctx hooking.HookCtx) {
		if ctx.Pos != messaging.HookPosPortMsgSend {
			return
		}
		if a, ok := ctx.Item.(memprotocol.AccessReq); ok {
			botBuf = append(botBuf, botSend{a.Meta().ID, a.GetAddress()})
		}
	}})
	limit := timing.VTimeInPicoSec(1000) * 400000
	sim.Engine.AcceptHook(&memdrv.FuncHook{F: func(ctx hooking.HookCtx) {
		switch ctx.Pos {
		case timing.HookPosAfterEvent:
			// resolve which top request each translated access belongs to (the translator
			// records the pair right after sending)
			for _, bs := range botBuf {
				found := false
				for _, r := range at.State.InflightReqToBottom {
					if r.ReqToBottomID == bs.id {
						log(sev{K: "bot", ID: r.ReqFromTopID, PAddr: bs.addr})
						found = true
					}
				}
				if !found {
					o.Problem = "translated access without a recorded top request"
				}
			}
			botBuf = botBuf[:0]
		case timing.HookPosBeforeEvent:
			if sim.Engine.CurrentTime() > limit {
				panic("no quiescence within the cycle budget")
			}
		}
	}})

	// --- the driver
	next := 0
	pendingAcc := 0
	gapUntil := uint64(0)
	seen := 0
	memDelay := in.MemDelay
	if len(memDelay) == 0 {
		memDelay = []int{2}
	}
	type due struct {
		at   uint64
		port string
		msg  messaging.Msg
	}
	var queue []due
	nd := 0
	// control sub-sequence state for "inv" ops
	type ctl struct {
		target int
		cmd    memcontrolprotocol.Command
		addrs  []uint64
		pid    uint32
	}
	var ctlQueue []ctl
	ctlWaiting := false
	var invKeys [][2]uint64
	cp := d.GetPortByName("Ctrl")
	d.TickFn = func(dd *memdrv.Driver) bool {
		progress := dd.Drain()
		for ; seen < len(dd.Log); seen++ {
			rc := dd.Log[seen]
			switch m := rc.Msg.(type) {
			case memprotocol.ReadReq:
				rsp := memprotocol.DataReadyRsp{Data: make([]byte, m.AccessByteSize)}
				rsp.ID, rsp.Src, rsp.Dst, rsp.RspTo = memdrv.NewID(), dd.GetPortByName("Mem").AsRemote(), m.Src, m.ID
				rsp.TrafficClass = "memprotocol.DataReadyRsp"
				queue = append(queue, due{dd.Cycle() + uint64(memDelay[nd%len(memDelay)]), "Mem", rsp})
				nd++
			case memprotocol.WriteReq:
				rsp := memprotocol.WriteDoneRsp{}
				rsp.ID, rsp.Src, rsp.Dst, rsp.RspTo = memdrv.NewID(), dd.GetPortByName("Mem").AsRemote(), m.Src, m.ID
				rsp.TrafficClass = "memprotocol.WriteDoneRsp"
				queue = append(queue, due{dd.Cycle() + uint64(memDelay[nd%len(memDelay)]), "Mem", rsp})
				nd++
			case vmprotocol.TranslationReq:
				// the remote owner of a page answers from the same page table
				pg, ok := pt.Find(m.PID, m.VAddr)
				if !ok {
					o.Problem = "remote lookup of an unmapped page"
					continue
				}
				rsp := vmprotocol.TranslationRsp{Page: pg}
				rsp.ID, rsp.Src, rsp.Dst, rsp.RspTo = memdrv.NewID(), dd.GetPortByName("Remote").AsRemote(), m.Src, m.ID
				rsp.TrafficClass = "vmprotocol.TranslationRsp"
				queue = append(queue, due{dd.Cycle() + uint64(memDelay[nd%len(memDelay)]), "Remote", rsp})
				nd++
			case memprotocol.DataReadyRsp, memprotocol.WriteDoneRsp:
				pendingAcc--
			case memcontrolprotocol.Rsp:
				if !m.Success {
					o.Problem = "control verb refused: " + m.Error
				}
				ctlWaiting = false
			}
			progress = true
		}
		kept := queue[:0]
		blocked := map[string]bool{}
		for _, q := range queue {
			p := dd.GetPortByName(q.port)
			if q.at <= dd.Cycle() && !blocked[q.port] && p.CanSend() {
				p.Send(q.msg)
				progress = true
				continue
			}
			if q.at <= dd.Cycle() {
				blocked[q.port] = true
			}
			kept = append(kept, q)
		}
		queue = kept
		// control sub-sequence in progress
		if len(ctlQueue) > 0 || ctlWaiting {
			if !ctlWaiting && cp.CanSend() {
				c := ctlQueue[0]
				ctlQueue = ctlQueue[1:]
				req := memcontrolprotocol.Req{Command: c.cmd, Addresses: c.addrs, PID: vm.PID(c.pid)}
				req.ID, req.Src, req.Dst = memdrv.NewID(), cp.AsRemote(), targets[c.target].port.AsRemote()
				req.TrafficClass = "memcontrolprotocol.Req"
				cp.Send(req)
				ctlWaiting = true
			}
			return true
		}
		if len(invKeys) > 0 {
			for _, kk := range invKeys {
				log(sev{K: "inv", PID: kk[0], VAddr: kk[1]})
			}
			invKeys = nil
		}
		for next < len(in.Ops) {
			op := in.Ops[next]
			if dd.Cycle() < gapUntil {
				break
			}
			switch op.K {
			case "bar":
				if pendingAcc > 0 {
					return true
				}
			case "acc":
				top := dd.GetPortByName("Top")
				if !top.CanSend() {
					return true
				}
				meta := messaging.MsgMeta{ID: memdrv.NewID(), Src: top.AsRemote(), Dst: at.GetPortByName("Top").AsRemote()}
				if op.Write {
					meta.TrafficClass = "memprotocol.WriteReq"
					top.Send(memprotocol.WriteReq{MsgMeta: meta, Address: op.VAddr, Data: []byte{1, 2, 3, 4}, PID: vm.PID(op.PID)})
				} else {
					meta.TrafficClass = "memprotocol.ReadReq"
					top.Send(memprotocol.ReadReq{MsgMeta: meta, Address: op.VAddr, AccessByteSize: 4, PID: vm.PID(op.PID)})
				}
				pendingAcc++
			case "map":
				va := op.Page * psize
				dev := uint64(1)
				if in.GMMU && op.Page%3 == 2 {
					dev = 2 // owned by another device: the GMMU asks its LowModule
				}
				pg := vm.Page{PID: vm.PID(op.PID), VAddr: va, PAddr: op.PAddr, PageSize: psize, Valid: true, DeviceID: dev}
				if _, ok := pt.Find(vm.PID(op.PID), va); ok {
					pt.Update(pg)
				} else {
					pt.Insert(pg)
				}
				log(sev{K: "pt", PID: uint64(op.PID), VAddr: va, PAddr: op.PAddr})
			case "inv":
				// every caching level, top-down: Pause (or Drain) -> Invalidate -> Enable
				var addrs []uint64
				if !op.All {
					for _, p := range op.Pages {
						addrs = append(addrs, p*psize+uint64(p%7)) // any address inside the page
					}
				}
				first := memcontrolprotocol.CmdPause
				if op.Drain {
					first = memcontrolprotocol.CmdDrain
				}
				if op.Drain {
					// quiesce the translator first so that nothing new enters the stack
					ctlQueue = append(ctlQueue, ctl{target: len(targets) - 1, cmd: memcontrolprotocol.CmdDrain})
				}
				for ti := len(targets) - 1; ti >= 0; ti-- {
					if !targets[ti].caches {
						continue
					}
					ctlQueue = append(ctlQueue, ctl{target: ti, cmd: first},
						ctl{target: ti, cmd: memcontrolprotocol.CmdInvalidate, addrs: addrs, pid: op.PID},
						ctl{target: ti, cmd: memcontrolprotocol.CmdEnable})
				}
				if op.Drain {
					ctlQueue = append(ctlQueue, ctl{target: len(targets) - 1, cmd: memcontrolprotocol.CmdEnable})
				}
				// which (pid, page) keys does this invalidation cover?  (recorded once every level acknowledged)
				for _, kk := range allKeys(in) {
					if op.PID != 0 && uint64(op.PID) != kk[0] {
						continue
					}
					if !op.All {
						hit := false
						for _, p := range op.Pages {
							if p*psize == kk[1]*psize {
								hit = true
							}
						}
						if !hit {
							continue
						}
					}
					invKeys = append(invKeys, [2]uint64{kk[0], kk[1] * psize})
				}
				next++
				return true
			}
			if op.Gap > 0 {
				gapUntil = dd.Cycle() + uint64(op.Gap)
			}
			next++
			progress = true
		}
		return progress || next < len(in.Ops) || len(queue) > 0
	}
	d.TickLater()
	if p, msg := hx.Try(func() {
		if err := sim.Engine.Run(); err != nil {
			panic(err)
		}
	}); p {
		o.Problem = "panic: " + msg
	}
	if o.Problem == "" && next == len(in.Ops) {
		log(sev{K: "end"})
	}
	evs := make([]string, len(o.Events))
	cnt := map[string]int{}
	// lookups that arrived at a TLB while another lookup of the same (PID, page) was pending there
	type pk struct {
		b        int
		pid, pg  uint64
	}
	pendKey := map[pk]int{}
	idKey := map[[2]uint64]pk{}
	coalescedLookups := 0
	for i, e := range o.Events {
		evs[i] = e.coq()
		cnt[e.K]++
		switch e.K {
		case "req":
			if e.B < nTLB {
				kk := pk{e.B, e.PID, e.VAddr / psize}
				if pendKey[kk] > 0 {
					coalescedLookups++
				}
				pendKey[kk]++
				idKey[[2]uint64{uint64(e.B), e.ID}] = kk
			}
		case "rsp":
			if kk, ok := idKey[[2]uint64{uint64(e.B), e.ID}]; ok {
				pendKey[kk]--
				delete(idKey, [2]uint64{uint64(e.B), e.ID})
			}
		}
	}
	c := hx.Case{Obs: o}
	c.Coq = hx.App("StackCase", hx.N(k), hx.N(uint64(nTLB)), hx.L(evs), hx.B(o.Problem == ""))
	c.Tags = []string{"kind:stack", fmt.Sprintf("k:%d", k), fmt.Sprintf("tlbs:%d", nTLB)}
	if in.MMUCache {
		c.Tags = append(c.Tags, "mmucache")
	}
	if in.GMMU {
		c.Tags = append(c.Tags, "gmmu")
	} else {
		c.Tags = append(c.Tags, "mmu")
	}
	if cnt["inv"] > 0 {
		c.Tags = append(c.Tags, "invalidations")
	}
	if coalescedLookups > 0 {
		c.Tags = append(c.Tags, "coalesced-lookups")
	}
	if coalescedLookups >= 2 && cnt["inv"] > 0 {
		c.Tags = append(c.Tags, "coalesced>=3+invalidation")
	}
	c.Nontrivial = cnt["acc"] >= 4 && cnt["rsp"] >= 4 && cnt["pt"] >= 2
	return c, nil
}

// allKeys lists every (pid, page index) the script ever maps.
func allKeys(in *stackIn) [][2]uint64 {
	seen := map[[2]uint64]bool{}
	var out [][2]uint64
	for _, op := range in.Ops {
		if op.K == "map" {
			k := [2]uint64{uint64(op.PID), op.Page}
			if !seen[k] {
				seen[k] = true
				out = append(out, k)
			}
		}
	}
	return out
}
