// Package c25 ties the Coq model of the address-translation kernels to the real
// address translator / TLB and records the event history of real translation
// stacks (address translator, 1-3 TLB levels, optional MMU cache, MMU or GMMU)
// for the Coq acceptor of C25.
package c25

import (
	"encoding/json"
	"fmt"

	"github.com/sarchlab/akita/v5/hooking"
	"github.com/sarchlab/akita/v5/mem"
	"github.com/sarchlab/akita/v5/mem/memcontrolprotocol"
	"github.com/sarchlab/akita/v5/mem/memprotocol"
	"github.com/sarchlab/akita/v5/mem/vm"
	"github.com/sarchlab/akita/v5/mem/vm/addresstranslator"
	"github.com/sarchlab/akita/v5/mem/vm/gmmu"
	"github.com/sarchlab/akita/v5/mem/vm/mmu"
	"github.com/sarchlab/akita/v5/mem/vm/mmuCache"
	"github.com/sarchlab/akita/v5/mem/vm/tlb"
	"github.com/sarchlab/akita/v5/mem/vm/vmprotocol"
	"github.com/sarchlab/akita/v5/messaging"
	"github.com/sarchlab/akita/v5/timing"

	"verifharness/internal/hx"
	"verifharness/internal/memdrv"
)

// ---------------------------------------------------------------- inputs

type atIn struct {
	K     uint64 `json:"k"`
	PID   uint32 `json:"pid"`
	VAddr uint64 `json:"vaddr"`
	PPage uint64 `json:"ppage"`
}

type pageIn struct {
	PID   uint32 `json:"pid"`
	VAddr uint64 `json:"vaddr"`
}

type tlbIn struct {
	Log2   uint64   `json:"log2"`
	NSets  int      `json:"nsets"`
	VAddr  uint64   `json:"vaddr"`
	Cached []pageIn `json:"cached"`
	Addrs  []uint64 `json:"addrs"`
	FPID   uint32   `json:"fpid"`
}

type tlbCfg struct {
	Sets    int `json:"sets"`
	Ways    int `json:"ways"`
	MSHR    int `json:"mshr"`
	Latency int `json:"latency"`
	Width   int `json:"width"`
}

type stackOp struct {
	// "acc": access (PID, VAddr, Write); "map": page-table insert/update of page index Page of
	// PID to frame PAddr; "inv": invalidate pages Pages of PID at every caching level
	// (Pause -> Invalidate -> Enable); "bar": wait until no access is pending
	K     string `json:"k"`
	PID   uint32 `json:"pid,omitempty"`
	VAddr uint64 `json:"va,omitempty"`
	Write bool   `json:"w,omitempty"`
	Page  uint64 `json:"pg,omitempty"`
	PAddr uint64 `json:"pa,omitempty"`
	Pages []uint64 `json:"pgs,omitempty"`
	All   bool   `json:"all,omitempty"` // inv: empty address filter (everything of PID / everything)
	Drain bool   `json:"drain,omitempty"`
	Gap   int    `json:"gap,omitempty"`
}

type stackIn struct {
	K        uint64    `json:"k"`
	TLBs     []tlbCfg  `json:"tlbs"`
	MMUCache bool      `json:"mmu_cache"`
	GMMU     bool      `json:"gmmu"`
	Latency  int       `json:"latency"`
	Inflight int       `json:"inflight"`
	Buf      int       `json:"buf"`
	MemDelay []int     `json:"mem_delay"`
	Ops      []stackOp `json:"ops"`
}

type input struct {
	AT    *atIn    `json:"at,omitempty"`
	TLB   *tlbIn   `json:"tlb,omitempty"`
	Stack *stackIn `json:"stack,omitempty"`
}

// ---------------------------------------------------------------- AT kernel

type atObs struct {
	VPage  uint64  `json:"vpage"`
	PAddr  *uint64 `json:"paddr"`
	Panic  string  `json:"panic,omitempty"`
	Answer bool    `json:"answered"`
}

func runAT(in *atIn) (hx.Case, error) {
	o := atObs{}
	sim := memdrv.NewSim()
	var at *addresstranslator.Comp
	if p, msg := hx.Try(func() {
		spec := addresstranslator.DefaultSpec()
		spec.Log2PageSize = in.K
		spec.DeviceID = 1
		spec.NumReqPerCycle = 1
		at = addresstranslator.MakeBuilder().WithRegistrar(sim.Reg).WithSpec(spec).
			WithResources(addresstranslator.Resources{
				MemProviderMapper:         &mem.SinglePortMapper{Port: "Drv.D0"},
				TranslationProviderMapper: &mem.SinglePortMapper{Port: "Drv.D1"}}).Build("AT")
	}); p {
		return hx.Case{}, fmt.Errorf("building the address translator panicked: %s", msg)
	}
	sim.AddPorts(at, 4, "Top", "Bottom", "Translation", "Control")
	d := sim.NewDriver("Drv", 1*timing.GHz, 4, "Top", "D0", "D1", "Ctrl")
	sim.Connect(d.GetPortByName("Top"), at.GetPortByName("Top"))
	sim.Connect(d.GetPortByName("D0"), at.GetPortByName("Bottom"))
	sim.Connect(d.GetPortByName("D1"), at.GetPortByName("Translation"))
	sim.Connect(d.GetPortByName("Ctrl"), at.GetPortByName("Control"))
	sent := false
	seen := 0
	d.TickFn = func(dd *memdrv.Driver) bool {
		progress := dd.Drain()
		if !sent {
			top := dd.GetPortByName("Top")
			meta := messaging.MsgMeta{ID: memdrv.NewID(), Src: top.AsRemote(), Dst: at.GetPortByName("Top").AsRemote(),
				TrafficClass: "memprotocol.ReadReq", TrafficBytes: 12}
			top.Send(memprotocol.ReadReq{MsgMeta: meta, Address: in.VAddr, AccessByteSize: 4, PID: vm.PID(in.PID)})
			sent = true
			progress = true
		}
		for ; seen < len(dd.Log); seen++ {
			rc := dd.Log[seen]
			switch m := rc.Msg.(type) {
			case vmprotocol.TranslationReq:
				o.VPage = m.VAddr
				p := dd.GetPortByName("D1")
				rsp := vmprotocol.TranslationRsp{Page: vm.Page{PID: m.PID, VAddr: m.VAddr, PAddr: in.PPage,
					PageSize: uint64(1) << (in.K % 64), Valid: true, DeviceID: 1}}
				rsp.ID = memdrv.NewID()
				rsp.Src = p.AsRemote()
				rsp.Dst = m.Src
				rsp.RspTo = m.ID
				rsp.TrafficClass = "vmprotocol.TranslationRsp"
				p.Send(rsp)
			case memprotocol.ReadReq:
				a := m.Address
				o.PAddr = &a
				p := dd.GetPortByName("D0")
				rsp := memprotocol.DataReadyRsp{Data: make([]byte, 4)}
				rsp.ID = memdrv.NewID()
				rsp.Src = p.AsRemote()
				rsp.Dst = m.Src
				rsp.RspTo = m.ID
				rsp.TrafficClass = "memprotocol.DataReadyRsp"
				p.Send(rsp)
			case memprotocol.DataReadyRsp:
				o.Answer = true
			}
			progress = true
		}
		return progress
	}
	d.TickLater()
	if p, msg := hx.Try(func() {
		if err := sim.Engine.Run(); err != nil {
			panic(err)
		}
	}); p {
		o.Panic = msg
		o.PAddr = nil
	}
	pa := hx.None()
	if o.PAddr != nil {
		pa = hx.Some(hx.N(*o.PAddr))
	}
	c := hx.Case{Obs: o}
	c.Coq = hx.App("ATCase", hx.N(in.K), hx.N(uint64(in.PID)), hx.N(in.VAddr), hx.N(in.PPage), hx.N(o.VPage), pa)
	c.Tags = []string{"kind:at", fmt.Sprintf("k:%d", in.K)}
	c.Nontrivial = in.K < 64 && in.VAddr%(uint64(1)<<in.K) != 0 && o.PAddr != nil
	return c, nil
}

// ---------------------------------------------------------------- TLB kernel

type tlbObs struct {
	Set  *uint64  `json:"set"`
	Left []pageIn `json:"left"`
	Note string   `json:"note,omitempty"`
}

func runTLB(in *tlbIn) (hx.Case, error) {
	o := tlbObs{}
	psize := uint64(1) << in.Log2
	sim := memdrv.NewSim()
	spec := tlb.DefaultSpec()
	spec.NumSets = in.NSets
	spec.NumWays = len(in.Cached) + 2
	spec.Log2PageSize = in.Log2
	spec.MSHRSize = 4
	spec.Latency = 2
	spec.NumReqPerCycle = 1
	t := tlb.MakeBuilder().WithRegistrar(sim.Reg).WithSpec(spec).
		WithResources(tlb.Resources{TranslationProviderMapper: &mem.SinglePortMapper{Port: "Drv.D0"}}).Build("TLB")
	sim.AddPorts(t, 4, "Top", "Bottom", "Control")
	d := sim.NewDriver("Drv", 1*timing.GHz, 4, "Top", "D0", "Ctrl")
	sim.Connect(d.GetPortByName("Top"), t.GetPortByName("Top"))
	sim.Connect(d.GetPortByName("D0"), t.GetPortByName("Bottom"))
	sim.Connect(d.GetPortByName("Ctrl"), t.GetPortByName("Control"))
	// phase 0: probe request for the set index; phase 1..n: fill; then pause, invalidate
	type step struct {
		req  *pageIn
		ctrl int
	}
	var steps []step
	probe := pageIn{PID: 7, VAddr: in.VAddr / psize * psize}
	steps = append(steps, step{req: &probe})
	for i := range in.Cached {
		steps = append(steps, step{req: &in.Cached[i]})
	}
	steps = append(steps, step{ctrl: 1 + int(memcontrolprotocol.CmdPause)}, step{ctrl: 1 + int(memcontrolprotocol.CmdInvalidate)})
	cur, waiting, seen := 0, false, 0
	d.TickFn = func(dd *memdrv.Driver) bool {
		progress := dd.Drain()
		for ; seen < len(dd.Log); seen++ {
			rc := dd.Log[seen]
			switch m := rc.Msg.(type) {
			case vmprotocol.TranslationReq:
				p := dd.GetPortByName("D0")
				rsp := vmprotocol.TranslationRsp{Page: vm.Page{PID: m.PID, VAddr: m.VAddr, PAddr: m.VAddr + 1<<40,
					PageSize: psize, Valid: true}}
				rsp.ID = memdrv.NewID()
				rsp.Src = p.AsRemote()
				rsp.Dst = m.Src
				rsp.RspTo = m.ID
				rsp.TrafficClass = "vmprotocol.TranslationRsp"
				p.Send(rsp)
			case vmprotocol.TranslationRsp, memcontrolprotocol.Rsp:
				waiting = false
				if cur == 0 {
					// the probe has been answered: where did the fill go?
					for si := range t.State.Sets {
						for _, b := range t.State.Sets[si].Blocks {
							if b.Page.Valid && b.Page.PID == 7 && b.Page.VAddr == probe.VAddr {
								s := uint64(si)
								o.Set = &s
							}
						}
					}
				}
				cur++
			}
			progress = true
		}
		if !waiting && cur < len(steps) {
			st := steps[cur]
			if st.req != nil {
				top := dd.GetPortByName("Top")
				req := vmprotocol.TranslationReq{VAddr: st.req.VAddr, PID: vm.PID(st.req.PID), DeviceID: 1}
				req.ID = memdrv.NewID()
				req.Src = top.AsRemote()
				req.Dst = t.GetPortByName("Top").AsRemote()
				req.TrafficClass = "vmprotocol.TranslationReq"
				top.Send(req)
			} else {
				cp := dd.GetPortByName("Ctrl")
				req := memcontrolprotocol.Req{Command: memcontrolprotocol.Command(st.ctrl - 1)}
				if req.Command == memcontrolprotocol.CmdInvalidate {
					req.Addresses = in.Addrs
					req.PID = vm.PID(in.FPID)
				}
				req.ID = memdrv.NewID()
				req.Src = cp.AsRemote()
				req.Dst = t.GetPortByName("Control").AsRemote()
				req.TrafficClass = "memcontrolprotocol.Req"
				cp.Send(req)
			}
			waiting = true
			progress = true
		}
		return progress
	}
	d.TickLater()
	if p, msg := hx.Try(func() {
		if err := sim.Engine.Run(); err != nil {
			panic(err)
		}
	}); p {
		o.Note = "panic: " + msg
	}
	if cur != len(steps) {
		o.Note += fmt.Sprintf(" stopped at step %d of %d", cur, len(steps))
	}
	for _, pg := range in.Cached {
		for si := range t.State.Sets {
			for _, b := range t.State.Sets[si].Blocks {
				if b.Page.Valid && uint32(b.Page.PID) == pg.PID && b.Page.VAddr == pg.VAddr {
					o.Left = append(o.Left, pg)
				}
			}
		}
	}
	set := hx.None()
	if o.Set != nil {
		set = hx.Some(hx.N(*o.Set))
	}
	pl := func(ps []pageIn) string {
		s := make([]string, len(ps))
		for i, p := range ps {
			s[i] = hx.T(hx.N(uint64(p.PID)), hx.N(p.VAddr))
		}
		return hx.L(s)
	}
	c := hx.Case{Obs: o}
	c.Coq = hx.App("TLBCase", hx.N(psize), hx.N(uint64(in.NSets)), hx.N(uint64(spec.NumWays)), hx.N(probe.VAddr), set,
		hx.LN(in.Addrs), hx.N(uint64(in.FPID)), pl(in.Cached), pl(o.Left))
	c.Tags = []string{"kind:tlb"}
	c.Nontrivial = len(o.Left) > 0 && len(o.Left) < len(in.Cached)
	return c, nil
}

func run(raw json.RawMessage) (hx.Case, error) {
	var in input
	if err := hx.UJ(raw, &in); err != nil {
		return hx.Case{}, err
	}
	switch {
	case in.AT != nil:
		return runAT(in.AT)
	case in.TLB != nil:
		return runTLB(in.TLB)
	case in.Stack != nil:
		return runStack(in.Stack)
	}
	return hx.Case{}, fmt.Errorf("empty input")
}

var _ = hooking.HookCtx{}
var _ = gmmu.DefaultSpec
var _ = mmu.DefaultSpec
var _ = mmuCache.DefaultSpec
