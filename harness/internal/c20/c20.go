// Package c20 ties the Coq model of mem/storage.go and mem/storage_checkpoint.go
// to the implementation: a history of Read/Write/checkpoint operations is run on
// a real mem.Storage and every result is recorded.
package c20

import (
	"bytes"
	"encoding/binary"
	"encoding/json"
	"fmt"

	"github.com/sarchlab/akita/v5/mem"

	"verifharness/internal/hx"
)

type opIn struct {
	K string `json:"k"` // r | w | ck | lt | ls | sv (save aside) | rs (load the stream kept aside into the current storage)
	A uint64 `json:"a,omitempty"`
	N uint64 `json:"n,omitempty"` // read length / truncation selector / header capacity
	U uint64 `json:"u,omitempty"` // header unit size
	D []byte `json:"d,omitempty"`
}

type input struct {
	Cap  uint64 `json:"cap"`
	Unit uint64 `json:"unit"`
	Ops  []opIn `json:"ops"`
}

type obsOut struct {
	Kind   string `json:"kind"` // ok | err | panic
	Bytes  []byte `json:"bytes,omitempty"`
	Stream int    `json:"stream_len,omitempty"`
}

const maxSafeLen = 1 << 20

func rres(p bool, err error, data []byte) (string, obsOut) {
	switch {
	case p:
		return "(BRes RPanic)", obsOut{Kind: "panic"}
	case err != nil:
		return "(BRes RErr)", obsOut{Kind: "err"}
	default:
		return "(BRes (ROk " + hx.Bytes(data) + "))", obsOut{Kind: "ok", Bytes: data}
	}
}

func run(raw json.RawMessage) (hx.Case, error) {
	var in input
	if err := hx.UJ(raw, &in); err != nil {
		return hx.Case{}, err
	}
	st := mem.NewStorageWithUnitSize(in.Cap, in.Unit)
	var aside []byte // stream kept by the last "sv"
	haveAside := false
	var ops, obs []string
	var outs []obsOut
	tags := map[string]bool{}
	nontrivial := false
	for _, o := range in.Ops {
		switch o.K {
		case "r":
			// lengths between 2^20 and 2^50 could make the implementation allocate
			// for minutes; the generators never produce them
			// (in-range reads of more than 2^20 bytes are not run: the implementation
			// would allocate them)
			if o.N > maxSafeLen && (o.N < 1<<50 || (o.A+o.N >= o.A && o.A+o.N <= in.Cap)) {
				return hx.Case{}, fmt.Errorf("read length %d not supported by the harness", o.N)
			}
			var data []byte
			var err error
			p, _ := hx.Try(func() { data, err = st.Read(o.A, o.N) })
			s, ob := rres(p, err, data)
			ops = append(ops, hx.App("ORead", hx.N(o.A), hx.N(o.N)))
			obs = append(obs, s)
			outs = append(outs, ob)
			classify(tags, &nontrivial, in, "read", o.A, o.N)
		case "w":
			var err error
			p, _ := hx.Try(func() { err = st.Write(o.A, o.D) })
			s, ob := rres(p, err, nil)
			ops = append(ops, hx.App("OWrite", hx.N(o.A), hx.Bytes(o.D)))
			obs = append(obs, s)
			outs = append(outs, ob)
			classify(tags, &nontrivial, in, "write", o.A, uint64(len(o.D)))
		case "ck":
			var buf bytes.Buffer
			if err := st.SaveCheckpoint(&buf); err != nil {
				return hx.Case{}, err
			}
			fresh := mem.NewStorageWithUnitSize(in.Cap, in.Unit)
			err := fresh.LoadCheckpoint(bytes.NewReader(buf.Bytes()))
			same := false
			if err == nil {
				st = fresh
				// the restored storage must save to the very same stream
				var again bytes.Buffer
				if err2 := st.SaveCheckpoint(&again); err2 != nil {
					return hx.Case{}, err2
				}
				same = bytes.Equal(again.Bytes(), buf.Bytes())
			}
			ops = append(ops, "OCkpt")
			obs = append(obs, hx.App("BCkpt", hx.Bytes(buf.Bytes()), hx.B(err == nil), hx.B(same)))
			outs = append(outs, obsOut{Kind: map[bool]string{true: "ok", false: "err"}[err == nil], Stream: buf.Len()})
			tags["ckpt"] = true
		case "lt":
			var buf bytes.Buffer
			if err := st.SaveCheckpoint(&buf); err != nil {
				return hx.Case{}, err
			}
			k := o.N % uint64(buf.Len())
			err := st.LoadCheckpoint(bytes.NewReader(buf.Bytes()[:k]))
			ops = append(ops, hx.App("OLoadTrunc", hx.N(k)))
			obs = append(obs, hx.App("BLoad", hx.B(err == nil)))
			outs = append(outs, obsOut{Kind: map[bool]string{true: "ok", false: "err"}[err == nil], Stream: int(k)})
			tags["load:truncated"] = true
		case "ls":
			var buf bytes.Buffer
			if err := st.SaveCheckpoint(&buf); err != nil {
				return hx.Case{}, err
			}
			b := append([]byte{}, buf.Bytes()...)
			binary.LittleEndian.PutUint64(b[0:8], o.N)
			binary.LittleEndian.PutUint64(b[8:16], o.U)
			err := st.LoadCheckpoint(bytes.NewReader(b))
			ops = append(ops, hx.App("OLoadShape", hx.N(o.N), hx.N(o.U)))
			obs = append(obs, hx.App("BLoad", hx.B(err == nil)))
			outs = append(outs, obsOut{Kind: map[bool]string{true: "ok", false: "err"}[err == nil]})
			if o.N == in.Cap && o.U == in.Unit {
				tags["load:same-shape"] = true
			} else {
				tags["load:other-shape"] = true
			}
		case "sv":
			var buf bytes.Buffer
			if err := st.SaveCheckpoint(&buf); err != nil {
				return hx.Case{}, err
			}
			aside = append([]byte{}, buf.Bytes()...)
			haveAside = true
			ops = append(ops, "OSave")
			obs = append(obs, hx.App("BSave", hx.Bytes(aside)))
			outs = append(outs, obsOut{Kind: "ok", Stream: len(aside)})
			tags["save-aside"] = true
		case "rs":
			ok := false
			if haveAside {
				// into the CURRENT storage, whatever it has allocated since the save
				ok = st.LoadCheckpoint(bytes.NewReader(aside)) == nil
				tags["restore:into-dirty-storage"] = true
				nontrivial = true
			} else {
				tags["restore:nothing-saved"] = true
			}
			ops = append(ops, "ORestore")
			obs = append(obs, hx.App("BLoad", hx.B(ok)))
			outs = append(outs, obsOut{Kind: map[bool]string{true: "ok", false: "err"}[ok]})
		default:
			return hx.Case{}, fmt.Errorf("unknown op %q", o.K)
		}
	}
	c := hx.Case{Obs: outs, Nontrivial: nontrivial}
	c.Coq = hx.App("mk_case", hx.N(in.Cap), hx.N(in.Unit), hx.L(ops), hx.L(obs))
	if in.Unit == 0 {
		tags["unit:zero"] = true
	}
	for t := range tags {
		c.Tags = append(c.Tags, t)
	}
	return c, nil
}

// classify tags an access by where it lies relative to the capacity, the top of
// the address space and the unit grid.
func classify(tags map[string]bool, nontrivial *bool, in input, kind string, a, n uint64) {
	end := a + n
	wraps := end < a
	switch {
	case wraps:
		tags[kind+":wraps-2^64"] = true
		*nontrivial = true
	case a == in.Cap:
		tags[kind+":at-capacity"] = true
		*nontrivial = true
	case a < in.Cap && end > in.Cap:
		tags[kind+":spans-capacity"] = true
		*nontrivial = true
	case a > in.Cap:
		tags[kind+":beyond-capacity"] = true
	case end == in.Cap && n > 0:
		tags[kind+":ends-at-capacity"] = true
		*nontrivial = true
	default:
		tags[kind+":inside"] = true
	}
	if in.Unit > 0 && !wraps && n > 0 && a/in.Unit != (end-1)/in.Unit && end <= in.Cap {
		tags[kind+":crosses-unit"] = true
		*nontrivial = true
	}
}

func gen(r *hx.Rand, tier string) []json.RawMessage {
	n := 360
	if tier == "thorough" {
		n = 6000
	}
	var out []json.RawMessage
	top := ^uint64(0)

	// directed: boundary accesses for a grid of shapes
	for _, cp := range []uint64{0, 1, 7, 16, 100, 4096, 1<<32 + 5, 1 << 63, top, top - 5} {
		for _, un := range []uint64{1, 2, 3, 8, 16, 64, 4096} {
			if un == 4096 && cp != 100 {
				continue
			}
			var ops []opIn
			w := func(a uint64, d []byte) { ops = append(ops, opIn{K: "w", A: a, D: d}) }
			rd := func(a, l uint64) { ops = append(ops, opIn{K: "r", A: a, N: l}) }
			lo := uint64(0)
			if cp > 24 {
				lo = cp - 24
			}
			tail := func() { rd(lo, cp-lo) }
			if cp >= 3 {
				w(cp-3, []byte{1, 2, 3}) // ends exactly at the capacity
			}
			tail()
			w(cp, []byte{9})               // at the capacity
			w(cp-min64(cp, 2), r.Bytes(4)) // spans the capacity
			w(cp, nil)                     // empty write at the capacity: fine
			w(cp+1, nil)                   // empty write beyond (wraps to 0 for cp = 2^64-1)
			rd(cp, 1)                      // at the capacity
			rd(cp, 0)                      // empty read at the capacity
			rd(cp+1, 0)                    //
			rd(cp-min64(cp, 1), 2)         // spans
			rd(top-3, 8)                   // wraps
			rd(5, top-2)                   // wraps, huge
			if cp < top {
				rd(0, top) // huge, no wrap, beyond
			}
			if cp < 1<<63 {
				rd(min64(cp, 3), 1<<63)
			}
			w(top-1, []byte{1, 2, 3, 4}) // wraps
			w(top, []byte{7})            //
			w(top, []byte{7, 8})         // wraps
			tail()
			ops = append(ops, opIn{K: "ck"})
			tail()
			out = append(out, hx.J(input{cp, un, ops}))
		}
	}
	// rollback: save, keep writing into units inside and outside the saved set, read (which
	// allocates zero units), load the earlier stream into the dirty storage, read everything back
	for _, un := range []uint64{1, 3, 4, 8} {
		for _, cp := range []uint64{5 * un, 7*un + 2, 40} {
			rd := opIn{K: "r", A: 0, N: cp}
			out = append(out, hx.J(input{cp, un, []opIn{
				{K: "w", A: un, D: []byte{1, 2}}, {K: "sv"},
				{K: "w", A: 3 * un, D: []byte{7, 7, 7}}, {K: "w", A: un, D: []byte{9}}, {K: "r", A: 4 * un, N: 1},
				rd, {K: "rs"}, rd, {K: "ck"}, rd}}))
			out = append(out, hx.J(input{cp, un, []opIn{
				{K: "rs"}, {K: "sv"}, {K: "w", A: 0, D: []byte{5}}, {K: "w", A: cp - 1, D: []byte{6}}, {K: "rs"}, rd,
				{K: "w", A: 2 * un, D: []byte{3}}, {K: "sv"}, {K: "w", A: 2 * un, D: []byte{0}}, {K: "r", A: 0, N: 1}, {K: "ck"}, {K: "rs"}, rd}}))
		}
	}
	// unit size zero: division by zero panics as soon as a unit is touched
	out = append(out, hx.J(input{16, 0, []opIn{{K: "r", A: 0, N: 0}, {K: "r", A: 3, N: 2}, {K: "w", A: 1, D: []byte{1}},
		{K: "r", A: 16, N: 1}, {K: "w", A: 20, D: []byte{1}}, {K: "ck"}}}))

	for len(out) < n {
		var cp, un uint64
		switch r.Pick(6, 2, 2) {
		case 0:
			cp = r.U64n(70)
			un = 1 + r.U64n(9)
		case 1:
			cp = r.U64n(20000)
			un = []uint64{1, 3, 7, 16, 24, 32}[r.Intn(6)]
		default:
			cp = top - r.U64n(100)
			un = 1 + r.U64n(12)
		}
		nops := r.Range(1, 12)
		var ops []opIn
		var touched []uint64
		pickAddr := func() uint64 {
			switch r.Pick(4, 3, 3, 1, 1) {
			case 0:
				if cp == 0 {
					return 0
				}
				return r.U64n(cp)
			case 1: // near a unit boundary
				k := r.U64n(cp/un + 2)
				return k*un - r.U64n(3) + r.U64n(3)
			case 2: // near the capacity
				return cp - r.U64n(3*un+2) + r.U64n(3)
			case 3:
				return top - r.U64n(2*un+2)
			default:
				if len(touched) > 0 {
					return touched[r.Intn(len(touched))] + r.U64n(un+1) - r.U64n(un+1)
				}
				return r.U64n(cp + 3)
			}
		}
		pickLen := func() uint64 {
			switch r.Pick(2, 5, 3, 1) {
			case 0:
				return r.U64n(3)
			case 1:
				return r.U64n(3*un + 2)
			case 2:
				return r.U64n(un + 1)
			default:
				return r.U64n(60)
			}
		}
		for i := 0; i < nops; i++ {
			switch r.Pick(10, 10, 2, 1, 1, 1, 2, 2) {
			case 0:
				a := pickAddr()
				l := pickLen()
				if l > 600 {
					l = 600
				}
				ops = append(ops, opIn{K: "w", A: a, D: r.Bytes(int(l))})
				touched = append(touched, a)
			case 1:
				a := pickAddr()
				l := pickLen()
				if r.Chance(1, 25) {
					l = top - r.U64n(1<<40) // huge
					if a+l >= a && a+l <= cp {
						a += 300 // keep it out of range: an in-range read of that size cannot be run
					}
				}
				ops = append(ops, opIn{K: "r", A: a, N: l})
			case 2:
				ops = append(ops, opIn{K: "ck"})
			case 3:
				ops = append(ops, opIn{K: "lt", N: r.U64()})
			case 4:
				ops = append(ops, opIn{K: "ls", N: cp, U: un})
			case 6:
				ops = append(ops, opIn{K: "sv"})
			case 7:
				ops = append(ops, opIn{K: "rs"})
			default:
				c2, u2 := cp, un
				if r.Bool() {
					c2 = cp + 1 + r.U64n(5)
				} else {
					u2 = un + 1 + r.U64n(5)
				}
				ops = append(ops, opIn{K: "ls", N: c2, U: u2})
			}
		}
		// half of the histories end with a rollback to the stream kept aside (or a save + more writes + rollback)
		if r.Bool() {
			if r.Bool() {
				ops = append(ops, opIn{K: "sv"})
				for j := r.Range(1, 3); j > 0; j-- {
					a := pickAddr()
					ops = append(ops, opIn{K: "w", A: a, D: r.Bytes(int(1 + r.U64n(2*un+1)))})
					touched = append(touched, a)
				}
				if r.Bool() {
					ops = append(ops, opIn{K: "r", A: pickAddr(), N: 1})
				}
			}
			ops = append(ops, opIn{K: "rs"})
		}
		// read back: everything for small storages, windows around writes otherwise
		if cp <= 70 {
			ops = append(ops, opIn{K: "r", A: 0, N: cp})
		} else {
			for _, a := range touched {
				if a < cp {
					lo := a - min64(a, un)
					l := min64(cp-lo, 3*un+8)
					if l <= 120 {
						ops = append(ops, opIn{K: "r", A: lo, N: l})
					}
				}
			}
		}
		out = append(out, hx.J(input{cp, un, ops}))
	}
	return out
}

func min64(a, b uint64) uint64 {
	if a < b {
		return a
	}
	return b
}

func shrink(raw json.RawMessage) []json.RawMessage {
	var in input
	if hx.UJ(raw, &in) != nil {
		return nil
	}
	var out []json.RawMessage
	for i := range in.Ops {
		ops := append(append([]opIn{}, in.Ops[:i]...), in.Ops[i+1:]...)
		out = append(out, hx.J(input{in.Cap, in.Unit, ops}))
	}
	for i, o := range in.Ops {
		if o.K == "w" && len(o.D) > 1 {
			ops := append([]opIn{}, in.Ops...)
			ops[i].D = o.D[:len(o.D)/2]
			out = append(out, hx.J(input{in.Cap, in.Unit, ops}))
		}
	}
	return out
}

func init() {
	hx.Register(&hx.Prop{
		ID:      "C20",
		Imports: "From Akita Require Import Lib.Base C20.Model C20.Exec.",
		Rule: "histories of Read/Write/checkpoint operations on mem.Storage. Directed: for capacities {0,1,7,16,100,4096,2^32+5,2^63,2^64-6,2^64-1} x unit sizes " +
			"{1,2,3,8,16,64,4096}: accesses ending at / starting at / spanning the capacity, empty accesses at and beyond it, ranges that wrap 2^64 " +
			"(small and huge lengths), then save/load and read-back. Random: small capacities (<70, units 1..9), mid (<20000), near 2^64; addresses uniform, " +
			"around unit boundaries, around the capacity, near 2^64, near earlier writes; lengths 0..3 units; save+load-into-fresh, truncated streams, " +
			"patched shape headers; final read-back of the whole (small) storage. One unit-size-0 case (panic). " +
			"Non-trivial: some access crosses a unit boundary, ends at / starts at / spans the capacity, or wraps. Distinct = distinct input hash.",
		Gen: gen, Run: run, Shrink: shrink,
	})
}
