// Package c37 ties the Coq model of the data_query tool
// (daisen2/internal/httpapi/agentloop.go) to the implementation through the
// verif-tagged shim of package daisen2, and runs a hostile query corpus through
// the real tool against a real SQLite trace file.
package c37

import (
	"context"
	"crypto/sha256"
	"database/sql"
	"encoding/hex"
	"encoding/json"
	"fmt"
	"io"
	"log"
	"os"
	"path/filepath"
	"sort"
	"strconv"
	"strings"
	"time"

	"github.com/sarchlab/akita/v5/daisen2"

	"verifharness/internal/hx"
)

type cellIn struct {
	T string  `json:"t"` // null | int | text | blob | float
	I int64   `json:"i,omitempty"`
	S []int   `json:"s,omitempty"` // bytes of text/blob
	F float64 `json:"f,omitempty"`
}

type input struct {
	Kind string `json:"kind"` // san | fmt | query
	// san / query
	SQL []int `json:"sql,omitempty"` // bytes of the query text (%DIR% is replaced by the case directory)
	Cap int   `json:"cap,omitempty"` // san: row cap argument
	// fmt
	RowCap  int        `json:"row_cap,omitempty"`
	ByteCap int        `json:"byte_cap,omitempty"`
	Cols    []string   `json:"cols,omitempty"`
	Rows    [][]cellIn `json:"rows,omitempty"`
	// query
	TimeoutMS int `json:"timeout_ms,omitempty"` // deadline of the request context (0 = none)
}

func init() { log.SetOutput(io.Discard) }

func toBytes(a []int) []byte {
	b := make([]byte, len(a))
	for i, x := range a {
		b[i] = byte(x)
	}
	return b
}

func ints(s string) []int {
	o := make([]int, len(s))
	for i := 0; i < len(s); i++ {
		o[i] = int(s[i])
	}
	return o
}

// ---------------------------------------------------------------- Coq terms

func sresTerm(out string, err error) string {
	if err == nil {
		return hx.App("SOk", pstr(out))
	}
	switch err.Error() {
	case "empty query":
		return "SEmpty"
	case "only a single statement is allowed":
		return "SMulti"
	case "only read-only SELECT/WITH queries are allowed":
		return "SPrefix"
	}
	return "(SUnknown " + strconv.Quote(err.Error()) + ")"
}

func clipCell(b []byte, cellCap int) []byte {
	if len(b) > cellCap+1 {
		return b[:cellCap+1] // the model only needs to know the cell is longer than the cap
	}
	return b
}

// cellTerm renders a value as scanned from database/sql into interface{}.
func cellTerm(v interface{}, cellCap int) string {
	switch t := v.(type) {
	case nil:
		return "CNull"
	case int64:
		return hx.App("CInt", hx.Z(t))
	case float64:
		return hx.App("CFloat", hx.Str(fmt.Sprintf("%g", t)))
	case string:
		return hx.App("CText", pbytes(clipCell([]byte(t), cellCap)))
	case []byte:
		return hx.App("CBlob", pbytes(clipCell(t, cellCap)))
	default:
		return hx.App("CFloat", hx.Str(fmt.Sprintf("%v", t)))
	}
}

func reported(out string) uint64 {
	if !strings.HasPrefix(out, "[") {
		return 1 << 62
	}
	i := 1
	for i < len(out) && out[i] >= '0' && out[i] <= '9' {
		i++
	}
	n, err := strconv.ParseUint(out[1:i], 10, 64)
	if err != nil {
		return 1 << 62
	}
	return n
}

// ---------------------------------------------------------------- sanitizer

func runSan(in input, c *hx.Case) {
	q := string(toBytes(in.SQL))
	out, err := daisen2.VerifSanitizeReadonlySQL(q, in.Cap)
	obs := sresTerm(out, err)
	c.Obs = map[string]any{"out": out, "err": fmt.Sprint(err)}
	c.Coq = hx.App("CSan", pstr(q), hx.N(uint64(in.Cap)), obs)
	tag := strings.Fields(strings.Trim(obs, "()"))[0]
	c.Tags = append(c.Tags, "san:"+tag)
	if err == nil && !strings.HasSuffix(out, q) && strings.Contains(out, " LIMIT ") {
		c.Tags = append(c.Tags, "san:limit-injected")
	}
	c.Nontrivial = err == nil || strings.Contains(q, ";")
}

// ---------------------------------------------------------------- formatter

var memDB *sql.DB

func quoteIdent(s string) string { return `"` + strings.ReplaceAll(s, `"`, `""`) + `"` }

func cellSQL(ci cellIn) string {
	switch ci.T {
	case "null":
		return "NULL"
	case "int":
		return strconv.FormatInt(ci.I, 10)
	case "float":
		s := strconv.FormatFloat(ci.F, 'e', -1, 64)
		return s
	case "text":
		return "CAST(x'" + hex.EncodeToString(toBytes(ci.S)) + "' AS TEXT)"
	default:
		return "x'" + hex.EncodeToString(toBytes(ci.S)) + "'"
	}
}

func cellInTerm(ci cellIn, cellCap int) string {
	switch ci.T {
	case "null":
		return "CNull"
	case "int":
		return hx.App("CInt", hx.Z(ci.I))
	case "float":
		return hx.App("CFloat", hx.Str(fmt.Sprintf("%g", ci.F)))
	case "text":
		return hx.App("CText", pbytes(clipCell(toBytes(ci.S), cellCap)))
	default:
		return hx.App("CBlob", pbytes(clipCell(toBytes(ci.S), cellCap)))
	}
}

func runFmt(in input, c *hx.Case) error {
	if memDB == nil {
		db, err := sql.Open("sqlite3", ":memory:")
		if err != nil {
			return err
		}
		db.SetMaxOpenConns(1)
		memDB = db
	}
	_, _, cellCap, _ := daisen2.VerifDataQueryLimits()
	nc := len(in.Cols)
	var sb strings.Builder
	sb.WriteString("SELECT ")
	for i, n := range in.Cols {
		if i > 0 {
			sb.WriteString(", ")
		}
		fmt.Fprintf(&sb, "column%d AS %s", i+1, quoteIdent(n))
	}
	sb.WriteString(" FROM (VALUES ")
	rows := in.Rows
	if len(rows) == 0 {
		sb.WriteString("(")
		for i := 0; i < nc; i++ {
			if i > 0 {
				sb.WriteString(",")
			}
			sb.WriteString("NULL")
		}
		sb.WriteString(")) WHERE 0")
	} else {
		for r, row := range rows {
			if r > 0 {
				sb.WriteString(",")
			}
			sb.WriteString("(")
			for i := 0; i < nc; i++ {
				if i > 0 {
					sb.WriteString(",")
				}
				sb.WriteString(cellSQL(row[i]))
			}
			sb.WriteString(")")
		}
		sb.WriteString(")")
	}
	rs, err := memDB.Query(sb.String())
	if err != nil {
		return fmt.Errorf("fmt query: %w", err)
	}
	out, ferr := daisen2.VerifFormatRows(rs, in.RowCap, in.ByteCap)
	rs.Close()

	colT := make([]string, nc)
	for i, n := range in.Cols {
		colT[i] = pstr(n)
	}
	rowT := make([]string, len(rows))
	for r, row := range rows {
		cs := make([]string, nc)
		for i := 0; i < nc; i++ {
			cs[i] = cellInTerm(row[i], cellCap)
		}
		rowT[r] = hx.L(cs)
	}
	obs := hx.None()
	if ferr == nil {
		obs = hx.Some(hx.T(pstr(out), hx.N(reported(out))))
	}
	c.Obs = map[string]any{"len": len(out), "err": fmt.Sprint(ferr), "head": clipStr(out, 120)}
	c.Coq = hx.App("CFmt", hx.N(uint64(cellCap)), hx.N(uint64(in.RowCap)), hx.N(uint64(in.ByteCap)),
		hx.L(colT), hx.L(rowT), obs)
	trunc := strings.Contains(out, "result truncated")
	if trunc {
		c.Tags = append(c.Tags, "fmt:truncated")
	} else {
		c.Tags = append(c.Tags, "fmt:complete")
	}
	if len(strings.Join(in.Cols, ","))+1 > in.ByteCap-96 {
		c.Tags = append(c.Tags, "fmt:long-header")
	}
	c.Nontrivial = trunc || len(rows) > 0
	return nil
}

func clipStr(s string, n int) string {
	if len(s) > n {
		return s[:n]
	}
	return s
}

// ---------------------------------------------------------------- end to end

func must(err error) {
	if err != nil {
		panic(err)
	}
}

func buildTrace(file string) {
	db, err := sql.Open("sqlite3", file)
	must(err)
	defer db.Close()
	tx, err := db.Begin()
	must(err)
	for _, s := range []string{
		`CREATE TABLE trace (ID INTEGER, ParentID INTEGER, Kind TEXT, What TEXT, Location INTEGER, StartTime REAL, EndTime REAL)`,
		`CREATE TABLE location (ID INTEGER, Locale TEXT)`,
		`CREATE TABLE milestone (ID INTEGER, TaskID INTEGER, Time REAL, Kind TEXT, What TEXT)`,
		`CREATE TABLE notes (id INTEGER PRIMARY KEY, body TEXT, raw BLOB)`,
		`CREATE TABLE big (n INTEGER, s TEXT)`,
		`INSERT INTO location VALUES (1,'GPU[0].L2Cache'),(2,'GPU[0].L1VCache[3]'),(3,'Driver, host')`,
	} {
		_, err := tx.Exec(s)
		must(err)
	}
	for i := 1; i <= 240; i++ {
		_, err := tx.Exec(`INSERT INTO trace VALUES (?,?,?,?,?,?,?)`, i, i/3, []string{"read", "write", "req_in"}[i%3],
			fmt.Sprintf("what,%d", i), 1+i%3, float64(i)*1.5e-9, float64(i)*1.5e-9+2.5e-8)
		must(err)
		if i%4 == 0 {
			_, err = tx.Exec(`INSERT INTO milestone VALUES (?,?,?,?,?)`, i, i, float64(i)*1e-9, "hw", "line1\nline2")
			must(err)
		}
	}
	_, err = tx.Exec(`INSERT INTO notes VALUES (1, ?, ?), (2, 'a,b,,c', x'2c002c'), (3, NULL, NULL), (4, '', zeroblob(10))`,
		strings.Repeat("long text, with commas; ", 400), []byte(strings.Repeat("\x01\x02,", 3000)))
	must(err)
	for i := 0; i < 2600; i++ {
		_, err := tx.Exec(`INSERT INTO big VALUES (?,?)`, i, fmt.Sprintf("r%04d%s", i, strings.Repeat("x", i%9)))
		must(err)
	}
	must(tx.Commit())
}

func fileHash(p string) string {
	b, err := os.ReadFile(p)
	if err != nil {
		return "absent"
	}
	h := sha256.Sum256(b)
	return hex.EncodeToString(h[:])
}

func listing(dir string) string {
	es, _ := os.ReadDir(dir)
	var n []string
	for _, e := range es {
		n = append(n, e.Name())
	}
	sort.Strings(n)
	return strings.Join(n, "|")
}

func dump(db *sql.DB) (string, error) {
	h := sha256.New()
	for _, t := range []string{"trace", "location", "milestone", "notes", "big", "sqlite_master"} {
		rows, err := db.Query("SELECT * FROM " + t + " ORDER BY rowid")
		if err != nil {
			return "", err
		}
		cols, _ := rows.Columns()
		for rows.Next() {
			vals := make([]interface{}, len(cols))
			ptrs := make([]interface{}, len(cols))
			for i := range vals {
				ptrs[i] = &vals[i]
			}
			if err := rows.Scan(ptrs...); err != nil {
				rows.Close()
				return "", err
			}
			fmt.Fprintf(h, "%s|%#v\n", t, vals)
		}
		err = rows.Err()
		rows.Close()
		if err != nil {
			return "", err
		}
	}
	return hex.EncodeToString(h.Sum(nil)), nil
}

var (
	tmpl     []byte
	tmplDump string
)

func runQuery(in input, c *hx.Case) error {
	rowCap, byteCap, cellCap, _ := daisen2.VerifDataQueryLimits()
	base, err := os.MkdirTemp("", "verif-c37-")
	if err != nil {
		return err
	}
	defer os.RemoveAll(base)
	dir := filepath.Join(base, "tracedir")
	must(os.Mkdir(dir, 0o755))
	file := filepath.Join(dir, "trace.sqlite3")
	ref := filepath.Join(base, "ref.sqlite3")
	if tmpl == nil { // the trace file is built once per process and copied for every case
		buildTrace(ref)
		b, rerr := os.ReadFile(ref)
		must(rerr)
		tmpl = b
	}
	must(os.WriteFile(file, tmpl, 0o644))
	must(os.WriteFile(ref, tmpl, 0o644))

	q := strings.ReplaceAll(string(toBytes(in.SQL)), "%DIR%", dir)

	srv := daisen2.NewReplayServer(file, "")
	pool := srv.VerifTraceDB()
	defer pool.Close()
	refDB, err := sql.Open("sqlite3", "file:"+ref+"?mode=ro&immutable=1")
	must(err)
	defer refDB.Close()
	if tmplDump == "" {
		tmplDump, err = dump(refDB)
		must(err)
	}
	wantDump := tmplDump

	hDB, hWal, ls := fileHash(file), fileHash(file+"-wal"), listing(dir)

	ctx := context.Background()
	cancel := func() {}
	if in.TimeoutMS > 0 {
		ctx, cancel = context.WithTimeout(ctx, time.Duration(in.TimeoutMS)*time.Millisecond)
	}
	t0 := time.Now()
	out, qerr := srv.VerifDataQueryTool(ctx, map[string]interface{}{"reason": "verification", "sql": q})
	took := time.Since(t0)
	cancel()

	integ := []bool{
		fileHash(file) == hDB,
		fileHash(file+"-wal") == hWal,
		listing(dir) == ls && listing(base) == "ref.sqlite3|tracedir",
		false, false, false, false, false,
	}
	// the server's own pool afterwards.  Order matters: the state the tool call left behind is
	// probed BEFORE any further data_query runs (a later successful call would reset the flag).
	var cnt int
	integ[4] = pool.QueryRow("SELECT count(*) FROM trace").Scan(&cnt) == nil && cnt == 240
	if got, derr := dump(pool); derr == nil && got == wantDump {
		integ[3] = true
	}
	// every pooled connection must have query_only off
	qoOff := true
	n := pool.Stats().OpenConnections
	var held []*sql.Conn
	for i := 0; i < n+1; i++ {
		cn, cerr := pool.Conn(context.Background())
		if cerr != nil {
			qoOff = false
			break
		}
		held = append(held, cn)
		var v int
		if cn.QueryRowContext(context.Background(), "PRAGMA query_only").Scan(&v) != nil || v != 0 {
			qoOff = false
		}
	}
	for _, cn := range held {
		cn.Close()
	}
	integ[6] = qoOff
	// the server writes through its pool (ensureIndex builds indexes on demand): a write must work
	// on whichever pooled connection it gets, and the index must really exist afterwards
	werrs := 0
	for i := 0; i < n+1; i++ {
		if _, werr := pool.Exec(fmt.Sprintf("CREATE INDEX IF NOT EXISTS verif_probe_%d ON trace(ID)", i)); werr != nil {
			werrs++
		}
	}
	var built int
	_ = pool.QueryRow("SELECT count(*) FROM sqlite_master WHERE type='index' AND name LIKE 'verif_probe_%'").Scan(&built)
	integ[7] = werrs == 0 && built == n+1
	second, serr := srv.VerifRunDataQuery(context.Background(), "SELECT 1 AS one")
	integ[5] = serr == nil && second == "[1 rows]\none\n1\n"

	// what the filter says, and what the accepted statement yields on the read-only copy
	safe, sanErr := daisen2.VerifSanitizeReadonlySQL(q, rowCap)
	obsSan := sresTerm(safe, sanErr)
	refT := hx.None()
	refNote := ""
	if sanErr == nil && (in.TimeoutMS == 0 || qerr == nil) {
		rctx, rcancel := context.WithTimeout(context.Background(), 20*time.Second)
		rs, rerr := refDB.QueryContext(rctx, safe)
		if rerr != nil {
			refNote = rerr.Error()
		}
		if rerr == nil {
			cols, _ := rs.Columns()
			colT := make([]string, len(cols))
			for i, n := range cols {
				colT[i] = pstr(n)
			}
			var rowT []string
			ok := true
			passed := 0 // bytes of rows handed to the model: past the byte cap the model has truncated already
			for len(rowT) <= rowCap && passed <= byteCap && rs.Next() {
				vals := make([]interface{}, len(cols))
				ptrs := make([]interface{}, len(cols))
				for i := range vals {
					ptrs[i] = &vals[i]
				}
				if rs.Scan(ptrs...) != nil {
					ok = false
					break
				}
				cs := make([]string, len(cols))
				for i, v := range vals {
					cs[i] = cellTerm(v, cellCap)
					switch t := v.(type) {
					case string:
						passed += min(len(t), cellCap) + 1
					case []byte:
						passed += min(len(t), cellCap) + 1
					default:
						passed += 2
					}
				}
				rowT = append(rowT, hx.L(cs))
			}
			tail := len(rowT) <= rowCap && passed <= byteCap && rs.Err() != nil
			refNote = fmt.Sprint(rs.Err())
			rs.Close()
			if ok {
				refT = hx.Some(hx.T(hx.L(colT), hx.L(rowT), hx.B(tail)))
			}
		}
		rcancel()
	}

	obs := ""
	tag := ""
	switch {
	case qerr == nil:
		obs, tag = hx.App("OOut", pstr(out)), "out"
	case strings.HasPrefix(qerr.Error(), "query failed:"):
		obs, tag = "OFailed", "sqlite-refused"
	default:
		st := sresTerm("", qerr)
		if strings.HasPrefix(st, "(SUnknown") {
			obs, tag = "OStreamErr", "stream-error"
		} else {
			obs, tag = hx.App("OSan", st), "filter-"+st
		}
	}
	bs := make([]string, len(integ))
	for i, b := range integ {
		bs[i] = hx.B(b)
	}
	c.Obs = map[string]any{"err": fmt.Sprint(qerr), "out_len": len(out), "head": clipStr(out, 100),
		"integrity": integ, "took_ms": took.Milliseconds(), "ref_err": refNote}
	c.Coq = hx.App("CQuery", hx.N(uint64(cellCap)), hx.N(uint64(rowCap)), hx.N(uint64(byteCap)), pstr(q), obsSan, refT,
		obs, hx.N(reported(out)), hx.App("mk_integrity", bs...))
	c.Tags = append(c.Tags, "query:"+tag)
	if in.TimeoutMS > 0 {
		c.Tags = append(c.Tags, "query:deadline")
	}
	if strings.Contains(out, "result truncated") {
		c.Tags = append(c.Tags, "query:truncated")
	}
	c.Nontrivial = true
	return nil
}

func run(raw json.RawMessage) (hx.Case, error) {
	var in input
	if err := hx.UJ(raw, &in); err != nil {
		return hx.Case{}, err
	}
	var c hx.Case
	switch in.Kind {
	case "san":
		runSan(in, &c)
	case "fmt":
		if err := runFmt(in, &c); err != nil {
			return c, err
		}
	case "query":
		if err := runQuery(in, &c); err != nil {
			return c, err
		}
	default:
		return c, fmt.Errorf("unknown kind %q", in.Kind)
	}
	return c, nil
}

func init() {
	hx.Register(&hx.Prop{
		ID:      "C37",
		Imports: "From Akita Require Import Lib.Base Lib.PackedBytes C37.Model C37.Exec.",
		Rule: "filter: a hostile corpus (multi-statement, comments hiding ';', CTE-smuggled writes, pragmas, ATTACH/VACUUM, " +
			"Unicode blanks and case-folding letters, LIMIT spellings) + random compositions of SQL fragments; formatter: random " +
			"result sets (NULL/int/float/text/blob cells, commas, newlines, long cells, long and many column names) pushed through " +
			"real sql.Rows with small row/byte caps around every boundary; end to end: the hostile corpus through the real data_query " +
			"tool against a fresh SQLite trace file per case (hash of file and -wal, directory listing, logical dump, pool checks), " +
			"including huge results and queries that exceed the request deadline. Non-trivial: an accepted or ';'-bearing text (filter), " +
			"a non-empty or truncated result (formatter), every end-to-end case. Distinct = distinct input hash.",
		Gen: gen, Run: run, Shrink: shrink,
	})
}
