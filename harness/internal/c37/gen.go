package c37

import (
	"encoding/json"
	"fmt"
	"strings"

	"verifharness/internal/hx"
)

// hostile corpus: every entry goes through the filter tie (san) and, unless
// marked, through the real tool against a real trace file (query).
var corpus = []string{
	// plain reads
	"SELECT COUNT(*) FROM trace", "select Kind, count(*) n from trace group by Kind order by n desc",
	"WITH x AS (SELECT 1 AS a) SELECT * FROM x", "  (SELECT 1)  ", "SELECT 1 UNION ALL SELECT 2", "VALUES (1)", "TABLE trace",
	"SELECT loc.Locale, COUNT(*) AS n FROM trace t JOIN location loc ON t.Location = loc.ID GROUP BY loc.Locale ORDER BY loc.Locale",
	"SELECT ID, StartTime, EndTime FROM trace WHERE ID < 6", "SELECT * FROM milestone LIMIT 3", "SELECT body, raw FROM notes",
	"SELECT NULL, 1, 2.5, 'a,b', x'2c41', 1e300, -0.0, 9223372036854775807, -9223372036854775807",
	// multi-statement, comments hiding ';'
	"SELECT 1; DROP TABLE trace", "SELECT 1;--", "SELECT 1; -- x\nDELETE FROM trace", "SELECT ';'", "SELECT 1 /* ; */", "SELECT 1 -- ;",
	";;;", "", "   \t\n", ";SELECT 1", "SELECT 1;;;  \n", "SELECT 1\x00; DROP TABLE trace", "SELECT 1\x00 DELETE FROM trace",
	"SELECT 1 --\n; DELETE FROM trace", "SELECT 1 /*", "SELECT '", "SELECT 1;\x00", "SELECT 1 ; ",
	// CTE-smuggled writes
	"WITH x AS (SELECT 1) DELETE FROM trace", "WITH x AS (SELECT 1) DELETE FROM trace RETURNING ID",
	"WITH x AS (SELECT 1) INSERT INTO trace SELECT * FROM trace", "WITH x(a) AS (VALUES(1)) UPDATE trace SET Kind='x'",
	"WITH x AS (SELECT 1) REPLACE INTO location VALUES (1,'x')", "WITH x AS (SELECT 1) INSERT INTO location VALUES (9,'z') RETURNING *",
	"WITH RECURSIVE c(x) AS (SELECT 1 UNION ALL SELECT x+1 FROM c WHERE x<5) UPDATE trace SET ID = ID + 1 RETURNING ID",
	// not SELECT/WITH
	"DELETE FROM trace", "DROP TABLE trace", "INSERT INTO trace VALUES (1)", "UPDATE trace SET Kind='x'", "PRAGMA table_info(trace)",
	"PRAGMA journal_mode=DELETE", "PRAGMA query_only=OFF", "pragma writable_schema=1", "ATTACH DATABASE '%DIR%/evil.db' AS e",
	"VACUUM INTO '%DIR%/copy.db'", "VACUUM", "REINDEX", "ANALYZE", "CREATE TABLE x(y)", "BEGIN", "COMMIT", "SAVEPOINT x",
	"EXPLAIN DELETE FROM trace", "CREATE TEMP TABLE t(x)", "DETACH DATABASE main", "ALTER TABLE trace ADD COLUMN z",
	// SELECT-prefixed attempts at side effects / files
	"SELECT load_extension('%DIR%/x.so')", "SELECT writefile('%DIR%/w.txt','y')", "SELECT * FROM pragma_table_info('trace')",
	"SELECT seq, name FROM pragma_database_list", "SELECT count(*) FROM pragma_journal_mode", "SELECT * FROM sqlite_master", "SELECT * FROM dbstat",
	"SELECT zeroblob(2000000000)", "SELECT hex(zeroblob(3000000))", "SELECT length(randomblob(100000))", "SELECT printf('%.*c', 5000000, 'x')",
	"SELECT sqlite_compileoption_used('ENABLE_FTS5')", "SELECT 1 INTO OUTFILE '%DIR%/o'", "SELECT * FROM trace INTO t2",
	"WITH x AS (SELECT 1) SELECT * FROM x; ATTACH '%DIR%/a.db' AS a", "SELECT 1 WHERE 1 IN (SELECT 1); VACUUM",
	"(SELECT 1) UNION (DELETE FROM trace)", "SELECT (DELETE FROM trace)", "SELECT * FROM (DELETE FROM trace RETURNING *)",
	"WITH d AS (DELETE FROM trace RETURNING *) SELECT * FROM d", "SELECT 1 FROM trace; PRAGMA query_only = OFF; DELETE FROM trace",
	// accepted by the filter, refused by SQLite while COMPILING the statement (prepare time)
	"SELECT Locaton FROM trace", "SELECT * FROM no_such_table", "SELECT ID FROM trace WHERE", "SELECT nosuchfunc(ID) FROM trace",
	"WITH x AS (SELECT 1) SELECT * FROM y", "SELECT ID, FROM trace", "SELECT * FROM trace GROUP", "select t.ID from trace u",
	"WITH x AS (SELECT 1) DELETE FROM trace RETURNING ID", "WITH x AS (SELECT 1) UPDATE trace SET Kind = 'q' RETURNING ID",
	"SELECT count(*) FROM trace ORDER BY nosuch", "SELECT 1 FROM trace JOIN location USING (nope)", "SELECT (1,2)", "SELECT 1 +",
	// refused while STEPPING (the statement compiles; query_only stops it inside the row loop)
	"WITH x AS (SELECT 1) DELETE FROM trace RETURNING ID /* limit 1 */", "WITH x AS (SELECT 1) INSERT INTO location VALUES (7,'s') RETURNING ID -- limit 2",
	"SELECT abs(-9223372036854775808)", "SELECT json_extract('{', '$.a') limit 1",
	// LIMIT spellings
	"SELECT * FROM big", "SELECT * FROM big LIMIT 99999999", "SELECT * FROM big limit 1 offset 5", "SELECT * FROM big -- limit 5",
	"SELECT 'limit 5', * FROM big", "SELECT * FROM big /* LIMIT 5 */", "SELECT * FROM big LIMIT\t2000", "SELECT * FROM big LIMIT\v5",
	"SELECT * FROM big ORDER BY n DESC LiMiT  7", "SELECT * FROM big LIMIT -1", "SELECT n AS unlimited 1 FROM big", "SELECT n AS nolimit FROM big",
	"SELECT * FROM big LIMIT (SELECT 3)", "SELECT * FROM big LIMIT", "SELECT n limit1 FROM big", "SELECT n _limit 1", "SELECT * FROM big LIMIT 5",
	// huge results, long cells, long headers
	"SELECT a.n, b.n FROM big a, big b", "SELECT printf('%0170d', n), s FROM big", "SELECT group_concat(s, char(10)) FROM big",
	"SELECT body FROM notes WHERE id = 1", "SELECT raw FROM notes WHERE id = 1",
	"SELECT " + manyCols(120) + " FROM trace WHERE ID < 40", "SELECT 1 AS a, 2 AS \"\", 3 AS \",\"",
	// Unicode blanks and case folding
	"ſELECT 1", "wıth x as (select 1) select * from x", " SELECT 1", " SELECT 1　", "ＳＥＬＥＣＴ 1",
	"SELECT 1", "\u0085SELECT 1\u0085;", "\xa0SELECT 1", "SELECT 1\xc2", "sElEcT 1", "wITh x as (select 2) select * from x", "KSELECT 1",
	"((( \t\n(SELECT 1", "( WITH x AS (SELECT 1) SELECT * FROM x )", "SELEC 1", "SELECTX", "WITHOUT", "WIT", "SELECT", "WITH",
}

func manyCols(n int) string {
	var sb strings.Builder
	for i := 0; i < n; i++ {
		if i > 0 {
			sb.WriteString(", ")
		}
		fmt.Fprintf(&sb, "ID AS col_%d", i)
	}
	return sb.String()
}

// very long column names around the real 64 KiB cap: thorough tier only (corpus/C37
// holds the same defect at a 200-byte cap, run first on every tier)
var longHeaders = []string{
	"SELECT 1 AS \"" + strings.Repeat("h,", 40000) + "\"", "SELECT " + manyCols(3000) + " FROM trace",
	"SELECT 1 AS " + strings.Repeat("k", 65400) + ", n FROM big", "SELECT 1 AS " + strings.Repeat("k", 65439) + ", n FROM big",
	"SELECT 1 AS " + strings.Repeat("k", 65440) + ", n FROM big", "SELECT 1 AS " + strings.Repeat("c", 70000),
}

var fragments = []string{
	"SELECT", "select", "WITH", "with", "SeLeCt", "ſelect", "wıth", " ", "  ", "\t", "\n", "\r", "\v", "\f", "(", ")", ";", ";;", "*", "1",
	"FROM", "trace", "big", "x", "AS", "LIMIT", "limit", "Limit", "LIMIT 5", "limit\t9", "limit\n\n 3", "limit\v3", "limit x", "nolimit 4", "limit_ 4",
	"_limit 4", "9limit 4", "-limit 4", "--", "/*", "*/", "'", "\"", ",", "DELETE", "DROP TABLE trace", "PRAGMA", " ", " ", "　", "\x85",
	"\xc2", "\xe2\x80", "\x00", "0", "OFFSET", "UNION", "İ", "K",
}

func gen(r *hx.Rand, tier string) []json.RawMessage {
	var out []json.RawMessage
	add := func(in input) { out = append(out, hx.J(in)) }

	// ---- the filter
	for _, q := range corpus {
		add(input{Kind: "san", SQL: ints(q), Cap: 1000})
	}
	for _, capv := range []int{0, 1, 7, 10, 99, 100, 1000, 123456789, 1<<62 + 12345} {
		add(input{Kind: "san", SQL: ints("SELECT * FROM trace"), Cap: capv})
	}
	ns := 450
	if tier == "thorough" {
		ns = 8000
	}
	for i := 0; i < ns; i++ {
		var sb strings.Builder
		k := 1 + r.Intn(8)
		if r.Chance(2, 3) { // usually start like an accepted statement
			for j := r.Intn(3); j > 0; j-- {
				sb.WriteString([]string{" ", "(", "\t", "\n", " ", "\r"}[r.Intn(6)])
			}
			sb.WriteString(fragments[r.Intn(7)])
			sb.WriteString(" ")
		}
		for j := 0; j < k; j++ {
			sb.WriteString(fragments[r.Intn(len(fragments))])
			if r.Chance(2, 3) {
				sb.WriteString(" ")
			}
		}
		for j := r.Intn(3); j > 0; j-- {
			sb.WriteString([]string{";", " ", "\n", "\t", "　", "\r", "\v"}[r.Intn(7)])
		}
		add(input{Kind: "san", SQL: ints(sb.String()), Cap: []int{5, 1000, 40}[r.Intn(3)]})
	}

	// ---- the formatter, small caps so that every boundary is crossed
	nf := 260
	if tier == "thorough" {
		nf = 2500
	}
	names := []string{"a", "b", "ID", "n", "col,umn", "with space", "été", "", "x\"y", strings.Repeat("longname", 9), "c"}
	for i := 0; i < nf; i++ {
		nc := 1 + r.Intn(4)
		cols := make([]string, nc)
		for j := range cols {
			cols[j] = names[r.Intn(len(names))]
			if r.Chance(1, 12) {
				cols[j] = strings.Repeat("H", 20+r.Intn(260))
			}
		}
		nr := r.Intn(9)
		if r.Chance(1, 6) {
			nr = 0
		}
		rows := make([][]cellIn, nr)
		for a := range rows {
			rows[a] = make([]cellIn, nc)
			for b := range rows[a] {
				rows[a][b] = randCell(r)
			}
		}
		byteCap := 97 + r.Intn(160)
		switch r.Pick(6, 2, 1, 1) {
		case 1:
			byteCap = 97 + r.Intn(12)
		case 2:
			byteCap = r.Intn(97) // below the reserve: budget collapses to 1
		case 3:
			byteCap = 4000 + r.Intn(6000)
		}
		add(input{Kind: "fmt", Cols: cols, Rows: rows, RowCap: r.Intn(nr + 2), ByteCap: byteCap})
	}
	// exact boundary sweep on one table
	for bc := 97; bc <= 140; bc++ {
		add(input{Kind: "fmt", Cols: []string{"k", "v"}, RowCap: 3, ByteCap: bc, Rows: [][]cellIn{
			{{T: "int", I: 1}, {T: "text", S: ints("abcdefgh")}}, {{T: "int", I: 22}, {T: "text", S: ints("ij,kl")}},
			{{T: "null"}, {T: "blob", S: []int{0, 255, 44}}}, {{T: "int", I: 4}, {T: "float", F: 0.5}}}})
	}
	// a cell right at / over the cell cap
	for _, n := range []int{4096, 4097} {
		add(input{Kind: "fmt", Cols: []string{"c"}, RowCap: 5, ByteCap: 20000,
			Rows: [][]cellIn{{{T: "text", S: ints(strings.Repeat("z", n))}}, {{T: "blob", S: ints(strings.Repeat(",", n))}}}})
	}

	// ---- end to end through the real tool
	bigReads := 0
	for _, q := range corpus {
		if strings.Contains(q, "FROM big") && !strings.Contains(q, "printf") {
			bigReads++
			if tier != "thorough" && bigReads%3 != 1 { // 1000-row results are bulky: a third of them in the quick tier
				continue
			}
		}
		add(input{Kind: "query", SQL: ints(q)})
	}
	if tier == "thorough" {
		for _, q := range longHeaders {
			add(input{Kind: "san", SQL: ints(q), Cap: 1000})
			add(input{Kind: "query", SQL: ints(q)})
		}
	}
	// queries that outlive the request deadline (bounded, so a lost interrupt cannot hang the run)
	slow := "WITH RECURSIVE c(x) AS (SELECT 1 UNION ALL SELECT x+1 FROM c WHERE x < 12000000) SELECT count(*) FROM c"
	add(input{Kind: "query", SQL: ints(slow), TimeoutMS: 150})
	add(input{Kind: "query", SQL: ints("SELECT count(*) FROM big a, big b, big c WHERE a.n + b.n + c.n = -1 AND a.n < 60"), TimeoutMS: 120})
	add(input{Kind: "query", SQL: ints("SELECT a.n, b.n FROM big a, big b"), TimeoutMS: 5000})
	if tier == "thorough" {
		for i := 0; i < 12; i++ {
			add(input{Kind: "query", SQL: ints(slow), TimeoutMS: 60 + 25*i})
		}
		// the real 15 s limit of the tool
		add(input{Kind: "query", SQL: ints("WITH RECURSIVE c(x) AS (SELECT 1 UNION ALL SELECT x+1 FROM c WHERE x < 400000000) SELECT count(*) FROM c")})
	}
	nq := 14
	if tier == "thorough" {
		nq = 150
	}
	tails := []string{"", " LIMIT 3", " limit 2000", " ORDER BY 1", " -- limit 1", " WHERE 1=0", "; DELETE FROM trace", " UNION ALL SELECT * FROM big",
		" RETURNING *", "/* x */", " LIMIT 1001"}
	heads := []string{"SELECT * FROM big", "SELECT n, s FROM big WHERE n % 7 = 0", "SELECT * FROM trace", "SELECT Kind, What FROM trace",
		"WITH x AS (SELECT * FROM big) SELECT * FROM x", "WITH x AS (SELECT 1) DELETE FROM big", "SELECT body FROM notes", "SELECT * FROM milestone",
		"select s || s from big", "SELECT n AS \"a,b\" FROM big"}
	for i := 0; i < nq; i++ {
		add(input{Kind: "query", SQL: ints(heads[r.Intn(len(heads))] + tails[r.Intn(len(tails))])})
	}
	return out
}

func randCell(r *hx.Rand) cellIn {
	switch r.Pick(2, 4, 4, 2, 1) {
	case 0:
		return cellIn{T: "null"}
	case 1:
		v := int64(r.U64n(2000)) - 1000
		if r.Chance(1, 5) {
			v = int64(r.U64()>>1) - int64(r.U64()>>2)
		}
		return cellIn{T: "int", I: v}
	case 2:
		n := r.Intn(14)
		b := make([]int, n)
		for i := range b {
			b[i] = []int{44, 44, 10, 32, 65, 97, 48, 34, 39, 195, 169, 9, 1 + r.Intn(255)}[r.Intn(13)]
		}
		return cellIn{T: "text", S: b}
	case 3:
		n := r.Intn(10)
		b := make([]int, n)
		for i := range b {
			b[i] = r.Intn(256)
			if r.Chance(1, 4) {
				b[i] = 44
			}
		}
		return cellIn{T: "blob", S: b}
	default:
		fs := []float64{0.5, 1.5, -2.25, 1e21, 1e-7, 123456789.125, 3.0, 1e300, 2.5e-8}
		return cellIn{T: "float", F: fs[r.Intn(len(fs))]}
	}
}

func shrink(raw json.RawMessage) []json.RawMessage {
	var in input
	if hx.UJ(raw, &in) != nil {
		return nil
	}
	var out []json.RawMessage
	switch in.Kind {
	case "fmt":
		for i := range in.Rows {
			c := in
			c.Rows = append(append([][]cellIn{}, in.Rows[:i]...), in.Rows[i+1:]...)
			out = append(out, hx.J(c))
		}
	case "san", "query":
		if n := len(in.SQL); n > 1 {
			c := in
			c.SQL = in.SQL[:n/2]
			out = append(out, hx.J(c))
			c2 := in
			c2.SQL = in.SQL[n/2:]
			out = append(out, hx.J(c2))
			c3 := in
			c3.SQL = in.SQL[:n-1]
			out = append(out, hx.J(c3))
		}
	}
	return out
}
